/-
Timed ring with application traffic, any number of stations: the hold-time logic bounds the real rotation
time.  Helper lemmas (C13 ring-level clause, general N).
-/
import ProfiVerif.Lemmas.TimedRingRot

namespace PV
open StationGap TokenRing

/-- Station-local part of the timing invariant (`acc` = when the station whose turn it is accepted the token,
`Eb` = bound of its hold deadline, `TT` = largest target rotation time). -/
structure TCore (cfg : Cfg) (TT : Nat) (n : Net) (v : NView) (acc Eb : Int) : Prop where
  ttr : ∀ (j : Nat) (st : NetStation), n.stations[j]? = some st → st.s.p.ttrTime ≤ TT
  big : cfg.b33 + cfg.P ≤ TT
  seen : acc ≤ n.bus.seen.getD v.x 0
  ph : TPh cfg v.ph v.sx.s v.H v.tr.start acc Eb

/-- **The station whose turn it is is polled** (any number of stations): the station-local part of the timing
invariant is kept, the other stations' records are untouched. -/
theorem rot_coreB {cfg : Cfg} {M : List Nat} {adr : Nat → Nat} {n : Net} {v : NView} (h : NInv cfg M adr n v)
    (hok : cfg.Ok) {TT : Nat} {acc Eb : Int} (t : TCore cfg TT n v acc Eb) (now : Int)
    (e : EvOkN cfg n v.tl v.x now) (n' : Net) (v' : NView) (inc : Bytes) (c : Ctx)
    (hp : n.poll v.x now = (n', inc, some (.ok c))) (hinv' : NInv cfg M adr n' v') (htl' : v'.tl = now)
    (hcase : (c.tx = none ∧ v'.tr = v.tr ∧ v'.ph = v.ph ∧ v'.x = v.x ∧ v'.H = v.H) ∨
      (∃ b, c.tx = some b ∧ v'.tr = { start := now, sender := v.x, bytes := b, dropped := false } ∧ v'.x = v.x ∧
        ((∃ g, v'.ph = .gap g ∧ v.ph.useLike) ∨ (v'.ph = .pass ∧ v.ph ≠ .pass) ∨
         (∃ hd pdu, b = frameSpec hd pdu ∧ hd.lengthByte pdu.length ≤ 249 ∧ (v'.ph = .holdT ∨ ∃ a, v'.ph = .await a) ∧
            v.ph.useLike)))) :
    TCore cfg TT n' v' acc Eb ∧ v'.x = v.x ∧ n'.stations.length = n.stations.length ∧
      (∀ j, j ≠ v.x → n'.stations[j]? = n.stations[j]?) ∧
      (∀ st, n.stations[v.x]? = some st → visitTime st.s.st = none → visitTime c.s.st = some now → False) := by
  obtain ⟨st, phy, rx, hst, hpoll, hset⟩ := Net.poll_inv n v.x now n' inc c hp
  rw [h.gx] at hst
  cases hst
  have hil : v.x < n.stations.length := h.xlt
  have hfr := (poll_frame v.sx.s v.sx.apps now phy rx c hpoll).1
  have hseen : n'.bus.seen = n.bus.seen.set v.x now := by
    have := Net.poll_seenN n v.x now; rw [hp] at this; exact this
  have hlen' : n'.stations.length = n.stations.length := by rw [hset, List.length_set]
  have httr' : ∀ (j : Nat) (st' : NetStation), n'.stations[j]? = some st' → st'.s.p.ttrTime ≤ TT := by
    intro j st' hj
    rw [hset] at hj
    by_cases hji : j = v.x
    · subst hji
      rw [List.getElem?_set_self hil] at hj
      cases hj
      show c.s.p.ttrTime ≤ TT
      rw [hfr]; exact t.ttr _ _ h.gx
    · rw [List.getElem?_set_ne (Ne.symm hji)] at hj; exact t.ttr _ _ hj
  have rel := poll_holdRel v.sx.s v.sx.apps now phy rx c h.okx.son h.xState hpoll
  have hxs : v.x < n.bus.seen.length := by rw [h.log.seen]; exact h.xlt
  have hacc : acc < now := by have := t.seen; have := e.own; omega
  have hgx' := hinv'.gx
  have hx' : v'.x = v.x := by
    rcases hcase with ⟨-, -, -, hx, -⟩ | ⟨b, -, -, hx, -⟩ <;> exact hx
  have hsx' : v'.sx = upSt v.sx c := by
    rw [hx', hset, List.getElem?_set_self hil] at hgx'
    exact (Option.some.inj hgx').symm
  have hcs : v'.sx.s = c.s := by rw [hsx']; rfl
  have hoth : ∀ j, j ≠ v.x → n'.stations[j]? = n.stations[j]? := by
    intro j hj
    rw [hset, List.getElem?_set_ne (Ne.symm hj)]
  have hseen' : acc ≤ n'.bus.seen.getD v'.x 0 := by
    rw [hx', hseen, seen_set_self _ _ _ hxs]; omega
  have hHnow := h.now_le_H v.x now e
  have hmar := hok.margin
  have hP := h.ph
  have hT := t.ph
  have hP' := hinv'.ph
  unfold PhaseOkN at hP hP'
  -- the bookkeeping of a visit phase after a poll
  have useStep : ∀ (hvis : visitTime v.sx.s.st = some acc)
      (halt : (v.sx.s.lastTokenTime = acc ∧ v.sx.s.endTokenHoldTime ≤ Eb) ∨
        (v.sx.s.lastTokenTime ≠ acc ∧ v.sx.s.lastTokenTime + ((v.sx.s.p.ttrTime : Nat) : Int) ≤ Eb)),
      (c.s.lastTokenTime = acc ∧ c.s.endTokenHoldTime ≤ Eb) ∨
        (c.s.lastTokenTime ≠ acc ∧ c.s.lastTokenTime + ((c.s.p.ttrTime : Nat) : Int) ≤ Eb) := by
    intro hvis halt
    rcases rel.upd acc hvis with hk | ⟨hne, hl, he⟩
    · rw [hk.1, hk.2, hfr]; exact halt
    · rcases halt with ⟨a1, -⟩ | ⟨-, a2⟩
      · exact absurd a1 hne
      · exact .inl ⟨hl, by omega⟩
  rcases hcase with ⟨htx, htr, hph, -, hH'⟩ | ⟨b, htx, htr, -, hkind⟩
  · -- nothing transmitted
    have hcls : ∀ (hvis : visitTime v.sx.s.st = some acc), visitTime c.s.st ≠ none →
        visitTime c.s.st = some acc ∧ (lateFlag v.sx.s.st = true → lateFlag c.s.st = true) := by
      intro hvis hnn
      rcases rel.cls acc hvis with a1 | a2 | a3 | ⟨da, sa, a4⟩
      · rw [a1.1]; exact ⟨hvis, id⟩
      · exact ⟨a2.1, fun _ => a2.2⟩
      · exact absurd a3 hnn
      · rw [htx] at a4; cases a4
    refine ⟨⟨httr', t.big, hseen', ?_⟩, hx', hlen', hoth, ?_⟩
    · rw [hph, hcs, hH', htr]
      rw [hph] at hP'
      cases hv : v.ph with
      | hold p1 =>
        rw [hv] at hT hP'
        obtain ⟨hp1, hvis, halt⟩ := hT
        obtain ⟨⟨d, f, hs⟩, -⟩ := hP'
        rw [hcs] at hs
        exact ⟨hp1, (hcls hvis (by rw [hs]; simp [visitTime])).1, useStep hvis halt⟩
      | holdT =>
        rw [hv] at hT hP'
        obtain ⟨⟨hvis, hfl, hLx, hE⟩, hH, hs0⟩ := hT
        obtain ⟨-, -, ⟨d, f, hs⟩, -⟩ := hP'
        rw [hcs] at hs
        obtain ⟨b1, b2⟩ := hcls hvis (by rw [hs]; simp [visitTime])
        rcases useStep hvis (.inl ⟨hLx, hE⟩) with ⟨u1, u2⟩ | ⟨u1, -⟩
        · exact ⟨⟨b1, b2 hfl, u1, u2⟩, hH, hs0⟩
        · exfalso
          rcases rel.upd acc hvis with hk | ⟨hne, -, -⟩
          · exact u1 (by rw [hk.1]; exact hLx)
          · exact hne hLx
      | await a =>
        rw [hv] at hT hP'
        obtain ⟨⟨hvis, hfl, hLx, hE⟩, hH, hs0⟩ := hT
        obtain ⟨-, -, ⟨d, hs⟩, -⟩ := hP'
        rw [hcs] at hs
        obtain ⟨b1, b2⟩ := hcls hvis (by rw [hs]; simp [visitTime])
        rcases useStep hvis (.inl ⟨hLx, hE⟩) with ⟨u1, u2⟩ | ⟨u1, -⟩
        · exact ⟨⟨b1, b2 hfl, u1, u2⟩, hH, hs0⟩
        · exfalso
          rcases rel.upd acc hvis with hk | ⟨hne, -, -⟩
          · exact u1 (by rw [hk.1]; exact hLx)
          · exact hne hLx
      | gap g =>
        rw [hv] at hT
        obtain ⟨hLx, hH, hs0⟩ := hT
        have hk := rel.keep (h.xVisit.2 (by rw [hv]; simp [PhaseN.useLike]))
        exact ⟨by rw [hk.1]; exact hLx, hH, hs0⟩
      | pass =>
        rw [hv] at hT
        obtain ⟨hLx, hH, hs0⟩ := hT
        have hk := rel.keep (h.xVisit.2 (by rw [hv]; simp [PhaseN.useLike]))
        exact ⟨by rw [hk.1]; exact hLx, hH, hs0⟩
    · intro st0 hst0 hvn hvs
      rw [h.gx] at hst0
      cases hst0
      have hnu : ¬ v.ph.useLike := fun hu => h.xVisit.1 hu hvn
      have hnu' : ¬ v'.ph.useLike := by rw [hph]; exact hnu
      have := hinv'.xVisit.2 hnu'
      rw [hcs, hvs] at this
      cases this
  · -- something transmitted
    have htxn : c.tx ≠ none := by rw [htx]; simp
    have hstart : v'.tr.start = now := by rw [htr]
    -- facts about a visit phase that transmits
    have useTx : v.ph.useLike → visitTime v.sx.s.st = some acc ∧ c.s.lastTokenTime = acc ∧ c.s.endTokenHoldTime ≤ Eb ∧
        now ≤ qb cfg acc Eb ∧
        (now + (cfg.cyc : Nat) ≤ qb cfg acc Eb ∨ (lateFlag v.sx.s.st = true)) := by
      intro hu
      have hq := qb_ge cfg acc Eb
      cases hv : v.ph with
      | hold p1 =>
        rw [hv] at hT hP
        obtain ⟨hp1, hvis, halt⟩ := hT
        obtain ⟨-, -, -, -, -, -, hH, -⟩ := hP
        have hl := rel.recd acc hvis htxn
        refine ⟨hvis, hl, ?_, by omega, .inl (by omega)⟩
        rcases useStep hvis halt with ⟨-, u2⟩ | ⟨u1, -⟩
        · exact u2
        · exact absurd hl u1
      | holdT =>
        rw [hv] at hT
        obtain ⟨⟨hvis, hfl, hLx, hE⟩, hH, hs0⟩ := hT
        have hl := rel.recd acc hvis htxn
        refine ⟨hvis, hl, ?_, by omega, .inr hfl⟩
        rcases useStep hvis (.inl ⟨hLx, hE⟩) with ⟨-, u2⟩ | ⟨u1, -⟩
        · exact u2
        · exact absurd hl u1
      | await a =>
        rw [hv] at hT
        obtain ⟨⟨hvis, hfl, hLx, hE⟩, hH, hs0⟩ := hT
        have hl := rel.recd acc hvis htxn
        refine ⟨hvis, hl, ?_, by omega, .inr hfl⟩
        rcases useStep hvis (.inl ⟨hLx, hE⟩) with ⟨-, u2⟩ | ⟨u1, -⟩
        · exact u2
        · exact absurd hl u1
      | gap g => rw [hv] at hu; exact absurd hu (by simp [PhaseN.useLike])
      | pass => rw [hv] at hu; exact absurd hu (by simp [PhaseN.useLike])
    have hbnd : ∀ st0, n.stations[v.x]? = some st0 → visitTime st0.s.st = none → visitTime c.s.st = some now → False := by
      intro st0 hst0 hvn hvs
      rw [h.gx] at hst0
      cases hst0
      have hnu : ¬ v.ph.useLike := fun hu => h.xVisit.1 hu hvn
      rcases hkind with ⟨g, -, hu⟩ | ⟨hpass, -⟩ | ⟨hd, pdu, -, -, -, hu⟩
      · exact hnu hu
      · have := hinv'.xVisit.2 (by rw [hpass]; simp [PhaseN.useLike])
        rw [hcs, hvs] at this
        cases this
      · exact hnu hu
    refine ⟨⟨httr', t.big, hseen', ?_⟩, hx', hlen', hoth, hbnd⟩
    rw [hcs, hstart]
    rcases hkind with ⟨g, hg, hu⟩ | ⟨hpass, hnp⟩ | ⟨hd, pdu, hb, hlb, hnew, hu⟩
    · -- GAP request
      obtain ⟨-, hl, -, hq, -⟩ := useTx hu
      rw [hg] at hP' ⊢
      obtain ⟨-, -, -, -, -, -, hH', -⟩ := hP'
      rw [hstart] at hH'
      refine ⟨hl, ?_, hacc⟩
      unfold Cfg.gapT
      push_cast
      omega
    · -- token
      rw [hpass]
      by_cases hu : v.ph.useLike
      · obtain ⟨-, hl, -, hq, -⟩ := useTx hu
        exact ⟨hl, by omega, hacc⟩
      · cases hv : v.ph with
        | gap g =>
          rw [hv] at hT
          obtain ⟨hLx, hH, hs0⟩ := hT
          have hk := rel.keep (h.xVisit.2 (by rw [hv]; simp [PhaseN.useLike]))
          exact ⟨by rw [hk.1]; exact hLx, by omega, hacc⟩
        | pass => exact absurd hv hnp
        | hold p1 => rw [hv] at hu; exact absurd trivial hu
        | holdT => rw [hv] at hu; exact absurd trivial hu
        | await a => rw [hv] at hu; exact absurd trivial hu
    · -- application telegram
      obtain ⟨hvis, hl, hE, hq, hcy⟩ := useTx hu
      have hlen : b.length ≤ 255 := by
        rw [hb, frame_length]; unfold Header.telegramLen; simp only; split <;> omega
      have htm := tmax_bound cfg b.length hlen
      have hte : tEnd cfg v'.tr = now + ((bitsToTime cfg.rate (11 * b.length) : Nat) : Int) := by rw [htr]; rfl
      have hvf : visitTime c.s.st = some acc ∧ lateFlag c.s.st = true := by
        rcases rel.cls acc hvis with a1 | a2 | a3 | ⟨da, sa, a4⟩
        · exact absurd a1.2 htxn
        · exact a2
        · exfalso
          have := hinv'.xVisit.1 (by rcases hnew with hn | ⟨a, hn⟩ <;> rw [hn] <;> trivial)
          rw [hcs] at this
          exact this a3
        · rw [htx] at a4
          exact absurd (Option.some.inj a4) (by rw [hb]; exact frameSpec_ne_sendToken hd pdu da sa)
      have hgu : now + (cfg.cyc : Nat) ≤ qb cfg acc Eb := by
        rcases hcy with hcy | hfl
        · exact hcy
        · rcases rel.guard htxn hvf.2 with g1 | g2
          · have := (qb_ge cfg acc Eb).1; omega
          · rw [hfl] at g2; cases g2
      rcases hnew with hn | ⟨a, hn⟩
      · rw [hn] at hP' ⊢
        obtain ⟨-, -, -, -, -, -, hH', -⟩ := hP'
        rw [hte] at hH'
        refine ⟨⟨hvf.1, hvf.2, hl, hE⟩, ?_, hacc⟩
        unfold Cfg.cyc at hgu
        push_cast at hgu
        omega
      · rw [hn] at hP' ⊢
        obtain ⟨-, -, -, -, -, -, hH', -⟩ := hP'
        rw [hte] at hH'
        refine ⟨⟨hvf.1, hvf.2, hl, hE⟩, ?_, hacc⟩
        unfold Cfg.cyc at hgu
        push_cast at hgu
        omega


/-- **A listener is polled** (any number of stations): it stays a listener — everything is kept, its
`last_token_time` unchanged —, or it accepts the token no later than `max(Eb, acc + bits 33 + P) + over`. -/
theorem rot_coreA {cfg : Cfg} {M : List Nat} {adr : Nat → Nat} {n : Net} {v : NView} (h : NInv cfg M adr n v)
    (hok : cfg.Ok) {TT : Nat} {acc Eb : Int} (t : TCore cfg TT n v acc Eb) (i : Nat) (now : Int)
    (e : EvOkN cfg n v.tl i now) (hix : i ≠ v.x) (n' : Net) (v' : NView) (inc : Bytes) (c : Ctx)
    (hp : n.poll i now = (n', inc, some (.ok c))) (hinv' : NInv cfg M adr n' v') (htl' : v'.tl = now)
    (hcase : c.tx = none ∧ v'.tr = v.tr ∧
      ((v'.ph = v.ph ∧ v'.x = v.x ∧ v'.H = v.H) ∨ (v.ph = .pass ∧ v'.ph = .hold now ∧ v'.x = i ∧ i ≠ v.x))) :
    ∃ st, n.stations[i]? = some st ∧ n'.stations = n.stations.set i (upSt st c) ∧
      c.s.lastTokenTime = st.s.lastTokenTime ∧
      ((TCore cfg TT n' v' acc Eb ∧ v'.x = v.x ∧
          (visitTime st.s.st = none → visitTime c.s.st = some now → False)) ∨
       (v.ph = .pass ∧ v'.ph = .hold now ∧ v'.x = i ∧ v.sx.s.lastTokenTime = acc ∧ acc < now ∧
          now ≤ max Eb (acc + (cfg.b33 : Nat) + (cfg.P : Nat)) + (cfg.over : Nat) ∧
          (st.s.lastTokenTime < now →
            TCore cfg TT n' v' now (st.s.lastTokenTime + ((st.s.p.ttrTime : Nat) : Int))))) := by
  obtain ⟨st, phy, rx, hst, hpoll, hset⟩ := Net.poll_inv n i now n' inc c hp
  have hil : i < n.stations.length := e.ilt
  have hfr := (poll_frame st.s st.apps now phy rx c hpoll).1
  have hseen : n'.bus.seen = n.bus.seen.set i now := by
    have := Net.poll_seenN n i now; rw [hp] at this; exact this
  have hlen' : n'.stations.length = n.stations.length := by rw [hset, List.length_set]
  have httr' : ∀ (j : Nat) (st' : NetStation), n'.stations[j]? = some st' → st'.s.p.ttrTime ≤ TT := by
    intro j st' hj
    rw [hset] at hj
    by_cases hji : j = i
    · subst hji
      rw [List.getElem?_set_self hil] at hj
      cases hj
      show c.s.p.ttrTime ≤ TT
      rw [hfr]; exact t.ttr _ _ hst
    · rw [List.getElem?_set_ne (Ne.symm hji)] at hj; exact t.ttr _ _ hj
  obtain ⟨st2, hst2, hL⟩ := h.lis i hil hix
  rw [hst] at hst2
  cases hst2
  obtain ⟨hrs, hvn, hon⟩ := hL.ringState
  have rel := poll_holdRel st.s st.apps now phy rx c hon hrs hpoll
  have hk := rel.keep hvn
  obtain ⟨htx, htr, hview⟩ := hcase
  have hgx' := hinv'.gx
  have hxs : v.x < n.bus.seen.length := by rw [h.log.seen]; exact h.xlt
  have his : i < n.bus.seen.length := by rw [h.log.seen]; exact hil
  refine ⟨st, hst, hset, hk.1, ?_⟩
  rcases hview with ⟨hph, hx', hH'⟩ | ⟨hpass, hph', hx', -⟩
  · -- stays a listener
    left
    have hsx' : v'.sx = v.sx := by
      rw [hx', hset, List.getElem?_set_ne hix, h.gx] at hgx'
      exact (Option.some.inj hgx').symm
    refine ⟨⟨httr', t.big, ?_, ?_⟩, hx', ?_⟩
    · rw [hx', hseen, seen_set_other _ _ _ _ hix]; exact t.seen
    · rw [hph, hsx', hH', htr]; exact t.ph
    · intro _ hvs
      obtain ⟨st3, hst3, hL3⟩ := hinv'.lis i (by rw [hlen']; exact hil) (by rw [hx']; exact hix)
      rw [hset, List.getElem?_set_self hil] at hst3
      cases hst3
      have hc : visitTime c.s.st = none := hL3.ringState.2.1
      rw [hc] at hvs; cases hvs
  · -- accepts the token
    right
    have hsx' : v'.sx = upSt st c := by
      rw [hx', hset, List.getElem?_set_self hil] at hgx'
      exact (Option.some.inj hgx').symm
    have hP := h.ph
    unfold PhaseOkN at hP
    rw [hpass] at hP
    obtain ⟨-, hbytes, -, -, -, -, -, -⟩ := hP
    have hlen : v.tr.bytes.length = 3 := by rw [hbytes]; rfl
    have hce : cEnd cfg v.tr = v.tr.start + ((cfg.ce 2 : Nat) : Int) := by unfold cEnd; rw [hlen]
    have hP' := hinv'.ph
    unfold PhaseOkN at hP'
    rw [hph'] at hP'
    obtain ⟨⟨d, f, hcs⟩, -, -, -, -, -, -, -, hlate⟩ := hP'
    rw [htr, hce] at hlate
    have hT := t.ph
    rw [hpass] at hT
    obtain ⟨hLx, hstart, haccs⟩ := hT
    have htl := h.tlt v.tr (by rw [h.txs]; simp)
    have hnow := e.tl
    have hbound : now ≤ max Eb (acc + (cfg.b33 : Nat) + (cfg.P : Nat)) + (cfg.over : Nat) := by
      unfold qb at hstart
      unfold Cfg.over Cfg.hand
      push_cast
      omega
    refine ⟨hpass, hph', hx', hLx, by omega, hbound, ?_⟩
    intro hlt
    refine ⟨httr', t.big, ?_, ?_⟩
    · rw [hx', hseen, seen_set_self _ _ _ his]; exact Int.le_refl _
    · rw [hph', hsx']
      refine ⟨rfl, ?_, .inr ⟨?_, ?_⟩⟩
      · show visitTime c.s.st = some now
        have hc' : v'.sx.s.st = c.s.st := by rw [hsx']; rfl
        rw [hc'] at hcs
        rcases rel.vis with a1 | a2 | a3 | a3
        · rw [a1] at hcs; rw [hcs] at hvn; simp [visitTime] at hvn
        · exact absurd hvn a2.2.1
        · rw [hcs] at a3; simp [visitTime] at a3
        · exact a3.1
      · show c.s.lastTokenTime ≠ now; rw [hk.1]; omega
      · show c.s.lastTokenTime + ((c.s.p.ttrTime : Nat) : Int) ≤ _; rw [hk.1, hfr]; exact Int.le_refl _

/-! ## The ring as indices: stations numbered in ascending address order -/

/-- Index of the successor. -/
def nx (N i : Nat) : Nat := if i + 1 < N then i + 1 else 0
/-- Number of token passes from station `j` to station `x`. -/
def dist (N x j : Nat) : Nat := if j ≤ x then x - j else x + N - j

theorem succ_sorted {M : List Nat} {adr : Nat → Nat} {N : Nat} (hR : RingCfg M adr N)
    (hsort : ∀ i j, i < j → j < N → adr i < adr j) (i : Nat) (hi : i < N) : adr (nx N i) = cycSucc (adr i) M := by
  have hs := cycSucc_spec (adr i) M
  have hle : ∀ a b, a ≤ b → b < N → adr a ≤ adr b := by
    intro a b hab hb
    rcases Nat.lt_or_ge a b with h | h
    · exact Nat.le_of_lt (hsort a b h hb)
    · have : a = b := by omega
      rw [this]; exact Nat.le_refl _
  unfold nx
  by_cases h1 : i + 1 < N
  · rw [if_pos h1]
    obtain ⟨hm, hgt, hmin⟩ := hs.above ⟨adr (i + 1), hR.mem _ h1, hsort i (i + 1) (by omega) h1⟩
    obtain ⟨k, hk, ek⟩ := hR.surj _ hm
    have hki : i < k := by
      rcases Nat.lt_or_ge i k with h | h
      · exact h
      · have := hle k i h hi; omega
    have hk1 := hmin (adr (i + 1)) (hR.mem _ h1) (hsort i (i + 1) (by omega) h1)
    rcases Nat.lt_or_ge (i + 1) k with h | h
    · have := hsort (i + 1) k h hk; omega
    · have : k = i + 1 := by omega
      rw [← ek, this]
  · rw [if_neg h1]
    have hall : ∀ a ∈ M, a ≤ adr i := by
      intro a ha
      obtain ⟨k, hk, ek⟩ := hR.surj a ha
      rw [← ek]; exact hle k i (by omega) hi
    obtain ⟨hm, hmin⟩ := hs.wrap hall ⟨adr i, hR.mem i hi⟩
    obtain ⟨k, hk, ek⟩ := hR.surj _ hm
    have h0 := hmin (adr 0) (hR.mem 0 (by omega))
    rcases Nat.eq_zero_or_pos k with h | h
    · rw [← ek, h]
    · have := hsort 0 k h hk; omega

/-- `last_token_time` of station `j`. -/
def Lt (n : Net) (j : Nat) : Int :=
  match n.stations[j]? with
  | some st => st.s.lastTokenTime
  | none => 0

theorem Lt_of {n : Net} {j : Nat} {st : NetStation} (h : n.stations[j]? = some st) : Lt n j = st.s.lastTokenTime := by
  unfold Lt; rw [h]

theorem Lt_congr {n n' : Net} {j : Nat} (h : n'.stations[j]? = n.stations[j]?) : Lt n' j = Lt n j := by
  unfold Lt; rw [h]

/-- Per-station allowance in the rotation bound: the overshoot plus one synchronisation pause and poll gap. -/
def Cfg.share (c : Cfg) : Nat := c.over + c.b33 + c.P

/-- **Timing invariant of the N-station ring**: stations numbered in ascending address order; the listeners'
last token receipts are ordered along the ring (the successor's is the oldest), none later than `acc`; the
receipt of a listener `dist` passes before `x` is at most `TT + dist·share` old; and the holder's deadline is at
most any listener's receipt + `TT`. -/
structure TInvN (cfg : Cfg) (adr : Nat → Nat) (TT : Nat) (n : Net) (v : NView) (acc Eb : Int) : Prop where
  core : TCore cfg TT n v acc Eb
  sort : ∀ i j, i < j → j < n.stations.length → adr i < adr j
  mono : ∀ j j', j < n.stations.length → j' < n.stations.length → j ≠ v.x → j' ≠ v.x →
    dist n.stations.length v.x j' ≤ dist n.stations.length v.x j → Lt n j ≤ Lt n j'
  old : ∀ j, j < n.stations.length → j ≠ v.x → Lt n j ≤ acc
  age : ∀ j, j < n.stations.length → j ≠ v.x →
    acc ≤ Lt n j + (TT : Int) + ((dist n.stations.length v.x j * cfg.share : Nat) : Int)
  dl : ∀ j, j < n.stations.length → j ≠ v.x → Eb ≤ Lt n j + (TT : Int)

/-- The rotation bound for `N` stations: `TT + N·share`. -/
def Cfg.rotN (c : Cfg) (TT N : Nat) : Nat := TT + N * c.share

theorem dist_succ (N x j : Nat) (hx : x < N) (hj : j < N) (hjx : j ≠ x) (hjs : j ≠ nx N x) :
    dist N (nx N x) j = dist N x j + 1 := by
  unfold dist nx at *
  by_cases h1 : x + 1 < N
  · simp only [h1, if_true] at hjs ⊢
    by_cases h2 : j ≤ x + 1 <;> by_cases h3 : j ≤ x <;> simp only [h2, h3, if_true, if_false] <;> omega
  · simp only [h1, if_false] at hjs ⊢
    by_cases h2 : j ≤ 0 <;> by_cases h3 : j ≤ x <;> simp only [h2, h3, if_true, if_false] <;> omega

theorem dist_succ_self (N x : Nat) (hx : x < N) (h2 : 2 ≤ N) : dist N (nx N x) x = 1 ∧ dist N x (nx N x) = N - 1 := by
  unfold dist nx
  by_cases h1 : x + 1 < N
  · simp only [h1, if_true]
    constructor
    · rw [if_pos (by omega)]; omega
    · rw [if_neg (by omega)]; omega
  · simp only [h1, if_false]
    constructor
    · by_cases h3 : x ≤ 0
      · omega
      · rw [if_neg h3]; omega
    · rw [if_pos (by omega)]; omega

theorem dist_le (N x j : Nat) (hx : x < N) (hj : j < N) : dist N x j ≤ N - 1 := by
  unfold dist; split <;> omega

theorem dist_pos (N x j : Nat) (hx : x < N) (hj : j < N) (hjx : j ≠ x) : 1 ≤ dist N x j := by
  unfold dist; split <;> omega

/-- **One event of the timed N-station ring with application traffic keeps the timing invariant**, and a station
that accepts the token does so at most `TT + N·share` after its previous receipt. -/
theorem rotN_step {cfg : Cfg} {M : List Nat} {adr : Nat → Nat} {n : Net} {v : NView} (h : NInv cfg M adr n v)
    (hok : cfg.Ok) (hP100 : cfg.P ≤ 100000) {TT : Nat} {acc Eb : Int} (t : TInvN cfg adr TT n v acc Eb) (i : Nat) (now : Int)
    (e : EvOkN cfg n v.tl i now) :
    ∃ n' v' inc c acc' Eb', n.poll i now = (n', inc, some (.ok c)) ∧ NInv cfg M adr n' v' ∧ v'.tl = now ∧
      TInvN cfg adr TT n' v' acc' Eb' ∧
      (∀ st, n.stations[i]? = some st → visitTime st.s.st = none → visitTime c.s.st = some now →
        now ≤ st.s.lastTokenTime + ((cfg.rotN TT n.stations.length : Nat) : Int)) := by
  obtain ⟨n', v', inc, c, hp, hinv', htl', hcase⟩ := ringN_step h hok hP100 i now e
  have hN' : n'.stations.length = n.stations.length := by
    have := Net.poll_len n i now; rw [hp] at this; exact this
  have hxl := h.xlt
  have h2N : 2 ≤ n.stations.length := by
    obtain ⟨s, hs, -, hne⟩ := h.ring.succ_idx v.x h.xlt
    omega
  by_cases hix : i = v.x
  · subst hix
    obtain ⟨hcore, hx', hlen, hoth, hbnd⟩ := rot_coreB h hok t.core now e n' v' inc c hp hinv' htl' (by
      rcases hcase with ⟨htx, htr, -, ⟨hph, hx, hH⟩ | ⟨-, -, -, hne⟩⟩ | ⟨b, htx, hit, -, htr, ⟨-, hx⟩, hkind⟩
      · exact .inl ⟨htx, htr, hph, hx, hH⟩
      · exact absurd rfl hne
      · refine .inr ⟨b, htx, htr, hx, ?_⟩
        rcases hkind with ⟨g, -, -, -, hph, hu⟩ | ⟨-, -, hph⟩ | ⟨hd, pdu, hb, -, -, hnew, hfin, hu⟩
        · exact .inl ⟨g, hph, hu⟩
        · refine .inr (.inl ⟨hph, ?_⟩)
          intro hpass
          unfold NView.turn at hit
          rw [hpass] at hit
          exact h.ring.two _ (h.ring.mem v.x h.xlt) hit.symm
        · exact .inr (.inr ⟨hd, pdu, hb, hfin v.sx h.gx _ (scriptsOk_ansOk h.okx.inv.scripts), hnew, hu⟩))
    have hL : ∀ j, j ≠ v.x → Lt n' j = Lt n j := fun j hj => Lt_congr (hoth j hj)
    refine ⟨n', v', inc, c, acc, Eb, hp, hinv', htl', ⟨hcore, ?_, ?_, ?_, ?_, ?_⟩, fun st hst h1 h2 => (hbnd st hst h1 h2).elim⟩
    · rw [hlen]; exact t.sort
    · rw [hlen, hx']
      intro j j' hj hj' hjx hjx' hd
      rw [hL j hjx, hL j' hjx']; exact t.mono j j' hj hj' hjx hjx' hd
    · rw [hlen, hx']; intro j hj hjx; rw [hL j hjx]; exact t.old j hj hjx
    · rw [hlen, hx']; intro j hj hjx; rw [hL j hjx]; exact t.age j hj hjx
    · rw [hlen, hx']; intro j hj hjx; rw [hL j hjx]; exact t.dl j hj hjx
  · have hc1 : c.tx = none ∧ v'.tr = v.tr ∧ v'.turn M adr = v.turn M adr ∧
        ((v'.ph = v.ph ∧ v'.x = v.x ∧ v'.H = v.H) ∨ (v.ph = .pass ∧ v'.ph = .hold now ∧ v'.x = i ∧ i ≠ v.x)) := by
      rcases hcase with hc | ⟨b, -, -, -, -, ⟨hiv, -⟩, -⟩
      · exact hc
      · exact absurd hiv hix
    obtain ⟨htx, htr, hnx, hview⟩ := hc1
    obtain ⟨st, hst, hset, hkL, hres⟩ := rot_coreA h hok t.core i now e hix n' v' inc c hp hinv' htl' ⟨htx, htr, hview⟩
    have hil : i < n.stations.length := e.ilt
    have hL : ∀ j, Lt n' j = Lt n j := by
      intro j
      by_cases hji : j = i
      · subst hji
        rw [Lt_of hst, Lt_of (by rw [hset]; exact List.getElem?_set_self hil)]
        exact hkL
      · exact Lt_congr (by rw [hset, List.getElem?_set_ne (Ne.symm hji)])
    rcases hres with ⟨hcore, hx', hno⟩ | ⟨hpass, hph', hx', hLx, haccnow, hbound, hcoreF⟩
    · refine ⟨n', v', inc, c, acc, Eb, hp, hinv', htl', ⟨hcore, ?_, ?_, ?_, ?_, ?_⟩, ?_⟩
      · rw [hN']; exact t.sort
      · rw [hN', hx']
        intro j j' hj hj' hjx hjx' hd
        rw [hL j, hL j']; exact t.mono j j' hj hj' hjx hjx' hd
      · rw [hN', hx']; intro j hj hjx; rw [hL j]; exact t.old j hj hjx
      · rw [hN', hx']; intro j hj hjx; rw [hL j]; exact t.age j hj hjx
      · rw [hN', hx']; intro j hj hjx; rw [hL j]; exact t.dl j hj hjx
      · intro st0 hst0 h1 h2
        rw [hst] at hst0; cases hst0
        exact (hno h1 h2).elim
    · -- the successor accepts the token
      have hsi : i = nx n.stations.length v.x := by
        unfold NView.turn at hnx
        rw [hph', hpass] at hnx
        simp only at hnx
        rw [hx', ← succ_sorted h.ring t.sort v.x hxl] at hnx
        have hnl : nx n.stations.length v.x < n.stations.length := by unfold nx; split <;> omega
        exact h.ring.inj i _ hil hnl hnx
      have hLxx : Lt n v.x = acc := by rw [Lt_of h.gx]; exact hLx
      have hLi : Lt n i = st.s.lastTokenTime := Lt_of hst
      have holdi := t.old i hil hix
      have hagei := t.age i hil hix
      have hdli := t.dl i hil hix
      have hds := dist_succ_self n.stations.length v.x hxl h2N
      rw [← hsi] at hds
      have hcore' := hcoreF (by rw [← hLi]; omega)
      have hbig := t.core.big
      have httri := t.core.ttr _ _ hst
      have hshare : ((cfg.share : Nat) : Int) = (cfg.over : Nat) + (cfg.b33 : Nat) + (cfg.P : Nat) := by
        unfold Cfg.share; push_cast; rfl
      refine ⟨n', v', inc, c, now, st.s.lastTokenTime + ((st.s.p.ttrTime : Nat) : Int), hp, hinv', htl',
        ⟨hcore', ?_, ?_, ?_, ?_, ?_⟩, ?_⟩
      · rw [hN']; exact t.sort
      · -- order of the receipts along the ring
        rw [hN', hx']
        intro j j' hj hj' hji hji' hd
        rw [hL j, hL j']
        by_cases hjx : j = v.x
        · by_cases hjx' : j' = v.x
          · rw [hjx, hjx']; exact Int.le_refl _
          · exfalso
            have e1 := dist_succ n.stations.length v.x j' hxl hj' hjx' (by rw [← hsi]; exact hji')
            rw [← hsi] at e1
            rw [hjx, hds.1] at hd
            have := dist_pos n.stations.length v.x j' hxl hj' hjx'
            omega
        · by_cases hjx' : j' = v.x
          · rw [hjx', hLxx]; exact t.old j hj hjx
          · have e1 := dist_succ n.stations.length v.x j hxl hj hjx (by rw [← hsi]; exact hji)
            have e2 := dist_succ n.stations.length v.x j' hxl hj' hjx' (by rw [← hsi]; exact hji')
            rw [← hsi] at e1 e2
            exact t.mono j j' hj hj' hjx hjx' (by omega)
      · rw [hN', hx']
        intro j hj hji
        rw [hL j]
        by_cases hjx : j = v.x
        · rw [hjx, hLxx]; omega
        · have := t.old j hj hjx; omega
      · -- age of the receipts
        rw [hN', hx']
        intro j hj hji
        rw [hL j]
        by_cases hjx : j = v.x
        · rw [hjx, hLxx, hds.1, Nat.one_mul, hshare]
          omega
        · have e1 := dist_succ n.stations.length v.x j hxl hj hjx (by rw [← hsi]; exact hji)
          rw [← hsi] at e1
          rw [e1, Nat.add_mul, Nat.one_mul, Int.natCast_add]
          have ha := t.age j hj hjx
          have hd := t.dl j hj hjx
          rw [hshare]
          omega
      · -- the new deadline
        rw [hN', hx']
        intro j hj hji
        rw [hL j, ← hLi]
        by_cases hjx : j = v.x
        · rw [hjx, hLxx]; omega
        · have hdj := dist_le n.stations.length v.x j hxl hj
          have := t.mono i j hil hj hix hjx (by rw [hds.2]; exact hdj)
          omega
      · intro st0 hst0 _ _
        rw [hst] at hst0; cases hst0
        rw [hds.2] at hagei
        unfold Cfg.rotN
        have hNW : n.stations.length * cfg.share = (n.stations.length - 1) * cfg.share + cfg.share := by
          have : n.stations.length = (n.stations.length - 1) + 1 := by omega
          conv => lhs; rw [this, Nat.add_mul, Nat.one_mul]
        rw [hNW, Int.natCast_add, Int.natCast_add]
        rw [hshare]
        rw [hLi] at hagei hdli
        omega

theorem rotN_run {cfg : Cfg} (hok : cfg.Ok) (hP100 : cfg.P ≤ 100000) (M : List Nat) (adr : Nat → Nat) (TT : Nat) :
    ∀ (evs : List (Nat × Int)) (n : Net) (v : NView) (acc Eb : Int), NInv cfg M adr n v → TInvN cfg adr TT n v acc Eb →
    SchedN cfg.P n v.tl evs → RotRun (cfg.rotN TT n.stations.length) n evs := by
  intro evs
  induction evs with
  | nil => intro _ _ _ _ _ _ _; trivial
  | cons ev rest ih =>
    intro n v acc Eb h t hs
    obtain ⟨i, now⟩ := ev
    obtain ⟨hi, htl, hown, hgap, hrest⟩ := hs
    have e : EvOkN cfg n v.tl i now := ⟨hi, htl, hown, hgap⟩
    obtain ⟨n', v', inc, c, acc', Eb', hp, hinv', htl', ht', hb⟩ := rotN_step h hok hP100 t i now e
    have hn' : (n.poll i now).1 = n' := by rw [hp]
    have hlen : n'.stations.length = n.stations.length := by
      have := Net.poll_len n i now; rw [hp] at this; exact this
    rw [hn', ← htl'] at hrest
    have := ih n' v' acc' Eb' hinv' ht' hrest
    rw [hlen] at this
    exact ⟨n', inc, c, hp, hb, this⟩

end PV
