/-
Stage lemmas for `interp_faithful`, part 3: station-wide parameter block and modules.
-/
import ProfiVerif.Lemmas.GsdFaithful2

namespace PV.Gsd
open Res

/-! ### Stage 3: the station-wide parameter block -/

theorem doStmt_maxUserPrmLen (st : St) (n : Nat) :
    doStmt st (setNum "Max_User_Prm_Data_Len" n) = .ok { st with legacy := none } := by
  have h1 : strSetter (lower "Max_User_Prm_Data_Len".toList) = none := rfl
  have h2 : numSetter (lower "Max_User_Prm_Data_Len".toList) = none := rfl
  have h3 : boolSetter (lower "Max_User_Prm_Data_Len".toList) = none := rfl
  have hk : lower "Max_User_Prm_Data_Len".toList = "max_user_prm_data_len".toList := rfl
  simp only [doStmt, setNum, doSetting, h1, h2, h3]
  rw [hk]
  simp [specialSetting]

theorem doStmt_topConst (st : St) (c : Nat × List Nat) (ho : c.1 ≤ u32Max) (hb : ∀ b ∈ c.2, b ≤ 255) :
    doStmt st (.setting { key := "Ext_User_Prm_Data_Const".toList, index := some (decTok c.1), value := .list (c.2.map decTok) }) =
      .ok { st with
        gsd := { st.gsd with userPrmData := { st.gsd.userPrmData with dataConst := st.gsd.userPrmData.dataConst ++ [c] } }
        legacy := none } := by
  have h1 : strSetter (lower "Ext_User_Prm_Data_Const".toList) = none := rfl
  have h2 : numSetter (lower "Ext_User_Prm_Data_Const".toList) = none := rfl
  have h3 : boolSetter (lower "Ext_User_Prm_Data_Const".toList) = none := rfl
  have hk : lower "Ext_User_Prm_Data_Const".toList = "ext_user_prm_data_const".toList := rfl
  simp only [doStmt, doSetting, h1, h2, h3]
  rw [hk]
  simp [specialSetting, prmDataConst_ok _ c _ ho hb]

theorem doStmt_topRef (st : St) (r : Nat × PrmDef) (id : Nat) (ho : r.1 ≤ u32Max) (hid : id ≤ u32Max)
    (hget : assocGet id st.defs = some r.2) :
    doStmt st (.setting { key := "Ext_User_Prm_Data_Ref".toList, index := some (decTok r.1), value := .num (decTok id) }) =
      .ok { st with
        gsd := { st.gsd with userPrmData := { st.gsd.userPrmData with dataRef := st.gsd.userPrmData.dataRef ++ [r] } }
        legacy := none } := by
  have h1 : strSetter (lower "Ext_User_Prm_Data_Ref".toList) = none := rfl
  have h2 : numSetter (lower "Ext_User_Prm_Data_Ref".toList) = none := rfl
  have h3 : boolSetter (lower "Ext_User_Prm_Data_Ref".toList) = none := rfl
  have hk : lower "Ext_User_Prm_Data_Ref".toList = "ext_user_prm_data_ref".toList := rfl
  simp only [doStmt, doSetting, h1, h2, h3]
  rw [hk]
  simp [specialSetting, prmDataRef_ok _ st r id _ ho hid hget]

/-- State after station-wide `Ext_User_Prm_Data_*` lines: only the parameter block grows. -/
def withTopPrm (st : St) (cs : List (Nat × List Nat)) (rs : List (Nat × PrmDef)) : St :=
  { st with
    gsd := { st.gsd with userPrmData :=
      { st.gsd.userPrmData with dataConst := st.gsd.userPrmData.dataConst ++ cs, dataRef := st.gsd.userPrmData.dataRef ++ rs } }
    legacy := none }

theorem withTopPrm_nil (st : St) (h : st.legacy = none) : withTopPrm st [] [] = st := by
  obtain ⟨gsd, _, _, legacy, _, _, _⟩ := st
  obtain ⟨_, _, _, _, _, _, _, _, _, _, _, _, _, _, _, _, _, _, _, _, _, _, _, _, prm, _, _, _⟩ := gsd
  cases prm
  simp only at h
  subst h
  simp [withTopPrm]

theorem constSettings_cons (c : Nat × List Nat) (rest : List (Nat × List Nat)) :
    constSettings (c :: rest) =
      { key := "Ext_User_Prm_Data_Const".toList, index := some (decTok c.1), value := .list (c.2.map decTok) } ::
        constSettings rest := rfl

theorem run_topConsts (st : St) (cs : List (Nat × List Nat)) (hl : st.legacy = none)
    (h : ∀ c ∈ cs, c.1 ≤ u32Max ∧ ∀ b ∈ c.2, b ≤ 255) :
    run st ((constSettings cs).map Stmt.setting) = .ok (withTopPrm st cs []) := by
  induction cs generalizing st with
  | nil => simp [constSettings, run, withTopPrm_nil st hl]
  | cons c rest ih =>
    have hc := h c (by simp)
    rw [constSettings_cons, List.map_cons, run_cons_ok (doStmt_topConst st c hc.1 hc.2)]
    rw [ih _ (by rfl) (fun c' hc' => h c' (by simp [hc']))]
    simp [withTopPrm]

theorem run_topRefs (st : St) (id : Nat) (rs : List (Nat × PrmDef)) (hl : st.legacy = none)
    (h : ∀ r ∈ rs, r.1 ≤ u32Max) (hid : id + rs.length ≤ 4294967296)
    (hget : ∀ i, (hi : i < rs.length) → assocGet (id + i) st.defs = some rs[i].2) :
    run st ((refSettings id rs).map Stmt.setting) = .ok (withTopPrm st [] rs) := by
  induction rs generalizing st id with
  | nil => simp [refSettings, run, withTopPrm_nil st hl]
  | cons r rest ih =>
    simp only [List.length_cons] at hid
    have h0 := hget 0 (by simp)
    simp only [Nat.add_zero, List.getElem_cons_zero] at h0
    simp only [refSettings, List.map_cons]
    rw [run_cons_ok (doStmt_topRef st r id (h r (by simp)) (by unfold u32Max; omega) h0)]
    rw [ih _ (id + 1) (by rfl) (fun r' hr' => h r' (by simp [hr'])) (by omega)
      (fun i hi => by
        have := hget (i + 1) (by simpa using hi)
        simpa [Nat.add_assoc, Nat.add_comm 1 i] using this)]
    simp [withTopPrm]

theorem doStmt_userPrmLen (st : St) (prm : UserPrmData) (n : Nat) (hl : st.legacy = some prm)
    (hn : n ≤ 255) (hc : constMaxLen prm.dataConst ≤ n) :
    doStmt st (setNum "User_Prm_Data_Len" n) = .ok { st with legacy := some { prm with length := n } } := by
  have h1 : strSetter (lower "User_Prm_Data_Len".toList) = none := rfl
  have h2 : numSetter (lower "User_Prm_Data_Len".toList) = none := rfl
  have h3 : boolSetter (lower "User_Prm_Data_Len".toList) = none := rfl
  have hk : lower "User_Prm_Data_Len".toList = "user_prm_data_len".toList := rfl
  simp only [doStmt, setNum, doSetting, h1, h2, h3]
  rw [hk]
  simp [specialSetting, hl, Setting.first, parseNumber, parseTok_decTok_ok (max := u8Max) hn (by decide),
    Nat.not_lt.mpr hc]

theorem doStmt_userPrmData (st : St) (prm : UserPrmData) (bytes : List Nat) (hl : st.legacy = some prm)
    (hb : ∀ b ∈ bytes, b ≤ 255) (hlen : prm.length = 0 ∨ bytes.length ≤ prm.length) :
    doStmt st (.setting { key := "User_Prm_Data".toList, index := none, value := .list (bytes.map decTok) }) =
      .ok { st with legacy := some { prm with dataConst := prm.dataConst ++ [(0, bytes)] } } := by
  have h1 : strSetter (lower "User_Prm_Data".toList) = none := rfl
  have h2 : numSetter (lower "User_Prm_Data".toList) = none := rfl
  have h3 : boolSetter (lower "User_Prm_Data".toList) = none := rfl
  have hk : lower "User_Prm_Data".toList = "user_prm_data".toList := rfl
  have hcond : ¬ (prm.length ≠ 0 ∧ prm.length < bytes.length) := by omega
  simp only [doStmt, doSetting, h1, h2, h3]
  rw [hk]
  simp [specialSetting, hl, Setting.first, parseNumberList, parseToks_decToks u8Max (by decide) bytes hb, hcond]

theorem run_legacyDatas (st : St) (prm : UserPrmData) (datas : List (Nat × List Nat)) (hl : st.legacy = some prm)
    (hb : ∀ c ∈ datas, ∀ b ∈ c.2, b ≤ 255) (hlen : prm.length = 0 ∨ ∀ c ∈ datas, c.2.length ≤ prm.length) :
    run st (datas.map fun c => Stmt.setting
        { key := "User_Prm_Data".toList, index := none, value := .list (c.2.map decTok) }) =
      .ok { st with legacy := some { prm with dataConst := prm.dataConst ++ datas.map fun c => (0, c.2) } } := by
  induction datas generalizing st prm with
  | nil =>
    obtain ⟨_, _, _, legacy, _, _, _⟩ := st
    simp only at hl; subst hl
    cases prm
    simp [run]
  | cons c rest ih =>
    simp only [List.map_cons]
    rw [run_cons_ok (doStmt_userPrmData st prm c.2 hl (hb c (by simp))
      (hlen.imp id fun h => h c (by simp)))]
    rw [ih _ { prm with dataConst := prm.dataConst ++ [(0, c.2)] } (by rfl) (fun c' hc' => hb c' (by simp [hc']))
      (hlen.imp id fun h c' hc' => h c' (by simp [hc']))]
    simp

/-! ### Stage 4: modules -/

theorem moduleItems_append (st : St) (a b : List ModItem) (acc : ModAcc) :
    moduleItems st (a ++ b) acc = (moduleItems st a acc >>= fun acc' => moduleItems st b acc') := by
  induction a generalizing acc with
  | nil => simp [moduleItems]
  | cons it rest ih =>
    cases it with
    | reference n =>
      simp only [List.cons_append, moduleItems]
      cases parseTok u32Max n <;> simp [ih]
    | setting s =>
      simp only [List.cons_append, moduleItems]
      cases moduleSetting st acc s <;> simp [ih]
    | dataArea => simp only [List.cons_append, moduleItems, ih]

theorem moduleSetting_const (key : Str) (hk : lower key = "ext_user_prm_data_const".toList) (st : St) (acc : ModAcc) (c : Nat × List Nat) (ho : c.1 ≤ u32Max) (hb : ∀ b ∈ c.2, b ≤ 255) :
    moduleSetting st acc { key := key, index := some (decTok c.1), value := .list (c.2.map decTok) } =
      .ok { acc with prm := { acc.prm with dataConst := acc.prm.dataConst ++ [c] } } := by
  simp only [moduleSetting, hk]
  simp [prmDataConst_ok _ c _ ho hb]

theorem moduleSetting_ref (key : Str) (hk : lower key = "ext_user_prm_data_ref".toList) (st : St) (acc : ModAcc) (r : Nat × PrmDef) (id : Nat) (ho : r.1 ≤ u32Max) (hid : id ≤ u32Max)
    (hget : assocGet id st.defs = some r.2) :
    moduleSetting st acc { key := key, index := some (decTok r.1), value := .num (decTok id) } =
      .ok { acc with prm := { acc.prm with dataRef := acc.prm.dataRef ++ [r] } } := by
  simp only [moduleSetting, hk]
  simp [prmDataRef_ok _ st r id _ ho hid hget]

theorem moduleSetting_len (key : Str) (hk : lower key = "ext_module_prm_data_len".toList) (st : St) (acc : ModAcc) (n : Nat) (hn : n ≤ 255) :
    moduleSetting st acc { key := key, index := none, value := .num (decTok n) } =
      .ok { acc with prm := { acc.prm with length := n } } := by
  simp only [moduleSetting, hk]
  simp [Setting.first, parseNumber, parseTok_decTok_ok (max := u8Max) hn (by decide)]

theorem moduleSetting_info (key : Str) (hk : lower key = "info_text".toList) (st : St) (acc : ModAcc) (t : Str) (ht : Clean t) :
    moduleSetting st acc { key := key, index := none, value := .str (quote t) } =
      .ok { acc with infoText := some t } := by
  simp only [moduleSetting, hk]
  simp [Setting.first, parseStr_quote ht]

theorem moduleItems_consts (st : St) (acc : ModAcc) (cs : List (Nat × List Nat))
    (h : ∀ c ∈ cs, c.1 ≤ u32Max ∧ ∀ b ∈ c.2, b ≤ 255) :
    moduleItems st ((constSettings cs).map ModItem.setting) acc =
      .ok { acc with prm := { acc.prm with dataConst := acc.prm.dataConst ++ cs } } := by
  induction cs generalizing acc with
  | nil =>
    obtain ⟨_, _, prm⟩ := acc
    cases prm
    simp [constSettings, moduleItems]
  | cons c rest ih =>
    have hc := h c (by simp)
    rw [constSettings_cons, List.map_cons]
    simp only [moduleItems]
    rw [moduleSetting_const _ rfl st acc c hc.1 hc.2]
    simp only [bind_ok]
    rw [ih _ (fun c' hc' => h c' (by simp [hc']))]
    simp

theorem moduleItems_refs (st : St) (acc : ModAcc) (id : Nat) (rs : List (Nat × PrmDef))
    (h : ∀ r ∈ rs, r.1 ≤ u32Max) (hid : id + rs.length ≤ 4294967296)
    (hget : ∀ i, (hi : i < rs.length) → assocGet (id + i) st.defs = some rs[i].2) :
    moduleItems st ((refSettings id rs).map ModItem.setting) acc =
      .ok { acc with prm := { acc.prm with dataRef := acc.prm.dataRef ++ rs } } := by
  induction rs generalizing acc id with
  | nil =>
    obtain ⟨_, _, prm⟩ := acc
    cases prm
    simp [refSettings, moduleItems]
  | cons r rest ih =>
    simp only [List.length_cons] at hid
    have h0 := hget 0 (by simp)
    simp only [Nat.add_zero, List.getElem_cons_zero] at h0
    simp only [refSettings, List.map_cons, moduleItems]
    rw [moduleSetting_ref _ rfl st acc r id (h r (by simp)) (by unfold u32Max; omega) h0]
    simp only [bind_ok]
    rw [ih _ (id + 1) (fun r' hr' => h r' (by simp [hr'])) (by omega)
      (fun i hi => by
        have := hget (i + 1) (by simpa using hi)
        simpa [Nat.add_assoc, Nat.add_comm 1 i] using this)]
    simp

theorem doStmt_moduleStmt (st : St) (id : Nat) (m : Module) (hm : m.WF)
    (hid : id + m.prm.dataRef.length ≤ 4294967296)
    (hget : ∀ i, (hi : i < m.prm.dataRef.length) → assocGet (id + i) st.defs = some m.prm.dataRef[i].2) :
    doStmt st (moduleStmt id m) =
      .ok { st with gsd := { st.gsd with availableModules := st.gsd.availableModules ++ [m] } } := by
  obtain ⟨name, infoText, config, reference, prm⟩ := m
  obtain ⟨length, dataConst, dataRef⟩ := prm
  simp only [doStmt, moduleStmt, doModule]
  rw [parseToks_decToks u8Max (by decide) config hm.config]
  simp only [bind_ok]
  rw [show unquote (quote name) = name from hm.name]
  have hconsts := moduleItems_consts st
  have hrefs := fun acc => moduleItems_refs st acc id dataRef (fun r hr => (hm.prm.refs r hr).1) hid hget
  have hlen := fun acc => moduleSetting_len "Ext_Module_Prm_Data_Len".toList rfl st acc length hm.prm.length
  have hcs : ∀ c ∈ dataConst, c.1 ≤ u32Max ∧ ∀ b ∈ c.2, b ≤ 255 := hm.prm.consts
  cases reference with
  | none =>
    cases infoText with
    | none =>
      simp only [List.nil_append, List.map_append, List.cons_append, moduleItems, hlen, bind_ok,
        moduleItems_append, hconsts _ _ hcs, hrefs]
      simp
    | some t =>
      have hi := fun acc => moduleSetting_info "Info_Text".toList rfl st acc t (hm.info t rfl)
      simp only [List.nil_append, List.map_append, List.cons_append, moduleItems, hi, hlen, bind_ok,
        moduleItems_append, hconsts _ _ hcs, hrefs]
      simp
  | some r =>
    have hr : parseTok u32Max (decTok r) = .ok r := parseTok_decTok_ok (hm.reference r rfl) (Nat.le_refl _)
    cases infoText with
    | none =>
      simp only [List.nil_append, List.map_append, List.cons_append, moduleItems, hr, hlen, bind_ok,
        moduleItems_append, hconsts _ _ hcs, hrefs]
      simp
    | some t =>
      have hi := fun acc => moduleSetting_info "Info_Text".toList rfl st acc t (hm.info t rfl)
      simp only [List.nil_append, List.map_append, List.cons_append, moduleItems, hr, hi, hlen, bind_ok,
        moduleItems_append, hconsts _ _ hcs, hrefs]
      simp

theorem run_modules (st : St) (id : Nat) (mods : List Module) (hm : ∀ m ∈ mods, m.WF)
    (hid : id + (moduleDefs mods).length ≤ 4294967296)
    (hget : ∀ i, (hi : i < (moduleDefs mods).length) → assocGet (id + i) st.defs = some (moduleDefs mods)[i]) :
    run st (moduleStmtsFrom id mods) =
      .ok { st with gsd := { st.gsd with availableModules := st.gsd.availableModules ++ mods } } := by
  induction mods generalizing st id with
  | nil =>
    obtain ⟨gsd, _, _, _, _, _, _⟩ := st
    cases gsd
    simp [moduleStmtsFrom, run]
  | cons m rest ih =>
    have hsplit : moduleDefs (m :: rest) = m.prm.dataRef.map (·.2) ++ moduleDefs rest := by
      simp [moduleDefs]
    rw [hsplit, List.length_append, List.length_map] at hid
    simp only [moduleStmtsFrom]
    rw [run_cons_ok (doStmt_moduleStmt st id m (hm m (by simp)) (by omega) (fun i hi => by
      have := hget i (by rw [hsplit, List.length_append, List.length_map]; omega)
      simp only [hsplit] at this
      rw [List.getElem_append_left (by simpa using hi)] at this
      simpa using this))]
    rw [ih _ (id + m.prm.dataRef.length) (fun m' hm' => hm m' (by simp [hm'])) (by omega) (fun i hi => by
      have := hget (m.prm.dataRef.length + i) (by rw [hsplit, List.length_append, List.length_map]; omega)
      simp only [hsplit] at this
      rw [List.getElem_append_right (by simp)] at this
      simpa [Nat.add_assoc] using this)]
    simp

end PV.Gsd
