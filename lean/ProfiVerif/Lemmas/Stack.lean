/-
FDL ∘ DP (`Model/Stack.lean`): the master calls of every run of the composed system form a history in
the sense of `Lemmas/Dp.lean` — `grun` never refuses them.  This discharges, at model level, the
assumption "the FDL layer keeps the C15 contract" under which the DP theorems (C03 / C04 / C08 / C14)
are stated: the contract is what the station model does (`poll_calls`, the per-poll form of
C15 `reply_or_timeout_once` / `one_outstanding`).
-/
import ProfiVerif.Model.Stack
import ProfiVerif.Lemmas.Dp
import ProfiVerif.Lemmas.StationTrace

namespace PV.Stack
open PV PV.Dp

/-- A master call as an operation of the DP histories. -/
def toOp : MCall → Op
  | .tx now hp => .tx now hp
  | .reply a t => .reply a t
  | .timeout a => .timeout a
  | .take => .take
  | .writeQ slot bs => .writeQ slot bs
  | .diagReq slot => .diagReq slot
  | .resetAddr slot a => .resetAddr slot a

theorem bind_ok {α β : Type} {r : Res α} {f : α → Res β} {b : β} (h : r.bind f = .ok b) :
    ∃ a, r = .ok a ∧ f a = .ok b := by
  cases r <;> simp only [Res.bind] at h <;> first | exact ⟨_, rfl, h⟩ | cases h

theorem grun_append {fp : FdlParams} : ∀ (l1 l2 : List Op) (g g1 : G), grun fp g l1 = .ok g1 →
    grun fp g (l1 ++ l2) = grun fp g1 l2 := by
  intro l1
  induction l1 with
  | nil => intro l2 g g1 h; simp only [grun, Res3.ok.injEq] at h; subst h; rfl
  | cons x xs ih =>
    intro l2 g g1 h
    simp only [grun, List.cons_append] at h ⊢
    cases hs : gstep fp g x with
    | ok g' => rw [hs] at h; simp only; exact ih l2 g' g1 h
    | panic => rw [hs] at h; cases h
    | hang => rw [hs] at h; cases h
    | refused => rw [hs] at h; cases h

/-! ## The link between station state and DP ghost state -/

/-- Poll times are non-decreasing and below 2⁶² µs (`Instant` of a monotonic clock); `t` is the time of
the previous poll (a lower bound for the first one). -/
def TimesOk : Int → List Call → Prop
  | _, [] => True
  | t, .poll now _ _ :: rest => t ≤ now ∧ now < (2:Int)^62 ∧ TimesOk now rest
  | t, _ :: rest => TimesOk t rest

/-- The composed state `k` and the ghost state `g` of the DP history belong together: same master;
while the station awaits a data reply from `a`, the history has a request outstanding to `a`; the
history's clock is not ahead of the station's. -/
structure Link (fp : FdlParams) (k : State) (g : G) (t : Int) : Prop where
  m : g.m = k.m
  out : ∀ a d, k.s.st = .awaitData a d → ∃ a8 : UInt8, a8.toNat = a ∧ g.out = some a8
  now : ∀ t0, g.now = some t0 → t0 ≤ t
  lo : -(2:Int)^62 < t
  addr : fp.address.toNat = k.s.p.address
  inv : Dp.Inv fp g

/-- Requests answered by the master: what the ghost state records as outstanding is exactly what the
station waits for (`expects_reply` of the header). -/
theorem tx_out {fp : FdlParams} (hfp : FpOk fp) {g g' : G} (hI : Dp.Inv fp g) {now : Int} {hp : Bool}
    (h : gstep fp g (.tx now hp) = .ok g') :
    g'.now = some now ∧
    (∀ m' hd pdu, Master.transmit fp now hp g.m = .send m' hd pdu → g'.out = expectsReplyOf hd) := by
  have hform := tx_form hfp hI h
  have hnow : g'.now = some now := by cases hform <;> rfl
  -- a telegram with the global-control SAP is the global-control telegram, which expects no reply
  have hgcf : ∀ h0 p0, g'.o = .gc h0 p0 → expectsReplyOf h0 = none := by
    intro h0 p0 ho
    cases hform with
    | gc h1 h2 h3 =>
      simp only [Out.gc.injEq] at ho
      rw [← ho.1]
      simp [gcHeader, expectsReplyOf, RequestType.expectsReply]
    | idle m1 a b c d => simp at ho
    | send m1 i p p' h' pdu' a b c d e => simp at ho
    | off m1 index i p a b c d e f => simp at ho
  refine ⟨hnow, ?_⟩
  intro m' hd pdu ht
  simp only [gstep] at h
  cases hto : timeOk g now with
  | false => simp [hto] at h
  | true =>
    simp only [hto, Bool.not_true, Bool.false_eq_true, if_false, ht] at h
    by_cases hgc : hd.dsap = SAP_SLAVE_GLOBAL_CONTROL
    · simp only [hgc, if_true, Res3.ok.injEq] at h
      subst h
      exact (hgcf hd pdu rfl).symm
    · simp only [hgc, if_false] at h
      cases hc : m'.cur with
      | none => rw [hc] at h; simp only [Res3.ok.injEq] at h; subst h; rfl
      | some ip => obtain ⟨i, p⟩ := ip; rw [hc] at h; simp only [Res3.ok.injEq] at h; subst h; rfl

/-- The ghost step's master is what `Master.receiveReply` returns. -/
theorem reply_m {fp : FdlParams} {g g' : G} (hI : Dp.Inv fp g) {a : UInt8} {t : Telegram}
    (h : gstep fp g (.reply a t) = .ok g') : Master.receiveReply g.m a t = .ok g'.m := by
  simp only [gstep] at h
  by_cases hc : g.out ≠ some a ∨ replyAllowed fp.address a t = false
  · simp [hc] at h
  · rw [if_neg hc] at h
    have ho : g.out = some a := by
      by_cases h' : g.out = some a
      · exact h'
      · exact absurd (Or.inl h') hc
    obtain ⟨i, p, hcur⟩ := hI.out a ho
    cases hr : Master.receiveReply g.m a t with
    | panic => rw [hr] at h; cases h
    | ok m' =>
      rw [hr] at h
      simp only [hcur] at h
      by_cases hpa : p.address ≠ a
      · rw [if_pos hpa] at h
        simp only [Res3.ok.injEq] at h
        subst h
        simp only
        have hcur' := hcur
        unfold Master.cur at hcur'
        cases hcy : g.m.cycle with
        | completed => rw [hcy] at hcur'; cases hcur'
        | dx index =>
          rw [hcy] at hcur'
          simp only at hcur'
          have hne : a ≠ p.address := fun e => hpa e.symm
          rw [← hr]
          unfold Master.receiveReply
          simp only [hcy, getAtIndex_eq hI.m.len, hcur', ne_eq, hne, not_false_eq_true, if_true]
      · rw [if_neg hpa] at h
        simp only [Res3.ok.injEq] at h
        subst h
        rfl

theorem uint8_ext {a b : UInt8} (h : a.toNat = b.toNat) : a = b := UInt8.toNat_inj.mp h

/-- The station's admission filter implies the DP contract's `replyAllowed`. -/
theorem allowed_of_valid {own a8 : UInt8} {ts a : Nat} (h1 : own.toNat = ts) (h2 : a8.toNat = a) {t : Telegram}
    (hv : validReplyB ts a t = true) : replyAllowed own a8 t = true := by
  cases t with
  | token da sa => simp [validReplyB] at hv
  | sc => rfl
  | data hd pdu =>
    simp only [validReplyB, Bool.and_eq_true, decide_eq_true_eq] at hv
    obtain ⟨⟨e1, e2⟩, e3⟩ := hv
    have hsa : hd.sa = a8 := uint8_ext (by omega)
    have hda : hd.da = own := uint8_ext (by omega)
    simp only [replyAllowed, hsa, hda, beq_self_eq_true, Bool.true_and]
    cases hfc : hd.fc with
    | response st stt => rfl
    | request f r => rw [hfc] at e3; simp at e3

theorem timeOk_iff {g : G} {now : Int} :
    timeOk g now = true ↔ (-(2:Int)^62 < now ∧ now < (2:Int)^62) ∧ ∀ t0, g.now = some t0 → t0 ≤ now := by
  unfold timeOk
  cases g.now with
  | none => simp
  | some t => simp

/-- One `transmit_telegram` callback of the replay is an accepted `tx` step of the history. -/
theorem callback_tx {fp : FdlParams} (hfp : FpOk fp) {g : G} (hI : Dp.Inv fp g) {now : Int} (hto : timeOk g now = true)
    {i : Nat} {hp : Bool} {ans : AppAnswer} {m' : Master} {x : MCall}
    (h : callback fp now g.m (.transmit i hp ans) = .ok (m', x)) :
    x = .tx now hp ∧ ∃ g', gstep fp g (.tx now hp) = .ok g' ∧ g'.m = m' ∧ g'.now = some now ∧
      (∀ hd pdu, ans = .send hd pdu → g'.out = expectsReplyOf hd) := by
  simp only [callback] at h
  cases ht : Master.transmit fp now hp g.m with
  | panic => rw [ht] at h; cases h
  | hang => rw [ht] at h; cases h
  | send m1 hd pdu =>
    rw [ht] at h
    simp only at h
    by_cases ha : ans = .send hd pdu
    · rw [if_pos ha] at h
      simp only [Res.ok.injEq, Prod.mk.injEq] at h
      obtain ⟨rfl, rfl⟩ := h
      have hex : ∃ g', gstep fp g (.tx now hp) = .ok g' ∧ g'.m = m1 := by
        simp only [gstep, hto, Bool.not_true, Bool.false_eq_true, if_false, ht]
        by_cases hgc : hd.dsap = SAP_SLAVE_GLOBAL_CONTROL
        · exact ⟨_, by rw [if_pos hgc], rfl⟩
        · rw [if_neg hgc]
          cases m1.cur with
          | none => exact ⟨_, rfl, rfl⟩
          | some ip => exact ⟨_, rfl, rfl⟩
      obtain ⟨g', hg', hm'⟩ := hex
      obtain ⟨hn, hout⟩ := tx_out hfp hI hg'
      refine ⟨rfl, g', hg', hm', hn, ?_⟩
      intro hd' pdu' he
      rw [ha] at he
      cases he
      exact hout m1 hd pdu ht
    · rw [if_neg ha] at h; cases h
  | none m1 =>
    rw [ht] at h
    simp only at h
    by_cases ha : ans = .decline
    · rw [if_pos ha] at h
      simp only [Res.ok.injEq, Prod.mk.injEq] at h
      obtain ⟨rfl, rfl⟩ := h
      have hex : ∃ g', gstep fp g (.tx now hp) = .ok g' ∧ g'.m = m1 ∧ g'.now = some now := by
        simp only [gstep, hto, Bool.not_true, Bool.false_eq_true, if_false, ht]
        cases m1.lastEvents.peripheral with
        | none => exact ⟨_, rfl, rfl, rfl⟩
        | some he => exact ⟨_, rfl, rfl, rfl⟩
      obtain ⟨g', hg', hm', hn⟩ := hex
      refine ⟨rfl, g', hg', hm', hn, ?_⟩
      intro hd pdu he
      rw [ha] at he
      cases he
    · rw [if_neg ha] at h; cases h

/-- The `transmit_telegram` callbacks of one poll (`AskRun`) replayed through the master: accepted `tx`
steps; if the last one was answered with a telegram, the history has exactly the reply that telegram
expects outstanding. -/
theorem replay_asks {fp : FdlParams} (hfp : FpOk fp) {now : Int} : ∀ (new : List AppCall), AskRun new →
    ∀ (g : G) (m' : Master) (l : List MCall), Dp.Inv fp g → timeOk g now = true →
    replay fp now g.m new = .ok (m', l) →
    ∃ g', grun fp g (l.map toOp) = .ok g' ∧ g'.m = m' ∧ Dp.Inv fp g' ∧ timeOk g' now = true ∧
      (new = [] → g' = g) ∧
      (∀ pre i hp hd pdu, new = pre ++ [.transmit i hp (.send hd pdu)] → g'.out = expectsReplyOf hd) := by
  intro new
  induction new with
  | nil =>
    intro _ g m' l hI hto h
    simp only [replay, Res.ok.injEq, Prod.mk.injEq] at h
    obtain ⟨rfl, rfl⟩ := h
    refine ⟨g, rfl, rfl, hI, hto, fun _ => rfl, ?_⟩
    intro pre i hp hd pdu he
    simp at he
  | cons c rest ih =>
    intro har g m' l hI hto h
    simp only [replay] at h
    obtain ⟨⟨m1, x⟩, h1, h⟩ := bind_ok h
    obtain ⟨⟨m2, xs⟩, h2, h⟩ := bind_ok h
    simp only [Res.ok.injEq, Prod.mk.injEq] at h
    obtain ⟨rfl, rfl⟩ := h
    obtain ⟨i, hp, ans, rfl⟩ := har c (List.mem_cons_self ..)
    obtain ⟨rfl, g1, hg1, hm1, hn1, hout1⟩ := callback_tx hfp hI hto h1
    have hI1 := inv_step hfp hI _ hg1
    have hto1 : timeOk g1 now = true := by
      rw [timeOk_iff] at hto ⊢
      refine ⟨hto.1, ?_⟩
      intro t0 ht0
      rw [hn1] at ht0
      cases ht0
      exact Int.le_refl _
    subst hm1
    obtain ⟨g2, hg2, hm2, hI2, hto2, hnil, hout2⟩ :=
      ih (fun r hr => har r (List.mem_cons_of_mem _ hr)) g1 m2 xs hI1 hto1 h2
    refine ⟨g2, ?_, hm2, hI2, hto2, (by intro he; cases he), ?_⟩
    · simp only [List.map_cons, toOp, grun, hg1]
      exact hg2
    · intro pre j hp' hd pdu he
      cases pre with
      | nil =>
        simp only [List.nil_append, List.cons.injEq] at he
        obtain ⟨he1, he2⟩ := he
        cases he1
        rw [hnil he2]
        exact hout1 hd pdu rfl
      | cons y ys =>
        simp only [List.cons_append, List.cons.injEq] at he
        exact hout2 ys j hp' hd pdu he.2

/-- A reply callback of the replay is an accepted `reply` step. -/
theorem callback_reply {fp : FdlParams} (hfp : FpOk fp) {g : G} (hI : Dp.Inv fp g) {i a : Nat} {a8 : UInt8} {t : Telegram}
    (ha : a8.toNat = a) (ho : g.out = some a8) (hal : replyAllowed fp.address a8 t = true)
    {m' : Master} {x : MCall} (h : callback fp now g.m (.reply i a t) = .ok (m', x)) :
    ∃ g', gstep fp g (toOp x) = .ok g' ∧ g'.m = m' ∧ g'.out = none ∧ g'.now = g.now := by
  have e8 : UInt8.ofNat a = a8 := by rw [← ha]; exact UInt8.ofNat_toNat
  simp only [callback, e8] at h
  cases hr : Master.receiveReply g.m a8 t with
  | panic => rw [hr] at h; cases h
  | ok m1 =>
    rw [hr] at h
    simp only [Res.ok.injEq, Prod.mk.injEq] at h
    obtain ⟨rfl, rfl⟩ := h
    have hnr : ¬ (g.out ≠ some a8 ∨ replyAllowed fp.address a8 t = false) := by
      intro hc
      rcases hc with hc | hc
      · exact hc ho
      · rw [hal] at hc; cases hc
    have hex : ∃ g', gstep fp g (.reply a8 t) = .ok g' ∧ g'.out = none ∧ g'.now = g.now := by
      simp only [gstep, if_neg hnr, hr]
      cases g.m.cur with
      | none => exact ⟨_, rfl, rfl, rfl⟩
      | some ip =>
        obtain ⟨j, p⟩ := ip
        simp only
        by_cases hpa : p.address ≠ a8
        · rw [if_pos hpa]; exact ⟨_, rfl, rfl, rfl⟩
        · rw [if_neg hpa]; exact ⟨_, rfl, rfl, rfl⟩
    obtain ⟨g', hg', ho', hn'⟩ := hex
    have hm := reply_m hI hg'
    rw [hr] at hm
    cases hm
    exact ⟨g', hg', rfl, ho', hn'⟩

/-- **One composed poll.**  Whatever the station does in the poll, the master calls it makes are
accepted by the DP history relation, and the link is kept. -/
theorem link_poll {fp : FdlParams} (hfp : FpOk fp) {k k' : State} {g : G} {t now : Int} {phy : Bool}
    {arrived : Bytes} {l : List MCall} (hL : Link fp k g t) (ht1 : t ≤ now) (ht2 : now < (2:Int)^62)
    (h : poll fp k now phy arrived = .ok (k', l)) :
    ∃ g', grun fp g (l.map toOp) = .ok g' ∧ Link fp k' g' now := by
  have hlo : -(2:Int)^62 < now := Int.lt_of_lt_of_le hL.lo ht1
  have hto : timeOk g now = true := by
    rw [timeOk_iff]
    exact ⟨⟨hlo, ht2⟩, fun t0 h0 => Int.le_trans (hL.now t0 h0) ht1⟩
  simp only [poll] at h
  cases hp : k.s.poll [[answer fp now (k.s.askHp now) k.m]] now phy (k.rx ++ arrived) with
  | panic site => rw [hp] at h; cases h
  | ok c =>
    rw [hp] at h
    simp only at h
    obtain ⟨⟨m', l'⟩, hrep, h⟩ := bind_ok h
    simp only [Res.ok.injEq, Prod.mk.injEq] at h
    obtain ⟨rfl, rfl⟩ := h
    have hfr := (poll_frame _ _ _ _ _ _ hp).1
    have haddr : fp.address.toNat = c.s.p.address := by rw [hfr]; exact hL.addr
    rw [← hL.m] at hrep
    rcases poll_calls _ _ _ _ _ _ hp with ⟨hc, hkeep⟩ | ⟨-, -, har, hlink⟩ | ⟨-, a, d, hst, hcase⟩
    · -- no callbacks
      rw [hc] at hrep
      simp only [replay, Res.ok.injEq, Prod.mk.injEq] at hrep
      obtain ⟨rfl, rfl⟩ := hrep
      refine ⟨g, rfl, ⟨rfl, ?_, fun t0 h0 => Int.le_trans (hL.now t0 h0) ht1, hlo, haddr, hL.inv⟩⟩
      intro a d hst
      exact hL.out a d (hkeep a d hst).1
    · -- token visit: only `transmit_telegram` callbacks
      obtain ⟨g', hg', hm', hI', hto', -, hout⟩ := replay_asks hfp _ har g m' l' hL.inv hto hrep
      refine ⟨g', hg', ⟨hm', ?_, (timeOk_iff.mp hto').2, hlo, haddr, hI'⟩⟩
      intro a d hst
      obtain ⟨pre, hp', hd, pdu, a8, e1, e2, e3⟩ := hlink a d hst
      exact ⟨a8, e3, by rw [hout pre _ hp' hd pdu e1, e2]⟩
    · -- a reply was awaited
      obtain ⟨a8, ha8, hout⟩ := hL.out a d hst
      rcases hcase with ⟨tg, hv, hc, hs'⟩ | ⟨new, hc, har, hlink⟩
      · -- the admitted reply, alone
        rw [hc] at hrep
        simp only [replay] at hrep
        obtain ⟨⟨m1, x⟩, h1, hrep⟩ := bind_ok hrep
        simp only [Res.bind, Res.ok.injEq, Prod.mk.injEq] at hrep
        obtain ⟨rfl, rfl⟩ := hrep
        have hal := allowed_of_valid (own := fp.address) (a8 := a8) hL.addr ha8 hv
        obtain ⟨g', hg', hm', ho', hn'⟩ := callback_reply hfp hL.inv ha8 hout hal h1
        refine ⟨g', by simp only [List.map_cons, List.map_nil, grun, hg'], ⟨hm', ?_, ?_, hlo, haddr, inv_step hfp hL.inv _ hg'⟩⟩
        · intro a' d' hst'; rw [hs'] at hst'; cases hst'
        · intro t0 h0; rw [hn'] at h0; exact Int.le_trans (hL.now t0 h0) ht1
      · -- the time-out, then the token visit continues
        rw [hc] at hrep
        simp only [replay] at hrep
        obtain ⟨⟨m1, x⟩, h1, hrep⟩ := bind_ok hrep
        obtain ⟨⟨m2, xs⟩, h2, hrep⟩ := bind_ok hrep
        simp only [Res.ok.injEq, Prod.mk.injEq] at hrep
        obtain ⟨rfl, rfl⟩ := hrep
        have e8 : UInt8.ofNat a = a8 := by rw [← ha8]; exact UInt8.ofNat_toNat
        simp only [callback, e8, Res.ok.injEq, Prod.mk.injEq] at h1
        obtain ⟨rfl, rfl⟩ := h1
        -- the ghost step
        let g1 : G := { g with m := g.m.handleTimeout a8, out := none, o := .timedOut }
        have hg1 : gstep fp g (.timeout a8) = .ok g1 := by
          simp only [gstep, hout, ne_eq, not_true_eq_false, if_false]
          rfl
        have hI1 := inv_step hfp hL.inv _ hg1
        have hto1 : timeOk g1 now = true := by
          rw [timeOk_iff] at hto ⊢
          exact hto
        obtain ⟨g', hg', hm', hI', hto', hnil, hout'⟩ := replay_asks hfp _ har g1 m2 xs hI1 hto1 h2
        refine ⟨g', ?_, ⟨hm', ?_, (timeOk_iff.mp hto').2, hlo, haddr, hI'⟩⟩
        · simp only [List.map_cons, toOp, grun, hg1]
          exact hg'
        · intro a' d' hst'
          obtain ⟨pre, hp', hd, pdu, b8, e1, e2, e3⟩ := hlink a' d' hst'
          exact ⟨b8, e3, by rw [hout' pre _ hp' hd pdu e1, e2]⟩

theorem link_user {fp : FdlParams} (hfp : FpOk fp) {k : State} {g : G} {t : Int} (hL : Link fp k g t)
    {r : Option Master} {x : MCall} {k' : State} {l : List MCall} (h : userCall k r x = .ok (k', l))
    (hstep : ∀ m', r = some m' → ∃ g', gstep fp g (toOp x) = .ok g' ∧ g'.m = m' ∧ g'.out = g.out ∧ g'.now = g.now) :
    ∃ g', grun fp g (l.map toOp) = .ok g' ∧ Link fp k' g' t := by
  cases r with
  | none => cases h
  | some m' =>
    simp only [userCall, Res.ok.injEq, Prod.mk.injEq] at h
    obtain ⟨rfl, rfl⟩ := h
    obtain ⟨g', hg', hm', ho', hn'⟩ := hstep m' rfl
    refine ⟨g', by simp only [List.map_cons, List.map_nil, grun, hg'], ⟨hm', ?_, ?_, hL.lo, hL.addr, inv_step hfp hL.inv _ hg'⟩⟩
    · intro a d hst; rw [ho']; exact hL.out a d hst
    · intro t0 h0; rw [hn'] at h0; exact hL.now t0 h0

/-- One API call of the composed system. -/
theorem link_step {fp : FdlParams} (hfp : FpOk fp) {k k' : State} {g : G} {t : Int} (c : Call) (rest : List Call)
    {l : List MCall} (hL : Link fp k g t) (ht : TimesOk t (c :: rest)) (h : step fp k c = .ok (k', l)) :
    ∃ g' t', grun fp g (l.map toOp) = .ok g' ∧ Link fp k' g' t' ∧ TimesOk t' rest := by
  cases c with
  | poll now phy arrived =>
    obtain ⟨h1, h2, h3⟩ := ht
    obtain ⟨g', hg', hL'⟩ := link_poll hfp hL h1 h2 h
    exact ⟨g', now, hg', hL', h3⟩
  | setOnline =>
    simp only [step, Res.ok.injEq, Prod.mk.injEq] at h
    obtain ⟨rfl, rfl⟩ := h
    exact ⟨g, t, rfl, ⟨hL.m, hL.out, hL.now, hL.lo, hL.addr, hL.inv⟩, ht⟩
  | setOffline =>
    simp only [step, Res.ok.injEq, Prod.mk.injEq] at h
    obtain ⟨rfl, rfl⟩ := h
    refine ⟨g, t, rfl, ⟨hL.m, ?_, hL.now, hL.lo, ?_, hL.inv⟩, ht⟩
    · intro a d hst
      have h3 := (setOffline_fields k.s).2.2.1
      simp only at hst
      rw [h3] at hst; cases hst
    · have h3 := (setOffline_fields k.s).1
      simp only
      rw [h3]; exact hL.addr
  | take =>
    simp only [step, Res.ok.injEq, Prod.mk.injEq] at h
    obtain ⟨rfl, rfl⟩ := h
    have hg' : ∃ g', gstep fp g .take = .ok g' ∧ g'.m = k.m.takeLastEvents.1 ∧ g'.out = g.out ∧ g'.now = g.now := by
      simp only [gstep, ← hL.m]
      exact ⟨_, rfl, rfl, rfl, rfl⟩
    obtain ⟨g', hg', hm', ho', hn'⟩ := hg'
    refine ⟨g', t, by simp only [List.map_cons, List.map_nil, toOp, grun, hg'],
      ⟨hm', ?_, ?_, hL.lo, hL.addr, inv_step hfp hL.inv _ hg'⟩, ht⟩
    · intro a d hst; rw [ho']; exact hL.out a d hst
    · intro t0 h0; rw [hn'] at h0; exact hL.now t0 h0
  | writeQ slot bs =>
    obtain ⟨g', hg', hL'⟩ := link_user hfp hL h (by
      intro m' hm
      simp only [toOp, gstep, hL.m, hm]
      exact ⟨_, rfl, rfl, rfl, rfl⟩)
    exact ⟨g', t, hg', hL', ht⟩
  | diagReq slot =>
    obtain ⟨g', hg', hL'⟩ := link_user hfp hL h (by
      intro m' hm
      simp only [toOp, gstep, hL.m, hm]
      exact ⟨_, rfl, rfl, rfl, rfl⟩)
    exact ⟨g', t, hg', hL', ht⟩
  | resetAddr slot a =>
    simp only [step] at h
    by_cases ha : a ≥ 128
    · rw [if_pos ha] at h; cases h
    · rw [if_neg ha] at h
      obtain ⟨g', hg', hL'⟩ := link_user hfp hL h (by
        intro m' hm
        simp only [toOp, gstep, if_neg ha, hL.m, hm]
        exact ⟨_, rfl, rfl, rfl, rfl⟩)
      exact ⟨g', t, hg', hL', ht⟩

/-- Runs. -/
theorem link_run {fp : FdlParams} (hfp : FpOk fp) : ∀ (calls : List Call) (k k' : State) (g : G) (t : Int)
    (l : List MCall), Link fp k g t → TimesOk t calls → run fp k calls = .ok (k', l) →
    ∃ g' t', grun fp g (l.map toOp) = .ok g' ∧ Link fp k' g' t' := by
  intro calls
  induction calls with
  | nil =>
    intro k k' g t l hL _ h
    simp only [run, Res.ok.injEq, Prod.mk.injEq] at h
    obtain ⟨rfl, rfl⟩ := h
    exact ⟨g, t, rfl, hL⟩
  | cons c rest ih =>
    intro k k' g t l hL ht h
    simp only [run] at h
    obtain ⟨⟨k1, l1⟩, h1, h⟩ := bind_ok h
    obtain ⟨⟨k2, l2⟩, h2, h⟩ := bind_ok h
    simp only [Res.ok.injEq, Prod.mk.injEq] at h
    obtain ⟨rfl, rfl⟩ := h
    obtain ⟨g1, t1, hg1, hL1, ht1⟩ := link_step hfp c rest hL ht h1
    obtain ⟨g2, t2, hg2, hL2⟩ := ih k1 k2 g1 t1 l2 hL1 ht1 h2
    refine ⟨g2, t2, ?_, hL2⟩
    rw [List.map_append, grun_append _ _ _ _ hg1]
    exact hg2

theorem link_init {fp : FdlParams} (p : Params) (haddr : fp.address.toNat = p.address)
    {slots : List (Option Peripheral)} (hinit : InitOk fp slots) (gr : Bool) {t0 : Int} (ht0 : -(2:Int)^62 < t0) :
    Link fp (init p slots gr) (G.init slots gr) t0 :=
  ⟨rfl, (by intro a d hst; simp [init, Station.new] at hst), (by intro t h; cases h), ht0, haddr, inv_init hinit gr⟩

/-- **`station_log_is_contract_history`.**  Take the composed system — the station model with the DP
master model as its only application — from its initial state (station fresh and offline, master in
Operate with freshly added peripherals) through ANY sequence of API calls: polls with any arriving
bytes, PHY flags and non-decreasing times, `set_online` / `set_offline`, and user calls into the master
(`take_last_events`, `pi_q` writes, `request_diagnostics`, `reset_address`) between polls.  If the run
is regular (`.ok`; that it always is: `run_total`, `Lemmas/StackTotal.lean`), then the sequence `l` of
master calls it made — the callbacks of the station in the order it made them, interleaved with the
user calls — is a history in the sense of `Lemmas/Dp.lean`: `grun` accepts every one of them (never
`.refused`), and the ghost run ends in the very master state the composed run ends in.

So the FDL→application contract the DP theorems assume (a reply or time-out only for the address the
last request expects a reply from, at most one of them per request, a reply only if it is a short
confirmation or a response from that address to this station, time never going backwards) is a
theorem about the station model, not an assumption, when the application is the DP master. -/
theorem station_log_is_contract_history {fp : FdlParams} (hfp : FpOk fp) (p : Params)
    (haddr : fp.address.toNat = p.address) {slots : List (Option Peripheral)} (hinit : InitOk fp slots) (gr : Bool)
    (calls : List Call) {t0 : Int} (ht0 : -(2:Int)^62 < t0) (ht : TimesOk t0 calls)
    {k' : State} {l : List MCall} (h : run fp (init p slots gr) calls = .ok (k', l)) :
    ∃ g', grun fp (G.init slots gr) (l.map toOp) = .ok g' ∧ g'.m = k'.m ∧ Dp.Inv fp g' := by
  obtain ⟨g', t', hg', hL'⟩ := link_run hfp calls _ k' _ t0 l (link_init p haddr hinit gr ht0) ht h
  exact ⟨g', hg', hL'.m, hL'.inv⟩

end PV.Stack
