/-
Lexical lemmas of the GSD model: number tokens (decimal / hex, overflow → error, leading zeros),
string-literal unquoting with `\`-newline removal (CR LF and LF), case-insensitive keys.
-/
import ProfiVerif.Model.Gsd.Print

namespace PV.Gsd

/-! ### Digits -/

theorem digitVal_digitChar : ∀ d, d < 10 → digitVal 10 (digitChar d) = some d := by decide
theorem digitVal16_digitChar : ∀ d, d < 10 → digitVal 16 (digitChar d) = some d := by decide
theorem digitVal_hexChar : ∀ d, d < 16 → digitVal 16 (hexChar d) = some d := by decide
theorem digitChar_ne : ∀ d, d < 10 → digitChar d ≠ '+' ∧ digitChar d ≠ '-' ∧ digitChar d ≠ 'x' := by decide
theorem hexChar_ne : ∀ d, d < 16 → hexChar d ≠ '+' ∧ hexChar d ≠ '-' ∧ hexChar d ≠ 'x' := by decide

theorem digitsVal_append (r : Nat) (a b : Str) (acc : Nat) :
    digitsVal r (a ++ b) acc = (digitsVal r a acc).bind fun x => digitsVal r b x := by
  induction a generalizing acc with
  | nil => simp [digitsVal]
  | cons c rest ih =>
    simp only [List.cons_append, digitsVal]
    cases digitVal r c with
    | none => simp
    | some d => simp [ih]

/-- Leading zeros do not change the value. -/
theorem digitsVal_leading_zero (r : Nat) (s : Str) : digitsVal r ('0' :: s) 0 = digitsVal r s 0 := by
  simp [digitsVal, digitVal]

theorem natText_ne_nil (n : Nat) : natText n ≠ [] := by
  rw [natText]; split <;> simp

theorem hexDigits_ne_nil (n : Nat) : hexDigits n ≠ [] := by
  rw [hexDigits]; split <;> simp

/-- Every character of `natText n` is a decimal digit character. -/
theorem natText_digits (n : Nat) : ∀ c ∈ natText n, ∃ d, d < 10 ∧ c = digitChar d := by
  induction n using Nat.strongRecOn with
  | _ n ih =>
    rw [natText]
    split
    · intro c hc
      simp at hc
      exact ⟨n, by omega, hc⟩
    · intro c hc
      rw [List.mem_append] at hc
      rcases hc with hc | hc
      · exact ih (n / 10) (by omega) c hc
      · simp at hc
        exact ⟨n % 10, by omega, hc⟩

theorem hexDigits_digits (n : Nat) : ∀ c ∈ hexDigits n, ∃ d, d < 16 ∧ c = hexChar d := by
  induction n using Nat.strongRecOn with
  | _ n ih =>
    rw [hexDigits]
    split
    · intro c hc
      simp at hc
      exact ⟨n, by omega, hc⟩
    · intro c hc
      rw [List.mem_append] at hc
      rcases hc with hc | hc
      · exact ih (n / 16) (by omega) c hc
      · simp at hc
        exact ⟨n % 16, by omega, hc⟩

/-- The decimal text of `n` has value `n`. -/
theorem digitsVal_natText (n : Nat) : digitsVal 10 (natText n) 0 = some n := by
  induction n using Nat.strongRecOn with
  | _ n ih =>
    rw [natText]
    split
    · rename_i h
      simp [digitsVal, digitVal_digitChar n h]
    · rw [digitsVal_append, ih (n / 10) (by omega)]
      simp only [Option.bind_some, digitsVal, digitVal_digitChar (n % 10) (by omega)]
      congr 1
      omega

theorem digitsVal_hexDigits (n : Nat) : digitsVal 16 (hexDigits n) 0 = some n := by
  induction n using Nat.strongRecOn with
  | _ n ih =>
    rw [hexDigits]
    split
    · rename_i h
      simp [digitsVal, digitVal_hexChar n h]
    · rw [digitsVal_append, ih (n / 16) (by omega)]
      simp only [Option.bind_some, digitsVal, digitVal_hexChar (n % 16) (by omega)]
      congr 1
      omega

/-! ### Unsigned number tokens -/

/-- `parseU32Text` on a non-empty string that does not start with `+`. -/
theorem parseU32Text_of_value (r : Nat) (s : Str) (n : Nat) (hne : s ≠ [])
    (hplus : ∀ c ∈ s, c ≠ '+') (hv : digitsVal r s 0 = some n) :
    parseU32Text r s = if n < 4294967296 then some n else none := by
  cases s with
  | nil => exact absurd rfl hne
  | cons c rest =>
    have hc : c ≠ '+' := hplus c (by simp)
    simp [parseU32Text, hc, hv]

/-- Decimal token of `n`: the value if it fits `u32`, otherwise the (single) number error. -/
theorem u32_decTok (n : Nat) : (decTok n).u32 = if n < 4294967296 then some n else none := by
  unfold decTok NumTok.u32
  refine parseU32Text_of_value 10 _ n (natText_ne_nil n) ?_ (digitsVal_natText n)
  intro c hc
  obtain ⟨d, hd, rfl⟩ := natText_digits n c hc
  exact (digitChar_ne d hd).1

/-- `trim_start_matches("0x")` leaves a string without `x` alone. -/
theorem trimHex_of_no_x (s : Str) (h : ∀ c ∈ s, c ≠ 'x') : trimHex s = s := by
  match s with
  | [] => rfl
  | [_] => rfl
  | a :: b :: rest =>
    have hb : b ≠ 'x' := h b (by simp)
    simp [trimHex, hb]

theorem trimHex_hexText (n : Nat) : trimHex (hexText n) = hexDigits n := by
  have hx : ∀ c ∈ hexDigits n, c ≠ 'x' := by
    intro c hc
    obtain ⟨d, hd, rfl⟩ := hexDigits_digits n c hc
    exact (hexChar_ne d hd).2.2
  rw [hexText, trimHex]
  simp [trimHex_of_no_x _ hx]

/-- Hexadecimal token `0x…` of `n`. -/
theorem u32_hexTok (n : Nat) : (NumTok.hex (hexText n)).u32 = if n < 4294967296 then some n else none := by
  show parseU32Text 16 (trimHex (hexText n)) = _
  rw [trimHex_hexText]
  refine parseU32Text_of_value 16 _ n (hexDigits_ne_nil n) ?_ (digitsVal_hexDigits n)
  intro c hc
  obtain ⟨d, hd, rfl⟩ := hexDigits_digits n c hc
  exact (hexChar_ne d hd).1

/-- `parse_number::<T>` on a decimal token: value, range error (does not fit `T`), or digit error
(does not fit `u32`). -/
theorem parseTok_decTok (max n : Nat) :
    parseTok max (decTok n) =
      if n < 4294967296 then (if n ≤ max then .ok n else .err .range) else .err .digit := by
  unfold parseTok
  rw [u32_decTok]
  by_cases h : n < 4294967296 <;> simp [h]

theorem parseTok_hexTok (max n : Nat) :
    parseTok max (.hex (hexText n)) =
      if n < 4294967296 then (if n ≤ max then .ok n else .err .range) else .err .digit := by
  unfold parseTok
  rw [u32_hexTok]
  by_cases h : n < 4294967296 <;> simp [h]

theorem parseTok_decTok_ok {max n : Nat} (h : n ≤ max) (hm : max ≤ u32Max) : parseTok max (decTok n) = .ok n := by
  rw [parseTok_decTok]
  have : n < 4294967296 := by unfold u32Max at hm; omega
  simp [this, h]

/-- A minus sign, a fraction or an empty digit string never yields a `u32`. -/
theorem u32_dec_minus (s : Str) : (NumTok.dec ('-' :: s)).u32 = none := by
  simp [NumTok.u32, parseU32Text, digitsVal, digitVal]

theorem digitsVal_none_of_bad (r : Nat) (a b : Str) (c : Char) (acc : Nat) (hc : digitVal r c = none) :
    digitsVal r (a ++ c :: b) acc = none := by
  rw [digitsVal_append]
  cases digitsVal r a acc <;> simp [digitsVal, hc]

/-! ### Signed number tokens -/

theorem i64_intTok (z : Int) :
    (intTok z).i64 = if -9223372036854775808 ≤ z ∧ z < 9223372036854775808 then some z else none := by
  unfold intTok NumTok.i64 intText
  by_cases hz : z < 0
  · simp only [hz, if_true]
    have hv := digitsVal_natText z.natAbs
    have hne := natText_ne_nil z.natAbs
    simp only [parseI64Text, if_true]
    cases hs : natText z.natAbs with
    | nil => exact absurd hs hne
    | cons c rest =>
      rw [hs] at hv
      simp only [List.isEmpty_cons, Bool.false_eq_true, if_false, hv]
      by_cases hb : z.natAbs ≤ 9223372036854775808
      · have : -9223372036854775808 ≤ z ∧ z < 9223372036854775808 := by omega
        simp only [hb, this, and_self, if_true]
        congr 1
        omega
      · have : ¬ (-9223372036854775808 ≤ z ∧ z < 9223372036854775808) := by omega
        simp [hb, this]
  · simp only [hz, if_false]
    have hv := digitsVal_natText z.toNat
    have hne := natText_ne_nil z.toNat
    cases hs : natText z.toNat with
    | nil => exact absurd hs hne
    | cons c rest =>
      have hc : c ≠ '-' ∧ c ≠ '+' := by
        obtain ⟨d, hd, hcd⟩ := natText_digits z.toNat c (by simp [hs])
        subst hcd
        exact ⟨(digitChar_ne d hd).2.1, (digitChar_ne d hd).1⟩
      rw [hs] at hv
      simp only [parseI64Text, hc.1, hc.2, if_false, List.isEmpty_cons, Bool.false_eq_true, hv]
      by_cases hb : z.toNat < 9223372036854775808
      · have : -9223372036854775808 ≤ z ∧ z < 9223372036854775808 := by omega
        simp only [hb, this, and_self, if_true]
        congr 1
        omega
      · have : ¬ (-9223372036854775808 ≤ z ∧ z < 9223372036854775808) := by omega
        simp [hb, this]

def I64 (z : Int) : Prop := -9223372036854775808 ≤ z ∧ z < 9223372036854775808

instance (z : Int) : Decidable (I64 z) := by unfold I64; infer_instance

theorem parseSignedTok_intTok {z : Int} (h : I64 z) : parseSignedTok (intTok z) = .ok z := by
  unfold parseSignedTok
  rw [i64_intTok]
  simp [show -9223372036854775808 ≤ z ∧ z < 9223372036854775808 from h]

theorem parseSignedTok_overflow {z : Int} (h : ¬ I64 z) : parseSignedTok (intTok z) = .err .sdigit := by
  unfold parseSignedTok
  rw [i64_intTok]
  simp [show ¬ (-9223372036854775808 ≤ z ∧ z < 9223372036854775808) from h]

/-! ### String literals -/

/-- Fuel beyond the length of the string makes no difference. -/
theorem removeAllAux_fuel' (pat : Str) : ∀ (n m : Nat) (s : Str), s.length ≤ n → s.length ≤ m →
    removeAllAux pat n s = removeAllAux pat m s := by
  intro n
  induction n with
  | zero =>
    intro m s h _
    have : s = [] := List.length_eq_zero_iff.mp (by omega)
    subst this
    cases m <;> rfl
  | succ n ih =>
    intro m s h hm
    cases s with
    | nil => cases m <;> rfl
    | cons c rest =>
      cases m with
      | zero => simp at hm
      | succ m =>
        simp only [List.length_cons] at h hm
        simp only [removeAllAux]
        split
        · rename_i hp
          have hl : ((c :: rest).drop pat.length).length ≤ rest.length := by
            have : pat.length ≥ 1 := by
              cases pat with
              | nil => simp at hp
              | cons _ _ => simp
            simp only [List.length_drop, List.length_cons]; omega
          exact ih m _ (by omega) (by omega)
        · rw [ih m rest (by omega) (by omega)]

theorem removeAllAux_fuel (pat : Str) (n : Nat) (s : Str) (h : s.length ≤ n) :
    removeAllAux pat n s = removeAllAux pat s.length s :=
  removeAllAux_fuel' pat n s.length s h (Nat.le_refl _)

/-- A character that is not the first of the pattern is copied. -/
theorem removeAll_cons_ne (p : Char) (ps : Str) (c : Char) (s : Str) (h : c ≠ p) :
    removeAll (p :: ps) (c :: s) = c :: removeAll (p :: ps) s := by
  simp [removeAll, removeAllAux, List.isPrefixOf, Ne.symm h]

/-- An occurrence of the pattern at the front is dropped. -/
theorem removeAll_pat_append (pat s : Str) (hp : pat ≠ []) :
    removeAll pat (pat ++ s) = removeAll pat s := by
  cases hps : pat ++ s with
  | nil => simp_all
  | cons c rest =>
    have hpre : pat.isPrefixOf (c :: rest) = true := by rw [← hps]; simp
    have hdrop : (c :: rest).drop pat.length = s := by rw [← hps]; simp
    have hlen : s.length ≤ rest.length := by
      have := congrArg List.length hps
      have : pat.length ≥ 1 := by cases pat <;> simp_all
      simp at *; omega
    simp only [removeAll, List.length_cons, removeAllAux, hp, ne_eq, not_false_eq_true, hpre, and_self, if_true, hdrop]
    exact removeAllAux_fuel pat _ s hlen

/-- A segment without the pattern's first character is copied. -/
theorem removeAll_seg_append (p : Char) (ps : Str) (seg s : Str) (h : ∀ c ∈ seg, c ≠ p) :
    removeAll (p :: ps) (seg ++ s) = seg ++ removeAll (p :: ps) s := by
  induction seg with
  | nil => rfl
  | cons c rest ih =>
    rw [List.cons_append, removeAll_cons_ne _ _ _ _ (h c (by simp)), ih fun c hc => h c (by simp [hc])]
    rfl

theorem removeAll_nil (pat : Str) : removeAll pat [] = [] := rfl

/-- The pieces of a string literal's inside: text without backslash, and the two continuation
markers the parser removes. -/
inductive Piece where
  | seg (s : Str)
  | contLF      -- `\` LF
  | contCRLF    -- `\` CR LF

def Piece.text : Piece → Str
  | .seg s => s
  | .contLF => ['\\', '\n']
  | .contCRLF => ['\\', '\r', '\n']

def Piece.content : Piece → Str
  | .seg s => s
  | _ => []

def Piece.ok : Piece → Prop
  | .seg s => ∀ c ∈ s, c ≠ '\\'
  | _ => True

def piecesText (ps : List Piece) : Str := (ps.map Piece.text).flatten
def piecesContent (ps : List Piece) : Str := (ps.map Piece.content).flatten

/-- First pass (`\` CR LF removed): the LF markers survive. -/
def Piece.afterCRLF : Piece → Str
  | .contCRLF => []
  | p => p.text

theorem removeCRLF_pieces (ps : List Piece) (h : ∀ p ∈ ps, p.ok) :
    removeAll ['\\', '\r', '\n'] (piecesText ps) = (ps.map Piece.afterCRLF).flatten := by
  induction ps with
  | nil => rfl
  | cons p rest ih =>
    have ih := ih fun q hq => h q (by simp [hq])
    simp only [piecesText, List.map_cons, List.flatten_cons] at ih ⊢
    cases p with
    | seg s =>
      have hs : ∀ c ∈ s, c ≠ '\\' := h (.seg s) (by simp)
      simp only [Piece.text, Piece.afterCRLF]
      rw [removeAll_seg_append _ _ _ _ hs, ih]
    | contLF =>
      simp only [Piece.text, Piece.afterCRLF, List.cons_append, List.nil_append]
      have : removeAll ['\\', '\r', '\n'] ('\\' :: '\n' :: (rest.map Piece.text).flatten) =
          '\\' :: removeAll ['\\', '\r', '\n'] ('\n' :: (rest.map Piece.text).flatten) := by
        simp [removeAll, removeAllAux, List.isPrefixOf]
      rw [this, removeAll_cons_ne _ _ _ _ (by decide), ih]
    | contCRLF =>
      simp only [Piece.text, Piece.afterCRLF, List.nil_append]
      rw [removeAll_pat_append _ _ (by simp), ih]

theorem removeLF_pieces (ps : List Piece) (h : ∀ p ∈ ps, p.ok) :
    removeAll ['\\', '\n'] ((ps.map Piece.afterCRLF).flatten) = piecesContent ps := by
  induction ps with
  | nil => rfl
  | cons p rest ih =>
    have ih := ih fun q hq => h q (by simp [hq])
    simp only [piecesContent, List.map_cons, List.flatten_cons] at ih ⊢
    cases p with
    | seg s =>
      have hs : ∀ c ∈ s, c ≠ '\\' := h (.seg s) (by simp)
      simp only [Piece.afterCRLF, Piece.text, Piece.content]
      rw [removeAll_seg_append _ _ _ _ hs, ih]
    | contLF =>
      simp only [Piece.afterCRLF, Piece.text, Piece.content, List.nil_append]
      rw [removeAll_pat_append _ _ (by simp), ih]
    | contCRLF =>
      simp only [Piece.afterCRLF, Piece.content, List.nil_append]
      exact ih

theorem drop_dropLast_quote (s : Str) : ((quote s).drop 1).dropLast = s := by
  simp [quote]

/-- **String literal lemma**: a literal written as backslash-free text interrupted at arbitrary places
by `\` LF or `\` CR LF line continuations unquotes to the text without the continuations. -/
theorem unquote_pieces (ps : List Piece) (h : ∀ p ∈ ps, p.ok) :
    unquote (quote (piecesText ps)) = piecesContent ps := by
  unfold unquote
  simp only [drop_dropLast_quote]
  rw [removeCRLF_pieces ps h, removeLF_pieces ps h]

/-- The strings the faithfulness theorem covers: unquoting the quoted string gives it back. -/
def Clean (s : Str) : Prop := unquote (quote s) = s

instance (s : Str) : Decidable (Clean s) := by unfold Clean; infer_instance

theorem clean_of_no_backslash (s : Str) (h : ∀ c ∈ s, c ≠ '\\') : Clean s := by
  have := unquote_pieces [.seg s] (by intro p hp; simp at hp; subst hp; exact h)
  simpa [Clean, piecesText, piecesContent, Piece.text, Piece.content] using this

/-- `pat` occurs nowhere in `s`. -/
def NoOcc (pat s : Str) : Prop := ∀ k, pat.isPrefixOf (s.drop k) = false

theorem removeAllAux_of_noOcc (pat : Str) (n : Nat) (s : Str) (h : NoOcc pat s) : removeAllAux pat n s = s := by
  induction n generalizing s with
  | zero => rfl
  | succ n ih =>
    cases s with
    | nil => rfl
    | cons c rest =>
      have h0 : pat.isPrefixOf (c :: rest) = false := h 0
      have hrest : NoOcc pat rest := fun k => h (k + 1)
      simp [removeAllAux, h0, ih rest hrest]

/-- A string in which no backslash stands directly in front of a line break (CR or LF) is clean. -/
theorem clean_of_noOcc (s : Str) (h1 : NoOcc ['\\', '\r', '\n'] s) (h2 : NoOcc ['\\', '\n'] s) : Clean s := by
  unfold Clean unquote
  simp only [drop_dropLast_quote, removeAll]
  rw [removeAllAux_of_noOcc _ _ s h1, removeAllAux_of_noOcc _ _ s h2]

theorem parseStr_quote {s : Str} (h : Clean s) : parseStr (.str (quote s)) = .ok s := by
  simp only [parseStr]; rw [h]

/-! ### Case-insensitive keys -/

theorem lowerChar_idem (c : Char) : lowerChar (lowerChar c) = lowerChar c := by
  by_cases h : 65 ≤ c.toNat ∧ c.toNat ≤ 90
  · have hk : ∀ k, k < 91 → 65 ≤ k → lowerChar (lowerChar (Char.ofNat k)) = lowerChar (Char.ofNat k) := by
      decide
    have := hk c.toNat (by omega) h.1
    rwa [Char.ofNat_toNat] at this
  · have : lowerChar c = c := by simp [lowerChar, h]
    rw [this, this]

theorem lower_idem (s : Str) : lower (lower s) = lower s := by
  simp [lower, List.map_map, Function.comp_def, lowerChar_idem]

/-- **Keyword case**: the effect of a top-level setting depends on its key only through `lower key`. -/
theorem doSetting_key_case (st : St) (s : Setting) (key' : Str) (h : lower key' = lower s.key) :
    doSetting st { s with key := key' } = doSetting st s := by
  simp only [doSetting, Setting.first, Setting.second, h, specialSetting, prmDataRef, prmDataConst, diagBit]

theorem moduleSetting_key_case (st : St) (acc : ModAcc) (s : Setting) (key' : Str) (h : lower key' = lower s.key) :
    moduleSetting st acc { s with key := key' } = moduleSetting st acc s := by
  simp only [moduleSetting, Setting.first, Setting.second, h, prmDataRef, prmDataConst]

theorem dataTypeOfName_case (a b : Str) (h : lower a = lower b) : dataTypeOfName a = dataTypeOfName b := by
  simp only [dataTypeOfName, h]

end PV.Gsd
