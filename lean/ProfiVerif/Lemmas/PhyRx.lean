/-
Helper lemmas for C16 (receive path).
-/
import ProfiVerif.Props.C09
import ProfiVerif.Props.C10
import ProfiVerif.Model.PhyRx

namespace PV

theorem decode_wire (t : Telegram) (hv : t.Valid) (rest : Bytes) :
    deserialize (t.wire ++ rest) = .accept t t.wire.length := by
  cases t with
  | data h pdu =>
    obtain ⟨a, b, c⟩ := hv
    exact decode_frame h pdu rest a b c
  | token da sa => exact (C09.decode_encode_token da sa rest).2
  | sc => exact (C09.decode_encode_sc rest).2

theorem wire_pos (t : Telegram) : 0 < t.wire.length := by
  cases t with
  | data h pdu =>
    show 0 < (frameSpec h pdu).length
    rw [frame_length]; unfold Header.telegramLen; simp only; split <;> omega
  | token da sa => simp [Telegram.wire, sendToken]
  | sc => simp [Telegram.wire, sendSc]

/-- A proper prefix of a valid telegram's wire bytes makes the decoder ask for more. -/
theorem prefix_needMore (t : Telegram) (hv : t.Valid) (p q rest : Bytes)
    (hpq : p ++ q = t.wire ++ rest) (hlt : p.length < t.wire.length) : deserialize p = .needMore := by
  apply Classical.byContradiction
  intro hne
  have hs := C10.verdict_stable p q hne
  rw [hpq, decode_wire t hv rest] at hs
  have := C10.accept_inside p t t.wire.length hs.symm
  omega

theorem split_of_append_eq (b pending w s : Bytes) (h : b ++ pending = w ++ s) (hl : w.length ≤ b.length) :
    ∃ b2, b = w ++ b2 ∧ b2 ++ pending = s := by
  refine ⟨b.drop w.length, ?_, ?_⟩
  · have h1 := congrArg (List.take w.length) h
    rw [List.take_append_of_le_length hl, List.take_left'] at h1
    · conv => lhs; rw [← List.take_append_drop w.length b]
      rw [h1]
    · rfl
  · have h2 := congrArg (List.drop w.length) h
    rw [List.drop_append_of_le_length hl, List.drop_left'] at h2
    · exact h2
    · rfl

/-- `receive_all_telegrams` on a buffer that is a prefix of a stream of valid telegrams: delivers
exactly the complete telegrams, in order, flags the last one iff nothing is buffered behind it, and
keeps the incomplete tail. -/
theorem receiveAll_valid_stream (ts : List Telegram) :
    ∀ (fuel : Nat) (b pending : Bytes) (acc : List (Telegram × Bool)),
      b ++ pending = streamOf ts → (∀ t ∈ ts, t.Valid) → b.length < fuel →
      ∃ d ts' b' ret, receiveAllFuel fuel b acc = .done b' (acc ++ d) ret ∧
        ts = d.map Prod.fst ++ ts' ∧ b' ++ pending = streamOf ts' ∧
        (∀ t, ts'.head? = some t → b'.length < t.wire.length) ∧
        (∀ x ∈ d, x.2 = true → b' = []) ∧ (ret = true ↔ (d ≠ [] ∧ b' = [])) ∧ (d = [] → b' = b) := by
  induction ts with
  | nil =>
    intro fuel b pending acc hs _ hf
    have hb : b = [] := by
      simp [streamOf] at hs; exact hs.1
    subst hb
    obtain ⟨f, rfl⟩ : ∃ f, fuel = f + 1 := ⟨fuel - 1, by omega⟩
    refine ⟨[], [], [], false, ?_, by simp, by simpa using hs, by simp, by simp, by simp, by simp⟩
    simp [receiveAllFuel, deserialize]
  | cons t rest ih =>
    intro fuel b pending acc hs hv hf
    have hvt : t.Valid := hv t (by simp)
    have hvr : ∀ t ∈ rest, t.Valid := fun x hx => hv x (by simp [hx])
    have hs' : b ++ pending = t.wire ++ streamOf rest := by simpa [streamOf] using hs
    obtain ⟨f, rfl⟩ : ∃ f, fuel = f + 1 := ⟨fuel - 1, by omega⟩
    by_cases hlt : b.length < t.wire.length
    · have hn := prefix_needMore t hvt b pending _ hs' hlt
      refine ⟨[], t :: rest, b, false, ?_, by simp, hs, ?_, by simp, by simp, by simp⟩
      · simp [receiveAllFuel, hn]
      · intro t' ht'; simp at ht'; subst ht'; exact hlt
    · obtain ⟨b2, hb, hb2⟩ := split_of_append_eq b pending t.wire _ hs' (by omega)
      have hdec : deserialize b = .accept t t.wire.length := by rw [hb]; exact decode_wire t hvt b2
      have hwp := wire_pos t
      by_cases hb2e : b2 = []
      · subst hb2e
        have hlen : t.wire.length = b.length := by rw [hb]; simp
        refine ⟨[(t, true)], rest, [], true, ?_, by simp, by simpa using hb2, ?_, by simp, by simp, by simp⟩
        · simp [receiveAllFuel, hdec, hlen]
        · intro t' ht'
          -- nothing buffered, next telegram has positive length
          exact by simpa using wire_pos t'
      · have hlen : t.wire.length < b.length := by
          rw [hb]; simp; exact List.length_pos_iff.mpr hb2e
        have hdrop : b.drop t.wire.length = b2 := by rw [hb]; simp
        obtain ⟨d, ts', b', ret, hr, hts, hbp, hinc, hlast, hret, hnil⟩ :=
          ih f b2 pending (acc ++ [(t, false)]) hb2 hvr (by rw [hb] at hf; simp at hf; omega)
        refine ⟨(t, false) :: d, ts', b', ret, ?_, by simp [hts], hbp, hinc, ?_, ?_, by simp⟩
        · have e1 : ¬ (t.wire.length > b.length) := by omega
          have e2 : (t.wire.length == b.length) = false := by simp; omega
          simp only [receiveAllFuel, hdec, e1, e2, if_false, hdrop]
          simpa using hr
        · intro x hx hx2
          simp at hx
          rcases hx with rfl | hx
          · simp at hx2
          · exact hlast x hx hx2
        · rw [hret]
          constructor
          · rintro ⟨-, h⟩; exact ⟨by simp, h⟩
          · rintro ⟨-, h⟩
            refine ⟨?_, h⟩
            intro hd
            exact hb2e ((hnil hd).symm.trans h)

end PV
