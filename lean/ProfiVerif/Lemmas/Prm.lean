/-
Helper lemmas for C20 (`Props/C20.lean`): arithmetic of big-endian images, bit-field tables over
`UInt8` (kernel-evaluated over *all* bytes and bit positions, lifted by `forall_u8` /
`forall_range`), list surgery (`overlay`, `List.set`, padding), and the step-by-step agreement of
the model of the code (`Model/Gsd/Prm.lean`) with the specification (`Model/Gsd/PrmSpec.lean`).
-/
import ProfiVerif.Model.Gsd.PrmSpec
import ProfiVerif.Lemmas.Bytes

namespace PV.Prm
open PV

/-! ## Tables -/

theorem forall_range (n : Nat) (p : Nat → Bool) (h : (List.range n).all p = true) (k : Nat) (hk : k < n) :
    p k = true := by
  rw [List.all_eq_true] at h
  exact h k (by simp [List.mem_range]; exact hk)

theorem ofNat_congr {a b : Nat} (h : a % 256 = b % 256) : UInt8.ofNat a = UInt8.ofNat b := by
  apply UInt8.toNat_inj.mp
  simp [UInt8.toNat_ofNat', h]

/-- The code's `Bit(b)` write, as an expression. -/
def codeBit (old : UInt8) (b : Nat) (v : Int) : UInt8 :=
  (old &&& ~~~((1 : UInt8) <<< UInt8.ofNat b)) ||| (UInt8.ofNat v.toNat <<< UInt8.ofNat b)

def bitWriteOk (b : Nat) (old : UInt8) : Bool :=
  decide (codeBit old b 0 = maskedWrite old b b 0 ∧ codeBit old b 1 = maskedWrite old b b 1)

set_option maxRecDepth 100000 in
theorem bitWriteOk_all (b : Nat) (hb : b ≤ 7) (old : UInt8) : bitWriteOk b old = true :=
  forall_u8 (bitWriteOk b)
    (forall_range 8 (fun b => (List.range 256).all fun n => bitWriteOk b (UInt8.ofNat n))
      (by decide +kernel) b (by omega)) old

/-- `s[0] = (s[0] & !(1 << b)) | (value << b)` is the masked write of the one-bit field `b..b`. -/
theorem codeBit_eq (old : UInt8) (b : Nat) (v : Int) (hb : b ≤ 7) (hv : v = 0 ∨ v = 1) :
    codeBit old b v = maskedWrite old b b v := by
  have h := bitWriteOk_all b hb old
  simp only [bitWriteOk, decide_eq_true_eq] at h
  rcases hv with rfl | rfl
  · exact h.1
  · exact h.2

def placedOk (f : Nat) (w : UInt8) : Bool :=
  decide (w <<< UInt8.ofNat f = UInt8.ofNat (w.toNat * 2 ^ f))

set_option maxRecDepth 100000 in
theorem placedOk_all (f : Nat) (hf : f ≤ 7) (w : UInt8) : placedOk f w = true :=
  forall_u8 (placedOk f)
    (forall_range 8 (fun f => (List.range 256).all fun n => placedOk f (UInt8.ofNat n))
      (by decide +kernel) f (by omega)) w

/-- `u8::try_from(value)? << first` is the value placed at bit `first`. -/
theorem shift_eq_placed (f : Nat) (v : Int) (hf : f ≤ 7) (_h0 : 0 ≤ v) (h1 : v < 256) :
    UInt8.ofNat v.toNat <<< UInt8.ofNat f = placed f v := by
  have h := placedOk_all f hf (UInt8.ofNat v.toNat)
  simp only [placedOk, decide_eq_true_eq] at h
  rw [h, placed]
  congr 2
  simp [UInt8.toNat_ofNat']
  omega

/-- Inside its mask the placed value is untouched (table over all `f ≤ l ≤ 7`, all values). -/
def placedMaskOk (f : Nat) : Bool :=
  (List.range 8).all fun l => (List.range 256).all fun n =>
    !(decide (f ≤ l) && decide (n < 2 ^ (l - f + 1))) ||
      decide (UInt8.ofNat (n * 2 ^ f) &&& fieldMask f l = UInt8.ofNat (n * 2 ^ f))

set_option maxRecDepth 100000 in
theorem placedMaskOk_all (f : Nat) (hf : f ≤ 7) : placedMaskOk f = true :=
  forall_range 8 placedMaskOk (by decide +kernel) f (by omega)

theorem pow_le_256 (k : Nat) (hk : k ≤ 8) : (2 : Int) ^ k ≤ 256 := by
  have : k = 0 ∨ k = 1 ∨ k = 2 ∨ k = 3 ∨ k = 4 ∨ k = 5 ∨ k = 6 ∨ k = 7 ∨ k = 8 := by omega
  rcases this with h | h | h | h | h | h | h | h | h <;> subst h <;> decide

theorem placed_and_mask (f l : Nat) (v : Int) (hfl : f ≤ l) (hl : l ≤ 7) (h0 : 0 ≤ v)
    (h1 : v < 2 ^ (l - f + 1)) : placed f v &&& fieldMask f l = placed f v := by
  have h := placedMaskOk_all f (by omega)
  simp only [placedMaskOk, List.all_eq_true, List.mem_range] at h
  have hv : v.toNat < 2 ^ (l - f + 1) := by
    have : ((v.toNat : Nat) : Int) < ((2 ^ (l - f + 1) : Nat) : Int) := by
      rw [Int.toNat_of_nonneg h0]; simpa using h1
    exact Int.ofNat_lt.mp this
  have h256 : v.toNat < 256 := by
    have := pow_le_256 (l - f + 1) (by omega)
    omega
  have := h l (by omega) v.toNat h256
  simpa [hfl, hv, placed] using this

/-! ## Boolean algebra on bytes -/

theorem mask_alg (a p m : UInt8) : ((a &&& ~~~m) ||| (p &&& m)) &&& ~~~m = a &&& ~~~m := by
  apply UInt8.eq_of_toBitVec_eq
  ext i hi
  simp
  cases a.toBitVec[i] <;> cases p.toBitVec[i] <;> cases m.toBitVec[i] <;> rfl

theorem and_not_of_and_eq (p m : UInt8) (h : p &&& m = p) : p &&& ~~~m = 0 := by
  rw [← h]
  apply UInt8.eq_of_toBitVec_eq
  ext i hi
  simp

/-- The masked write coincides with the clobbering write exactly when the byte has no bit set
outside the field. -/
theorem maskedWrite_eq_placed_iff (old : UInt8) (f l : Nat) (v : Int) (hfl : f ≤ l) (hl : l ≤ 7)
    (h0 : 0 ≤ v) (h1 : v < 2 ^ (l - f + 1)) :
    maskedWrite old f l v = placed f v ↔ old &&& ~~~ fieldMask f l = 0 := by
  have hp := placed_and_mask f l v hfl hl h0 h1
  constructor
  · intro h
    have := mask_alg old (placed f v) (fieldMask f l)
    rw [show (old &&& ~~~fieldMask f l ||| placed f v &&& fieldMask f l) = maskedWrite old f l v from rfl,
      h, and_not_of_and_eq _ _ hp] at this
    exact this.symm
  · intro h
    simp [maskedWrite, h, hp]

/-! ## Big-endian images -/

theorem beImage1 (v : Int) : beImage 1 v = [UInt8.ofNat (v % 256).toNat] := by
  simp [beImage, beByte, List.range, List.range.loop]

theorem beImage2 (v : Int) :
    beImage 2 v = [UInt8.ofNat ((v / 256) % 256).toNat, UInt8.ofNat (v % 256).toNat] := by
  simp [beImage, beByte, List.range, List.range.loop]

theorem beImage4 (v : Int) :
    beImage 4 v = [UInt8.ofNat ((v / 16777216) % 256).toNat, UInt8.ofNat ((v / 65536) % 256).toNat,
      UInt8.ofNat ((v / 256) % 256).toNat, UInt8.ofNat (v % 256).toNat] := by
  simp [beImage, beByte, List.range, List.range.loop]

theorem beImage_length (n : Nat) (v : Int) : (beImage n v).length = n := by simp [beImage]

theorem be1_u (v : Int) (h0 : 0 ≤ v) : be1 v.toNat = beImage 1 v := by
  rw [beImage1, be1]; congr 1; apply ofNat_congr; omega

theorem be1_s (v : Int) (h0 : -128 ≤ v) (h1 : v < 0) : be1 (v + 256).toNat = beImage 1 v := by
  rw [beImage1, be1]; congr 1; apply ofNat_congr; omega

theorem be2_u (v : Int) (h0 : 0 ≤ v) : be2 v.toNat = beImage 2 v := by
  rw [beImage2, be2]; congr 1
  · apply ofNat_congr; omega
  · congr 1; apply ofNat_congr; omega

theorem be2_s (v : Int) (h0 : -32768 ≤ v) (h1 : v < 0) : be2 (v + 65536).toNat = beImage 2 v := by
  rw [beImage2, be2]; congr 1
  · apply ofNat_congr; omega
  · congr 1; apply ofNat_congr; omega

theorem be4_u (v : Int) (h0 : 0 ≤ v) : be4 v.toNat = beImage 4 v := by
  rw [beImage4, be4]; congr 1
  · apply ofNat_congr; omega
  · congr 1
    · apply ofNat_congr; omega
    · congr 1
      · apply ofNat_congr; omega
      · congr 1; apply ofNat_congr; omega

theorem be4_s (v : Int) (h0 : -2147483648 ≤ v) (h1 : v < 0) :
    be4 (v + 4294967296).toNat = beImage 4 v := by
  rw [beImage4, be4]; congr 1
  · apply ofNat_congr; omega
  · congr 1
    · apply ofNat_congr; omega
    · congr 1
      · apply ofNat_congr; omega
      · congr 1; apply ofNat_congr; omega

/-! ## `write_value_to_slice` on a slice that is long enough -/

theorem overlay_zero (s d : Bytes) : overlay s 0 d = d ++ s.drop d.length := by
  simp [overlay]

theorem tryFromU_eq (bits : Nat) (v : Int) (m : Int) (hm : (2 : Int) ^ bits = m + 1) :
    tryFromU bits v = if 0 ≤ v ∧ v ≤ m then some v.toNat else none := by
  unfold tryFromU
  rw [hm]
  by_cases h : 0 ≤ v ∧ v ≤ m
  · rw [if_pos h, if_pos (by omega)]
  · rw [if_neg h, if_neg (by omega)]

theorem tryFromS_eq (bits : Nat) (v : Int) (lo m M : Int) (hm : (2 : Int) ^ (bits - 1) = m + 1)
    (hlo : lo = -(m + 1)) (hM : (2 : Int) ^ bits = M) :
    tryFromS bits v = if lo ≤ v ∧ v ≤ m then
      some (if v < 0 then (v + M).toNat else v.toNat) else none := by
  unfold tryFromS
  rw [hm, hM]
  by_cases h : lo ≤ v ∧ v ≤ m
  · rw [if_pos h, if_pos (by omega)]
  · rw [if_neg h, if_neg (by omega)]

theorem copyPrefix_ok (s : Bytes) (n : Nat) (src : Option Bytes) (h : n ≤ s.length) :
    copyPrefix s n src = match src with | none => .rangeErr | some bs => .ok (bs ++ s.drop n) := by
  unfold copyPrefix
  rw [if_neg (by omega)]
  cases src <;> rfl

theorem writeValue_reject (t : DataType) (v : Int) (s : Bytes) (hs : t.size ≤ s.length)
    (h : t.holds v = false) : writeValue t v s = .rangeErr := by
  cases t <;> simp only [DataType.holds, decide_eq_false_iff_not, DataType.size] at h hs
  case u8 => simp only [writeValue, copyPrefix_ok _ _ _ hs, tryFromU_eq 8 v 255 (by decide), if_neg h, Option.map]
  case u16 => simp only [writeValue, copyPrefix_ok _ _ _ hs, tryFromU_eq 16 v 65535 (by decide), if_neg h, Option.map]
  case u32 => simp only [writeValue, copyPrefix_ok _ _ _ hs, tryFromU_eq 32 v 4294967295 (by decide), if_neg h, Option.map]
  case s8 => simp only [writeValue, copyPrefix_ok _ _ _ hs, tryFromS_eq 8 v (-128) 127 256 (by decide) (by decide) (by decide), if_neg h, Option.map]
  case s16 => simp only [writeValue, copyPrefix_ok _ _ _ hs, tryFromS_eq 16 v (-32768) 32767 65536 (by decide) (by decide) (by decide), if_neg h, Option.map]
  case s32 => simp only [writeValue, copyPrefix_ok _ _ _ hs, tryFromS_eq 32 v (-2147483648) 2147483647 4294967296 (by decide) (by decide) (by decide), if_neg h, Option.map]
  case bit b =>
    simp only [writeValue]
    rw [if_pos]; omega
  case bitArea f l =>
    simp only [writeValue]
    by_cases h1 : l < f ∨ l > 7
    · rw [if_pos h1]
    · rw [if_neg h1, if_pos]
      omega

theorem writeValue_accept (t : DataType) (v : Int) (s : Bytes) (hs : t.size ≤ s.length)
    (h : t.holds v = true) : writeValue t v s = .ok (prmActual s 0 t v) := by
  cases t <;> simp only [DataType.holds, decide_eq_true_eq, DataType.size] at h hs
  case u8 =>
    simp only [writeValue, copyPrefix_ok _ _ _ hs, tryFromU_eq 8 v 255 (by decide), if_pos h, Option.map,
      prmActual, prmWrite, overlay_zero, beImage_length, be1_u v h.1]
  case u16 =>
    simp only [writeValue, copyPrefix_ok _ _ _ hs, tryFromU_eq 16 v 65535 (by decide), if_pos h, Option.map,
      prmActual, prmWrite, overlay_zero, beImage_length, be2_u v h.1]
  case u32 =>
    simp only [writeValue, copyPrefix_ok _ _ _ hs, tryFromU_eq 32 v 4294967295 (by decide), if_pos h, Option.map,
      prmActual, prmWrite, overlay_zero, beImage_length, be4_u v h.1]
  case s8 =>
    simp only [writeValue, copyPrefix_ok _ _ _ hs, tryFromS_eq 8 v (-128) 127 256 (by decide) (by decide) (by decide), if_pos h, Option.map,
      prmActual, prmWrite, overlay_zero, beImage_length]
    by_cases hn : v < 0
    · rw [if_pos hn, be1_s v h.1 hn]
    · rw [if_neg hn, be1_u v (by omega)]
  case s16 =>
    simp only [writeValue, copyPrefix_ok _ _ _ hs, tryFromS_eq 16 v (-32768) 32767 65536 (by decide) (by decide) (by decide), if_pos h, Option.map,
      prmActual, prmWrite, overlay_zero, beImage_length]
    by_cases hn : v < 0
    · rw [if_pos hn, be2_s v h.1 hn]
    · rw [if_neg hn, be2_u v (by omega)]
  case s32 =>
    simp only [writeValue, copyPrefix_ok _ _ _ hs, tryFromS_eq 32 v (-2147483648) 2147483647 4294967296 (by decide) (by decide) (by decide), if_pos h, Option.map,
      prmActual, prmWrite, overlay_zero, beImage_length]
    by_cases hn : v < 0
    · rw [if_pos hn, be4_s v h.1 hn]
    · rw [if_neg hn, be4_u v (by omega)]
  case bit b =>
    cases s with
    | nil => simp at hs
    | cons x xs =>
      simp only [writeValue]
      rw [if_neg (by omega), if_neg (by simp)]
      have := codeBit_eq x b v h.1 h.2
      simp only [codeBit] at this
      simp [prmActual, prmWrite, this]
  case bitArea f l =>
    cases s with
    | nil => simp at hs
    | cons x xs =>
      simp only [writeValue]
      rw [if_neg (by omega), if_neg (by omega), if_neg (by simp)]
      have h256 := pow_le_256 (l - f + 1) (by omega)
      rw [shift_eq_placed f v (by omega) h.2.2.1 (by omega)]
      simp [prmActual, prmWrite]

/-! ## List surgery -/

theorem overlay_length (blk : Bytes) (off : Nat) (d : Bytes) (h : off + d.length ≤ blk.length) :
    (overlay blk off d).length = blk.length := by
  simp [overlay]; omega

theorem overlay_shift (blk : Bytes) (off : Nat) (d : Bytes) :
    blk.take off ++ overlay (blk.drop off) 0 d = overlay blk off d := by
  simp [overlay, List.drop_drop, Nat.add_comm]

theorem overlay_outside (blk : Bytes) (off : Nat) (d : Bytes) (i : Nat)
    (h : off + d.length ≤ blk.length) (hi : i < off ∨ off + d.length ≤ i) :
    (overlay blk off d)[i]? = blk[i]? := by
  unfold overlay
  rcases hi with hi | hi
  · rw [List.append_assoc, List.getElem?_append_left (by simp; omega), List.getElem?_take_of_lt hi]
  · rw [List.getElem?_append_right (by simp; omega)]
    simp only [List.length_append, List.length_take, List.getElem?_drop]
    congr 1; omega

theorem overlay_inside (blk : Bytes) (off : Nat) (d : Bytes) (j : Nat)
    (h : off + d.length ≤ blk.length) (hj : j < d.length) :
    (overlay blk off d)[off + j]? = d[j]? := by
  unfold overlay
  rw [List.append_assoc, List.getElem?_append_right (by simp; omega)]
  simp only [List.length_take]
  rw [List.getElem?_append_left (by omega)]
  congr 1; omega

theorem set_shift (blk : Bytes) (off : Nat) (x : UInt8) (h : off < blk.length) :
    blk.take off ++ (blk.drop off).set 0 x = blk.set off x := by
  rw [List.set_eq_take_append_cons_drop, List.set_eq_take_append_cons_drop]
  simp [h, List.drop_drop]
  omega

theorem getD_drop_zero (blk : Bytes) (off : Nat) : (blk.drop off).getD 0 0 = blk.getD off 0 := by
  simp [List.getD_eq_getElem?_getD]

theorem prmWrite_length (c : Bool) (blk : Bytes) (off : Nat) (t : DataType) (v : Int)
    (h : off + t.size ≤ blk.length) : (prmWrite c blk off t v).length = blk.length := by
  cases t <;> simp only [prmWrite, DataType.size] at h ⊢ <;>
    first
    | exact overlay_length _ _ _ (by simpa [beImage_length] using h)
    | simp

theorem prmWrite_shift (c : Bool) (blk : Bytes) (off : Nat) (t : DataType) (v : Int)
    (h : off + t.size ≤ blk.length) :
    blk.take off ++ prmWrite c (blk.drop off) 0 t v = prmWrite c blk off t v := by
  cases t <;> simp only [prmWrite, DataType.size] at h ⊢ <;>
    first
    | exact overlay_shift _ _ _
    | (rw [getD_drop_zero]; exact set_shift _ _ _ (by omega))

theorem prmWrite_outside (c : Bool) (blk : Bytes) (off : Nat) (t : DataType) (v : Int) (i : Nat)
    (h : off + t.size ≤ blk.length) (hi : i < off ∨ off + t.size ≤ i) :
    (prmWrite c blk off t v)[i]? = blk[i]? := by
  cases t <;> simp only [prmWrite, DataType.size] at h hi ⊢ <;>
    first
    | exact overlay_outside _ _ _ _ (by simpa [beImage_length] using h) (by simpa [beImage_length] using hi)
    | (rw [List.getElem?_set_ne]; omega)

/-! ## One call of the builder against `callWith` -/

/-- Every referenced parameter lies inside the block (established by `PrmBuilder::new`). -/
def Inv (b : Builder) : Prop := ∀ r ∈ b.desc.refs, r.1 + r.2.dataType.size ≤ b.prm.length

theorem lookup_eq_find (m : List (String × Int)) (k : String) :
    m.lookup k = (m.find? (fun kv => kv.1 == k)).map (·.2) := by
  induction m with
  | nil => rfl
  | cons x xs ih =>
    obtain ⟨a, b⟩ := x
    by_cases h : a = k
    · subst h; simp [List.lookup, List.find?]
    · have h1 : (k == a) = false := by simp; exact fun e => h e.symm
      have h2 : (a == k) = false := by simp; exact h
      simp only [List.lookup, List.find?, h1, h2, ih]

theorem valid_eq_holds (c : Constraint) (v : Int) : c.valid v = c.holds v := by
  cases c with
  | minMax lo hi =>
    simp only [Constraint.valid, Constraint.holds]
    by_cases h1 : lo > v <;> by_cases h2 : v > hi <;> simp [h1, h2] <;> omega
  | enum vs => simp [Constraint.valid, Constraint.holds]
  | unconstrained => rfl

theorem getPrm_mem (L : Layout) (name : String) (r : Nat × PrmDef) (h : L.getPrm name = some r) :
    r ∈ L.refs := List.mem_of_find?_eq_some h

theorem writeConstrained_eq (b : Builder) (off : Nat) (d : PrmDef) (v : Int)
    (h : off + d.dataType.size ≤ b.prm.length) :
    writeConstrained b off d v =
      if !d.constraint.holds v then .err .valueConstraint
      else if !d.dataType.holds v then .err .valueRange
      else .ok { b with prm := prmActual b.prm off d.dataType v } := by
  unfold writeConstrained
  rw [if_neg (by omega), valid_eq_holds]
  by_cases hc : d.constraint.holds v
  · simp only [hc, Bool.not_true, Bool.false_eq_true, if_false]
    have hs : d.dataType.size ≤ (b.prm.drop off).length := by simp; omega
    by_cases ht : d.dataType.holds v
    · rw [writeValue_accept _ _ _ hs ht]
      simp only [ht, Bool.not_true, Bool.false_eq_true, if_false]
      rw [prmActual, prmWrite_shift _ _ _ _ _ h]
      rfl
    · simp only [Bool.not_eq_true] at ht
      rw [writeValue_reject _ _ _ hs ht]
      simp [ht]
  · simp [hc]

/-- The model's outcome as the spec-side result type. -/
def outcomeOf (b : Builder) : Except SetErr Bytes → SetOutcome
  | .ok blk => .ok { b with prm := blk }
  | .error e => .err e

theorem call_eq (b : Builder) (c : Call) (hI : Inv b) :
    b.call c = outcomeOf b (callWith true b.desc b.prm c) := by
  cases c with
  | set name v =>
    simp only [Builder.call, Builder.setPrm, callWith, target]
    cases hg : b.desc.getPrm name with
    | none => rfl
    | some r =>
      obtain ⟨off, d⟩ := r
      have := hI _ (getPrm_mem _ _ _ hg)
      simp only [writeConstrained_eq b off d v this]
      by_cases hc : d.constraint.holds v <;> by_cases ht : d.dataType.holds v <;> simp [hc, ht, outcomeOf, prmActual]
  | setText name text =>
    simp only [Builder.call, Builder.setPrmFromText, callWith, target]
    cases hg : b.desc.getPrm name with
    | none => rfl
    | some r =>
      obtain ⟨off, d⟩ := r
      have := hI _ (getPrm_mem _ _ _ hg)
      simp only [PrmDef.valueFromText]
      cases hm : d.texts with
      | none => rfl
      | some m =>
        simp only [lookup_eq_find]
        cases hf : m.find? (fun kv => kv.1 == text) with
        | none => rfl
        | some kv =>
          simp only [Option.map, writeConstrained_eq b off d kv.2 this]
          by_cases hc : d.constraint.holds kv.2 <;> by_cases ht : d.dataType.holds kv.2 <;>
            simp [hc, ht, outcomeOf, prmActual]

/-! ## Histories -/

theorem target_mem (L : Layout) (c : Call) (off : Nat) (d : PrmDef) (v : Int)
    (h : target L c = .ok (off, d, v)) : (off, d) ∈ L.refs := by
  cases c with
  | set name v' =>
    simp only [target] at h
    cases hg : L.getPrm name with
    | none => simp [hg] at h
    | some r =>
      obtain ⟨o, d'⟩ := r
      simp only [hg, Except.ok.injEq, Prod.mk.injEq] at h
      obtain ⟨rfl, rfl, _⟩ := h
      exact getPrm_mem _ _ _ hg
  | setText name text =>
    simp only [target] at h
    cases hg : L.getPrm name with
    | none => simp [hg] at h
    | some r =>
      obtain ⟨o, d'⟩ := r
      simp only [hg] at h
      cases hm : d'.texts with
      | none => simp [hm] at h
      | some m =>
        simp only [hm] at h
        cases hf : m.find? (fun kv => kv.1 == text) with
        | none => simp [hf] at h
        | some kv =>
          simp only [hf, Except.ok.injEq, Prod.mk.injEq] at h
          obtain ⟨rfl, rfl, _⟩ := h
          exact getPrm_mem _ _ _ hg

theorem callWith_ok_inv (cl : Bool) (L : Layout) (blk : Bytes) (c : Call) (blk' : Bytes)
    (h : callWith cl L blk c = .ok blk') :
    ∃ off d v, target L c = .ok (off, d, v) ∧ d.constraint.holds v = true ∧
      d.dataType.holds v = true ∧ blk' = prmWrite cl blk off d.dataType v := by
  unfold callWith at h
  cases ht : target L c with
  | error e => simp [ht] at h
  | ok r =>
    obtain ⟨off, d, v⟩ := r
    simp only [ht] at h
    by_cases hc : d.constraint.holds v <;> by_cases hd : d.dataType.holds v <;>
      simp [hc, hd] at h
    exact ⟨off, d, v, rfl, hc, hd, h.symm⟩

/-- `fits L n`: every referenced parameter of `L` lies inside a block of `n` bytes. -/
def fits (L : Layout) (n : Nat) : Prop := ∀ r ∈ L.refs, r.1 + r.2.dataType.size ≤ n

/-- `i` is a byte position no referenced parameter covers. -/
def untouched (L : Layout) (i : Nat) : Prop := ∀ r ∈ L.refs, i < r.1 ∨ r.1 + r.2.dataType.size ≤ i

theorem blockAfter_length (cl : Bool) (L : Layout) (blk : Bytes) (c : Call) (hf : fits L blk.length) :
    (blockAfter cl L blk c).length = blk.length := by
  unfold blockAfter
  cases h : callWith cl L blk c with
  | error e => rfl
  | ok blk' =>
    obtain ⟨off, d, v, ht, _, _, rfl⟩ := callWith_ok_inv _ _ _ _ _ h
    exact prmWrite_length _ _ _ _ _ (hf _ (target_mem _ _ _ _ _ ht))

theorem blockAfter_outside (cl : Bool) (L : Layout) (blk : Bytes) (c : Call) (i : Nat)
    (hf : fits L blk.length) (hi : untouched L i) : (blockAfter cl L blk c)[i]? = blk[i]? := by
  unfold blockAfter
  cases h : callWith cl L blk c with
  | error e => rfl
  | ok blk' =>
    obtain ⟨off, d, v, ht, _, _, rfl⟩ := callWith_ok_inv _ _ _ _ _ h
    have hm := target_mem _ _ _ _ _ ht
    exact prmWrite_outside _ _ _ _ _ _ (hf _ hm) (hi _ hm)

theorem runWith_length (cl : Bool) (L : Layout) (blk : Bytes) (cs : List Call) (hf : fits L blk.length) :
    (runWith cl L blk cs).length = blk.length := by
  induction cs generalizing blk with
  | nil => rfl
  | cons c cs ih =>
    simp only [runWith, List.foldl] at ih ⊢
    have hl := blockAfter_length cl L blk c hf
    rw [ih _ (by rw [hl]; exact hf), hl]

theorem runWith_outside (cl : Bool) (L : Layout) (blk : Bytes) (cs : List Call) (i : Nat)
    (hf : fits L blk.length) (hi : untouched L i) : (runWith cl L blk cs)[i]? = blk[i]? := by
  induction cs generalizing blk with
  | nil => rfl
  | cons c cs ih =>
    simp only [runWith, List.foldl] at ih ⊢
    have hl := blockAfter_length cl L blk c hf
    rw [ih _ (by rw [hl]; exact hf), blockAfter_outside cl L blk c i hf hi]

theorem after_eq (b : Builder) (c : Call) (hI : Inv b) :
    b.after c = some { b with prm := blockAfter true b.desc b.prm c } := by
  unfold Builder.after blockAfter
  rw [call_eq b c hI]
  cases callWith true b.desc b.prm c <;> rfl

theorem run_eq (b : Builder) (cs : List Call) (hI : Inv b) :
    b.run cs = some { b with prm := runWith true b.desc b.prm cs } := by
  induction cs generalizing b with
  | nil => rfl
  | cons c cs ih =>
    simp only [Builder.run, after_eq b c hI]
    have hI' : Inv { b with prm := blockAfter true b.desc b.prm c } := by
      intro r hr
      simp only [blockAfter_length true b.desc b.prm c hI]
      exact hI r hr
    rw [ih _ hI']
    rfl

/-! ## `PrmBuilder::new` against `initWith` -/

/-- `p` extended with zeros to `n` bytes. -/
def pad (n : Nat) (p : Bytes) : Bytes := p ++ List.replicate (n - p.length) 0

theorem pad_self (n : Nat) (p : Bytes) (h : n ≤ p.length) : pad n p = p := by
  simp [pad, Nat.sub_eq_zero_of_le h]

theorem pad_nil (n : Nat) : pad n [] = List.replicate n 0 := by simp [pad]

theorem pad_grow (n k : Nat) (p : Bytes) (hk : k ≤ n) :
    pad n (p ++ List.replicate (k - p.length) 0) = pad n p := by
  simp only [pad, List.append_assoc, List.replicate_append_replicate, List.length_append,
    List.length_replicate]
  congr 2
  omega

theorem overlay_pad (n : Nat) (p : Bytes) (off : Nat) (d : Bytes) (h : off + d.length ≤ p.length) :
    overlay (pad n p) off d = pad n (overlay p off d) := by
  simp only [pad, overlay_length p off d h]
  simp only [overlay, List.append_assoc]
  rw [List.take_append_of_le_length (by omega), List.drop_append_of_le_length (by omega)]

theorem set_pad (n : Nat) (p : Bytes) (off : Nat) (x : UInt8) (h : off < p.length) :
    (pad n p).set off x = pad n (p.set off x) := by
  simp only [pad, List.length_set]
  rw [List.set_append_left _ _ h]

theorem getD_pad (n : Nat) (p : Bytes) (off : Nat) (h : off < p.length) :
    (pad n p).getD off 0 = p.getD off 0 := by
  simp only [pad, List.getD_eq_getElem?_getD]
  rw [List.getElem?_append_left h]

theorem prmWrite_pad (cl : Bool) (n : Nat) (p : Bytes) (off : Nat) (t : DataType) (v : Int)
    (h : off + t.size ≤ p.length) : prmWrite cl (pad n p) off t v = pad n (prmWrite cl p off t v) := by
  cases t <;> simp only [prmWrite, DataType.size] at h ⊢ <;>
    first
    | exact overlay_pad _ _ _ _ (by simpa [beImage_length] using h)
    | (rw [getD_pad _ _ _ (by omega)]; exact set_pad _ _ _ _ (by omega))

theorem updateLen_some (p : Bytes) (off size : Nat) (h : off + size < usizeLimit) :
    updateLen p off size = some (p ++ List.replicate (off + size - p.length) 0) := by
  unfold updateLen
  rw [if_neg (by omega)]

theorem updateLen_none (p : Bytes) (off size : Nat) (h : usizeLimit ≤ off + size) :
    updateLen p off size = none := by
  unfold updateLen
  rw [if_pos (by omega)]

theorem foldl_max_ge (xs : List Nat) (a : Nat) : a ≤ xs.foldl max a := by
  induction xs generalizing a with
  | nil => exact Nat.le_refl _
  | cons x xs ih => exact Nat.le_trans (Nat.le_max_left a x) (ih _)

theorem le_foldl_max (xs : List Nat) (a x : Nat) (h : x ∈ xs) : x ≤ xs.foldl max a := by
  induction xs generalizing a with
  | nil => cases h
  | cons y ys ih =>
    rcases List.mem_cons.mp h with rfl | h
    · exact Nat.le_trans (Nat.le_max_right a x) (foldl_max_ge _ _)
    · exact ih _ h

theorem writeConsts_eq (cs : List (Nat × Bytes)) (p : Bytes) (n : Nat)
    (hwf : ∀ c ∈ cs, c.1 + c.2.length < usizeLimit) (hn : ∀ c ∈ cs, c.1 + c.2.length ≤ n) :
    ∃ p', writeConsts cs p = some p' ∧ pad n p' = overlayConsts (pad n p) cs ∧
      p'.length = (cs.map fun c => c.1 + c.2.length).foldl max p.length := by
  induction cs generalizing p with
  | nil => exact ⟨p, rfl, rfl, rfl⟩
  | cons c cs ih =>
    obtain ⟨off, data⟩ := c
    have hw := hwf (off, data) (List.mem_cons_self ..)
    have hle := hn (off, data) (List.mem_cons_self ..)
    simp only at hw hle
    simp only [writeConsts, updateLen_some p off data.length hw]
    have hlen : (p ++ List.replicate (off + data.length - p.length) 0).length = max p.length (off + data.length) := by
      simp; omega
    rw [if_neg (by rw [hlen]; omega)]
    obtain ⟨p', h1, h2, h3⟩ := ih (overlay (p ++ List.replicate (off + data.length - p.length) 0) off data)
      (fun c hc => hwf c (List.mem_cons_of_mem _ hc)) (fun c hc => hn c (List.mem_cons_of_mem _ hc))
    refine ⟨p', h1, ?_, ?_⟩
    · rw [h2, ← overlay_pad _ _ _ _ (by rw [hlen]; omega), pad_grow _ _ _ hle]
      rfl
    · rw [h3, overlay_length _ _ _ (by rw [hlen]; omega), hlen]
      rfl

theorem writeDefaults_eq (rs : List (Nat × PrmDef)) (p : Bytes) (n : Nat)
    (hwf : ∀ r ∈ rs, r.1 + r.2.dataType.size < usizeLimit) (hn : ∀ r ∈ rs, r.1 + r.2.dataType.size ≤ n) :
    match writeDefaults rs p with
    | .ok p' => overlayDefaults true (pad n p) rs = some (pad n p') ∧
        p'.length = (rs.map fun r => r.1 + r.2.dataType.size).foldl max p.length
    | .rangeErr => overlayDefaults true (pad n p) rs = none
    | .panic => False := by
  induction rs generalizing p with
  | nil => exact ⟨rfl, rfl⟩
  | cons r rs ih =>
    obtain ⟨off, d⟩ := r
    have hw := hwf (off, d) (List.mem_cons_self ..)
    have hle := hn (off, d) (List.mem_cons_self ..)
    simp only at hw hle
    simp only [writeDefaults, updateLen_some p off d.dataType.size hw, overlayDefaults]
    generalize hp1 : p ++ List.replicate (off + d.dataType.size - p.length) 0 = p1
    have hlen : p1.length = max p.length (off + d.dataType.size) := by
      rw [← hp1]; simp; omega
    have hpad : pad n p1 = pad n p := by rw [← hp1]; exact pad_grow _ _ _ hle
    rw [if_neg (by omega)]
    have hs : d.dataType.size ≤ (p1.drop off).length := by simp; omega
    by_cases ht : d.dataType.holds d.default
    · rw [writeValue_accept _ _ _ hs ht, if_pos ht]
      simp only [prmActual, prmWrite_shift true p1 off d.dataType d.default (by omega)]
      have := ih (prmWrite true p1 off d.dataType d.default)
        (fun c hc => hwf c (List.mem_cons_of_mem _ hc)) (fun c hc => hn c (List.mem_cons_of_mem _ hc))
      rw [← prmWrite_pad _ _ _ _ _ _ (by omega), hpad, prmWrite_length _ _ _ _ _ (by omega), hlen] at this
      exact this
    · simp only [Bool.not_eq_true] at ht
      rw [writeValue_reject _ _ _ hs ht]
      simp [ht]

theorem wellFormed_iff (L : Layout) : wellFormed L = true ↔
    (∀ c ∈ L.consts, c.1 + c.2.length < usizeLimit) ∧
    (∀ r ∈ L.refs, r.1 + r.2.dataType.size < usizeLimit) := by
  simp [wellFormed, List.all_eq_true]

theorem new_eq (L : Layout) (hwf : wellFormed L = true) :
    Builder.new L = match actualInit L with
      | none => .rangeErr
      | some blk => .ok { desc := L, prm := blk } := by
  obtain ⟨hc, hr⟩ := (wellFormed_iff L).mp hwf
  have hnc : ∀ c ∈ L.consts, c.1 + c.2.length ≤ blockLen L := fun c h =>
    le_foldl_max _ _ _ (List.mem_append_left _ (List.mem_map.mpr ⟨c, h, rfl⟩))
  have hnr : ∀ r ∈ L.refs, r.1 + r.2.dataType.size ≤ blockLen L := fun r h =>
    le_foldl_max _ _ _ (List.mem_append_right _ (List.mem_map.mpr ⟨r, h, rfl⟩))
  obtain ⟨p1, h1, h2, h3⟩ := writeConsts_eq L.consts [] (blockLen L) hc hnc
  have hd := writeDefaults_eq L.refs p1 (blockLen L) hr hnr
  simp only [Builder.new, h1, actualInit, initWith, ← pad_nil, ← h2]
  cases hw : writeDefaults L.refs p1 with
  | panic => simp [hw] at hd
  | rangeErr => simp only [hw] at hd; simp [hd]
  | ok p2 =>
    simp only [hw] at hd
    have hl : blockLen L ≤ p2.length := by
      rw [hd.2, h3, blockLen, List.foldl_append]
      exact Nat.le_refl _
    simp [hd.1, pad_self _ _ hl]

/-! ## The invariant is established by `new` (for every layout, well-formed or not) -/

theorem writeDefaults_fits (rs : List (Nat × PrmDef)) (p p' : Bytes) (h : writeDefaults rs p = .ok p') :
    p.length ≤ p'.length ∧ ∀ r ∈ rs, r.1 + r.2.dataType.size ≤ p'.length := by
  induction rs generalizing p with
  | nil =>
    simp only [writeDefaults, NewOutcome.ok.injEq] at h
    subst h
    exact ⟨Nat.le_refl _, fun r hr => by cases hr⟩
  | cons r rs ih =>
    obtain ⟨off, d⟩ := r
    simp only [writeDefaults] at h
    by_cases hw : off + d.dataType.size < usizeLimit
    · simp only [updateLen_some p off d.dataType.size hw] at h
      generalize hp1 : p ++ List.replicate (off + d.dataType.size - p.length) 0 = p1 at h
      have hlen : p1.length = max p.length (off + d.dataType.size) := by
        rw [← hp1]; simp; omega
      rw [if_neg (by omega)] at h
      have hs : d.dataType.size ≤ (p1.drop off).length := by simp; omega
      by_cases ht : d.dataType.holds d.default
      · rw [writeValue_accept _ _ _ hs ht] at h
        simp only [prmActual, prmWrite_shift true p1 off d.dataType d.default (by omega)] at h
        obtain ⟨h1, h2⟩ := ih _ h
        rw [prmWrite_length _ _ _ _ _ (by omega)] at h1
        refine ⟨by omega, fun r hr => ?_⟩
        rcases List.mem_cons.mp hr with rfl | hr
        · simp only; omega
        · exact h2 r hr
      · simp only [Bool.not_eq_true] at ht
        rw [writeValue_reject _ _ _ hs ht] at h
        cases h
    · rw [updateLen_none p off d.dataType.size (by omega)] at h
      cases h

theorem inv_of_new (L : Layout) (b : Builder) (h : Builder.new L = .ok b) : b.desc = L ∧ Inv b := by
  unfold Builder.new at h
  cases hc : writeConsts L.consts [] with
  | none => simp [hc] at h
  | some p1 =>
    simp only [hc] at h
    cases hd : writeDefaults L.refs p1 with
    | panic => simp [hd] at h
    | rangeErr => simp [hd] at h
    | ok p2 =>
      simp only [hd, BuildOutcome.ok.injEq] at h
      subst h
      exact ⟨rfl, (writeDefaults_fits _ _ _ hd).2⟩

/-! ## Exactly when the model panics -/

def DataType.isByteType : DataType → Bool
  | .bit _ | .bitArea _ _ => false
  | _ => true

theorem writeValue_panic_iff (t : DataType) (v : Int) (s : Bytes) :
    writeValue t v s = .panic ↔ s.length < t.size ∧ (t.isByteType = true ∨ t.holds v = true) := by
  by_cases hs : t.size ≤ s.length
  · by_cases ht : t.holds v
    · rw [writeValue_accept _ _ _ hs ht]; simp; omega
    · simp only [Bool.not_eq_true] at ht
      rw [writeValue_reject _ _ _ hs ht]; simp; omega
  · have hlt : s.length < t.size := by omega
    simp only [hlt, true_and]
    cases t <;> simp only [DataType.size] at hlt
    case bit b =>
      have : s = [] := List.eq_nil_of_length_eq_zero (by omega)
      subst this
      simp only [writeValue, DataType.isByteType, DataType.holds, decide_eq_true_eq, Bool.false_eq_true, false_or]
      by_cases h : (v ≠ 0 ∧ v ≠ 1) ∨ b > 7
      · rw [if_pos h]; simp; omega
      · rw [if_neg h]; simp; omega
    case bitArea f l =>
      have : s = [] := List.eq_nil_of_length_eq_zero (by omega)
      subst this
      simp only [writeValue, DataType.isByteType, DataType.holds, decide_eq_true_eq, Bool.false_eq_true, false_or]
      by_cases h : l < f ∨ l > 7
      · rw [if_pos h]; simp; omega
      · rw [if_neg h]
        by_cases h2 : v < 0 ∨ v ≥ 2 ^ (l - f + 1)
        · rw [if_pos h2]; simp; omega
        · rw [if_neg h2]; simp; omega
    all_goals simp [writeValue, copyPrefix, hlt, DataType.isByteType]

/-- Whether `write_default_prm_data` reaches an `offset + size` overflow before a default is rejected. -/
def refsPanic : List (Nat × PrmDef) → Bool
  | [] => false
  | (off, d) :: rs => decide (usizeLimit ≤ off + d.dataType.size) || (d.dataType.holds d.default && refsPanic rs)

theorem writeConsts_none_iff (cs : List (Nat × Bytes)) (p : Bytes) :
    writeConsts cs p = none ↔ ∃ c ∈ cs, usizeLimit ≤ c.1 + c.2.length := by
  induction cs generalizing p with
  | nil => simp [writeConsts]
  | cons c cs ih =>
    obtain ⟨off, data⟩ := c
    by_cases hw : off + data.length < usizeLimit
    · simp only [writeConsts, updateLen_some p off data.length hw]
      rw [if_neg (by simp; omega), ih]
      simp only [List.mem_cons, exists_eq_or_imp]
      constructor
      · intro h; exact Or.inr h
      · rintro (h | h)
        · omega
        · exact h
    · simp only [writeConsts, updateLen_none p off data.length (by omega)]
      simp only [List.mem_cons, exists_eq_or_imp, true_iff]
      exact Or.inl (by omega)

theorem writeDefaults_panic_iff (rs : List (Nat × PrmDef)) (p : Bytes) :
    writeDefaults rs p = .panic ↔ refsPanic rs = true := by
  induction rs generalizing p with
  | nil => simp [writeDefaults, refsPanic]
  | cons r rs ih =>
    obtain ⟨off, d⟩ := r
    by_cases hw : off + d.dataType.size < usizeLimit
    · simp only [writeDefaults, updateLen_some p off d.dataType.size hw, refsPanic]
      generalize hp1 : p ++ List.replicate (off + d.dataType.size - p.length) 0 = p1
      have hlen : p1.length = max p.length (off + d.dataType.size) := by
        rw [← hp1]; simp; omega
      rw [if_neg (by omega)]
      have hs : d.dataType.size ≤ (p1.drop off).length := by simp; omega
      have hno : ¬ usizeLimit ≤ off + d.dataType.size := by omega
      by_cases ht : d.dataType.holds d.default
      · rw [writeValue_accept _ _ _ hs ht]
        simp only [ih, ht, hno, decide_false, Bool.false_or, Bool.true_and]
      · simp only [Bool.not_eq_true] at ht
        rw [writeValue_reject _ _ _ hs ht]
        simp [ht, hno]
    · simp only [writeDefaults, updateLen_none p off d.dataType.size (by omega), refsPanic]
      simp; omega

theorem refsPanic_iff (rs : List (Nat × PrmDef)) :
    refsPanic rs = true ↔ ∃ pre r post, rs = pre ++ r :: post ∧ usizeLimit ≤ r.1 + r.2.dataType.size ∧
      ∀ q ∈ pre, q.2.dataType.holds q.2.default = true := by
  induction rs with
  | nil => simp [refsPanic]
  | cons r rs ih =>
    obtain ⟨off, d⟩ := r
    simp only [refsPanic, Bool.or_eq_true, decide_eq_true_eq, Bool.and_eq_true, ih]
    constructor
    · rintro (h | ⟨hd, pre, r, post, rfl, hr, hpre⟩)
      · exact ⟨[], (off, d), rs, rfl, h, fun q hq => by cases hq⟩
      · refine ⟨(off, d) :: pre, r, post, rfl, hr, fun q hq => ?_⟩
        rcases List.mem_cons.mp hq with rfl | hq
        · exact hd
        · exact hpre q hq
    · rintro ⟨pre, r, post, heq, hr, hpre⟩
      cases pre with
      | nil =>
        simp only [List.nil_append, List.cons.injEq] at heq
        obtain ⟨rfl, rfl⟩ := heq
        exact Or.inl hr
      | cons q pre =>
        simp only [List.cons_append, List.cons.injEq] at heq
        obtain ⟨rfl, rfl⟩ := heq
        exact Or.inr ⟨hpre _ (List.mem_cons_self ..), pre, r, post, rfl, hr,
          fun q hq => hpre q (List.mem_cons_of_mem _ hq)⟩

theorem new_panic_iff' (L : Layout) :
    Builder.new L = .panic ↔ (∃ c ∈ L.consts, usizeLimit ≤ c.1 + c.2.length) ∨ refsPanic L.refs = true := by
  unfold Builder.new
  cases hc : writeConsts L.consts [] with
  | none =>
    simp only [true_iff]
    exact Or.inl ((writeConsts_none_iff _ _).mp hc)
  | some p1 =>
    have hno : ¬ ∃ c ∈ L.consts, usizeLimit ≤ c.1 + c.2.length := by
      rw [← writeConsts_none_iff _ []]; simp [hc]
    simp only [hno, false_or, ← writeDefaults_panic_iff _ p1]
    cases writeDefaults L.refs p1 <;> simp

/-! ## Clobbering vs masked writes -/

theorem prmWrite_clobber_irrelevant (blk : Bytes) (off : Nat) (t : DataType) (v : Int)
    (h : t.isBitArea = false) : prmWrite true blk off t v = prmWrite false blk off t v := by
  cases t <;> first | rfl | simp [DataType.isBitArea] at h

theorem set_eq_set_iff (blk : Bytes) (off : Nat) (x y : UInt8) (h : off < blk.length) :
    blk.set off x = blk.set off y ↔ x = y := by
  constructor
  · intro he
    have : (blk.set off x)[off]? = (blk.set off y)[off]? := by rw [he]
    simpa [List.getElem?_set_self h] using this
  · rintro rfl; rfl

/-- On a `BitArea(f,l)` holding `v`: the code's write equals the specified one exactly when the
byte has no bit set outside the field. -/
theorem bitArea_write_eq_iff (blk : Bytes) (off f l : Nat) (v : Int) (hoff : off < blk.length)
    (hv : (DataType.bitArea f l).holds v = true) :
    prmWrite true blk off (.bitArea f l) v = prmWrite false blk off (.bitArea f l) v ↔
      blk.getD off 0 &&& ~~~ fieldMask f l = 0 := by
  simp only [DataType.holds, decide_eq_true_eq] at hv
  simp only [prmWrite, if_true, Bool.false_eq_true, if_false]
  rw [set_eq_set_iff _ _ _ _ hoff, eq_comm]
  exact maskedWrite_eq_placed_iff _ f l v hv.1 hv.2.1 hv.2.2.1 hv.2.2.2

/-- The observation the model produces for a call. -/
def obsOf (b : Builder) : SetOutcome → Obs
  | .ok b' => .ok b'.prm
  | .err e => .err e b.prm
  | .panic => .panic

theorem k2Call_held (L : Layout) (blk : Bytes) (c : Call) (off : Nat) (d : PrmDef) (v : Int)
    (ht : target L c = .ok (off, d, v)) (hc : d.constraint.holds v = true) (hd : d.dataType.holds v = true) :
    k2Call L blk c = k2Type d.dataType (blk.getD off 0) := by
  simp [k2Call, ht, hc, hd]

theorem k2Call_rejected (L : Layout) (blk : Bytes) (c : Call)
    (h : ∀ off d v, target L c = .ok (off, d, v) → ¬ (d.constraint.holds v = true ∧ d.dataType.holds v = true)) :
    k2Call L blk c = false := by
  unfold k2Call
  cases ht : target L c with
  | error e => rfl
  | ok r =>
    obtain ⟨off, d, v⟩ := r
    have := h off d v ht
    simp only
    cases hc : d.constraint.holds v <;> cases hd : d.dataType.holds v <;> simp_all

/-- For an accepted call the code's block equals the specified block exactly outside the K2 class. -/
theorem actual_eq_spec_iff (L : Layout) (blk : Bytes) (c : Call) (off : Nat) (d : PrmDef) (v : Int)
    (ht : target L c = .ok (off, d, v)) (hc : d.constraint.holds v = true) (hd : d.dataType.holds v = true)
    (hfit : off + d.dataType.size ≤ blk.length) :
    prmWrite true blk off d.dataType v = prmWrite false blk off d.dataType v ↔ k2Call L blk c = false := by
  rw [k2Call_held L blk c off d v ht hc hd]
  cases hdt : d.dataType with
  | bitArea f l =>
    have hoff : off < blk.length := by simp only [hdt, DataType.size] at hfit; omega
    rw [bitArea_write_eq_iff blk off f l v hoff (by rw [← hdt]; exact hd)]
    simp [k2Type]
  | _ => simp only [k2Type, iff_true]; exact prmWrite_clobber_irrelevant _ _ _ _ rfl

theorem judgeCall_model (b : Builder) (c : Call) (hI : Inv b) :
    judgeCall b.desc b.prm c (obsOf b (b.call c)) =
      if k2Call b.desc b.prm c then .k2 else .pass := by
  rw [call_eq b c hI]
  cases ht : target b.desc c with
  | error e =>
    have h1 : ∀ cl, callWith cl b.desc b.prm c = .error e := fun cl => by simp [callWith, ht]
    have hk := k2Call_rejected b.desc b.prm c (fun off d v h => by rw [ht] at h; cases h)
    simp [h1, outcomeOf, obsOf, judgeCall, specCall, hk]
  | ok r =>
    obtain ⟨off, d, v⟩ := r
    have hfit := hI _ (target_mem _ _ _ _ _ ht)
    by_cases hc : d.constraint.holds v
    · by_cases hd : d.dataType.holds v
      · have h1 : ∀ cl, callWith cl b.desc b.prm c = .ok (prmWrite cl b.prm off d.dataType v) :=
          fun cl => by simp [callWith, ht, hc, hd]
        have hiff := actual_eq_spec_iff b.desc b.prm c off d v ht hc hd hfit
        simp only [h1, outcomeOf, obsOf, judgeCall, specCall, okIs, decide_true, Bool.and_true]
        by_cases hk : k2Call b.desc b.prm c = true
        · have hne : ¬ prmWrite true b.prm off d.dataType v = prmWrite false b.prm off d.dataType v :=
            fun h => by rw [hiff.mp h] at hk; cases hk
          simp [hne, hk]
        · simp only [Bool.not_eq_true] at hk
          simp [hiff.mpr hk, hk]
      · have h1 : ∀ cl, callWith cl b.desc b.prm c = .error .valueRange := fun cl => by
          simp [callWith, ht, hc, hd]
        have hk := k2Call_rejected b.desc b.prm c (fun off' d' v' h => by
          rw [ht] at h; cases h; exact fun hh => hd hh.2)
        simp [h1, outcomeOf, obsOf, judgeCall, specCall, hk]
    · have h1 : ∀ cl, callWith cl b.desc b.prm c = .error .valueConstraint := fun cl => by
        simp [callWith, ht, hc]
      have hk := k2Call_rejected b.desc b.prm c (fun off' d' v' h => by
        rw [ht] at h; cases h; exact fun hh => hc hh.1)
      simp [h1, outcomeOf, obsOf, judgeCall, specCall, hk]

/-! ## Layouts without `BitArea` fields: the code is exact -/

theorem overlayDefaults_noBitArea (blk : Bytes) (rs : List (Nat × PrmDef))
    (h : ∀ r ∈ rs, r.2.dataType.isBitArea = false) :
    overlayDefaults true blk rs = overlayDefaults false blk rs := by
  induction rs generalizing blk with
  | nil => rfl
  | cons r rs ih =>
    obtain ⟨off, d⟩ := r
    simp only [overlayDefaults]
    rw [prmWrite_clobber_irrelevant _ _ _ _ (h (off, d) (List.mem_cons_self ..)),
      ih _ (fun r hr => h r (List.mem_cons_of_mem _ hr))]

theorem hasBitArea_false_iff (L : Layout) :
    L.hasBitArea = false ↔ ∀ r ∈ L.refs, r.2.dataType.isBitArea = false := by
  simp [Layout.hasBitArea]

theorem initWith_noBitArea (L : Layout) (h : L.hasBitArea = false) : actualInit L = specInit L := by
  unfold actualInit specInit initWith
  exact overlayDefaults_noBitArea _ _ ((hasBitArea_false_iff L).mp h)

theorem overlayDefaults_isSome (cl cl' : Bool) (blk blk' : Bytes) (rs : List (Nat × PrmDef)) :
    (overlayDefaults cl blk rs).isSome = (overlayDefaults cl' blk' rs).isSome := by
  induction rs generalizing blk blk' with
  | nil => rfl
  | cons r rs ih =>
    obtain ⟨off, d⟩ := r
    simp only [overlayDefaults]
    by_cases hd : d.dataType.holds d.default
    · simp only [hd, if_true]; exact ih _ _
    · simp [hd]

theorem callWith_noBitArea (L : Layout) (blk : Bytes) (c : Call) (h : L.hasBitArea = false) :
    callWith true L blk c = callWith false L blk c := by
  unfold callWith
  cases ht : target L c with
  | error e => rfl
  | ok r =>
    obtain ⟨off, d, v⟩ := r
    have := (hasBitArea_false_iff L).mp h _ (target_mem _ _ _ _ _ ht)
    simp only [prmWrite_clobber_irrelevant _ _ _ _ this]

theorem runWith_noBitArea (L : Layout) (blk : Bytes) (cs : List Call) (h : L.hasBitArea = false) :
    runWith true L blk cs = specRun L blk cs := by
  unfold specRun runWith
  congr 1
  funext blk c
  simp only [blockAfter, callWith_noBitArea L blk c h]

/-- The observation the model produces for `new`. -/
def newObsOf : BuildOutcome → NewObs
  | .ok b => .ok b.prm
  | .rangeErr => .rangeErr
  | .panic => .panic

theorem judgeNew_model (L : Layout) :
    judgeNew L (newObsOf (Builder.new L)) =
      if wellFormed L && decide (actualInit L ≠ specInit L) then .k2 else .pass := by
  unfold judgeNew
  by_cases hwf : wellFormed L = true
  · simp only [hwf, Bool.not_true, Bool.false_eq_true, if_false, new_eq L hwf, Bool.true_and]
    have hsome := overlayDefaults_isSome true false
      (overlayConsts (List.replicate (blockLen L) 0) L.consts)
      (overlayConsts (List.replicate (blockLen L) 0) L.consts) L.refs
    change (actualInit L).isSome = (specInit L).isSome at hsome
    cases ha : actualInit L with
    | none =>
      rw [ha] at hsome
      cases hs : specInit L with
      | none => simp [newObsOf]
      | some w => rw [hs] at hsome; cases hsome
    | some a =>
      rw [ha] at hsome
      cases hs : specInit L with
      | none => rw [hs] at hsome; cases hsome
      | some w =>
        simp only [newObsOf]
        by_cases he : a = w
        · simp [he]
        · have hb : L.hasBitArea = true := by
            cases hb : L.hasBitArea with
            | true => rfl
            | false =>
              have := initWith_noBitArea L hb
              rw [ha, hs] at this
              exact absurd (Option.some.inj this) he
          simp [he, hb]
  · simp [hwf]

/-! ## What the field images mean bit by bit -/

def maskBitOk (f : Nat) : Bool :=
  (List.range 8).all fun l => (List.range 8).all fun i =>
    !(decide (f ≤ l)) || (bitOf (fieldMask f l) i == (decide (f ≤ i) && decide (i ≤ l)))

theorem maskBitOk_all (f : Nat) (hf : f ≤ 7) : maskBitOk f = true :=
  forall_range 8 maskBitOk (by decide +kernel) f (by omega)

theorem fieldMask_bit (f l i : Nat) (hfl : f ≤ l) (hl : l ≤ 7) (hi : i < 8) :
    bitOf (fieldMask f l) i = (decide (f ≤ i) && decide (i ≤ l)) := by
  have h := maskBitOk_all f (by omega)
  simp only [maskBitOk, List.all_eq_true, List.mem_range] at h
  have := h l (by omega) i hi
  simpa [hfl] using this

theorem placed_bit (f : Nat) (v : Int) (i : Nat) (hi : i < 8) :
    bitOf (placed f v) i = (decide (f ≤ i) && v.toNat.testBit (i - f)) := by
  simp only [bitOf, placed, UInt8.toNat_ofNat']
  rw [Nat.testBit_mod_two_pow, Nat.testBit_mul_two_pow]
  simp [hi]

theorem bitOf_or (a b : UInt8) (i : Nat) : bitOf (a ||| b) i = (bitOf a i || bitOf b i) := by
  simp [bitOf, UInt8.toNat_or, Nat.testBit_or]

theorem bitOf_and (a b : UInt8) (i : Nat) : bitOf (a &&& b) i = (bitOf a i && bitOf b i) := by
  simp [bitOf, UInt8.toNat_and, Nat.testBit_and]

theorem bitOf_not (a : UInt8) (i : Nat) (hi : i < 8) : bitOf (~~~a) i = !bitOf a i := by
  have : ∀ x : UInt8, x.toNat.testBit i = x.toBitVec.getLsbD i := fun _ => rfl
  simp only [bitOf, this, UInt8.toBitVec_not, BitVec.getLsbD_not]
  simp [hi]

theorem maskedWrite_bit (old : UInt8) (f l : Nat) (v : Int) (i : Nat) (hfl : f ≤ l) (hl : l ≤ 7)
    (hi : i < 8) :
    bitOf (maskedWrite old f l v) i =
      if f ≤ i ∧ i ≤ l then v.toNat.testBit (i - f) else bitOf old i := by
  simp only [maskedWrite, bitOf_or, bitOf_and, bitOf_not _ _ hi, fieldMask_bit f l i hfl hl hi,
    placed_bit f v i hi]
  by_cases h1 : f ≤ i <;> by_cases h2 : i ≤ l <;> simp [h1, h2]

theorem intBit_nonneg (v : Int) (h : 0 ≤ v) (k : Nat) : intBit v k = v.toNat.testBit k := by
  cases v with
  | ofNat n => rfl
  | negSucc n => exact absurd h (by simp)

theorem int_digit_bit (v : Int) (m i : Nat) (hi : i < 8) :
    ((v / 2 ^ (8 * m)) % 256).toNat.testBit i = intBit v (8 * m + i) := by
  have hc : (2 : Int) ^ (8 * m) = ((2 ^ (8 * m) : Nat) : Int) := by norm_cast
  cases v with
  | ofNat a =>
    have h1 : ((a : Int) / 2 ^ (8 * m)) % 256 = (((a / 2 ^ (8 * m)) % 2 ^ 8 : Nat) : Int) := by
      rw [hc, show (256 : Int) = ((2 ^ 8 : Nat) : Int) from rfl, ← Int.natCast_ediv, ← Int.natCast_emod]
    show (((a : Int) / 2 ^ (8 * m)) % 256).toNat.testBit i = a.testBit (8 * m + i)
    rw [h1, Int.toNat_natCast, Nat.testBit_mod_two_pow, Nat.testBit_div_two_pow]
    simp [hi, Nat.add_comm]
  | negSucc a =>
    have hpos : (0 : Int) < ((2 ^ (8 * m) : Nat) : Int) := by
      have : 0 < 2 ^ (8 * m) := Nat.pow_pos (by decide)
      omega
    have h1 : (Int.negSucc a / 2 ^ (8 * m)) % 256 = ((255 - (a / 2 ^ (8 * m)) % 2 ^ 8 : Nat) : Int) := by
      rw [hc, Int.negSucc_ediv a hpos]
      have : Int.ediv (a : Int) ((2 ^ (8 * m) : Nat) : Int) = ((a / 2 ^ (8 * m) : Nat) : Int) := rfl
      rw [this]
      generalize a / 2 ^ (8 * m) = c
      omega
    show (Int.negSucc a / 2 ^ (8 * m) % 256).toNat.testBit i = !a.testBit (8 * m + i)
    rw [h1, Int.toNat_natCast]
    have hlt : (a / 2 ^ (8 * m)) % 2 ^ 8 < 2 ^ 8 := Nat.mod_lt _ (by decide)
    have := Nat.testBit_two_pow_sub_succ hlt i
    rw [show 255 - a / 2 ^ (8 * m) % 2 ^ 8 = 2 ^ 8 - (a / 2 ^ (8 * m) % 2 ^ 8 + 1) by omega, this,
      Nat.testBit_mod_two_pow, Nat.testBit_div_two_pow]
    simp [hi, Nat.add_comm]

/-- Big-endian two's complement, bit by bit: bit `i` of byte `j` of the `n`-byte image of `v` is bit
`8·(n-1-j) + i` of `v`. -/
theorem beByte_bit (n j : Nat) (v : Int) (i : Nat) (hi : i < 8) :
    bitOf (beByte n j v) i = intBit v (8 * (n - 1 - j) + i) := by
  have hp : (256 : Int) ^ (n - 1 - j) = 2 ^ (8 * (n - 1 - j)) := by
    rw [Int.pow_mul]; rfl
  simp only [bitOf, beByte, UInt8.toNat_ofNat', hp]
  rw [Nat.testBit_mod_two_pow, int_digit_bit v _ i hi]
  simp [hi]

end PV.Prm
