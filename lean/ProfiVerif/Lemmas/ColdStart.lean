/-
Cold start of the ring on a silent bus, phase (a1): every station listens until the token-lost time-out of
the first one runs out; that station claims the token.  Helper lemmas (C02 ring-level clause).
-/
import ProfiVerif.Lemmas.TimedRingCrash

namespace PV
open StationGap TokenRing

theorem Bus.deliver_nil (b : Bus) (i : Nat) (now : Int) (h : b.txs = []) :
    b.deliver i now = ({ b with seen := b.seen.set i now }, []) := by
  unfold Bus.deliver
  rw [h]
  rfl

theorem Bus.transmitting_nil (b : Bus) (i : Nat) (now : Int) (h : b.txs = []) : b.transmitting i now = false := by
  unfold Bus.transmitting
  rw [h]
  rfl

/-- **A listening station polled on a silent bus before its token-lost time-out**: nothing happens. -/
theorem listen_poll_quiet (s : Station) (apps : Apps) (now l : Int) (coll : Nat) (hon : s.online = true)
    (hst : s.st = .listenToken none coll) (hl : s.lastBusActivity = some l) (hlt : l < now)
    (hw : now < l + (s.p.tokenLostTimeout : Nat)) :
    s.poll apps now false [] = .ok { s := s, apps := apps, rx := [] } := by
  rw [poll_dispatch s apps now [] hon (by rw [hst]; simp) (by rw [hst]; simp)
    (by intro l' hl'; rw [hl] at hl'; cases hl'; exact hlt)]
  simp only [List.length_nil, checkBus_nil]
  unfold dispatch
  simp only [hst]
  unfold doListenToken
  simp only [hst]
  rw [handleLost_quiet { s := s, apps := apps, rx := [] } now l hl
    (by show ¬ (now - l).natAbs ≥ s.p.tokenLostTimeout; omega)]
  simp only [hst, receiveAll_nil, foldTelegrams]

/-- One listening station of the silent cold start (stamp `l`). -/
structure Listening (st : NetStation) (l : Int) : Prop where
  online : st.online = true
  alive : st.dead = false
  inv : Inv st.s st.apps
  son : st.s.online = true
  rx : st.rx = []
  lis : ∃ coll, st.s.st = .listenToken none coll
  stamp : st.s.lastBusActivity = some l

/-- **Silent cold start**: nothing has been transmitted yet; every station listens, with stamp `lst j` not later
than its last poll. -/
structure CS0 (n : Net) (lst : Nat → Int) : Prop where
  txs : n.bus.txs = []
  seenlen : n.bus.seen.length = n.stations.length
  st : ∀ j, j < n.stations.length → ∃ st, n.stations[j]? = some st ∧ Listening st (lst j) ∧
    lst j ≤ n.bus.seen.getD j 0

/-- A listening station is polled before its time-out: nothing happens, the silent cold start goes on. -/
theorem cs0_wait {n : Net} {lst : Nat → Int} (h : CS0 n lst) (j : Nat) (hj : j < n.stations.length) (now : Int)
    (hown : n.bus.seen.getD j 0 < now) (st : NetStation) (hst : n.stations[j]? = some st)
    (hw : now < lst j + (st.s.p.tokenLostTimeout : Nat)) :
    ∃ n' c, n.poll j now = (n', [], some (.ok c)) ∧ c.tx = none ∧ CS0 n' lst ∧ n'.stations = n.stations := by
  obtain ⟨st', hst', hL, hls⟩ := h.st j hj
  rw [hst] at hst'
  cases hst'
  obtain ⟨coll, hs⟩ := hL.lis
  have hjs : j < n.bus.seen.length := by rw [h.seenlen]; exact hj
  have hp := listen_poll_quiet st.s st.apps now (lst j) coll hL.son hs hL.stamp (by omega) hw
  have hp' : st.s.poll st.apps now (Bus.transmitting { n.bus with seen := n.bus.seen.set j now } j now)
      (st.rx ++ []) = .ok { s := st.s, apps := st.apps, rx := [] } := by
    rw [transmitting_seen, hL.rx, Bus.transmitting_nil _ _ _ h.txs]; exact hp
  have hpe := Net.poll_eq n j now st _ [] _ hst hL.alive hL.online (Bus.deliver_nil n.bus j now h.txs) hp'
  have hsame : ({ st with s := st.s, apps := st.apps, rx := [] } : NetStation) = st := by rw [← hL.rx]
  simp only at hpe
  rw [hsame] at hpe
  have hset : n.stations.set j st = n.stations := by
    apply List.ext_getElem?
    intro k
    by_cases hk : k = j
    · subst hk; rw [List.getElem?_set_self hj, hst]
    · rw [List.getElem?_set_ne (Ne.symm hk)]
  rw [hset] at hpe
  refine ⟨_, _, hpe, rfl, ⟨h.txs, by simp [h.seenlen], ?_⟩, rfl⟩
  intro k hk
  obtain ⟨stk, hstk, hLk, hlk⟩ := h.st k hk
  refine ⟨stk, hstk, hLk, ?_⟩
  simp only
  by_cases hkj : k = j
  · subst hkj; rw [seen_set_self _ _ _ hjs]; omega
  · rw [seen_set_other _ _ _ _ (Ne.symm hkj)]; exact hlk

/-- Executable form of the schedule condition `SchedNT` (for concrete poll lists). -/
def schedNTb (P N : Nat) : List Int → Int → List (Nat × Int) → Bool
  | _, _, [] => true
  | seen, tl, (i, now) :: rest =>
    decide (i < N) && decide (tl ≤ now) && decide (seen.getD i 0 < now) &&
    (List.range N).all (fun j => decide (now ≤ seen.getD j 0 + (P : Nat))) &&
    schedNTb P N (seen.set i now) now rest

theorem schedNT_of_b (P N : Nat) : ∀ (evs : List (Nat × Int)) (seen : List Int) (tl : Int),
    schedNTb P N seen tl evs = true → SchedNT P N seen tl evs := by
  intro evs
  induction evs with
  | nil => intro _ _ _; trivial
  | cons ev rest ih =>
    intro seen tl h
    obtain ⟨i, now⟩ := ev
    simp only [schedNTb, Bool.and_eq_true, decide_eq_true_eq, List.all_eq_true, List.mem_range] at h
    obtain ⟨⟨⟨⟨h1, h2⟩, h3⟩, h4⟩, h5⟩ := h
    exact ⟨h1, h2, h3, h4, ih _ _ h5⟩

end PV
