/-
Turn bookkeeping of one token visit (C15 deepening): which applications have declined since the token
was received (`first_app` … `next_application`, cyclically), that nobody who declined is asked again in
the same visit, and why a token hold ends.
-/
import ProfiVerif.Lemmas.AppOrder

namespace PV

/-- The applications that declined, in log order. -/
def declinesOf : List AppCall → List Nat
  | [] => []
  | .transmit i _ .decline :: rest => i :: declinesOf rest
  | .transmit _ _ (.send ..) :: rest => declinesOf rest
  | .reply .. :: rest => declinesOf rest
  | .timeout .. :: rest => declinesOf rest

theorem declinesOf_append : ∀ (l1 l2 : List AppCall), declinesOf (l1 ++ l2) = declinesOf l1 ++ declinesOf l2 := by
  intro l1
  induction l1 with
  | nil => intro l2; rfl
  | cons r rest ih =>
    intro l2
    cases r with
    | transmit i hp ans => cases ans <;> simp [declinesOf, ih]
    | reply i a t => simp [declinesOf, ih]
    | timeout i a => simp [declinesOf, ih]

/-- The `m` cyclic successors of `f` (starting with `f` itself) among `n` applications. -/
def cyc (n f : Nat) : Nat → List Nat
  | 0 => []
  | m + 1 => cyc n f m ++ [(f + m) % n]

theorem cyc_length (n f : Nat) : ∀ m, (cyc n f m).length = m := by
  intro m; induction m with
  | zero => rfl
  | succ m ih => simp [cyc, ih]

theorem mem_cyc (n f : Nat) : ∀ m x, x ∈ cyc n f m ↔ ∃ t, t < m ∧ x = (f + t) % n := by
  intro m
  induction m with
  | zero => intro x; simp [cyc]
  | succ m ih =>
    intro x
    simp only [cyc, List.mem_append, List.mem_singleton, ih]
    constructor
    · rintro (⟨t, ht, hx⟩ | hx)
      · exact ⟨t, by omega, hx⟩
      · exact ⟨m, by omega, hx⟩
    · rintro ⟨t, ht, hx⟩
      by_cases h : t = m
      · subst h; exact .inr hx
      · exact .inl ⟨t, by omega, hx⟩

theorem mod_lt2 (x n : Nat) (hx : x < 2 * n) : x % n = if x < n then x else x - n := by
  by_cases h : x < n
  · rw [if_pos h]; exact Nat.mod_eq_of_lt h
  · rw [if_neg h]
    have e : x = (x - n) + n := by omega
    rw [e, Nat.add_mod_right, Nat.mod_eq_of_lt (by omega)]
    omega

/-- Cyclic successors are pairwise distinct within one round. -/
theorem cyc_inj (n f a b : Nat) (hf : f < n) (ha : a < n) (hb : b < n) (h : (f + a) % n = (f + b) % n) : a = b := by
  rw [mod_lt2 (f + a) n (by omega), mod_lt2 (f + b) n (by omega)] at h
  split at h <;> split at h <;> omega

theorem cyc_nodup (n f : Nat) (hf : f < n) : ∀ m, m ≤ n → (cyc n f m).Nodup := by
  intro m
  induction m with
  | zero => intro _; simp [cyc]
  | succ m ih =>
    intro hm
    simp only [cyc]
    rw [List.nodup_append]
    refine ⟨ih (by omega), by simp, ?_⟩
    intro x hx y hy
    simp only [List.mem_singleton] at hy
    subst hy
    obtain ⟨t, ht, hx⟩ := (mem_cyc n f m x).mp hx
    intro he
    rw [hx] at he
    have := cyc_inj n f t m hf (by omega) (by omega) he
    omega

/-- One full round reaches every application. -/
theorem cyc_full (n f i : Nat) (hf : f < n) (hi : i < n) : i ∈ cyc n f n := by
  rw [mem_cyc]
  by_cases h : f ≤ i
  · exact ⟨i - f, by omega, by rw [show f + (i - f) = i by omega, Nat.mod_eq_of_lt hi]⟩
  · refine ⟨i + n - f, by omega, ?_⟩
    rw [show f + (i + n - f) = i + n by omega, Nat.add_mod_right, Nat.mod_eq_of_lt hi]

/-- The turn is back at `first_app` exactly after one full round. -/
theorem cyc_back (n f m : Nat) (hf : f < n) (h0 : 0 < m) (hm : m ≤ n) (h : (f + m) % n = f) : m = n := by
  rw [mod_lt2 (f + m) n (by omega)] at h
  split at h <;> omega

theorem cyc_round (n f : Nat) (hf : f < n) : (f + n) % n = f := by
  rw [Nat.add_mod_right, Nat.mod_eq_of_lt hf]

/-- Turn bookkeeping of a token visit: `fa` = `first_app` of the visit's `UseTokenData`, `j` =
`next_application`, `D` = the applications that declined in this visit so far, in order.  Either nobody
declined yet, or the decliners are `first_app` and its cyclic successors — fewer than all — and the turn
is at the next successor. -/
def VTurn (n : Nat) (fa : Option Nat) (j : Nat) (D : List Nat) : Prop :=
  match fa with
  | none => D = []
  | some f => ∃ m, 0 < m ∧ m < n ∧ f < n ∧ D = cyc n f m ∧ j = (f + m) % n

/-- The application whose turn it is has not declined in this visit. -/
theorem vturn_notin {n : Nat} {fa : Option Nat} {j : Nat} {D : List Nat} (h : VTurn n fa j D) : j ∉ D := by
  cases fa with
  | none => simp only [VTurn] at h; rw [h]; simp
  | some f =>
    obtain ⟨m, h0, hm, hf, hD, hj⟩ := h
    rw [hD, mem_cyc]
    rintro ⟨t, ht, he⟩
    rw [hj] at he
    have := cyc_inj n f m t hf hm (by omega) he
    omega

theorem vturn_nodup {n : Nat} {fa : Option Nat} {j : Nat} {D : List Nat} (h : VTurn n fa j D) : D.Nodup := by
  cases fa with
  | none => simp only [VTurn] at h; rw [h]; simp
  | some f =>
    obtain ⟨m, h0, hm, hf, hD, hj⟩ := h
    rw [hD]; exact cyc_nodup n f hf m (by omega)

theorem vturn_length {n : Nat} {fa : Option Nat} {j : Nat} {D : List Nat} (h : VTurn n fa j D) (hn : 0 < n) : D.length < n := by
  cases fa with
  | none => simp only [VTurn] at h; rw [h]; exact hn
  | some f =>
    obtain ⟨m, h0, hm, hf, hD, hj⟩ := h
    rw [hD, cyc_length]; exact hm

/-- `schedule_next_application` after a decline of application `j`: the decliners are now `first_app` and
`m'` successors, the turn moves on. -/
theorem vturn_decline {n : Nat} {fa : Option Nat} {j : Nat} {D : List Nat} (h : VTurn n fa j D) (hj : j < n) :
    ∃ m', 0 < m' ∧ m' ≤ n ∧ fa.getD j < n ∧ D ++ [j] = cyc n (fa.getD j) m' ∧ (j + 1) % n = (fa.getD j + m') % n := by
  cases fa with
  | none =>
    simp only [VTurn] at h
    subst h
    refine ⟨1, by omega, by omega, hj, ?_, rfl⟩
    simp [cyc, Nat.mod_eq_of_lt hj]
  | some f =>
    obtain ⟨m, h0, hm, hf, hD, hjm⟩ := h
    refine ⟨m + 1, by omega, by omega, hf, ?_, ?_⟩
    · simp only [Option.getD_some, cyc]; rw [hD, hjm]
    · simp only [Option.getD_some]; rw [hjm, Nat.mod_add_mod]; rfl

end PV
