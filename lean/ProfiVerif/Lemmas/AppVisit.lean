/-
Turn bookkeeping of one token visit (C15 deepening): which applications have declined since the token
was received (`first_app` … `next_application`, cyclically), that nobody who declined is asked again in
the same visit, and why a token hold ends.
-/
import ProfiVerif.Lemmas.AppOrder

namespace PV

/-- The applications that declined, in log order. -/
def declinesOf : List AppCall → List Nat
  | [] => []
  | .transmit i _ .decline :: rest => i :: declinesOf rest
  | .transmit _ _ (.send ..) :: rest => declinesOf rest
  | .reply .. :: rest => declinesOf rest
  | .timeout .. :: rest => declinesOf rest

theorem declinesOf_append : ∀ (l1 l2 : List AppCall), declinesOf (l1 ++ l2) = declinesOf l1 ++ declinesOf l2 := by
  intro l1
  induction l1 with
  | nil => intro l2; rfl
  | cons r rest ih =>
    intro l2
    cases r with
    | transmit i hp ans => cases ans <;> simp [declinesOf, ih]
    | reply i a t => simp [declinesOf, ih]
    | timeout i a => simp [declinesOf, ih]

/-- The `m` cyclic successors of `f` (starting with `f` itself) among `n` applications. -/
def cyc (n f : Nat) : Nat → List Nat
  | 0 => []
  | m + 1 => cyc n f m ++ [(f + m) % n]

theorem cyc_length (n f : Nat) : ∀ m, (cyc n f m).length = m := by
  intro m; induction m with
  | zero => rfl
  | succ m ih => simp [cyc, ih]

theorem mem_cyc (n f : Nat) : ∀ m x, x ∈ cyc n f m ↔ ∃ t, t < m ∧ x = (f + t) % n := by
  intro m
  induction m with
  | zero => intro x; simp [cyc]
  | succ m ih =>
    intro x
    simp only [cyc, List.mem_append, List.mem_singleton, ih]
    constructor
    · rintro (⟨t, ht, hx⟩ | hx)
      · exact ⟨t, by omega, hx⟩
      · exact ⟨m, by omega, hx⟩
    · rintro ⟨t, ht, hx⟩
      by_cases h : t = m
      · subst h; exact .inr hx
      · exact .inl ⟨t, by omega, hx⟩

theorem mod_lt2 (x n : Nat) (hx : x < 2 * n) : x % n = if x < n then x else x - n := by
  by_cases h : x < n
  · rw [if_pos h]; exact Nat.mod_eq_of_lt h
  · rw [if_neg h]
    have e : x = (x - n) + n := by omega
    rw [e, Nat.add_mod_right, Nat.mod_eq_of_lt (by omega)]
    omega

/-- Cyclic successors are pairwise distinct within one round. -/
theorem cyc_inj (n f a b : Nat) (hf : f < n) (ha : a < n) (hb : b < n) (h : (f + a) % n = (f + b) % n) : a = b := by
  rw [mod_lt2 (f + a) n (by omega), mod_lt2 (f + b) n (by omega)] at h
  split at h <;> split at h <;> omega

theorem cyc_nodup (n f : Nat) (hf : f < n) : ∀ m, m ≤ n → (cyc n f m).Nodup := by
  intro m
  induction m with
  | zero => intro _; simp [cyc]
  | succ m ih =>
    intro hm
    simp only [cyc]
    rw [List.nodup_append]
    refine ⟨ih (by omega), by simp, ?_⟩
    intro x hx y hy
    simp only [List.mem_singleton] at hy
    subst hy
    obtain ⟨t, ht, hx⟩ := (mem_cyc n f m x).mp hx
    intro he
    rw [hx] at he
    have := cyc_inj n f t m hf (by omega) (by omega) he
    omega

/-- One full round reaches every application. -/
theorem cyc_full (n f i : Nat) (hf : f < n) (hi : i < n) : i ∈ cyc n f n := by
  rw [mem_cyc]
  by_cases h : f ≤ i
  · exact ⟨i - f, by omega, by rw [show f + (i - f) = i by omega, Nat.mod_eq_of_lt hi]⟩
  · refine ⟨i + n - f, by omega, ?_⟩
    rw [show f + (i + n - f) = i + n by omega, Nat.add_mod_right, Nat.mod_eq_of_lt hi]

/-- The turn is back at `first_app` exactly after one full round. -/
theorem cyc_back (n f m : Nat) (hf : f < n) (h0 : 0 < m) (hm : m ≤ n) (h : (f + m) % n = f) : m = n := by
  rw [mod_lt2 (f + m) n (by omega)] at h
  split at h <;> omega

theorem cyc_round (n f : Nat) (hf : f < n) : (f + n) % n = f := by
  rw [Nat.add_mod_right, Nat.mod_eq_of_lt hf]

/-- Turn bookkeeping of a token visit: `fa` = `first_app` of the visit's `UseTokenData`, `j` =
`next_application`, `D` = the applications that declined in this visit so far, in order.  Either nobody
declined yet, or the decliners are `first_app` and its cyclic successors — fewer than all — and the turn
is at the next successor. -/
def VTurn (n : Nat) (fa : Option Nat) (j : Nat) (D : List Nat) : Prop :=
  match fa with
  | none => D = []
  | some f => ∃ m, 0 < m ∧ m < n ∧ f < n ∧ D = cyc n f m ∧ j = (f + m) % n

theorem vturn_some {n f j : Nat} {D : List Nat} (h : ∃ m, 0 < m ∧ m < n ∧ f < n ∧ D = cyc n f m ∧ j = (f + m) % n) :
    VTurn n (some f) j D := h

/-- The application whose turn it is has not declined in this visit. -/
theorem vturn_notin {n : Nat} {fa : Option Nat} {j : Nat} {D : List Nat} (h : VTurn n fa j D) : j ∉ D := by
  cases fa with
  | none => simp only [VTurn] at h; rw [h]; simp
  | some f =>
    obtain ⟨m, h0, hm, hf, hD, hj⟩ := h
    rw [hD, mem_cyc]
    rintro ⟨t, ht, he⟩
    rw [hj] at he
    have := cyc_inj n f m t hf hm (by omega) he
    omega

theorem vturn_nodup {n : Nat} {fa : Option Nat} {j : Nat} {D : List Nat} (h : VTurn n fa j D) : D.Nodup := by
  cases fa with
  | none => simp only [VTurn] at h; rw [h]; simp
  | some f =>
    obtain ⟨m, h0, hm, hf, hD, hj⟩ := h
    rw [hD]; exact cyc_nodup n f hf m (by omega)

theorem vturn_length {n : Nat} {fa : Option Nat} {j : Nat} {D : List Nat} (h : VTurn n fa j D) (hn : 0 < n) : D.length < n := by
  cases fa with
  | none => simp only [VTurn] at h; rw [h]; exact hn
  | some f =>
    obtain ⟨m, h0, hm, hf, hD, hj⟩ := h
    rw [hD, cyc_length]; exact hm

/-- `schedule_next_application` after a decline of application `j`: the decliners are now `first_app` and
`m'` successors, the turn moves on. -/
theorem vturn_decline {n : Nat} {fa : Option Nat} {j : Nat} {D : List Nat} (h : VTurn n fa j D) (hj : j < n) :
    ∃ m', 0 < m' ∧ m' ≤ n ∧ fa.getD j < n ∧ D ++ [j] = cyc n (fa.getD j) m' ∧ (j + 1) % n = (fa.getD j + m') % n := by
  cases fa with
  | none =>
    simp only [VTurn] at h
    subst h
    refine ⟨1, by omega, by omega, hj, ?_, rfl⟩
    simp [cyc, Nat.mod_eq_of_lt hj]
  | some f =>
    obtain ⟨m, h0, hm, hf, hD, hjm⟩ := h
    refine ⟨m + 1, by omega, by omega, hf, ?_, ?_⟩
    · simp only [Option.getD_some, cyc]; rw [hD, hjm]
    · simp only [Option.getD_some]; rw [hjm, Nat.mod_add_mod]; rfl

/-- Every `transmit_telegram` of the log goes to an application that has not declined before — neither
in `D` (earlier in the visit) nor earlier in this log. -/
def askFresh : List Nat → List AppCall → Prop
  | _, [] => True
  | D, .transmit i _ .decline :: rest => i ∉ D ∧ askFresh (D ++ [i]) rest
  | D, .transmit i _ (.send ..) :: rest => i ∉ D ∧ askFresh D rest
  | D, .reply .. :: rest => askFresh D rest
  | D, .timeout .. :: rest => askFresh D rest

theorem askFresh_append : ∀ (l1 l2 : List AppCall) (D : List Nat), askFresh D l1 → askFresh (D ++ declinesOf l1) l2 →
    askFresh D (l1 ++ l2) := by
  intro l1
  induction l1 with
  | nil => intro l2 D _ h; simpa [declinesOf] using h
  | cons r rest ih =>
    intro l2 D h1 h2
    cases r with
    | transmit i hp ans =>
      cases ans with
      | decline =>
        simp only [askFresh, List.cons_append] at h1 ⊢
        refine ⟨h1.1, ih l2 _ h1.2 ?_⟩
        simpa [declinesOf] using h2
      | send hd pdu =>
        simp only [askFresh, List.cons_append] at h1 ⊢
        exact ⟨h1.1, ih l2 _ h1.2 (by simpa [declinesOf] using h2)⟩
    | reply i a t =>
      simp only [askFresh, List.cons_append] at h1 ⊢
      exact ih l2 _ h1 (by simpa [declinesOf] using h2)
    | timeout i a =>
      simp only [askFresh, List.cons_append] at h1 ⊢
      exact ih l2 _ h1 (by simpa [declinesOf] using h2)

theorem askFresh_notin : ∀ (l : List AppCall) (D : List Nat), askFresh D l → ∀ x ∈ D, ∀ hp ans, AppCall.transmit x hp ans ∉ l := by
  intro l
  induction l with
  | nil => intro D _ x _ hp ans h; cases h
  | cons r rest ih =>
    intro D h x hx hp ans hmem
    cases r with
    | transmit i hp' ans' =>
      cases ans' with
      | decline =>
        simp only [askFresh] at h
        rcases List.mem_cons.mp hmem with he | hmem
        · cases he; exact h.1 hx
        · exact ih _ h.2 x (by simp [hx]) hp ans hmem
      | send hd pdu =>
        simp only [askFresh] at h
        rcases List.mem_cons.mp hmem with he | hmem
        · cases he; exact h.1 hx
        · exact ih _ h.2 x hx hp ans hmem
    | reply i a t =>
      simp only [askFresh] at h
      rcases List.mem_cons.mp hmem with he | hmem
      · cases he
      · exact ih _ h x hx hp ans hmem
    | timeout i a =>
      simp only [askFresh] at h
      rcases List.mem_cons.mp hmem with he | hmem
      · cases he
      · exact ih _ h x hx hp ans hmem

/-- Reading of `askFresh`: an application that declined is not asked again in the rest of the log. -/
theorem askFresh_decline : ∀ (pre : List AppCall) (D : List Nat) (l post : List AppCall) (i : Nat) (hp : Bool),
    askFresh D l → l = pre ++ .transmit i hp .decline :: post → ∀ hp' ans, AppCall.transmit i hp' ans ∉ post := by
  intro pre
  induction pre with
  | nil =>
    intro D l post i hp h he hp' ans
    subst he
    simp only [List.nil_append, askFresh] at h
    exact askFresh_notin post _ h.2 i (by simp) hp' ans
  | cons r rest ih =>
    intro D l post i hp h he hp' ans
    subst he
    cases r with
    | transmit i' hp'' ans' =>
      cases ans' with
      | decline => simp only [List.cons_append, askFresh] at h; exact ih _ _ post i hp h.2 rfl hp' ans
      | send hd pdu => simp only [List.cons_append, askFresh] at h; exact ih _ _ post i hp h.2 rfl hp' ans
    | reply i' a t => simp only [List.cons_append, askFresh] at h; exact ih _ _ post i hp h rfl hp' ans
    | timeout i' a => simp only [List.cons_append, askFresh] at h; exact ih _ _ post i hp h rfl hp' ans

theorem appTransmit_lt (c c1 : Ctx) (now : Int) (hp b : Bool) (h : appTransmit c now hp = (.ok c1, b)) :
    c.s.nextApp < c.apps.length := by
  unfold appTransmit at h
  simp only at h
  rcases hs : c.apps[c.s.nextApp]? with _ | script
  · rw [hs] at h; cases h
  · exact (List.getElem?_eq_some_iff.mp hs).1

/-- `apps_transmit_telegram` with the visit's turn bookkeeping: every application asked has not declined
in this visit; if something is sent the bookkeeping carries on; if nobody sends, there are no
applications or now EVERY application has declined exactly once in this visit (one full round from
`first_app`). -/
theorem appsTransmit_turn (now : Int) (hp : Bool) (n : Nat) : ∀ (k : Nat) (c c1 : Ctx) (b : Bool) (d : UseData) (fcd : Bool)
    (D : List Nat), c.s.st = .useToken d fcd → c.apps.length = n → VTurn n d.firstApp c.s.nextApp D →
    n ≤ D.length + k → appsTransmit now hp k c = (.ok c1, b) →
    ∃ new, c1.calls = c.calls ++ new ∧ askFresh D new ∧
      (b = true → ∃ d', (c1.s.st = .useToken d' fcd ∨ ∃ a, c1.s.st = .awaitData a d') ∧
          VTurn n d'.firstApp c1.s.nextApp (D ++ declinesOf new)) ∧
      (b = false → n = 0 ∨ ∃ f, f < n ∧ D ++ declinesOf new = cyc n f n) := by
  intro k
  induction k with
  | zero =>
    intro c c1 b d fcd D hst hlen hv hk h
    simp only [appsTransmit, Prod.mk.injEq, Res.ok.injEq] at h
    obtain ⟨h1, h2⟩ := h
    subst h1; subst h2
    refine ⟨[], by simp, trivial, (by intro hb; cases hb), fun _ => ?_⟩
    by_cases hn : n = 0
    · exact .inl hn
    · have := vturn_length hv (by omega); omega
  | succ k ih =>
    intro c c1 b d fcd D hst hlen hv hk h
    simp only [appsTransmit] at h
    rcases hat : appTransmit c now hp with ⟨r, b1⟩
    rw [hat] at h
    cases r with
    | panic site => cases h
    | ok c2 =>
      have hj : c.s.nextApp < n := by rw [← hlen]; exact appTransmit_lt c c2 now hp b1 hat
      obtain ⟨ans, hc, -, -, -, hn, hl, hbf, hbt⟩ := appTransmit_eff c c2 now hp b1 d fcd hst hat
      have hfresh := vturn_notin hv
      cases b1 with
      | true =>
        simp only [Prod.mk.injEq, Res.ok.injEq] at h
        obtain ⟨h1, h2⟩ := h
        subst h1; subst h2
        obtain ⟨hd, pdu, hans, hcase⟩ := hbt rfl
        subst hans
        refine ⟨[.transmit c.s.nextApp hp (.send hd pdu)], hc, ⟨hfresh, trivial⟩, fun _ => ⟨d, ?_, ?_⟩, (by intro hb; cases hb)⟩
        · rcases hcase with ⟨-, hs2⟩ | ⟨a8, -, hs2⟩
          · exact .inl hs2
          · exact .inr ⟨_, hs2⟩
        · simpa [declinesOf, hn] using hv
      | false =>
        obtain ⟨hans, hs2⟩ := hbf rfl
        subst hans
        simp only at h
        rw [hs2] at h
        simp only [upd] at h
        obtain ⟨m', hm0, hmn, hfn, hD, hnext⟩ := vturn_decline hv hj
        rw [hn, hl, hlen] at h
        rcases ite_inv h with ⟨hcyc, h⟩ | ⟨hcyc, h⟩
        · simp only [Prod.mk.injEq, Res.ok.injEq] at h
          obtain ⟨h1, h2⟩ := h
          subst h1; subst h2
          refine ⟨[.transmit c.s.nextApp hp .decline], hc, ⟨hfresh, trivial⟩, (by intro hb; cases hb), fun _ => .inr ⟨_, hfn, ?_⟩⟩
          have : m' = n := cyc_back n _ m' hfn hm0 hmn (by rw [← hnext]; exact hcyc)
          rw [this] at hD
          simpa [declinesOf] using hD
        · have hlt : m' < n := by
            rcases Nat.lt_or_ge m' n with hlt | hge
            · exact hlt
            · exfalso
              have : m' = n := by omega
              rw [this, cyc_round n _ hfn] at hnext
              exact hcyc hnext
          obtain ⟨new, hc3, hf3, hbt3, hbf3⟩ := ih
            { c2 with s := { c2.s with st := .useToken { d with firstApp := some (d.firstApp.getD c.s.nextApp) } fcd,
                                       nextApp := (c.s.nextApp + 1) % n } } c1 b
            { d with firstApp := some (d.firstApp.getD c.s.nextApp) } fcd (D ++ [c.s.nextApp]) rfl (hl.trans hlen)
            (vturn_some ⟨m', hm0, hlt, hfn, hD, hnext⟩) (by simp; omega) h
          refine ⟨.transmit c.s.nextApp hp .decline :: new, ?_, ⟨hfresh, hf3⟩, ?_, ?_⟩
          · rw [hc3]; simp only [hc, List.append_assoc, List.singleton_append]
          · intro hb
            obtain ⟨d', hs', hv'⟩ := hbt3 hb
            exact ⟨d', hs', by simpa [declinesOf] using hv'⟩
          · intro hb
            rcases hbf3 hb with h0 | ⟨f, hf, he⟩
            · exact .inl h0
            · exact .inr ⟨f, hf, by simpa [declinesOf] using he⟩

/-! ## Token-visit steps with the turn bookkeeping -/

/-- The states in which `do_use_token` leaves the station when it ends the token hold
(`transition_pass_token` + `do_pass_token` in the same poll): waiting for the synchronisation pause in
`PassToken`, GAP poll sent, token sent to itself (alone in the ring: a new visit starts at once), or
token sent to NS. -/
def Passed (s : Station) (now : Int) : Prop :=
  s.st = .passToken true .first ∨ (∃ a, s.st = .awaitStatus a) ∨ s.st = .useToken ⟨now, none⟩ false ∨
    s.st = .checkTokenPass .first

theorem passNow_state (c c' : Ctx) (now : Int) (h : passNow c now = .ok c') : Passed c'.s now := by
  unfold passNow at h
  obtain ⟨c1, ht, h⟩ := bind_ok_inv h
  obtain ⟨s', hs', hc'⟩ := tr_inv ht
  have := toPassToken_inv hs'
  subst this; subst hc'
  obtain ⟨-, -, hpost⟩ := doPassToken_eff _ c' now true .first rfl h
  rcases hpost with ⟨h1, -, -⟩ | ⟨-, h1, -⟩ | ⟨-, h1 | h1, -⟩
  · exact .inl h1
  · exact .inr (.inl h1)
  · exact .inr (.inr (.inl h1))
  · exact .inr (.inr (.inr h1))

/-- Outcome of a token-visit step under the turn bookkeeping (`D` = decliners of the visit so far, `over`
= the hold time is over): every application asked is one that has not declined in this visit, and
* nothing happened (waiting for the synchronisation pause / the reply / the own transmission), or
* the visit continues (`UseToken` with `first_cycle_done`, or `AwaitDataResponse`) and the bookkeeping
  carries on with the new decliners, or
* an inadmissible telegram arrived while awaiting a reply: back-off to `ActiveIdle`, or
* the token hold was ended — and then the hold time is over, or there are no applications, or every
  application has declined exactly once in this visit (one full round from `first_app`). -/
def TurnPost (n : Nat) (D : List Nat) (c c' : Ctx) (now : Int) (over : Prop) : Prop :=
  ∃ new, c'.calls = c.calls ++ new ∧ askFresh D new ∧
   ((new = [] ∧ c'.s.st = c.s.st ∧ c'.s.nextApp = c.s.nextApp) ∨
    (∃ d', (c'.s.st = .useToken d' true ∨ ∃ a, c'.s.st = .awaitData a d') ∧
        VTurn n d'.firstApp c'.s.nextApp (D ++ declinesOf new)) ∨
    (c'.s.st = .activeIdle none none 0) ∨
    (Passed c'.s now ∧ (over ∨ n = 0 ∨ ∃ f, f < n ∧ D ++ declinesOf new = cyc n f n)))

theorem TurnPost.lift {n : Nat} {D : List Nat} {c0 c c' : Ctx} {now : Int} {over over' : Prop}
    (e1 : c0.calls = c.calls) (e2 : c0.s.st = c.s.st) (e3 : c0.s.nextApp = c.s.nextApp) (ho : over → over')
    (h : TurnPost n D c0 c' now over) : TurnPost n D c c' now over' := by
  obtain ⟨new, hc, hf, hcase⟩ := h
  refine ⟨new, by rw [hc, e1], hf, ?_⟩
  rcases hcase with ⟨h1, h2, h3⟩ | h | h | ⟨h1, h2 | h2⟩
  · exact .inl ⟨h1, h2.trans e2, h3.trans e3⟩
  · exact .inr (.inl h)
  · exact .inr (.inr (.inl h))
  · exact .inr (.inr (.inr ⟨h1, .inl (ho h2)⟩))
  · exact .inr (.inr (.inr ⟨h1, .inr h2⟩))

theorem useTokenGo_turn (n : Nat) (D : List Nat) (c c' : Ctx) (now : Int) (d : UseData) (hp : Bool) (over : Prop)
    (hlen : c.apps.length = n) (hv : VTurn n d.firstApp c.s.nextApp D) (h : useTokenGo c now d hp = .ok c') :
    TurnPost n D c c' now over := by
  unfold useTokenGo at h
  simp only [upd] at h
  rcases hat : appsTransmit now hp c.apps.length { c with s := { c.s with st := .useToken d true } } with ⟨r, b⟩
  rw [hat] at h
  cases r with
  | panic site => cases h
  | ok c2 =>
    obtain ⟨new, hc, hf, hbt, hbf⟩ := appsTransmit_turn now hp n c.apps.length { c with s := { c.s with st := .useToken d true } } c2 b d true D rfl hlen hv (by rw [hlen]; omega) hat
    cases b with
    | true =>
      cases h
      obtain ⟨d', hs', hv'⟩ := hbt rfl
      exact ⟨new, hc, hf, .inr (.inl ⟨d', hs', hv'⟩)⟩
    | false =>
      simp only at h
      obtain ⟨hq, -, -⟩ := passNow_eff c2 c' now new h
      exact ⟨new, hq.calls.trans hc, hf, .inr (.inr (.inr ⟨passNow_state c2 c' now h, .inr (hbf rfl)⟩))⟩

theorem gol_clock (s : Station) (now : Int) :
    (getOrInsertLast s now).1.lastTokenTime = s.lastTokenTime ∧ (getOrInsertLast s now).1.endTokenHoldTime = s.endTokenHoldTime := by
  unfold getOrInsertLast; split <;> simp

theorem checkBA_clock (s : Station) (now : Int) (k : Nat) :
    (checkBusActivity s now k).lastTokenTime = s.lastTokenTime ∧ (checkBusActivity s now k).endTokenHoldTime = s.endTokenHoldTime := by
  unfold checkBusActivity markBusActivity; split <;> simp

theorem hold_end_congr (s1 s : Station) (d : UseData) (h1 : s1.lastTokenTime = s.lastTokenTime) (h2 : s1.p = s.p)
    (h3 : s1.gap = s.gap) (h4 : s1.endTokenHoldTime = s.endTokenHoldTime) :
    (holdUpdate s1 d).endTokenHoldTime = (holdUpdate s d).endTokenHoldTime := by
  unfold holdUpdate
  rw [h1]
  by_cases h : s.lastTokenTime ≠ d.tokenTime
  · rw [if_pos h, if_pos h]; simp only [h1, h2, h3]
  · rw [if_neg h, if_neg h]; exact h4

theorem doUseToken_turn (n : Nat) (D : List Nat) (c c' : Ctx) (now : Int) (d : UseData) (fcd : Bool)
    (hst : c.s.st = .useToken d fcd) (hlen : c.apps.length = n) (hv : VTurn n d.firstApp c.s.nextApp D)
    (h : doUseToken c now = .ok c') :
    TurnPost n D c c' now (¬ now < (holdUpdate c.s d).endTokenHoldTime) := by
  unfold doUseToken at h
  rw [hst] at h
  simp only at h
  have hnx : (waitSyncPause (holdUpdate c.s d) now).1.nextApp = c.s.nextApp := by rw [ws_nextApp, hold_nextApp]
  have hstx : (waitSyncPause (holdUpdate c.s d) now).1.st = c.s.st := by rw [waitSync_fst, gol_st, hold_st]
  rcases ite_inv h with ⟨_, h⟩ | ⟨_, h⟩
  · cases h
    exact ⟨[], by simp, trivial, .inl ⟨rfl, hstx, hnx⟩⟩
  · rcases ite_inv h with ⟨_, h⟩ | ⟨hover, h⟩
    · exact TurnPost.lift (c0 := { c with s := (waitSyncPause (holdUpdate c.s d) now).1 }) rfl hstx hnx id
        (useTokenGo_turn n D _ c' now d false _ hlen (by rw [hnx]; exact hv) h)
    · rcases ite_inv h with ⟨_, h⟩ | ⟨_, h⟩
      · exact TurnPost.lift (c0 := { c with s := (waitSyncPause (holdUpdate c.s d) now).1 }) rfl hstx hnx id
          (useTokenGo_turn n D _ c' now d true _ hlen (by rw [hnx]; exact hv) h)
      · obtain ⟨hq, -, -⟩ := passNow_eff _ c' now [] h
        refine ⟨[], by simpa using hq.calls, trivial, .inr (.inr (.inr ⟨passNow_state _ c' now h, .inl ?_⟩))⟩
        simpa [waitSync_fst, (gol_clock _ now).2] using hover

theorem doAwaitDataResponse_turn (n : Nat) (D : List Nat) (c c' : Ctx) (now : Int) (a : Nat) (d : UseData)
    (hst : c.s.st = .awaitData a d) (hlen : c.apps.length = n) (hv : VTurn n d.firstApp c.s.nextApp D)
    (h : doAwaitDataResponse c now = .ok c') :
    TurnPost n D c c' now (¬ now < (holdUpdate c.s d).endTokenHoldTime) := by
  unfold doAwaitDataResponse at h
  rcases hrx : receiveTelegram c.rx with ⟨rx', calls, ret⟩ | _ | _ <;> rw [hrx, hst] at h <;> simp only at h
  · rcases ite_inv h with ⟨_, h⟩ | ⟨_, h⟩
    · cases h
    cases calls with
    | nil =>
      simp only at h
      rcases ite_inv h with ⟨_, h⟩ | ⟨_, h⟩
      · obtain ⟨c2, ht, h⟩ := bind_ok_inv h
        obtain ⟨c3, ht3, ht⟩ := bind_ok_inv ht
        obtain ⟨s', hs', hc'⟩ := tr_inv ht3
        have := toUseToken_inv hs'
        subst this; subst hc'
        simp only [upd, Res.ok.injEq] at ht
        subst ht
        have hnx : (checkSlotExpired c.s now).1.nextApp = c.s.nextApp := cs_nextApp c.s now
        obtain ⟨new, hc, hf, hcase⟩ := doUseToken_turn n D { c with rx := rx', s := { (checkSlotExpired c.s now).1 with st := .useToken d true }, calls := c.calls ++ [.timeout c.s.nextApp a] } c' now d true rfl hlen (by simpa [hnx] using hv) h
        have hover : (¬ now < (holdUpdate { (checkSlotExpired c.s now).1 with st := .useToken d true } d).endTokenHoldTime) →
            ¬ now < (holdUpdate c.s d).endTokenHoldTime := by
          intro ho
          rw [← hold_end_congr { (checkSlotExpired c.s now).1 with st := .useToken d true } c.s d
            (by simp [checkSlot_fst, (gol_clock c.s now).1]) (by simp [checkSlot_fst, gol_p]) (by simp [checkSlot_fst, gol_gap])
            (by simp [checkSlot_fst, (gol_clock c.s now).2])]
          exact ho
        refine ⟨.timeout c.s.nextApp a :: new, by simpa using hc, hf, ?_⟩
        rcases hcase with ⟨h1, h2, h3⟩ | h' | h1 | ⟨h1, h2 | h2⟩
        · subst h1
          exact .inr (.inl ⟨d, .inl (by simpa using h2), by simpa [declinesOf, hnx] using (show VTurn n d.firstApp c'.s.nextApp D by rw [h3]; simpa [hnx] using hv)⟩)
        · exact .inr (.inl (by simpa [declinesOf] using h'))
        · exact .inr (.inr (.inl h1))
        · exact .inr (.inr (.inr ⟨h1, .inl (hover h2)⟩))
        · exact .inr (.inr (.inr ⟨h1, .inr (by simpa [declinesOf] using h2)⟩))
      · cases h
        exact ⟨[], by simp, trivial, .inl ⟨rfl, by simp [checkSlot_fst, gol_st], cs_nextApp c.s now⟩⟩
    | cons x rest =>
      obtain ⟨t, fl⟩ := x
      simp only at h
      rcases ite_inv h with ⟨hv', h⟩ | ⟨_, h⟩
      · obtain ⟨c3, ht3, ht⟩ := bind_ok_inv h
        obtain ⟨s', hs', hc'⟩ := tr_inv ht3
        have := toUseToken_inv hs'
        subst this; subst hc'
        simp only [upd, Res.ok.injEq] at ht
        subst ht
        exact ⟨[.reply c.s.nextApp a t], rfl, trivial, .inr (.inl ⟨d, .inl rfl, by simpa [declinesOf, markRx_nextApp] using hv⟩)⟩
      · obtain ⟨s', hs', hc'⟩ := tr_inv h
        have := toActiveIdle_inv hs'
        subst this; subst hc'
        exact ⟨[], by simp, trivial, .inr (.inr (.inl rfl))⟩
  · rcases ite_inv h with ⟨_, h⟩ | ⟨_, h⟩ <;> cases h
  · rcases ite_inv h with ⟨_, h⟩ | ⟨_, h⟩ <;> cases h

/-! ## One whole poll -/

/-- The `UseTokenData` of the current token visit, if the station is in one. -/
def visitData (s : Station) : Option UseData :=
  match s.st with
  | .useToken d _ => some d
  | .awaitData _ d => some d
  | _ => none

theorem visitData_cases {s : Station} {d : UseData} (h : visitData s = some d) :
    (∃ fcd, s.st = .useToken d fcd) ∨ (∃ a, s.st = .awaitData a d) := by
  unfold visitData at h
  cases hst : s.st <;> rw [hst] at h <;> simp at h
  · subst h; exact .inl ⟨_, rfl⟩
  · subst h; exact .inr ⟨_, rfl⟩

theorem visitData_holding {s : Station} {d : UseData} (h : visitData s = some d) : AppHolding s := by
  rcases visitData_cases h with ⟨fcd, h⟩ | ⟨a, h⟩
  · exact .inl ⟨d, fcd, h⟩
  · exact .inr ⟨a, d, h⟩

/-- One whole poll from a state inside a token visit, with the visit's turn bookkeeping. -/
theorem poll_turn (s : Station) (apps : Apps) (now : Int) (phy : Bool) (rx : Bytes) (c' : Ctx) (d : UseData)
    (D : List Nat) (hd : visitData s = some d) (hv : VTurn apps.length d.firstApp s.nextApp D)
    (h : s.poll apps now phy rx = .ok c') :
    TurnPost apps.length D { s := s, apps := apps, rx := rx } c' now (¬ now < (holdUpdate s d).endTokenHoldTime) := by
  have hh := visitData_holding hd
  unfold Station.poll pollInner at h
  cases hon : s.online with
  | false =>
    simp only [hon] at h
    cases hst : s.st <;> simp only [hst] at h <;> cases h
    exact ⟨[], rfl, trivial, .inl ⟨rfl, rfl, rfl⟩⟩
  | true =>
    simp only [hon] at h
    obtain ⟨c1, hs, h⟩ := bind_ok_inv h
    have := pollStart_inv _ _ hs
    subst this
    simp only [holding_wake s hh] at h
    rcases ite_inv h with ⟨_, h⟩ | ⟨_, h⟩
    · cases h; exact ⟨[], rfl, trivial, .inl ⟨rfl, by simp [upd, markBA_st], by simp [upd, markBA_nextApp]⟩⟩
    · unfold dispatch at h
      simp only [upd] at h
      have hover : (¬ now < (holdUpdate (checkBusActivity s now rx.length) d).endTokenHoldTime) →
          ¬ now < (holdUpdate s d).endTokenHoldTime := by
        intro ho
        rw [← hold_end_congr (checkBusActivity s now rx.length) s d (checkBA_clock s now _).1 (checkBA_p s now _)
          (coreEq_checkBA s now _).2.2.2.1 (checkBA_clock s now _).2]
        exact ho
      rcases visitData_cases hd with ⟨fcd, hst⟩ | ⟨a, hst⟩
      · have hst' : (checkBusActivity s now rx.length).st = .useToken d fcd := by rw [checkBA_st]; exact hst
        rw [hst'] at h
        simp only at h
        exact TurnPost.lift (c0 := { s := checkBusActivity s now rx.length, apps := apps, rx := rx }) rfl
          (checkBA_st s now _) (checkBA_nextApp s now _) hover
          (doUseToken_turn apps.length D _ c' now d fcd hst' rfl (by simpa [checkBA_nextApp] using hv) h)
      · have hst' : (checkBusActivity s now rx.length).st = .awaitData a d := by rw [checkBA_st]; exact hst
        rw [hst'] at h
        simp only at h
        exact TurnPost.lift (c0 := { s := checkBusActivity s now rx.length, apps := apps, rx := rx }) rfl
          (checkBA_st s now _) (checkBA_nextApp s now _) hover
          (doAwaitDataResponse_turn apps.length D _ c' now a d hst' rfl (by simpa [checkBA_nextApp] using hv) h)

end PV

/-! ## Whole polls and runs of polls at the level of `World` (used by `Props/C15.lean`) -/

namespace PV.C15
open PV PV.C05

/-- Visit invariant: the station is inside a token visit whose `first_app` / `next_application`
bookkeeping matches the list `D` of applications that declined in this visit so far. -/
def VInv (n : Nat) (s : Station) (D : List Nat) : Prop :=
  ∃ d, visitData s = some d ∧ VTurn n d.firstApp s.nextApp D

/-- The token hold continues over a call that made the callbacks `l`: afterwards the station is in
`UseToken` with `first_cycle_done`, or in `AwaitDataResponse`, or nothing happened at all. -/
def Continues (w w' : World) (l : List AppCall) : Prop :=
  (∃ d, w'.s.st = .useToken d true) ∨ (∃ a d, w'.s.st = .awaitData a d) ∨ (w'.s.st = w.s.st ∧ l = [])

/-- Why `do_use_token` may end a token hold at time `now`, `Dl` being the applications that declined in
the visit (this poll included). -/
def EndReason (w : World) (now : Int) (Dl : List Nat) : Prop :=
  (∃ d, visitData w.s = some d ∧ ¬ now < (holdUpdate w.s d).endTokenHoldTime) ∨ w.apps.length = 0 ∨
  (∃ f, f < w.apps.length ∧ Dl = cyc w.apps.length f w.apps.length)

/-- One poll inside a visit. -/
theorem visit_step (w w' : World) (now : Int) (phy : Bool) (arr : Bytes) (l : List AppCall) (D : List Nat)
    (hi : VInv w.apps.length w.s D) (hs : w.stepLog (.poll now phy arr) = some (w', l)) :
    askFresh D l ∧ w'.apps.length = w.apps.length ∧
    (Continues w w' l → VInv w'.apps.length w'.s (D ++ declinesOf l)) ∧
    (¬ Continues w w' l → w'.s.st = .activeIdle none none 0 ∨ EndReason w now (D ++ declinesOf l)) := by
  obtain ⟨d, hd, hv⟩ := hi
  simp only [World.stepLog] at hs
  split at hs
  · rename_i c hc
    cases hs
    have hlen := (poll_frame _ _ _ _ _ _ hc).2
    obtain ⟨new, hcalls, hf, hcase⟩ := poll_turn _ _ _ _ _ _ d D hd hv hc
    simp only [List.nil_append] at hcalls
    rw [hcalls]
    refine ⟨hf, hlen, ?_, ?_⟩
    · intro hcont
      show VInv c.apps.length c.s (D ++ declinesOf new)
      rw [hlen]
      rcases hcase with ⟨h1, h2, h3⟩ | ⟨d', hs', hv'⟩ | h1 | ⟨hp, -⟩
      · subst h1
        refine ⟨d, ?_, by simpa [declinesOf, h3] using hv⟩
        simp only at h2
        unfold visitData at hd ⊢; rw [h2]; exact hd
      · refine ⟨d', ?_, hv'⟩
        rcases hs' with h | ⟨a, h⟩ <;> (unfold visitData; rw [h])
      · exfalso
        rcases hcont with ⟨d', h⟩ | ⟨a, d', h⟩ | ⟨h, -⟩
        · simp only at h; rw [h1] at h; cases h
        · simp only at h; rw [h1] at h; cases h
        · simp only at h
          rcases visitData_cases hd with ⟨fcd, h'⟩ | ⟨a, h'⟩ <;> rw [h1, h'] at h <;> cases h
      · rcases hcont with ⟨d', h⟩ | ⟨a, d', h⟩ | ⟨h, hl⟩
        · exfalso; simp only at h
          rcases hp with h' | ⟨a, h'⟩ | h' | h' <;> rw [h'] at h <;> cases h
        · exfalso; simp only at h
          rcases hp with h' | ⟨a', h'⟩ | h' | h' <;> rw [h'] at h <;> cases h
        · simp only at h
          subst hl
          rcases hp with h' | ⟨a, h'⟩ | h' | h'
          · exfalso; rcases visitData_cases hd with ⟨fcd, h''⟩ | ⟨a, h''⟩ <;> rw [h', h''] at h <;> cases h
          · exfalso; rcases visitData_cases hd with ⟨fcd, h''⟩ | ⟨a', h''⟩ <;> rw [h', h''] at h <;> cases h
          · have hd' : visitData c.s = some d := by unfold visitData at hd ⊢; rw [h]; exact hd
            have hdn : d = ⟨now, none⟩ := by
              unfold visitData at hd'; rw [h'] at hd'; simp at hd'; exact hd'.symm
            subst hdn
            have hD : D = [] := hv
            subst hD
            exact ⟨_, hd', rfl⟩
          · exfalso; rcases visitData_cases hd with ⟨fcd, h''⟩ | ⟨a', h''⟩ <;> rw [h', h''] at h <;> cases h
    · intro hnc
      rcases hcase with ⟨h1, h2, h3⟩ | ⟨d', hs', hv'⟩ | h1 | ⟨hp, hr⟩
      · exact absurd (.inr (.inr ⟨h2, h1⟩)) hnc
      · exfalso
        rcases hs' with h | ⟨a, h⟩
        · exact hnc (.inl ⟨d', h⟩)
        · exact hnc (.inr (.inl ⟨a, d', h⟩))
      · exact .inl h1
      · right
        rcases hr with h | h | h
        · exact .inl ⟨d, hd, h⟩
        · exact .inr (.inl h)
        · exact .inr (.inr h)
  · cases hs

/-- A call sequence during which the token hold continues: polls only, each of them `Continues`. -/
def HoldRun : World → List ApiCall → Prop
  | _, [] => True
  | w, a :: rest => (∃ now phy arr, a = .poll now phy arr) ∧
      ∀ w1 l, w.stepLog a = some (w1, l) → Continues w w1 l ∧ HoldRun w1 rest

/-- The visit invariant along a whole run of polls inside one token visit. -/
theorem visit_run : ∀ (calls : List ApiCall) (w w' : World) (log : List AppCall) (D : List Nat),
    VInv w.apps.length w.s D → HoldRun w calls → w.runLog calls = some (w', log) →
    askFresh D log ∧ w'.apps.length = w.apps.length ∧ VInv w'.apps.length w'.s (D ++ declinesOf log) := by
  intro calls
  induction calls with
  | nil => intro w w' log D hi _ h; cases h; exact ⟨trivial, rfl, by simpa [declinesOf] using hi⟩
  | cons a rest ih =>
    intro w w' log D hi hrun h
    obtain ⟨⟨now, phy, arr, ha⟩, hrest⟩ := hrun
    subst ha
    simp only [World.runLog] at h
    split at h
    · rename_i w1 l1 hs1
      split at h
      · rename_i w2 l2 hr2
        cases h
        obtain ⟨hcont, hrun1⟩ := hrest w1 l1 hs1
        obtain ⟨hf1, hl1, hinv1, -⟩ := visit_step w w1 now phy arr l1 D hi hs1
        obtain ⟨hf2, hl2, hinv2⟩ := ih w1 w' l2 _ (hinv1 hcont) hrun1 hr2
        refine ⟨askFresh_append _ _ _ hf1 hf2, hl2.trans hl1, ?_⟩
        simpa [declinesOf_append] using hinv2
      · cases h
    · cases h

end PV.C15
