/-
Stage lemmas for `interp_faithful`, part 2: parameter texts and definitions, parameter blocks,
modules, slots, unit diagnostics.
-/
import ProfiVerif.Lemmas.GsdFaithful

namespace PV.Gsd
open Res

/-! ### Well-formedness of the structured parts -/

def TextMap.WF (m : TextMap) : Prop :=
  (keys m).Nodup ∧ ∀ kv ∈ m, Clean kv.1 ∧ I64 kv.2

def DataType.WF : DataType → Prop
  | .bit n => n ≤ 255
  | .bitArea f l => f ≤ 255 ∧ l ≤ 255
  | _ => True

def Constraint.WF : Constraint → Prop
  | .minMax a b => I64 a ∧ I64 b
  | .enum vs => ∀ v ∈ vs, I64 v
  | .unconstrained => True

instance (m : TextMap) : Decidable m.WF := by unfold TextMap.WF keys; infer_instance
instance (t : DataType) : Decidable t.WF := by cases t <;> (simp only [DataType.WF]; infer_instance)
instance (c : Constraint) : Decidable c.WF := by cases c <;> (simp only [Constraint.WF]; infer_instance)

structure PrmDef.WF (f : PrmDef) : Prop where
  name : Clean f.name
  dataType : f.dataType.WF
  default : I64 f.defaultValue
  constraint : f.constraint.WF
  texts : ∀ m, f.textRef = some m → TextMap.WF m

structure UserPrmData.WF (p : UserPrmData) : Prop where
  length : p.length ≤ 255
  consts : ∀ c ∈ p.dataConst, c.1 ≤ u32Max ∧ ∀ b ∈ c.2, b ≤ 255
  refs : ∀ r ∈ p.dataRef, r.1 ≤ u32Max ∧ r.2.WF

structure Module.WF (m : Module) : Prop where
  name : Clean m.name
  info : ∀ t, m.infoText = some t → Clean t
  config : ∀ b ∈ m.config, b ≤ 255
  reference : ∀ r, m.reference = some r → r ≤ u32Max
  prm : m.prm.WF

/-! ### Stage 2: `PrmText` / `ExtUserPrmData` blocks -/

theorem textValues_lines (m : TextMap) (acc : TextMap) (hm : ∀ kv ∈ m, Clean kv.1 ∧ I64 kv.2)
    (hn : (keys (acc ++ m)).Nodup) :
    textValues (textLines m) acc = .ok (acc ++ m) := by
  induction m generalizing acc with
  | nil => simp [textLines, textValues]
  | cons kv rest ih =>
    obtain ⟨k, v⟩ := kv
    have hk := hm (k, v) (by simp)
    simp only [textLines, List.map_cons, textValues]
    rw [parseSignedTok_intTok hk.2]
    simp only [bind_ok]
    rw [show unquote (quote k) = k from hk.1]
    have hnew : k ∉ keys acc := by
      simp only [keys, List.map_append, List.map_cons] at hn
      have := (List.nodup_append.mp hn).2.2
      intro hmem
      exact this k hmem k (by simp) rfl
    rw [assocInsert_new k v acc hnew]
    have := ih (acc ++ [(k, v)]) (fun kv hkv => hm kv (by simp [hkv])) (by simpa using hn)
    simpa [textLines] using this

theorem parseDataType_typeNameOf (t : DataType) (h : t.WF) : parseDataType (typeNameOf t) = .ok t := by
  cases t with
  | u8 => rfl
  | u16 => rfl
  | u32 => rfl
  | i8 => rfl
  | i16 => rfl
  | i32 => rfl
  | bit n =>
    simp only [typeNameOf, parseDataType]
    rw [parseTok_decTok_ok (show n ≤ u8Max from h) (by decide)]; rfl
  | bitArea f l =>
    simp only [typeNameOf, parseDataType]
    rw [parseTok_decTok_ok (show f ≤ u8Max from h.1) (by decide),
      parseTok_decTok_ok (show l ≤ u8Max from h.2) (by decide)]; rfl

theorem parseConstraint_constraintOf (c : Constraint) (h : c.WF) : parseConstraint (constraintOf c) = .ok c := by
  cases c with
  | unconstrained => rfl
  | minMax a b =>
    simp only [constraintOf, parseConstraint]
    rw [parseSignedTok_intTok h.1, parseSignedTok_intTok h.2]; rfl
  | enum vs =>
    simp only [constraintOf, parseConstraint]
    rw [parseSignedToks_intToks vs h]; rfl

/-- What the definitions prelude establishes and leaves alone. -/
structure DefsDone (st st' : St) (id : Nat) (defs : List PrmDef) : Prop where
  gsd : st'.gsd = st.gsd
  legacy : st'.legacy = st.legacy
  maxSeen : st'.maxModulesSeen = st.maxModulesSeen
  modSeen : st'.modularSeen = st.modularSeen
  warnings : st'.warnings = st.warnings
  found : ∀ i, (h : i < defs.length) → assocGet (id + i) st'.defs = some defs[i]
  kept : ∀ j, j < id → assocGet j st'.defs = assocGet j st.defs

theorem run_defStmts (st : St) (id : Nat) (f : PrmDef) (hf : f.WF) (hid : id ≤ 65535) :
    ∃ st', run st (defStmts id f) = .ok st' ∧ st'.gsd = st.gsd ∧ st'.legacy = st.legacy ∧
      st'.maxModulesSeen = st.maxModulesSeen ∧ st'.modularSeen = st.modularSeen ∧
      st'.warnings = st.warnings ∧ st'.defs = assocInsert id f st.defs := by
  have hid32 : id ≤ u32Max := by unfold u32Max; omega
  have hid16 : id ≤ u16Max := hid
  obtain ⟨name, dataType, defaultValue, constraint, textRef, changeable, visible⟩ := f
  cases textRef with
  | none =>
    refine ⟨{ st with defs := assocInsert id _ st.defs }, ?_, rfl, rfl, rfl, rfl, rfl, rfl⟩
    simp only [defStmts, List.nil_append, run, doStmt, doExtPrm, Option.map_none]
    rw [parseTok_decTok_ok hid32 (Nat.le_refl _)]
    simp only [bind_ok]
    rw [show unquote (quote name) = name from hf.name, parseDataType_typeNameOf _ hf.dataType]
    simp only [bind_ok]
    rw [parseSignedTok_intTok hf.default]
    simp only [bind_ok]
    rw [parseConstraint_constraintOf _ hf.constraint]
    simp [parseTextRef, parseOptBool, parseBoolTok_boolTok]
  | some m =>
    have hm := hf.texts m rfl
    refine ⟨{ st with prmTexts := assocInsert id m st.prmTexts, defs := assocInsert id _ st.defs }, ?_, rfl, rfl, rfl, rfl, rfl, rfl⟩
    simp only [defStmts, List.cons_append, List.nil_append, run, doStmt, doPrmText]
    rw [parseTok_decTok_ok hid16 (by decide)]
    simp only [bind_ok]
    rw [textValues_lines m [] hm.2 (by simpa using hm.1)]
    simp only [List.nil_append, bind_ok, pure_eq, doExtPrm, Option.map_some]
    rw [parseTok_decTok_ok hid32 (Nat.le_refl _)]
    simp only [bind_ok]
    rw [show unquote (quote name) = name from hf.name, parseDataType_typeNameOf _ hf.dataType]
    simp only [bind_ok]
    rw [parseSignedTok_intTok hf.default]
    simp only [bind_ok]
    rw [parseConstraint_constraintOf _ hf.constraint]
    simp only [bind_ok, parseTextRef]
    rw [parseTok_decTok_ok hid16 (by decide)]
    simp [assocGet_insert_self, parseOptBool, parseBoolTok_boolTok]

theorem run_defsFrom (st : St) (id : Nat) (defs : List PrmDef) (hf : ∀ f ∈ defs, f.WF)
    (hid : id + defs.length ≤ 65536) :
    ∃ st', run st (defsFrom id defs) = .ok st' ∧ DefsDone st st' id defs := by
  induction defs generalizing st id with
  | nil =>
    exact ⟨st, rfl, ⟨rfl, rfl, rfl, rfl, rfl, fun i h => absurd h (by simp), fun _ _ => rfl⟩⟩
  | cons f rest ih =>
    simp only [List.length_cons] at hid
    obtain ⟨st1, h1, hg1, hl1, hm1, hs1, hw1, hd1⟩ := run_defStmts st id f (hf f (by simp)) (by omega)
    obtain ⟨st2, h2, d2⟩ := ih st1 (id + 1) (fun g hg => hf g (by simp [hg])) (by omega)
    refine ⟨st2, ?_, ?_⟩
    · simp only [defsFrom]
      rw [run_append_ok h1, h2]
    · refine ⟨by rw [d2.gsd, hg1], by rw [d2.legacy, hl1], by rw [d2.maxSeen, hm1], by rw [d2.modSeen, hs1],
        by rw [d2.warnings, hw1], ?_, ?_⟩
      · intro i hi
        cases i with
        | zero =>
          rw [Nat.add_zero, d2.kept id (by omega), hd1, assocGet_insert_self]; rfl
        | succ i =>
          have := d2.found i (by simpa using hi)
          rw [show id + (i + 1) = id + 1 + i by omega, this]; rfl
      · intro j hj
        rw [d2.kept j (by omega), hd1, assocGet_insert_ne _ _ _ _ (by omega)]

/-! ### Parameter block lines (shared by the station-wide block and the modules) -/

theorem parseTok_decTok_ok' {max n : Nat} (h32 : n ≤ u32Max) (h : n ≤ max) : parseTok max (decTok n) = .ok n := by
  rw [parseTok_decTok]
  have : n < 4294967296 := by unfold u32Max at h32; omega
  simp [this, h]

theorem le_usizeMax {n : Nat} (h : n ≤ u32Max) : n ≤ usizeMax := by
  unfold u32Max at h; unfold usizeMax; omega

theorem prmDataConst_ok (key : Str) (c : Nat × List Nat) (prm : UserPrmData) (ho : c.1 ≤ u32Max) (hb : ∀ b ∈ c.2, b ≤ 255) :
    prmDataConst { key := key, index := some (decTok c.1), value := .list (c.2.map decTok) } prm =
      .ok { prm with dataConst := prm.dataConst ++ [c] } := by
  simp only [prmDataConst, Setting.first, Setting.second, parseNumber, parseNumberList]
  rw [parseTok_decTok_ok' ho (le_usizeMax ho)]
  simp only [bind_ok]
  rw [parseToks_decToks u8Max (by decide) c.2 hb]
  rfl

theorem prmDataRef_ok (key : Str) (st : St) (r : Nat × PrmDef) (id : Nat) (prm : UserPrmData) (ho : r.1 ≤ u32Max)
    (hid : id ≤ u32Max) (hget : assocGet id st.defs = some r.2) :
    prmDataRef st { key := key, index := some (decTok r.1), value := .num (decTok id) } prm =
      .ok { prm with dataRef := prm.dataRef ++ [r] } := by
  simp only [prmDataRef, Setting.first, Setting.second, parseNumber]
  rw [parseTok_decTok_ok' ho (le_usizeMax ho)]
  simp only [bind_ok]
  rw [parseTok_decTok_ok' (max := u32Max) hid hid]
  simp only [bind_ok, hget]
  rfl

end PV.Gsd
