/-
Simulation between the joint model `PJ` of `Model/Dp/Live.lean` (real master model + reference slave,
all payload bytes) and the finite control machine of `Lemmas/DpLiveCtl.lean`:

* `ctl : PJ → Ctl` forgets process images, parameter / configuration / diagnostics bytes, addresses;
* `Good j`: the master-side invariant `PInv` of `Lemmas/Dp.lean`, matching configuration, and the
  well-formedness of what the slave has stored;
* `step_sim`: for every environment step (any delivery fault, any substituted reply telegram, any
  payload), `ctl (j.step e) = cstep (ctl j) (absEnv j e)`, the event is the abstract one, no panic,
  `Good` is preserved.
-/
import ProfiVerif.Lemmas.Dp
import ProfiVerif.Lemmas.DpLiveCert

namespace PV.Live
open PV PV.Dp

/-! ## Abstraction functions -/

/-- Kind of a slave reply (for a slave with `inLen` input bytes). -/
def kindOf (inLen : Nat) : SReply → RK
  | .silent => .silent
  | .sc => .sc
  | .data h pdu =>
    match h.fc with
    | .request _ _ => .other
    | .response _ st =>
      if h.dsap = some 62 ∧ h.ssap = some 60 then
        if st = .dataLow ∧ 6 ≤ pdu.length ∧ flagsOf (.data h pdu) &&& PARAMETER_FAULT = 0 ∧
            flagsOf (.data h pdu) &&& CONFIGURATION_FAULT = 0 then
          .diag (flagsOf (.data h pdu) &&& PARAMETER_REQUIRED != 0)
                (flagsOf (.data h pdu) &&& STATION_NOT_READY != 0)
        else .other
      else if h.dsap = none ∧ h.ssap = none then
        match st with
        | .sapNotEnabled => .rs
        | .dataLow => if pdu.length = inLen then .dxLow else .other
        | .dataHigh => if pdu.length = inLen then .dxHigh else .other
        | _ => .other
      else .other

def sclsOf : ResponseStatus → SCls
  | .sapNotEnabled => .rs
  | .ok => .okLow
  | .dataLow => .okLow
  | .dataHigh => .high
  | _ => .other

/-- The master's evaluation order of the diagnostics flags. -/
def dflagsOf (fl : UInt16) : DFlags :=
  if fl &&& PARAMETER_FAULT ≠ 0 then .prmFault
  else if fl &&& CONFIGURATION_FAULT ≠ 0 then .cfgFault
  else if fl &&& PARAMETER_REQUIRED ≠ 0 then .prmReq
  else if fl &&& STATION_NOT_READY = 0 then .ready
  else .notReady

/-- A reply telegram as `receive_reply` of a peripheral with `ilen` input bytes sees it. -/
def viewOf (ilen : Nat) : Telegram → View
  | .sc => .sc
  | .token _ _ => .sc
  | .data h pdu =>
    match h.fc with
    | .request _ _ => .sc
    | .response _ st =>
      if Diag.Spec.accepts (.data h pdu) then .diag (dflagsOf (flagsOf (.data h pdu))) (sclsOf st)
      else .data (sclsOf st) (dataOkStatus st && h.dsap == none && h.ssap == none && pdu.length == ilen)

def absD (ilen : Nat) : Delivery → AD
  | .ok => .ok
  | .lossReq => .lossReq
  | .lossRep => .lossRep
  | .sub t => .sub (viewOf ilen t)

def absEnv (ilen : Nat) : PEnv → AEnv
  | .visit mid d => .visit mid (absD ilen d)
  | .power => .power
  | .fault _ => .fault
  | .diagReq => .diagReq
  | .piq _ => .noop
  | .inputs _ => .noop

/-- The slave's retransmission memory relative to the master's frame count bit. -/
def memOf (s : Slave) (f : FrameCountBit) : Option RK :=
  if isRetransmission s.stored f then some (kindOf s.cfg.inLen s.last) else none

def coreOf (p : Peripheral) (s : Slave) : Core :=
  { st := p.state, fcb := p.fcb, dn := p.diagNeeded, fl := p.diagInFlight, ss := s.state,
    mem := memOf s p.fcb, dp := s.diagPending }

def ctl (j : PJ) : Ctl := { core := coreOf j.p j.s, retry := j.p.retry }

/-- Environment steps the FDL contract allows: a substituted reply is a short confirmation or a
response telegram. -/
def PEnv.WellFormed : PEnv → Prop
  | .visit _ (.sub t) => RxOk t
  | _ => True

/-! ## The concrete invariant -/

/-- Static agreement of master-side options and the slave (the "matching configuration" of C07). -/
structure Matched (p : Peripheral) (c : SlaveCfg) : Prop where
  addr : p.address = c.address
  prm : ∃ up, p.opts.userPrm = some up ∧ up.length = c.prmLen
  ident : p.opts.ident = c.ident
  identLt : c.ident < 65536
  cfg : p.opts.config = some c.config
  qlen : p.piQ.length = c.outLen
  ilen : p.piI.length = c.inLen

structure SOk (s : Slave) : Prop where
  inputs : s.inputs.length = s.cfg.inLen
  prmFault : s.prmFault = false
  cfgFault : s.cfgFault = false
  last : kindOf s.cfg.inLen s.last ≠ .other

structure Good (j : PJ) : Prop where
  fp : FpOk j.fp
  op : j.op ≠ .stop
  pinv : PInv j.fp j.p
  m : Matched j.p j.s.cfg
  s : SOk j.s

/-! ## The slave on control -/

/-- The flags of the slave's diagnostics reply, as the master decodes them (table over the
parameterised flag bits, which are payload). -/
theorem diag_flags_table (x : UInt8) (dp : Bool) (st : SState) :
    let b0 : UInt8 := bit (st != .dataExch) 0x02 ||| bit false 0x04 ||| bit dp 0x08 ||| bit false 0x40
    let b1 : UInt8 := bit (st == .waitPrm) 0x01 ||| 0x04 ||| (if st == .waitPrm then 0 else x &&& 0x38)
    let f := Diag.le16 b0 b1 &&& ~~~Diag.PERMANENT_BIT
    f &&& PARAMETER_FAULT = 0 ∧ f &&& CONFIGURATION_FAULT = 0 ∧
    (f &&& PARAMETER_REQUIRED != 0) = (st == .waitPrm) ∧
    (f &&& STATION_NOT_READY != 0) = (st != .dataExch) := by
  have := forall_u8 (fun x => (allBool.all fun dp => allSState.all fun st =>
    let b0 : UInt8 := bit (st != .dataExch) 0x02 ||| bit false 0x04 ||| bit dp 0x08 ||| bit false 0x40
    let b1 : UInt8 := bit (st == .waitPrm) 0x01 ||| 0x04 ||| (if st == .waitPrm then 0 else x &&& 0x38)
    let f := Diag.le16 b0 b1 &&& ~~~Diag.PERMANENT_BIT
    decide (f &&& PARAMETER_FAULT = 0 ∧ f &&& CONFIGURATION_FAULT = 0 ∧
    (f &&& PARAMETER_REQUIRED != 0) = (st == .waitPrm) ∧
    (f &&& STATION_NOT_READY != 0) = (st != .dataExch)))) (by decide +kernel) x
  have h2 := List.all_eq_true.mp this dp (mem_allBool dp)
  have h3 := List.all_eq_true.mp h2 st (mem_allSState st)
  simpa using h3

theorem flagsOf_data (h : Header) (pdu : Bytes) :
    flagsOf (.data h pdu) = Diag.le16 (pdu.getD 0 0) (pdu.getD 1 0) &&& ~~~Diag.PERMANENT_BIT := rfl

/-- A request as the reference slave classifies it, addressed to it, with contents that match its
configuration. -/
def IsReq (k : ReqK) (c : SlaveCfg) (f : FrameCountBit) (h : Header) (pdu : Bytes) : Prop :=
  h.da = c.address ∧
  match k with
  | .diag => h.dsap = some 60 ∧ h.ssap = some 62 ∧ h.fc = .request f .srdLow
  | .setPrm => h.dsap = some 61 ∧ h.ssap = some 62 ∧ h.fc = .request f .srdLow ∧
      pdu.length = 7 + c.prmLen ∧ (pdu.getD 4 0).toNat * 256 + (pdu.getD 5 0).toNat = c.ident
  | .chkCfg => h.dsap = some 62 ∧ h.ssap = some 62 ∧ h.fc = .request f .srdLow ∧ pdu = c.config
  | .dx => h.dsap = none ∧ h.ssap = none ∧ h.fc = .request f .srdHigh ∧ pdu.length = c.outLen

theorem kindOf_diagReply (s : Slave) (hs : SOk s) (req : Header) :
    kindOf s.cfg.inLen (.data (replyHeader s req (some 62) (some 60) .dataLow) s.diagPdu) =
      .diag (s.state == .waitPrm) (s.state != .dataExch) := by
  have ht := diag_flags_table s.prmFlags s.diagPending s.state
  have hlen : 6 ≤ s.diagPdu.length := by simp [Slave.diagPdu]
  have hf : ∀ hdr, flagsOf (.data hdr s.diagPdu) =
      Diag.le16 (bit (s.state != .dataExch) 0x02 ||| bit false 0x04 ||| bit s.diagPending 0x08 ||| bit false 0x40)
        (bit (s.state == .waitPrm) 0x01 ||| 0x04 ||| (if s.state == .waitPrm then 0 else s.prmFlags &&& 0x38))
        &&& ~~~Diag.PERMANENT_BIT := by
    intro hdr
    rw [flagsOf_data]
    simp [Slave.diagPdu, hs.prmFault, hs.cfgFault]
  simp only at ht
  obtain ⟨h1, h2, h3, h4⟩ := ht
  unfold kindOf
  simp only [replyHeader, true_and, and_self, if_true]
  simp only [hf]
  rw [if_pos ⟨hlen, h1, h2⟩, h3, h4]

/-- Serving a new request, on control. -/
theorem serve_ctl {s : Slave} (hs : SOk s) {k : ReqK} {f : FrameCountBit} {h : Header} {pdu : Bytes}
    (hr : IsReq k s.cfg f h pdu) :
    ((s.serve h pdu).1.state, (s.serve h pdu).1.diagPending, kindOf s.cfg.inLen (s.serve h pdu).2) =
        sserve (s.cfg.inLen == 0) s.state s.diagPending k ∧
    (s.serve h pdu).1.cfg = s.cfg ∧ (s.serve h pdu).1.inputs = s.inputs ∧
    (s.serve h pdu).1.prmFault = false ∧ (s.serve h pdu).1.cfgFault = false ∧
    (s.serve h pdu).1.stored = s.stored := by
  obtain ⟨hda, hk⟩ := hr
  cases k with
  | diag =>
    obtain ⟨h1, h2, _⟩ := hk
    unfold Slave.serve
    simp only [h1, h2, and_self, if_true, sserve]
    refine ⟨?_, by simp, by simp, by simp [hs.prmFault], by simp [hs.cfgFault], by simp⟩
    rw [kindOf_diagReply s hs h]
  | setPrm =>
    obtain ⟨h1, h2, _, h4, h5⟩ := hk
    unfold Slave.serve
    simp only [h1, h2, h4, h5, and_self, if_true, sserve, Option.some.injEq]
    simp only [show ¬ ((61 : UInt8) = 60) by decide, false_and, if_false]
    refine ⟨?_, by simp, by simp, by simp, by simp [hs.cfgFault], by simp⟩
    simp [kindOf]
  | chkCfg =>
    obtain ⟨h1, h2, _, h4⟩ := hk
    unfold Slave.serve
    simp only [h1, h2, h4, and_self, if_true, sserve, Option.some.injEq]
    simp only [show ¬ ((62 : UInt8) = 60) by decide, show ¬ ((62 : UInt8) = 61) by decide, false_and, if_false]
    by_cases hw : s.state = .waitPrm
    · simp only [hw, if_true]
      refine ⟨?_, by simp, by simp, by simp [hs.prmFault], by simp [hs.cfgFault], by simp⟩
      simp [Slave.rs, kindOf, replyHeader]
    · simp only [hw, if_false]
      refine ⟨?_, by simp, by simp, by simp [hs.prmFault], by simp, by simp⟩
      simp [kindOf]
  | dx =>
    obtain ⟨h1, h2, _, h4⟩ := hk
    unfold Slave.serve
    simp only [h1, h2, h4, and_self, if_true, sserve]
    simp only [show ¬ ((none : Option UInt8) = some 60) by decide, show ¬ ((none : Option UInt8) = some 61) by decide,
      show ¬ ((none : Option UInt8) = some 62) by decide, false_and, if_false]
    by_cases hd : s.state = .dataExch
    · simp only [hd, if_true]
      by_cases hp : s.diagPending = true
      · simp only [hp, if_true]
        refine ⟨?_, by simp, by simp, by simp [hs.prmFault], by simp [hs.cfgFault], by simp⟩
        simp [kindOf, replyHeader, hs.inputs]
      · have hp' : s.diagPending = false := by simpa using hp
        simp only [hp', Bool.false_eq_true, if_false]
        by_cases hz : s.cfg.inLen = 0
        · simp only [hz, if_true]
          refine ⟨?_, by simp, by simp, by simp [hs.prmFault], by simp [hs.cfgFault], by simp⟩
          simp [kindOf]
        · simp only [hz, if_false]
          refine ⟨?_, by simp, by simp, by simp [hs.prmFault], by simp [hs.cfgFault], by simp⟩
          simp [kindOf, replyHeader, hs.inputs, hz]
    · simp only [hd, if_false]
      refine ⟨?_, by simp, by simp, by simp [hs.prmFault], by simp [hs.cfgFault], by simp⟩
      simp [Slave.rs, kindOf, replyHeader]

theorem isRetransmission_after (f : FrameCountBit) : isRetransmission (storedAfter f) f = f.fcv := by
  cases f <;> rfl

theorem isRetransmission_cyc {st : Option Bool} {f : FrameCountBit}
    (h : isRetransmission st f = true ∨ st = storedAfter f) : isRetransmission st (cycA f) = false := by
  rcases h with h | rfl
  · cases f <;> cases st with
      | none => simp [isRetransmission] at h
      | some b => cases b <;> simp_all [isRetransmission, cycA, FrameCountBit.fcv, FrameCountBit.fcb]
  · cases f <;> rfl

theorem cyc_eq_cycA : cyc = cycA := by funext f; cases f <;> rfl

/-- The reference slave receiving a request of the master (frame count bit handling included), on
control: `sreact`. -/
theorem receive_ctl {s : Slave} (hs : SOk s) {k : ReqK} {f : FrameCountBit} {h : Header} {pdu : Bytes}
    (hr : IsReq k s.cfg f h pdu) :
    ((s.receive h pdu).1.state, (s.receive h pdu).1.diagPending, kindOf s.cfg.inLen (s.receive h pdu).2,
        memOf (s.receive h pdu).1 f) =
      sreact (s.cfg.inLen == 0) s.state s.diagPending (memOf s f) f.fcv k ∧
    SOk (s.receive h pdu).1 ∧ (s.receive h pdu).1.cfg = s.cfg ∧
    (isRetransmission (s.receive h pdu).1.stored f = true ∨ (s.receive h pdu).1.stored = storedAfter f) ∧
    kindOf s.cfg.inLen (s.receive h pdu).2 ≠ .other := by
  have hfc : h.fc = .request f .srdLow ∨ h.fc = .request f .srdHigh := by
    obtain ⟨_, hk⟩ := hr
    cases k
    · exact Or.inl hk.2.2
    · exact Or.inl hk.2.2.1
    · exact Or.inl hk.2.2.1
    · exact Or.inr hk.2.2.1
  have hda : ¬ (h.da ≠ s.cfg.address) := by simp [hr.1]
  by_cases hre : isRetransmission s.stored f = true
  · have hrecv : s.receive h pdu = (s, s.last) := by
      unfold Slave.receive
      rw [if_neg hda]
      rcases hfc with hfc | hfc <;> simp [hfc, hre]
    rw [hrecv]
    refine ⟨?_, hs, rfl, Or.inl hre, hs.last⟩
    simp only [memOf, hre, if_true, sreact]
  · have hre' : isRetransmission s.stored f = false := by simpa using hre
    have hrecv : s.receive h pdu =
        ({ (s.serve h pdu).1 with stored := storedAfter f, last := (s.serve h pdu).2 }, (s.serve h pdu).2) := by
      unfold Slave.receive
      rw [if_neg hda]
      rcases hfc with hfc | hfc <;> simp [hfc, hre']
    obtain ⟨h1, h2, h3, h4, h5, _⟩ := serve_ctl hs hr
    have hk : kindOf s.cfg.inLen (s.serve h pdu).2 ≠ .other := by
      have : kindOf s.cfg.inLen (s.serve h pdu).2 = (sserve (s.cfg.inLen == 0) s.state s.diagPending k).2.2 := by
        rw [← h1]
      rw [this]
      cases k <;> simp only [sserve] <;> (repeat' split) <;> simp
    rw [hrecv]
    refine ⟨?_, ⟨by simp [h2, h3, hs.inputs], h4, h5, by simp only [h2]; exact hk⟩, h2, Or.inr rfl, hk⟩
    simp only [memOf, hre', Bool.false_eq_true, if_false, sreact, isRetransmission_after, h2]
    rw [← h1]

/-! ## The master on control -/

theorem setPrm_ident {fp : FdlParams} {o : Options} {up : Bytes} (h : o.ident < 65536) :
    ((setPrmPdu fp o up).getD 4 0).toNat * 256 + ((setPrmPdu fp o up).getD 5 0).toNat = o.ident := by
  have h1 : ((setPrmPdu fp o up).getD 4 0) = UInt8.ofNat (o.ident / 256) := by simp [setPrmPdu]
  have h2 : ((setPrmPdu fp o up).getD 5 0) = UInt8.ofNat (o.ident % 256) := by simp [setPrmPdu]
  rw [h1, h2, ofNat_toNat_le _ (by omega), ofNat_toNat_le _ (by omega)]
  omega

theorem setPrm_length {fp : FdlParams} {o : Options} {up : Bytes} :
    (setPrmPdu fp o up).length = 7 + up.length := by
  simp [setPrmPdu]; omega

theorem dxPdu_length (op : OpState) (q : Bytes) : (dxPdu op q).length = q.length := by
  unfold dxPdu; split <;> simp

/-- The peripheral after a transmission: retry counter incremented, `diag_in_flight` decided. -/
def sentP (p : Peripheral) (fl : Bool) : Peripheral := { p with retry := p.retry + 1, diagInFlight := fl }

/-- `transmit_telegram` on control: what the peripheral does is a function of its state, the retry
class and the two diagnostics flags; the request it sends is one the slave understands. -/
theorem tx_ctl {fp : FdlParams} (hfp : FpOk fp) {op : OpState} (hop : op ≠ .stop) {p : Peripheral}
    (hI : PInv fp p) {c : SlaveCfg} (hm : Matched p c) :
    (fp.maxRetry < p.retry ∧
      p.transmit fp op = .decline { p with state := .offline, fcb := .first, retry := 0 } (some .offline)) ∨
    (p.retry ≤ fp.maxRetry ∧ reqOf p.state p.diagNeeded p.diagInFlight (rcls fp.maxRetry p.retry) = none ∧
      p.transmit fp op = .decline { p with retry := 0 } none) ∨
    (p.retry ≤ fp.maxRetry ∧ ∃ k h pdu,
      reqOf p.state p.diagNeeded p.diagInFlight (rcls fp.maxRetry p.retry) = some k ∧
      p.transmit fp op = .send (sentP p (flAfter p.state p.diagNeeded p.diagInFlight (rcls fp.maxRetry p.retry))) h pdu ∧
      IsReq k c p.fcb h pdu) := by
  have hspec := tx_spec hfp hop hI
  obtain ⟨up, hup, hupl⟩ := hm.prm
  have hz : ∀ (h : p.retry ≤ fp.maxRetry), (rcls fp.maxRetry p.retry = .zero ↔ p.retry = 0) ∧
      rcls fp.maxRetry p.retry ≠ .over := by
    intro h
    rcases rcls_cases fp.maxRetry p.retry with ⟨h0, hc⟩ | ⟨h1, _, hc⟩ | ⟨h1, _⟩
    · exact ⟨⟨fun _ => h0, fun _ => hc⟩, by rw [hc]; decide⟩
    · exact ⟨⟨fun h => (by rw [hc] at h; cases h), fun h => (by omega)⟩, by rw [hc]; decide⟩
    · omega
  generalize hres : p.transmit fp op = res at hspec
  cases hspec with
  | goOffline hr => exact Or.inl ⟨hr, rfl⟩
  | probe hr hs h0 =>
    refine Or.inr (Or.inr ⟨hr, .diag, p.diagHeader fp, [], ?_, ?_, ?_⟩)
    · simp [reqOf, hs, (hz hr).1.mpr h0]
    · simp [sentP, flAfter, isDX, hs, h0]
    · exact ⟨hm.addr, rfl, rfl, rfl⟩
  | probeWait hr hs h0 =>
    refine Or.inr (Or.inl ⟨hr, ?_, rfl⟩)
    have : rcls fp.maxRetry p.retry ≠ .zero := fun h => h0 ((hz hr).1.mp h)
    simp [reqOf, hs, this]
  | setPrm up' hr hs hu =>
    have : up' = up := by rw [hup] at hu; exact (Option.some.inj hu).symm
    subst this
    refine Or.inr (Or.inr ⟨hr, .setPrm, p.setPrmHeader fp, setPrmPdu fp p.opts up', ?_, ?_, ?_⟩)
    · simp [reqOf, hs]
    · simp [sentP, flAfter, isDX, hs]
    · exact ⟨hm.addr, rfl, rfl, rfl, by rw [setPrm_length, hupl],
        by rw [setPrm_ident (by rw [hm.ident]; exact hm.identLt), hm.ident]⟩
  | noPrm hr hs hu => rw [hup] at hu; cases hu
  | chkCfg cfg hr hs hu =>
    have : cfg = c.config := by rw [hm.cfg] at hu; exact (Option.some.inj hu).symm
    subst this
    refine Or.inr (Or.inr ⟨hr, .chkCfg, p.chkCfgHeader fp, c.config, ?_, ?_, ?_⟩)
    · simp [reqOf, hs]
    · simp [sentP, flAfter, isDX, hs]
    · exact ⟨hm.addr, rfl, rfl, rfl, rfl⟩
  | noCfg hr hs hu => rw [hm.cfg] at hu; cases hu
  | validate hr hs =>
    refine Or.inr (Or.inr ⟨hr, .diag, p.diagHeader fp, [], ?_, ?_, ?_⟩)
    · simp [reqOf, hs]
    · simp [sentP, flAfter, isDX, hs]
    · exact ⟨hm.addr, rfl, rfl, rfl⟩
  | dxDiag hr hs hd =>
    have hfl : flAfter p.state p.diagNeeded p.diagInFlight (rcls fp.maxRetry p.retry) = p.serviceIsDiag := by
      unfold flAfter Peripheral.serviceIsDiag
      have hdx : isDX p.state = true := by rcases hs with hs | hs <;> simp [isDX, hs]
      rw [hdx]
      by_cases h0 : p.retry = 0
      · rw [if_pos ((hz hr).1.mpr h0), if_pos h0]; simp
      · have : rcls fp.maxRetry p.retry ≠ .zero := fun h => h0 ((hz hr).1.mp h)
        rw [if_neg this, if_neg h0]; simp
    refine Or.inr (Or.inr ⟨hr, .diag, p.diagHeader fp, [], ?_, ?_, ?_⟩)
    · have hq : reqOf p.state p.diagNeeded p.diagInFlight (rcls fp.maxRetry p.retry) =
          some (if flAfter p.state p.diagNeeded p.diagInFlight (rcls fp.maxRetry p.retry) then .diag else .dx) := by
        rcases hs with hs | hs <;> rw [hs] <;> rfl
      rw [hq, hfl, hd]; rfl
    · rw [hfl]; rfl
    · exact ⟨hm.addr, rfl, rfl, rfl⟩
  | dx hr hs hd =>
    have hfl : flAfter p.state p.diagNeeded p.diagInFlight (rcls fp.maxRetry p.retry) = p.serviceIsDiag := by
      unfold flAfter Peripheral.serviceIsDiag
      have hdx : isDX p.state = true := by rcases hs with hs | hs <;> simp [isDX, hs]
      rw [hdx]
      by_cases h0 : p.retry = 0
      · rw [if_pos ((hz hr).1.mpr h0), if_pos h0]; simp
      · have : rcls fp.maxRetry p.retry ≠ .zero := fun h => h0 ((hz hr).1.mp h)
        rw [if_neg this, if_neg h0]; simp
    refine Or.inr (Or.inr ⟨hr, .dx, p.dxHeader fp, dxPdu op p.piQ, ?_, ?_, ?_⟩)
    · have hq : reqOf p.state p.diagNeeded p.diagInFlight (rcls fp.maxRetry p.retry) =
          some (if flAfter p.state p.diagNeeded p.diagInFlight (rcls fp.maxRetry p.retry) then .diag else .dx) := by
        rcases hs with hs | hs <;> rw [hs] <;> rfl
      rw [hq, hfl, hd]; rfl
    · rw [hfl]; rfl
    · exact ⟨hm.addr, rfl, rfl, rfl, by rw [dxPdu_length, hm.qlen]⟩

theorem viewOf_acc {n : Nat} {t : Telegram} (ht : RxOk t) (ha : Diag.Spec.accepts t = true) :
    ∃ c, viewOf n t = .diag (dflagsOf (flagsOf t)) c := by
  cases t with
  | sc => simp [Diag.Spec.accepts] at ha
  | token a b => simp [Diag.Spec.accepts] at ha
  | data h pdu =>
    obtain ⟨st, ss, hfc⟩ := ht
    exact ⟨sclsOf ss, by simp [viewOf, hfc, ha]⟩

theorem viewOf_rej {n : Nat} {t : Telegram} (ht : RxOk t) (ha : Diag.Spec.accepts t = false) :
    viewOf n t = .sc ∨ ∃ c b, viewOf n t = .data c b := by
  cases t with
  | sc => exact Or.inl rfl
  | token a b => exact Or.inl rfl
  | data h pdu =>
    obtain ⟨st, ss, hfc⟩ := ht
    exact Or.inr ⟨sclsOf ss, (dataOkStatus ss && h.dsap == none && h.ssap == none && pdu.length == n), by simp [viewOf, hfc, ha]⟩

theorem viewOf_not_sc {n : Nat} {t : Telegram} (ht : RxOk t) (hne : t ≠ .sc) : viewOf n t ≠ .sc := by
  cases t with
  | sc => exact absurd rfl hne
  | token a b => exact absurd ht (by simp [RxOk])
  | data h pdu =>
    obtain ⟨st, ss, hfc⟩ := ht
    simp only [viewOf, hfc]
    split <;> simp

/-- `receive_reply` on control: the peripheral's reaction depends on the reply only through its
view, and on the peripheral only through state and the two diagnostics flags. -/
theorem rx_ctl {fp : FdlParams} {p : Peripheral} (hI : PInv fp p) {t : Telegram} (ht : RxOk t) :
    ∃ p' ev, p.receiveReply t = .ok p' ev ∧ PInv fp p' ∧
      p'.state = (mrx (p.piI.length == 0) p.state p.diagNeeded p.diagInFlight (viewOf p.piI.length t)).st ∧
      p'.diagNeeded = (mrx (p.piI.length == 0) p.state p.diagNeeded p.diagInFlight (viewOf p.piI.length t)).dn ∧
      p'.fcb = (if (mrx (p.piI.length == 0) p.state p.diagNeeded p.diagInFlight (viewOf p.piI.length t)).cycled
                then cycA p.fcb else p.fcb) ∧
      p'.retry = (if (mrx (p.piI.length == 0) p.state p.diagNeeded p.diagInFlight (viewOf p.piI.length t)).reset
                  then 0 else p.retry) ∧
      ev = (mrx (p.piI.length == 0) p.state p.diagNeeded p.diagInFlight (viewOf p.piI.length t)).ev ∧
      p'.diagInFlight = p.diagInFlight ∧ p'.address = p.address ∧ p'.opts = p.opts ∧ p'.piQ = p.piQ ∧
      p'.piI.length = p.piI.length := by
  obtain ⟨p', ev, he, hspec⟩ := rx_spec hI ht
  refine ⟨p', ev, he, rx_pinv hspec hI, ?_⟩
  rw [← cyc_eq_cycA]
  cases hspec with
  | offAcc _ hs ha =>
    obtain ⟨c, hv⟩ := viewOf_acc (n := p.piI.length) ht ha
    simp [hv, hs, mrx]
  | offRej _ hs ha =>
    rcases viewOf_rej (n := p.piI.length) ht ha with hv | ⟨c, b, hv⟩ <;> simp [hv, hs, mrx]
  | prmSc hs => simp [viewOf, hs, mrx]
  | prmRej _ hs hne =>
    have := viewOf_not_sc (n := p.piI.length) ht hne
    simp only [hs, mrx]
    split <;> simp_all
  | cfgSc hs => simp [viewOf, hs, mrx]
  | cfgRej _ hs hne =>
    have := viewOf_not_sc (n := p.piI.length) ht hne
    simp only [hs, mrx]
    split <;> simp_all
  | valRej _ hs ha =>
    rcases viewOf_rej (n := p.piI.length) ht ha with hv | ⟨c, b, hv⟩ <;> simp [hv, hs, mrx]
  | valPrmFault _ hs ha h1 =>
    obtain ⟨c, hv⟩ := viewOf_acc (n := p.piI.length) ht ha
    simp [hv, hs, mrx, dflagsOf, h1]
  | valCfgFault _ hs ha h1 h2 =>
    obtain ⟨c, hv⟩ := viewOf_acc (n := p.piI.length) ht ha
    simp [hv, hs, mrx, dflagsOf, h1, h2]
  | valPrmReq _ hs ha h1 h2 h3 =>
    obtain ⟨c, hv⟩ := viewOf_acc (n := p.piI.length) ht ha
    simp [hv, hs, mrx, dflagsOf, h1, h2, h3]
  | valReady _ hs ha h1 h2 h3 h4 =>
    obtain ⟨c, hv⟩ := viewOf_acc (n := p.piI.length) ht ha
    simp [hv, hs, mrx, dflagsOf, h1, h2, h3, h4]
  | valNotReady _ hs ha h1 h2 h3 h4 =>
    obtain ⟨c, hv⟩ := viewOf_acc (n := p.piI.length) ht ha
    simp [hv, hs, mrx, dflagsOf, h1, h2, h3, h4]
  | dxDiagAcc _ hs hf ha =>
    obtain ⟨c, hv⟩ := viewOf_acc (n := p.piI.length) ht ha
    rcases hs with hs | hs <;> simp [hv, hs, hf, mrx]
  | dxDiagRej _ hs hf ha =>
    rcases viewOf_rej (n := p.piI.length) ht ha with hv | ⟨c, b, hv⟩ <;>
      rcases hs with hs | hs <;> simp [hv, hs, hf, mrx]
  | dxScData hs hf hl =>
    rcases hs with hs | hs <;> simp [viewOf, hs, hf, mrx, hl]
  | dxScOk hs hf hl =>
    rcases hs with hs | hs <;> simp [viewOf, hs, hf, mrx, hl]
  | dxSapNotEnabled h pdu st hs hf hfc =>
    by_cases ha : Diag.Spec.accepts (.data h pdu) = true
    · rcases hs with hs | hs <;> simp [viewOf, hfc, ha, hs, hf, mrx, sclsOf]
    · rcases hs with hs | hs <;> simp [viewOf, hfc, ha, hs, hf, mrx, sclsOf]
  | dxOther h pdu st ss hs hf hfc hok hne =>
    have hc : sclsOf ss = .other := by cases ss <;> simp_all [sclsOf, dataOkStatus]
    by_cases ha : Diag.Spec.accepts (.data h pdu) = true
    · rcases hs with hs | hs <;> simp [viewOf, hfc, ha, hs, hf, mrx, hc]
    · rcases hs with hs | hs <;> simp [viewOf, hfc, ha, hs, hf, mrx, hc]
  | dxSaps h pdu st ss hs hf hfc hok hsap =>
    have hshape : ¬ ((h.dsap = none ∧ h.ssap = none) ∧ pdu.length = p.piI.length) := by
      rintro ⟨⟨h1, h2⟩, _⟩
      rcases hsap with h3 | h3
      · exact h3 h1
      · exact h3 h2
    by_cases ha : Diag.Spec.accepts (.data h pdu) = true
    · cases ss <;> first
        | (exfalso; simp [dataOkStatus] at hok; done)
        | (rcases hs with hs | hs <;> simp [viewOf, hfc, ha, hs, hf, mrx, sclsOf])
    · cases ss <;> first
        | (exfalso; simp [dataOkStatus] at hok; done)
        | (rcases hs with hs | hs <;> simp [viewOf, hfc, ha, hs, hf, mrx, sclsOf, hshape, dataOkStatus])
  | dxLen h pdu st ss hs hf hfc hok hd1 hd2 hl =>
    have ha : Diag.Spec.accepts (.data h pdu) = false := by simp [Diag.Spec.accepts, hd1]
    cases ss <;> first
      | (exfalso; simp [dataOkStatus] at hok; done)
      | (rcases hs with hs | hs <;> simp [viewOf, hfc, ha, hs, hf, mrx, sclsOf, hd1, hd2, hl, dataOkStatus])
  | dxData h pdu st ss hs hf hfc hok hd1 hd2 hl =>
    have ha : Diag.Spec.accepts (.data h pdu) = false := by simp [Diag.Spec.accepts, hd1]
    cases ss <;> first
      | (exfalso; simp [dataOkStatus] at hok; done)
      | (rcases hs with hs | hs <;> simp [viewOf, hfc, ha, hs, hf, mrx, sclsOf, hd1, hd2, hl, dataOkStatus])

/-! ## Replies of a known kind -/

theorem kindOf_silent {n : Nat} {r : SReply} : kindOf n r = .silent ↔ r = .silent := by
  cases r with
  | silent => simp [kindOf]
  | sc => simp [kindOf]
  | data h pdu =>
    simp only [kindOf, reduceCtorEq, iff_false]
    cases h.fc with
    | request f q => simp
    | response st ss =>
      simp only
      split
      · split <;> simp
      · split
        · cases ss <;> simp <;> split <;> simp
        · simp

/-- A well-shaped reply is seen by the master exactly as its kind says. -/
theorem view_of_kind {n : Nat} {r : SReply} (hk : kindOf n r ≠ .other) :
    (r.telegram).map (viewOf n) = (kindOf n r).view ∧ (∀ t, r.telegram = some t → RxOk t) := by
  cases r with
  | silent => simp [kindOf, SReply.telegram, RK.view]
  | sc => simp [kindOf, SReply.telegram, RK.view, viewOf, RxOk]
  | data h pdu =>
    cases hfc : h.fc with
    | request f q => simp [kindOf, hfc] at hk
    | response st ss =>
      refine ⟨?_, fun t ht => by simp only [SReply.telegram, Option.some.injEq] at ht; subst ht; exact ⟨st, ss, hfc⟩⟩
      simp only [kindOf, hfc] at hk ⊢
      simp only [SReply.telegram, Option.map_some, viewOf, hfc]
      by_cases hsap : h.dsap = some 62 ∧ h.ssap = some 60
      · rw [if_pos hsap] at hk ⊢
        by_cases hd : ss = .dataLow ∧ 6 ≤ pdu.length ∧ flagsOf (.data h pdu) &&& PARAMETER_FAULT = 0 ∧
            flagsOf (.data h pdu) &&& CONFIGURATION_FAULT = 0
        · rw [if_pos hd]
          obtain ⟨rfl, hl, h1, h2⟩ := hd
          have ha : Diag.Spec.accepts (.data h pdu) = true := by
            simp [Diag.Spec.accepts, hsap.1, hsap.2, hl]
          rw [if_pos ha]
          simp only [RK.view, dflagsOf, sclsOf, h1, h2, ne_eq, not_true_eq_false, if_false, Option.some.injEq,
            View.diag.injEq, and_true]
          by_cases h3 : flagsOf (.data h pdu) &&& PARAMETER_REQUIRED = 0
          · by_cases h4 : flagsOf (.data h pdu) &&& STATION_NOT_READY = 0 <;> simp [h3, h4]
          · simp [h3]
        · rw [if_neg hd] at hk; exact absurd rfl hk
      · rw [if_neg hsap] at hk ⊢
        have ha : Diag.Spec.accepts (.data h pdu) = false := by
          simp only [Diag.Spec.accepts, decide_eq_false_iff_not]
          intro hc; exact hsap ⟨hc.1, hc.2.1⟩
        rw [ha]
        simp only [Bool.false_eq_true, if_false]
        by_cases hn : h.dsap = none ∧ h.ssap = none
        · rw [if_pos hn] at hk ⊢
          cases ss <;> simp only [] at hk ⊢ <;>
            first
            | exact absurd rfl hk
            | (by_cases hl : pdu.length = n
               · simp [RK.view, sclsOf, dataOkStatus, hn.1, hn.2, hl]
               · rw [if_neg hl] at hk; exact absurd rfl hk)
            | simp [RK.view, sclsOf, dataOkStatus]
        · rw [if_neg hn] at hk; exact absurd rfl hk

theorem deliver_abs {n : Nat} {r : SReply} (hk : kindOf n r ≠ .other) {d : Delivery}
    (hd : ∀ t, d = .sub t → RxOk t) :
    (d.deliver r).map (viewOf n) = (absD n d).deliver (kindOf n r) ∧ (∀ t, d.deliver r = some t → RxOk t) := by
  obtain ⟨h1, h2⟩ := view_of_kind hk
  cases d with
  | ok => exact ⟨h1, h2⟩
  | lossReq => simp [Delivery.deliver, absD, AD.deliver]
  | lossRep => simp [Delivery.deliver, absD, AD.deliver]
  | sub t =>
    have ht := hd t rfl
    cases r with
    | silent => simp [Delivery.deliver, absD, AD.deliver, kindOf]
    | sc => simp [Delivery.deliver, absD, AD.deliver, kindOf, ht]
    | data h pdu =>
      have : kindOf n (.data h pdu) ≠ .silent := fun hc => by simpa using kindOf_silent.mp hc
      simp [Delivery.deliver, absD, AD.deliver, this, ht]

/-! ## One visit -/

theorem pinv_reqDiag {fp : FdlParams} {p : Peripheral} (h : PInv fp p) : PInv fp (reqDiag p) :=
  ⟨h.retry_le, h.off_retry, h.fcb, h.ext, h.prm, h.cfg, h.piq, h.addr⟩

theorem matched_of_eq {p p' : Peripheral} {c : SlaveCfg} (h : Matched p c) (ha : p'.address = p.address)
    (ho : p'.opts = p.opts) (hq : p'.piQ = p.piQ) (hi : p'.piI.length = p.piI.length) : Matched p' c :=
  ⟨by rw [ha]; exact h.addr, by rw [ho]; exact h.prm, by rw [ho]; exact h.ident, h.identLt,
   by rw [ho]; exact h.cfg, by rw [hq]; exact h.qlen, by rw [hi]; exact h.ilen⟩

theorem memOf_first (s : Slave) : memOf s .first = none := by
  simp [memOf, isRetransmission, FrameCountBit.fcv]

/-! ### `cvisit` case by case (for a retry class that is not `over`) -/

theorem cvisit_over (iz : Bool) (c : Core) (mid : Bool) (d : AD) :
    cvisit iz c .over mid d = ({ c with st := .offline, fcb := .first, mem := none }, .reset, some .offline) := rfl

theorem cvisit_none {iz : Bool} {c : Core} {rc : RCls} (h : rc ≠ .over) (mid : Bool) (d : AD)
    (hq : reqOf c.st c.dn c.fl rc = none) : cvisit iz c rc mid d = (c, .reset, none) := by
  cases rc <;> first | exact absurd rfl h | simp [cvisit, hq]

theorem cvisit_lossReq {iz : Bool} {c : Core} {rc : RCls} (h : rc ≠ .over) (mid : Bool) {k : ReqK}
    (hq : reqOf c.st c.dn c.fl rc = some k) :
    cvisit iz c rc mid .lossReq =
      ({ c with dn := c.dn || mid, fl := flAfter c.st c.dn c.fl rc }, .inc, none) := by
  cases rc <;> first | exact absurd rfl h | simp [cvisit, hq]

theorem cvisit_timeout {iz : Bool} {c : Core} {rc : RCls} (h : rc ≠ .over) (mid : Bool) {d : AD} {k : ReqK}
    (hq : reqOf c.st c.dn c.fl rc = some k) (hd : d ≠ .lossReq) {ss' : SState} {dp' : Bool} {rk : RK}
    {mem1 : Option RK} (hsr : sreact iz c.ss c.dp c.mem c.fcb.fcv k = (ss', dp', rk, mem1))
    (hdel : d.deliver rk = none) :
    cvisit iz c rc mid d =
      ({ c with dn := c.dn || mid, fl := flAfter c.st c.dn c.fl rc, ss := ss', dp := dp', mem := mem1 },
       .inc, none) := by
  cases rc <;> first
    | exact absurd rfl h
    | (cases d <;> first | exact absurd rfl hd | simp [cvisit, hq, hsr, hdel])

theorem cvisit_reply {iz : Bool} {c : Core} {rc : RCls} (h : rc ≠ .over) (mid : Bool) {d : AD} {k : ReqK}
    (hq : reqOf c.st c.dn c.fl rc = some k) (hd : d ≠ .lossReq) {ss' : SState} {dp' : Bool} {rk : RK}
    {mem1 : Option RK} (hsr : sreact iz c.ss c.dp c.mem c.fcb.fcv k = (ss', dp', rk, mem1))
    {v : View} (hdel : d.deliver rk = some v) {r : MRx}
    (hr : mrx iz c.st (c.dn || mid) (flAfter c.st c.dn c.fl rc) v = r) :
    cvisit iz c rc mid d =
      ({ st := r.st, fcb := if r.cycled then cycA c.fcb else c.fcb, dn := r.dn,
         fl := flAfter c.st c.dn c.fl rc, ss := ss', dp := dp', mem := if r.cycled then none else mem1 },
       if r.reset then .reset else .inc, r.ev) := by
  subst hr
  cases rc <;> first
    | exact absurd rfl h
    | (cases d <;> first | exact absurd rfl hd | simp [cvisit, hq, hsr, hdel])

/-- **Simulation of one visit.**  Whatever the payloads, whatever the delivery fault: no panic, the
invariant is kept, and the control state and the event are those of the control machine. -/
theorem visit_sim {j : PJ} (hg : Good j) (mid : Bool) {d : Delivery} (hd : ∀ t, d = .sub t → RxOk t) :
    ∃ j' ev, j.visit mid d = some (j', ev) ∧ Good j' ∧ j'.fp = j.fp ∧ j'.op = j.op ∧ j'.s.cfg = j.s.cfg ∧
      (ctl j', ev) = cstep j.fp.maxRetry (j.s.cfg.inLen == 0) (ctl j) (.visit mid (absD j.s.cfg.inLen d)) := by
  obtain ⟨hfp, hop, hI, hm, hs⟩ := hg
  obtain ⟨p'', hafter, hI''⟩ := tx_pinv (tx_spec hfp hop hI) hI
  rcases tx_ctl hfp hop hI hm with ⟨hr, htx⟩ | ⟨hr, hq, htx⟩ | ⟨hr, k, h, pdu, hq, htx, hreq⟩
  · -- retry limit exceeded: declared offline
    rw [htx] at hafter
    simp only [PTx.after, Option.some.injEq] at hafter
    refine ⟨{ j with p := p'' }, some .offline, ?_, ⟨hfp, hop, hI'', ?_, hs⟩, rfl, rfl, rfl, ?_⟩
    · unfold PJ.visit; rw [htx, hafter]
    · subst hafter; exact matched_of_eq hm rfl rfl rfl rfl
    · subst hafter
      simp only [cstep, cstepCore, ctl, rcls_over hr, cvisit_over, RAct.apply]
      simp [coreOf, memOf_first]
  · -- nothing to send
    rw [htx] at hafter
    simp only [PTx.after, Option.some.injEq] at hafter
    have hno : rcls j.fp.maxRetry j.p.retry ≠ .over := by
      rcases rcls_cases j.fp.maxRetry j.p.retry with ⟨_, hc⟩ | ⟨_, _, hc⟩ | ⟨h1, _⟩
      · rw [hc]; decide
      · rw [hc]; decide
      · omega
    refine ⟨{ j with p := p'' }, none, ?_, ⟨hfp, hop, hI'', ?_, hs⟩, rfl, rfl, rfl, ?_⟩
    · unfold PJ.visit; rw [htx, hafter]
    · subst hafter; exact matched_of_eq hm rfl rfl rfl rfl
    · subst hafter
      simp only [cstep, cstepCore, ctl]
      rw [cvisit_none hno mid _ hq]
      simp [coreOf, RAct.apply]
  · -- a request goes out
    rw [htx] at hafter
    simp only [PTx.after, Option.some.injEq] at hafter
    subst hafter
    have hno : rcls j.fp.maxRetry j.p.retry ≠ .over := by
      rcases rcls_cases j.fp.maxRetry j.p.retry with ⟨_, hc⟩ | ⟨_, _, hc⟩ | ⟨h1, _⟩
      · rw [hc]; decide
      · rw [hc]; decide
      · omega
    -- the peripheral after the optional user call
    obtain ⟨p1, hp1⟩ : ∃ p1, p1 = (if mid then reqDiag (sentP j.p (flAfter j.p.state j.p.diagNeeded j.p.diagInFlight
        (rcls j.fp.maxRetry j.p.retry))) else sentP j.p (flAfter j.p.state j.p.diagNeeded j.p.diagInFlight
        (rcls j.fp.maxRetry j.p.retry))) := ⟨_, rfl⟩
    have hI1 : PInv j.fp p1 := by
      rw [hp1]; cases mid
      · exact hI''
      · exact pinv_reqDiag hI''
    have hst1 : p1.state = j.p.state ∧ p1.fcb = j.p.fcb ∧ p1.diagNeeded = (j.p.diagNeeded || mid) ∧
        p1.diagInFlight = flAfter j.p.state j.p.diagNeeded j.p.diagInFlight (rcls j.fp.maxRetry j.p.retry) ∧
        p1.retry = j.p.retry + 1 ∧ p1.address = j.p.address ∧ p1.opts = j.p.opts ∧ p1.piQ = j.p.piQ ∧
        p1.piI = j.p.piI := by
      rw [hp1]; cases mid <;> simp [sentP, reqDiag]
    obtain ⟨e1, e2, e3, e4, e5, e6, e7, e8, e9⟩ := hst1
    have hm1 : Matched p1 j.s.cfg := matched_of_eq hm e6 e7 e8 (by rw [e9])
    by_cases hloss : d = .lossReq
    · subst hloss
      refine ⟨{ j with p := p1 }, none, ?_, ⟨hfp, hop, hI1, hm1, hs⟩, rfl, rfl, rfl, ?_⟩
      · unfold PJ.visit; rw [htx]; simp only; rw [← hp1]
      · simp only [cstep, cstepCore, ctl, absD]
        rw [cvisit_lossReq hno mid hq]
        simp [coreOf, RAct.apply, e1, e2, e3, e4, e5]
    · -- the slave reacts
      obtain ⟨hre, hs', hcfg', hstored, hkind⟩ := receive_ctl hs hreq
      obtain ⟨hdv, hrx⟩ := deliver_abs hkind hd
      have hd' : absD j.s.cfg.inLen d ≠ .lossReq := by cases d <;> simp [absD] <;> exact hloss rfl
      have hvis : j.visit mid d =
          (match d.deliver (j.s.receive h pdu).2 with
           | none => some ({ j with p := p1, s := (j.s.receive h pdu).1 }, none)
           | some t =>
             match p1.receiveReply t with
             | .panic => none
             | .ok p2 ev => some ({ j with p := p2, s := (j.s.receive h pdu).1 }, ev)) := by
        unfold PJ.visit; rw [htx]; simp only; rw [← hp1]
        cases d <;> first | rfl | exact absurd rfl hloss
      rw [hvis]
      cases hdel : d.deliver (j.s.receive h pdu).2 with
      | none =>
        rw [hdel] at hdv
        simp only [Option.map_none] at hdv
        refine ⟨{ j with p := p1, s := (j.s.receive h pdu).1 }, none, rfl,
          ⟨hfp, hop, hI1, by simp only [hcfg']; exact hm1, hs'⟩, rfl, rfl, hcfg', ?_⟩
        simp only [cstep, cstepCore, ctl]
        rw [cvisit_timeout (c := coreOf j.p j.s) hno mid hq hd' hre.symm hdv.symm]
        simp [coreOf, RAct.apply, e1, e2, e3, e4, e5]
      | some t =>
        rw [hdel] at hdv
        simp only [Option.map_some] at hdv
        obtain ⟨p2, ev, hrcv, hI2, f1, f2, f3, f4, f5, f6, f7, f8, f9, f10⟩ := rx_ctl hI1 (hrx t hdel)
        have hil : p1.piI.length = j.s.cfg.inLen := by rw [e9]; exact hm.ilen
        rw [hil, e1, e3, e4] at f1 f2 f3 f4 f5
        refine ⟨{ j with p := p2, s := (j.s.receive h pdu).1 }, ev, by simp only [hrcv],
          ⟨hfp, hop, hI2, by simp only [hcfg']; exact matched_of_eq hm1 f7 f8 f9 f10, hs'⟩, rfl, rfl, hcfg', ?_⟩
        obtain ⟨r, hr⟩ : ∃ r, mrx (j.s.cfg.inLen == 0) j.p.state (j.p.diagNeeded || mid)
          (flAfter j.p.state j.p.diagNeeded j.p.diagInFlight (rcls j.fp.maxRetry j.p.retry))
          (viewOf j.s.cfg.inLen t) = r := ⟨_, rfl⟩
        rw [hr] at f1 f2 f3 f4 f5
        simp only [cstep, cstepCore, ctl]
        rw [cvisit_reply (c := coreOf j.p j.s) hno mid hq hd' hre.symm hdv.symm hr]
        have hmem : memOf (j.s.receive h pdu).1 p2.fcb =
            (if r.cycled then none else memOf (j.s.receive h pdu).1 j.p.fcb) := by
          rw [f3, e2]
          split
          · simp only [memOf]; rw [isRetransmission_cyc hstored]; rfl
          · rfl
        simp only [coreOf]
        rw [Prod.mk.injEq]; refine ⟨?_, f5⟩
        rw [Ctl.mk.injEq]; refine ⟨?_, ?_⟩
        · rw [Core.mk.injEq]; exact ⟨f1, by rw [f3, e2], f2, by rw [f6, e4], rfl, hmem, rfl⟩
        · rw [f4, e5]; cases r.reset <;> simp [RAct.apply]

/-! ## All environment steps, runs -/

theorem memOf_congr {s s' : Slave} (h1 : s'.stored = s.stored) (h2 : s'.last = s.last) (h3 : s'.cfg = s.cfg)
    (f : FrameCountBit) : memOf s' f = memOf s f := by
  simp [memOf, h1, h2, h3]

/-- **Simulation of every environment step** (`control_abstraction`). -/
theorem step_sim {j : PJ} (hg : Good j) {e : PEnv} (he : e.WellFormed) :
    ∃ j' ev, j.step e = some (j', ev) ∧ Good j' ∧ j'.fp = j.fp ∧ j'.op = j.op ∧ j'.s.cfg = j.s.cfg ∧
      (ctl j', ev) = cstep j.fp.maxRetry (j.s.cfg.inLen == 0) (ctl j) (absEnv j.s.cfg.inLen e) := by
  cases e with
  | visit mid d =>
    have hd : ∀ t, d = .sub t → RxOk t := by
      intro t ht; subst ht; exact he
    exact visit_sim hg mid hd
  | power =>
    obtain ⟨hfp, hop, hI, hm, hs⟩ := hg
    refine ⟨_, _, rfl, ⟨hfp, hop, hI, hm, ⟨hs.inputs, rfl, rfl, by simp [Slave.power, Slave.init, kindOf]⟩⟩,
      rfl, rfl, rfl, ?_⟩
    simp [cstep, cstepCore, ctl, coreOf, absEnv, RAct.apply, Slave.power, Slave.init, memOf, isRetransmission]
  | fault ext =>
    obtain ⟨hfp, hop, hI, hm, hs⟩ := hg
    refine ⟨_, _, rfl, ⟨hfp, hop, hI, hm, ⟨hs.inputs, hs.prmFault, hs.cfgFault, hs.last⟩⟩, rfl, rfl, rfl, ?_⟩
    simp [cstep, cstepCore, ctl, coreOf, absEnv, RAct.apply, Slave.reportFault, memOf] <;> rfl
  | diagReq =>
    obtain ⟨hfp, hop, hI, hm, hs⟩ := hg
    refine ⟨_, _, rfl, ⟨hfp, hop, pinv_reqDiag hI, matched_of_eq hm rfl rfl rfl rfl, hs⟩, rfl, rfl, rfl, ?_⟩
    simp [cstep, cstepCore, ctl, coreOf, absEnv, RAct.apply, reqDiag]
  | piq bs =>
    obtain ⟨hfp, hop, hI, hm, hs⟩ := hg
    by_cases hl : bs.length = j.p.piQ.length
    · refine ⟨_, _, rfl, ⟨hfp, hop, ?_, ?_, hs⟩, rfl, rfl, rfl, ?_⟩
      · simp only [hl, if_true]
        exact ⟨hI.retry_le, hI.off_retry, hI.fcb, hI.ext, hI.prm, hI.cfg, by simp only [hl]; exact hI.piq, hI.addr⟩
      · simp only [hl, if_true]
        exact ⟨hm.addr, hm.prm, hm.ident, hm.identLt, hm.cfg, by simp only [hl]; exact hm.qlen, hm.ilen⟩
      · simp [cstep, cstepCore, ctl, coreOf, absEnv, RAct.apply, hl]
    · refine ⟨_, _, rfl, ⟨hfp, hop, by simp only [hl, if_false]; exact hI, by simp only [hl, if_false]; exact hm, hs⟩,
        rfl, rfl, rfl, ?_⟩
      simp [cstep, cstepCore, ctl, coreOf, absEnv, RAct.apply, hl]
  | inputs bs =>
    obtain ⟨hfp, hop, hI, hm, hs⟩ := hg
    by_cases hl : bs.length = j.s.cfg.inLen
    · refine ⟨_, _, rfl, ⟨hfp, hop, hI, by simp only [Slave.setInputs, hl, if_true]; exact hm,
        ⟨by simp [Slave.setInputs, hl], by simp [Slave.setInputs, hl, hs.prmFault],
         by simp [Slave.setInputs, hl, hs.cfgFault], by simp only [Slave.setInputs, hl, if_true]; exact hs.last⟩⟩,
        rfl, rfl, by simp [Slave.setInputs, hl], ?_⟩
      simp [cstep, cstepCore, ctl, coreOf, absEnv, RAct.apply, Slave.setInputs, hl, memOf]
    · refine ⟨_, _, rfl, ⟨hfp, hop, hI, by simp only [Slave.setInputs, hl, if_false]; exact hm,
        by simp only [Slave.setInputs, hl, if_false]; exact hs⟩, rfl, rfl, by simp [Slave.setInputs, hl], ?_⟩
      simp [cstep, cstepCore, ctl, coreOf, absEnv, RAct.apply, Slave.setInputs, hl]

/-- The abstract run matching a history. -/
def crun (mr : Nat) (iz : Bool) (ilen : Nat) (c : Ctl) : List PEnv → Ctl × List PEvent
  | [] => (c, [])
  | e :: es =>
    let r := cstep mr iz c (absEnv ilen e)
    let r2 := crun mr iz ilen r.1 es
    (r2.1, r.2.toList ++ r2.2)

/-- Histories: the real run exists (no panic), keeps `Good`, and its control projection and events
are those of the control machine. -/
theorem run_sim : ∀ (es : List PEnv) {j : PJ}, Good j → (∀ e ∈ es, e.WellFormed) →
    ∃ j' evs, j.run es = some (j', evs) ∧ Good j' ∧ j'.fp = j.fp ∧ j'.op = j.op ∧ j'.s.cfg = j.s.cfg ∧
      (ctl j', evs) = crun j.fp.maxRetry (j.s.cfg.inLen == 0) j.s.cfg.inLen (ctl j) es := by
  intro es
  induction es with
  | nil => intro j hg _; exact ⟨j, [], rfl, hg, rfl, rfl, rfl, rfl⟩
  | cons e es ih =>
    intro j hg hw
    obtain ⟨j1, ev, h1, hg1, a1, a2, a3, hc1⟩ := step_sim hg (hw e (by simp))
    obtain ⟨j2, evs, h2, hg2, b1, b2, b3, hc2⟩ := ih hg1 (fun e' he' => hw e' (by simp [he']))
    refine ⟨j2, ev.toList ++ evs, ?_, hg2, by rw [b1, a1], by rw [b2, a2], by rw [b3, a3], ?_⟩
    · simp only [PJ.run, h1, h2]
    · rw [a1, a3] at hc2
      rw [Prod.mk.injEq] at hc1 hc2
      simp only [crun, ← hc1.1, ← hc1.2, ← hc2.1, ← hc2.2]

/-- The fault-free continuation is `iterQ` on control. -/
theorem quiet_sim : ∀ (n : Nat) {j : PJ}, Good j →
    ∃ j' evs, j.quiet n = some (j', evs) ∧ Good j' ∧ j'.fp = j.fp ∧ j'.op = j.op ∧ j'.s.cfg = j.s.cfg ∧
      ctl j' = iterQ j.fp.maxRetry (j.s.cfg.inLen == 0) n (ctl j) := by
  intro n
  induction n with
  | zero => intro j hg; exact ⟨j, [], rfl, hg, rfl, rfl, rfl, rfl⟩
  | succ n ih =>
    intro j hg
    obtain ⟨j1, ev, h1, hg1, a1, a2, a3, hc1⟩ := visit_sim hg false (d := .ok) (by intro t ht; cases ht)
    obtain ⟨j2, evs, h2, hg2, b1, b2, b3, hc2⟩ := ih hg1
    refine ⟨j2, ev.toList ++ evs, ?_, hg2, by rw [b1, a1], by rw [b2, a2], by rw [b3, a3], ?_⟩
    · simp only [PJ.quiet, h1, h2]
    · rw [a1, a3] at hc2
      rw [Prod.mk.injEq] at hc1
      rw [hc2, hc1.1]
      rfl

theorem jinv_run {mr : Nat} (hmr : 1 ≤ mr) (iz : Bool) (ilen : Nat) : ∀ (es : List PEnv) (c : Ctl),
    jinv mr iz c = true → jinv mr iz (crun mr iz ilen c es).1 = true := by
  intro es
  induction es with
  | nil => intro c h; exact h
  | cons e es ih => intro c h; exact ih _ (jinv_step hmr h _)

end PV.Live
