/-
Simulation between the joint model `PJ` of `Model/Dp/Live.lean` (real master model + reference slave,
all payload bytes) and the finite control machine of `Lemmas/DpLiveCtl.lean`:

* `ctl : PJ → Ctl` forgets process images, parameter / configuration / diagnostics bytes, addresses;
* `Good j`: the master-side invariant `PInv` of `Lemmas/Dp.lean`, matching configuration, and the
  well-formedness of what the slave has stored;
* `step_sim`: for every environment step (any delivery fault, any substituted reply telegram, any
  payload), `ctl (j.step e) = cstep (ctl j) (absEnv j e)`, the event is the abstract one, no panic,
  `Good` is preserved.
-/
import ProfiVerif.Lemmas.Dp
import ProfiVerif.Lemmas.DpLiveCert

namespace PV.Live
open PV PV.Dp

/-! ## Abstraction functions -/

/-- Kind of a slave reply (for a slave with `inLen` input bytes). -/
def kindOf (inLen : Nat) : SReply → RK
  | .silent => .silent
  | .sc => .sc
  | .data h pdu =>
    match h.fc with
    | .request _ _ => .other
    | .response _ st =>
      if h.dsap = some 62 ∧ h.ssap = some 60 then
        if st = .dataLow ∧ 6 ≤ pdu.length ∧ flagsOf (.data h pdu) &&& PARAMETER_FAULT = 0 ∧
            flagsOf (.data h pdu) &&& CONFIGURATION_FAULT = 0 then
          .diag (flagsOf (.data h pdu) &&& PARAMETER_REQUIRED != 0)
                (flagsOf (.data h pdu) &&& STATION_NOT_READY != 0)
        else .other
      else if h.dsap = none ∧ h.ssap = none then
        match st with
        | .sapNotEnabled => .rs
        | .dataLow => if pdu.length = inLen then .dxLow else .other
        | .dataHigh => if pdu.length = inLen then .dxHigh else .other
        | _ => .other
      else .other

def sclsOf : ResponseStatus → SCls
  | .sapNotEnabled => .rs
  | .ok => .okLow
  | .dataLow => .okLow
  | .dataHigh => .high
  | _ => .other

/-- The master's evaluation order of the diagnostics flags. -/
def dflagsOf (fl : UInt16) : DFlags :=
  if fl &&& PARAMETER_FAULT ≠ 0 then .prmFault
  else if fl &&& CONFIGURATION_FAULT ≠ 0 then .cfgFault
  else if fl &&& PARAMETER_REQUIRED ≠ 0 then .prmReq
  else if fl &&& STATION_NOT_READY = 0 then .ready
  else .notReady

/-- A reply telegram as `receive_reply` of a peripheral with `ilen` input bytes sees it. -/
def viewOf (ilen : Nat) : Telegram → View
  | .sc => .sc
  | .token _ _ => .sc
  | .data h pdu =>
    match h.fc with
    | .request _ _ => .sc
    | .response _ st =>
      if Diag.Spec.accepts (.data h pdu) then .diag (dflagsOf (flagsOf (.data h pdu))) (sclsOf st)
      else .data (sclsOf st) (h.dsap == none && h.ssap == none && pdu.length == ilen)

def absD (ilen : Nat) : Delivery → AD
  | .ok => .ok
  | .lossReq => .lossReq
  | .lossRep => .lossRep
  | .sub t => .sub (viewOf ilen t)

def absEnv (ilen : Nat) : PEnv → AEnv
  | .visit mid d => .visit mid (absD ilen d)
  | .power => .power
  | .fault _ => .fault
  | .diagReq => .diagReq
  | .piq _ => .noop
  | .inputs _ => .noop

/-- The slave's retransmission memory relative to the master's frame count bit. -/
def memOf (s : Slave) (f : FrameCountBit) : Option RK :=
  if isRetransmission s.stored f then some (kindOf s.cfg.inLen s.last) else none

def coreOf (p : Peripheral) (s : Slave) : Core :=
  { st := p.state, fcb := p.fcb, dn := p.diagNeeded, fl := p.diagInFlight, ss := s.state,
    mem := memOf s p.fcb, dp := s.diagPending }

def ctl (j : PJ) : Ctl := { core := coreOf j.p j.s, retry := j.p.retry }

/-- Environment steps the FDL contract allows: a substituted reply is a short confirmation or a
response telegram. -/
def PEnv.WellFormed : PEnv → Prop
  | .visit _ (.sub t) => RxOk t
  | _ => True

/-! ## The concrete invariant -/

/-- Static agreement of master-side options and the slave (the "matching configuration" of C07). -/
structure Matched (p : Peripheral) (c : SlaveCfg) : Prop where
  addr : p.address = c.address
  prm : ∃ up, p.opts.userPrm = some up ∧ up.length = c.prmLen
  ident : p.opts.ident = c.ident
  identLt : c.ident < 65536
  cfg : p.opts.config = some c.config
  qlen : p.piQ.length = c.outLen
  ilen : p.piI.length = c.inLen

structure SOk (s : Slave) : Prop where
  inputs : s.inputs.length = s.cfg.inLen
  prmFault : s.prmFault = false
  cfgFault : s.cfgFault = false
  last : kindOf s.cfg.inLen s.last ≠ .other

structure Good (j : PJ) : Prop where
  fp : FpOk j.fp
  op : j.op ≠ .stop
  pinv : PInv j.fp j.p
  m : Matched j.p j.s.cfg
  s : SOk j.s

/-! ## The slave on control -/

/-- The flags of the slave's diagnostics reply, as the master decodes them (table over the
parameterised flag bits, which are payload). -/
theorem diag_flags_table (x : UInt8) (dp : Bool) (st : SState) :
    let b0 : UInt8 := bit (st != .dataExch) 0x02 ||| bit false 0x04 ||| bit dp 0x08 ||| bit false 0x40
    let b1 : UInt8 := bit (st == .waitPrm) 0x01 ||| 0x04 ||| (if st == .waitPrm then 0 else x &&& 0x38)
    let f := Diag.le16 b0 b1 &&& ~~~Diag.PERMANENT_BIT
    f &&& PARAMETER_FAULT = 0 ∧ f &&& CONFIGURATION_FAULT = 0 ∧
    (f &&& PARAMETER_REQUIRED != 0) = (st == .waitPrm) ∧
    (f &&& STATION_NOT_READY != 0) = (st != .dataExch) := by
  have := forall_u8 (fun x => (allBool.all fun dp => allSState.all fun st =>
    let b0 : UInt8 := bit (st != .dataExch) 0x02 ||| bit false 0x04 ||| bit dp 0x08 ||| bit false 0x40
    let b1 : UInt8 := bit (st == .waitPrm) 0x01 ||| 0x04 ||| (if st == .waitPrm then 0 else x &&& 0x38)
    let f := Diag.le16 b0 b1 &&& ~~~Diag.PERMANENT_BIT
    decide (f &&& PARAMETER_FAULT = 0 ∧ f &&& CONFIGURATION_FAULT = 0 ∧
    (f &&& PARAMETER_REQUIRED != 0) = (st == .waitPrm) ∧
    (f &&& STATION_NOT_READY != 0) = (st != .dataExch)))) (by decide +kernel) x
  have h2 := List.all_eq_true.mp this dp (mem_allBool dp)
  have h3 := List.all_eq_true.mp h2 st (mem_allSState st)
  simpa using h3

theorem flagsOf_data (h : Header) (pdu : Bytes) :
    flagsOf (.data h pdu) = Diag.le16 (pdu.getD 0 0) (pdu.getD 1 0) &&& ~~~Diag.PERMANENT_BIT := rfl

/-- A request as the reference slave classifies it, addressed to it, with contents that match its
configuration. -/
def IsReq (k : ReqK) (c : SlaveCfg) (f : FrameCountBit) (h : Header) (pdu : Bytes) : Prop :=
  h.da = c.address ∧
  match k with
  | .diag => h.dsap = some 60 ∧ h.ssap = some 62 ∧ h.fc = .request f .srdLow
  | .setPrm => h.dsap = some 61 ∧ h.ssap = some 62 ∧ h.fc = .request f .srdLow ∧
      pdu.length = 7 + c.prmLen ∧ (pdu.getD 4 0).toNat * 256 + (pdu.getD 5 0).toNat = c.ident
  | .chkCfg => h.dsap = some 62 ∧ h.ssap = some 62 ∧ h.fc = .request f .srdLow ∧ pdu = c.config
  | .dx => h.dsap = none ∧ h.ssap = none ∧ h.fc = .request f .srdHigh ∧ pdu.length = c.outLen

theorem kindOf_diagReply (s : Slave) (hs : SOk s) (req : Header) :
    kindOf s.cfg.inLen (.data (replyHeader s req (some 62) (some 60) .dataLow) s.diagPdu) =
      .diag (s.state == .waitPrm) (s.state != .dataExch) := by
  have ht := diag_flags_table s.prmFlags s.diagPending s.state
  have hlen : 6 ≤ s.diagPdu.length := by simp [Slave.diagPdu]
  have hf : ∀ hdr, flagsOf (.data hdr s.diagPdu) =
      Diag.le16 (bit (s.state != .dataExch) 0x02 ||| bit false 0x04 ||| bit s.diagPending 0x08 ||| bit false 0x40)
        (bit (s.state == .waitPrm) 0x01 ||| 0x04 ||| (if s.state == .waitPrm then 0 else s.prmFlags &&& 0x38))
        &&& ~~~Diag.PERMANENT_BIT := by
    intro hdr
    rw [flagsOf_data]
    simp [Slave.diagPdu, hs.prmFault, hs.cfgFault]
  simp only at ht
  obtain ⟨h1, h2, h3, h4⟩ := ht
  unfold kindOf
  simp only [replyHeader, true_and, and_self, if_true]
  simp only [hf]
  rw [if_pos ⟨hlen, h1, h2⟩, h3, h4]

/-- Serving a new request, on control. -/
theorem serve_ctl {s : Slave} (hs : SOk s) {k : ReqK} {f : FrameCountBit} {h : Header} {pdu : Bytes}
    (hr : IsReq k s.cfg f h pdu) :
    ((s.serve h pdu).1.state, (s.serve h pdu).1.diagPending, kindOf s.cfg.inLen (s.serve h pdu).2) =
        sserve (s.cfg.inLen == 0) s.state s.diagPending k ∧
    (s.serve h pdu).1.cfg = s.cfg ∧ (s.serve h pdu).1.inputs = s.inputs ∧
    (s.serve h pdu).1.prmFault = false ∧ (s.serve h pdu).1.cfgFault = false ∧
    (s.serve h pdu).1.stored = s.stored := by
  obtain ⟨hda, hk⟩ := hr
  cases k with
  | diag =>
    obtain ⟨h1, h2, _⟩ := hk
    unfold Slave.serve
    simp only [h1, h2, and_self, if_true, sserve]
    refine ⟨?_, by simp, by simp, by simp [hs.prmFault], by simp [hs.cfgFault], by simp⟩
    rw [kindOf_diagReply s hs h]
  | setPrm =>
    obtain ⟨h1, h2, _, h4, h5⟩ := hk
    unfold Slave.serve
    simp only [h1, h2, h4, h5, and_self, if_true, sserve, Option.some.injEq]
    simp only [show ¬ ((61 : UInt8) = 60) by decide, false_and, if_false]
    refine ⟨?_, by simp, by simp, by simp, by simp [hs.cfgFault], by simp⟩
    simp [kindOf]
  | chkCfg =>
    obtain ⟨h1, h2, _, h4⟩ := hk
    unfold Slave.serve
    simp only [h1, h2, h4, and_self, if_true, sserve, Option.some.injEq]
    simp only [show ¬ ((62 : UInt8) = 60) by decide, show ¬ ((62 : UInt8) = 61) by decide, false_and, if_false]
    by_cases hw : s.state = .waitPrm
    · simp only [hw, if_true]
      refine ⟨?_, by simp, by simp, by simp [hs.prmFault], by simp [hs.cfgFault], by simp⟩
      simp [Slave.rs, kindOf, replyHeader]
    · simp only [hw, if_false]
      refine ⟨?_, by simp, by simp, by simp [hs.prmFault], by simp, by simp⟩
      simp [kindOf]
  | dx =>
    obtain ⟨h1, h2, _, h4⟩ := hk
    unfold Slave.serve
    simp only [h1, h2, h4, and_self, if_true, sserve]
    simp only [show ¬ ((none : Option UInt8) = some 60) by decide, show ¬ ((none : Option UInt8) = some 61) by decide,
      show ¬ ((none : Option UInt8) = some 62) by decide, false_and, if_false]
    by_cases hd : s.state = .dataExch
    · simp only [hd, if_true]
      by_cases hp : s.diagPending = true
      · simp only [hp, if_true]
        refine ⟨?_, by simp, by simp, by simp [hs.prmFault], by simp [hs.cfgFault], by simp⟩
        simp [kindOf, replyHeader, hs.inputs]
      · have hp' : s.diagPending = false := by simpa using hp
        simp only [hp', Bool.false_eq_true, if_false]
        by_cases hz : s.cfg.inLen = 0
        · simp only [hz, if_true]
          refine ⟨?_, by simp, by simp, by simp [hs.prmFault], by simp [hs.cfgFault], by simp⟩
          simp [kindOf]
        · simp only [hz, if_false]
          refine ⟨?_, by simp, by simp, by simp [hs.prmFault], by simp [hs.cfgFault], by simp⟩
          simp [kindOf, replyHeader, hs.inputs, hz]
    · simp only [hd, if_false]
      refine ⟨?_, by simp, by simp, by simp [hs.prmFault], by simp [hs.cfgFault], by simp⟩
      simp [Slave.rs, kindOf, replyHeader]

theorem isRetransmission_after (f : FrameCountBit) : isRetransmission (storedAfter f) f = f.fcv := by
  cases f <;> rfl

theorem isRetransmission_cyc {st : Option Bool} {f : FrameCountBit}
    (h : isRetransmission st f = true ∨ st = storedAfter f) : isRetransmission st (cycA f) = false := by
  rcases h with h | rfl
  · cases f <;> cases st with
      | none => simp [isRetransmission] at h
      | some b => cases b <;> simp_all [isRetransmission, cycA, FrameCountBit.fcv, FrameCountBit.fcb]
  · cases f <;> rfl

theorem cyc_eq_cycA : cyc = cycA := by funext f; cases f <;> rfl

/-- The reference slave receiving a request of the master (frame count bit handling included), on
control: `sreact`. -/
theorem receive_ctl {s : Slave} (hs : SOk s) {k : ReqK} {f : FrameCountBit} {h : Header} {pdu : Bytes}
    (hr : IsReq k s.cfg f h pdu) :
    ((s.receive h pdu).1.state, (s.receive h pdu).1.diagPending, kindOf s.cfg.inLen (s.receive h pdu).2,
        memOf (s.receive h pdu).1 f) =
      sreact (s.cfg.inLen == 0) s.state s.diagPending (memOf s f) f.fcv k ∧
    SOk (s.receive h pdu).1 ∧ (s.receive h pdu).1.cfg = s.cfg ∧
    (isRetransmission (s.receive h pdu).1.stored f = true ∨ (s.receive h pdu).1.stored = storedAfter f) ∧
    kindOf s.cfg.inLen (s.receive h pdu).2 ≠ .other := by
  have hfc : h.fc = .request f .srdLow ∨ h.fc = .request f .srdHigh := by
    obtain ⟨_, hk⟩ := hr
    cases k
    · exact Or.inl hk.2.2
    · exact Or.inl hk.2.2.1
    · exact Or.inl hk.2.2.1
    · exact Or.inr hk.2.2.1
  have hda : ¬ (h.da ≠ s.cfg.address) := by simp [hr.1]
  by_cases hre : isRetransmission s.stored f = true
  · have hrecv : s.receive h pdu = (s, s.last) := by
      unfold Slave.receive
      rw [if_neg hda]
      rcases hfc with hfc | hfc <;> simp [hfc, hre]
    rw [hrecv]
    refine ⟨?_, hs, rfl, Or.inl hre, hs.last⟩
    simp only [memOf, hre, if_true, sreact]
  · have hre' : isRetransmission s.stored f = false := by simpa using hre
    have hrecv : s.receive h pdu =
        ({ (s.serve h pdu).1 with stored := storedAfter f, last := (s.serve h pdu).2 }, (s.serve h pdu).2) := by
      unfold Slave.receive
      rw [if_neg hda]
      rcases hfc with hfc | hfc <;> simp [hfc, hre']
    obtain ⟨h1, h2, h3, h4, h5, _⟩ := serve_ctl hs hr
    have hk : kindOf s.cfg.inLen (s.serve h pdu).2 ≠ .other := by
      have : kindOf s.cfg.inLen (s.serve h pdu).2 = (sserve (s.cfg.inLen == 0) s.state s.diagPending k).2.2 := by
        rw [← h1]
      rw [this]
      cases k <;> simp only [sserve] <;> (repeat' split) <;> simp
    rw [hrecv]
    refine ⟨?_, ⟨by simp [h2, h3, hs.inputs], h4, h5, by simp only [h2]; exact hk⟩, h2, Or.inr rfl, hk⟩
    simp only [memOf, hre', Bool.false_eq_true, if_false, sreact, isRetransmission_after, h2]
    rw [← h1]

/-! ## The master on control -/

theorem setPrm_ident {fp : FdlParams} {o : Options} {up : Bytes} (h : o.ident < 65536) :
    ((setPrmPdu fp o up).getD 4 0).toNat * 256 + ((setPrmPdu fp o up).getD 5 0).toNat = o.ident := by
  have h1 : ((setPrmPdu fp o up).getD 4 0) = UInt8.ofNat (o.ident / 256) := by simp [setPrmPdu]
  have h2 : ((setPrmPdu fp o up).getD 5 0) = UInt8.ofNat (o.ident % 256) := by simp [setPrmPdu]
  rw [h1, h2, ofNat_toNat_le _ (by omega), ofNat_toNat_le _ (by omega)]
  omega

theorem setPrm_length {fp : FdlParams} {o : Options} {up : Bytes} :
    (setPrmPdu fp o up).length = 7 + up.length := by
  simp [setPrmPdu]; omega

theorem dxPdu_length (op : OpState) (q : Bytes) : (dxPdu op q).length = q.length := by
  unfold dxPdu; split <;> simp

/-- The peripheral after a transmission: retry counter incremented, `diag_in_flight` decided. -/
def sentP (p : Peripheral) (fl : Bool) : Peripheral := { p with retry := p.retry + 1, diagInFlight := fl }

/-- `transmit_telegram` on control: what the peripheral does is a function of its state, the retry
class and the two diagnostics flags; the request it sends is one the slave understands. -/
theorem tx_ctl {fp : FdlParams} (hfp : FpOk fp) {op : OpState} (hop : op ≠ .stop) {p : Peripheral}
    (hI : PInv fp p) {c : SlaveCfg} (hm : Matched p c) :
    (fp.maxRetry < p.retry ∧
      p.transmit fp op = .decline { p with state := .offline, fcb := .first, retry := 0 } (some .offline)) ∨
    (p.retry ≤ fp.maxRetry ∧ reqOf p.state p.diagNeeded p.diagInFlight (rcls fp.maxRetry p.retry) = none ∧
      p.transmit fp op = .decline { p with retry := 0 } none) ∨
    (p.retry ≤ fp.maxRetry ∧ ∃ k h pdu,
      reqOf p.state p.diagNeeded p.diagInFlight (rcls fp.maxRetry p.retry) = some k ∧
      p.transmit fp op = .send (sentP p (flAfter p.state p.diagNeeded p.diagInFlight (rcls fp.maxRetry p.retry))) h pdu ∧
      IsReq k c p.fcb h pdu) := by
  have hspec := tx_spec hfp hop hI
  obtain ⟨up, hup, hupl⟩ := hm.prm
  have hz : ∀ (h : p.retry ≤ fp.maxRetry), (rcls fp.maxRetry p.retry = .zero ↔ p.retry = 0) ∧
      rcls fp.maxRetry p.retry ≠ .over := by
    intro h
    rcases rcls_cases fp.maxRetry p.retry with ⟨h0, hc⟩ | ⟨h1, _, hc⟩ | ⟨h1, _⟩
    · exact ⟨⟨fun _ => h0, fun _ => hc⟩, by rw [hc]; decide⟩
    · exact ⟨⟨fun h => (by rw [hc] at h; cases h), fun h => (by omega)⟩, by rw [hc]; decide⟩
    · omega
  generalize hres : p.transmit fp op = res at hspec
  cases hspec with
  | goOffline hr => exact Or.inl ⟨hr, rfl⟩
  | probe hr hs h0 =>
    refine Or.inr (Or.inr ⟨hr, .diag, p.diagHeader fp, [], ?_, ?_, ?_⟩)
    · simp [reqOf, hs, (hz hr).1.mpr h0]
    · simp [sentP, flAfter, isDX, hs, h0]
    · exact ⟨hm.addr, rfl, rfl, rfl⟩
  | probeWait hr hs h0 =>
    refine Or.inr (Or.inl ⟨hr, ?_, rfl⟩)
    have : rcls fp.maxRetry p.retry ≠ .zero := fun h => h0 ((hz hr).1.mp h)
    simp [reqOf, hs, this]
  | setPrm up' hr hs hu =>
    have : up' = up := by rw [hup] at hu; exact (Option.some.inj hu).symm
    subst this
    refine Or.inr (Or.inr ⟨hr, .setPrm, p.setPrmHeader fp, setPrmPdu fp p.opts up', ?_, ?_, ?_⟩)
    · simp [reqOf, hs]
    · simp [sentP, flAfter, isDX, hs]
    · exact ⟨hm.addr, rfl, rfl, rfl, by rw [setPrm_length, hupl],
        by rw [setPrm_ident (by rw [hm.ident]; exact hm.identLt), hm.ident]⟩
  | noPrm hr hs hu => rw [hup] at hu; cases hu
  | chkCfg cfg hr hs hu =>
    have : cfg = c.config := by rw [hm.cfg] at hu; exact (Option.some.inj hu).symm
    subst this
    refine Or.inr (Or.inr ⟨hr, .chkCfg, p.chkCfgHeader fp, c.config, ?_, ?_, ?_⟩)
    · simp [reqOf, hs]
    · simp [sentP, flAfter, isDX, hs]
    · exact ⟨hm.addr, rfl, rfl, rfl, rfl⟩
  | noCfg hr hs hu => rw [hm.cfg] at hu; cases hu
  | validate hr hs =>
    refine Or.inr (Or.inr ⟨hr, .diag, p.diagHeader fp, [], ?_, ?_, ?_⟩)
    · simp [reqOf, hs]
    · simp [sentP, flAfter, isDX, hs]
    · exact ⟨hm.addr, rfl, rfl, rfl⟩
  | dxDiag hr hs hd =>
    have hfl : flAfter p.state p.diagNeeded p.diagInFlight (rcls fp.maxRetry p.retry) = p.serviceIsDiag := by
      unfold flAfter Peripheral.serviceIsDiag
      have hdx : isDX p.state = true := by rcases hs with hs | hs <;> simp [isDX, hs]
      rw [hdx]
      by_cases h0 : p.retry = 0
      · rw [if_pos ((hz hr).1.mpr h0), if_pos h0]; simp
      · have : rcls fp.maxRetry p.retry ≠ .zero := fun h => h0 ((hz hr).1.mp h)
        rw [if_neg this, if_neg h0]; simp
    refine Or.inr (Or.inr ⟨hr, .diag, p.diagHeader fp, [], ?_, ?_, ?_⟩)
    · have hq : reqOf p.state p.diagNeeded p.diagInFlight (rcls fp.maxRetry p.retry) =
          some (if flAfter p.state p.diagNeeded p.diagInFlight (rcls fp.maxRetry p.retry) then .diag else .dx) := by
        rcases hs with hs | hs <;> rw [hs] <;> rfl
      rw [hq, hfl, hd]; rfl
    · rw [hfl]; rfl
    · exact ⟨hm.addr, rfl, rfl, rfl⟩
  | dx hr hs hd =>
    have hfl : flAfter p.state p.diagNeeded p.diagInFlight (rcls fp.maxRetry p.retry) = p.serviceIsDiag := by
      unfold flAfter Peripheral.serviceIsDiag
      have hdx : isDX p.state = true := by rcases hs with hs | hs <;> simp [isDX, hs]
      rw [hdx]
      by_cases h0 : p.retry = 0
      · rw [if_pos ((hz hr).1.mpr h0), if_pos h0]; simp
      · have : rcls fp.maxRetry p.retry ≠ .zero := fun h => h0 ((hz hr).1.mp h)
        rw [if_neg this, if_neg h0]; simp
    refine Or.inr (Or.inr ⟨hr, .dx, p.dxHeader fp, dxPdu op p.piQ, ?_, ?_, ?_⟩)
    · have hq : reqOf p.state p.diagNeeded p.diagInFlight (rcls fp.maxRetry p.retry) =
          some (if flAfter p.state p.diagNeeded p.diagInFlight (rcls fp.maxRetry p.retry) then .diag else .dx) := by
        rcases hs with hs | hs <;> rw [hs] <;> rfl
      rw [hq, hfl, hd]; rfl
    · rw [hfl]; rfl
    · exact ⟨hm.addr, rfl, rfl, rfl, by rw [dxPdu_length, hm.qlen]⟩

theorem viewOf_acc {n : Nat} {t : Telegram} (ht : RxOk t) (ha : Diag.Spec.accepts t = true) :
    ∃ c, viewOf n t = .diag (dflagsOf (flagsOf t)) c := by
  cases t with
  | sc => simp [Diag.Spec.accepts] at ha
  | token a b => simp [Diag.Spec.accepts] at ha
  | data h pdu =>
    obtain ⟨st, ss, hfc⟩ := ht
    exact ⟨sclsOf ss, by simp [viewOf, hfc, ha]⟩

theorem viewOf_rej {n : Nat} {t : Telegram} (ht : RxOk t) (ha : Diag.Spec.accepts t = false) :
    viewOf n t = .sc ∨ ∃ c b, viewOf n t = .data c b := by
  cases t with
  | sc => exact Or.inl rfl
  | token a b => exact Or.inl rfl
  | data h pdu =>
    obtain ⟨st, ss, hfc⟩ := ht
    exact Or.inr ⟨sclsOf ss, (h.dsap == none && h.ssap == none && pdu.length == n), by simp [viewOf, hfc, ha]⟩

theorem viewOf_not_sc {n : Nat} {t : Telegram} (ht : RxOk t) (hne : t ≠ .sc) : viewOf n t ≠ .sc := by
  cases t with
  | sc => exact absurd rfl hne
  | token a b => exact absurd ht (by simp [RxOk])
  | data h pdu =>
    obtain ⟨st, ss, hfc⟩ := ht
    simp only [viewOf, hfc]
    split <;> simp

/-- `receive_reply` on control: the peripheral's reaction depends on the reply only through its
view, and on the peripheral only through state and the two diagnostics flags. -/
theorem rx_ctl {fp : FdlParams} {p : Peripheral} (hI : PInv fp p) {t : Telegram} (ht : RxOk t) :
    ∃ p' ev, p.receiveReply t = .ok p' ev ∧ PInv fp p' ∧
      p'.state = (mrx (p.piI.length == 0) p.state p.diagNeeded p.diagInFlight (viewOf p.piI.length t)).st ∧
      p'.diagNeeded = (mrx (p.piI.length == 0) p.state p.diagNeeded p.diagInFlight (viewOf p.piI.length t)).dn ∧
      p'.fcb = (if (mrx (p.piI.length == 0) p.state p.diagNeeded p.diagInFlight (viewOf p.piI.length t)).cycled
                then cycA p.fcb else p.fcb) ∧
      p'.retry = (if (mrx (p.piI.length == 0) p.state p.diagNeeded p.diagInFlight (viewOf p.piI.length t)).reset
                  then 0 else p.retry) ∧
      ev = (mrx (p.piI.length == 0) p.state p.diagNeeded p.diagInFlight (viewOf p.piI.length t)).ev ∧
      p'.diagInFlight = p.diagInFlight ∧ p'.address = p.address ∧ p'.opts = p.opts ∧ p'.piQ = p.piQ ∧
      p'.piI.length = p.piI.length := by
  obtain ⟨p', ev, he, hspec⟩ := rx_spec hI ht
  refine ⟨p', ev, he, rx_pinv hspec hI, ?_⟩
  rw [← cyc_eq_cycA]
  cases hspec with
  | offAcc _ hs ha =>
    obtain ⟨c, hv⟩ := viewOf_acc (n := p.piI.length) ht ha
    simp [hv, hs, mrx]
  | offRej _ hs ha =>
    rcases viewOf_rej (n := p.piI.length) ht ha with hv | ⟨c, b, hv⟩ <;> simp [hv, hs, mrx]
  | prmSc hs => simp [viewOf, hs, mrx]
  | prmRej _ hs hne =>
    have := viewOf_not_sc (n := p.piI.length) ht hne
    simp only [hs, mrx]
    split <;> simp_all
  | cfgSc hs => simp [viewOf, hs, mrx]
  | cfgRej _ hs hne =>
    have := viewOf_not_sc (n := p.piI.length) ht hne
    simp only [hs, mrx]
    split <;> simp_all
  | valRej _ hs ha =>
    rcases viewOf_rej (n := p.piI.length) ht ha with hv | ⟨c, b, hv⟩ <;> simp [hv, hs, mrx]
  | valPrmFault _ hs ha h1 =>
    obtain ⟨c, hv⟩ := viewOf_acc (n := p.piI.length) ht ha
    simp [hv, hs, mrx, dflagsOf, h1]
  | valCfgFault _ hs ha h1 h2 =>
    obtain ⟨c, hv⟩ := viewOf_acc (n := p.piI.length) ht ha
    simp [hv, hs, mrx, dflagsOf, h1, h2]
  | valPrmReq _ hs ha h1 h2 h3 =>
    obtain ⟨c, hv⟩ := viewOf_acc (n := p.piI.length) ht ha
    simp [hv, hs, mrx, dflagsOf, h1, h2, h3]
  | valReady _ hs ha h1 h2 h3 h4 =>
    obtain ⟨c, hv⟩ := viewOf_acc (n := p.piI.length) ht ha
    simp [hv, hs, mrx, dflagsOf, h1, h2, h3, h4]
  | valNotReady _ hs ha h1 h2 h3 h4 =>
    obtain ⟨c, hv⟩ := viewOf_acc (n := p.piI.length) ht ha
    simp [hv, hs, mrx, dflagsOf, h1, h2, h3, h4]
  | dxDiagAcc _ hs hf ha =>
    obtain ⟨c, hv⟩ := viewOf_acc (n := p.piI.length) ht ha
    rcases hs with hs | hs <;> simp [hv, hs, hf, mrx]
  | dxDiagRej _ hs hf ha =>
    rcases viewOf_rej (n := p.piI.length) ht ha with hv | ⟨c, b, hv⟩ <;>
      rcases hs with hs | hs <;> simp [hv, hs, hf, mrx]
  | dxScData hs hf hl =>
    rcases hs with hs | hs <;> simp [viewOf, hs, hf, mrx, hl]
  | dxScOk hs hf hl =>
    rcases hs with hs | hs <;> simp [viewOf, hs, hf, mrx, hl]
  | dxSapNotEnabled h pdu st hs hf hfc =>
    by_cases ha : Diag.Spec.accepts (.data h pdu) = true
    · rcases hs with hs | hs <;> simp [viewOf, hfc, ha, hs, hf, mrx, sclsOf]
    · rcases hs with hs | hs <;> simp [viewOf, hfc, ha, hs, hf, mrx, sclsOf]
  | dxOther h pdu st ss hs hf hfc hok hne =>
    have hc : sclsOf ss = .other := by cases ss <;> simp_all [sclsOf, dataOkStatus]
    by_cases ha : Diag.Spec.accepts (.data h pdu) = true
    · rcases hs with hs | hs <;> simp [viewOf, hfc, ha, hs, hf, mrx, hc]
    · rcases hs with hs | hs <;> simp [viewOf, hfc, ha, hs, hf, mrx, hc]
  | dxSaps h pdu st ss hs hf hfc hok hsap =>
    have hshape : ¬ ((h.dsap = none ∧ h.ssap = none) ∧ pdu.length = p.piI.length) := by
      rintro ⟨⟨h1, h2⟩, _⟩
      rcases hsap with h3 | h3
      · exact h3 h1
      · exact h3 h2
    by_cases ha : Diag.Spec.accepts (.data h pdu) = true
    · cases ss <;> first
        | (exfalso; simp [dataOkStatus] at hok; done)
        | (rcases hs with hs | hs <;> simp [viewOf, hfc, ha, hs, hf, mrx, sclsOf])
    · cases ss <;> first
        | (exfalso; simp [dataOkStatus] at hok; done)
        | (rcases hs with hs | hs <;> simp [viewOf, hfc, ha, hs, hf, mrx, sclsOf, hshape])
  | dxLen h pdu st ss hs hf hfc hok hd1 hd2 hl =>
    have ha : Diag.Spec.accepts (.data h pdu) = false := by simp [Diag.Spec.accepts, hd1]
    cases ss <;> first
      | (exfalso; simp [dataOkStatus] at hok; done)
      | (rcases hs with hs | hs <;> simp [viewOf, hfc, ha, hs, hf, mrx, sclsOf, hd1, hd2, hl])
  | dxData h pdu st ss hs hf hfc hok hd1 hd2 hl =>
    have ha : Diag.Spec.accepts (.data h pdu) = false := by simp [Diag.Spec.accepts, hd1]
    cases ss <;> first
      | (exfalso; simp [dataOkStatus] at hok; done)
      | (rcases hs with hs | hs <;> simp [viewOf, hfc, ha, hs, hf, mrx, sclsOf, hd1, hd2, hl])

end PV.Live
