/-
Frame for `next_application` (C15 deepening): no state handler other than the application loop moves the
turn — except that the duplicate-address detection of `do_listen_token` calls `set_offline`, which
resets the station (`*self = Self::new(..)`) and with it the turn to application 0.
-/
import ProfiVerif.Lemmas.AppOrder

namespace PV

/-- The turn is kept. -/
def Keep (c c' : Ctx) : Prop := c'.s.nextApp = c.s.nextApp

/-- The turn is kept, or the station went offline and the turn is back at application 0. -/
def KeepOrReset (c c' : Ctx) : Prop :=
  c'.s.nextApp = c.s.nextApp ∨ (c'.s.online = false ∧ c'.s.st = .offline ∧ c'.s.nextApp = 0)

theorem setOffline_next (s : Station) : s.setOffline.nextApp = 0 := rfl

theorem handleTelegram_next (c c' : Ctx) (now : Int) (t : Telegram) (l : Bool) (h : handleTelegram c now t l = .ok c') :
    Keep c c' := by
  unfold handleTelegram at h
  unfold Keep
  cases hst : c.s.st <;> rw [hst] at h <;> simp only at h <;> try (cases h; done)
  · cases h; rfl
  · cases t with
    | sc => cases h; rfl
    | data hd pdu =>
      simp only at h
      split at h
      · split at h <;> cases h <;> rfl
      · cases h; rfl
    | token da sa =>
      simp only at h
      split at h
      · split at h
        · cases h; rfl
        · simp only [tr, toListenToken, upd] at h
          cases h; rfl
      · split at h
        · cases h; rfl
        · split at h
          · simp only [tr, toUseToken, upd] at h
            cases h; rfl
          · split at h
            · simp only [tr, toUseToken, upd] at h
              cases h; rfl
            · cases h; rfl

theorem foldIdle_next (now : Int) : ∀ (calls : List (Telegram × Bool)) (c c' : Ctx),
    foldTelegrams (fun c t isLast => handleTelegram (upd c fun s => markRx s now) now t isLast) c calls = .ok c' →
    Keep c c' := by
  intro calls
  induction calls with
  | nil => intro c c' h; cases h; rfl
  | cons x rest ih =>
    intro c c' h
    obtain ⟨t, l⟩ := x
    simp only [foldTelegrams] at h
    obtain ⟨c1, h1, h2⟩ := bind_ok_inv h
    have e1 := handleTelegram_next _ c1 now t l h1
    have e2 := ih c1 c' h2
    unfold Keep at *
    rw [e2, e1]; simp [upd, markRx_nextApp]

theorem doClaimToken_next : ∀ (fuel : Nat) (c c' : Ctx) (now : Int) (step : ClaimStep), c.s.st = .claimToken step →
    doClaimToken c now fuel = .ok c' → Keep c c' := by
  intro fuel
  induction fuel with
  | zero => intro c c' now step _ h; simp [doClaimToken] at h
  | succ fuel ih =>
    intro c c' now step hst h
    unfold doClaimToken at h
    rw [hst] at h
    simp only at h
    unfold Keep
    have tok : ∀ nxt : ClaimStep, (if (waitSyncPause c.s now).2 = true then Res.ok { c with s := (waitSyncPause c.s now).1 } else
          (transmit { c with s := (waitSyncPause c.s now).1 } now
            (sendToken (UInt8.ofNat (waitSyncPause c.s now).1.p.address) (UInt8.ofNat (waitSyncPause c.s now).1.p.address))).bind fun c =>
          .ok (upd c fun s => { s with ring := s.ring.claimToken, st := .claimToken nxt, gap := .doPoll s.p.address })) = .ok c' →
        c'.s.nextApp = c.s.nextApp := by
      intro nxt hh
      split at hh
      · cases hh; exact ws_nextApp c.s now
      · obtain ⟨c2, ht, hh⟩ := bind_ok_inv hh
        have := transmit_inv ht
        subst this
        simp only [upd] at hh
        cases hh
        simp [markTx, ws_nextApp]
    cases step with
    | firstToken => exact tok .secondToken (by simpa using h)
    | secondToken => exact tok .scan (by simpa using h)
    | scan =>
      simp only at h
      split at h
      · cases h; exact ws_nextApp c.s now
      · split at h
        · obtain ⟨s', hs', hc'⟩ := tr_inv h
          have := toPassToken_inv hs'
          subst this; subst hc'
          simp [ws_nextApp]
        · split at h
          · cases h
          · split at h
            · cases h
            · rename_i c2 addr htg
              rcases transmitGapPoll_eff _ _ _ _ htg with ⟨h1, h2⟩ | ⟨b, a, h1, h2⟩
              · cases h2
              · subst h1
                cases h
                simp [upd, markTx, ws_nextApp]
            · rename_i c2 htg
              rcases transmitGapPoll_eff _ _ _ _ htg with ⟨h1, h2⟩ | ⟨b, a, h1, h2⟩
              · subst h1
                cases h
                simp [upd, ws_nextApp]
              · cases h2
    | scanAwait a =>
      simp only at h
      split at h
      · cases h
      · rename_i c1 hg
        obtain ⟨-, -, -, hn, -⟩ := awaitGap_eff _ _ _ _ _ hg
        cases h; exact hn
      · rename_i c1 hg
        obtain ⟨-, -, -, hn, -⟩ := awaitGap_eff _ _ _ _ _ hg
        cases h; simpa [upd] using hn
      · rename_i c1 hg
        obtain ⟨-, -, -, hn, -⟩ := awaitGap_eff _ _ _ _ _ hg
        have := ih (upd c1 fun s => { s with st := .claimToken .scan }) c' now .scan (by simp [upd]) h
        unfold Keep at this
        rw [this]; simpa [upd] using hn
      · rename_i c1 hg
        obtain ⟨-, -, -, hn, -⟩ := awaitGap_eff _ _ _ _ _ hg
        obtain ⟨s', hs', hc'⟩ := tr_inv h
        have := toActiveIdle_inv hs'
        subst this; subst hc'
        simpa using hn

theorem handleLostToken_next (c c1 : Ctx) (now : Int) (o : Option Res) (h : handleLostToken c now = (c1, o)) :
    c1 = { c with s := (getOrInsertLast c.s now).1 } ∧ (∀ r c', o = some r → r = .ok c' → Keep c c') := by
  unfold handleLostToken at h
  simp only at h
  split at h
  · split at h
    · simp only [Prod.mk.injEq] at h
      obtain ⟨h1, h2⟩ := h
      refine ⟨h1.symm, ?_⟩
      intro r c' ho hr
      rw [← h2] at ho
      cases ho
      cases hr
    · rename_i s'' hs''
      simp only [Prod.mk.injEq] at h
      obtain ⟨h1, h2⟩ := h
      refine ⟨h1.symm, ?_⟩
      intro r c' ho hr
      rw [← h2] at ho
      cases ho
      have := toClaimToken_inv hs''
      subst this
      have := doClaimToken_next 2 _ c' now .firstToken rfl hr
      unfold Keep at *
      rw [this]; simp [gol_nextApp]
  · simp only [Prod.mk.injEq] at h
    obtain ⟨h1, h2⟩ := h
    refine ⟨h1.symm, ?_⟩
    intro r c' ho
    rw [← h2] at ho
    cases ho

end PV
