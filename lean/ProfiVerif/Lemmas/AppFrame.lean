/-
Frame for `next_application` (C15 deepening): no state handler other than the application loop moves the
turn — except that the duplicate-address detection of `do_listen_token` calls `set_offline`, which
resets the station (`*self = Self::new(..)`) and with it the turn to application 0.
-/
import ProfiVerif.Lemmas.AppOrder

namespace PV

/-- The turn is kept. -/
def Keep (c c' : Ctx) : Prop := c'.s.nextApp = c.s.nextApp

/-- The turn is kept, or (the station went offline on a duplicate-address detection and) the turn is back
at application 0. -/
def KeepOrReset (c c' : Ctx) : Prop :=
  c'.s.nextApp = c.s.nextApp ∨ c'.s.nextApp = 0

theorem setOffline_next (s : Station) : s.setOffline.nextApp = 0 := rfl

theorem handleTelegram_next (c c' : Ctx) (now : Int) (t : Telegram) (l : Bool) (h : handleTelegram c now t l = .ok c') :
    Keep c c' := by
  unfold handleTelegram at h
  unfold Keep
  cases hst : c.s.st <;> rw [hst] at h <;> simp only at h <;> try (cases h; done)
  · cases h; rfl
  · cases t with
    | sc => cases h; rfl
    | data hd pdu =>
      simp only at h
      split at h
      · split at h <;> cases h <;> rfl
      · cases h; rfl
    | token da sa =>
      simp only at h
      split at h
      · split at h
        · cases h; rfl
        · simp only [tr, toListenToken, upd] at h
          cases h; rfl
      · split at h
        · cases h; rfl
        · split at h
          · simp only [tr, toUseToken, upd] at h
            cases h; rfl
          · split at h
            · simp only [tr, toUseToken, upd] at h
              cases h; rfl
            · cases h; rfl

theorem foldIdle_next (now : Int) : ∀ (calls : List (Telegram × Bool)) (c c' : Ctx),
    foldTelegrams (fun c t isLast => handleTelegram (upd c fun s => markRx s now) now t isLast) c calls = .ok c' →
    Keep c c' := by
  intro calls
  induction calls with
  | nil => intro c c' h; cases h; rfl
  | cons x rest ih =>
    intro c c' h
    obtain ⟨t, l⟩ := x
    simp only [foldTelegrams] at h
    obtain ⟨c1, h1, h2⟩ := bind_ok_inv h
    have e1 := handleTelegram_next _ c1 now t l h1
    have e2 := ih c1 c' h2
    unfold Keep at *
    rw [e2, e1]; simp [upd, markRx_nextApp]

theorem doClaimToken_next : ∀ (fuel : Nat) (c c' : Ctx) (now : Int) (step : ClaimStep), c.s.st = .claimToken step →
    doClaimToken c now fuel = .ok c' → Keep c c' := by
  intro fuel
  induction fuel with
  | zero => intro c c' now step _ h; simp [doClaimToken] at h
  | succ fuel ih =>
    intro c c' now step hst h
    unfold doClaimToken at h
    rw [hst] at h
    simp only at h
    unfold Keep
    have tok : ∀ nxt : ClaimStep, (if (waitSyncPause c.s now).2 = true then Res.ok { c with s := (waitSyncPause c.s now).1 } else
          (transmit { c with s := (waitSyncPause c.s now).1 } now
            (sendToken (UInt8.ofNat (waitSyncPause c.s now).1.p.address) (UInt8.ofNat (waitSyncPause c.s now).1.p.address))).bind fun c =>
          .ok (upd c fun s => { s with ring := s.ring.claimToken, st := .claimToken nxt, gap := .doPoll s.p.address })) = .ok c' →
        c'.s.nextApp = c.s.nextApp := by
      intro nxt hh
      split at hh
      · cases hh; exact ws_nextApp c.s now
      · obtain ⟨c2, ht, hh⟩ := bind_ok_inv hh
        have := transmit_inv ht
        subst this
        simp only [upd] at hh
        cases hh
        simp [markTx, ws_nextApp]
    cases step with
    | firstToken => exact tok .secondToken (by simpa using h)
    | secondToken => exact tok .scan (by simpa using h)
    | scan =>
      simp only at h
      split at h
      · cases h; exact ws_nextApp c.s now
      · split at h
        · obtain ⟨s', hs', hc'⟩ := tr_inv h
          have := toPassToken_inv hs'
          subst this; subst hc'
          simp [ws_nextApp]
        · split at h
          · cases h
          · split at h
            · cases h
            · rename_i c2 addr htg
              rcases transmitGapPoll_eff _ _ _ _ htg with ⟨h1, h2⟩ | ⟨b, a, h1, h2⟩
              · cases h2
              · subst h1
                cases h
                simp [upd, markTx, ws_nextApp]
            · rename_i c2 htg
              rcases transmitGapPoll_eff _ _ _ _ htg with ⟨h1, h2⟩ | ⟨b, a, h1, h2⟩
              · subst h1
                cases h
                simp [upd, ws_nextApp]
              · cases h2
    | scanAwait a =>
      simp only at h
      split at h
      · cases h
      · rename_i c1 hg
        obtain ⟨-, -, -, hn, -⟩ := awaitGap_eff _ _ _ _ _ hg
        cases h; exact hn
      · rename_i c1 hg
        obtain ⟨-, -, -, hn, -⟩ := awaitGap_eff _ _ _ _ _ hg
        cases h; simpa [upd] using hn
      · rename_i c1 hg
        obtain ⟨-, -, -, hn, -⟩ := awaitGap_eff _ _ _ _ _ hg
        have := ih (upd c1 fun s => { s with st := .claimToken .scan }) c' now .scan (by simp [upd]) h
        unfold Keep at this
        rw [this]; simpa [upd] using hn
      · rename_i c1 hg
        obtain ⟨-, -, -, hn, -⟩ := awaitGap_eff _ _ _ _ _ hg
        obtain ⟨s', hs', hc'⟩ := tr_inv h
        have := toActiveIdle_inv hs'
        subst this; subst hc'
        simpa using hn

theorem handleLostToken_next (c c1 : Ctx) (now : Int) (o : Option Res) (h : handleLostToken c now = (c1, o)) :
    c1 = { c with s := (getOrInsertLast c.s now).1 } ∧ (∀ r c', o = some r → r = .ok c' → Keep c c') := by
  unfold handleLostToken at h
  simp only at h
  split at h
  · split at h
    · simp only [Prod.mk.injEq] at h
      obtain ⟨h1, h2⟩ := h
      refine ⟨h1.symm, ?_⟩
      intro r c' ho hr
      rw [← h2] at ho
      cases ho
      cases hr
    · rename_i s'' hs''
      simp only [Prod.mk.injEq] at h
      obtain ⟨h1, h2⟩ := h
      refine ⟨h1.symm, ?_⟩
      intro r c' ho hr
      rw [← h2] at ho
      cases ho
      have := toClaimToken_inv hs''
      subst this
      have := doClaimToken_next 2 _ c' now .firstToken rfl hr
      unfold Keep at *
      rw [this]; simp [gol_nextApp]
  · simp only [Prod.mk.injEq] at h
    obtain ⟨h1, h2⟩ := h
    refine ⟨h1.symm, ?_⟩
    intro r c' ho
    rw [← h2] at ho
    cases ho

theorem listenTelegramCore_next (c c' : Ctx) (t : Telegram) (l : Bool) (hst : ListenOrOffline c.s)
    (h : listenTelegramCore c t l = .ok c') : KeepOrReset c c' ∧ ListenOrOffline c'.s := by
  have hlo := (listenTelegramCore_eff c c' t l hst h).2.1
  refine ⟨?_, hlo⟩
  unfold listenTelegramCore at h
  rcases hst with ⟨hon, a, b, hs⟩ | ⟨hoff, hs⟩
  · rw [if_neg (by simp [hon]), hs] at h
    simp only at h
    split at h
    · split at h
      · cases h; exact .inl rfl
      · simp only [upd] at h
        have hf5 := setOffline_next c.s
        obtain ⟨s', hs'⟩ : ∃ s', c.s.setOffline = s' := ⟨_, rfl⟩
        rw [hs'] at h hf5
        cases h
        exact .inr hf5
    · cases t with
      | sc => cases h; exact .inl rfl
      | token da sa => cases h; exact .inl rfl
      | data hd pdu =>
        simp only at h
        split at h
        · split at h <;> cases h <;> exact .inl rfl
        · cases h; exact .inl rfl
  · rw [if_pos (by simp [hoff])] at h
    cases h
    exact .inl rfl

theorem foldListen_next (now : Int) : ∀ (calls : List (Telegram × Bool)) (c c' : Ctx), ListenOrOffline c.s →
    foldTelegrams (listenTelegram now) c calls = .ok c' → KeepOrReset c c' := by
  intro calls
  induction calls with
  | nil => intro c c' _ h; cases h; exact .inl rfl
  | cons x rest ih =>
    intro c c' hst h
    obtain ⟨t, l⟩ := x
    simp only [foldTelegrams] at h
    obtain ⟨c1, h1, h2⟩ := bind_ok_inv h
    unfold listenTelegram at h1
    obtain ⟨hk1, hl1⟩ := listenTelegramCore_next _ c1 t l (by simpa [upd, ListenOrOffline, markRx_online, markRx_st] using hst) h1
    have hk2 := ih c1 c' hl1 h2
    unfold KeepOrReset at *
    rcases hk2 with e2 | e2
    · rcases hk1 with e1 | e1
      · left; rw [e2, e1]; simp [upd, markRx_nextApp]
      · right; rw [e2]; exact e1
    · right; exact e2

theorem doListenToken_next (c c' : Ctx) (now : Int) (sr : Option Nat) (coll : Nat) (hon : c.s.online = true)
    (hst : c.s.st = .listenToken sr coll) (h : doListenToken c now = .ok c') : KeepOrReset c c' := by
  unfold doListenToken at h
  rcases hl : handleLostToken c now with ⟨c1, o⟩
  rw [hl, hst] at h
  simp only at h
  cases o with
  | some r =>
    simp only at h
    obtain ⟨-, hcl⟩ := handleLostToken_next _ _ _ _ hl
    exact .inl (hcl r c' rfl h)
  | none =>
    simp only at h
    obtain ⟨hc1, -⟩ := handleLostToken_next _ _ _ _ hl
    subst hc1
    simp only at h
    cases sr with
    | some src =>
      simp only [gol_st, hst] at h
      split at h
      · cases h; exact .inl (by simp [ws_nextApp, gol_nextApp])
      · obtain ⟨c2, he, h⟩ := bind_ok_inv h
        obtain ⟨b, hb⟩ := encodeOrPanic_inv he
        subst hb
        split at h
        · obtain ⟨s', hs', hc'⟩ := tr_inv h
          have := toActiveIdle_inv hs'
          subst this; subst hc'
          exact .inl (by simp [markTx, ws_nextApp, gol_nextApp])
        · cases h
          exact .inl (by simp [upd, markTx, ws_nextApp, gol_nextApp])
    | none =>
      rcases hrx : receiveAll c.rx with ⟨rx', calls, ret⟩ | _ | _ <;> rw [hrx] at h <;> simp only [gol_st, hst] at h
      · have := foldListen_next now calls _ c' (.inl ⟨by simpa [gol_online] using hon, _, _, by simpa [gol_st] using hst⟩) h
        unfold KeepOrReset at *
        simpa [gol_nextApp] using this
      · cases h
      · cases h

theorem doActiveIdle_next (c c' : Ctx) (now : Int) (sr np : Option Nat) (coll : Nat)
    (hst : c.s.st = .activeIdle sr np coll) (h : doActiveIdle c now = .ok c') : Keep c c' := by
  unfold doActiveIdle at h
  rcases hl : handleLostToken c now with ⟨c1, o⟩
  rw [hl, hst] at h
  simp only at h
  cases o with
  | some r =>
    simp only at h
    obtain ⟨-, hcl⟩ := handleLostToken_next _ _ _ _ hl
    exact hcl r c' rfl h
  | none =>
    simp only at h
    obtain ⟨hc1, -⟩ := handleLostToken_next _ _ _ _ hl
    subst hc1
    simp only at h
    unfold Keep
    cases sr with
    | some src =>
      simp only [gol_st, hst] at h
      split at h
      · cases h; simp [ws_nextApp, gol_nextApp]
      · obtain ⟨c2, he, h⟩ := bind_ok_inv h
        obtain ⟨b, hb⟩ := encodeOrPanic_inv he
        subst hb
        simp only [upd] at h
        cases h
        simp [markTx, ws_nextApp, gol_nextApp]
    | none =>
      rcases hrx : receiveAll c.rx with ⟨rx', calls, ret⟩ | _ | _ <;> rw [hrx] at h <;> simp only [gol_st, hst] at h
      · have := foldIdle_next now calls _ c' h
        unfold Keep at this
        simpa [gol_nextApp] using this
      · cases h
      · cases h

theorem doCheckTokenPass_next (c c' : Ctx) (now : Int) (att : Attempt)
    (hst : c.s.st = .checkTokenPass att) (h : doCheckTokenPass c now = .ok c') : Keep c c' := by
  unfold doCheckTokenPass at h
  rw [hst] at h
  simp only at h
  unfold Keep
  rcases ite_inv h with ⟨hex, h⟩ | ⟨hex, h⟩
  · have pass : ∀ (s0 : Station) (att' : Attempt), s0.nextApp = c.s.nextApp →
        s0.st = .passToken false att' → doPassToken { c with s := s0 } now = .ok c' → c'.s.nextApp = c.s.nextApp := by
      intro s0 att' e1 e4 hp
      have := doPassToken_next _ c' now false att' e4 hp
      rw [this]; exact e1
    cases att with
    | first =>
      simp only [tr, toPassToken, checkSlot_fst, gol_st, hst, Res.bind] at h
      exact pass _ .second (by simp [gol_nextApp]) rfl h
    | second =>
      simp only [tr, toPassToken, checkSlot_fst, gol_st, hst, Res.bind] at h
      exact pass _ .third (by simp [gol_nextApp]) rfl h
    | third =>
      simp only [checkSlot_fst, gol_ring] at h
      rcases hrm : c.s.ring.removeStation c.s.ring.ns with _ | r0
      · rw [hrm] at h; cases h
      · rw [hrm] at h
        simp only [tr, toPassToken, upd, checkSlot_fst, gol_st, hst, Res.bind] at h
        exact pass _ .first (by simp [gol_nextApp]) rfl h
  · rcases hrx : receiveAll c.rx with ⟨rx', calls, ret⟩ | _ | _ <;> rw [hrx] at h <;> simp only at h
    · cases calls with
      | nil => cases h; simp [cs_nextApp]
      | cons x rest =>
        obtain ⟨t, l⟩ := x
        simp only [tr, toActiveIdle, markRx_st, checkSlot_fst, gol_st, hst, Res.bind] at h
        have h2 : foldTelegrams (fun c t isLast => handleTelegram (upd c fun s => markRx s now) now t isLast)
            { c with rx := rx', s := { (getOrInsertLast c.s now).1 with st := .activeIdle none none 0 } } ((t, l) :: rest) = .ok c' := by
          simp only [foldTelegrams, upd]
          exact h
        have := foldIdle_next now _ _ c' h2
        unfold Keep at this
        simpa [gol_nextApp] using this
    · cases h
    · cases h

theorem doAwaitStatusResponse_next (c c' : Ctx) (now : Int) (a : Nat) (hst : c.s.st = .awaitStatus a)
    (h : doAwaitStatusResponse c now = .ok c') : Keep c c' := by
  unfold doAwaitStatusResponse at h
  rw [hst] at h
  simp only at h
  unfold Keep
  rcases hg : awaitGapPollResponse c now a with ⟨r, resp⟩
  rw [hg] at h
  cases r with
  | panic site => cases h
  | ok c1 =>
    obtain ⟨-, -, -, hn, -⟩ := awaitGap_eff _ _ _ _ _ hg
    cases resp with
    | waitingForBus => cases h; exact hn
    | responded =>
      simp only at h
      obtain ⟨s', hs', hc'⟩ := tr_inv h
      have := toPassToken_inv hs'
      subst this; subst hc'
      simpa using hn
    | noResponse =>
      simp only at h
      obtain ⟨c2, ht, h⟩ := bind_ok_inv h
      obtain ⟨s', hs', hc'⟩ := tr_inv ht
      have := toPassToken_inv hs'
      subst this; subst hc'
      have := doPassToken_next _ c' now false .first rfl h
      rw [this]; simpa using hn
    | unexpected =>
      simp only at h
      obtain ⟨s', hs', hc'⟩ := tr_inv h
      have := toActiveIdle_inv hs'
      subst this; subst hc'
      simpa using hn

/-! ## One whole poll, any start state -/

theorem wake_holding (s : Station) (h : AppHolding s.wake) : AppHolding s := by
  rcases wake_cases s with hw | ⟨hw, -⟩
  · rw [hw] at h; exact h
  · rw [hw] at h
    rcases h with ⟨d, fcd, h⟩ | ⟨a, d, h⟩ <;> cases h

/-- A poll that does not start inside a token visit keeps the turn — or resets it to application 0
(duplicate-address detection in `ListenToken` → `set_offline`). -/
theorem poll_keep (s : Station) (apps : Apps) (now : Int) (phy : Bool) (rx : Bytes) (c' : Ctx)
    (hh : ¬ AppHolding s) (h : s.poll apps now phy rx = .ok c') :
    c'.s.nextApp = s.nextApp ∨ c'.s.nextApp = 0 := by
  unfold Station.poll pollInner at h
  cases hon : s.online with
  | false =>
    simp only [hon] at h
    cases hst : s.st <;> simp only [hst] at h <;> cases h
    exact .inl rfl
  | true =>
    simp only [hon] at h
    obtain ⟨c1, hs, h⟩ := bind_ok_inv h
    have := pollStart_inv _ _ hs
    subst this
    rcases ite_inv h with ⟨_, h⟩ | ⟨_, h⟩
    · cases h; exact .inl (by simp [upd, markBA_nextApp, wake_nextApp])
    · have hh' : ¬ AppHolding s.wake := fun hw => hh (wake_holding s hw)
      have hon1 : (checkBusActivity s.wake now rx.length).online = true := by rw [checkBA_online, wake_online]; exact hon
      have hn1 : (checkBusActivity s.wake now rx.length).nextApp = s.nextApp := by rw [checkBA_nextApp, wake_nextApp]
      unfold dispatch at h
      simp only [upd] at h
      cases hst : s.wake.st with
      | offline => rw [checkBA_st, hst] at h; cases h
      | passiveIdle => rw [checkBA_st, hst] at h; cases h
      | useToken d fcd => exact absurd (.inl ⟨d, fcd, hst⟩) hh'
      | awaitData a d => exact absurd (.inr ⟨a, d, hst⟩) hh'
      | listenToken sr coll =>
        have hst1 : (checkBusActivity s.wake now rx.length).st = .listenToken sr coll := by rw [checkBA_st]; exact hst
        rw [hst1] at h
        have := doListenToken_next _ c' now sr coll hon1 hst1 h
        unfold KeepOrReset at this
        rw [hn1] at this; exact this
      | activeIdle sr np coll =>
        have hst1 : (checkBusActivity s.wake now rx.length).st = .activeIdle sr np coll := by rw [checkBA_st]; exact hst
        rw [hst1] at h
        have := doActiveIdle_next _ c' now sr np coll hst1 h
        unfold Keep at this
        rw [hn1] at this; exact .inl this
      | claimToken step =>
        have hst1 : (checkBusActivity s.wake now rx.length).st = .claimToken step := by rw [checkBA_st]; exact hst
        rw [hst1] at h
        have := doClaimToken_next 2 _ c' now step hst1 h
        unfold Keep at this
        rw [hn1] at this; exact .inl this
      | passToken g att =>
        have hst1 : (checkBusActivity s.wake now rx.length).st = .passToken g att := by rw [checkBA_st]; exact hst
        rw [hst1] at h
        have := doPassToken_next _ c' now g att hst1 h
        rw [hn1] at this; exact .inl this
      | checkTokenPass att =>
        have hst1 : (checkBusActivity s.wake now rx.length).st = .checkTokenPass att := by rw [checkBA_st]; exact hst
        rw [hst1] at h
        have := doCheckTokenPass_next _ c' now att hst1 h
        unfold Keep at this
        rw [hn1] at this; exact .inl this
      | awaitStatus a =>
        have hst1 : (checkBusActivity s.wake now rx.length).st = .awaitStatus a := by rw [checkBA_st]; exact hst
        rw [hst1] at h
        have := doAwaitStatusResponse_next _ c' now a hst1 h
        unfold Keep at this
        rw [hn1] at this; exact .inl this

/-! ## The turn along whole histories -/

/-- `walk` with resets: every callback goes to the application whose turn it is — or to application 0,
the turn having been reset (station reset by `set_offline`) since the previous callback. -/
def walkR (n : Nat) : Nat → List AppCall → Nat → Prop
  | j, [], k => k = j ∨ k = 0
  | j, r :: rest, k => (r.app = j ∨ r.app = 0) ∧ walkR n (nextIdx n r) rest k

theorem walkR_of_walk (n : Nat) : ∀ (l : List AppCall) (j k : Nat), walk n j l = some k → walkR n j l k := by
  intro l
  induction l with
  | nil => intro j k h; simp only [walk, Option.some.injEq] at h; exact .inl h.symm
  | cons r rest ih =>
    intro j k h
    simp only [walk] at h
    by_cases hr : r.app = j
    · rw [if_pos hr] at h; exact ⟨.inl hr, ih _ k h⟩
    · rw [if_neg hr] at h; cases h

theorem walkR_start (n : Nat) (l : List AppCall) (j k m : Nat) (hk : k = j ∨ k = 0) (h : walkR n k l m) : walkR n j l m := by
  cases l with
  | nil =>
    simp only [walkR] at h ⊢
    rcases h with h | h
    · rcases hk with hk | hk
      · exact .inl (h.trans hk)
      · exact .inr (h.trans hk)
    · exact .inr h
  | cons r rest =>
    simp only [walkR] at h ⊢
    refine ⟨?_, h.2⟩
    rcases h.1 with h1 | h1
    · rcases hk with hk | hk
      · exact .inl (h1.trans hk)
      · exact .inr (h1.trans hk)
    · exact .inr h1

theorem walkR_append (n : Nat) : ∀ (l1 l2 : List AppCall) (j k m : Nat), walkR n j l1 k → walkR n k l2 m →
    walkR n j (l1 ++ l2) m := by
  intro l1
  induction l1 with
  | nil => intro l2 j k m h1 h2; exact walkR_start n l2 j k m h1 h2
  | cons r rest ih =>
    intro l2 j k m h1 h2
    simp only [walkR, List.cons_append] at h1 ⊢
    exact ⟨h1.1, ih l2 _ k m h1.2 h2⟩

/-- Reading of `walkR`. -/
theorem walkR_adjacent (n : Nat) : ∀ (log : List AppCall) (j k : Nat), walkR n j log k →
    (∀ r post, log = r :: post → r.app = j ∨ r.app = 0) ∧
    (∀ pre r1 r2 post, log = pre ++ r1 :: r2 :: post → r2.app = nextIdx n r1 ∨ r2.app = 0) := by
  intro log
  induction log with
  | nil =>
    intro j k _
    exact ⟨(by intro r post h; cases h), (by intro pre r1 r2 post h; simp at h)⟩
  | cons x rest ih =>
    intro j k h
    simp only [walkR] at h
    obtain ⟨ih1, ih2⟩ := ih _ k h.2
    refine ⟨(by intro r post he; cases he; exact h.1), ?_⟩
    intro pre r1 r2 post he
    cases pre with
    | nil =>
      simp only [List.nil_append, List.cons.injEq] at he
      obtain ⟨e1, e2⟩ := he
      subst e1
      exact ih1 r2 post e2
    | cons y ys =>
      simp only [List.cons_append, List.cons.injEq] at he
      exact ih2 ys r1 r2 post he.2

end PV

namespace PV.C15
open PV PV.C05

/-- Any API call, any state: the callbacks follow the turn, which afterwards is where they left it or
back at application 0. -/
theorem turn_step (w w' : World) (a : ApiCall) (l : List AppCall) (hs : w.stepLog a = some (w', l)) :
    walkR w.apps.length w.s.nextApp l w'.s.nextApp ∧ w'.apps.length = w.apps.length := by
  cases a with
  | setOnline => cases hs; exact ⟨.inl rfl, rfl⟩
  | setOffline => cases hs; exact ⟨.inr (setOffline_next w.s), rfl⟩
  | poll now phy arrived =>
    simp only [World.stepLog] at hs
    split at hs
    · rename_i c hc
      cases hs
      refine ⟨?_, (poll_frame _ _ _ _ _ _ hc).2⟩
      by_cases hh : AppHolding w.s
      · exact walkR_of_walk _ _ _ _ (poll_walk _ _ _ _ _ _ hh hc).1
      · have hk := poll_keep _ _ _ _ _ _ hh hc
        rcases poll_calls _ _ _ _ _ _ hc with ⟨h0, -⟩ | ⟨-, hu, -, -⟩ | ⟨-, x, d, hst, -⟩
        · show walkR _ _ c.calls _
          rw [h0]; exact hk
        · exact absurd (.inl hu) hh
        · exact absurd (.inr ⟨x, d, hst⟩) hh
    · cases hs

theorem turn_run : ∀ (calls : List ApiCall) (w w' : World) (log : List AppCall), w.runLog calls = some (w', log) →
    walkR w.apps.length w.s.nextApp log w'.s.nextApp ∧ w'.apps.length = w.apps.length := by
  intro calls
  induction calls with
  | nil => intro w w' log h; cases h; exact ⟨.inl rfl, rfl⟩
  | cons a rest ih =>
    intro w w' log h
    simp only [World.runLog] at h
    split at h
    · rename_i w1 l1 hs1
      split at h
      · rename_i w2 l2 hr2
        cases h
        obtain ⟨hw1, hl1⟩ := turn_step w w1 a l1 hs1
        obtain ⟨hw2, hl2⟩ := ih w1 w' l2 hr2
        rw [hl1] at hw2
        exact ⟨walkR_append _ _ _ _ _ _ hw1 hw2, hl2.trans hl1⟩
      · cases h
    · cases h

end PV.C15
