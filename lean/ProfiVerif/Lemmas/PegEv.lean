/-
Fuel-free reading of the PEG interpreter, for arbitrary grammars:

* `monoAt`: an answer other than `fuel` does not change when more fuel is given;
* `Ev a e st r` ("`e` evaluates to `r` from `st`"): `eval f a e st = r` for every sufficiently large
  `f`; likewise `Lp` (loop) and `Sk` (skip); a calculus of composition lemmas, one per construct, in
  which the proofs about concrete texts (`Lemmas/PegText*.lean`) are written.
-/
import ProfiVerif.Model.Gsd.Peg

namespace PV.Gsd.Peg

structure MonoAt (k : Nat) : Prop where
  eval : ∀ a e st r, eval k a e st = r → r ≠ .fuel → ∀ g, k ≤ g → eval g a e st = r
  loop : ∀ a e st r, loop k a e st = r → r ≠ .fuel → ∀ g, k ≤ g → loop g a e st = r
  skip : ∀ a st r, skip k a st = r → r ≠ .fuel → ∀ g, k ≤ g → skip g a st = r

theorem monoAt_zero : MonoAt 0 where
  eval := by intro a e st r h hr; simp only [Peg.eval] at h; exact (hr h.symm).elim
  loop := by intro a e st r h hr; simp only [Peg.loop] at h; exact (hr h.symm).elim
  skip := by intro a st r h hr; simp only [Peg.skip] at h; exact (hr h.symm).elim

theorem monoAt_succ (k : Nat) (ih : MonoAt k) : MonoAt (k + 1) where
  eval := by
    intro a e st r h hr g hg
    obtain ⟨g', rfl⟩ : ∃ g', g = g' + 1 := ⟨g - 1, by omega⟩
    have hg' : k ≤ g' := by omega
    cases e with
    | str l => simpa only [Peg.eval] using h
    | insens l => simpa only [Peg.eval] using h
    | range lo hi => simpa only [Peg.eval] using h
    | any => simpa only [Peg.eval] using h
    | soi => simpa only [Peg.eval] using h
    | newline => simpa only [Peg.eval] using h
    | call r' =>
      simp only [Peg.eval] at h ⊢
      generalize (ruleDef r').fst = ty at h ⊢
      cases ty with
      | silent => exact ih.eval _ _ _ _ h hr g' hg'
      | normal =>
        simp only at h ⊢
        cases hb : Peg.eval k (a || RuleTy.normal == RuleTy.atomic) (ruleDef r').snd { rest := st.rest, pos := st.pos, out := [] } with
        | ok s1 => rw [hb] at h; rw [ih.eval _ _ _ _ hb (by simp) g' hg']; exact h
        | fail => rw [hb] at h; rw [ih.eval _ _ _ _ hb (by simp) g' hg']; exact h
        | fuel => rw [hb] at h; exact (hr h.symm).elim
      | atomic =>
        simp only at h ⊢
        cases hb : Peg.eval k (a || RuleTy.atomic == RuleTy.atomic) (ruleDef r').snd { rest := st.rest, pos := st.pos, out := [] } with
        | ok s1 => rw [hb] at h; rw [ih.eval _ _ _ _ hb (by simp) g' hg']; exact h
        | fail => rw [hb] at h; rw [ih.eval _ _ _ _ hb (by simp) g' hg']; exact h
        | fuel => rw [hb] at h; exact (hr h.symm).elim
    | seq x y =>
      simp only [Peg.eval] at h ⊢
      cases hx : Peg.eval k a x st with
      | ok s1 =>
        rw [hx] at h; rw [ih.eval _ _ _ _ hx (by simp) g' hg']
        simp only at h ⊢
        cases hs : Peg.skip k a s1 with
        | ok s2 =>
          rw [hs] at h; rw [ih.skip _ _ _ hs (by simp) g' hg']
          exact ih.eval _ _ _ _ h hr g' hg'
        | fail => rw [hs] at h; rw [ih.skip _ _ _ hs (by simp) g' hg']; exact h
        | fuel => rw [hs] at h; exact (hr h.symm).elim
      | fail => rw [hx] at h; rw [ih.eval _ _ _ _ hx (by simp) g' hg']; exact h
      | fuel => rw [hx] at h; exact (hr h.symm).elim
    | choice x y =>
      simp only [Peg.eval] at h ⊢
      cases hx : Peg.eval k a x st with
      | ok s1 => rw [hx] at h; rw [ih.eval _ _ _ _ hx (by simp) g' hg']; exact h
      | fail =>
        rw [hx] at h; rw [ih.eval _ _ _ _ hx (by simp) g' hg']
        exact ih.eval _ _ _ _ h hr g' hg'
      | fuel => rw [hx] at h; exact (hr h.symm).elim
    | opt x =>
      simp only [Peg.eval] at h ⊢
      cases hx : Peg.eval k a x st with
      | ok s1 => rw [hx] at h; rw [ih.eval _ _ _ _ hx (by simp) g' hg']; exact h
      | fail => rw [hx] at h; rw [ih.eval _ _ _ _ hx (by simp) g' hg']; exact h
      | fuel => rw [hx] at h; exact (hr h.symm).elim
    | star x =>
      simp only [Peg.eval] at h ⊢
      cases hx : Peg.eval k a x st with
      | ok s1 =>
        rw [hx] at h; rw [ih.eval _ _ _ _ hx (by simp) g' hg']
        exact ih.loop _ _ _ _ h hr g' hg'
      | fail => rw [hx] at h; rw [ih.eval _ _ _ _ hx (by simp) g' hg']; exact h
      | fuel => rw [hx] at h; exact (hr h.symm).elim
    | plus x =>
      simp only [Peg.eval] at h ⊢
      cases hx : Peg.eval k a x st with
      | ok s1 =>
        rw [hx] at h; rw [ih.eval _ _ _ _ hx (by simp) g' hg']
        simp only at h ⊢
        cases hs : Peg.skip k a s1 with
        | ok s2 =>
          rw [hs] at h; rw [ih.skip _ _ _ hs (by simp) g' hg']
          simp only at h ⊢
          cases hx2 : Peg.eval k a x s2 with
          | ok s3 =>
            rw [hx2] at h; rw [ih.eval _ _ _ _ hx2 (by simp) g' hg']
            exact ih.loop _ _ _ _ h hr g' hg'
          | fail => rw [hx2] at h; rw [ih.eval _ _ _ _ hx2 (by simp) g' hg']; exact h
          | fuel => rw [hx2] at h; exact (hr h.symm).elim
        | fail => rw [hs] at h; rw [ih.skip _ _ _ hs (by simp) g' hg']; exact h
        | fuel => rw [hs] at h; exact (hr h.symm).elim
      | fail => rw [hx] at h; rw [ih.eval _ _ _ _ hx (by simp) g' hg']; exact h
      | fuel => rw [hx] at h; exact (hr h.symm).elim
    | npred x =>
      simp only [Peg.eval] at h ⊢
      cases hx : Peg.eval k a x st with
      | ok s1 => rw [hx] at h; rw [ih.eval _ _ _ _ hx (by simp) g' hg']; exact h
      | fail => rw [hx] at h; rw [ih.eval _ _ _ _ hx (by simp) g' hg']; exact h
      | fuel => rw [hx] at h; exact (hr h.symm).elim
    | ppred x =>
      simp only [Peg.eval] at h ⊢
      cases hx : Peg.eval k a x st with
      | ok s1 => rw [hx] at h; rw [ih.eval _ _ _ _ hx (by simp) g' hg']; exact h
      | fail => rw [hx] at h; rw [ih.eval _ _ _ _ hx (by simp) g' hg']; exact h
      | fuel => rw [hx] at h; exact (hr h.symm).elim
  loop := by
    intro a e st r h hr g hg
    obtain ⟨g', rfl⟩ : ∃ g', g = g' + 1 := ⟨g - 1, by omega⟩
    have hg' : k ≤ g' := by omega
    simp only [Peg.loop] at h ⊢
    cases hs : Peg.skip k a st with
    | ok s1 =>
      rw [hs] at h; rw [ih.skip _ _ _ hs (by simp) g' hg']
      simp only at h ⊢
      cases hx : Peg.eval k a e s1 with
      | ok s2 =>
        rw [hx] at h; rw [ih.eval _ _ _ _ hx (by simp) g' hg']
        exact ih.loop _ _ _ _ h hr g' hg'
      | fail => rw [hx] at h; rw [ih.eval _ _ _ _ hx (by simp) g' hg']; exact h
      | fuel => rw [hx] at h; exact (hr h.symm).elim
    | fail => rw [hs] at h; rw [ih.skip _ _ _ hs (by simp) g' hg']; exact h
    | fuel => rw [hs] at h; exact (hr h.symm).elim
  skip := by
    intro a st r h hr g hg
    obtain ⟨g', rfl⟩ : ∃ g', g = g' + 1 := ⟨g - 1, by omega⟩
    have hg' : k ≤ g' := by omega
    simp only [Peg.skip] at h ⊢
    split
    · next ha => simpa [ha] using h
    · next ha =>
      simp only [ha, if_false] at h
      exact ih.eval _ _ _ _ h hr g' hg'

theorem monoAt (k : Nat) : MonoAt k := by
  induction k with
  | zero => exact monoAt_zero
  | succ n ih => exact monoAt_succ n ih

/-- More fuel does not change an answer. -/
theorem eval_mono {k g : Nat} {a : Bool} {e : Expr} {st : PS} {r : R}
    (h : eval k a e st = r) (hr : r ≠ .fuel) (hg : k ≤ g) : eval g a e st = r :=
  (monoAt k).eval a e st r h hr g hg

/-! ### `Ev`, `Lp`, `Sk` -/

def Ev (a : Bool) (e : Expr) (st : PS) (r : R) : Prop := ∃ f0, ∀ f, f0 ≤ f → eval f a e st = r
def Lp (a : Bool) (e : Expr) (st : PS) (r : R) : Prop := ∃ f0, ∀ f, f0 ≤ f → loop f a e st = r
def Sk (a : Bool) (st : PS) (r : R) : Prop := ∃ f0, ∀ f, f0 ≤ f → skip f a st = r

/-- If `e` evaluates to `r ≠ fuel` and some fuel value does not run out, that value gives `r`. -/
theorem Ev.at {a : Bool} {e : Expr} {st : PS} {r : R} (h : Ev a e st r) {f : Nat}
    (hf : eval f a e st ≠ .fuel) : eval f a e st = r := by
  obtain ⟨f0, h0⟩ := h
  have h1 := eval_mono (k := f) (g := max f f0) rfl hf (Nat.le_max_left ..)
  rw [← h1, h0 _ (Nat.le_max_right ..)]

/-! ### The calculus -/

section calculus
variable {a : Bool} {x y : Expr} {st s1 s2 s3 : PS} {r : R}

theorem Ev.of_step (h : ∀ g, eval (g + 1) a x st = r) : Ev a x st r :=
  ⟨1, fun f hf => by obtain ⟨g, rfl⟩ : ∃ g, f = g + 1 := ⟨f - 1, by omega⟩; exact h g⟩

theorem Ev.str_ok {l rest' : Str} (h : matchStr l st.rest = some rest') :
    Ev a (.str l) st (.ok { st with rest := rest', pos := st.pos + l.length }) :=
  .of_step fun g => by simp only [eval, h]

theorem Ev.str_fail {l : Str} (h : matchStr l st.rest = none) : Ev a (.str l) st .fail :=
  .of_step fun g => by simp only [eval, h]

theorem Ev.insens_ok {l rest' : Str} (h : matchInsens l st.rest = some rest') :
    Ev a (.insens l) st (.ok { st with rest := rest', pos := st.pos + l.length }) :=
  .of_step fun g => by simp only [eval, h]

theorem Ev.insens_fail {l : Str} (h : matchInsens l st.rest = none) : Ev a (.insens l) st .fail :=
  .of_step fun g => by simp only [eval, h]

theorem Ev.range_ok {lo hi ch : Char} {rest' : Str} (h : st.rest = ch :: rest')
    (hc : lo.val ≤ ch.val ∧ ch.val ≤ hi.val) :
    Ev a (.range lo hi) st (.ok { st with rest := rest', pos := st.pos + 1 }) :=
  .of_step fun g => by simp only [eval, h, hc, and_self, if_true]

theorem Ev.range_fail {lo hi : Char} (h : ∀ ch rest', st.rest = ch :: rest' → ¬(lo.val ≤ ch.val ∧ ch.val ≤ hi.val)) :
    Ev a (.range lo hi) st .fail :=
  .of_step fun g => by
    simp only [eval]
    split
    · next ch rest' hr => simp only [h ch rest' hr, if_false]
    · rfl

theorem Ev.any_ok {ch : Char} {rest' : Str} (h : st.rest = ch :: rest') :
    Ev a .any st (.ok { st with rest := rest', pos := st.pos + 1 }) :=
  .of_step fun g => by simp only [eval, h]

theorem Ev.any_fail (h : st.rest = []) : Ev a .any st .fail :=
  .of_step fun g => by simp only [eval, h]

theorem Ev.soi_ok (h : st.pos = 0) : Ev a .soi st (.ok st) :=
  .of_step fun g => by simp only [eval, h, if_true]

theorem Ev.newline_lf {rest' : Str} (h : st.rest = '\n' :: rest') :
    Ev a .newline st (.ok { st with rest := rest', pos := st.pos + 1 }) :=
  .of_step fun g => by simp only [eval, h]

theorem Ev.newline_fail (h : ∀ ch rest', st.rest = ch :: rest' → ch ≠ '\n' ∧ ch ≠ '\r') : Ev a .newline st .fail :=
  .of_step fun g => by
    simp only [eval]
    split
    · next rest' hr => exact ((h _ _ hr).1 rfl).elim
    · next rest' hr => exact ((h _ _ hr).2 rfl).elim
    · next rest' _ hr => exact ((h _ _ hr).2 rfl).elim
    · rfl

theorem Ev.seq (h1 : Ev a x st (.ok s1)) (h2 : Sk a s1 (.ok s2)) (h3 : Ev a y s2 r) : Ev a (.seq x y) st r := by
  obtain ⟨f1, h1⟩ := h1; obtain ⟨f2, h2⟩ := h2; obtain ⟨f3, h3⟩ := h3
  refine ⟨f1 + f2 + f3 + 1, fun f hf => ?_⟩
  obtain ⟨g, rfl⟩ : ∃ g, f = g + 1 := ⟨f - 1, by omega⟩
  simp only [eval, h1 g (by omega), h2 g (by omega), h3 g (by omega)]

theorem Ev.seq_fail (h1 : Ev a x st .fail) : Ev a (.seq x y) st .fail := by
  obtain ⟨f1, h1⟩ := h1
  refine ⟨f1 + 1, fun f hf => ?_⟩
  obtain ⟨g, rfl⟩ : ∃ g, f = g + 1 := ⟨f - 1, by omega⟩
  simp only [eval, h1 g (by omega)]

theorem Ev.choice_l (h1 : Ev a x st (.ok s1)) : Ev a (.choice x y) st (.ok s1) := by
  obtain ⟨f1, h1⟩ := h1
  refine ⟨f1 + 1, fun f hf => ?_⟩
  obtain ⟨g, rfl⟩ : ∃ g, f = g + 1 := ⟨f - 1, by omega⟩
  simp only [eval, h1 g (by omega)]

theorem Ev.choice_r (h1 : Ev a x st .fail) (h2 : Ev a y st r) : Ev a (.choice x y) st r := by
  obtain ⟨f1, h1⟩ := h1; obtain ⟨f2, h2⟩ := h2
  refine ⟨f1 + f2 + 1, fun f hf => ?_⟩
  obtain ⟨g, rfl⟩ : ∃ g, f = g + 1 := ⟨f - 1, by omega⟩
  simp only [eval, h1 g (by omega), h2 g (by omega)]

theorem Ev.opt_some (h1 : Ev a x st (.ok s1)) : Ev a (.opt x) st (.ok s1) := by
  obtain ⟨f1, h1⟩ := h1
  refine ⟨f1 + 1, fun f hf => ?_⟩
  obtain ⟨g, rfl⟩ : ∃ g, f = g + 1 := ⟨f - 1, by omega⟩
  simp only [eval, h1 g (by omega)]

theorem Ev.opt_none (h1 : Ev a x st .fail) : Ev a (.opt x) st (.ok st) := by
  obtain ⟨f1, h1⟩ := h1
  refine ⟨f1 + 1, fun f hf => ?_⟩
  obtain ⟨g, rfl⟩ : ∃ g, f = g + 1 := ⟨f - 1, by omega⟩
  simp only [eval, h1 g (by omega)]

theorem Ev.star_nil (h1 : Ev a x st .fail) : Ev a (.star x) st (.ok st) := by
  obtain ⟨f1, h1⟩ := h1
  refine ⟨f1 + 1, fun f hf => ?_⟩
  obtain ⟨g, rfl⟩ : ∃ g, f = g + 1 := ⟨f - 1, by omega⟩
  simp only [eval, h1 g (by omega)]

theorem Ev.star_cons (h1 : Ev a x st (.ok s1)) (h2 : Lp a x s1 r) : Ev a (.star x) st r := by
  obtain ⟨f1, h1⟩ := h1; obtain ⟨f2, h2⟩ := h2
  refine ⟨f1 + f2 + 1, fun f hf => ?_⟩
  obtain ⟨g, rfl⟩ : ∃ g, f = g + 1 := ⟨f - 1, by omega⟩
  simp only [eval, h1 g (by omega), h2 g (by omega)]

theorem Lp.stop (h1 : Sk a st (.ok s1)) (h2 : Ev a x s1 .fail) : Lp a x st (.ok st) := by
  obtain ⟨f1, h1⟩ := h1; obtain ⟨f2, h2⟩ := h2
  refine ⟨f1 + f2 + 1, fun f hf => ?_⟩
  obtain ⟨g, rfl⟩ : ∃ g, f = g + 1 := ⟨f - 1, by omega⟩
  simp only [loop, h1 g (by omega), h2 g (by omega)]

theorem Lp.step (h1 : Sk a st (.ok s1)) (h2 : Ev a x s1 (.ok s2)) (h3 : Lp a x s2 r) : Lp a x st r := by
  obtain ⟨f1, h1⟩ := h1; obtain ⟨f2, h2⟩ := h2; obtain ⟨f3, h3⟩ := h3
  refine ⟨f1 + f2 + f3 + 1, fun f hf => ?_⟩
  obtain ⟨g, rfl⟩ : ∃ g, f = g + 1 := ⟨f - 1, by omega⟩
  simp only [loop, h1 g (by omega), h2 g (by omega), h3 g (by omega)]

theorem Ev.plus_one (h1 : Ev a x st (.ok s1)) (h2 : Sk a s1 (.ok s2)) (h3 : Ev a x s2 .fail) :
    Ev a (.plus x) st (.ok s2) := by
  obtain ⟨f1, h1⟩ := h1; obtain ⟨f2, h2⟩ := h2; obtain ⟨f3, h3⟩ := h3
  refine ⟨f1 + f2 + f3 + 1, fun f hf => ?_⟩
  obtain ⟨g, rfl⟩ : ∃ g, f = g + 1 := ⟨f - 1, by omega⟩
  simp only [eval, h1 g (by omega), h2 g (by omega), h3 g (by omega)]

theorem Ev.plus_more (h1 : Ev a x st (.ok s1)) (h2 : Sk a s1 (.ok s2)) (h3 : Ev a x s2 (.ok s3)) (h4 : Lp a x s3 r) :
    Ev a (.plus x) st r := by
  obtain ⟨f1, h1⟩ := h1; obtain ⟨f2, h2⟩ := h2; obtain ⟨f3, h3⟩ := h3; obtain ⟨f4, h4⟩ := h4
  refine ⟨f1 + f2 + f3 + f4 + 1, fun f hf => ?_⟩
  obtain ⟨g, rfl⟩ : ∃ g, f = g + 1 := ⟨f - 1, by omega⟩
  simp only [eval, h1 g (by omega), h2 g (by omega), h3 g (by omega), h4 g (by omega)]

theorem Ev.plus_fail (h1 : Ev a x st .fail) : Ev a (.plus x) st .fail := by
  obtain ⟨f1, h1⟩ := h1
  refine ⟨f1 + 1, fun f hf => ?_⟩
  obtain ⟨g, rfl⟩ : ∃ g, f = g + 1 := ⟨f - 1, by omega⟩
  simp only [eval, h1 g (by omega)]

theorem Ev.npred_ok (h1 : Ev a x st .fail) : Ev a (.npred x) st (.ok st) := by
  obtain ⟨f1, h1⟩ := h1
  refine ⟨f1 + 1, fun f hf => ?_⟩
  obtain ⟨g, rfl⟩ : ∃ g, f = g + 1 := ⟨f - 1, by omega⟩
  simp only [eval, h1 g (by omega)]

theorem Ev.npred_fail (h1 : Ev a x st (.ok s1)) : Ev a (.npred x) st .fail := by
  obtain ⟨f1, h1⟩ := h1
  refine ⟨f1 + 1, fun f hf => ?_⟩
  obtain ⟨g, rfl⟩ : ∃ g, f = g + 1 := ⟨f - 1, by omega⟩
  simp only [eval, h1 g (by omega)]

theorem Ev.ppred_ok (h1 : Ev a x st (.ok s1)) : Ev a (.ppred x) st (.ok st) := by
  obtain ⟨f1, h1⟩ := h1
  refine ⟨f1 + 1, fun f hf => ?_⟩
  obtain ⟨g, rfl⟩ : ∃ g, f = g + 1 := ⟨f - 1, by omega⟩
  simp only [eval, h1 g (by omega)]

theorem Ev.ppred_fail (h1 : Ev a x st .fail) : Ev a (.ppred x) st .fail := by
  obtain ⟨f1, h1⟩ := h1
  refine ⟨f1 + 1, fun f hf => ?_⟩
  obtain ⟨g, rfl⟩ : ∃ g, f = g + 1 := ⟨f - 1, by omega⟩
  simp only [eval, h1 g (by omega)]

/-- Call of a silent rule: its body, in place. -/
theorem Ev.call_silent {q : Rule} (hs : (ruleDef q).1 = .silent) (h1 : Ev a (ruleDef q).2 st r) :
    Ev a (.call q) st r := by
  obtain ⟨f1, h1⟩ := h1
  refine ⟨f1 + 1, fun f hf => ?_⟩
  obtain ⟨g, rfl⟩ : ∃ g, f = g + 1 := ⟨f - 1, by omega⟩
  simp only [eval, hs, h1 g (by omega)]

/-- Call of a normal / atomic rule from a non-atomic context: one pair. -/
theorem Ev.call_node {q : Rule} {ty : RuleTy} (ht : (ruleDef q).1 = ty) (hs : ty ≠ .silent)
    (h1 : Ev (ty == .atomic) (ruleDef q).2 { st with out := [] } (.ok s1)) :
    Ev false (.call q) st
      (.ok { s1 with out := .node q (st.rest.take (s1.pos - st.pos)) s1.out.reverse :: st.out }) := by
  obtain ⟨f1, h1⟩ := h1
  refine ⟨f1 + 1, fun f hf => ?_⟩
  obtain ⟨g, rfl⟩ : ∃ g, f = g + 1 := ⟨f - 1, by omega⟩
  have := h1 g (by omega)
  cases ty with
  | silent => exact (hs rfl).elim
  | normal => simp only [eval, ht, Bool.false_or] at this ⊢; simp only [this]; rfl
  | atomic => simp only [eval, ht, Bool.false_or] at this ⊢; simp only [this]; rfl

/-- … inside an atomic context: no pair. -/
theorem Ev.call_atomic {q : Rule} (hs : (ruleDef q).1 ≠ .silent)
    (h1 : Ev true (ruleDef q).2 { st with out := [] } (.ok s1)) :
    Ev true (.call q) st (.ok { s1 with out := st.out }) := by
  obtain ⟨f1, h1⟩ := h1
  refine ⟨f1 + 1, fun f hf => ?_⟩
  obtain ⟨g, rfl⟩ : ∃ g, f = g + 1 := ⟨f - 1, by omega⟩
  have := h1 g (by omega)
  generalize hty : (ruleDef q).1 = ty at hs
  cases ty with
  | silent => exact (hs rfl).elim
  | normal => simp only [eval, hty, Bool.true_or] at this ⊢; simp only [this]; rfl
  | atomic => simp only [eval, hty, Bool.true_or] at this ⊢; simp only [this]; rfl

theorem Ev.call_fail {q : Rule} (hs : (ruleDef q).1 ≠ .silent)
    (h1 : Ev (a || (ruleDef q).1 == .atomic) (ruleDef q).2 { st with out := [] } .fail) :
    Ev a (.call q) st .fail := by
  obtain ⟨f1, h1⟩ := h1
  refine ⟨f1 + 1, fun f hf => ?_⟩
  obtain ⟨g, rfl⟩ : ∃ g, f = g + 1 := ⟨f - 1, by omega⟩
  have := h1 g (by omega)
  generalize hty : (ruleDef q).1 = ty at hs this
  cases ty with
  | silent => exact (hs rfl).elim
  | normal => simp only [eval, hty, this]
  | atomic => simp only [eval, hty, this]

theorem Sk.atomic : Sk true st (.ok st) :=
  ⟨1, fun f hf => by obtain ⟨g, rfl⟩ : ∃ g, f = g + 1 := ⟨f - 1, by omega⟩; simp only [skip, if_true]⟩

theorem Sk.of_ev (h1 : Ev true skipExpr st r) : Sk false st r := by
  obtain ⟨f1, h1⟩ := h1
  refine ⟨f1 + 1, fun f hf => ?_⟩
  obtain ⟨g, rfl⟩ : ∃ g, f = g + 1 := ⟨f - 1, by omega⟩
  simp only [skip, Bool.false_eq_true, if_false, h1 g (by omega)]

end calculus

end PV.Gsd.Peg
