/-
Helper lemmas for the station-level clauses of C12 (GAP maintenance, status replies): exact
step equations of the GAP-related handlers of `Model/Station.lean`.
Deliberately independent of `Lemmas/StationInv.lean` (which imports `Props/C12.lean`).
-/
import ProfiVerif.Model.Station
import ProfiVerif.Lemmas.Gap
import ProfiVerif.Lemmas.TokenRing

namespace PV

/-! ## `set_next_station(a)` makes `a` the successor -/
namespace TokenRing

/-- NS is the first LAS entry above TS … -/
theorem updateNextPrev_ns_above (r : TokenRing) (a : Nat) (ha : a < 128) (hact : r.isActive a = true)
    (hgt : r.ts < a) (hfree : ∀ b, r.ts < b → b < a → r.isActive b = false) : (updateNextPrev r).ns = a := by
  have hf : List.find? (fun x => decide (r.isActive x = true ∧ decide (x > r.ts) = true)) (List.range 128) = some a := by
    rw [List.find?_range_eq_some]
    refine ⟨by simp [hact, hgt], by simp [ha], ?_⟩
    intro j hj
    by_cases h : r.ts < j
    · simp [hfree j h hj]
    · simp [h]
  simp only [updateNextPrev, activeList, List.find?_filter, hf]

/-- … or, if there is none, the lowest LAS entry. -/
theorem updateNextPrev_ns_below (r : TokenRing) (a : Nat) (ha : a < 128) (hact : r.isActive a = true)
    (hlt : a < r.ts) (hfree1 : ∀ b, r.ts < b → r.isActive b = false) (hfree2 : ∀ b, b < a → r.isActive b = false) :
    (updateNextPrev r).ns = a := by
  have hf : List.find? (fun x => decide (r.isActive x = true ∧ decide (x > r.ts) = true)) (List.range 128) = none := by
    rw [List.find?_range_eq_none]
    intro i _
    by_cases h : r.ts < i
    · simp [hfree1 i h]
    · simp [h]
  have hh : List.find? r.isActive (List.range 128) = some a := by
    rw [List.find?_range_eq_some]
    refine ⟨hact, by simp [ha], ?_⟩
    intro j hj
    simp [hfree2 j hj]
  simp only [updateNextPrev, activeList, List.find?_filter, hf, List.head?_filter, hh]

/-- **`set_next_station(a)` really makes `a` the next station** (for every LAS content), `a ≠ TS`. -/
theorem setNextStation_spec (r r' : TokenRing) (a : Nat) (hne : a ≠ r.ts) (hts : r.ts < 128)
    (h : r.setNextStation a = some r') : r'.ns = a ∧ r'.ts = r.ts ∧ r'.las = r.las ∧ r'.isActive a = true := by
  unfold setNextStation at h
  split at h
  · cases h
  · rename_i ha
    have ha : a < 128 := by omega
    generalize hq : ({ r with active := Vector.ofFn fun i => if i.val = a then true else r.active[i] } : TokenRing) = q at h
    injection h with h
    subst h
    have hqts : q.ts = r.ts := by rw [← hq]
    have hqlas : q.las = r.las := by rw [← hq]
    have hqa : q.isActive a = true := by rw [← hq]; simp [isActive, ha]
    have hact : ∀ b, b < 128 → (q.updateLas r.ts a).isActive b = passBit r.ts a b (q.isActive b) :=
      fun b hb => updateLas_active q r.ts a b hb
    have hl := updateLas_las q r.ts a
    refine ⟨?_, by rw [hl.2, hqts], by rw [hl.1, hqlas], ?_⟩
    · -- NS
      obtain ⟨q', hu, hq'ts0, hq'a⟩ : ∃ q' : TokenRing, q.updateLas r.ts a = updateNextPrev q' ∧ q'.ts = q.ts ∧
          (∀ b, q'.isActive b = (q.updateLas r.ts a).isActive b) := by
        unfold updateLas
        exact ⟨_, rfl, rfl, fun b => (updateNextPrev_active _ b).symm⟩
      have hq'ts : q'.ts = r.ts := by rw [hq'ts0, hqts]
      have hq'act : ∀ b, b < 128 → q'.isActive b = passBit r.ts a b (q.isActive b) := by
        intro b hb
        rw [hq'a b, hact b hb]
      have hq'lt : ∀ b, q'.isActive b = true → b < 128 := fun b hb => isActive_lt q' b hb
      rw [hu]
      by_cases hgt : r.ts < a
      · apply updateNextPrev_ns_above q' a ha
        · rw [hq'act a ha]; simp [passBit, inPassGap, hne, hgt, hqa]
        · rw [hq'ts]; exact hgt
        · intro b h1 h2
          rw [hq'ts] at h1
          rw [hq'act b (by omega)]
          simp [passBit, inPassGap, hgt]
          omega
      · have hlt : a < r.ts := by omega
        apply updateNextPrev_ns_below q' a ha
        · rw [hq'act a ha]; simp [passBit, inPassGap, hne, hgt, hqa]; omega
        · rw [hq'ts]; exact hlt
        · intro b h1
          rw [hq'ts] at h1
          by_cases hb : b < 128
          · rw [hq'act b hb]
            simp [passBit, inPassGap, hgt]
            omega
          · cases hq'b : q'.isActive b with
            | false => rfl
            | true => exact absurd (hq'lt b hq'b) hb
        · intro b h1
          rw [hq'act b (by omega)]
          simp [passBit, inPassGap, hgt]
          omega
    · rw [hact a ha]
      simp [passBit, inPassGap, hne, hqa]
      omega

end TokenRing
namespace StationGap

/-! ## Frames the station builds itself -/

/-- The SD1 frame of a header without SAPs and without PDU. -/
def sd1Frame (h : Header) : Bytes := [SD1] ++ h.body [] ++ [checksum (h.body []), ED]

theorem serialize_noSap (h : Header) (h1 : h.dsap = none) (h2 : h.ssap = none) :
    h.serialize [] = .ok (sd1Frame h) := by
  simp [Header.serialize, Header.lengthByte, Header.saps, h1, h2, sd1Frame]

/-- The FDL status request `ts → a` as it goes to the PHY. -/
def statusRequestBytes (a ts : Nat) : Bytes :=
  sd1Frame (fdlStatusRequestHeader (UInt8.ofNat a) (UInt8.ofNat ts))

/-- The FDL status response `ts → dst` reporting `state` (status Ok). -/
def statusResponseBytes (dst ts : Nat) (state : ResponseState) : Bytes :=
  sd1Frame (fdlStatusResponseHeader (UInt8.ofNat dst) (UInt8.ofNat ts) state .ok)

/-- The token telegram `ts → ns`. -/
def tokenBytes (ns ts : Nat) : Bytes := sendToken (UInt8.ofNat ns) (UInt8.ofNat ts)

theorem statusRequest_serialize (a ts : Nat) :
    (fdlStatusRequestHeader (UInt8.ofNat a) (UInt8.ofNat ts)).serialize [] = .ok (statusRequestBytes a ts) :=
  serialize_noSap _ rfl rfl

theorem statusResponse_serialize (dst ts : Nat) (state : ResponseState) :
    (fdlStatusResponseHeader (UInt8.ofNat dst) (UInt8.ofNat ts) state .ok).serialize [] =
      .ok (statusResponseBytes dst ts state) :=
  serialize_noSap _ rfl rfl

theorem statusRequestBytes_length (a ts : Nat) : (statusRequestBytes a ts).length = 6 := by
  simp [statusRequestBytes, sd1Frame, Header.body, fdlStatusRequestHeader, optByte]

theorem statusResponseBytes_length (d ts : Nat) (st : ResponseState) : (statusResponseBytes d ts st).length = 6 := by
  simp [statusResponseBytes, sd1Frame, Header.body, fdlStatusResponseHeader, optByte]

/-- A status request / response starts with SD1, a token with SD4: they are never confused. -/
theorem statusRequest_ne_token (a ts ns ts' : Nat) : statusRequestBytes a ts ≠ tokenBytes ns ts' := by
  simp [statusRequestBytes, sd1Frame, tokenBytes, sendToken, Header.body, optByte]

theorem statusResponse_ne_token (d ts ns ts' : Nat) (st : ResponseState) :
    statusResponseBytes d ts st ≠ tokenBytes ns ts' := by
  simp [statusResponseBytes, sd1Frame, tokenBytes, sendToken, Header.body, optByte]

/-! ## Time-stamp helpers leave everything but `lastBusActivity` alone -/

theorem getOrInsert_eq (s : Station) (now : Int) :
    getOrInsertLast s now =
      ({ s with lastBusActivity := some (s.lastBusActivity.getD now) }, s.lastBusActivity.getD now) := by
  unfold getOrInsertLast
  cases h : s.lastBusActivity with
  | none => simp
  | some l => cases s; simp_all

theorem sync_eq (s : Station) (now : Int) :
    (waitSyncPause s now).1 = { s with lastBusActivity := some (s.lastBusActivity.getD now) } := by
  simp [waitSyncPause, getOrInsert_eq]

theorem slot_eq (s : Station) (now : Int) :
    (checkSlotExpired s now).1 = { s with lastBusActivity := some (s.lastBusActivity.getD now) } := by
  simp [checkSlotExpired, getOrInsert_eq]

/-- The synchronisation pause (33 bit times of bus silence) is over. -/
def SyncOver (s : Station) (now : Int) : Prop := (waitSyncPause s now).2 = false

instance (s : Station) (now : Int) : Decidable (SyncOver s now) := by unfold SyncOver; infer_instance

theorem syncOver_iff (s : Station) (now : Int) :
    SyncOver s now ↔ s.lastBusActivity.getD now + (s.p.bits 33 : Nat) < now := by
  simp [SyncOver, waitSyncPause, getOrInsert_eq]

/-- The slot time has expired without an answer. -/
def SlotExpired (s : Station) (now : Int) : Prop := (checkSlotExpired s now).2 = true

instance (s : Station) (now : Int) : Decidable (SlotExpired s now) := by unfold SlotExpired; infer_instance

theorem slotExpired_iff (s : Station) (now : Int) :
    SlotExpired s now ↔ s.lastBusActivity.getD now + (s.p.slotTime : Nat) < now := by
  simp [SlotExpired, checkSlotExpired, getOrInsert_eq]

/-- The station after the lazily initialised activity time-stamp was filled in. -/
def stamped (s : Station) (now : Int) : Station :=
  { s with lastBusActivity := some (s.lastBusActivity.getD now) }

@[simp] theorem stamped_st (s now) : (stamped s now).st = s.st := rfl
@[simp] theorem stamped_gap (s now) : (stamped s now).gap = s.gap := rfl
@[simp] theorem stamped_ring (s now) : (stamped s now).ring = s.ring := rfl
@[simp] theorem stamped_p (s now) : (stamped s now).p = s.p := rfl
@[simp] theorem stamped_online (s now) : (stamped s now).online = s.online := rfl
@[simp] theorem stamped_nextApp (s now) : (stamped s now).nextApp = s.nextApp := rfl
@[simp] theorem stamped_lastTokenTime (s now) : (stamped s now).lastTokenTime = s.lastTokenTime := rfl
@[simp] theorem stamped_endTokenHoldTime (s now) : (stamped s now).endTokenHoldTime = s.endTokenHoldTime := rfl

theorem sync_stamped (s : Station) (now : Int) : (waitSyncPause s now).1 = stamped s now := sync_eq s now
theorem slot_stamped (s : Station) (now : Int) : (checkSlotExpired s now).1 = stamped s now := slot_eq s now

/-! ## GAP poll transmission -/

/-- `transmit_gap_poll_if_pending` with a pending poll of a foreign address. -/
theorem transmitGapPoll_poll (c : Ctx) (now : Int) (a : Nat) (hg : c.s.gap = .doPoll a)
    (hne : a ≠ c.s.p.address) (htx : c.tx = none) :
    transmitGapPoll c now =
      (.ok { c with tx := some (statusRequestBytes a c.s.p.address), s := markTx c.s now 6 }, some a) := by
  unfold transmitGapPoll
  rw [hg]
  simp only [hne, if_false, statusRequest_serialize, transmit, htx, statusRequestBytes_length]

theorem transmitGapPoll_self (c : Ctx) (now : Int) (hg : c.s.gap = .doPoll c.s.p.address) :
    transmitGapPoll c now = (.panic "debug_assert_ne!(current_address, self.p.address)", none) := by
  unfold transmitGapPoll
  rw [hg]
  simp

theorem transmitGapPoll_waiting (c : Ctx) (now : Int) (r : Nat) (hg : c.s.gap = .waiting r) :
    transmitGapPoll c now = (.ok c, none) := by
  unfold transmitGapPoll
  rw [hg]

/-! ## Passing the token -/

/-- `passTokenOn` with nothing transmitted yet: the token goes to NS as registered at that moment; the
GAP state is not touched. -/
theorem passTokenOn_eq (c : Ctx) (now : Int) (att : Attempt) (g : Bool) (a0 : Attempt)
    (hst : c.s.st = .passToken g a0) (htx : c.tx = none) :
    passTokenOn c now att =
      .ok { c with
        tx := some (tokenBytes c.s.ring.ns c.s.p.address),
        s := { (markTx c.s now 3) with
          ring := c.s.ring.witness c.s.p.address c.s.ring.ns,
          st := if (c.s.ring.witness c.s.p.address c.s.ring.ns).ns = c.s.p.address
                then FState.useToken ⟨now, none⟩ false else FState.checkTokenPass att } } := by
  unfold passTokenOn
  simp only [transmit, htx, Res.bind, upd, markTx, sendToken, List.length_cons, List.length_nil]
  split
  · rename_i h
    simp only [tr, toUseToken, hst, tokenBytes, sendToken]
    simp [h]
  · rename_i h
    simp only [tr, toCheckTokenPass, hst, tokenBytes, sendToken]
    simp [h]

/-! ## The GAP state over successive token visits -/

/-- The GAP state after `k` further token visits, each of which ends with one `gapAdvance` step in
`do_pass_token` (`do_gap = Yes`), while the parameters and the ring view stay as they are.
`none` = the `next_gap_poll` arithmetic overflowed (excluded under the station invariant). -/
def gapAfter (s : Station) : Nat → Option GapState
  | 0 => some s.gap
  | k + 1 =>
    match gapAdvance s with
    | some g => gapAfter { s with gap := g } k
    | none => none

theorem gapAfter_add (k j : Nat) : ∀ s : Station,
    gapAfter s (k + j) = match gapAfter s k with
      | some g => gapAfter { s with gap := g } j
      | none => none := by
  induction k with
  | zero => intro s; simp [gapAfter]
  | succ k ih =>
    intro s
    rw [show k + 1 + j = (k + j) + 1 by omega]
    simp only [gapAfter]
    cases gapAdvance s with
    | none => rfl
    | some g => exact ih _

/-- While waiting, every visit counts one rotation. -/
theorem gapAfter_waiting (k : Nat) : ∀ (s : Station) (r : Nat), s.gap = .waiting r → r + k ≤ s.p.gapWait + 1 →
    gapAfter s k = some (.waiting (r + k)) := by
  induction k with
  | zero => intro s r hg _; simp [gapAfter, hg]
  | succ k ih =>
    intro s r hg hle
    have hga : gapAdvance s = some (.waiting (r + 1)) := by
      unfold gapAdvance
      rw [hg]
      simp only
      rw [if_neg (by omega)]
    simp only [gapAfter, hga]
    rw [ih { s with gap := .waiting (r + 1) } (r + 1) rfl (by show r + 1 + k ≤ s.p.gapWait + 1; omega)]
    congr 2
    omega

/-- During a sweep the visits poll the addresses of `sweepFrom`, one per visit. -/
theorem gapAfter_sweep (fuel : Nat) : ∀ (s : Station) (cur : Nat), s.gap = .doPoll cur →
    ∀ j a, (sweepFrom s.p.address s.ring.ns s.p.hsa fuel cur)[j]? = some a →
      gapAfter s (j + 1) = some (.doPoll a) := by
  induction fuel with
  | zero => intro s cur _ j a hj; simp [sweepFrom] at hj
  | succ f ih =>
    intro s cur hg j a hj
    unfold sweepFrom at hj
    cases hn : nextGapPoll s.p.address s.ring.ns s.p.hsa cur with
    | poll x =>
      simp only [hn] at hj
      have hga : gapAdvance s = some (.doPoll x) := by
        unfold gapAdvance nextGap
        rw [hg]
        simp only [hn]
      simp only [gapAfter, hga]
      cases j with
      | zero =>
        simp at hj
        simp [gapAfter, hj]
      | succ j =>
        exact ih { s with gap := .doPoll x } x rfl j a (by simpa using hj)
    | waiting => simp [hn] at hj
    | panic => simp [hn] at hj

/-- `next_gap_poll` ends a sweep with the rotation counter at 0. -/
theorem nextGap_waiting_zero (s : Station) (cur r : Nat) (h : nextGap s cur = some (.waiting r)) : r = 0 := by
  unfold nextGap at h
  split at h <;> simp at h
  exact h.symm

/-! ## Evaluating the answer to a GAP poll (`await_gap_poll_response`) -/

/-- What the first pending telegram means to a station `ts` that awaits the status reply of `addr`:
`some (state, status)` iff it is a response telegram from `addr` to `ts`. -/
def replyOf (ts addr : Nat) : Telegram → Option (ResponseState × ResponseStatus)
  | .data h _ =>
    if h.sa.toNat = addr ∧ h.da.toNat = ts then
      match h.fc with
      | .response state status => some (state, status)
      | _ => none
    else none
  | _ => none

/-- The replies that make the polled station the new successor: status Ok and state "master, ready to
enter the ring" or "master in the ring". -/
def Admits (state : ResponseState) (status : ResponseStatus) : Prop :=
  status = .ok ∧ (state = .masterWithoutToken ∨ state = .masterInRing)

instance (state : ResponseState) (status : ResponseStatus) : Decidable (Admits state status) := by
  unfold Admits; infer_instance

/-- The two `debug_assert`s at the head of `await_gap_poll_response`. -/
theorem awaitGap_self (c : Ctx) (now : Int) (addr : Nat) (h : addr = c.s.p.address) :
    (awaitGapPollResponse c now addr).1 = .panic "debug_assert_ne!(poll_address, self.p.address)" := by
  unfold awaitGapPollResponse
  simp [h]

theorem awaitGap_wrongGap (c : Ctx) (now : Int) (addr : Nat) (hne : addr ≠ c.s.p.address) (h : c.s.gap ≠ .doPoll addr) :
    (awaitGapPollResponse c now addr).1 = .panic "debug_assert!(gap_state == DoPoll{poll_address})" := by
  unfold awaitGapPollResponse
  simp [hne, h]

theorem awaitGap_rxPanic (c : Ctx) (now : Int) (addr : Nat) (hne : addr ≠ c.s.p.address) (hg : c.s.gap = .doPoll addr)
    (h : receiveTelegram c.rx = .panic ∨ receiveTelegram c.rx = .hang) :
    ∃ m, (awaitGapPollResponse c now addr).1 = .panic m := by
  unfold awaitGapPollResponse
  rcases h with h | h <;> simp [hne, hg, h]

/-- Nothing (complete) received: wait until the slot time has expired. -/
theorem awaitGap_silent (c : Ctx) (now : Int) (addr : Nat) (rx' : Bytes) (ret : Bool)
    (hne : addr ≠ c.s.p.address) (hg : c.s.gap = .doPoll addr)
    (hrx : receiveTelegram c.rx = .done rx' [] ret) :
    awaitGapPollResponse c now addr =
      (.ok { c with rx := rx', s := stamped c.s now },
       if (checkSlotExpired c.s now).2 then .noResponse else .waitingForBus) := by
  unfold awaitGapPollResponse
  simp only [hne, if_false, hg, ne_eq, not_true_eq_false, hrx]
  rw [← slot_stamped]

/-- Anything but a response telegram from the polled address to us: `UnexpectedTelegram`. -/
theorem awaitGap_unexpected (c : Ctx) (now : Int) (addr : Nat) (rx' : Bytes) (t : Telegram) (l ret : Bool)
    (rest : List (Telegram × Bool))
    (hne : addr ≠ c.s.p.address) (hg : c.s.gap = .doPoll addr)
    (hrx : receiveTelegram c.rx = .done rx' ((t, l) :: rest) ret)
    (hr : replyOf c.s.p.address addr t = none) :
    awaitGapPollResponse c now addr = (.ok { c with rx := rx', s := markRx c.s now }, .unexpected) := by
  unfold awaitGapPollResponse
  simp only [hne, if_false, hg, ne_eq, not_true_eq_false, hrx]
  cases t with
  | sc => rfl
  | token da sa => rfl
  | data h pdu =>
    simp only [replyOf] at hr
    have hp : (markRx c.s now).p = c.s.p := by simp [markRx, markBusActivity]
    simp only [hp]
    split at hr
    · rename_i hcond
      simp only [hcond, and_self, if_true]
      split at hr
      · cases hr
      · rename_i hfc
        split
        · rename_i st stt hfc'
          exact absurd hfc' (hfc st stt)
        · rfl
    · rename_i hcond
      simp only [hcond, if_false]

/-- A response from the polled address that does not admit it (slave, master not ready, or a status
other than Ok): the ring view stays as it is. -/
theorem awaitGap_other (c : Ctx) (now : Int) (addr : Nat) (rx' : Bytes) (t : Telegram) (l ret : Bool)
    (rest : List (Telegram × Bool)) (state : ResponseState) (status : ResponseStatus)
    (hne : addr ≠ c.s.p.address) (hg : c.s.gap = .doPoll addr)
    (hrx : receiveTelegram c.rx = .done rx' ((t, l) :: rest) ret)
    (hr : replyOf c.s.p.address addr t = some (state, status)) (hna : ¬ Admits state status) :
    awaitGapPollResponse c now addr = (.ok { c with rx := rx', s := markRx c.s now }, .responded) := by
  unfold awaitGapPollResponse
  simp only [hne, if_false, hg, ne_eq, not_true_eq_false, hrx]
  cases t with
  | sc => cases hr
  | token da sa => cases hr
  | data h pdu =>
    simp only [replyOf] at hr
    have hp : (markRx c.s now).p = c.s.p := by simp [markRx, markBusActivity]
    simp only [hp]
    split at hr
    · rename_i hcond
      simp only [hcond, and_self, if_true]
      split at hr
      · rename_i st stt hfc
        cases hr
        simp only [hfc]
        unfold Admits at hna
        rw [if_neg hna]
      · cases hr
    · cases hr

/-- A response from the polled address with status Ok and state `MasterWithoutToken` or
`MasterInRing`: `set_next_station(addr)`. -/
theorem awaitGap_admit (c : Ctx) (now : Int) (addr : Nat) (rx' : Bytes) (t : Telegram) (l ret : Bool)
    (rest : List (Telegram × Bool)) (state : ResponseState) (status : ResponseStatus)
    (hne : addr ≠ c.s.p.address) (hg : c.s.gap = .doPoll addr)
    (hrx : receiveTelegram c.rx = .done rx' ((t, l) :: rest) ret)
    (hr : replyOf c.s.p.address addr t = some (state, status)) (ha : Admits state status) :
    awaitGapPollResponse c now addr =
      match c.s.ring.setNextStation addr with
      | some r => (.ok { c with rx := rx', s := { (markRx c.s now) with ring := r } }, .responded)
      | none => (.panic "set_next_station index", .waitingForBus) := by
  unfold awaitGapPollResponse
  simp only [hne, if_false, hg, ne_eq, not_true_eq_false, hrx]
  cases t with
  | sc => cases hr
  | token da sa => cases hr
  | data h pdu =>
    simp only [replyOf] at hr
    have hp : (markRx c.s now).p = c.s.p := by simp [markRx, markBusActivity]
    have hring : (markRx c.s now).ring = c.s.ring := by simp [markRx, markBusActivity]
    simp only [hp]
    split at hr
    · rename_i hcond
      simp only [hcond, and_self, if_true]
      split at hr
      · rename_i st stt hfc
        cases hr
        simp only [hfc]
        unfold Admits at ha
        rw [if_pos ha, hring]
        cases c.s.ring.setNextStation addr <;> rfl
      · cases hr
    · cases hr

/-! ## Idle states: token-lost time-out, telegram callbacks never transmit -/

/-- The token-lost time-out `Tsl · (6 + 2·TS)` of bus silence has elapsed. -/
def TokenLost (s : Station) (now : Int) : Prop :=
  (now - s.lastBusActivity.getD now).natAbs ≥ s.p.tokenLostTimeout

instance (s : Station) (now : Int) : Decidable (TokenLost s now) := by unfold TokenLost; infer_instance

theorem handleLostToken_none (c : Ctx) (now : Int) (h : ¬ TokenLost c.s now) :
    handleLostToken c now = ({ c with s := stamped c.s now }, none) := by
  unfold handleLostToken
  simp only [getOrInsert_eq]
  unfold TokenLost at h
  rw [if_neg h]
  rfl

theorem handleLostToken_lost (c : Ctx) (now : Int) (h : TokenLost c.s now) :
    handleLostToken c now =
      ({ c with s := stamped c.s now },
       some (match toClaimToken (stamped c.s now) with
             | none => .panic "transition_claim_token"
             | some s'' => doClaimToken { c with s := s'' } now 2)) := by
  unfold handleLostToken
  simp only [getOrInsert_eq]
  unfold TokenLost at h
  rw [if_pos h]
  cases hc : toClaimToken { c.s with lastBusActivity := some (c.s.lastBusActivity.getD now) } with
  | none => simp [stamped, hc]
  | some s'' => simp [stamped, hc]

/-- The state a listening station reports to requester `src`: "ready" only when its LAS is valid
(two identical token rotations seen) AND the requester is its registered predecessor. -/
def listenReport (s : Station) (src : Nat) : ResponseState :=
  if s.ring.readyForRing = true ∧ src = s.ring.ps then .masterWithoutToken else .masterNotReady

theorem syncOver_stamped (s : Station) (now : Int) : SyncOver (stamped s now) now ↔ SyncOver s now := by
  simp [syncOver_iff, stamped]

theorem stamped_stamped (s : Station) (now : Int) : stamped (stamped s now) now = stamped s now := by
  simp [stamped]

/-- The per-telegram callback of `do_listen_token` never transmits. -/
theorem listenTelegramCore_tx (c c' : Ctx) (t : Telegram) (l : Bool) (h : listenTelegramCore c t l = .ok c') :
    c'.tx = c.tx := by
  unfold listenTelegramCore at h
  split at h
  · cases h; rfl
  · split at h
    · simp only at h
      split at h
      · split at h <;> (have h' := Res.ok.inj h; rw [← h']; simp only [upd])
      · cases t with
        | sc => cases h; rfl
        | token da sa => cases h; rfl
        | data hd pdu =>
          simp only at h
          split at h
          · split at h <;> (cases h; rfl)
          · cases h; rfl
    · cases h

theorem listenTelegram_tx (now : Int) (c c' : Ctx) (t : Telegram) (l : Bool) (h : listenTelegram now c t l = .ok c') :
    c'.tx = c.tx := by
  unfold listenTelegram at h
  exact listenTelegramCore_tx (upd c fun s => markRx s now) c' t l h

/-- `handle_telegram` never transmits. -/
theorem handleTelegram_tx (c c' : Ctx) (now : Int) (t : Telegram) (l : Bool) (h : handleTelegram c now t l = .ok c') :
    c'.tx = c.tx := by
  unfold handleTelegram at h
  simp only [tr] at h
  repeat' split at h
  all_goals first
    | (cases h; done)
    | (cases h; rfl)

theorem foldTelegrams_tx (f : Ctx → Telegram → Bool → Res)
    (hf : ∀ c c' t l, f c t l = .ok c' → c'.tx = c.tx) :
    ∀ (calls : List (Telegram × Bool)) (c c' : Ctx), foldTelegrams f c calls = .ok c' → c'.tx = c.tx := by
  intro calls
  induction calls with
  | nil => intro c c' h; simp only [foldTelegrams] at h; cases h; rfl
  | cons tl rest ih =>
    intro c c' h
    obtain ⟨t, l⟩ := tl
    simp only [foldTelegrams] at h
    cases h1 : f c t l with
    | panic m => rw [h1] at h; cases h
    | ok c1 =>
      rw [h1] at h
      simp only [Res.bind] at h
      rw [ih c1 c' h, hf c c1 t l h1]

/-! ## The sweep does not depend on spare fuel -/

theorem sweepFrom_stable (ts ns hsa : Nat) : ∀ fuel cur, (sweepFrom ts ns hsa fuel cur).length < fuel →
    sweepFrom ts ns hsa (fuel + 1) cur = sweepFrom ts ns hsa fuel cur := by
  intro fuel
  induction fuel with
  | zero => intro cur h; simp at h
  | succ f ih =>
    intro cur h
    rw [sweepFrom.eq_def ts ns hsa (f + 1 + 1) cur, sweepFrom.eq_def ts ns hsa (f + 1) cur]
    simp only
    rw [sweepFrom.eq_def ts ns hsa (f + 1) cur] at h
    simp only at h
    cases hn : nextGapPoll ts ns hsa cur with
    | poll a =>
      simp only [hn] at h ⊢
      rw [ih a (by simpa using h)]
    | waiting => rfl
    | panic => rfl

theorem sweepFrom_cons (ts ns hsa f cur a : Nat) (hn : nextGapPoll ts ns hsa cur = .poll a)
    (hl : (sweepFrom ts ns hsa f a).length < f) :
    sweepFrom ts ns hsa (f + 1) cur = a :: sweepFrom ts ns hsa (f + 1) a := by
  rw [sweepFrom.eq_def ts ns hsa (f + 1) cur]
  simp only [hn]
  rw [sweepFrom_stable ts ns hsa f a hl]

theorem sweepFrom_length_le (ts ns hsa : Nat) (hts : ts < hsa) (hh2 : hsa ≤ 126) :
    ∀ fuel cur, cur < hsa → (sweepFrom ts ns hsa fuel cur).length + off ts hsa cur ≤ hsa - 1 := by
  intro fuel
  induction fuel with
  | zero => intro cur hc; have := off_lt ts hsa cur hts hc; simp [sweepFrom]; omega
  | succ f ih =>
    intro cur hc
    unfold sweepFrom
    have heq := nextGapPoll_eq ts ns hsa cur (by omega) hh2 hc
    cases hn : nextGapPoll ts ns hsa cur with
    | poll x =>
      rw [hn] at heq
      split at heq
      · rename_i hin
        cases heq
        have ho := off_succ ts hsa cur hts hc hin.2.1
        have := ih (succAddr hsa cur) hin.1
        simp only [List.length_cons]
        omega
      · cases heq
    | waiting => have := off_lt ts hsa cur hts hc; simp; omega
    | panic => have := off_lt ts hsa cur hts hc; simp; omega

/-- One step of the full sweep (fuel HSA): `next_gap_poll(cur) = a` splits off its head. -/
theorem sweepFrom_step (ts ns hsa cur a : Nat) (hts : ts < hsa) (hh2 : hsa ≤ 126) (hc : cur < hsa)
    (hn : nextGapPoll ts ns hsa cur = .poll a) :
    sweepFrom ts ns hsa hsa cur = a :: sweepFrom ts ns hsa hsa a ∧ a < hsa ∧ a ≠ ts := by
  have heq := nextGapPoll_eq ts ns hsa cur (by omega) hh2 hc
  rw [hn] at heq
  split at heq
  · rename_i hin
    cases heq
    refine ⟨?_, hin.1, hin.2.1⟩
    obtain ⟨f, hf⟩ : ∃ f, hsa = f + 1 := ⟨hsa - 1, by omega⟩
    have hlen := sweepFrom_length_le ts ns hsa hts hh2 f (succAddr hsa cur) hin.1
    have hoff : 0 < off ts hsa (succAddr hsa cur) := by
      have := off_zero_iff ts hsa (succAddr hsa cur) hts hin.1
      have hne : off ts hsa (succAddr hsa cur) ≠ 0 := fun h0 => hin.2.1 (this.mp h0)
      omega
    have h1 := sweepFrom_cons ts ns hsa f cur (succAddr hsa cur) hn (by omega)
    rw [← hf] at h1
    exact h1
  · cases heq

theorem sweepFrom_end (ts ns hsa fuel cur : Nat) (hn : nextGapPoll ts ns hsa cur = .waiting) :
    sweepFrom ts ns hsa fuel cur = [] := by
  cases fuel with
  | zero => rfl
  | succ f => simp [sweepFrom, hn]

/-! ## One whole poll -/

theorem checkBusActivity_core (s : Station) (now : Int) (n : Nat) :
    (checkBusActivity s now n).st = s.st ∧ (checkBusActivity s now n).p = s.p ∧
    (checkBusActivity s now n).ring = s.ring ∧ (checkBusActivity s now n).gap = s.gap := by
  unfold checkBusActivity
  split <;> simp [markBusActivity]

/-- A regular `poll` of a station that is neither `Offline` nor `PassiveIdle` either only notes that
its own transmission is still running, or runs the handler of the current state (after the
bus-activity bookkeeping, which touches only time-stamp and pending-byte count). -/
theorem poll_cases (s : Station) (apps : Apps) (now : Int) (phyTx : Bool) (rx : Bytes) (c' : Ctx)
    (h1 : s.st ≠ .offline) (h2 : s.st ≠ .passiveIdle) (h : s.poll apps now phyTx rx = .ok c') :
    c' = { s := markBusActivity s now, apps := apps, rx := rx } ∨
    dispatch { s := checkBusActivity s now rx.length, apps := apps, rx := rx } now = .ok c' := by
  unfold Station.poll pollInner at h
  simp only at h
  split at h
  · first
      | cases h
      | (split at h
         · rename_i hoff; exact absurd hoff h1
         · cases h)
  · have hps : pollStart { s := s, apps := apps, rx := rx } = .ok { s := s, apps := apps, rx := rx } := by
      unfold pollStart
      cases hst : s.st <;> simp_all
    rw [hps] at h
    simp only [Res.bind] at h
    split at h
    · exact Or.inl (Res.ok.inj h).symm
    · exact Or.inr h

/-! ## Counting GAP polls over the polls of one token visit -/

/-- Phases of a token visit: 0 = application traffic, 1 = about to do GAP maintenance and pass the
token, 2 = awaiting the answer to the GAP poll, 3 = passing the token without (further) GAP
maintenance.  `none`: the station does not hold the token for a visit (idle, supervising its pass,
claiming, offline). -/
def phase : FState → Option Nat
  | .useToken .. | .awaitData .. => some 0
  | .passToken true _ => some 1
  | .awaitStatus _ => some 2
  | .passToken false _ => some 3
  | _ => none

theorem phase_le3 (st : FState) (p : Nat) (h : phase st = some p) : p ≤ 3 := by
  unfold phase at h
  split at h <;> simp at h <;> omega

/-- The telegram handed to the PHY is an SD1 frame (FDL status request / response; token telegrams
are SD4). -/
def isSd1 : Option Bytes → Bool
  | some (b :: _) => b == SD1
  | _ => false

theorem isSd1_request (a ts : Nat) : isSd1 (some (statusRequestBytes a ts)) = true := by
  simp [isSd1, statusRequestBytes, sd1Frame]

theorem isSd1_token (ns ts : Nat) : isSd1 (some (tokenBytes ns ts)) = false := by
  simp [isSd1, tokenBytes, sendToken, SD1, SD4]

/-- Number of own GAP polls during the polls of ONE token visit: `ins` lists the successive `poll`
calls.  A poll is counted iff it transmits an SD1 frame (FDL status request) that is not an
application's message cycle: any SD1 frame sent after the application phase (phase ≥ 1), and in the
application phase the one after which the station awaits the answer as GAP poll
(`AwaitStatusResponse`; since the repair of K3 the end of the token hold does its GAP maintenance in
the same poll — an application's own status request leads to `AwaitDataResponse` instead).
Counting stops when the station no longer holds the token for this visit (`phase = none`) or, after
GAP maintenance has begun, a new visit begins (a station that is alone in the ring hands the token to
itself: back to phase 0).  `none` = a poll panicked. -/
def gapPolls (s : Station) (apps : Apps) : List (Int × Bool × Bytes) → Option Nat
  | [] => some 0
  | (now, phyTx, rx) :: rest =>
    match phase s.st with
    | none => some 0
    | some ph =>
      match s.poll apps now phyTx rx with
      | .panic _ => none
      | .ok c' =>
        let k := if isSd1 c'.tx = true ∧ (ph ≠ 0 ∨ phase c'.s.st = some 2) then 1 else 0
        if ph ≠ 0 ∧ phase c'.s.st = some 0 then some k
        else (gapPolls c'.s c'.apps rest).map (· + k)

/-! ## The post-claim sweep as a run of polls -/

/-- The scanning steps of `ClaimToken` (after the two claiming token telegrams). -/
def inScan : FState → Bool
  | .claimToken .scan | .claimToken (.scanAwait _) => true
  | _ => false

/-- The GAP addresses still to be polled in the running sweep, for the present ring view. -/
def remaining (s : Station) : List Nat :=
  match s.gap with
  | .doPoll cur => sweepFrom s.p.address s.ring.ns s.p.hsa s.p.hsa cur
  | .waiting _ => []

/-- … as the status-request telegrams that will go to the PHY. -/
def reqs (s : Station) : List Bytes := (remaining s).map fun a => statusRequestBytes a s.p.address

theorem reqs_congr (s s' : Station) (h1 : s'.p = s.p) (h2 : s'.ring = s.ring) (h3 : s'.gap = s.gap) :
    reqs s' = reqs s := by
  simp [reqs, remaining, h1, h2, h3]

/-- No complete telegram is waiting in the receive buffer. -/
def Silent (rx : Bytes) : Prop := ∃ rx' ret, receiveTelegram rx = .done rx' [] ret

/-- The part of the C05 station invariant the scan relies on. -/
structure ScanOk (s : Station) : Prop where
  addr : s.p.address < s.p.hsa
  hsa : s.p.hsa ≤ 126
  gap : ∀ cur, s.gap = .doPoll cur → cur < s.p.hsa
  await : ∀ a, s.st = .claimToken (.scanAwait a) → s.gap = .doPoll a ∧ a ≠ s.p.address

/-- What one poll of the scan achieves: what it transmits is exactly the head of what remained to
be polled; parameters and ring view are untouched; the scan goes on, or it is complete and the
station is about to pass the token. -/
def StepOk (s : Station) (c' : Ctx) : Prop :=
  c'.tx.toList ++ reqs c'.s = reqs s ∧ c'.s.p = s.p ∧ c'.s.ring = s.ring ∧
  ((inScan c'.s.st = true ∧ ScanOk c'.s) ∨ (c'.s.st = .passToken false .first ∧ remaining c'.s = []))

/-- The telegrams transmitted by the successive polls `ins` while the station is scanning, and the
station afterwards.  `none` = a poll panicked. -/
def claimRun (s : Station) (apps : Apps) : List (Int × Bool × Bytes) → Option (List Bytes × Station)
  | [] => some ([], s)
  | (now, phyTx, rx) :: rest =>
    if inScan s.st = false then some ([], s) else
    match s.poll apps now phyTx rx with
    | .panic _ => none
    | .ok c' => (claimRun c'.s c'.apps rest).map fun r => (c'.tx.toList ++ r.1, r.2)

end StationGap
end PV
