/-
The complement of C07's scope: a slave whose configuration does NOT match the master's (property C07,
`mismatch_cycle`).  The control abstraction of `Lemmas/DpLive.lean` assumes matching contents; here the
visits are followed on the real model directly.
-/
import ProfiVerif.Lemmas.DpLive

namespace PV.Live
open PV PV.Dp

/-- A new request (not a retransmission for the slave) is served. -/
theorem receive_serve {s : Slave} {h : Header} {pdu : Bytes} {f : FrameCountBit} (hda : h.da = s.cfg.address)
    (hfc : h.fc = .request f .srdLow ∨ h.fc = .request f .srdHigh) (hre : isRetransmission s.stored f = false) :
    s.receive h pdu =
      ({ (s.serve h pdu).1 with stored := storedAfter f, last := (s.serve h pdu).2 }, (s.serve h pdu).2) := by
  unfold Slave.receive
  rw [if_neg (by simp [hda])]
  rcases hfc with hfc | hfc <;> simp [hfc, hre]

/-- A retransmission is answered by the stored reply, nothing else happens. -/
theorem receive_repeat {s : Slave} {h : Header} {pdu : Bytes} {f : FrameCountBit} (hda : h.da = s.cfg.address)
    (hfc : h.fc = .request f .srdLow ∨ h.fc = .request f .srdHigh) (hre : isRetransmission s.stored f = true) :
    s.receive h pdu = (s, s.last) := by
  unfold Slave.receive
  rw [if_neg (by simp [hda])]
  rcases hfc with hfc | hfc <;> simp [hfc, hre]

theorem isReq_fc {k : ReqK} {c : SlaveCfg} {f : FrameCountBit} {h : Header} {pdu : Bytes} (hr : IsReq k c f h pdu) :
    h.da = c.address ∧ (h.fc = .request f .srdLow ∨ h.fc = .request f .srdHigh) := by
  obtain ⟨hda, hk⟩ := hr
  refine ⟨hda, ?_⟩
  cases k
  · exact Or.inl hk.2.2
  · exact Or.inl hk.2.2.1
  · exact Or.inl hk.2.2.1
  · exact Or.inr hk.2.2.1

/-- One fault-free visit in which a request goes out and its reply comes back. -/
theorem visit_exchange {j : PJ} {p' p2 : Peripheral} {h : Header} {pdu : Bytes} {t : Telegram} {ev : Option PEvent}
    (htx : j.p.transmit j.fp j.op = .send p' h pdu) (htel : (j.s.receive h pdu).2.telegram = some t)
    (hrx : p'.receiveReply t = .ok p2 ev) :
    j.visit false .ok = some ({ j with p := p2, s := (j.s.receive h pdu).1 }, ev) := by
  unfold PJ.visit
  simp only [htx, Bool.false_eq_true, if_false, Delivery.deliver, htel, hrx]

/-- What the master sends next (retry counter within the limit, something to send). -/
theorem next_request {fp : FdlParams} (hfp : FpOk fp) {op : OpState} (hop : op ≠ .stop) {p : Peripheral}
    (hI : PInv fp p) {c : SlaveCfg} (hm : Matched p c) (hr : p.retry ≤ fp.maxRetry) {k : ReqK}
    (hq : reqOf p.state p.diagNeeded p.diagInFlight (rcls fp.maxRetry p.retry) = some k) :
    ∃ h pdu, p.transmit fp op = .send (sentP p (flAfter p.state p.diagNeeded p.diagInFlight (rcls fp.maxRetry p.retry))) h pdu ∧
      IsReq k c p.fcb h pdu ∧
      PInv fp (sentP p (flAfter p.state p.diagNeeded p.diagInFlight (rcls fp.maxRetry p.retry))) := by
  obtain ⟨p'', hafter, hI''⟩ := tx_pinv (tx_spec hfp hop hI) hI
  rcases tx_ctl hfp hop hI hm with ⟨h1, _⟩ | ⟨_, h1, _⟩ | ⟨_, k', h, pdu, hq', htx, hreq⟩
  · omega
  · rw [hq] at h1; cases h1
  · rw [hq] at hq'
    simp only [Option.some.injEq] at hq'
    subst hq'
    rw [htx] at hafter
    simp only [PTx.after, Option.some.injEq] at hafter
    subst hafter
    exact ⟨h, pdu, htx, hreq, hI''⟩

/-- The flags of the diagnostics reply of a slave in `Wait_Prm` with `Cfg_Fault` set and `Prm_Fault`
clear, as the master evaluates them. -/
theorem diag_flags_cfgfault (dp : Bool) :
    let b0 : UInt8 := bit true 0x02 ||| bit true 0x04 ||| bit dp 0x08 ||| bit false 0x40
    let b1 : UInt8 := bit true 0x01 ||| 0x04 ||| 0
    dflagsOf (Diag.le16 b0 b1 &&& ~~~Diag.PERMANENT_BIT) = .cfgFault := by
  cases dp <;> decide

/-- Static agreement of everything but the configuration bytes. -/
structure CfgMismatch (j : PJ) : Prop where
  fp : FpOk j.fp
  op : j.op ≠ .stop
  pinv : PInv j.fp j.p
  addr : j.p.address = j.s.cfg.address
  prm : ∃ up, j.p.opts.userPrm = some up ∧ up.length = j.s.cfg.prmLen
  ident : j.p.opts.ident = j.s.cfg.ident
  identLt : j.s.cfg.ident < 65536
  cfg : ∃ c, j.p.opts.config = some c ∧ c ≠ j.s.cfg.config
  prmFault : j.s.prmFault = false

/-- The master is about to probe an offline peripheral, and the slave will take the probe for a new
request. -/
structure Probing (j : PJ) : Prop where
  state : j.p.state = .offline
  retry : j.p.retry = 0
  fresh : isRetransmission j.s.stored j.p.fcb = false

/-- The slave configuration the master believes in. -/
def believed (j : PJ) (c : Bytes) : SlaveCfg :=
  { address := j.s.cfg.address, ident := j.s.cfg.ident, prmLen := j.s.cfg.prmLen, config := c,
    inLen := j.p.piI.length, outLen := j.p.piQ.length }

theorem CfgMismatch.matched {j : PJ} (h : CfgMismatch j) {c : Bytes} (hc : j.p.opts.config = some c) :
    Matched j.p (believed j c) :=
  ⟨h.addr, h.prm, h.ident, h.identLt, hc, rfl, rfl⟩

/-- One fault-free visit with a request the slave takes for new: the master's side is `rx_ctl`, the
slave's side is `serve`. -/
theorem fresh_exchange {j : PJ} (hm : CfgMismatch j) {c : Bytes} (hc : j.p.opts.config = some c)
    (hr : j.p.retry ≤ j.fp.maxRetry) {k : ReqK}
    (hq : reqOf j.p.state j.p.diagNeeded j.p.diagInFlight (rcls j.fp.maxRetry j.p.retry) = some k)
    (hfresh : isRetransmission j.s.stored j.p.fcb = false) :
    ∃ h pdu, IsReq k (believed j c) j.p.fcb h pdu ∧
      ∀ t, (j.s.serve h pdu).2.telegram = some t → RxOk t →
        ∃ p2 ev, j.visit false .ok =
            some ({ j with p := p2, s := { (j.s.serve h pdu).1 with stored := storedAfter j.p.fcb, last := (j.s.serve h pdu).2 } }, ev) ∧
          PInv j.fp p2 ∧
          p2.state = (mrx (j.p.piI.length == 0) j.p.state j.p.diagNeeded
              (flAfter j.p.state j.p.diagNeeded j.p.diagInFlight (rcls j.fp.maxRetry j.p.retry)) (viewOf j.p.piI.length t)).st ∧
          p2.fcb = (if (mrx (j.p.piI.length == 0) j.p.state j.p.diagNeeded
              (flAfter j.p.state j.p.diagNeeded j.p.diagInFlight (rcls j.fp.maxRetry j.p.retry)) (viewOf j.p.piI.length t)).cycled
              then cycA j.p.fcb else j.p.fcb) ∧
          p2.retry = (if (mrx (j.p.piI.length == 0) j.p.state j.p.diagNeeded
              (flAfter j.p.state j.p.diagNeeded j.p.diagInFlight (rcls j.fp.maxRetry j.p.retry)) (viewOf j.p.piI.length t)).reset
              then 0 else j.p.retry + 1) ∧
          ev = (mrx (j.p.piI.length == 0) j.p.state j.p.diagNeeded
              (flAfter j.p.state j.p.diagNeeded j.p.diagInFlight (rcls j.fp.maxRetry j.p.retry)) (viewOf j.p.piI.length t)).ev ∧
          p2.address = j.p.address ∧ p2.opts = j.p.opts := by
  obtain ⟨h, pdu, htx, hreq, hI'⟩ := next_request hm.fp hm.op hm.pinv (hm.matched hc) hr hq
  refine ⟨h, pdu, hreq, ?_⟩
  intro t htel ht
  obtain ⟨hda, hfc⟩ := isReq_fc hreq
  have hrecv := receive_serve (pdu := pdu) (show h.da = j.s.cfg.address from hda) hfc hfresh
  obtain ⟨p2, ev, hrx, hI2, f1, f2, f3, f4, f5, f6, f7, f8, f9, f10⟩ := rx_ctl hI' ht
  refine ⟨p2, ev, ?_, hI2, ?_, ?_, ?_, ?_, ?_, ?_⟩
  · have := visit_exchange (j := j) htx (by rw [hrecv]; exact htel) hrx
    rw [hrecv] at this; exact this
  · exact f1
  · exact f3
  · exact f4
  · exact f5
  · exact f7
  · exact f8

/-! ### The slave's side of the four requests -/

theorem serve_diag (s : Slave) {h : Header} (pdu : Bytes) (h1 : h.dsap = some 60) (h2 : h.ssap = some 62) :
    s.serve h pdu = ({ s with diagPending := false, extDiag := [] },
      .data (replyHeader s h (some 62) (some 60) .dataLow) s.diagPdu) := by
  simp [Slave.serve, h1, h2]

theorem serve_setprm_ok (s : Slave) {h : Header} {pdu : Bytes} (h1 : h.dsap = some 61) (h2 : h.ssap = some 62)
    (h3 : pdu.length = 7 + s.cfg.prmLen) (h4 : (pdu.getD 4 0).toNat * 256 + (pdu.getD 5 0).toNat = s.cfg.ident) :
    s.serve h pdu = ({ s with prmFault := false, master := h.sa, prmFlags := pdu.getD 0 0 &&& 0x38,
                              state := if s.state = .dataExch then .dataExch else .waitCfg }, .sc) := by
  unfold Slave.serve
  rw [if_neg (by simp [h1]), if_pos ⟨h1, h2⟩, if_pos ⟨h3, h4⟩]

theorem serve_chkcfg_bad (s : Slave) {h : Header} {pdu : Bytes} (h1 : h.dsap = some 62) (h2 : h.ssap = some 62)
    (h3 : s.state ≠ .waitPrm) (h4 : pdu ≠ s.cfg.config) :
    s.serve h pdu = ({ s with cfgFault := true, state := .waitPrm }, .sc) := by
  simp [Slave.serve, h1, h2, h3, h4]

theorem diagReply_accepts (s : Slave) (h : Header) :
    Diag.Spec.accepts (.data (replyHeader s h (some 62) (some 60) .dataLow) s.diagPdu) = true := by
  simp [Diag.Spec.accepts, replyHeader, Slave.diagPdu]

theorem fresh_after_cycle (f : FrameCountBit) : isRetransmission (storedAfter f) (cycA f) = false :=
  isRetransmission_cyc (Or.inr rfl)

/-! ### The round of a configuration mismatch -/

/-- Visit 1: the probe is answered, the peripheral is reported `Online`. -/
theorem cfgm_probe {j : PJ} (hm : CfgMismatch j) (hp : Probing j) :
    ∃ j', j.visit false .ok = some (j', some .online) ∧ CfgMismatch j' ∧ j'.fp = j.fp ∧
      j'.p.state = .waitForParam ∧ j'.p.retry = 0 ∧ isRetransmission j'.s.stored j'.p.fcb = false := by
  obtain ⟨c, hc, hne⟩ := hm.cfg
  have hq : reqOf j.p.state j.p.diagNeeded j.p.diagInFlight (rcls j.fp.maxRetry j.p.retry) = some .diag := by
    simp [reqOf, hp.state, hp.retry, rcls_zero]
  obtain ⟨h, pdu, hreq, hex⟩ := fresh_exchange hm hc (by rw [hp.retry]; omega) hq hp.fresh
  obtain ⟨_, h1, h2, _⟩ := hreq
  have hserve := serve_diag j.s pdu h1 h2
  obtain ⟨cv, hview⟩ := viewOf_acc (n := j.p.piI.length) (t := .data (replyHeader j.s h (some 62) (some 60) .dataLow) j.s.diagPdu)
    ⟨.slave, .dataLow, rfl⟩ (diagReply_accepts j.s h)
  obtain ⟨p2, ev, hvis, hI2, e1, e2, e3, e4, e5, e6⟩ :=
    hex (.data (replyHeader j.s h (some 62) (some 60) .dataLow) j.s.diagPdu) (by rw [hserve]; rfl) ⟨.slave, .dataLow, rfl⟩
  rw [hview, hp.state] at e1 e2 e3 e4
  simp only [mrx, if_true] at e1 e2 e3 e4
  subst e4
  rw [hserve] at hvis
  refine ⟨_, hvis, ⟨hm.fp, hm.op, hI2, by simp only [e5]; exact hm.addr, by simp only [e6]; exact hm.prm,
    by simp only [e6]; exact hm.ident, hm.identLt, ⟨c, by simp only [e6]; exact hc, hne⟩, hm.prmFault⟩, rfl, e1, e3, ?_⟩
  simp only [e2]; exact fresh_after_cycle _

/-- Visit 2: `Set_Prm` is accepted (ident and parameter length match). -/
theorem cfgm_setprm {j : PJ} (hm : CfgMismatch j) (hst : j.p.state = .waitForParam) (hr : j.p.retry = 0)
    (hf : isRetransmission j.s.stored j.p.fcb = false) :
    ∃ j', j.visit false .ok = some (j', none) ∧ CfgMismatch j' ∧ j'.fp = j.fp ∧
      j'.p.state = .waitForConfig ∧ j'.p.retry = 0 ∧ isRetransmission j'.s.stored j'.p.fcb = false ∧
      j'.s.state ≠ .waitPrm := by
  obtain ⟨c, hc, hne⟩ := hm.cfg
  have hq : reqOf j.p.state j.p.diagNeeded j.p.diagInFlight (rcls j.fp.maxRetry j.p.retry) = some .setPrm := by
    simp [reqOf, hst]
  obtain ⟨h, pdu, hreq, hex⟩ := fresh_exchange hm hc (by rw [hr]; omega) hq hf
  obtain ⟨_, h1, h2, _, h4, h5⟩ := hreq
  have hserve := serve_setprm_ok j.s h1 h2 h4 h5
  obtain ⟨p2, ev, hvis, hI2, e1, e2, e3, e4, e5, e6⟩ := hex .sc (by rw [hserve]; rfl) trivial
  rw [hst] at e1 e2 e3 e4
  simp only [viewOf, mrx, if_true] at e1 e2 e3 e4
  subst e4
  rw [hserve] at hvis
  refine ⟨_, hvis, ⟨hm.fp, hm.op, hI2, by simp only [e5]; exact hm.addr, by simp only [e6]; exact hm.prm,
    by simp only [e6]; exact hm.ident, hm.identLt, ⟨c, by simp only [e6]; exact hc, hne⟩, rfl⟩, rfl, e1, e3, ?_, ?_⟩
  · simp only [e2]; exact fresh_after_cycle _
  · simp only; split <;> simp

/-- Visit 3: `Chk_Cfg` carries other configuration bytes than the slave's: acknowledged, `Cfg_Fault` set,
back to `Wait_Prm`. -/
theorem cfgm_chkcfg {j : PJ} (hm : CfgMismatch j) (hst : j.p.state = .waitForConfig) (hr : j.p.retry = 0)
    (hf : isRetransmission j.s.stored j.p.fcb = false) (hs : j.s.state ≠ .waitPrm) :
    ∃ j', j.visit false .ok = some (j', none) ∧ CfgMismatch j' ∧ j'.fp = j.fp ∧
      j'.p.state = .validateConfig ∧ j'.p.retry = 0 ∧ isRetransmission j'.s.stored j'.p.fcb = false ∧
      j'.s.state = .waitPrm ∧ j'.s.cfgFault = true := by
  obtain ⟨c, hc, hne⟩ := hm.cfg
  have hq : reqOf j.p.state j.p.diagNeeded j.p.diagInFlight (rcls j.fp.maxRetry j.p.retry) = some .chkCfg := by
    simp [reqOf, hst]
  obtain ⟨h, pdu, hreq, hex⟩ := fresh_exchange hm hc (by rw [hr]; omega) hq hf
  obtain ⟨_, h1, h2, _, h4⟩ := hreq
  have hpdu : pdu ≠ j.s.cfg.config := by rw [h4]; exact hne
  have hserve := serve_chkcfg_bad j.s h1 h2 hs hpdu
  obtain ⟨p2, ev, hvis, hI2, e1, e2, e3, e4, e5, e6⟩ := hex .sc (by rw [hserve]; rfl) trivial
  rw [hst] at e1 e2 e3 e4
  simp only [viewOf, mrx, if_true] at e1 e2 e3 e4
  subst e4
  rw [hserve] at hvis
  refine ⟨_, hvis, ⟨hm.fp, hm.op, hI2, by simp only [e5]; exact hm.addr, by simp only [e6]; exact hm.prm,
    by simp only [e6]; exact hm.ident, hm.identLt, ⟨c, by simp only [e6]; exact hc, hne⟩, hm.prmFault⟩, rfl, e1, e3, ?_, rfl, rfl⟩
  simp only [e2]; exact fresh_after_cycle _

/-- Visit 4: the diagnostics reply reports `Cfg_Fault`: `ConfigError`, the peripheral is offline again. -/
theorem cfgm_validate {j : PJ} (hm : CfgMismatch j) (hst : j.p.state = .validateConfig) (hr : j.p.retry = 0)
    (hf : isRetransmission j.s.stored j.p.fcb = false) (hs : j.s.state = .waitPrm) (hcf : j.s.cfgFault = true) :
    ∃ j', j.visit false .ok = some (j', some .configError) ∧ CfgMismatch j' ∧ j'.fp = j.fp ∧ Probing j' := by
  obtain ⟨c, hc, hne⟩ := hm.cfg
  have hq : reqOf j.p.state j.p.diagNeeded j.p.diagInFlight (rcls j.fp.maxRetry j.p.retry) = some .diag := by
    simp [reqOf, hst]
  obtain ⟨h, pdu, hreq, hex⟩ := fresh_exchange hm hc (by rw [hr]; omega) hq hf
  obtain ⟨_, h1, h2, _⟩ := hreq
  have hserve := serve_diag j.s pdu h1 h2
  obtain ⟨cv, hview⟩ := viewOf_acc (n := j.p.piI.length) (t := .data (replyHeader j.s h (some 62) (some 60) .dataLow) j.s.diagPdu)
    ⟨.slave, .dataLow, rfl⟩ (diagReply_accepts j.s h)
  have hflags : dflagsOf (flagsOf (.data (replyHeader j.s h (some 62) (some 60) .dataLow) j.s.diagPdu)) = .cfgFault := by
    have := diag_flags_cfgfault j.s.diagPending
    simp only at this
    rw [flagsOf_data]
    have hb : j.s.diagPdu.getD 0 0 = (bit true 0x02 ||| bit true 0x04 ||| bit j.s.diagPending 0x08 ||| bit false 0x40) ∧
        j.s.diagPdu.getD 1 0 = (bit true 0x01 ||| 0x04 ||| 0) := by
      refine ⟨?_, ?_⟩ <;> simp [Slave.diagPdu, hs, hcf, hm.prmFault] <;> rfl
    rw [hb.1, hb.2]; exact this
  obtain ⟨p2, ev, hvis, hI2, e1, e2, e3, e4, e5, e6⟩ :=
    hex (.data (replyHeader j.s h (some 62) (some 60) .dataLow) j.s.diagPdu) (by rw [hserve]; rfl) ⟨.slave, .dataLow, rfl⟩
  rw [hview, hflags, hst] at e1 e2 e3 e4
  simp only [mrx, if_true] at e1 e2 e3 e4
  subst e4
  rw [hserve] at hvis
  refine ⟨_, hvis, ⟨hm.fp, hm.op, hI2, by simp only [e5]; exact hm.addr, by simp only [e6]; exact hm.prm,
    by simp only [e6]; exact hm.ident, hm.identLt, ⟨c, by simp only [e6]; exact hc, hne⟩, hm.prmFault⟩, rfl, ⟨e1, e3, ?_⟩⟩
  simp only [e2]; exact fresh_after_cycle _

/-- **One round of a configuration mismatch**: probe, `Set_Prm`, `Chk_Cfg`, diagnostics — four visits,
the events `Online`, `ConfigError`, and the master is probing again. -/
theorem cfgm_round {j : PJ} (hm : CfgMismatch j) (hp : Probing j) :
    ∃ j', j.quiet 4 = some (j', [.online, .configError]) ∧ CfgMismatch j' ∧ Probing j' ∧ j'.fp = j.fp := by
  obtain ⟨j1, v1, m1, f1, a1, b1, c1⟩ := cfgm_probe hm hp
  obtain ⟨j2, v2, m2, f2, a2, b2, c2, d2⟩ := cfgm_setprm m1 a1 b1 c1
  obtain ⟨j3, v3, m3, f3, a3, b3, c3, d3, e3⟩ := cfgm_chkcfg m2 a2 b2 c2 d2
  obtain ⟨j4, v4, m4, f4, p4⟩ := cfgm_validate m3 a3 b3 c3 d3 e3
  refine ⟨j4, ?_, m4, p4, by rw [f4, f3, f2, f1]⟩
  simp [PJ.quiet, v1, v2, v3, v4]

/-- Where a round can stand. -/
def CfgStage (j : PJ) : Prop :=
  Probing j ∨
  (j.p.state = .waitForParam ∧ j.p.retry = 0 ∧ isRetransmission j.s.stored j.p.fcb = false) ∨
  (j.p.state = .waitForConfig ∧ j.p.retry = 0 ∧ isRetransmission j.s.stored j.p.fcb = false ∧ j.s.state ≠ .waitPrm) ∨
  (j.p.state = .validateConfig ∧ j.p.retry = 0 ∧ isRetransmission j.s.stored j.p.fcb = false ∧
    j.s.state = .waitPrm ∧ j.s.cfgFault = true)

theorem cfgStage_not_running {j : PJ} (h : CfgStage j) : j.p.isRunning = false := by
  rcases h with h | h | h | h
  · simp [Peripheral.isRunning, h.state]
  · simp [Peripheral.isRunning, h.1]
  · simp [Peripheral.isRunning, h.1]
  · simp [Peripheral.isRunning, h.1]

theorem cfgStage_step {j : PJ} (hm : CfgMismatch j) (h : CfgStage j) :
    ∃ j' ev, j.visit false .ok = some (j', ev) ∧ CfgMismatch j' ∧ CfgStage j' := by
  rcases h with h | ⟨a, b, c⟩ | ⟨a, b, c, d⟩ | ⟨a, b, c, d, e⟩
  · obtain ⟨j', v, m, _, a', b', c'⟩ := cfgm_probe hm h
    exact ⟨j', _, v, m, Or.inr (Or.inl ⟨a', b', c'⟩)⟩
  · obtain ⟨j', v, m, _, a', b', c', d'⟩ := cfgm_setprm hm a b c
    exact ⟨j', _, v, m, Or.inr (Or.inr (Or.inl ⟨a', b', c', d'⟩))⟩
  · obtain ⟨j', v, m, _, a', b', c', d', e'⟩ := cfgm_chkcfg hm a b c d
    exact ⟨j', _, v, m, Or.inr (Or.inr (Or.inr ⟨a', b', c', d', e'⟩))⟩
  · obtain ⟨j', v, m, _, p'⟩ := cfgm_validate hm a b c d e
    exact ⟨j', _, v, m, Or.inl p'⟩

/-- With a configuration mismatch the peripheral is never in data exchange, and nothing panics. -/
theorem cfgm_never_running : ∀ (n : Nat) {j : PJ}, CfgMismatch j → CfgStage j →
    ∃ j' evs, j.quiet n = some (j', evs) ∧ CfgMismatch j' ∧ CfgStage j' ∧ j'.p.isRunning = false := by
  intro n
  induction n with
  | zero => intro j hm hs; exact ⟨j, [], rfl, hm, hs, cfgStage_not_running hs⟩
  | succ n ih =>
    intro j hm hs
    obtain ⟨j1, ev, hv, hm1, hs1⟩ := cfgStage_step hm hs
    obtain ⟨j2, evs, hq, hm2, hs2, hr⟩ := ih hm1 hs1
    exact ⟨j2, ev.toList ++ evs, by simp only [PJ.quiet, hv, hq], hm2, hs2, hr⟩

/-- `r` rounds. -/
theorem cfgm_rounds : ∀ (r : Nat) {j : PJ}, CfgMismatch j → Probing j →
    ∃ j', j.quiet (4 * r) = some (j', (List.replicate r [PEvent.online, PEvent.configError]).flatten) ∧
      CfgMismatch j' ∧ Probing j' := by
  intro r
  induction r with
  | zero => intro j hm hp; exact ⟨j, rfl, hm, hp⟩
  | succ r ih =>
    intro j hm hp
    obtain ⟨j1, hq1, hm1, hp1, _⟩ := cfgm_round hm hp
    obtain ⟨j2, hq2, hm2, hp2⟩ := ih hm1 hp1
    refine ⟨j2, ?_, hm2, hp2⟩
    have : 4 * (r + 1) = 4 + 4 * r := by omega
    rw [this]
    have hadd : ∀ (a b : Nat) {x x1 x2 : PJ} {e1 e2 : List PEvent}, x.quiet a = some (x1, e1) →
        x1.quiet b = some (x2, e2) → x.quiet (a + b) = some (x2, e1 ++ e2) := by
      intro a
      induction a with
      | zero =>
        intro b x x1 x2 e1 e2 h1 h2
        simp only [PJ.quiet, Option.some.injEq, Prod.mk.injEq] at h1
        obtain ⟨rfl, rfl⟩ := h1
        simpa using h2
      | succ a iha =>
        intro b x x1 x2 e1 e2 h1 h2
        rw [Nat.add_right_comm]
        simp only [PJ.quiet] at h1 ⊢
        cases hv : x.visit false .ok with
        | none => rw [hv] at h1; cases h1
        | some y =>
          obtain ⟨xy, ev⟩ := y
          rw [hv] at h1
          simp only at h1 ⊢
          cases hq : xy.quiet a with
          | none => rw [hq] at h1; cases h1
          | some z =>
            obtain ⟨xz, evs⟩ := z
            rw [hq] at h1
            simp only [Option.some.injEq, Prod.mk.injEq] at h1
            obtain ⟨rfl, rfl⟩ := h1
            rw [iha b hq h2]
            simp [List.append_assoc]
    rw [hadd 4 (4 * r) hq1 hq2]
    simp [List.replicate_succ]

end PV.Live
