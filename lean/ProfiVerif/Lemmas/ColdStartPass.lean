/-
The token pass to the adopted station: the holder (in `PassToken`, its view the two-station ring) waits for the
synchronisation pause and passes the token; the adopted station (in `ActiveIdle`, previous station = the holder)
receives it with arbitrary lag and becomes the token holder.  Helper lemmas (C02).
-/
import ProfiVerif.Lemmas.ColdStartChain

namespace PV
open StationGap TokenRing

/-- The token of `x` (address `aL`) to `aH`, sent at `p`. -/
def tkTx (x aL aH : Nat) (p : Int) : Transmission :=
  { start := p, sender := x, bytes := tokenBytes aH aL, dropped := false }

/-- **Before the pass**: the holder `x` (stamp `lx`) is in `PassToken`, its view is the ring `M` in which the adopted
station is its successor; the adopted station `y` (stamp `ly`) idles with `x` as previous station; both are up to date
with the log; `x` has not been polled after the end of its synchronisation pause. -/
structure TP0 (cfg : Cfg) (n : Net) (x y : Nat) (stx sty : NetStation) (lx ly : Int) (M : List Nat) (tl : Int) : Prop where
  soloX : Solo cfg n x stx lx
  soloY : Solo cfg n y sty ly
  stx_st : stx.s.st = .passToken false .first
  view : RingView M stx.s.p.address stx.s.ring
  succ : cycSucc stx.s.p.address M = sty.s.p.address
  ne : sty.s.p.address ≠ stx.s.p.address
  sty_st : sty.s.st = .activeIdle none none 0
  yps : sty.s.ring.ps = stx.s.p.address
  ypb : sty.s.pendingBytes = 0
  yx : y ≠ x
  lyx : lx ≤ ly + (cfg.P : Nat) + 1 ∧ ly ≤ lx
  tto : 2 * cfg.b33 + 4 * cfg.P + 4 ≤ sty.s.p.tokenLostTimeout
  wait : n.bus.seen.getD x 0 ≤ lx + (cfg.b33 : Nat)
  seens : n.bus.seen.getD x 0 ≤ tl ∧ n.bus.seen.getD y 0 ≤ tl

/-- **Token on the bus** (sent at `p`): the former holder supervises the pass (`CheckTokenPass`); the adopted station
`y` (stamp `lY`) holds exactly what has arrived of the token, which is incomplete. -/
structure TP1 (cfg : Cfg) (n : Net) (x y : Nat) (stx sty : NetStation) (p lY : Int) (M : List Nat) (B : Int) (tl : Int) : Prop where
  soloX : Solo cfg n x stx (p + (cfg.b33 : Nat))
  stx_st : stx.s.st = .checkTokenPass .first
  succ : cycSucc stx.s.p.address M = sty.s.p.address
  gy : n.stations[y]? = some sty
  yl : y < n.stations.length
  ys : y < n.bus.seen.length
  yon : sty.online = true ∧ sty.dead = false ∧ Inv sty.s sty.apps ∧ sty.s.online = true
  sty_st : sty.s.st = .activeIdle none none 0
  yps : sty.s.ring.ps = stx.s.p.address
  ne : sty.s.p.address ≠ stx.s.p.address
  yx : y ≠ x
  split : ∃ dn, n.bus.txs = dn ++ [tkTx x stx.s.p.address sty.s.p.address p] ∧
    ∀ o ∈ dn, cEnd cfg o ≤ p ∧ (o.sender = y ∨ cEnd cfg o ≤ n.bus.seen.getD y 0)
  rxY : sty.rx = arrived cfg [tkTx x stx.s.p.address sty.s.p.address p] (n.bus.seen.getD y 0)
  pendY : sty.s.pendingBytes ≤ (arrived cfg [tkTx x stx.s.p.address sty.s.p.address p] (n.bus.seen.getD y 0)).length
  headY : cvis cfg (tkTx x stx.s.p.address sty.s.p.address p) (n.bus.seen.getD y 0) < 3
  stampY : sty.s.lastBusActivity = some lY
  lYp : lY < p ∨ lY ≤ n.bus.seen.getD y 0
  ttoY : p + (cfg.b33 : Nat) + 1 + 2 * (cfg.P : Nat) < lY + (sty.s.p.tokenLostTimeout : Nat)
  pB : p + ((cfg.ce 2 : Nat) : Int) + (cfg.P : Nat) ≤ B
  ptl : p ≤ tl
  seens : n.bus.seen.getD x 0 ≤ tl ∧ n.bus.seen.getD y 0 ≤ tl

/-- **Before the pass, the adopted station is polled**: nothing happens. -/
theorem tp0_listener {cfg : Cfg} {n : Net} {x y : Nat} {stx sty : NetStation} {lx ly : Int} {M : List Nat} {tl : Int}
    (h : TP0 cfg n x y stx sty lx ly M tl) (hok : cfg.Ok) (now : Int) (htl : tl ≤ now) (hown : n.bus.seen.getD y 0 < now)
    (hgx : now ≤ n.bus.seen.getD x 0 + (cfg.P : Nat)) :
    ∃ n' c, n.poll y now = (n', [], some (.ok c)) ∧ c.tx = none ∧ TP0 cfg n' x y stx sty lx ly M now := by
  have hr := hok.rate
  have hsY := h.soloY
  have htto := h.tto
  have hlyx := h.lyx
  have hwait := h.wait
  obtain ⟨n', c, hp, htx, hS, hseen⟩ := lone_idle_wait hsY hok none 0 h.sty_st now hown (by omega)
  obtain ⟨hbus, st0, hst0, hset, -⟩ := Net.poll_bus n y now n' [] c hp
  rw [htx, hsY.deliver hr now (Int.le_of_lt hown)] at hbus
  simp only at hbus
  rw [hsY.gx] at hst0
  cases hst0
  have hsxx : n'.bus.seen.getD x 0 = n.bus.seen.getD x 0 := by rw [hbus]; exact seen_set_other n.bus y x now h.yx
  have hsame : upSt sty c = sty := by
    have := hS.gx
    rw [hset, List.getElem?_set_self hsY.xl] at this
    exact Option.some.inj this
  exact ⟨n', c, hp, htx, h.soloX.otherPoll y now (upSt sty c) h.yx hbus hset, hS, h.stx_st, h.view, h.succ, h.ne, h.sty_st,
    h.yps, h.ypb, h.yx, h.lyx, h.tto, by rw [hsxx]; exact h.wait,
    by rw [hseen, hsxx]; exact ⟨Int.le_trans h.seens.1 htl, Int.le_refl _⟩⟩

/-- **Before the pass, the holder is polled**: within the synchronisation pause nothing happens; at its first poll
after it, it passes the token to the adopted station and supervises the pass. -/
theorem tp0_claimant {cfg : Cfg} {n : Net} {x y : Nat} {stx sty : NetStation} {lx ly : Int} {M : List Nat} {tl : Int}
    (h : TP0 cfg n x y stx sty lx ly M tl) (hok : cfg.Ok) (now : Int) (htl : tl ≤ now) (hown : n.bus.seen.getD x 0 < now)
    (hgx : now ≤ n.bus.seen.getD x 0 + (cfg.P : Nat)) :
    ∃ n' c, n.poll x now = (n', [], some (.ok c)) ∧
      ((c.tx = none ∧ TP0 cfg n' x y (upSt stx c) sty lx ly M now) ∨
       (c.tx = some (tokenBytes sty.s.p.address stx.s.p.address) ∧
          TP1 cfg n' x y (upSt stx c) sty now ly M (lx + 2 * (cfg.b33 : Nat) + 2 * (cfg.P : Nat) + 1) now)) := by
  have hr := hok.rate
  have hc2 := cfg.ce2 hr
  have hc0 := cfg.ce_pos hr 0
  have hs := h.soloX
  have hsY := h.soloY
  have hb33 := hs.b33
  have hlyx := h.lyx
  have hwait := h.wait
  have htto := h.tto
  have hno : stx.s.st ≠ .offline ∧ stx.s.st ≠ .passiveIdle := by rw [h.stx_st]; simp
  have hup : upSt stx { s := stx.s, apps := stx.apps, rx := [] } = stx := by unfold upSt; rw [← hs.rx]
  have hxy : x ≠ y := Ne.symm h.yx
  by_cases hw : now ≤ lx + (cfg.b33 : Nat)
  · -- still within the pause
    obtain ⟨n', hp, hS, hseen⟩ : ∃ n', n.poll x now = (n', [], some (.ok { s := stx.s, apps := stx.apps, rx := [] })) ∧
        Solo cfg n' x stx lx ∧ n'.bus.seen.getD x 0 = now := by
      by_cases hle : now ≤ lx
      · exact solo_ongoing hs hr now hown hle hno.1 hno.2
      · have hdw : dispatch { s := stx.s, apps := stx.apps, rx := [] } now = .ok { s := stx.s, apps := stx.apps, rx := [] } := by
          unfold dispatch
          simp only [h.stx_st]
          exact pass_waits _ now lx false .first h.stx_st hs.stamp (by rw [hb33]; exact hw)
        obtain ⟨n', hp, hS, hseen⟩ := solo_step hs hr now hown (by omega) _ hno.1 hno.2 hdw lx hs.son rfl rfl hs.stamp
          (Int.le_refl _) (fun b hb => by cases hb)
        rw [hup] at hS
        exact ⟨n', hp, hS, hseen⟩
    obtain ⟨hbus, st0, hst0, hset, -⟩ := Net.poll_bus n x now n' [] _ hp
    rw [hs.deliver hr now (Int.le_of_lt hown)] at hbus
    simp only at hbus
    rw [hs.gx] at hst0
    cases hst0
    have hsy : n'.bus.seen.getD y 0 = n.bus.seen.getD y 0 := by rw [hbus]; exact seen_set_other n.bus x y now hxy
    refine ⟨n', _, hp, .inl ⟨rfl, ?_⟩⟩
    rw [hup] at hset ⊢
    exact ⟨hS, hsY.otherPoll x now stx hxy hbus hset, h.stx_st, h.view, h.succ, h.ne, h.sty_st, h.yps, h.ypb, h.yx, h.lyx,
      h.tto, by rw [hseen]; exact hw, by rw [hseen, hsy]; exact ⟨Int.le_refl _, Int.le_trans h.seens.2 htl⟩⟩
  · -- the pass
    have hlt : lx < now := by omega
    obtain ⟨c', hc', hinv', -⟩ := pollInner_good { s := stx.s, apps := stx.apps, rx := [] } now false hs.inv rfl
    have hpd : stx.s.poll stx.apps now false [] = .ok c' := hc'
    rw [poll_dispatch stx.s stx.apps now [] hs.son hno.1 hno.2 (by intro l0 hl0; rw [hs.stamp] at hl0; cases hl0; exact hlt)] at hpd
    simp only [List.length_nil, checkBus_nil] at hpd
    have hd := hpd
    unfold dispatch at hpd
    simp only [h.stx_st] at hpd
    obtain ⟨a1, a2, -, a4, a5, a6, a7⟩ := doPassToken_exact { s := stx.s, apps := stx.apps, rx := [] } c' now lx false .first
      h.stx_st rfl hs.stamp (by rw [hb33]; omega) hpd
    rcases a7 with ⟨_, _, hf, -⟩ | ⟨b1, b2, b3, b4⟩
    · cases hf
    simp only at b1 b2 b3 b4
    have hns : stx.s.ring.ns = sty.s.p.address := by rw [h.view.ns.1]; exact h.succ
    rw [hns] at b1 b2 b3
    have hv2 : RingView M stx.s.p.address (stx.s.ring.witness stx.s.p.address sty.s.p.address) := by
      have := h.view.witness
      rw [h.succ] at this
      exact this
    have hst' : c'.s.st = .checkTokenPass .first := by
      rw [b3, hv2.ns.1, h.succ, if_neg h.ne]
    have hl' : c'.s.lastBusActivity = some (now + (cfg.b33 : Nat)) := by
      rw [b4, show stx.s.p.bits (11 * 3) = cfg.b33 from hs.bits 33]
    obtain ⟨n', hp, hS, hseen⟩ := solo_step hs hr now hown hlt c' hno.1 hno.2 hd (now + (cfg.b33 : Nat)) (a5.trans hs.son) a4 a1 hl'
      (by omega) (fun b hb => by
        rw [b1] at hb
        cases hb
        refine ⟨by show 0 < 3; omega, ?_⟩
        show now + ((cfg.ce 2 : Nat) : Int) ≤ _
        omega)
    obtain ⟨hbus, st0, hst0, hset, -⟩ := Net.poll_bus n x now n' [] c' hp
    rw [hs.deliver hr now (Int.le_of_lt hown), b1] at hbus
    simp only at hbus
    rw [hs.gx] at hst0
    cases hst0
    have hrate : 0 < n.bus.rate := by rw [hs.rate]; exact hr
    obtain ⟨old', e1, e2, e3, e4, e5, e6⟩ := Bus.send_txs { n.bus with seen := n.bus.seen.set x now } x now
      (tokenBytes sty.s.p.address stx.s.p.address) hs.drops hrate
    have hsy : n'.bus.seen.getD y 0 = n.bus.seen.getD y 0 := by
      rw [hbus, e4]; exact seen_set_other n.bus x y now hxy
    have haddr : (upSt stx c').s.p.address = stx.s.p.address := by show c'.s.p.address = _; rw [a4]
    have hv0 : cvis cfg (tkTx x stx.s.p.address sty.s.p.address now) (n.bus.seen.getD y 0) = 0 := by
      apply cvis_zero
      unfold tkTx
      simp only
      have := h.seens.2
      omega
    refine ⟨n', c', hp, .inr ⟨b1, ?_⟩⟩
    refine ⟨hS, hst', by rw [haddr]; exact h.succ, by rw [hset, List.getElem?_set_ne hxy]; exact hsY.gx,
      by rw [hset, List.length_set]; exact hsY.xl, by rw [hbus, e4]; simp only [List.length_set]; exact hsY.xs,
      ⟨hsY.online, hsY.alive, hsY.inv, hsY.son⟩, h.sty_st, by rw [haddr]; exact h.yps, by rw [haddr]; exact h.ne, h.yx,
      ?_, ?_, ?_, ?_, hsY.stamp, .inl (by omega), by omega, by omega, Int.le_refl _, ?_⟩
    · rw [haddr]
      refine ⟨old', by rw [hbus, e1]; rfl, ?_⟩
      intro o ho
      have hm := e2 o ho
      rw [hsy]
      rcases hs.done o hm with hso | hdn
      · refine ⟨by have := hs.ends o hm hso; omega, ?_⟩
        rcases hsY.done o hm with h1 | h1
        · exact .inl h1
        · exact .inr h1
      · refine ⟨by have := h.seens.1; omega, ?_⟩
        rcases hsY.done o hm with h1 | h1
        · exact .inl h1
        · exact .inr h1
    · rw [haddr, hsy]
      unfold arrived
      simp only [List.map_cons, List.map_nil, List.flatten_cons, List.flatten_nil, List.append_nil]
      rw [hv0, List.take_zero]; exact hsY.rx
    · rw [h.ypb]; exact Nat.zero_le _
    · rw [haddr, hsy, hv0]; omega
    · rw [hseen, hsy]; exact ⟨Int.le_refl _, Int.le_trans h.seens.2 htl⟩

/-- **Token on the bus, the former holder is polled**: its slot time has not run out; nothing happens. -/
theorem tp1_claimant {cfg : Cfg} {n : Net} {x y : Nat} {stx sty : NetStation} {p lY : Int} {M : List Nat} {B tl : Int}
    (h : TP1 cfg n x y stx sty p lY M B tl) (hok : cfg.Ok) (now : Int) (htl : tl ≤ now) (hown : n.bus.seen.getD x 0 < now)
    (hgy : now ≤ n.bus.seen.getD y 0 + (cfg.P : Nat)) :
    ∃ n' c, n.poll x now = (n', [], some (.ok c)) ∧ c.tx = none ∧ TP1 cfg n' x y stx sty p lY M B now := by
  have hr := hok.rate
  have hmar := hok.margin
  have hc2 := cfg.ce2 hr
  have hs := h.soloX
  have hno : stx.s.st ≠ .offline ∧ stx.s.st ≠ .passiveIdle := by rw [h.stx_st]; simp
  have hup : upSt stx { s := stx.s, apps := stx.apps, rx := [] } = stx := by unfold upSt; rw [← hs.rx]
  have hxy : x ≠ y := Ne.symm h.yx
  have hys : n.bus.seen.getD y 0 < p + ((cfg.ce 2 : Nat) : Int) := by
    by_cases h' : n.bus.seen.getD y 0 < p + ((cfg.ce 2 : Nat) : Int)
    · exact h'
    · have h' : p + ((cfg.ce 2 : Nat) : Int) ≤ n.bus.seen.getD y 0 := by omega
      have := (cvis_spec cfg (tkTx x stx.s.p.address sty.s.p.address p) (n.bus.seen.getD y 0) 2
        (by show 2 < 3; omega)).2 h'
      have := h.headY
      omega
  obtain ⟨n', hp, hS, hseen⟩ : ∃ n', n.poll x now = (n', [], some (.ok { s := stx.s, apps := stx.apps, rx := [] })) ∧
      Solo cfg n' x stx (p + (cfg.b33 : Nat)) ∧ n'.bus.seen.getD x 0 = now := by
    by_cases hle : now ≤ p + (cfg.b33 : Nat)
    · exact solo_ongoing hs hr now hown hle hno.1 hno.2
    · have hlt : p + (cfg.b33 : Nat) < now := by omega
      obtain ⟨c', hc', -, -⟩ := pollInner_good { s := stx.s, apps := stx.apps, rx := [] } now false hs.inv rfl
      have hpd : stx.s.poll stx.apps now false [] = .ok c' := hc'
      rw [poll_dispatch stx.s stx.apps now [] hs.son hno.1 hno.2 (by intro l0 hl0; rw [hs.stamp] at hl0; cases hl0; exact hlt)] at hpd
      simp only [List.length_nil, checkBus_nil] at hpd
      have hd := hpd
      unfold dispatch at hpd
      simp only [h.stx_st] at hpd
      have hcc : c' = { s := stx.s, apps := stx.apps, rx := [] } := by
        rcases doCheckTokenPass_waits { s := stx.s, apps := stx.apps, rx := [] } now (p + (cfg.b33 : Nat)) .first c' h.stx_st
          hs.stamp (by omega) (by show ¬ now > p + (cfg.b33 : Nat) + ((stx.s.p.slotTime : Nat) : Int); rw [hs.slot]; omega) hpd
          with ⟨rx', ret, hrx, hc⟩ | ⟨-, rx', x0, rest, ret, hrx⟩
        · have hrx' : receiveAll [] = .done rx' [] ret := hrx
          rw [receiveAll_nil] at hrx'
          cases hrx'
          exact hc
        · have hrx' : receiveAll [] = .done rx' (x0 :: rest) ret := hrx
          rw [receiveAll_nil] at hrx'
          cases hrx'
      rw [hcc] at hd
      obtain ⟨n', hp, hS, hseen⟩ := solo_step hs hr now hown hlt _ hno.1 hno.2 hd (p + (cfg.b33 : Nat)) hs.son rfl rfl hs.stamp
        (Int.le_refl _) (fun b hb => by cases hb)
      rw [hup] at hS
      exact ⟨n', hp, hS, hseen⟩
  obtain ⟨hbus, st0, hst0, hset, -⟩ := Net.poll_bus n x now n' [] _ hp
  rw [hs.deliver hr now (Int.le_of_lt hown)] at hbus
  simp only at hbus
  rw [hs.gx] at hst0
  cases hst0
  rw [hup] at hset
  have hsy : n'.bus.seen.getD y 0 = n.bus.seen.getD y 0 := by rw [hbus]; exact seen_set_other n.bus x y now hxy
  refine ⟨n', _, hp, rfl, hS, h.stx_st, h.succ, by rw [hset, List.getElem?_set_ne hxy]; exact h.gy,
    by rw [hset, List.length_set]; exact h.yl, by rw [hbus]; simp only [List.length_set]; exact h.ys, h.yon, h.sty_st, h.yps,
    h.ne, h.yx, (by
      obtain ⟨dn, hd1, hd2⟩ := h.split
      exact ⟨dn, by rw [hbus]; exact hd1, fun o ho => by rw [hsy]; exact hd2 o ho⟩), by rw [hsy]; exact h.rxY, by rw [hsy]; exact h.pendY,
    by rw [hsy]; exact h.headY, h.stampY, by rw [hsy]; exact h.lYp, h.ttoY, h.pB, Int.le_trans h.ptl htl,
    by rw [hseen, hsy]; exact ⟨Int.le_refl _, Int.le_trans h.seens.2 htl⟩⟩

/-- **Token on the bus, the adopted station is polled**: while the token is incomplete it keeps it in its buffer; once it
is complete it accepts it — the token comes from its previous station — and holds the token (`UseToken`). -/
theorem tp1_listener {cfg : Cfg} {n : Net} {x y : Nat} {stx sty : NetStation} {p lY : Int} {M : List Nat} {B tl : Int}
    (h : TP1 cfg n x y stx sty p lY M B tl) (hok : cfg.Ok) (now : Int) (htl : tl ≤ now) (hown : n.bus.seen.getD y 0 < now)
    (hgy : now ≤ n.bus.seen.getD y 0 + (cfg.P : Nat)) :
    ∃ n' inc c, n.poll y now = (n', inc, some (.ok c)) ∧ c.tx = none ∧ c.s.p = sty.s.p ∧
      ((∃ lY', TP1 cfg n' x y stx (upSt sty c) p lY' M B now) ∨
       (now ≤ B ∧ c.s.st = .useToken ⟨now, none⟩ false)) := by
  have hr := hok.rate
  have hc2 := cfg.ce2 hr
  have hc0 := cfg.ce_pos hr 0
  have hs := h.soloX
  have hptl := h.ptl
  have hpB := h.pB
  have httoY := h.ttoY
  obtain ⟨hon, hal, hinv, hson⟩ := h.yon
  obtain ⟨dn, htxs0, hdn⟩ := h.split
  have hxy : x ≠ y := Ne.symm h.yx
  have haL : stx.s.p.address < 126 := by have := hs.inv.addr; have := hs.inv.hsa; omega
  have haH : sty.s.p.address < 126 := by have := hinv.addr; have := hinv.hsa; omega
  obtain ⟨tk, htk⟩ : ∃ tk, tk = tkTx x stx.s.p.address sty.s.p.address p := ⟨_, rfl⟩
  have htxs : n.bus.txs = dn ++ [tk] := by rw [htk]; exact htxs0
  have hrxY : sty.rx = arrived cfg [tk] (n.bus.seen.getD y 0) := by rw [htk]; exact h.rxY
  have hpendY : sty.s.pendingBytes ≤ (arrived cfg [tk] (n.bus.seen.getD y 0)).length := by rw [htk]; exact h.pendY
  have hheadY : cvis cfg tk (n.bus.seen.getD y 0) < 3 := by rw [htk]; exact h.headY
  have hlen : tk.bytes.length = 3 := by rw [htk]; rfl
  have hstart : tk.start = p := by rw [htk]; rfl
  have hsender : tk.sender = x := by rw [htk]; rfl
  have htel : telOf tk = .token (UInt8.ofNat sty.s.p.address) (UInt8.ofNat stx.s.p.address) := by
    have := telOf_token tk stx.s.p.address M (by rw [h.succ, htk]; rfl)
    rw [this]; unfold tokTel; rw [h.succ]
  have hwire : tk.bytes = (telOf tk).wire ∧ (telOf tk).Valid ∧ 0 < tk.bytes.length := by
    rw [htel]
    exact ⟨by rw [htk]; rfl, trivial, by rw [hlen]; omega⟩
  have hsn : n.bus.seen.getD y 0 ≤ now := Int.le_of_lt hown
  have hys : n.bus.seen.getD y 0 < p + ((cfg.ce 2 : Nat) : Int) := by
    by_cases h' : n.bus.seen.getD y 0 < p + ((cfg.ce 2 : Nat) : Int)
    · exact h'
    · have h' : p + ((cfg.ce 2 : Nat) : Int) ≤ n.bus.seen.getD y 0 := by omega
      have := (cvis_spec cfg tk (n.bus.seen.getD y 0) 2 (by rw [hlen]; omega)).2 (by rw [hstart]; exact h')
      omega
  have hbc : n.bus.Chained n.bus.txs := by
    unfold Bus.Chained
    have := hs.chained
    unfold CChained at this
    refine this.imp ?_
    intro o t hot
    unfold Bus.txEnd
    rw [byteEnd_cfg n.bus cfg hs.rate]; exact hot
  obtain ⟨inc, hdv, hcat⟩ : ∃ inc, n.bus.deliver y now = ({ n.bus with seen := n.bus.seen.set y now }, inc) ∧
      arrived cfg [tk] (n.bus.seen.getD y 0) ++ inc = arrived cfg [tk] now := by
    refine ⟨_, Bus.deliver_chained n.bus (by rw [hs.rate]; exact hr) hs.corrupt y now hbc hs.live, ?_⟩
    rw [htxs, List.map_append, List.flatten_append,
      seg_done cfg hr n.bus hs.rate y _ now hsn dn (fun o ho => (hdn o ho).2.imp id (fun hh =>
        ⟨hs.pos o (by rw [htxs]; exact List.mem_append_left _ ho), hh⟩)), List.nil_append]
    exact arrived_extend cfg hr n.bus hs.rate y _ now hsn [tk] (List.pairwise_singleton _ _)
      (fun t ht => by simp only [List.mem_singleton] at ht; subst ht; rw [hlen]; omega)
      (fun t ht => by simp only [List.mem_singleton] at ht; subst ht; rw [hsender]; exact hxy)
  have hphy : n.bus.transmitting y now = false := by
    unfold Bus.transmitting
    cases hf : n.bus.txs.reverse.find? (fun t => decide (t.sender = y)) with
    | none => rfl
    | some t =>
      have hmem : t ∈ n.bus.txs := List.mem_reverse.1 (List.mem_of_find?_eq_some hf)
      have hst : t.sender = y := by simpa using List.find?_some hf
      rw [htxs] at hmem
      rcases List.mem_append.1 hmem with hm | hm
      · have := (hdn t hm).1
        simp only [decide_eq_false_iff_not]
        unfold Bus.txEnd
        rw [byteEnd_cfg n.bus cfg hs.rate]
        unfold cEnd at this
        omega
      · simp only [List.mem_singleton] at hm; subst hm; rw [hsender] at hst; exact absurd hst hxy
  have hrx' : sty.rx ++ inc = arrived cfg [tk] now := by rw [hrxY]; exact hcat
  have hA : ∀ a, arrived cfg [tk] a = tk.bytes.take (cvis cfg tk a) := by
    intro a
    unfold arrived
    simp only [List.map_cons, List.map_nil, List.flatten_cons, List.flatten_nil, List.append_nil]
  have hlt : lY < now := by rcases h.lYp with e | e <;> omega
  have hlate : ∀ l0, sty.s.lastBusActivity = some l0 → l0 < now := by
    intro l0 hl0; rw [h.stampY] at hl0; cases hl0; exact hlt
  have hto : 0 < sty.s.p.tokenLostTimeout := by rcases h.lYp with e | e <;> omega
  have hnow : now < lY + (sty.s.p.tokenLostTimeout : Nat) := by omega
  have hV3 := cvis_le cfg tk now
  obtain ⟨k, b', d, ret, hrec, hk, hdm, hfl, hfull, hb', hhead, hnil, hlastflag, hd0⟩ :=
    consume cfg hr telOf [tk] now (List.pairwise_singleton _ _)
      (fun t ht => by simp only [List.mem_singleton] at ht; subst ht; exact hwire)
  simp only [List.length_singleton] at hk
  obtain ⟨f1, f2, f3, f4, -⟩ := checkBA_fields sty.s now (arrived cfg [tk] now).length
  by_cases hV : cvis cfg tk now < 3
  · -- incomplete
    have hk0 : k = 0 := by
      rcases Nat.lt_or_ge k 1 with h' | h'
      · omega
      · have hk1 : k = 1 := by omega
        have := hfull tk (by rw [hk1]; simp)
        omega
    subst hk0
    have hd : d = [] := by simpa using hdm
    subst hd
    simp only [List.drop_zero] at hb'
    subst hb'
    have hpoll := idle_poll_partialA sty.s sty.apps now (arrived cfg [tk] now) (arrived cfg [tk] now) ret none 0 lY hson
      h.sty_st h.stampY hlt hto (.inr hnow) hrec
    obtain ⟨c', hc', hinv', -⟩ := pollInner_good { s := sty.s, apps := sty.apps, rx := arrived cfg [tk] now } now false hinv rfl
    have hc'' : sty.s.poll sty.apps now false (arrived cfg [tk] now) = .ok c' := hc'
    rw [hpoll] at hc''
    cases hc''
    obtain ⟨l1, hl1, hle1, hcase⟩ := checkBA_stamp sty.s now (arrived cfg [tk] now).length hlate (.inr ⟨lY, h.stampY⟩)
    have hpoll' : sty.s.poll sty.apps now (Bus.transmitting { n.bus with seen := n.bus.seen.set y now } y now) (sty.rx ++ inc) =
        .ok { s := checkBusActivity sty.s now (arrived cfg [tk] now).length, apps := sty.apps, rx := arrived cfg [tk] now } := by
      rw [transmitting_seen, hphy, hrx']; exact hpoll
    have hpe := Net.poll_eq n y now sty _ inc _ h.gy hal hon hdv hpoll'
    obtain ⟨n', hpe', hbus, hstn⟩ : ∃ n', n.poll y now = (n', inc, some (.ok { s := checkBusActivity sty.s now (arrived cfg [tk] now).length, apps := sty.apps, rx := arrived cfg [tk] now })) ∧
        n'.bus = { n.bus with seen := n.bus.seen.set y now } ∧
        n'.stations = n.stations.set y (upSt sty { s := checkBusActivity sty.s now (arrived cfg [tk] now).length, apps := sty.apps, rx := arrived cfg [tk] now }) := ⟨_, hpe, rfl, rfl⟩
    have hseen : n'.bus.seen.getD y 0 = now := by rw [hbus]; exact seen_set_self _ _ _ h.ys
    have hsx : n'.bus.seen.getD x 0 = n.bus.seen.getD x 0 := by rw [hbus]; exact seen_set_other n.bus y x now h.yx
    have haddr : (upSt sty { s := checkBusActivity sty.s now (arrived cfg [tk] now).length, apps := sty.apps, rx := arrived cfg [tk] now }).s.p.address = sty.s.p.address := by
      show (checkBusActivity sty.s now _).p.address = _; rw [f2]
    have hlenle : (arrived cfg [tk] (n.bus.seen.getD y 0)).length ≤ (arrived cfg [tk] now).length := by
      rw [← hcat, List.length_append]; omega
    have hl1ge : lY ≤ l1 := by
      rcases hcase with ⟨_, e⟩ | ⟨_, e⟩
      · omega
      · rw [h.stampY] at e; cases e; exact Int.le_refl _
    refine ⟨n', inc, _, hpe', rfl, f2, .inl ⟨l1, ?_⟩⟩
    refine ⟨hs.otherPoll y now _ h.yx hbus hstn, h.stx_st, by rw [haddr]; exact h.succ,
      by rw [hstn]; exact List.getElem?_set_self h.yl, by rw [hstn, List.length_set]; exact h.yl,
      by rw [hbus]; simp only [List.length_set]; exact h.ys,
      ⟨hon, hal, hinv', by show (checkBusActivity sty.s now _).online = true; rw [f4]; exact hson⟩,
      by show (checkBusActivity sty.s now _).st = _; rw [f1]; exact h.sty_st,
      by show (checkBusActivity sty.s now _).ring.ps = _; rw [f3]; exact h.yps,
      by rw [haddr]; exact h.ne, h.yx, ?_, ?_, ?_, ?_, hl1, .inr (by rw [hseen]; exact hle1), ?_, h.pB,
      Int.le_trans h.ptl htl, by rw [hseen, hsx]; exact ⟨Int.le_trans h.seens.1 htl, Int.le_refl _⟩⟩
    · refine ⟨dn, by rw [haddr, hbus]; exact htxs0, fun o ho => ⟨(hdn o ho).1, ?_⟩⟩
      rw [hseen]
      exact (hdn o ho).2.imp id (fun hh => by omega)
    · rw [haddr, hseen, ← htk]; rfl
    · rw [haddr, hseen, ← htk]
      show (checkBusActivity sty.s now _).pendingBytes ≤ _
      unfold checkBusActivity
      split
      · exact Nat.le_refl _
      · omega
    · rw [haddr, hseen, ← htk]; exact hV
    · show _ < l1 + (((checkBusActivity sty.s now _).p.tokenLostTimeout : Nat) : Int)
      rw [f2]; omega
  · -- complete: the token is accepted
    have hk1 : k = 1 := by
      rcases Nat.lt_or_ge k 1 with h' | h'
      · have hk0 : k = 0 := by omega
        subst hk0
        have := (hhead tk [] (by simp)).1
        omega
      · omega
    subst hk1
    have hb0 : b' = [] := hnil (by simp)
    subst hb0
    simp only [List.take_succ_cons, List.take_zero, List.map_cons, List.map_nil] at hdm
    obtain ⟨t0, fl0, hd1⟩ : ∃ t0 fl0, d = [(t0, fl0)] := by
      cases d with
      | nil => simp at hdm
      | cons a rest =>
        cases rest with
        | nil => exact ⟨a.1, a.2, rfl⟩
        | cons b r2 => simp at hdm
    subst hd1
    simp only [List.map_cons, List.map_nil, List.cons.injEq, and_true] at hdm
    have hfl1 : fl0 = true := by
      obtain ⟨pre, t1, e⟩ := hlastflag (by simp) rfl
      cases pre with
      | nil => simp only [List.nil_append, List.cons.injEq, Prod.mk.injEq, and_true] at e; exact e.2
      | cons a r2 =>
        have := congrArg List.length e
        simp at this
    subst hfl1
    rw [hdm, htel] at hrec
    have hpoll := idle_poll_accepts sty.s sty.apps now (arrived cfg [tk] now) [] none 0 (UInt8.ofNat sty.s.p.address)
      (UInt8.ofNat stx.s.p.address) ret hson h.sty_st hlate hto (.inr ⟨lY, h.stampY, hnow⟩) hrec (u8n _ (by omega))
      (by rw [u8n _ (by omega)]; exact Ne.symm h.ne) (.inl (by rw [u8n _ (by omega)]; exact h.yps.symm))
    have hpoll' : sty.s.poll sty.apps now (Bus.transmitting { n.bus with seen := n.bus.seen.set y now } y now) (sty.rx ++ inc) =
        sty.s.poll sty.apps now false (arrived cfg [tk] now) := by
      rw [transmitting_seen, hphy, hrx']
    rw [hpoll] at hpoll'
    have hpe := Net.poll_eq n y now sty _ inc _ h.gy hal hon hdv hpoll'
    exact ⟨_, inc, _, hpe, rfl, rfl, .inr ⟨by omega, rfl⟩⟩

/-! ## The run -/

/-- Run from the adoption to the acceptance of the token: the holder `x` transmits nothing but the token to `aH`; the
adopted station `y` transmits nothing and holds the token (`UseToken`) no later than `B`. -/
def PassRun (x y aL aH : Nat) (B : Int) : Net → List (Nat × Int) → Prop
  | _, [] => True
  | n, (i, now) :: rest =>
    ∃ n' inc c, n.poll i now = (n', inc, some (.ok c)) ∧
      ((i = x ∧ (c.tx = none ∨ c.tx = some (tokenBytes aH aL)) ∧ PassRun x y aL aH B n' rest) ∨
       (i = y ∧ c.tx = none ∧ (PassRun x y aL aH B n' rest ∨ (now ≤ B ∧ c.s.st = .useToken ⟨now, none⟩ false))))

/-- Before the pass or token on the bus. -/
def TPass (cfg : Cfg) (n : Net) (x y : Nat) (stx sty : NetStation) (lx : Int) (M : List Nat) (tl : Int) : Prop :=
  (∃ ly, TP0 cfg n x y stx sty lx ly M tl) ∨
  (∃ p lY, TP1 cfg n x y stx sty p lY M (lx + 2 * (cfg.b33 : Nat) + 2 * (cfg.P : Nat) + 1) tl)

theorem TPass.info {cfg : Cfg} {n : Net} {x y : Nat} {stx sty : NetStation} {lx : Int} {M : List Nat} {tl : Int}
    (h : TPass cfg n x y stx sty lx M tl) :
    n.stations[x]? = some stx ∧ n.stations[y]? = some sty ∧ x < n.stations.length ∧ y < n.stations.length ∧ y ≠ x := by
  rcases h with ⟨ly, h⟩ | ⟨p, lY, h⟩
  · exact ⟨h.soloX.gx, h.soloY.gx, h.soloX.xl, h.soloY.xl, h.yx⟩
  · exact ⟨h.soloX.gx, h.gy, h.soloX.xl, h.yl, h.yx⟩

/-- **The adopted station gets the token**: under any schedule that polls both stations at least every `P`, the
holder waits for the synchronisation pause, passes the token once and supervises the pass without its slot time running
out; the adopted station receives the token in whatever pieces it arrives, accepts it and holds it no later than
`lx + 2·bits 33 + 2P + 1`. -/
theorem pass_run {cfg : Cfg} (hok : cfg.Ok) (x y : Nat) (lx : Int) (M : List Nat) (aL aH : Nat) :
    ∀ (evs : List (Nat × Int)) (n : Net) (stx sty : NetStation) (tl : Int),
    TPass cfg n x y stx sty lx M tl → n.stations.length = 2 → stx.s.p.address = aL → sty.s.p.address = aH →
    SchedN cfg.P n tl evs →
    PassRun x y aL aH (lx + 2 * (cfg.b33 : Nat) + 2 * (cfg.P : Nat) + 1) n evs := by
  intro evs
  induction evs with
  | nil => intro _ _ _ _ _ _ _ _ _; trivial
  | cons ev rest ih =>
    intro n stx sty tl hq hN haL haH hs
    obtain ⟨i, now⟩ := ev
    obtain ⟨hi, htl, hown, hgap, hrest⟩ := hs
    obtain ⟨hgx0, hgy0, hxl, hyl, hyx⟩ := hq.info
    have hgx := hgap x hxl
    have hgy := hgap y hyl
    have hixy : i = x ∨ i = y := by omega
    have hlenOf : ∀ n' inc c, n.poll i now = (n', inc, some (.ok c)) → n'.stations.length = 2 := by
      intro n' inc c hp
      have := Net.poll_len n i now; rw [hp] at this; simp only at this; rw [this]; exact hN
    rcases hixy with rfl | rfl
    · rcases hq with ⟨ly, h⟩ | ⟨p, lY, h⟩
      · obtain ⟨n', c, hp, h'⟩ := tp0_claimant h hok now htl hown hgx
        have hn' : (n.poll i now).1 = n' := by rw [hp]
        rw [hn'] at hrest
        have hpp := Net.poll_params n i now n' [] c stx hp hgx0
        have haL' : (upSt stx c).s.p.address = aL := by show c.s.p.address = _; rw [hpp]; exact haL
        rcases h' with ⟨htx, h'⟩ | ⟨htx, h'⟩
        · exact ⟨n', [], c, hp, .inl ⟨rfl, .inl htx, ih n' (upSt stx c) sty now (.inl ⟨ly, h'⟩) (hlenOf _ _ _ hp) haL' haH hrest⟩⟩
        · exact ⟨n', [], c, hp, .inl ⟨rfl, .inr (by rw [htx, haL, haH]),
            ih n' (upSt stx c) sty now (.inr ⟨now, ly, h'⟩) (hlenOf _ _ _ hp) haL' haH hrest⟩⟩
      · obtain ⟨n', c, hp, htx, h'⟩ := tp1_claimant h hok now htl hown hgy
        have hn' : (n.poll i now).1 = n' := by rw [hp]
        rw [hn'] at hrest
        exact ⟨n', [], c, hp, .inl ⟨rfl, .inl htx, ih n' stx sty now (.inr ⟨p, lY, h'⟩) (hlenOf _ _ _ hp) haL haH hrest⟩⟩
    · rcases hq with ⟨ly, h⟩ | ⟨p, lY, h⟩
      · obtain ⟨n', c, hp, htx, h'⟩ := tp0_listener h hok now htl hown hgx
        have hn' : (n.poll i now).1 = n' := by rw [hp]
        rw [hn'] at hrest
        exact ⟨n', [], c, hp, .inr ⟨rfl, htx, .inl (ih n' stx sty now (.inl ⟨ly, h'⟩) (hlenOf _ _ _ hp) haL haH hrest)⟩⟩
      · obtain ⟨n', inc, c, hp, htx, hpp, h'⟩ := tp1_listener h hok now htl hown hgy
        have hn' : (n.poll i now).1 = n' := by rw [hp]
        rw [hn'] at hrest
        have haH' : (upSt sty c).s.p.address = aH := by show c.s.p.address = _; rw [hpp]; exact haH
        rcases h' with ⟨lY', h'⟩ | ⟨hB, hst⟩
        · exact ⟨n', inc, c, hp, .inr ⟨rfl, htx, .inl (ih n' stx (upSt sty c) now (.inr ⟨p, lY', h'⟩) (hlenOf _ _ _ hp) haL haH' hrest)⟩⟩
        · exact ⟨n', inc, c, hp, .inr ⟨rfl, htx, .inr ⟨hB, hst⟩⟩⟩

end PV
