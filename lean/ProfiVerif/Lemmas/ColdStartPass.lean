/-
The token pass to the adopted station: the holder (in `PassToken`, its view the two-station ring) waits for the
synchronisation pause and passes the token; the adopted station (in `ActiveIdle`, previous station = the holder)
receives it with arbitrary lag and becomes the token holder.  Helper lemmas (C02).
-/
import ProfiVerif.Lemmas.ColdStartChain

namespace PV
open StationGap TokenRing

/-- The token of `x` (address `aL`) to `aH`, sent at `p`. -/
def tkTx (x aL aH : Nat) (p : Int) : Transmission :=
  { start := p, sender := x, bytes := tokenBytes aH aL, dropped := false }

/-- **Before the pass**: the holder `x` (stamp `lx`) is in `PassToken`, its view is the ring `M` in which the adopted
station is its successor; the adopted station `y` (stamp `ly`) idles with `x` as previous station; both are up to date
with the log; `x` has not been polled after the end of its synchronisation pause. -/
structure TP0 (cfg : Cfg) (n : Net) (x y : Nat) (stx sty : NetStation) (lx ly : Int) (M : List Nat) (tl : Int) : Prop where
  soloX : Solo cfg n x stx lx
  soloY : Solo cfg n y sty ly
  stx_st : stx.s.st = .passToken false .first
  view : RingView M stx.s.p.address stx.s.ring
  succ : cycSucc stx.s.p.address M = sty.s.p.address
  ne : sty.s.p.address ≠ stx.s.p.address
  sty_st : sty.s.st = .activeIdle none none 0
  yps : sty.s.ring.ps = stx.s.p.address
  ypb : sty.s.pendingBytes = 0
  yx : y ≠ x
  lyx : lx ≤ ly + (cfg.P : Nat) + 1 ∧ ly ≤ lx
  tto : 2 * cfg.b33 + 4 * cfg.P + 4 ≤ sty.s.p.tokenLostTimeout
  wait : n.bus.seen.getD x 0 ≤ lx + (cfg.b33 : Nat)
  seens : n.bus.seen.getD x 0 ≤ tl ∧ n.bus.seen.getD y 0 ≤ tl

/-- **Token on the bus** (sent at `p`): the former holder supervises the pass (`CheckTokenPass`); the adopted station
`y` (stamp `lY`) holds exactly what has arrived of the token, which is incomplete. -/
structure TP1 (cfg : Cfg) (n : Net) (x y : Nat) (stx sty : NetStation) (p lY : Int) (M : List Nat) (B : Int) (tl : Int) : Prop where
  soloX : Solo cfg n x stx (p + (cfg.b33 : Nat))
  stx_st : stx.s.st = .checkTokenPass .first
  succ : cycSucc stx.s.p.address M = sty.s.p.address
  gy : n.stations[y]? = some sty
  yl : y < n.stations.length
  ys : y < n.bus.seen.length
  yon : sty.online = true ∧ sty.dead = false ∧ Inv sty.s sty.apps ∧ sty.s.online = true
  sty_st : sty.s.st = .activeIdle none none 0
  yps : sty.s.ring.ps = stx.s.p.address
  ne : sty.s.p.address ≠ stx.s.p.address
  yx : y ≠ x
  split : ∃ dn, n.bus.txs = dn ++ [tkTx x stx.s.p.address sty.s.p.address p] ∧
    ∀ o ∈ dn, cEnd cfg o ≤ p ∧ (o.sender = y ∨ cEnd cfg o ≤ n.bus.seen.getD y 0)
  rxY : sty.rx = arrived cfg [tkTx x stx.s.p.address sty.s.p.address p] (n.bus.seen.getD y 0)
  pendY : sty.s.pendingBytes ≤ (arrived cfg [tkTx x stx.s.p.address sty.s.p.address p] (n.bus.seen.getD y 0)).length
  headY : cvis cfg (tkTx x stx.s.p.address sty.s.p.address p) (n.bus.seen.getD y 0) < 3
  stampY : sty.s.lastBusActivity = some lY
  lYp : lY < p ∨ lY ≤ n.bus.seen.getD y 0
  ttoY : p + (cfg.b33 : Nat) + 1 + 2 * (cfg.P : Nat) < lY + (sty.s.p.tokenLostTimeout : Nat)
  pB : p + ((cfg.ce 2 : Nat) : Int) + (cfg.P : Nat) ≤ B
  ptl : p ≤ tl
  seens : n.bus.seen.getD x 0 ≤ tl ∧ n.bus.seen.getD y 0 ≤ tl

/-- **Before the pass, the adopted station is polled**: nothing happens. -/
theorem tp0_listener {cfg : Cfg} {n : Net} {x y : Nat} {stx sty : NetStation} {lx ly : Int} {M : List Nat} {tl : Int}
    (h : TP0 cfg n x y stx sty lx ly M tl) (hok : cfg.Ok) (now : Int) (htl : tl ≤ now) (hown : n.bus.seen.getD y 0 < now)
    (hgx : now ≤ n.bus.seen.getD x 0 + (cfg.P : Nat)) :
    ∃ n' c, n.poll y now = (n', [], some (.ok c)) ∧ c.tx = none ∧ TP0 cfg n' x y stx sty lx ly M now := by
  have hr := hok.rate
  have hsY := h.soloY
  have htto := h.tto
  have hlyx := h.lyx
  have hwait := h.wait
  obtain ⟨n', c, hp, htx, hS, hseen⟩ := lone_idle_wait hsY hok none 0 h.sty_st now hown (by omega)
  obtain ⟨hbus, st0, hst0, hset, -⟩ := Net.poll_bus n y now n' [] c hp
  rw [htx, hsY.deliver hr now (Int.le_of_lt hown)] at hbus
  simp only at hbus
  rw [hsY.gx] at hst0
  cases hst0
  have hsxx : n'.bus.seen.getD x 0 = n.bus.seen.getD x 0 := by rw [hbus]; exact seen_set_other n.bus y x now h.yx
  have hsame : upSt sty c = sty := by
    have := hS.gx
    rw [hset, List.getElem?_set_self hsY.xl] at this
    exact Option.some.inj this
  exact ⟨n', c, hp, htx, h.soloX.otherPoll y now (upSt sty c) h.yx hbus hset, hS, h.stx_st, h.view, h.succ, h.ne, h.sty_st,
    h.yps, h.ypb, h.yx, h.lyx, h.tto, by rw [hsxx]; exact h.wait,
    by rw [hseen, hsxx]; exact ⟨Int.le_trans h.seens.1 htl, Int.le_refl _⟩⟩

/-- **Before the pass, the holder is polled**: within the synchronisation pause nothing happens; at its first poll
after it, it passes the token to the adopted station and supervises the pass. -/
theorem tp0_claimant {cfg : Cfg} {n : Net} {x y : Nat} {stx sty : NetStation} {lx ly : Int} {M : List Nat} {tl : Int}
    (h : TP0 cfg n x y stx sty lx ly M tl) (hok : cfg.Ok) (now : Int) (htl : tl ≤ now) (hown : n.bus.seen.getD x 0 < now)
    (hgx : now ≤ n.bus.seen.getD x 0 + (cfg.P : Nat)) :
    ∃ n' c, n.poll x now = (n', [], some (.ok c)) ∧
      ((c.tx = none ∧ TP0 cfg n' x y (upSt stx c) sty lx ly M now) ∨
       (c.tx = some (tokenBytes sty.s.p.address stx.s.p.address) ∧
          TP1 cfg n' x y (upSt stx c) sty now ly M (lx + 2 * (cfg.b33 : Nat) + 2 * (cfg.P : Nat) + 1) now)) := by
  have hr := hok.rate
  have hc2 := cfg.ce2 hr
  have hc0 := cfg.ce_pos hr 0
  have hs := h.soloX
  have hsY := h.soloY
  have hb33 := hs.b33
  have hlyx := h.lyx
  have hwait := h.wait
  have htto := h.tto
  have hno : stx.s.st ≠ .offline ∧ stx.s.st ≠ .passiveIdle := by rw [h.stx_st]; simp
  have hup : upSt stx { s := stx.s, apps := stx.apps, rx := [] } = stx := by unfold upSt; rw [← hs.rx]
  have hxy : x ≠ y := Ne.symm h.yx
  by_cases hw : now ≤ lx + (cfg.b33 : Nat)
  · -- still within the pause
    obtain ⟨n', hp, hS, hseen⟩ : ∃ n', n.poll x now = (n', [], some (.ok { s := stx.s, apps := stx.apps, rx := [] })) ∧
        Solo cfg n' x stx lx ∧ n'.bus.seen.getD x 0 = now := by
      by_cases hle : now ≤ lx
      · exact solo_ongoing hs hr now hown hle hno.1 hno.2
      · have hdw : dispatch { s := stx.s, apps := stx.apps, rx := [] } now = .ok { s := stx.s, apps := stx.apps, rx := [] } := by
          unfold dispatch
          simp only [h.stx_st]
          exact pass_waits _ now lx false .first h.stx_st hs.stamp (by rw [hb33]; exact hw)
        obtain ⟨n', hp, hS, hseen⟩ := solo_step hs hr now hown (by omega) _ hno.1 hno.2 hdw lx hs.son rfl rfl hs.stamp
          (Int.le_refl _) (fun b hb => by cases hb)
        rw [hup] at hS
        exact ⟨n', hp, hS, hseen⟩
    obtain ⟨hbus, st0, hst0, hset, -⟩ := Net.poll_bus n x now n' [] _ hp
    rw [hs.deliver hr now (Int.le_of_lt hown)] at hbus
    simp only at hbus
    rw [hs.gx] at hst0
    cases hst0
    have hsy : n'.bus.seen.getD y 0 = n.bus.seen.getD y 0 := by rw [hbus]; exact seen_set_other n.bus x y now hxy
    refine ⟨n', _, hp, .inl ⟨rfl, ?_⟩⟩
    rw [hup] at hset ⊢
    exact ⟨hS, hsY.otherPoll x now stx hxy hbus hset, h.stx_st, h.view, h.succ, h.ne, h.sty_st, h.yps, h.ypb, h.yx, h.lyx,
      h.tto, by rw [hseen]; exact hw, by rw [hseen, hsy]; exact ⟨Int.le_refl _, Int.le_trans h.seens.2 htl⟩⟩
  · -- the pass
    have hlt : lx < now := by omega
    obtain ⟨c', hc', hinv', -⟩ := pollInner_good { s := stx.s, apps := stx.apps, rx := [] } now false hs.inv rfl
    have hpd : stx.s.poll stx.apps now false [] = .ok c' := hc'
    rw [poll_dispatch stx.s stx.apps now [] hs.son hno.1 hno.2 (by intro l0 hl0; rw [hs.stamp] at hl0; cases hl0; exact hlt)] at hpd
    simp only [List.length_nil, checkBus_nil] at hpd
    have hd := hpd
    unfold dispatch at hpd
    simp only [h.stx_st] at hpd
    obtain ⟨a1, a2, -, a4, a5, a6, a7⟩ := doPassToken_exact { s := stx.s, apps := stx.apps, rx := [] } c' now lx false .first
      h.stx_st rfl hs.stamp (by rw [hb33]; omega) hpd
    rcases a7 with ⟨_, _, hf, -⟩ | ⟨b1, b2, b3, b4⟩
    · cases hf
    simp only at b1 b2 b3 b4
    have hns : stx.s.ring.ns = sty.s.p.address := by rw [h.view.ns.1]; exact h.succ
    rw [hns] at b1 b2 b3
    have hv2 : RingView M stx.s.p.address (stx.s.ring.witness stx.s.p.address sty.s.p.address) := by
      have := h.view.witness
      rw [h.succ] at this
      exact this
    have hst' : c'.s.st = .checkTokenPass .first := by
      rw [b3, hv2.ns.1, h.succ, if_neg h.ne]
    have hl' : c'.s.lastBusActivity = some (now + (cfg.b33 : Nat)) := by
      rw [b4, show stx.s.p.bits (11 * 3) = cfg.b33 from hs.bits 33]
    obtain ⟨n', hp, hS, hseen⟩ := solo_step hs hr now hown hlt c' hno.1 hno.2 hd (now + (cfg.b33 : Nat)) (a5.trans hs.son) a4 a1 hl'
      (by omega) (fun b hb => by
        rw [b1] at hb
        cases hb
        refine ⟨by show 0 < 3; omega, ?_⟩
        show now + ((cfg.ce 2 : Nat) : Int) ≤ _
        omega)
    obtain ⟨hbus, st0, hst0, hset, -⟩ := Net.poll_bus n x now n' [] c' hp
    rw [hs.deliver hr now (Int.le_of_lt hown), b1] at hbus
    simp only at hbus
    rw [hs.gx] at hst0
    cases hst0
    have hrate : 0 < n.bus.rate := by rw [hs.rate]; exact hr
    obtain ⟨old', e1, e2, e3, e4, e5, e6⟩ := Bus.send_txs { n.bus with seen := n.bus.seen.set x now } x now
      (tokenBytes sty.s.p.address stx.s.p.address) hs.drops hrate
    have hsy : n'.bus.seen.getD y 0 = n.bus.seen.getD y 0 := by
      rw [hbus, e4]; exact seen_set_other n.bus x y now hxy
    have haddr : (upSt stx c').s.p.address = stx.s.p.address := by show c'.s.p.address = _; rw [a4]
    have hv0 : cvis cfg (tkTx x stx.s.p.address sty.s.p.address now) (n.bus.seen.getD y 0) = 0 := by
      apply cvis_zero
      unfold tkTx
      simp only
      have := h.seens.2
      omega
    refine ⟨n', c', hp, .inr ⟨b1, ?_⟩⟩
    refine ⟨hS, hst', by rw [haddr]; exact h.succ, by rw [hset, List.getElem?_set_ne hxy]; exact hsY.gx,
      by rw [hset, List.length_set]; exact hsY.xl, by rw [hbus, e4]; simp only [List.length_set]; exact hsY.xs,
      ⟨hsY.online, hsY.alive, hsY.inv, hsY.son⟩, h.sty_st, by rw [haddr]; exact h.yps, by rw [haddr]; exact h.ne, h.yx,
      ?_, ?_, ?_, ?_, hsY.stamp, .inl (by omega), by omega, by omega, Int.le_refl _, ?_⟩
    · rw [haddr]
      refine ⟨old', by rw [hbus, e1]; rfl, ?_⟩
      intro o ho
      have hm := e2 o ho
      rw [hsy]
      rcases hs.done o hm with hso | hdn
      · refine ⟨by have := hs.ends o hm hso; omega, ?_⟩
        rcases hsY.done o hm with h1 | h1
        · exact .inl h1
        · exact .inr h1
      · refine ⟨by have := h.seens.1; omega, ?_⟩
        rcases hsY.done o hm with h1 | h1
        · exact .inl h1
        · exact .inr h1
    · rw [haddr, hsy]
      unfold arrived
      simp only [List.map_cons, List.map_nil, List.flatten_cons, List.flatten_nil, List.append_nil]
      rw [hv0, List.take_zero]; exact hsY.rx
    · rw [h.ypb]; exact Nat.zero_le _
    · rw [haddr, hsy, hv0]; omega
    · rw [hseen, hsy]; exact ⟨Int.le_refl _, Int.le_trans h.seens.2 htl⟩

/-- **Token on the bus, the former holder is polled**: its slot time has not run out; nothing happens. -/
theorem tp1_claimant {cfg : Cfg} {n : Net} {x y : Nat} {stx sty : NetStation} {p lY : Int} {M : List Nat} {B tl : Int}
    (h : TP1 cfg n x y stx sty p lY M B tl) (hok : cfg.Ok) (now : Int) (htl : tl ≤ now) (hown : n.bus.seen.getD x 0 < now)
    (hgy : now ≤ n.bus.seen.getD y 0 + (cfg.P : Nat)) :
    ∃ n' c, n.poll x now = (n', [], some (.ok c)) ∧ c.tx = none ∧ TP1 cfg n' x y stx sty p lY M B now := by
  have hr := hok.rate
  have hmar := hok.margin
  have hc2 := cfg.ce2 hr
  have hs := h.soloX
  have hno : stx.s.st ≠ .offline ∧ stx.s.st ≠ .passiveIdle := by rw [h.stx_st]; simp
  have hup : upSt stx { s := stx.s, apps := stx.apps, rx := [] } = stx := by unfold upSt; rw [← hs.rx]
  have hxy : x ≠ y := Ne.symm h.yx
  have hys : n.bus.seen.getD y 0 < p + ((cfg.ce 2 : Nat) : Int) := by
    by_cases h' : n.bus.seen.getD y 0 < p + ((cfg.ce 2 : Nat) : Int)
    · exact h'
    · have h' : p + ((cfg.ce 2 : Nat) : Int) ≤ n.bus.seen.getD y 0 := by omega
      have := (cvis_spec cfg (tkTx x stx.s.p.address sty.s.p.address p) (n.bus.seen.getD y 0) 2
        (by show 2 < 3; omega)).2 h'
      have := h.headY
      omega
  obtain ⟨n', hp, hS, hseen⟩ : ∃ n', n.poll x now = (n', [], some (.ok { s := stx.s, apps := stx.apps, rx := [] })) ∧
      Solo cfg n' x stx (p + (cfg.b33 : Nat)) ∧ n'.bus.seen.getD x 0 = now := by
    by_cases hle : now ≤ p + (cfg.b33 : Nat)
    · exact solo_ongoing hs hr now hown hle hno.1 hno.2
    · have hlt : p + (cfg.b33 : Nat) < now := by omega
      obtain ⟨c', hc', -, -⟩ := pollInner_good { s := stx.s, apps := stx.apps, rx := [] } now false hs.inv rfl
      have hpd : stx.s.poll stx.apps now false [] = .ok c' := hc'
      rw [poll_dispatch stx.s stx.apps now [] hs.son hno.1 hno.2 (by intro l0 hl0; rw [hs.stamp] at hl0; cases hl0; exact hlt)] at hpd
      simp only [List.length_nil, checkBus_nil] at hpd
      have hd := hpd
      unfold dispatch at hpd
      simp only [h.stx_st] at hpd
      have hcc : c' = { s := stx.s, apps := stx.apps, rx := [] } := by
        rcases doCheckTokenPass_waits { s := stx.s, apps := stx.apps, rx := [] } now (p + (cfg.b33 : Nat)) .first c' h.stx_st
          hs.stamp (by omega) (by show ¬ now > p + (cfg.b33 : Nat) + ((stx.s.p.slotTime : Nat) : Int); rw [hs.slot]; omega) hpd
          with ⟨rx', ret, hrx, hc⟩ | ⟨-, rx', x0, rest, ret, hrx⟩
        · have hrx' : receiveAll [] = .done rx' [] ret := hrx
          rw [receiveAll_nil] at hrx'
          cases hrx'
          exact hc
        · have hrx' : receiveAll [] = .done rx' (x0 :: rest) ret := hrx
          rw [receiveAll_nil] at hrx'
          cases hrx'
      rw [hcc] at hd
      obtain ⟨n', hp, hS, hseen⟩ := solo_step hs hr now hown hlt _ hno.1 hno.2 hd (p + (cfg.b33 : Nat)) hs.son rfl rfl hs.stamp
        (Int.le_refl _) (fun b hb => by cases hb)
      rw [hup] at hS
      exact ⟨n', hp, hS, hseen⟩
  obtain ⟨hbus, st0, hst0, hset, -⟩ := Net.poll_bus n x now n' [] _ hp
  rw [hs.deliver hr now (Int.le_of_lt hown)] at hbus
  simp only at hbus
  rw [hs.gx] at hst0
  cases hst0
  rw [hup] at hset
  have hsy : n'.bus.seen.getD y 0 = n.bus.seen.getD y 0 := by rw [hbus]; exact seen_set_other n.bus x y now hxy
  refine ⟨n', _, hp, rfl, hS, h.stx_st, h.succ, by rw [hset, List.getElem?_set_ne hxy]; exact h.gy,
    by rw [hset, List.length_set]; exact h.yl, by rw [hbus]; simp only [List.length_set]; exact h.ys, h.yon, h.sty_st, h.yps,
    h.ne, h.yx, (by
      obtain ⟨dn, hd1, hd2⟩ := h.split
      exact ⟨dn, by rw [hbus]; exact hd1, fun o ho => by rw [hsy]; exact hd2 o ho⟩), by rw [hsy]; exact h.rxY, by rw [hsy]; exact h.pendY,
    by rw [hsy]; exact h.headY, h.stampY, by rw [hsy]; exact h.lYp, h.ttoY, h.pB, Int.le_trans h.ptl htl,
    by rw [hseen, hsy]; exact ⟨Int.le_refl _, Int.le_trans h.seens.2 htl⟩⟩

end PV
