/-
Timed ring, N stations, layer 3 (continued): one poll of a listening station, one poll of the station whose
turn it is, and whole runs.  Helper lemmas.
-/
import ProfiVerif.Lemmas.TimedRingN

namespace PV
open StationGap TokenRing

theorem transmitting_listener (cfg : Cfg) (M : List Nat) (adr : Nat → Nat) (n : Nat) (b : Bus) (hlog : LogOk cfg M adr n b)
    (j : Nat) (l now : Int) (h0 : ∀ o ∈ b.txs, o.sender = j → cEnd cfg o ≤ l + 1) (hl : l < now) :
    b.transmitting j now = false := by
  unfold Bus.transmitting
  cases hf : b.txs.reverse.find? (fun t => decide (t.sender = j)) with
  | none => rfl
  | some t =>
    have hmem : t ∈ b.txs := List.mem_reverse.1 (List.mem_of_find?_eq_some hf)
    have hs : t.sender = j := by simpa using List.find?_some hf
    have := h0 t hmem hs
    simp only [decide_eq_false_iff_not]
    rw [hlog.txEnd]
    omega

/-- What the bus hands to a listener, and what is then in its buffer. -/
theorem listener_deliver {cfg : Cfg} {M : List Nat} {adr : Nat → Nat} {n : Nat} {b : Bus} (hR : RingCfg M adr n)
    (hlog : LogOk cfg M adr n b) (hr : 0 < cfg.rate) (j : Nat) (now : Int) (dn rs : List Transmission)
    (h1 : b.txs = dn ++ rs) (h2 : ∀ o ∈ dn, o.sender = j ∨ cEnd cfg o ≤ b.seen.getD j 0)
    (h3 : ∀ t ∈ rs, t.sender ≠ j) (hsn : b.seen.getD j 0 ≤ now) :
    ∃ inc, b.deliver j now = ({ b with seen := b.seen.set j now }, inc) ∧
      arrived cfg rs (b.seen.getD j 0) ++ inc = arrived cfg rs now := by
  have hc := hlog.chained
  rw [h1] at hc
  have hcrs : CChained cfg rs := (List.pairwise_append.1 hc).2.1
  have hpos : ∀ t ∈ b.txs, 0 < t.bytes.length := fun t ht => (TxKind.wire hR (hlog.kinds t ht)).2.2
  refine ⟨_, Bus.deliver_chained b (by rw [hlog.rate]; exact hr) hlog.corrupt j now hlog.busChained hlog.live, ?_⟩
  rw [h1, List.map_append, List.flatten_append,
    seg_done cfg hr b hlog.rate j _ now hsn dn (fun o ho => by
      rcases h2 o ho with h | h
      · exact .inl h
      · exact .inr ⟨hpos o (by rw [h1]; exact List.mem_append_left _ ho), h⟩),
    List.nil_append]
  exact arrived_extend cfg hr b hlog.rate j _ now hsn rs hcrs
    (fun t ht => hpos t (by rw [h1]; exact List.mem_append_right _ ht)) h3

/-- Outcome of one poll of a listening station `j`: the bus hands over `inc`, the poll returns regularly and
transmits nothing; the station is a listener again, or — the last transmission of the log being the token
addressed to it, now complete — it has accepted the token. -/
def ListenOut (cfg : Cfg) (M : List Nat) (adr : Nat → Nat) (b : Bus) (H Lo : Int) (j : Nat) (st : NetStation) (now : Int) : Prop :=
  ∃ inc c, b.deliver j now = ({ b with seen := b.seen.set j now }, inc) ∧
    st.s.poll [] now (b.transmitting j now) (st.rx ++ inc) = .ok c ∧ c.tx = none ∧
    (LOk cfg M adr { b with seen := b.seen.set j now } H Lo j (upSt st c) ∨
     ((∃ t a, b.txs.getLast? = some t ∧ t.bytes = tokenBytes (adr j) a) ∧ StOkN cfg M (upSt st c) (adr j) ∧
        c.s.st = .useToken ⟨now, none⟩ false ∧ c.s.lastBusActivity = some now ∧ c.s.pendingBytes = 0 ∧ c.rx = [] ∧
        ∀ o ∈ b.txs, o.sender = j ∨ cEnd cfg o ≤ now))

theorem getD_set_self (b : Bus) (j : Nat) (now : Int) (hj : j < b.seen.length) :
    ({ b with seen := b.seen.set j now } : Bus).seen.getD j 0 = now := seen_set_self b j now hj

/-- A listener polled while its own last transmission is still on the wire (`now ≤` its stamp): a no-op. -/
theorem listener_ongoing {cfg : Cfg} {M : List Nat} {adr : Nat → Nat} {n : Nat} {b : Bus} {H Lo : Int} {j : Nat}
    {st : NetStation} (hL : LOk cfg M adr b H Lo j st) (hR : RingCfg M adr n) (hlog : LogOk cfg M adr n b)
    (hr : 0 < cfg.rate) (hj : j < n) (now : Int) (hsn : b.seen.getD j 0 < now)
    (hle : ∀ l, st.s.lastBusActivity = some l → now ≤ l) : ListenOut cfg M adr b H Lo j st now := by
  obtain ⟨hok, dn, rs, idle, l, h1, h2, h3, h4, h5, h0, h6, h7, h8, h9, h10⟩ := hL
  have hnl := hle l h7
  have hc0 := cfg.ce_pos hr 0
  rcases h8 with h8 | ⟨h8, h8'⟩
  · omega
  obtain ⟨inc, hd, hcat⟩ := listener_deliver hR hlog hr j now dn rs h1 h2 h3 (Int.le_of_lt hsn)
  have hz : ∀ t ∈ rs, cvis cfg t now = 0 := fun t ht => cvis_zero cfg t now (by have := h8 t ht; omega)
  have hz' : ∀ t ∈ rs, cvis cfg t (b.seen.getD j 0) = 0 := fun t ht => cvis_zero cfg t _ (by have := h8 t ht; omega)
  have ha0 : arrived cfg rs now = [] := arrived_nil_of_zero cfg rs now hz
  have ha1 : arrived cfg rs (b.seen.getD j 0) = [] := arrived_nil_of_zero cfg rs _ hz'
  have hinc : inc = [] := by
    rw [ha0, ha1, List.nil_append] at hcat; exact hcat
  subst hinc
  have hst : st.s.st ≠ .offline ∧ st.s.st ≠ .passiveIdle := by
    cases idle with
    | true =>
      simp only [if_true] at h10
      obtain ⟨⟨np, coll, hs⟩, -⟩ := h10
      rw [hs]; simp
    | false =>
      simp only [Bool.false_eq_true, if_false] at h10
      rw [h10.1]; simp
  have hp := poll_ongoing st.s [] now (b.transmitting j now) (st.rx ++ []) hok.son hst.1 hst.2 l h7 hnl
  refine ⟨[], _, hd, hp, rfl, .inl ?_⟩
  have hjl : j < b.seen.length := by rw [hlog.seen]; exact hj
  have hup : upSt st { s := st.s, apps := [], rx := st.rx ++ [] } = st := by
    unfold upSt
    have := hok.apps
    cases st
    simp_all
  rw [hup]
  refine ⟨hok, dn, rs, idle, l, h1, ?_⟩
  rw [getD_set_self b j now hjl]
  refine ⟨fun o ho => (h2 o ho).imp id (fun h => by omega), h3, by rw [ha0, h4, ha1], by rw [ha0]; rw [ha1] at h5; exact h5,
    h0, ?_, h7, .inr ⟨h8, h8'⟩, h9, ?_⟩
  · intro t rest hrs
    rw [hz t (by rw [hrs]; exact List.mem_cons_self ..)]
    have := h6 t rest hrs
    omega
  · have hn : nextArr cfg H rs now = nextArr cfg H rs (b.seen.getD j 0) := by
      unfold nextArr
      cases rs with
      | nil => rfl
      | cons t r => simp only; rw [hz t (List.mem_cons_self ..), hz' t (List.mem_cons_self ..)]
    rw [hn]; exact h10

theorem tokenBytes_inj (a b c d : Nat) (ha : a < 256) (hb : b < 256) (hc : c < 256) (hd : d < 256)
    (h : tokenBytes a b = tokenBytes c d) : a = c ∧ b = d := by
  unfold tokenBytes sendToken at h
  simp only [List.cons.injEq, and_true, true_and] at h
  obtain ⟨h1, h2⟩ := h
  have e1 := congrArg UInt8.toNat h1
  have e2 := congrArg UInt8.toNat h2
  rw [u8n a ha, u8n c hc] at e1
  rw [u8n b hb, u8n d hd] at e2
  exact ⟨e1, e2⟩

/-- Deadline bookkeeping after new characters were registered at `now`: the next character of an incomplete
head is at most one character time away. -/
theorem nextArr_after (cfg : Cfg) (hr : 0 < cfg.rate) (H : Int) (t : Transmission) (rest : List Transmission) (now : Int)
    (hlt : cvis cfg t now < t.bytes.length) (hstart : t.start ≤ now) :
    nextArr cfg H (t :: rest) now ≤ now + ((cfg.ce 0 : Nat) : Int) := by
  unfold nextArr
  simp only
  by_cases h0 : cvis cfg t now = 0
  · rw [h0]; omega
  · have hk : cvis cfg t now - 1 < t.bytes.length := by omega
    have h1 := (cvis_spec cfg t now _ hk).1 (by omega)
    have h2 := cfg.ce_step hr (cvis cfg t now - 1)
    have e1 : cvis cfg t now - 1 + 1 = cvis cfg t now := by omega
    rw [e1] at h2
    omega

/-- A listener polled later than its stamp, no complete telegram in its buffer yet. -/
theorem listener_quiet {cfg : Cfg} {M : List Nat} {adr : Nat → Nat} {n : Nat} {b : Bus} {H Lo : Int} {j : Nat}
    {st : NetStation} (hok' : cfg.Ok) (hR : RingCfg M adr n) (hlog : LogOk cfg M adr n b) (hj : j < n) (now : Int)
    (hokS : StOkN cfg M st (adr j)) (dn rs : List Transmission) (idle : Bool) (l : Int)
    (h1 : b.txs = dn ++ rs) (h2 : ∀ o ∈ dn, o.sender = j ∨ cEnd cfg o ≤ b.seen.getD j 0) (h3 : ∀ t ∈ rs, t.sender ≠ j)
    (h4 : st.rx = arrived cfg rs (b.seen.getD j 0)) (h5 : st.s.pendingBytes ≤ (arrived cfg rs (b.seen.getD j 0)).length)
    (h0 : ∀ o ∈ b.txs, o.sender = j → cEnd cfg o ≤ l + 1)
    (h7 : st.s.lastBusActivity = some l) (h9 : ∀ t ∈ rs.dropLast, ∀ a, t.bytes ≠ tokenBytes (adr j) a)
    (h10 : if idle = true then
      (∃ np coll, st.s.st = .activeIdle none np coll) ∧
        nextArr cfg H rs (b.seen.getD j 0) < l + (st.s.p.tokenLostTimeout : Nat)
     else st.s.st = .checkTokenPass .first ∧ nextArr cfg H rs (b.seen.getD j 0) ≤ l + (cfg.slot : Nat))
    (hsn : b.seen.getD j 0 < now) (hl : l < now) (hnowH : now ≤ H)
    (hstart : ∀ t ∈ b.txs, t.start ≤ now)
    (inc : Bytes) (hd : b.deliver j now = ({ b with seen := b.seen.set j now }, inc))
    (hcat : arrived cfg rs (b.seen.getD j 0) ++ inc = arrived cfg rs now)
    (ret : Bool) (hrec : receiveAll (arrived cfg rs now) = .done (arrived cfg rs now) [] ret)
    (hhead : ∀ t rest, rs = t :: rest → cvis cfg t now < t.bytes.length ∧ ∀ t' ∈ rest, cvis cfg t' now = 0) :
    ListenOut cfg M adr b H Lo j st now := by
  have hr := hok'.rate
  have hmar := hok'.margin
  have htto := hokS.tto
  have hc0 := cfg.ce_pos hr 0
  have hphy := transmitting_listener cfg M adr n b hlog j l now h0 hl
  have hjl : j < b.seen.length := by rw [hlog.seen]; exact hj
  have hrx' : st.rx ++ inc = arrived cfg rs now := by rw [h4]; exact hcat
  have hlen : (arrived cfg rs (b.seen.getD j 0)).length ≤ (arrived cfg rs now).length := by
    rw [← hcat, List.length_append]; omega
  -- nothing new ⇒ the next character has not arrived
  have hnonew : ¬ st.s.pendingBytes < (arrived cfg rs now).length → now < nextArr cfg H rs (b.seen.getD j 0) := by
    intro hnn
    have hinc : inc = [] := by
      have := congrArg List.length hcat
      rw [List.length_append] at this
      exact List.eq_nil_of_length_eq_zero (by omega)
    unfold nextArr
    cases rs with
    | nil => simp only; omega
    | cons t rest =>
      simp only
      obtain ⟨hlt, hz⟩ := hhead t rest rfl
      have hlt0 : cvis cfg t (b.seen.getD j 0) < t.bytes.length := by
        have := cvis_mono cfg t _ now (Int.le_of_lt hsn); omega
      have hveq : cvis cfg t now = cvis cfg t (b.seen.getD j 0) := by
        have e1 : arrived cfg (t :: rest) now = t.bytes.take (cvis cfg t now) := by
          rw [arrived_cons, arrived_nil_of_zero cfg rest now hz, List.append_nil]
        have hz0 : ∀ t' ∈ rest, cvis cfg t' (b.seen.getD j 0) = 0 := fun t' ht' => by
          have := cvis_mono cfg t' _ now (Int.le_of_lt hsn); have := hz t' ht'; omega
        have e2 : arrived cfg (t :: rest) (b.seen.getD j 0) = t.bytes.take (cvis cfg t (b.seen.getD j 0)) := by
          rw [arrived_cons, arrived_nil_of_zero cfg rest _ hz0, List.append_nil]
        rw [hinc, List.append_nil, e1, e2] at hcat
        have := congrArg List.length hcat
        rw [List.length_take, List.length_take] at this
        omega
      have : ¬ (t.start + ((cfg.ce (cvis cfg t (b.seen.getD j 0)) : Nat) : Int) ≤ now) := by
        intro hc
        have := (cvis_spec cfg t now _ hlt0).2 hc
        omega
      omega
  -- the poll
  have hpoll : ∃ c, st.s.poll [] now false (arrived cfg rs now) = .ok c ∧ c.tx = none ∧
      c.s = checkBusActivity st.s now (arrived cfg rs now).length ∧ c.apps = [] ∧ c.rx = arrived cfg rs now := by
    cases idle with
    | true =>
      simp only [if_true] at h10
      obtain ⟨⟨np, coll, hs⟩, hdl⟩ := h10
      refine ⟨_, idle_poll_partial st.s now _ _ ret np coll l hokS.son hs h7 hl (by omega) ?_ hrec, rfl, rfl, rfl, rfl⟩
      by_cases hnew : st.s.pendingBytes < (arrived cfg rs now).length
      · exact .inl hnew
      · right; have := hnonew hnew; omega
    | false =>
      simp only [Bool.false_eq_true, if_false] at h10
      obtain ⟨hs, hdl⟩ := h10
      have hret : ret = false := by
        cases ret with
        | false => rfl
        | true => obtain ⟨pre, t, hpt⟩ := receiveAll_ret_last _ _ _ hrec; cases pre <;> cases hpt
      subst hret
      exact check_poll_partial st.s now _ .first l hokS.inv hokS.son hs h7 hl (by
        rw [hokS.slot]
        by_cases hnew : st.s.pendingBytes < (arrived cfg rs now).length
        · exact .inl hnew
        · right; have := hnonew hnew; omega) hrec
  obtain ⟨c, hc, htx, hcs, hca, hcr⟩ := hpoll
  obtain ⟨f1, f2, f3, f4, -⟩ := checkBA_fields st.s now (arrived cfg rs now).length
  have hokS' : StOkN cfg M (upSt st c) (adr j) :=
    hokS.step now false _ c hc (by rw [hcs]; exact f2) (by rw [hcs, f3]; exact hokS.view) (by rw [hcs, f4]; exact hokS.son)
  refine ⟨inc, c, hd, by rw [hphy, hrx']; exact hc, htx, .inl ⟨hokS', dn, rs, idle, ?_⟩⟩
  -- the new stamp
  have hlast := checkBA_last st.s now (arrived cfg rs now).length (by intro l' hl'; rw [h7] at hl'; cases hl'; exact hl)
  refine ⟨if (arrived cfg rs now).length > st.s.pendingBytes then now else l, h1, ?_⟩
  rw [getD_set_self b j now hjl]
  unfold upSt
  simp only [hcs, hcr]
  refine ⟨fun o ho => (h2 o ho).imp id (fun h => by omega), h3, trivial, ?_, ?_, fun t rest hrs => (hhead t rest hrs).1, ?_, ?_, h9, ?_⟩
  · unfold checkBusActivity; split
    · exact Nat.le_refl _
    · omega
  · intro o ho hs; have := h0 o ho hs; split <;> omega
  · rw [hlast]; split <;> simp [h7]
  · left; split <;> omega
  · have hnx : ∀ dl : Int, nextArr cfg H rs (b.seen.getD j 0) ≤ l + dl → (cfg.ce 0 : Nat) ≤ dl →
        nextArr cfg H rs now ≤ (if (arrived cfg rs now).length > st.s.pendingBytes then now else l) + dl := by
      intro dl hold hce
      by_cases hnew : (arrived cfg rs now).length > st.s.pendingBytes
      · rw [if_pos hnew]
        cases rs with
        | nil => simp [arrived] at hnew
        | cons t rest =>
          have := nextArr_after cfg hr H t rest now (hhead t rest rfl).1 (hstart t (by rw [h1]; simp))
          omega
      · rw [if_neg hnew]
        have hlt := hnonew (by omega)
        have heq : nextArr cfg H rs now = nextArr cfg H rs (b.seen.getD j 0) := by
          unfold nextArr at hlt ⊢
          cases rs with
          | nil => rfl
          | cons t rest =>
            simp only at hlt ⊢
            have hlt0 : cvis cfg t (b.seen.getD j 0) < t.bytes.length := by
              have := cvis_mono cfg t _ now (Int.le_of_lt hsn); have := (hhead t rest rfl).1; omega
            have h' : ¬ (cvis cfg t (b.seen.getD j 0) < cvis cfg t now) := fun hh => by
              have := (cvis_spec cfg t now _ hlt0).1 hh; omega
            have := cvis_mono cfg t _ now (Int.le_of_lt hsn)
            have e : cvis cfg t now = cvis cfg t (b.seen.getD j 0) := by omega
            rw [e]
        rw [heq]; exact hold
    cases idle with
    | true =>
      simp only [if_true] at h10 ⊢
      refine ⟨by rw [f1]; exact h10.1, ?_⟩
      rw [f2]
      have := hnx ((st.s.p.tokenLostTimeout : Nat) - 1) (by omega) (by unfold Cfg.gmax at htto; omega)
      omega
    | false =>
      simp only [Bool.false_eq_true, if_false] at h10 ⊢
      refine ⟨by rw [f1]; exact h10.1, ?_⟩
      exact hnx (cfg.slot : Nat) h10.2 (by omega)

end PV
