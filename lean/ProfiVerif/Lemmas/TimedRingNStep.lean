/-
Timed ring, N stations, layer 3 (continued): one poll of a listening station, one poll of the station whose
turn it is, and whole runs.  Helper lemmas.
-/
import ProfiVerif.Lemmas.TimedRingN

namespace PV
open StationGap TokenRing

theorem transmitting_listener (cfg : Cfg) (M : List Nat) (adr : Nat → Nat) (n : Nat) (b : Bus) (hlog : LogOk cfg M adr n b)
    (j : Nat) (l now : Int) (h0 : ∀ o ∈ b.txs, o.sender = j → cEnd cfg o ≤ l + 1) (hl : l < now) :
    b.transmitting j now = false := by
  unfold Bus.transmitting
  cases hf : b.txs.reverse.find? (fun t => decide (t.sender = j)) with
  | none => rfl
  | some t =>
    have hmem : t ∈ b.txs := List.mem_reverse.1 (List.mem_of_find?_eq_some hf)
    have hs : t.sender = j := by simpa using List.find?_some hf
    have := h0 t hmem hs
    simp only [decide_eq_false_iff_not]
    rw [hlog.txEnd]
    omega

/-- What the bus hands to a listener, and what is then in its buffer. -/
theorem listener_deliver {cfg : Cfg} {M : List Nat} {adr : Nat → Nat} {n : Nat} {b : Bus} (hR : RingCfg M adr n)
    (hlog : LogOk cfg M adr n b) (hr : 0 < cfg.rate) (j : Nat) (now : Int) (dn rs : List Transmission)
    (h1 : b.txs = dn ++ rs) (h2 : ∀ o ∈ dn, o.sender = j ∨ cEnd cfg o ≤ b.seen.getD j 0)
    (h3 : ∀ t ∈ rs, t.sender ≠ j) (hsn : b.seen.getD j 0 ≤ now) :
    ∃ inc, b.deliver j now = ({ b with seen := b.seen.set j now }, inc) ∧
      arrived cfg rs (b.seen.getD j 0) ++ inc = arrived cfg rs now := by
  have hc := hlog.chained
  rw [h1] at hc
  have hcrs : CChained cfg rs := (List.pairwise_append.1 hc).2.1
  have hpos : ∀ t ∈ b.txs, 0 < t.bytes.length := fun t ht => (TxKind.wire hR (hlog.kinds t ht)).2.2
  refine ⟨_, Bus.deliver_chained b (by rw [hlog.rate]; exact hr) hlog.corrupt j now hlog.busChained hlog.live, ?_⟩
  rw [h1, List.map_append, List.flatten_append,
    seg_done cfg hr b hlog.rate j _ now hsn dn (fun o ho => by
      rcases h2 o ho with h | h
      · exact .inl h
      · exact .inr ⟨hpos o (by rw [h1]; exact List.mem_append_left _ ho), h⟩),
    List.nil_append]
  exact arrived_extend cfg hr b hlog.rate j _ now hsn rs hcrs
    (fun t ht => hpos t (by rw [h1]; exact List.mem_append_right _ ht)) h3

/-- Outcome of one poll of a listening station `j`: the bus hands over `inc`, the poll returns regularly and
transmits nothing; the station is a listener again, or — the last transmission of the log being the token
addressed to it, now complete — it has accepted the token. -/
def ListenOut (cfg : Cfg) (M : List Nat) (adr : Nat → Nat) (b : Bus) (H Lo : Int) (j : Nat) (st : NetStation) (now : Int) : Prop :=
  ∃ inc c, b.deliver j now = ({ b with seen := b.seen.set j now }, inc) ∧
    st.s.poll st.apps now (b.transmitting j now) (st.rx ++ inc) = .ok c ∧ c.tx = none ∧
    (LOk cfg M adr { b with seen := b.seen.set j now } H Lo j (upSt st c) ∨
     ((∃ t a, b.txs.getLast? = some t ∧ t.bytes = tokenBytes (adr j) a) ∧ StOkN cfg M (upSt st c) (adr j) ∧
        c.s.st = .useToken ⟨now, none⟩ false ∧ c.s.lastBusActivity = some now ∧ c.s.pendingBytes = 0 ∧ c.rx = [] ∧
        (∀ o ∈ b.txs, o.sender = j ∨ cEnd cfg o ≤ now) ∧ (∀ o ∈ b.txs, o.sender = j → cEnd cfg o ≤ now + 1)))

theorem getD_set_self (b : Bus) (j : Nat) (now : Int) (hj : j < b.seen.length) :
    ({ b with seen := b.seen.set j now } : Bus).seen.getD j 0 = now := seen_set_self b j now hj

/-- A listener polled while its own last transmission is still on the wire (`now ≤` its stamp): a no-op. -/
theorem listener_ongoing {cfg : Cfg} {M : List Nat} {adr : Nat → Nat} {n : Nat} {b : Bus} {H Lo : Int} {j : Nat}
    {st : NetStation} (hL : LOk cfg M adr b H Lo j st) (hR : RingCfg M adr n) (hlog : LogOk cfg M adr n b)
    (hr : 0 < cfg.rate) (hj : j < n) (now : Int) (hsn : b.seen.getD j 0 < now)
    (hle : ∀ l, st.s.lastBusActivity = some l → now ≤ l) : ListenOut cfg M adr b H Lo j st now := by
  obtain ⟨hok, dn, rs, idle, l, h1, h2, h3, h4, h5, h0, h6, h7, h8, h9, hF, h10⟩ := hL
  have hnl := hle l h7
  have hc0 := cfg.ce_pos hr 0
  rcases h8 with h8 | ⟨h8, h8'⟩
  · omega
  obtain ⟨inc, hd, hcat⟩ := listener_deliver hR hlog hr j now dn rs h1 h2 h3 (Int.le_of_lt hsn)
  have hz : ∀ t ∈ rs, cvis cfg t now = 0 := fun t ht => cvis_zero cfg t now (by have := h8 t ht; omega)
  have hz' : ∀ t ∈ rs, cvis cfg t (b.seen.getD j 0) = 0 := fun t ht => cvis_zero cfg t _ (by have := h8 t ht; omega)
  have ha0 : arrived cfg rs now = [] := arrived_nil_of_zero cfg rs now hz
  have ha1 : arrived cfg rs (b.seen.getD j 0) = [] := arrived_nil_of_zero cfg rs _ hz'
  have hinc : inc = [] := by
    rw [ha0, ha1, List.nil_append] at hcat; exact hcat
  subst hinc
  have hst : st.s.st ≠ .offline ∧ st.s.st ≠ .passiveIdle := by
    cases idle with
    | true =>
      simp only [if_true] at h10
      obtain ⟨⟨np, coll, hs⟩, -⟩ := h10
      rw [hs]; simp
    | false =>
      simp only [Bool.false_eq_true, if_false] at h10
      rw [h10.1]; simp
  have hp := poll_ongoing st.s st.apps now (b.transmitting j now) (st.rx ++ []) hok.son hst.1 hst.2 l h7 hnl
  refine ⟨[], _, hd, hp, rfl, .inl ?_⟩
  have hjl : j < b.seen.length := by rw [hlog.seen]; exact hj
  have hup : upSt st { s := st.s, apps := st.apps, rx := st.rx ++ [] } = st := by
    unfold upSt
    cases st
    simp
  rw [hup]
  refine ⟨hok, dn, rs, idle, l, h1, ?_⟩
  rw [getD_set_self b j now hjl]
  refine ⟨fun o ho => (h2 o ho).imp id (fun h => by omega), h3, by rw [ha0, h4, ha1], by rw [ha0]; rw [ha1] at h5; exact h5,
    h0, ?_, h7, .inr ⟨h8, h8'⟩, h9, hF, ?_⟩
  · intro t rest hrs
    rw [hz t (by rw [hrs]; exact List.mem_cons_self ..)]
    have := h6 t rest hrs
    omega
  · have hn : nextArr cfg H rs now = nextArr cfg H rs (b.seen.getD j 0) := by
      unfold nextArr
      cases rs with
      | nil => rfl
      | cons t r => simp only; rw [hz t (List.mem_cons_self ..), hz' t (List.mem_cons_self ..)]
    rw [hn]; exact h10

theorem tokenBytes_inj (a b c d : Nat) (ha : a < 256) (hb : b < 256) (hc : c < 256) (hd : d < 256)
    (h : tokenBytes a b = tokenBytes c d) : a = c ∧ b = d := by
  unfold tokenBytes sendToken at h
  simp only [List.cons.injEq, and_true, true_and] at h
  obtain ⟨h1, h2⟩ := h
  have e1 := congrArg UInt8.toNat h1
  have e2 := congrArg UInt8.toNat h2
  rw [u8n a ha, u8n c hc] at e1
  rw [u8n b hb, u8n d hd] at e2
  exact ⟨e1, e2⟩

/-- Deadline bookkeeping after new characters were registered at `now`: the next character of an incomplete
head is at most one character time away. -/
theorem nextArr_after (cfg : Cfg) (hr : 0 < cfg.rate) (H : Int) (t : Transmission) (rest : List Transmission) (now : Int)
    (hlt : cvis cfg t now < t.bytes.length) (hstart : t.start ≤ now) :
    nextArr cfg H (t :: rest) now ≤ now + ((cfg.ce 0 : Nat) : Int) := by
  unfold nextArr
  simp only
  by_cases h0 : cvis cfg t now = 0
  · rw [h0]; omega
  · have hk : cvis cfg t now - 1 < t.bytes.length := by omega
    have h1 := (cvis_spec cfg t now _ hk).1 (by omega)
    have h2 := cfg.ce_step hr (cvis cfg t now - 1)
    have e1 : cvis cfg t now - 1 + 1 = cvis cfg t now := by omega
    rw [e1] at h2
    omega

/-- A listener polled later than its stamp, no complete telegram in its buffer yet. -/
theorem listener_quiet {cfg : Cfg} {M : List Nat} {adr : Nat → Nat} {n : Nat} {b : Bus} {H Lo : Int} {j : Nat}
    {st : NetStation} (hok' : cfg.Ok) (hR : RingCfg M adr n) (hlog : LogOk cfg M adr n b) (hj : j < n) (now : Int)
    (hokS : StOkN cfg M st (adr j)) (dn rs : List Transmission) (idle : Bool) (l : Int)
    (h1 : b.txs = dn ++ rs) (h2 : ∀ o ∈ dn, o.sender = j ∨ cEnd cfg o ≤ b.seen.getD j 0) (h3 : ∀ t ∈ rs, t.sender ≠ j)
    (h4 : st.rx = arrived cfg rs (b.seen.getD j 0)) (h5 : st.s.pendingBytes ≤ (arrived cfg rs (b.seen.getD j 0)).length)
    (h0 : ∀ o ∈ b.txs, o.sender = j → cEnd cfg o ≤ l + 1)
    (h7 : st.s.lastBusActivity = some l) (h9 : ∀ t ∈ rs.dropLast, ∀ a, t.bytes ≠ tokenBytes (adr j) a)
    (hF : (∃ t a, b.txs.getLast? = some t ∧ t.bytes = tokenBytes (adr j) a) → rs ≠ [])
    (h10 : if idle = true then
      (∃ np coll, st.s.st = .activeIdle none np coll) ∧
        nextArr cfg H rs (b.seen.getD j 0) < l + (st.s.p.tokenLostTimeout : Nat)
     else st.s.st = .checkTokenPass .first ∧ nextArr cfg H rs (b.seen.getD j 0) ≤ l + (cfg.slot : Nat))
    (hsn : b.seen.getD j 0 < now) (hl : l < now) (hnowH : now ≤ H)
    (hstart : ∀ t ∈ b.txs, t.start ≤ now)
    (inc : Bytes) (hd : b.deliver j now = ({ b with seen := b.seen.set j now }, inc))
    (hcat : arrived cfg rs (b.seen.getD j 0) ++ inc = arrived cfg rs now)
    (ret : Bool) (hrec : receiveAll (arrived cfg rs now) = .done (arrived cfg rs now) [] ret)
    (hhead : ∀ t rest, rs = t :: rest → cvis cfg t now < t.bytes.length ∧ ∀ t' ∈ rest, cvis cfg t' now = 0) :
    ListenOut cfg M adr b H Lo j st now := by
  have hr := hok'.rate
  have hmar := hok'.margin
  have htto := hokS.tto
  have hc0 := cfg.ce_pos hr 0
  have hphy := transmitting_listener cfg M adr n b hlog j l now h0 hl
  have hjl : j < b.seen.length := by rw [hlog.seen]; exact hj
  have hrx' : st.rx ++ inc = arrived cfg rs now := by rw [h4]; exact hcat
  have hlen : (arrived cfg rs (b.seen.getD j 0)).length ≤ (arrived cfg rs now).length := by
    rw [← hcat, List.length_append]; omega
  -- nothing new ⇒ the next character has not arrived
  have hnonew : ¬ st.s.pendingBytes < (arrived cfg rs now).length → now < nextArr cfg H rs (b.seen.getD j 0) := by
    intro hnn
    have hinc : inc = [] := by
      have := congrArg List.length hcat
      rw [List.length_append] at this
      exact List.eq_nil_of_length_eq_zero (by omega)
    unfold nextArr
    cases rs with
    | nil => simp only; omega
    | cons t rest =>
      simp only
      obtain ⟨hlt, hz⟩ := hhead t rest rfl
      have hlt0 : cvis cfg t (b.seen.getD j 0) < t.bytes.length := by
        have := cvis_mono cfg t _ now (Int.le_of_lt hsn); omega
      have hveq : cvis cfg t now = cvis cfg t (b.seen.getD j 0) := by
        have e1 : arrived cfg (t :: rest) now = t.bytes.take (cvis cfg t now) := by
          rw [arrived_cons, arrived_nil_of_zero cfg rest now hz, List.append_nil]
        have hz0 : ∀ t' ∈ rest, cvis cfg t' (b.seen.getD j 0) = 0 := fun t' ht' => by
          have := cvis_mono cfg t' _ now (Int.le_of_lt hsn); have := hz t' ht'; omega
        have e2 : arrived cfg (t :: rest) (b.seen.getD j 0) = t.bytes.take (cvis cfg t (b.seen.getD j 0)) := by
          rw [arrived_cons, arrived_nil_of_zero cfg rest _ hz0, List.append_nil]
        rw [hinc, List.append_nil, e1, e2] at hcat
        have := congrArg List.length hcat
        rw [List.length_take, List.length_take] at this
        omega
      have : ¬ (t.start + ((cfg.ce (cvis cfg t (b.seen.getD j 0)) : Nat) : Int) ≤ now) := by
        intro hc
        have := (cvis_spec cfg t now _ hlt0).2 hc
        omega
      omega
  -- the poll
  have hpoll : ∃ c, st.s.poll st.apps now false (arrived cfg rs now) = .ok c ∧ c.tx = none ∧
      c.s = checkBusActivity st.s now (arrived cfg rs now).length ∧ c.apps = st.apps ∧ c.rx = arrived cfg rs now := by
    cases idle with
    | true =>
      simp only [if_true] at h10
      obtain ⟨⟨np, coll, hs⟩, hdl⟩ := h10
      refine ⟨_, idle_poll_partialA st.s st.apps now _ _ ret np coll l hokS.son hs h7 hl (by omega) ?_ hrec, rfl, rfl, rfl, rfl⟩
      by_cases hnew : st.s.pendingBytes < (arrived cfg rs now).length
      · exact .inl hnew
      · right; have := hnonew hnew; omega
    | false =>
      simp only [Bool.false_eq_true, if_false] at h10
      obtain ⟨hs, hdl⟩ := h10
      have hret : ret = false := by
        cases ret with
        | false => rfl
        | true => obtain ⟨pre, t, hpt⟩ := receiveAll_ret_last _ _ _ hrec; cases pre <;> cases hpt
      subst hret
      exact check_poll_partialA st.s st.apps now _ .first l hokS.inv hokS.son hs h7 hl (by
        rw [hokS.slot]
        by_cases hnew : st.s.pendingBytes < (arrived cfg rs now).length
        · exact .inl hnew
        · right; have := hnonew hnew; omega) hrec
  obtain ⟨c, hc, htx, hcs, hca, hcr⟩ := hpoll
  obtain ⟨f1, f2, f3, f4, -⟩ := checkBA_fields st.s now (arrived cfg rs now).length
  have hokS' : StOkN cfg M (upSt st c) (adr j) :=
    hokS.step now false _ c hc (by rw [hcs]; exact f2) (by rw [hcs, f3]; exact hokS.view) (by rw [hcs, f4]; exact hokS.son)
      (by rw [hca]; exact hokS.apps)
  refine ⟨inc, c, hd, by rw [hphy, hrx']; exact hc, htx, .inl ⟨hokS', dn, rs, idle, ?_⟩⟩
  -- the new stamp
  have hlast := checkBA_last st.s now (arrived cfg rs now).length (by intro l' hl'; rw [h7] at hl'; cases hl'; exact hl)
  refine ⟨if (arrived cfg rs now).length > st.s.pendingBytes then now else l, h1, ?_⟩
  rw [getD_set_self b j now hjl]
  unfold upSt
  simp only [hcs, hcr]
  refine ⟨fun o ho => (h2 o ho).imp id (fun h => by omega), h3, trivial, ?_, ?_, fun t rest hrs => (hhead t rest hrs).1, ?_, ?_, h9, hF, ?_⟩
  · unfold checkBusActivity; split
    · exact Nat.le_refl _
    · omega
  · intro o ho hs; have := h0 o ho hs; split <;> omega
  · rw [hlast]; split <;> simp [h7]
  · left; split <;> omega
  · have hnx : ∀ dl : Int, nextArr cfg H rs (b.seen.getD j 0) ≤ l + dl → (cfg.ce 0 : Nat) ≤ dl →
        nextArr cfg H rs now ≤ (if (arrived cfg rs now).length > st.s.pendingBytes then now else l) + dl := by
      intro dl hold hce
      by_cases hnew : (arrived cfg rs now).length > st.s.pendingBytes
      · rw [if_pos hnew]
        cases rs with
        | nil => simp [arrived] at hnew
        | cons t rest =>
          have := nextArr_after cfg hr H t rest now (hhead t rest rfl).1 (hstart t (by rw [h1]; simp))
          omega
      · rw [if_neg hnew]
        have hlt := hnonew (by omega)
        have heq : nextArr cfg H rs now = nextArr cfg H rs (b.seen.getD j 0) := by
          unfold nextArr at hlt ⊢
          cases rs with
          | nil => rfl
          | cons t rest =>
            simp only at hlt ⊢
            have hlt0 : cvis cfg t (b.seen.getD j 0) < t.bytes.length := by
              have := cvis_mono cfg t _ now (Int.le_of_lt hsn); have := (hhead t rest rfl).1; omega
            have h' : ¬ (cvis cfg t (b.seen.getD j 0) < cvis cfg t now) := fun hh => by
              have := (cvis_spec cfg t now _ hlt0).1 hh; omega
            have := cvis_mono cfg t _ now (Int.le_of_lt hsn)
            have e : cvis cfg t now = cvis cfg t (b.seen.getD j 0) := by omega
            rw [e]
        rw [heq]; exact hold
    cases idle with
    | true =>
      simp only [if_true] at h10 ⊢
      refine ⟨by rw [f1]; exact h10.1, ?_⟩
      rw [f2]
      have := hnx ((st.s.p.tokenLostTimeout : Nat) - 1) (by omega) (by unfold Cfg.gmax at htto; omega)
      omega
    | false =>
      simp only [Bool.false_eq_true, if_false] at h10 ⊢
      refine ⟨by rw [f1]; exact h10.1, ?_⟩
      exact hnx (cfg.slot : Nat) h10.2 (by omega)

theorem arrived_length (cfg : Cfg) (rs : List Transmission) (a : Int) : (arrived cfg rs a).length = arrivedLen cfg rs a := by
  induction rs with
  | nil => rfl
  | cons t rs ih =>
    rw [arrived_cons, arrivedLen_cons, List.length_append, ih, List.length_take]
    have := cvis_le cfg t a
    omega

theorem arrivedLen_mono (cfg : Cfg) (rs : List Transmission) (a a' : Int) (h : a ≤ a') :
    arrivedLen cfg rs a ≤ arrivedLen cfg rs a' := by
  induction rs with
  | nil => exact Nat.le_refl _
  | cons t rs ih =>
    rw [arrivedLen_cons, arrivedLen_cons]
    have := cvis_mono cfg t a a' h
    omega

/-- The context the batch of a listener is folded over, in either mode. -/
theorem listener_fold_ctx (st : Station) (apps : Apps) (now l : Int) (rx b' : Bytes) (d : List (Telegram × Bool)) (ret : Bool)
    (idle : Bool) (hon : st.online = true) (hl : st.lastBusActivity = some l) (hlt : l < now)
    (hnew : st.pendingBytes < rx.length) (hto : 0 < st.p.tokenLostTimeout) (hd : d ≠ [])
    (hrec : receiveAll rx = .done b' d ret)
    (hmode : if idle = true then ∃ np coll, st.st = .activeIdle none np coll else st.st = .checkTokenPass .first) :
    ∃ c0, st.poll apps now false rx = foldTelegrams (idleF now) c0 d ∧ c0.tx = none ∧ c0.rx = b' ∧ c0.apps = apps ∧
      c0.calls = [] ∧ c0.s.p = st.p ∧ c0.s.online = true ∧ (∃ np coll, c0.s.st = .activeIdle none np coll) ∧
      c0.s.ring = st.ring ∧ c0.s.lastBusActivity = some now := by
  obtain ⟨f1, f2, f3, f4, -⟩ := checkBA_fields st now rx.length
  have hlast : (checkBusActivity st now rx.length).lastBusActivity = some now := by
    rw [checkBA_last st now rx.length (by intro l' hl'; rw [hl] at hl'; cases hl'; exact hlt), if_pos hnew]
  cases idle with
  | true =>
    simp only [if_true] at hmode
    obtain ⟨np, coll, hs⟩ := hmode
    refine ⟨_, idle_poll_batchA st apps now rx b' d ret np coll l hon hs hl hlt (.inl hnew) hto hrec,
      rfl, rfl, rfl, rfl, f2, by simp only; rw [f4]; exact hon, ⟨np, coll, by simp only; rw [f1]; exact hs⟩, f3, hlast⟩
  | false =>
    simp only [Bool.false_eq_true, if_false] at hmode
    cases d with
    | nil => exact absurd rfl hd
    | cons x rest =>
      refine ⟨_, check_poll_batchA st apps now rx b' x rest ret .first l hon hmode hl hlt (.inl hnew) hrec,
        rfl, rfl, rfl, rfl, f2, by simp only; rw [f4]; exact hon, ⟨none, 0, rfl⟩, f3, hlast⟩

theorem eq_dropLast_append {α : Type} : ∀ (l : List α) (t : α), l.getLast? = some t → l = l.dropLast ++ [t] := by
  intro l
  induction l with
  | nil => intro t h; cases h
  | cons y ys ih =>
    intro t h
    cases ys with
    | nil => simp at h; subst h; rfl
    | cons z zs =>
      rw [List.getLast?_cons_cons] at h
      have := ih t h
      rw [List.dropLast_cons₂, List.cons_append, ← this]

theorem take_of_drop_nil {α : Type} (l : List α) (k : Nat) (h : l.drop k = []) : l.take k = l :=
  List.take_of_length_le (List.drop_eq_nil_iff.1 h)

theorem dropLast_of_append {α : Type} (r1 r2 : List α) (h : r2 ≠ []) : (r1 ++ r2).dropLast = r1 ++ r2.dropLast :=
  List.dropLast_append_of_ne_nil h

/-- **One poll of a listening station** (any lag, any batch). -/
theorem listener_step {cfg : Cfg} {M : List Nat} {adr : Nat → Nat} {n : Nat} {b : Bus} {H Lo : Int} {j : Nat}
    {st : NetStation} (hL : LOk cfg M adr b H Lo j st) (hok' : cfg.Ok) (hR : RingCfg M adr n)
    (hlog : LogOk cfg M adr n b) (hj : j < n) (now : Int) (hsn : b.seen.getD j 0 < now) (hnowH : now ≤ H)
    (hstart : ∀ t ∈ b.txs, t.start ≤ now)
    (hH : ∀ t, b.txs.getLast? = some t → H ≤ cEnd cfg t + (cfg.gmax : Nat)) :
    ListenOut cfg M adr b H Lo j st now := by
  have hr := hok'.rate
  obtain ⟨hokS, dn, rs, idle, l, h1, h2, h3, h4, h5, h0, h6, h7, h8, h9, hF, h10⟩ := hL
  by_cases hl : now ≤ l
  · exact listener_ongoing ⟨hokS, dn, rs, idle, l, h1, h2, h3, h4, h5, h0, h6, h7, h8, h9, hF, h10⟩ hR hlog hr hj now hsn
      (fun l' hl' => by rw [h7] at hl'; cases hl'; exact hl)
  have hl' : l < now := by omega
  obtain ⟨inc, hd, hcat⟩ := listener_deliver hR hlog hr j now dn rs h1 h2 h3 (Int.le_of_lt hsn)
  have hc := hlog.chained
  rw [h1] at hc
  have hcrs : CChained cfg rs := (List.pairwise_append.1 hc).2.1
  have hw : ∀ t ∈ rs, t.bytes = (telOf t).wire ∧ (telOf t).Valid ∧ 0 < t.bytes.length := fun t ht =>
    TxKind.wire hR (hlog.kinds t (by rw [h1]; exact List.mem_append_right _ ht))
  obtain ⟨k, b', d, ret, hrec, hk, hdm, hfl, hfull, hb', hhead, hnil, hlastflag, hd0⟩ := consume cfg hr telOf rs now hcrs hw
  by_cases hdn : d = []
  · -- no complete telegram
    have hk0 := hd0 hdn
    subst hk0
    simp only [List.drop_zero] at hb' hhead
    subst hdn
    rw [hb'] at hrec
    exact listener_quiet hok' hR hlog hj now hokS dn rs idle l h1 h2 h3 h4 h5 h0 h7 h9 hF h10 hsn hl' hnowH hstart inc hd hcat ret
      hrec (fun t rest hrs => ⟨(hhead t rest hrs).1, (hhead t rest hrs).2.2⟩)
  -- at least one complete telegram: new bytes have arrived
  have hmar := hok'.margin
  have htto := hokS.tto
  have hc0 := cfg.ce_pos hr 0
  have hjl : j < b.seen.length := by rw [hlog.seen]; exact hj
  have hphy := transmitting_listener cfg M adr n b hlog j l now h0 hl'
  have hrx' : st.rx ++ inc = arrived cfg rs now := by rw [h4]; exact hcat
  have hk1 : 1 ≤ k := by
    cases k with
    | zero =>
      simp only [List.take_zero, List.map_nil, List.map_eq_nil_iff] at hdm
      exact absurd hdm hdn
    | succ k => omega
  have hnew : st.s.pendingBytes < (arrived cfg rs now).length := by
    cases rs with
    | nil => simp only [List.length_nil] at hk; omega
    | cons t0 rest =>
      have hmem0 : t0 ∈ (t0 :: rest).take k := by
        cases k with
        | zero => omega
        | succ k' => rw [List.take_succ_cons]; exact List.mem_cons_self ..
      have hf0 := hfull t0 hmem0
      have hlt0 := h6 t0 rest rfl
      rw [arrived_length] at h5 ⊢
      rw [arrivedLen_cons] at h5 ⊢
      have := arrivedLen_mono cfg rest _ now (Int.le_of_lt hsn)
      omega
  have hmode : if idle = true then ∃ np coll, st.s.st = .activeIdle none np coll else st.s.st = .checkTokenPass .first := by
    cases idle with
    | true => simp only [if_true] at h10 ⊢; exact h10.1
    | false => simp only [Bool.false_eq_true, if_false] at h10 ⊢; exact h10.1
  obtain ⟨c0, hp0, c1, c2, c3, c4, c5, c6, c7, c8, c9⟩ := listener_fold_ctx st.s st.apps now l (arrived cfg rs now) b' d ret idle
    hokS.son h7 hl' hnew (by unfold Cfg.gmax at htto; omega) hdn hrec hmode
  have hme : c0.s.p.address = adr j := by rw [c5]; exact hokS.addr
  have hv0 : RingView M (adr j) c0.s.ring := by rw [c8]; exact hokS.view
  have hsplit : rs = rs.take k ++ rs.drop k := (List.take_append_drop _ _).symm
  -- is the last consumed telegram the token for this station?
  by_cases hacc : rs.drop k = [] ∧ ∃ t a, rs.getLast? = some t ∧ t.bytes = tokenBytes (adr j) a
  · -- acceptance
    obtain ⟨hdr, t, a, hlast, hbt⟩ := hacc
    have hrsk : rs.take k = rs := take_of_drop_nil rs k hdr
    have hbn : b' = [] := hnil hdr
    obtain ⟨dpre, tg, hdpre⟩ := hlastflag hdn hbn
    have hrsne : rs ≠ [] := by intro e; rw [e] at hlast; cases hlast
    have hrs' : rs = rs.dropLast ++ [t] := by
      exact eq_dropLast_append rs t hlast
    -- the token comes from the predecessor
    obtain ⟨i, hi, hsi, hbk | ⟨g, -, -, hbk⟩ | ⟨h0, pdu0, hbk, -, -⟩⟩ := hlog.kinds t (by rw [h1]; apply List.mem_append_right; rw [hrs']; simp)
    · have hai := hR.lt i hi
      have haj := hR.lt j hj
      have hsm := hR.ring.bound _ (cycSucc_mem _ M (hR.mem i hi))
      have ha256 : a < 256 ∨ True := .inr trivial
      rw [hbk] at hbt
      have hinj : cycSucc (adr i) M = adr j := by
        unfold tokenBytes sendToken at hbt
        simp only [List.cons.injEq, and_true, true_and] at hbt
        have e1 := congrArg UInt8.toNat hbt.1
        rw [u8n _ (by omega), u8n _ (by omega)] at e1
        exact e1
      have hpred : cycPred (adr j) M = adr i := by rw [← hinj]; exact hR.pred_succ _ (hR.mem i hi)
      have htel : telOf t = Telegram.token (UInt8.ofNat (adr j)) (UInt8.ofNat (cycPred (adr j) M)) := by
        rw [telOf_token t _ M hbk]; unfold tokTel; rw [hinj, hpred]
      -- shape of the batch
      rw [hrsk, hrs', List.map_append, hdpre, List.map_append] at hdm
      simp only [List.map_cons, List.map_nil] at hdm
      have hlen : (dpre.map Prod.fst).length = (rs.dropLast.map telOf).length := by
        have := congrArg List.length hdm
        simp only [List.length_append, List.length_map, List.length_cons, List.length_nil] at this ⊢
        omega
      obtain ⟨hdm1, hdm2⟩ := List.append_inj hdm hlen
      have htg : tg = telOf t := by simpa using hdm2
      have hfor : ∀ x ∈ dpre, Foreign M (adr j) x.1 := by
        intro x hx
        have : x.1 ∈ rs.dropLast.map telOf := by rw [← hdm1]; exact List.mem_map_of_mem hx
        obtain ⟨t', ht', e⟩ := List.mem_map.1 this
        rw [← e]
        exact TxKind.foreign hR (hlog.kinds t' (by rw [h1]; exact List.mem_append_right _ (List.dropLast_subset _ ht'))) j hj
          (h3 t' (List.dropLast_subset _ ht')) (h9 t' ht')
      obtain ⟨c', hf', a1, a2, a3, a4, a5, a6, a7, a8, a9, a10⟩ := fold_accept M (adr j) now dpre c0 now hfor hme c7 hv0 c9
        (Int.le_refl _) (by rw [hpred]; intro e; exact hR.two _ (hR.mem i hi) (by rw [hinj, e])) haj (by rw [hpred]; exact hai)
      have hpoll : st.s.poll st.apps now false (arrived cfg rs now) = .ok c' := by
        rw [hp0, hdpre, htg, htel]; exact hf'
      have hokS' : StOkN cfg M (upSt st c') (adr j) :=
        hokS.step now false _ c' hpoll (a5.trans c5) a8 (a6.trans c6) (by rw [a3, c3]; exact hokS.apps)
      refine ⟨inc, c', hd, by rw [hphy, hrx']; exact hpoll, a1.trans c1, .inr ⟨⟨t, a, ?_, hbt ▸ hbk ▸ rfl⟩, hokS', a7, a9, a10,
        by rw [a2, c2, hbn], ?_, fun o ho hs => by have := h0 o ho hs; omega⟩⟩
      · rw [h1, List.getLast?_append, hlast]; rfl
      · intro o ho
        rw [h1] at ho
        rcases List.mem_append.1 ho with ho | ho
        · exact (h2 o ho).imp id (fun h => by omega)
        · right
          have hfo := hfull o (by rw [hrsk]; exact ho)
          have hpo := (hw o ho).2.2
          have := (cvis_spec cfg o now (o.bytes.length - 1) (by omega)).1 (by omega)
          unfold cEnd; exact this
    · exfalso
      rw [hbk] at hbt
      exact statusRequest_ne_token _ _ _ _ hbt
    · exfalso
      rw [hbk] at hbt
      exact frameSpec_ne_token _ _ _ _ hbt
  · -- everything consumed is merely overheard
    have hfor : ∀ x ∈ d, Foreign M (adr j) x.1 := by
      intro x hx
      have : x.1 ∈ (rs.take k).map telOf := by rw [← hdm]; exact List.mem_map_of_mem hx
      obtain ⟨t', ht', e⟩ := List.mem_map.1 this
      rw [← e]
      have hmem : t' ∈ rs := List.mem_of_mem_take ht'
      refine TxKind.foreign hR (hlog.kinds t' (by rw [h1]; exact List.mem_append_right _ hmem)) j hj (h3 t' hmem) ?_
      rcases mem_dropLast_or_last rs t' hmem with hdl | hlt
      · exact h9 t' hdl
      · intro a hbt
        apply hacc
        refine ⟨?_, t', a, hlt, hbt⟩
        -- `t'` is the last of `rs` and was consumed, so nothing is left
        apply Classical.byContradiction
        intro hne
        have hdl' : (rs.take k ++ rs.drop k).dropLast = rs.take k ++ (rs.drop k).dropLast := dropLast_of_append _ _ hne
        rw [← hsplit] at hdl'
        have hin : t' ∈ rs.dropLast := by rw [hdl']; exact List.mem_append_left _ ht'
        -- a chained list has no duplicates: `t'` cannot be both in `dropLast` and last
        obtain ⟨pre, hpre⟩ : ∃ pre, rs = pre ++ [t'] := ⟨rs.dropLast, eq_dropLast_append rs t' hlt⟩
        rw [hpre, List.dropLast_concat] at hin
        rw [hpre] at hcrs
        have := (List.pairwise_append.1 hcrs).2.2 t' hin t' (by simp)
        have hpo := (hw t' hmem).2.2
        have := cfg.ce_pos hr (t'.bytes.length - 1)
        omega
    obtain ⟨c', hf', hh, hne', -⟩ := fold_foreign M (adr j) now d c0 now hfor hme c7 hv0 c9 (Int.le_refl _)
    obtain ⟨hl1, hp1⟩ := hne' hdn
    have hpoll : st.s.poll st.apps now false (arrived cfg rs now) = .ok c' := by rw [hp0]; exact hf'
    have hokS' : StOkN cfg M (upSt st c') (adr j) :=
      hokS.step now false _ c' hpoll (hh.p.trans c5) hh.view (hh.online.trans c6) (by rw [hh.apps, c3]; exact hokS.apps)
    refine ⟨inc, c', hd, by rw [hphy, hrx']; exact hpoll, hh.tx.trans c1, .inl ⟨hokS', dn ++ rs.take k, rs.drop k, true, now, ?_⟩⟩
    rw [getD_set_self b j now hjl]
    unfold upSt
    simp only
    refine ⟨by rw [List.append_assoc, List.take_append_drop]; exact h1, ?_, fun t ht => h3 t (List.mem_of_mem_drop ht),
      by rw [hh.rx, c2]; exact hb', by rw [hp1]; exact Nat.zero_le _, ?_, fun t rest hrs => (hhead t rest hrs).1, hl1,
      .inl (Int.le_refl _), ?_, ?_, ?_⟩
    · intro o ho
      rcases List.mem_append.1 ho with ho | ho
      · exact (h2 o ho).imp id (fun h => by omega)
      · right
        have hfo := hfull o ho
        have hpo := (hw o (List.mem_of_mem_take ho)).2.2
        have := (cvis_spec cfg o now (o.bytes.length - 1) (by omega)).1 (by omega)
        unfold cEnd; exact this
    · intro o ho hs; have := h0 o ho hs; omega
    · intro t ht a
      by_cases hne : rs.drop k = []
      · rw [hne] at ht; cases ht
      · have hdl' : (rs.take k ++ rs.drop k).dropLast = rs.take k ++ (rs.drop k).dropLast := dropLast_of_append _ _ hne
        rw [← hsplit] at hdl'
        exact h9 t (by rw [hdl']; exact List.mem_append_right _ ht) a
    · intro hex hdr
      obtain ⟨t, a, hlt, hbt⟩ := hex
      have hrsne := hF ⟨t, a, hlt, hbt⟩
      apply hacc
      refine ⟨hdr, t, a, ?_, hbt⟩
      rw [h1, List.getLast?_append] at hlt
      cases hg : rs.getLast? with
      | none => exact absurd (List.getLast?_eq_none_iff.1 hg) hrsne
      | some t2 => rw [hg] at hlt; simpa using hlt
    · simp only [if_true]
      refine ⟨hh.st, ?_⟩
      rw [hh.p, c5]
      cases hdr : rs.drop k with
      | nil =>
        -- caught up: the last transmission of the log has arrived completely
        unfold nextArr
        simp only
        have hrsk : rs.take k = rs := take_of_drop_nil rs k hdr
        have hrsne : rs ≠ [] := by intro e; rw [e] at hk; simp only [List.length_nil] at hk; omega
        obtain ⟨tl, htl⟩ : ∃ tl, rs.getLast? = some tl := by
          cases hg : rs.getLast? with
          | none => exact absurd (List.getLast?_eq_none_iff.1 hg) hrsne
          | some tl => exact ⟨tl, rfl⟩
        have hHb := hH tl (by rw [h1, List.getLast?_append, htl]; rfl)
        have hmem : tl ∈ rs := List.mem_of_getLast? htl
        have hfo := hfull tl (by rw [hrsk]; exact hmem)
        have hpo := (hw tl hmem).2.2
        have := (cvis_spec cfg tl now (tl.bytes.length - 1) (by omega)).1 (by omega)
        unfold cEnd at hHb
        omega
      | cons t rest =>
        have := nextArr_after cfg hr H t rest now (hhead t rest hdr).1
          (hstart t (by rw [h1]; apply List.mem_append_right; apply List.mem_of_mem_drop (i := k); rw [hdr]; simp))
        unfold Cfg.gmax at htto
        omega

end PV
