/-
Decision procedure "the children of every pair the grammar can produce are accepted":
for an acceptance specification `acc : Rule → Rx` (a regular expression over child rule names per
rule) `checkRule acc r` computes, by abstract interpretation of the body of `r` over sets of
Brzozowski derivatives of `acc r`, whether every child word the body can produce (in the sense of
`Prod`) lies in `Lang (acc r)`.  Soundness is proved here once, for an arbitrary grammar and an
arbitrary `acc`; the per-grammar fact `∀ r, checkRule acc r = true` is then evaluated by
`decide +kernel` (and so re-evaluated whenever Grammar.lean is regenerated).
-/
import ProfiVerif.Lemmas.PegRx
import ProfiVerif.Lemmas.PegShape

namespace PV.Gsd.Peg
open Rx

/-! ### finite sets of derivatives as duplicate-free lists -/

def addTo (acc : List Rx) (x : Rx) : List Rx := if x ∈ acc then acc else acc ++ [x]

def uni (xs ys : List Rx) : List Rx := ys.foldl addTo xs

theorem mem_addTo {acc : List Rx} {x q : Rx} : q ∈ addTo acc x ↔ q ∈ acc ∨ q = x := by
  unfold addTo
  split
  · next h => constructor
              · exact .inl
              · rintro (h' | rfl)
                · exact h'
                · exact h
  · simp

theorem mem_uni {ys xs : List Rx} {q : Rx} : q ∈ uni xs ys ↔ q ∈ xs ∨ q ∈ ys := by
  unfold uni
  induction ys generalizing xs with
  | nil => simp
  | cons y ys ih =>
    simp only [List.foldl_cons, ih, mem_addTo, List.mem_cons]
    constructor
    · rintro ((h | h) | h)
      · exact .inl h
      · exact .inr (.inl h)
      · exact .inr (.inr h)
    · rintro (h | h | h)
      · exact .inl (.inl h)
      · exact .inl (.inr h)
      · exact .inr h

/-- Least set containing `T` and closed under `f`, by bounded iteration; the closure is *checked*, so
the result is right whatever the bound. -/
def starFix (f : List Rx → Option (List Rx)) : Nat → List Rx → Option (List Rx)
  | 0, _ => none
  | k + 1, T =>
    match f T with
    | none => none
    | some T' => if T'.all (fun q => decide (q ∈ T)) then some T else starFix f k (uni T T')

theorem starFix_spec {f : List Rx → Option (List Rx)} :
    ∀ {k : Nat} {S T : List Rx}, starFix f k S = some T →
      (∀ q ∈ S, q ∈ T) ∧ ∃ T', f T = some T' ∧ ∀ q ∈ T', q ∈ T
  | 0, _, _, h => by simp [starFix] at h
  | k + 1, S, T, h => by
    simp only [starFix] at h
    split at h
    · cases h
    · next T' hf =>
      split at h
      · next hall =>
        cases h
        refine ⟨fun _ h => h, T', hf, ?_⟩
        intro q hq
        simpa using (List.all_eq_true.mp hall) q hq
      · obtain ⟨h1, h2⟩ := starFix_spec h
        exact ⟨fun q hq => h1 q (mem_uni.mpr (.inl hq)), h2⟩

/-- Iteration bound of `starFix` (any value is sound; the sets here have a handful of elements). -/
def starFuel : Nat := 32

/-- Image of a set of states (derivatives of the acceptance expression) under every child word the
expression can produce.  `inl` handles calls of silent rules (their bodies are inlined). -/
def postE (inl : Bool → Rule → List Rx → Option (List Rx)) : Bool → Expr → List Rx → Option (List Rx)
  | _, .str _, S => some S
  | _, .insens _, S => some S
  | _, .range _ _, S => some S
  | _, .any, S => some S
  | _, .soi, S => some S
  | _, .newline, S => some S
  | a, .call r, S =>
    match (ruleDef r).1 with
    | .silent => inl a r S
    | _ => if a then some S else some (uni [] (S.map (Rx.deriv r)))
  | a, .seq x y, S =>
    match postE inl a x S with
    | some S1 => postE inl a y S1
    | none => none
  | a, .choice x y, S =>
    match postE inl a x S, postE inl a y S with
    | some S1, some S2 => some (uni S1 S2)
    | _, _ => none
  | a, .opt x, S =>
    match postE inl a x S with
    | some S1 => some (uni S S1)
    | none => none
  | a, .star x, S => starFix (postE inl a x) starFuel S
  | a, .plus x, S =>
    match postE inl a x S with
    | some S1 => starFix (postE inl a x) starFuel S1
    | none => none
  | _, .npred _, S => some S
  | _, .ppred _, S => some S

/-- Inlining of silent rules to nesting depth `n` (`none` beyond: the check then fails). -/
def postN : Nat → Bool → Rule → List Rx → Option (List Rx)
  | 0, _, _, _ => none
  | n + 1, a, r, S => postE (postN n) a (ruleDef r).2 S

def ruleWord (ps : List Pair) : List Rule := ps.map Pair.rule

/-- Soundness of `postE`: every state is carried into the result set by every producible word. -/
theorem postE_sound {a : Bool} {e : Expr} {ps : List Pair} (h : Prod a e ps) :
    ∀ (n : Nat) (S S' : List Rx), postE (postN n) a e S = some S' →
      ∀ q ∈ S, derivs (ruleWord ps) q ∈ S' := by
  induction h with
  | str => intro n S S' h q hq; simp only [postE] at h; cases h; exact hq
  | insens => intro n S S' h q hq; simp only [postE] at h; cases h; exact hq
  | range => intro n S S' h q hq; simp only [postE] at h; cases h; exact hq
  | any => intro n S S' h q hq; simp only [postE] at h; cases h; exact hq
  | soi => intro n S S' h q hq; simp only [postE] at h; cases h; exact hq
  | newline => intro n S S' h q hq; simp only [postE] at h; cases h; exact hq
  | npred => intro n S S' h q hq; simp only [postE] at h; cases h; exact hq
  | ppred => intro n S S' h q hq; simp only [postE] at h; cases h; exact hq
  | callSilent hs _ ih =>
    intro n S S' h q hq
    simp only [postE, hs] at h
    cases n with
    | zero => simp [postN] at h
    | succ m => exact ih m S S' (by simpa [postN] using h) q hq
  | callAtomic hs =>
    intro n S S' h q hq
    simp only [postE, ↓reduceIte, Option.some.injEq] at h
    subst h; exact hq
  | @callNode r t cs hs _ _ =>
    intro n S S' h q hq
    simp only [postE, Bool.false_eq_true, ↓reduceIte, Option.some.injEq] at h
    subst h
    simp only [ruleWord, List.map_cons, List.map_nil, Pair.rule, derivs_cons, derivs_nil]
    exact mem_uni.mpr (.inr (List.mem_map.mpr ⟨q, hq, rfl⟩))
  | seq _ _ ih1 ih2 =>
    intro n S S' h q hq
    simp only [postE] at h
    split at h
    · next S1 h1 =>
      simp only [ruleWord, List.map_append, derivs_append]
      exact ih2 n S1 S' h _ (ih1 n S S1 h1 q hq)
    · cases h
  | choiceL _ ih =>
    intro n S S' h q hq
    simp only [postE] at h
    split at h
    · next S1 S2 h1 h2 => cases h; exact mem_uni.mpr (.inl (ih n S S1 h1 q hq))
    · cases h
  | choiceR _ ih =>
    intro n S S' h q hq
    simp only [postE] at h
    split at h
    · next S1 S2 h1 h2 => cases h; exact mem_uni.mpr (.inr (ih n S S2 h2 q hq))
    · cases h
  | optNone =>
    intro n S S' h q hq
    simp only [postE] at h
    split at h
    · cases h; exact mem_uni.mpr (.inl hq)
    · cases h
  | optSome _ ih =>
    intro n S S' h q hq
    simp only [postE] at h
    split at h
    · next S1 h1 => cases h; exact mem_uni.mpr (.inr (ih n S S1 h1 q hq))
    · cases h
  | starNil =>
    intro n S S' h q hq
    simp only [postE] at h
    exact (starFix_spec h).1 q hq
  | @starCons a x p1 p2 _ _ ih1 ih2 =>
    intro n S S' h q hq
    simp only [postE] at h
    obtain ⟨hS, T', hf, hT'⟩ := starFix_spec h
    simp only [ruleWord, List.map_append, derivs_append]
    have h1 := hT' _ (ih1 n S' T' hf q (hS q hq))
    -- restart the fixpoint from the closed set: it answers the closed set itself
    have hfix : postE (postN n) a (.star x) S' = some S' := by
      simp only [postE, starFuel, starFix, hf]
      have : (T'.all fun q => decide (q ∈ S')) = true := List.all_eq_true.mpr (by simpa using hT')
      simp [this]
    exact ih2 n S' S' hfix _ h1
  | plus _ _ ih1 ih2 =>
    intro n S S' h q hq
    simp only [postE] at h
    split at h
    · next S1 h1 =>
      simp only [ruleWord, List.map_append, derivs_append]
      exact ih2 n S1 S' (by simpa only [postE] using h) _ (ih1 n S S1 h1 q hq)
    · cases h

/-! ### The check and what it yields -/

/-- A pair tree all of whose nodes have an accepted child word. -/
inductive Pair.OK (acc : Rule → Rx) : Pair → Prop
  | node {r : Rule} {t : Str} {cs : List Pair} :
      Lang (acc r) (ruleWord cs) → (∀ c ∈ cs, Pair.OK acc c) → Pair.OK acc (.node r t cs)

/-- Every child word the body of `r` can produce is accepted by `acc r` (decidable; `true` for silent
rules, which never head a pair). -/
def checkRule (acc : Rule → Rx) (r : Rule) : Bool :=
  match (ruleDef r).1 with
  | .silent => true
  | ty =>
    match postE (postN callDepth) (ty == .atomic) (ruleDef r).2 [acc r] with
    | some S => S.all Rx.nullable
    | none => false

def checkGrammar (acc : Rule → Rx) : Bool := Rule.all.all (checkRule acc)

theorem checkRule_of_checkGrammar {acc : Rule → Rx} (h : checkGrammar acc = true) (r : Rule) :
    checkRule acc r = true :=
  List.all_eq_true.mp h r (Rule.mem_all r)

/-- Every pair produced under a checked grammar is `OK`. -/
theorem prod_ok {acc : Rule → Rx} (hg : checkGrammar acc = true) {a : Bool} {e : Expr} {ps : List Pair}
    (h : Prod a e ps) : ∀ p ∈ ps, Pair.OK acc p := by
  induction h with
  | callSilent _ _ ih => exact ih
  | @callNode r t cs hs hb ih =>
    intro p hp
    simp only [List.mem_singleton] at hp
    subst hp
    refine .node ?_ ih
    have hc := checkRule_of_checkGrammar hg r
    unfold checkRule at hc
    split at hc
    · next hs' => exact (hs hs').elim
    · split at hc
      · next S hpost =>
        apply lang_of_derivs
        exact List.all_eq_true.mp hc _ (postE_sound hb _ _ _ hpost _ (List.mem_singleton.mpr rfl))
      · cases hc
  | seq _ _ ih1 ih2 => intro p hp; rcases List.mem_append.mp hp with hp | hp; exact ih1 p hp; exact ih2 p hp
  | choiceL _ ih => exact ih
  | choiceR _ ih => exact ih
  | optSome _ ih => exact ih
  | starCons _ _ ih1 ih2 => intro p hp; rcases List.mem_append.mp hp with hp | hp; exact ih1 p hp; exact ih2 p hp
  | plus _ _ ih1 ih2 => intro p hp; rcases List.mem_append.mp hp with hp | hp; exact ih1 p hp; exact ih2 p hp
  | _ => intro p hp; cases hp

/-- **The tree `parseGsd` returns is `OK`** (for an arbitrary checked grammar) and is headed by the
rule asked for, provided that rule is not silent. -/
theorem parseGsd_ok {acc : Rule → Rx} (hg : checkGrammar acc = true) (hgsd : (ruleDef .gsd).1 ≠ .silent)
    {text : Str} {p : Pair} (h : parseGsd text = some (some p)) : p.rule = .gsd ∧ Pair.OK acc p := by
  unfold parseGsd at h
  simp only at h
  split at h
  · next st hev =>
    split at h
    · next q hout =>
      cases h
      obtain ⟨new, ho, hp⟩ := eval_prod hev
      simp only [List.append_nil] at ho
      rw [hout] at ho
      subst ho
      simp only [List.reverse_cons, List.reverse_nil, List.nil_append] at hp
      refine ⟨?_, prod_ok hg hp p (List.mem_singleton.mpr rfl)⟩
      cases hp with
      | callSilent hs _ => exact (hgsd hs).elim
      | callNode _ _ => rfl
    · cases h
  · cases h
  · cases h

end PV.Gsd.Peg
