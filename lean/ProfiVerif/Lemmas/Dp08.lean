/-
Ghost invariant for C08 (frame count bit / retry discipline): `J8` per slot, `Await` for the slot a
reply is outstanding from, with `init` / `step` lemmas over the histories of `Lemmas/Dp.lean`.
-/
import ProfiVerif.Lemmas.Dp

namespace PV.Dp
open PV

/-- Service of the request a peripheral sends in state `st` with `diag_needed = dn`. -/
def kindOfSnap (st : PState) (dn : Bool) : RKind :=
  match st with
  | .offline | .validateConfig => .diag
  | .waitForParam => .setPrm
  | .waitForConfig => .chkCfg
  | .preDataExchange | .dataExchange => if dn then .diag else .dx

theorem send_kind_snap {fp : FdlParams} {op : OpState} {p p' : Peripheral} {h : Header} {pdu : Bytes}
    (hs : TxSpec fp op p (.send p' h pdu)) :
    reqKind h = kindOfSnap p.state p.serviceIsDiag ∧ p'.state = p.state ∧ p'.diagNeeded = p.diagNeeded ∧
      p'.fcb = p.fcb ∧ p'.retry = p.retry + 1 ∧ p'.opts = p.opts ∧ p.retry ≤ fp.maxRetry ∧
      (p.state = .waitForParam → p.opts.userPrm ≠ none) ∧ (p.state = .waitForConfig → p.opts.config ≠ none) ∧
      ((p'.state = .preDataExchange ∨ p'.state = .dataExchange) → p'.diagInFlight = p.serviceIsDiag) := by
  cases hs
  case dxDiag hr hst hd => rcases hst with hst | hst <;> simp_all [kindOfSnap]
  case dx hr hst hd => rcases hst with hst | hst <;> simp_all [kindOfSnap]
  all_goals simp_all [kindOfSnap]

/-- C08 invariant of one slot: ghost observations `x` against the peripheral `p`. -/
structure J8 (x : SG) (p : Peripheral) : Prop where
  first : x.expectFirst = true → p.fcb = .first
  lastNone : x.last = none → x.expectFirst = true
  toggled : x.expectFirst = false → x.accepted = true → ∀ k f0, x.last = some (k, f0) → p.fcb = cyc f0
  /-- as long as the bit is the one of the last request, the peripheral is in the state it was in
  when that request went out, and in the data-exchange states that request is still unanswered
  (`retry_count > 0`) with the same service in flight -/
  snap : x.expectFirst = false → ∀ k f0, x.last = some (k, f0) → p.fcb = f0 →
    p.state = x.snapState ∧
    ((p.state = .preDataExchange ∨ p.state = .dataExchange) → p.diagInFlight = x.snapDiag ∧ 0 < p.retry)
  kind : ∀ k f0, x.last = some (k, f0) → k = kindOfSnap x.snapState x.snapDiag ∧ f0 ≠ .inactive
  count : p.state ≠ .offline → (p.state = .waitForParam → p.opts.userPrm ≠ none) →
    (p.state = .waitForConfig → p.opts.config ≠ none) → x.anyReply = false → x.count ≤ p.retry

/-- The slot a reply is outstanding from: its last request is unanswered and carried the current bit. -/
structure Await (x : SG) (p : Peripheral) : Prop where
  notFirst : x.expectFirst = false
  last : ∃ k, x.last = some (k, p.fcb)
  noReply : x.anyReply = false
  notAcc : x.accepted = false
  inflight : (p.state = .preDataExchange ∨ p.state = .dataExchange) → p.diagInFlight = x.snapDiag

structure Inv8 (g : G) : Prop where
  slot : ∀ (i : Nat) (p : Peripheral), g.m.slots[i]? = some (some p) → J8 (g.sg i) p
  /-- (for the peripheral the reply will be delivered to: after a `reset_address()` in flight the
  peripheral at the cycle index has another address and the reply is ignored) -/
  await : ∀ a, g.out = some a → ∀ i p, g.m.cur = some (i, p) → p.address = a → Await (g.sg i) p

/-- A decline without event only happens while offline or waiting for parameters / configuration. -/
theorem decline_none_state {fp : FdlParams} {op : OpState} {p p' : Peripheral}
    (h : TxSpec fp op p (.decline p' none)) :
    p.state = .offline ∨ p.state = .waitForParam ∨ p.state = .waitForConfig := by
  cases h <;> simp_all

theorem j8_decline {fp : FdlParams} {op : OpState} {x : SG} {p : Peripheral} (hJ : J8 x p)
    (ht : TxSpec fp op p (.decline { p with retry := 0 } none)) : J8 x { p with retry := 0 } where
  first := hJ.first
  lastNone := hJ.lastNone
  toggled := hJ.toggled
  snap := by
    intro he k f0 hl hf
    obtain ⟨h1, _⟩ := hJ.snap he k f0 hl hf
    refine ⟨h1, ?_⟩
    intro hdx
    exfalso
    -- a decline without event never happens in the data-exchange states
    have hdx' : p.state = .preDataExchange ∨ p.state = .dataExchange := hdx
    rcases decline_none_state ht with h | h | h <;> rcases hdx' with h' | h' <;> (rw [h] at h'; cases h')
  kind := hJ.kind
  count := by
    intro h1 h2 h3 _
    exfalso
    generalize hr : PTx.decline { p with retry := 0 } none = r at ht
    cases ht <;> simp_all

theorem j8_init {x : SG} (hx : x = {}) {p : Peripheral} (hf : p.fcb = .first) : J8 x p := by
  subst hx
  exact ⟨fun _ => hf, fun _ => rfl, (by intro h; cases h), (by intro h; cases h),
    (by intro k f0 h; cases h), (by intro _ _ _ _; exact Nat.zero_le _)⟩

theorem inv8_init {fp : FdlParams} {slots : List (Option Peripheral)} (h : InitOk fp slots) (gr : Bool) :
    Inv8 (G.init slots gr) :=
  ⟨fun i p hi => j8_init rfl (h.fresh i p hi).2.2.2.1, (by intro a ha; cases ha)⟩


theorem j8_send {fp : FdlParams} {op : OpState} {x : SG} {p p' : Peripheral} {h : Header} {pdu : Bytes}
    (hJ : J8 x p) (hP : PInv fp p) (hs : TxSpec fp op p (.send p' h pdu)) : J8 (sgSend h p' x) p' := by
  obtain ⟨hk, hst, hdn, hfcb, hre, hop, hrl, hprm, hcfg, hinf⟩ := send_kind_snap hs
  have hf : fcbOf h = p.fcb := (send_header hs).2.2.2.1
  refine ⟨by simp [sgSend], by simp [sgSend], by simp [sgSend], ?_, ?_, ?_⟩
  · intro _ k f0 hl _
    simp only [sgSend, true_and]
    exact fun _ => by rw [hre]; omega
  · intro k f0 hl
    simp only [sgSend, Option.some.injEq, Prod.mk.injEq] at hl ⊢
    obtain ⟨rfl, rfl⟩ := hl
    rw [hk, hf]
    refine ⟨?_, hP.fcb⟩
    -- outside the data-exchange states the service does not depend on the flag
    by_cases hdx : p'.state = .preDataExchange ∨ p'.state = .dataExchange
    · rw [hinf hdx, hst]
    · rw [hst] at hdx ⊢
      cases hps : p.state <;> simp_all [kindOfSnap]
  · intro h1 h2 h3 _
    simp only [sgSend]
    rw [hre]
    split
    · rename_i hc
      have := hJ.count (by rw [← hst]; exact h1) (by intro hh; exact hprm hh) (by intro hh; exact hcfg hh) hc.2
      omega
    · omega

theorem await_send {fp : FdlParams} {op : OpState} {x : SG} {p p' : Peripheral} {h : Header} {pdu : Bytes}
    (hs : TxSpec fp op p (.send p' h pdu)) : Await (sgSend h p' x) p' := by
  obtain ⟨_, _, _, hfcb, _, _, _, _, _, hinf⟩ := send_kind_snap hs
  have hf : fcbOf h = p.fcb := (send_header hs).2.2.2.1
  refine ⟨by simp [sgSend], ⟨reqKind h, by simp [sgSend, hf, hfcb]⟩, by simp [sgSend], by simp [sgSend], ?_⟩
  intro _
  simp only [sgSend]

theorem j8_offline {x : SG} {p : Peripheral} (hJ : J8 x p) :
    J8 (sgOffline x) { p with state := .offline, fcb := .first, retry := 0 } :=
  ⟨fun _ => rfl, fun _ => rfl, (by intro h; cases h), (by intro h; cases h), hJ.kind,
   (by intro h; exact absurd rfl h)⟩



/-- An acceptable reply (for the service the peripheral's state implies) toggles the bit. -/
theorem acc_cycles {p p' : Peripheral} {t : Telegram} {ev : Option PEvent} (h : RxSpec p t p' ev) (d : Bool)
    (hacc : acceptable (kindOfSnap p.state d) p.piI.length t = true)
    (hinf : (p.state = .preDataExchange ∨ p.state = .dataExchange) → p.diagInFlight = d) :
    p'.fcb = cyc p.fcb := by
  cases h
  case dxDiagRej hs hd ha =>
    have := hinf hs
    rcases hs with hs | hs <;> simp_all [kindOfSnap, acceptable]
  case dxDiagAcc => rfl
  all_goals first | rfl | (simp_all [kindOfSnap, acceptable]; done)

/-- If the bit is what it was, the peripheral is in the state it was (only `retry_count` may differ). -/
theorem same_fcb_same {p p' : Peripheral} {t : Telegram} {ev : Option PEvent} (h : RxSpec p t p' ev)
    (hf : p.fcb ≠ .inactive) (he : p'.fcb = p.fcb) :
    p'.state = p.state ∧ p'.diagNeeded = p.diagNeeded ∧ p'.diagInFlight = p.diagInFlight ∧
      ((p.state = .preDataExchange ∨ p.state = .dataExchange) → p'.retry = p.retry) := by
  have hne := cyc_ne_self hf
  cases h
  case valRej hs _ => exact ⟨rfl, rfl, rfl, by intro h; rcases h with h | h <;> simp [hs] at h⟩
  all_goals first | exact ⟨rfl, rfl, rfl, fun _ => rfl⟩ | exact absurd he hne

theorem j8_reply {x : SG} {p p' : Peripheral} {t : Telegram} {ev : Option PEvent}
    (hJ : J8 x p) (hA : Await x p) (hf : p.fcb ≠ .inactive) (hs : RxSpec p t p' ev) :
    J8 (sgReply t p p' x) p' := by
  obtain ⟨k, hl⟩ := hA.last
  obtain ⟨hst, hdn⟩ := hJ.snap hA.notFirst k p.fcb hl rfl
  have hk := (hJ.kind k p.fcb hl).1
  refine ⟨?_, ?_, ?_, ?_, ?_, ?_⟩
  · intro h; simp only [sgReply] at h; rw [hA.notFirst] at h; cases h
  · intro h; simp only [sgReply] at h; rw [hl] at h; cases h
  · intro _ hacc k' f0 hl'
    simp only [sgReply, hl, hA.notAcc, Bool.false_or] at hacc hl'
    simp only [Option.some.injEq, Prod.mk.injEq] at hl'
    obtain ⟨rfl, rfl⟩ := hl'
    rw [hk, ← hst] at hacc
    exact acc_cycles hs x.snapDiag hacc (by intro h; exact hA.inflight h)
  · intro _ k' f0 hl' hfe
    simp only [sgReply, hl, Option.some.injEq, Prod.mk.injEq] at hl' ⊢
    obtain ⟨rfl, rfl⟩ := hl'
    obtain ⟨h1, _, h3, h4⟩ := same_fcb_same hs hf hfe
    rw [h1, h3]
    refine ⟨hst, fun hdx => ?_⟩
    rw [h4 hdx]
    exact hdn hdx
  · intro k' f0 hl'
    simp only [sgReply] at hl' ⊢
    exact hJ.kind k' f0 hl'
  · intro _ _ _ h; simp [sgReply] at h


theorem cur_slot {m : Master} {i : Nat} {p : Peripheral} (hc : m.cur = some (i, p)) :
    m.slots[i]? = some (some p) := by
  unfold Master.cur at hc
  cases hcy : m.cycle with
  | completed => rw [hcy] at hc; cases hc
  | dx index => rw [hcy] at hc; exact (curSlot_spec hc).2.2.1

theorem j8_ghost_irrelevant {x x' : SG} {p : Peripheral} (hJ : J8 x p)
    (h1 : x'.expectFirst = x.expectFirst) (h2 : x'.last = x.last) (h3 : x'.accepted = x.accepted)
    (h4 : x'.anyReply = x.anyReply) (h5 : x'.count = x.count) (_h6 : x'.diagReq = x.diagReq)
    (h7 : x'.snapState = x.snapState) (h8 : x'.snapDiag = x.snapDiag) : J8 x' p := by
  refine ⟨?_, ?_, ?_, ?_, ?_, ?_⟩
  · rw [h1]; exact hJ.first
  · rw [h1, h2]; exact hJ.lastNone
  · rw [h1, h2, h3]; exact hJ.toggled
  · rw [h1, h2, h7, h8]; exact hJ.snap
  · rw [h2, h7, h8]; exact hJ.kind
  · rw [h4, h5]; exact hJ.count

theorem await_ghost_irrelevant {x x' : SG} {p : Peripheral} (hA : Await x p)
    (h1 : x'.expectFirst = x.expectFirst) (h2 : x'.last = x.last) (h3 : x'.accepted = x.accepted)
    (h4 : x'.anyReply = x.anyReply) (h8 : x'.snapDiag = x.snapDiag) : Await x' p :=
  ⟨by rw [h1]; exact hA.notFirst, by rw [h2]; exact hA.last, by rw [h4]; exact hA.noReply,
   by rw [h3]; exact hA.notAcc, by rw [h8]; exact hA.inflight⟩

theorem inv8_step {fp : FdlParams} (hfp : FpOk fp) {g g' : G} (hI : Inv fp g) (h8 : Inv8 g) (op : Op)
    (h : gstep fp g op = .ok g') (hu : g'.tainted = false) : Inv8 g' := by
  have hu0 := tainted_mono op h hu
  cases op with
  | resetAddr slot a =>
    simp only [gstep] at h
    split at h
    · cases h
    · cases hw : g.m.resetAddress slot a with
      | none => rw [hw] at h; cases h
      | some m' =>
        rw [hw] at h
        simp only [Res3.ok.injEq] at h; subst h
        unfold Master.resetAddress Master.peripheral? at hw
        cases hs : g.m.slots.getD slot none with
        | none => rw [hs] at hw; cases hw
        | some p =>
          rw [hs] at hw
          simp only [Option.some.injEq] at hw; subst hw
          have hj : g.m.slots[slot]? = some (some p) := by
            rw [List.getD_eq_getElem?_getD] at hs
            cases hh : g.m.slots[slot]? with
            | none => rw [hh] at hs; cases hs
            | some x => rw [hh] at hs; simp only [Option.getD_some] at hs; rw [hs]
          simp only [Bool.or_eq_false_iff] at hu
          refine ⟨?_, ?_⟩
          · refine set_pres (fun j p => J8 (g.sg j) p) (fun j p => J8 (g.upd slot (fun _ => {}) j) p) h8.slot ?_ ?_
            · rw [upd_same]; exact j8_init rfl rfl
            · intro j q hjq hJ; rw [upd_other _ _ hjq]; exact hJ
          · intro a' ha' j q hq hpa
            rw [cur_of_set hj { g.m with slots := g.m.slots.set slot (some (p.resetAddress a)) } rfl rfl] at hq
            cases hc : g.m.cur with
            | none => rw [hc] at hq; cases hq
            | some ip =>
              obtain ⟨i0, p0⟩ := ip
              rw [hc] at hq
              simp only [Option.map_some, Option.some.injEq] at hq
              have ho : g.out = some a' := ha'
              by_cases hij : i0 = slot
              · -- the peripheral in flight was reset: to another address (nothing to show), or to the
                -- address the reply is outstanding from — then the history is tainted
                exfalso
                simp only [hij, if_true, Prod.mk.injEq] at hq
                obtain ⟨-, rfl⟩ := hq
                have haa : a = a' := hpa
                have h2 := hu.2
                simp [resetInFlight, ho, hc, hij, haa] at h2
              · simp only [hij, if_false, Prod.mk.injEq] at hq
                obtain ⟨rfl, rfl⟩ := hq
                show Await (g.upd slot (fun _ => {}) i0) p0
                rw [upd_other _ _ hij]
                exact h8.await a' ho i0 p0 hc hpa
  | tx now hp =>
    refine tx_elim hfp hI h Inv8 ?_ ?_ ?_ ?_
    · intro _ _ _
      exact ⟨h8.slot, by intro a ha; cases ha⟩
    · intro m' hD _ _ _
      refine ⟨?_, by intro a ha; cases ha⟩
      exact declined_pres hD (fun i p => J8 (g.sg i) p) (fun i p hJ ht => j8_decline hJ ht) h8.slot
    · intro m1 i p p' hd pdu hD hM1 hc hts _
      have h1 := declined_pres hD (fun i p => J8 (g.sg i) p) (fun i p hJ ht => j8_decline hJ ht) h8.slot
      have hi := cur_slot hc
      refine ⟨?_, ?_⟩
      · refine set_pres (fun j p => J8 (g.sg j) p) (fun j p => J8 (g.upd i (sgSend hd p') j) p) h1 ?_ ?_
        · rw [upd_same]; exact j8_send (h1 i p hi) (hM1.pinv i p hi) hts
        · intro j q hj hJ; rw [upd_other _ _ hj]; exact hJ
      · intro a _ j q hcq _
        have := cur_set (p' := p') hc ({} : Events)
        simp only [G.polled] at hcq
        rw [this] at hcq
        simp only [Option.some.injEq, Prod.mk.injEq] at hcq
        obtain ⟨rfl, rfl⟩ := hcq
        show Await (g.upd i (sgSend hd p') i) p'
        rw [upd_same]; exact await_send hts
    · intro m1 index i p hD hM1 hcy hc _ _
      have h1 := declined_pres hD (fun i p => J8 (g.sg i) p) (fun i p hJ ht => j8_decline hJ ht) h8.slot
      have hi := (curSlot_spec hc).2.2.1
      refine ⟨?_, by intro a ha; cases ha⟩
      have hs : (afterDecline m1 index i p { p with state := .offline, fcb := .first, retry := 0 } (some .offline)).slots
          = m1.slots.set i (some { p with state := .offline, fcb := .first, retry := 0 }) := by
        simp only [afterDecline]; cases nextSlot m1.slots index <;> rfl
      show ∀ (j : Nat) (q : Peripheral), (afterDecline m1 index i p _ (some .offline)).slots[j]? = some (some q) →
        J8 (g.upd i sgOffline j) q
      rw [hs]
      refine set_pres (fun j p => J8 (g.sg j) p) (fun j p => J8 (g.upd i sgOffline j) p) h1 ?_ ?_
      · rw [upd_same]; exact j8_offline (h1 i p hi)
      · intro j q hj hJ; rw [upd_other _ _ hj]; exact hJ
  | reply a t =>
    have hst : Stale g a g' → Inv8 g' := by
      rintro ⟨_, _, _, _, _, _, _, rfl⟩
      exact ⟨h8.slot, by intro a ha; cases ha⟩
    rcases reply_cases hI h with hdel | hs
    case inr => exact hst hs
    obtain ⟨index, i, p, p', ev, ho, hcy, hc, hpa, hal, hspec, rfl⟩ := hdel
    have hi := (curSlot_spec hc).2.2.1
    have hcur : g.m.cur = some (i, p) := by simp [Master.cur, hcy, hc]
    refine ⟨?_, by intro a ha; cases ha⟩
    show ∀ (j : Nat) (q : Peripheral), (afterReply g.m index i p p' ev).slots[j]? = some (some q) →
      J8 (g.upd i (sgReply t p p') j) q
    refine set_pres (fun j p => J8 (g.sg j) p) (fun j q => J8 (g.upd i (sgReply t p p') j) q) h8.slot ?_ ?_
    · rw [upd_same]
      exact j8_reply (h8.slot i p hi) (h8.await a ho i p hcur hpa) (hI.m.pinv i p hi).fcb hspec
    · intro j q hj hJ; rw [upd_other _ _ hj]; exact hJ
  | timeout a =>
    simp only [gstep] at h
    split at h
    · cases h
    · simp only [Res3.ok.injEq] at h; subst h
      exact ⟨h8.slot, by intro a ha; cases ha⟩
  | take =>
    simp only [gstep, Master.takeLastEvents, Res3.ok.injEq] at h
    subst h
    cases hev : g.m.lastEvents.peripheral with
    | none => exact ⟨h8.slot, h8.await⟩
    | some he =>
      cases hsv : g.staleEv with
      | true => simp only [↓reduceIte]; exact ⟨h8.slot, h8.await⟩
      | false =>
      simp only [Bool.false_eq_true, ↓reduceIte]
      refine ⟨?_, ?_⟩
      · intro j q hq
        show J8 (g.upd he.index (sgTake he.ev) j) q
        by_cases hj : j = he.index
        · subst hj; rw [upd_same]
          exact j8_ghost_irrelevant (h8.slot _ q hq) rfl rfl rfl rfl rfl rfl rfl rfl
        · rw [upd_other _ _ hj]; exact h8.slot j q hq
      · intro a ha j q hq hpa
        have hA := h8.await a ha j q hq hpa
        show Await (g.upd he.index (sgTake he.ev) j) q
        by_cases hj : j = he.index
        · subst hj; rw [upd_same]
          exact await_ghost_irrelevant hA rfl rfl rfl rfl rfl
        · rw [upd_other _ _ hj]; exact hA
  | writeQ slot bs =>
    simp only [gstep] at h
    cases hw : g.m.writePiQ slot bs with
    | none => rw [hw] at h; cases h
    | some m' =>
      rw [hw] at h
      simp only [Res3.ok.injEq] at h; subst h
      unfold Master.writePiQ Master.peripheral? at hw
      cases hs : g.m.slots.getD slot none with
      | none => rw [hs] at hw; cases hw
      | some p =>
        rw [hs] at hw
        simp only at hw
        split at hw
        · simp only [Option.some.injEq] at hw; subst hw
          have hj : g.m.slots[slot]? = some (some p) := by
            rw [List.getD_eq_getElem?_getD] at hs
            cases hh : g.m.slots[slot]? with
            | none => rw [hh] at hs; cases hs
            | some x => rw [hh] at hs; simp only [Option.getD_some] at hs; rw [hs]
          refine ⟨?_, ?_⟩
          · refine set_pres (fun j p => J8 (g.sg j) p) (fun j p => J8 (g.sg j) p) h8.slot ?_ (fun _ _ _ h => h)
            have hJ := h8.slot slot p hj
            exact ⟨hJ.first, hJ.lastNone, hJ.toggled, hJ.snap, hJ.kind, hJ.count⟩
          · intro a ha j q hq hpa
            rw [cur_of_set hj { g.m with slots := g.m.slots.set slot (some { p with piQ := bs }) } rfl rfl] at hq
            cases hc : g.m.cur with
            | none => rw [hc] at hq; cases hq
            | some ip =>
              obtain ⟨i0, p0⟩ := ip
              rw [hc] at hq
              simp only [Option.map_some, Option.some.injEq] at hq
              have hA := fun hp0 => h8.await a ha i0 p0 hc hp0
              by_cases hij : i0 = slot
              · subst hij
                have := cur_slot hc
                rw [hj] at this
                simp only [Option.some.injEq] at this
                subst this
                simp only [if_true, Prod.mk.injEq] at hq
                obtain ⟨rfl, rfl⟩ := hq
                have hA := hA hpa
                exact ⟨hA.notFirst, hA.last, hA.noReply, hA.notAcc, hA.inflight⟩
              · simp only [hij, if_false, Prod.mk.injEq] at hq
                obtain ⟨rfl, rfl⟩ := hq
                exact hA hpa
        · cases hw
  | diagReq slot =>
    simp only [gstep] at h
    cases hw : g.m.requestDiagnostics slot with
    | none => rw [hw] at h; cases h
    | some m' =>
      rw [hw] at h
      simp only [Res3.ok.injEq] at h; subst h
      unfold Master.requestDiagnostics Master.peripheral? at hw
      cases hs : g.m.slots.getD slot none with
      | none => rw [hs] at hw; cases hw
      | some p =>
        rw [hs] at hw
        simp only [Option.some.injEq] at hw; subst hw
        have hj : g.m.slots[slot]? = some (some p) := by
          rw [List.getD_eq_getElem?_getD] at hs
          cases hh : g.m.slots[slot]? with
          | none => rw [hh] at hs; cases hs
          | some x => rw [hh] at hs; simp only [Option.getD_some] at hs; rw [hs]
        refine ⟨?_, ?_⟩
        · refine set_pres (fun j p => J8 (g.sg j) p)
            (fun j p => J8 (g.upd slot (fun x => { x with diagReq := true }) j) p) h8.slot ?_ ?_
          · rw [upd_same]
            have hJ := h8.slot slot p hj
            exact ⟨hJ.first, hJ.lastNone, hJ.toggled, hJ.snap, hJ.kind, hJ.count⟩
          · intro j q hjq hJ; rw [upd_other _ _ hjq]; exact hJ
        · intro a ha j q hq hpa
          rw [cur_of_set hj { g.m with slots := g.m.slots.set slot (some { p with diagNeeded := true }) } rfl rfl] at hq
          cases hc : g.m.cur with
          | none => rw [hc] at hq; cases hq
          | some ip =>
            obtain ⟨i0, p0⟩ := ip
            rw [hc] at hq
            simp only [Option.map_some, Option.some.injEq] at hq
            have hA := fun hp0 => h8.await a ha i0 p0 hc hp0
            by_cases hij : i0 = slot
            · subst hij
              have := cur_slot hc
              rw [hj] at this
              simp only [Option.some.injEq] at this
              subst this
              simp only [if_true, Prod.mk.injEq] at hq
              obtain ⟨rfl, rfl⟩ := hq
              show Await (g.upd i0 (fun x => { x with diagReq := true }) i0) _
              rw [upd_same]
              have hA := hA hpa
              exact ⟨hA.notFirst, hA.last, hA.noReply, hA.notAcc, hA.inflight⟩
            · simp only [hij, if_false, Prod.mk.injEq] at hq
              obtain ⟨rfl, rfl⟩ := hq
              show Await (g.upd slot (fun x => { x with diagReq := true }) i0) p0
              rw [upd_other _ _ hij]
              exact hA hpa


/-- What is known when a request goes out to slot `i`: the peripheral `p` that sent it (slot `i` of
the state before the poll, up to `retry_count`, which declines of other polls do not touch here),
its ghost invariant, and the closed form of its `transmit_telegram`. -/
theorem send_step {fp : FdlParams} (hfp : FpOk fp) {g g' : G} (hI : Inv fp g) (h8 : Inv8 g)
    {now : Int} {hp : Bool} (h : gstep fp g (.tx now hp) = .ok g')
    {i : Nat} {hd : Header} {pdu : Bytes} (ho : g'.o = .sent i hd pdu) :
    ∃ p p' p0, g.m.slots[i]? = some (some p0) ∧ p = { p0 with retry := p.retry } ∧
      J8 (g.sg i) p ∧ PInv fp p ∧ TxSpec fp .operate p (.send p' hd pdu) ∧
      g'.sg i = sgSend hd p' (g.sg i) ∧ g'.out = some p0.address := by
  cases tx_form hfp hI h with
  | gc => cases ho
  | idle => cases ho
  | off => cases ho
  | send m1 j p p' h' pdu' hD hM1 hc hts _ =>
    simp only [Out.sent.injEq] at ho
    obtain ⟨rfl, rfl, rfl⟩ := ho
    have hj := cur_slot hc
    obtain ⟨p0, hp0, hsame⟩ := decSlot_back (hD.slot j) hj
    have h1 := declined_pres hD (fun i p => J8 (g.sg i) p) (fun i p hJ ht => j8_decline hJ ht) h8.slot
    refine ⟨p, p', p0, hp0, hsame, h1 j p hj, hM1.pinv j p hj, hts, by simp [G.upd], ?_⟩
    simp only [Option.some.injEq]
    rw [hsame]


theorem reqKind_diag_saps {h : Header} (hk : reqKind h = .diag) : h.dsap = some 60 ∧ h.ssap = some 62 := by
  unfold reqKind at hk
  split at hk
  · split at hk
    · assumption
    · split at hk
      · cases hk
      · split at hk <;> cases hk
  · split at hk <;> cases hk
  · cases hk


end PV.Dp
