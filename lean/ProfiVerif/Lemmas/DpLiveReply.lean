/-
In the fault-free continuation every request gets a reply (property C07, several peripherals): from an
invariant control state the reference slave's reaction to the master's request is never silence (kernel
table), hence a fault-free visit is either a decline or a complete request / reply exchange — never a
time-out, so the cycle index always moves on.
-/
import ProfiVerif.Lemmas.DpLive

namespace PV.Live
open PV PV.Dp

def checkReply (iz : Bool) (st : PState) : Bool :=
  (coresOf st).all fun c => [RCls.zero, RCls.pos].all fun rc => !jinvCore iz c rc ||
    match reqOf c.st c.dn c.fl rc with
    | none => true
    | some k => (AD.ok.deliver (sreact iz c.ss c.dp c.mem c.fcb.fcv k).2.2.1).isSome

set_option maxRecDepth 1000000 in
theorem table_reply_f : allPState.all (checkReply false) = true := by decide +kernel
set_option maxRecDepth 1000000 in
theorem table_reply_t : allPState.all (checkReply true) = true := by decide +kernel

theorem reply_of_jinv {iz : Bool} {c : Core} {rc : RCls} (h : jinvCore iz c rc = true) (hrc : rc ≠ .over)
    {k : ReqK} (hk : reqOf c.st c.dn c.fl rc = some k) :
    (AD.ok.deliver (sreact iz c.ss c.dp c.mem c.fcb.fcv k).2.2.1).isSome = true := by
  have h1 : allPState.all (checkReply iz) = true := by
    cases iz
    · exact table_reply_f
    · exact table_reply_t
  have h2 := List.all_eq_true.mp h1 c.st (mem_allPState _)
  unfold checkReply at h2
  have h3 := List.all_eq_true.mp h2 c (mem_coresOf c)
  have h4 := List.all_eq_true.mp h3 rc (by cases rc <;> simp at hrc ⊢)
  rw [h, hk] at h4
  simpa using h4

/-- **A fault-free visit never times out.** -/
theorem quiet_visit_form {j : PJ} (hg : Good j) (hj : jinv j.fp.maxRetry (j.s.cfg.inLen == 0) (ctl j) = true) :
    (∃ p' ev, j.p.transmit j.fp j.op = .decline p' ev ∧ j.visit false .ok = some ({ j with p := p' }, ev)) ∨
    (∃ p' h pdu t p2 ev, j.p.transmit j.fp j.op = .send p' h pdu ∧ h.da = j.s.cfg.address ∧
      expectsReplyOf h = some j.p.address ∧ h.serialize pdu = .ok (frameSpec h pdu) ∧ p'.address = j.p.address ∧
      (j.s.receive h pdu).2.telegram = some t ∧ p'.receiveReply t = .ok p2 ev ∧
      j.visit false .ok = some ({ j with p := p2, s := (j.s.receive h pdu).1 }, ev)) := by
  obtain ⟨j', ev, hvis, _⟩ := visit_sim hg false (d := .ok) (by intro t ht; cases ht)
  rcases tx_ctl hg.fp hg.op hg.pinv hg.m with ⟨_, htx⟩ | ⟨_, _, htx⟩ | ⟨hr, k, h, pdu, hq, htx, hreq⟩
  · exact Or.inl ⟨_, _, htx, by unfold PJ.visit; simp only [htx]⟩
  · exact Or.inl ⟨_, _, htx, by unfold PJ.visit; simp only [htx]⟩
  · right
    have hsend := pinv_sendable hg.fp hg.pinv hr
    obtain ⟨hser, _⟩ := transmit_wire j.fp j.op j.p hg.op hsend _ h pdu [] htx
    obtain ⟨hda, _, _, _⟩ := transmit_send_inv j.fp j.op j.p hg.op hsend _ h pdu htx
    have hexp : expectsReplyOf h = some j.p.address := by
      obtain ⟨_, hk⟩ := hreq
      have hfc : h.fc = .request j.p.fcb .srdLow ∨ h.fc = .request j.p.fcb .srdHigh := by
        cases k
        · exact Or.inl hk.2.2
        · exact Or.inl hk.2.2.1
        · exact Or.inl hk.2.2.1
        · exact Or.inr hk.2.2.1
      rcases hfc with hfc | hfc <;> simp [expectsReplyOf, hfc, RequestType.expectsReply, hda]
    -- the slave answers
    obtain ⟨hre, _, _, _, hkind⟩ := receive_ctl hg.s hreq
    obtain ⟨hdv, _⟩ := deliver_abs (n := j.s.cfg.inLen) hkind (d := .ok) (by intro t ht; cases ht)
    have hno : rcls j.fp.maxRetry j.p.retry ≠ .over := by
      rcases rcls_cases j.fp.maxRetry j.p.retry with ⟨_, hc⟩ | ⟨_, _, hc⟩ | ⟨h1, _⟩
      · rw [hc]; decide
      · rw [hc]; decide
      · omega
    have hjc : jinvCore (j.s.cfg.inLen == 0) (ctl j).core (rcls j.fp.maxRetry j.p.retry) = true := by
      unfold jinv at hj
      simp only [Bool.and_eq_true] at hj
      exact hj.1.1
    have hab := reply_of_jinv hjc hno (k := k) hq
    have hk2 : kindOf j.s.cfg.inLen (j.s.receive h pdu).2 =
        (sreact (j.s.cfg.inLen == 0) j.s.state j.s.diagPending (memOf j.s j.p.fcb) j.p.fcb.fcv k).2.2.1 := by
      rw [← hre]
    have hsome : ((j.s.receive h pdu).2.telegram).isSome = true := by
      have : (Delivery.ok.deliver (j.s.receive h pdu).2).map (viewOf j.s.cfg.inLen) =
          AD.ok.deliver (kindOf j.s.cfg.inLen (j.s.receive h pdu).2) := hdv
      rw [hk2] at this
      have hab' : (AD.ok.deliver (sreact (j.s.cfg.inLen == 0) j.s.state j.s.diagPending (memOf j.s j.p.fcb)
          j.p.fcb.fcv k).2.2.1).isSome = true := hab
      rw [← this] at hab'
      cases hd : (j.s.receive h pdu).2.telegram with
      | none => simp [Delivery.deliver, hd] at hab'
      | some t => rfl
    obtain ⟨t, ht⟩ := Option.isSome_iff_exists.mp hsome
    unfold PJ.visit at hvis
    simp only [htx, Bool.false_eq_true, if_false, Delivery.deliver, ht] at hvis
    cases hrr : (sentP j.p (flAfter j.p.state j.p.diagNeeded j.p.diagInFlight (rcls j.fp.maxRetry j.p.retry))).receiveReply t with
    | panic => rw [hrr] at hvis; cases hvis
    | ok p2 ev2 =>
      refine ⟨_, h, pdu, t, p2, ev2, htx, hreq.1, hexp, hser, rfl, ht, hrr, ?_⟩
      unfold PJ.visit
      simp only [htx, Bool.false_eq_true, if_false, Delivery.deliver, ht, hrr]

end PV.Live
