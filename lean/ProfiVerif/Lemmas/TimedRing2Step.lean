/-
Timed ring, layer 3 (continued): ONE event — a poll of one of the two stations at a time allowed by the
schedule — re-establishes the invariant of `Lemmas/TimedRing2.lean`, returns regularly, and if it
transmits then it is the station whose turn it is, later than 33 bit times after the end of the previous
transmission.  One lemma per phase and polled station.  Helper lemmas.
-/
import ProfiVerif.Lemmas.TimedRing2

namespace PV
open StationGap

/-- Schedule conditions of one event `(i, now)`: time-ordered, the station's own poll times strictly
increase, and no station has been unpolled for more than `P`. -/
structure EvOk (cfg : Cfg) (n : Net) (v : View) (i : Nat) (now : Int) : Prop where
  i2 : i < 2
  tl : v.tl ≤ now
  own : n.bus.seen.getD i 0 < now
  gapX : now ≤ n.bus.seen.getD v.x 0 + (cfg.P : Nat)
  gapY : now ≤ n.bus.seen.getD (oth v.x) 0 + (cfg.P : Nat)

/-- Address of station `i`. -/
def View.adr (v : View) (i : Nat) : Nat := if i = v.x then v.ax else v.ay
/-- The station whose turn it is to transmit next. -/
def View.nextTx (v : View) : Nat := match v.ph with | .pass => oth v.x | _ => v.x

/-- Outcome of one event. -/
def StepOut (cfg : Cfg) (n : Net) (v : View) (i : Nat) (now : Int) : Prop :=
  ∃ n' v' inc c, n.poll i now = (n', inc, some (.ok c)) ∧ RInv cfg n' v' ∧ v'.tl = now ∧
    (∀ j, j < 2 → v'.adr j = v.adr j) ∧
    ((c.tx = none ∧ v'.tr = v.tr ∧ v'.nextTx = v.nextTx) ∨
     (∃ b, c.tx = some b ∧ i = v.nextTx ∧ n.bus.txEnd v.tr + (cfg.b33 : Nat) < now ∧
        v'.tr = { start := now, sender := i, bytes := b, dropped := false } ∧
        ((∃ g, b = statusRequestBytes g (v.adr i) ∧ g ≠ v.adr (oth i) ∧ v'.nextTx = i) ∨
         (b = tokenBytes (v.adr (oth i)) (v.adr i) ∧ v'.nextTx = oth i))))

theorem bits_11_3 (p : Params) : p.bits (11 * 3) = p.bits 33 := rfl
theorem bits_11_6 (p : Params) : p.bits (11 * 6) = p.bits 66 := rfl

theorem tokenBytes_length (a b : Nat) : (tokenBytes a b).length = 3 := rfl

/-- Phase `hold`, the holder is polled before the end of its synchronisation pause. -/
theorem stepX_hold_wait {cfg : Cfg} {n : Net} {v : View} (h : RInv cfg n v) (hok : cfg.Ok) (p1 : Int)
    (hph : v.ph = .hold p1) (now : Int) (e : EvOk cfg n v v.x now) (hw : now ≤ p1 + (cfg.b33 : Nat)) :
    StepOut cfg n v v.x now := by
  have hP := h.ph
  unfold PhaseOk at hP
  rw [hph] at hP
  obtain ⟨hs1, hb, ⟨d, f, hst⟩, hlx, hsy, hyl, hypb, hyrx, hid, hly, htb, hp1, hsx, hA⟩ := hP
  have hne := oth_ne v.x h.x2
  have hown := e.own
  have hlen : v.tr.bytes.length = 3 := by rw [hb]; rfl
  have hd := h.bus.deliver_done hok.rate v.x h.x2 now (by rw [hs1]; exact Ne.symm hne) (Int.le_of_lt e.own)
    (by rw [hlen]; decide) (by rw [hlen]; show _ + ((cfg.ce 2 : Nat) : Int) ≤ _; omega)
  have hphy : n.bus.transmitting v.x now = false :=
    Bus.transmitting_old n.bus v.x now v.old v.tr h.bus.txs (by rw [hs1]; exact Ne.symm hne) h.bus.oldEnd
      (Int.le_trans h.tlt e.tl)
  obtain ⟨s', hp, hce, hl', hpb'⟩ := holder_poll_waits v.sx.s [] now p1 d f h.okx.son hst hlx
    (by rw [h.okx.b33]; exact hw)
  obtain ⟨n', hn', hinv'⟩ := rinv_quiet_x h now e.tl (Int.le_of_lt e.own) [] { s := s', apps := [], rx := [] } hd
    (by rw [hphy, h.rxx]; exact hp) rfl hce.1 hce.2.1 (hce.2.2.1.trans h.okx.son) (hpb'.trans h.pbx) rfl
    (by
      unfold PhaseOk View.setX upSt
      simp only [hph]
      exact ⟨hs1, hb, ⟨d, f, hce.2.2.2.2.1.trans hst⟩, hl', hsy, hyl, hypb, hyrx, hid, hly, htb, by omega, hw, hA⟩)
  refine ⟨n', _, [], _, hn', hinv', rfl, fun j _ => rfl, .inl ⟨rfl, rfl, rfl⟩⟩

theorem adr_x (v : View) : v.adr v.x = v.ax := by unfold View.adr; rw [if_pos rfl]
theorem adr_y (v : View) (h : v.x < 2) : v.adr (oth v.x) = v.ay := by
  unfold View.adr; rw [if_neg (Ne.symm (oth_ne v.x h))]

/-- Phase `hold`, the holder's first poll after its synchronisation pause: it transmits a GAP request to
an unoccupied address or the token to the other station. -/
theorem stepX_hold_go {cfg : Cfg} {n : Net} {v : View} (h : RInv cfg n v) (hok : cfg.Ok) (p1 : Int)
    (hph : v.ph = .hold p1) (now : Int) (e : EvOk cfg n v v.x now) (hgo : p1 + (cfg.b33 : Nat) < now) :
    StepOut cfg n v v.x now := by
  have hP := h.ph
  unfold PhaseOk at hP
  rw [hph] at hP
  obtain ⟨hs1, hb, ⟨d, f, hst⟩, hlx, hsy, hyl, hypb, hyrx, hid, hly, htb, hp1, hsx, hA⟩ := hP
  have hne := oth_ne v.x h.x2
  have hown := e.own
  have hgx := e.gapX
  have htl := e.tl
  have htly := h.tly
  have hlen : v.tr.bytes.length = 3 := by rw [hb]; rfl
  have hd := h.bus.deliver_done hok.rate v.x h.x2 now (by rw [hs1]; exact Ne.symm hne) (Int.le_of_lt e.own)
    (by rw [hlen]; decide) (by rw [hlen]; show _ + ((cfg.ce 2 : Nat) : Int) ≤ _; omega)
  have hphy : n.bus.transmitting v.x now = false :=
    Bus.transmitting_old n.bus v.x now v.old v.tr h.bus.txs (by rw [hs1]; exact Ne.symm hne) h.bus.oldEnd
      (Int.le_trans h.tlt e.tl)
  obtain ⟨c, hp, hinvc, o1, o2, o3, o4, o5, o6, o7⟩ := holder_poll_exact v.sx.s now p1 d f h.okx.inv h.okx.son hst hlx
    (by rw [h.okx.b33]; exact hgo)
  have hend : n.bus.txEnd v.tr ≤ now := by
    rw [h.bus.txEnd_eq, hlen]; show _ + ((cfg.ce 2 : Nat) : Int) ≤ _; omega
  have hsync : n.bus.txEnd v.tr + (cfg.b33 : Nat) < now := by
    rw [h.bus.txEnd_eq, hlen]; show _ + ((cfg.ce 2 : Nat) : Int) + _ < _; omega
  have hc0 := cfg.ce_pos hok.rate 0
  -- the other station has seen nothing of the new transmission
  have hvis0 : ∀ (b : Bytes), cvis cfg { start := now, sender := v.x, bytes := b, dropped := false }
      (n.bus.seen.getD (oth v.x) 0) = 0 := by
    intro b
    apply cvis_zero
    simp only
    omega
  rw [h.okx.addr, h.okx.ns] at o7
  rcases o7 with ⟨a, cur, hcur, hna, htx, hst', hring, hlast⟩ | ⟨htx, hring, hst', hlast⟩
  · -- GAP request
    obtain ⟨hnay, -⟩ := nextGapPoll_ne _ _ _ _ _ hcur (Ne.symm h.okx.ne)
    have ha126 : a < 126 := by
      have h1 := (hinvc.await1 a hst').1
      have h2 := hinvc.gap a h1
      have h3 := hinvc.hsa
      omega
    obtain ⟨n', old', hn', hinv'⟩ := rinv_send_x h hok now e.tl (Int.le_of_lt e.own) c _ (.gap a) hd
      (by rw [hphy]; exact hp) htx o4 hring (o5.trans h.okx.son) (o6.trans h.pbx) o1 hend (.inl hs1)
      (by
        intro old'
        unfold PhaseOk View.sendX upSt
        simp only
        rw [hid]
        simp only [Bool.false_eq_true, if_false]
        refine ⟨trivial, trivial, hnay, ha126, hst', ?_, Int.le_refl _, by omega, ?_⟩
        · rw [hlast, bits_11_6, h.okx.bits]; rfl
        · unfold YRecv
          simp only [hvis0, hid, Bool.false_eq_true, if_false, List.take_zero]
          refine ⟨hyrx, hypb, by rw [statusRequestBytes_length]; decide, by rw [hyl, hly], .inl (by omega), hsy, by omega⟩)
    refine ⟨n', _, [], c, hn', hinv', rfl, fun j _ => rfl, .inr ⟨_, htx, ?_, hsync, rfl, .inl ⟨a, ?_, ?_, ?_⟩⟩⟩
    · unfold View.nextTx; rw [hph]
    · rw [adr_x]
    · rw [adr_y v h.x2]; exact hnay
    · unfold View.nextTx View.sendX; rfl
  · -- token
    have hring' : c.s.ring = v.sx.s.ring := by rw [hring, h.okx.fix]
    have hst'' : c.s.st = .checkTokenPass .first := by
      rw [hst', h.okx.fix, h.okx.ns, if_neg (Ne.symm h.okx.ne)]
    obtain ⟨n', old', hn', hinv'⟩ := rinv_send_x h hok now e.tl (Int.le_of_lt e.own) c _ .pass hd
      (by rw [hphy]; exact hp) htx o4 hring' (o5.trans h.okx.son) (o6.trans h.pbx) o1 hend (.inl hs1)
      (by
        intro old'
        unfold PhaseOk View.sendX upSt
        simp only
        refine ⟨trivial, trivial, hst'', ?_, Int.le_refl _, ?_⟩
        · rw [hlast, bits_11_3, h.okx.bits]; rfl
        · unfold YRecv
          simp only [hvis0, hid, Bool.false_eq_true, if_false, List.take_zero]
          refine ⟨hyrx, hypb, by rw [tokenBytes_length]; decide, by rw [hyl, hly], .inl (by omega), hsy, by omega⟩)
    refine ⟨n', _, [], c, hn', hinv', rfl, fun j _ => rfl, .inr ⟨_, htx, ?_, hsync, rfl, .inr ⟨?_, ?_⟩⟩⟩
    · unfold View.nextTx; rw [hph]
    · rw [adr_x, adr_y v h.x2]
    · unfold View.nextTx View.sendX; rfl

end PV
