/-
Timed ring, layer 3 (continued): ONE event — a poll of one of the two stations at a time allowed by the
schedule — re-establishes the invariant of `Lemmas/TimedRing2.lean`, returns regularly, and if it
transmits then it is the station whose turn it is, later than 33 bit times after the end of the previous
transmission.  One lemma per phase and polled station.  Helper lemmas.
-/
import ProfiVerif.Lemmas.TimedRing2

namespace PV
open StationGap

/-- Schedule conditions of one event `(i, now)`: time-ordered, the station's own poll times strictly
increase, and no station has been unpolled for more than `P`. -/
structure EvOk (cfg : Cfg) (n : Net) (v : View) (i : Nat) (now : Int) : Prop where
  i2 : i < 2
  tl : v.tl ≤ now
  own : n.bus.seen.getD i 0 < now
  gapX : now ≤ n.bus.seen.getD v.x 0 + (cfg.P : Nat)
  gapY : now ≤ n.bus.seen.getD (oth v.x) 0 + (cfg.P : Nat)

/-- Address of station `i`. -/
def View.adr (v : View) (i : Nat) : Nat := if i = v.x then v.ax else v.ay
/-- The station whose turn it is to transmit next. -/
def View.nextTx (v : View) : Nat := match v.ph with | .pass => oth v.x | _ => v.x

/-- Outcome of one event. -/
def StepOut (cfg : Cfg) (n : Net) (v : View) (i : Nat) (now : Int) : Prop :=
  ∃ n' v' inc c, n.poll i now = (n', inc, some (.ok c)) ∧ RInv cfg n' v' ∧ v'.tl = now ∧
    (∀ j, j < 2 → v'.adr j = v.adr j) ∧
    ((c.tx = none ∧ v'.tr = v.tr ∧ v'.nextTx = v.nextTx) ∨
     (∃ b, c.tx = some b ∧ i = v.nextTx ∧ n.bus.txEnd v.tr + (cfg.b33 : Nat) < now ∧
        v'.tr = { start := now, sender := i, bytes := b, dropped := false } ∧
        ((∃ g, b = statusRequestBytes g (v.adr i) ∧ g ≠ v.adr (oth i) ∧ v'.nextTx = i) ∨
         (b = tokenBytes (v.adr (oth i)) (v.adr i) ∧ v'.nextTx = oth i))))

theorem bits_11_3 (p : Params) : p.bits (11 * 3) = p.bits 33 := rfl
theorem bits_11_6 (p : Params) : p.bits (11 * 6) = p.bits 66 := rfl

theorem tokenBytes_length (a b : Nat) : (tokenBytes a b).length = 3 := rfl

/-- Phase `hold`, the holder is polled before the end of its synchronisation pause. -/
theorem stepX_hold_wait {cfg : Cfg} {n : Net} {v : View} (h : RInv cfg n v) (hok : cfg.Ok) (p1 : Int)
    (hph : v.ph = .hold p1) (now : Int) (e : EvOk cfg n v v.x now) (hw : now ≤ p1 + (cfg.b33 : Nat)) :
    StepOut cfg n v v.x now := by
  have hP := h.ph
  unfold PhaseOk at hP
  rw [hph] at hP
  obtain ⟨hs1, hb, ⟨d, f, hst⟩, hlx, hsy, hyl, hypb, hyrx, hid, hly, htb, hp1, hsx, hA⟩ := hP
  have hne := oth_ne v.x h.x2
  have hown := e.own
  have hlen : v.tr.bytes.length = 3 := by rw [hb]; rfl
  have hd := h.bus.deliver_done hok.rate v.x h.x2 now (by rw [hs1]; exact Ne.symm hne) (Int.le_of_lt e.own)
    (by rw [hlen]; decide) (by rw [hlen]; show _ + ((cfg.ce 2 : Nat) : Int) ≤ _; omega)
  have hphy : n.bus.transmitting v.x now = false :=
    Bus.transmitting_old n.bus v.x now v.old v.tr h.bus.txs (by rw [hs1]; exact Ne.symm hne) h.bus.oldEnd
      (Int.le_trans h.tlt e.tl)
  obtain ⟨s', hp, hce, hl', hpb'⟩ := holder_poll_waits v.sx.s [] now p1 d f h.okx.son hst hlx
    (by rw [h.okx.b33]; exact hw)
  obtain ⟨n', hn', hinv'⟩ := rinv_quiet_x h now e.tl (Int.le_of_lt e.own) [] { s := s', apps := [], rx := [] } hd
    (by rw [hphy, h.rxx]; exact hp) rfl hce.1 (.inl hce.2.1) (hce.2.2.1.trans h.okx.son) (hpb'.trans h.pbx) rfl
    (by
      unfold PhaseOk View.setX upSt
      simp only [hph]
      exact ⟨hs1, hb, ⟨d, f, hce.2.2.2.2.1.trans hst⟩, hl', hsy, hyl, hypb, hyrx, hid, hly, htb, by omega, hw, hA⟩)
  refine ⟨n', _, [], _, hn', hinv', rfl, fun j _ => rfl, .inl ⟨rfl, rfl, rfl⟩⟩

theorem adr_x (v : View) : v.adr v.x = v.ax := by unfold View.adr; rw [if_pos rfl]
theorem adr_y (v : View) (h : v.x < 2) : v.adr (oth v.x) = v.ay := by
  unfold View.adr; rw [if_neg (Ne.symm (oth_ne v.x h))]

/-- Phase `hold`, the holder's first poll after its synchronisation pause: it transmits a GAP request to
an unoccupied address or the token to the other station. -/
theorem stepX_hold_go {cfg : Cfg} {n : Net} {v : View} (h : RInv cfg n v) (hok : cfg.Ok) (p1 : Int)
    (hph : v.ph = .hold p1) (now : Int) (e : EvOk cfg n v v.x now) (hgo : p1 + (cfg.b33 : Nat) < now) :
    StepOut cfg n v v.x now := by
  have hP := h.ph
  unfold PhaseOk at hP
  rw [hph] at hP
  obtain ⟨hs1, hb, ⟨d, f, hst⟩, hlx, hsy, hyl, hypb, hyrx, hid, hly, htb, hp1, hsx, hA⟩ := hP
  have hne := oth_ne v.x h.x2
  have hown := e.own
  have hgx := e.gapX
  have htl := e.tl
  have htly := h.tly
  have hlen : v.tr.bytes.length = 3 := by rw [hb]; rfl
  have hd := h.bus.deliver_done hok.rate v.x h.x2 now (by rw [hs1]; exact Ne.symm hne) (Int.le_of_lt e.own)
    (by rw [hlen]; decide) (by rw [hlen]; show _ + ((cfg.ce 2 : Nat) : Int) ≤ _; omega)
  have hphy : n.bus.transmitting v.x now = false :=
    Bus.transmitting_old n.bus v.x now v.old v.tr h.bus.txs (by rw [hs1]; exact Ne.symm hne) h.bus.oldEnd
      (Int.le_trans h.tlt e.tl)
  obtain ⟨c, hp, hinvc, o1, o2, o3, o4, o5, o6, o7⟩ := holder_poll_exact v.sx.s now p1 d f h.okx.inv h.okx.son hst hlx
    (by rw [h.okx.b33]; exact hgo)
  have hend : n.bus.txEnd v.tr ≤ now := by
    rw [h.bus.txEnd_eq, hlen]; show _ + ((cfg.ce 2 : Nat) : Int) ≤ _; omega
  have hsync : n.bus.txEnd v.tr + (cfg.b33 : Nat) < now := by
    rw [h.bus.txEnd_eq, hlen]; show _ + ((cfg.ce 2 : Nat) : Int) + _ < _; omega
  have hc0 := cfg.ce_pos hok.rate 0
  -- the other station has seen nothing of the new transmission
  have hvis0 : ∀ (b : Bytes), cvis cfg { start := now, sender := v.x, bytes := b, dropped := false }
      (n.bus.seen.getD (oth v.x) 0) = 0 := by
    intro b
    apply cvis_zero
    simp only
    omega
  rw [h.okx.addr, h.okx.ns] at o7
  rcases o7 with ⟨a, cur, hcur, hna, htx, hst', hring, hlast⟩ | ⟨htx, hring, hst', hlast⟩
  · -- GAP request
    obtain ⟨hnay, -⟩ := nextGapPoll_ne _ _ _ _ _ hcur (Ne.symm h.okx.ne)
    have ha126 : a < 126 := by
      have h1 := (hinvc.await1 a hst').1
      have h2 := hinvc.gap a h1
      have h3 := hinvc.hsa
      omega
    obtain ⟨n', old', hn', hinv'⟩ := rinv_send_x h hok now e.tl (Int.le_of_lt e.own) c _ (.gap a) hd
      (by rw [hphy]; exact hp) htx o4 (.inl hring) (o5.trans h.okx.son) (o6.trans h.pbx) o1 hend (.inl hs1)
      (by
        intro old'
        unfold PhaseOk View.sendX upSt
        simp only
        rw [hid]
        simp only [Bool.false_eq_true, if_false]
        refine ⟨trivial, trivial, hnay, ha126, hst', ?_, Int.le_refl _, by omega, ?_⟩
        · rw [hlast, bits_11_6, h.okx.bits]; rfl
        · unfold YRecv
          simp only [hvis0, hid, Bool.false_eq_true, if_false, List.take_zero]
          refine ⟨hyrx, hypb, by rw [statusRequestBytes_length]; decide, by rw [hyl, hly], .inl (by omega), hsy, by omega⟩)
    refine ⟨n', _, [], c, hn', hinv', rfl, fun j _ => rfl, .inr ⟨_, htx, ?_, hsync, rfl, .inl ⟨a, ?_, ?_, ?_⟩⟩⟩
    · unfold View.nextTx; rw [hph]
    · rw [adr_x]
    · rw [adr_y v h.x2]; exact hnay
    · unfold View.nextTx View.sendX; rfl
  · -- token
    have hst'' : c.s.st = .checkTokenPass .first := by
      rw [hst', h.okx.ns_witness, if_neg (Ne.symm h.okx.ne)]
    obtain ⟨n', old', hn', hinv'⟩ := rinv_send_x h hok now e.tl (Int.le_of_lt e.own) c _ .pass hd
      (by rw [hphy]; exact hp) htx o4 (.inr hring) (o5.trans h.okx.son) (o6.trans h.pbx) o1 hend (.inl hs1)
      (by
        intro old'
        unfold PhaseOk View.sendX upSt
        simp only
        refine ⟨trivial, trivial, hst'', ?_, Int.le_refl _, ?_⟩
        · rw [hlast, bits_11_3, h.okx.bits]; rfl
        · unfold YRecv
          simp only [hvis0, hid, Bool.false_eq_true, if_false, List.take_zero]
          refine ⟨hyrx, hypb, by rw [tokenBytes_length]; decide, by rw [hyl, hly], .inl (by omega), hsy, by omega⟩)
    refine ⟨n', _, [], c, hn', hinv', rfl, fun j _ => rfl, .inr ⟨_, htx, ?_, hsync, rfl, .inr ⟨?_, ?_⟩⟩⟩
    · unfold View.nextTx; rw [hph]
    · rw [adr_x, adr_y v h.x2]
    · unfold View.nextTx View.sendX; rfl

/-- Phase `gap`, the requester is polled before its slot time has expired: a no-op. -/
theorem stepX_gap_wait {cfg : Cfg} {n : Net} {v : View} (h : RInv cfg n v) (hok : cfg.Ok) (g : Nat)
    (hph : v.ph = .gap g) (now : Int) (e : EvOk cfg n v v.x now)
    (hw : now ≤ v.tr.start + (cfg.b66 : Nat) + (cfg.slot : Nat)) : StepOut cfg n v v.x now := by
  have hP := h.ph
  unfold PhaseOk at hP
  rw [hph] at hP
  obtain ⟨hs1, hb, hgy, hg, hst, hlx, hq, hsx, hY⟩ := hP
  have hown := e.own
  have htl := e.tl
  have hd := h.bus.deliver_own hok.rate v.x h.x2 now hs1
  have hlen : v.tr.bytes.length = 6 := by rw [hb]; exact statusRequestBytes_length _ _
  have hc5 := cfg.ce5 hok.rate
  have hpoll : v.sx.s.poll [] now (n.bus.transmitting v.x now) [] = .ok { s := v.sx.s, apps := [], rx := [] } := by
    by_cases hle : now ≤ v.tr.start + (cfg.b66 : Nat)
    · exact poll_ongoing v.sx.s [] now _ [] h.okx.son (by rw [hst]; simp) (by rw [hst]; simp) _ hlx hle
    · have hphy : n.bus.transmitting v.x now = false := by
        rw [Bus.transmitting_last n.bus v.x now v.old v.tr h.bus.txs hs1, h.bus.txEnd_eq, hlen]
        simp only [decide_eq_false_iff_not]
        show ¬ now < _ + ((cfg.ce 5 : Nat) : Int)
        omega
      rw [hphy]
      exact await_poll_waits v.sx.s now _ g h.okx.inv h.okx.son hst hlx (by omega) (by rw [h.okx.slot]; omega)
  obtain ⟨n', hn', hinv'⟩ := rinv_quiet_x h now e.tl (Int.le_of_lt e.own) [] { s := v.sx.s, apps := [], rx := [] } hd
    (by rw [h.rxx]; exact hpoll) rfl rfl (.inl rfl) h.okx.son h.pbx rfl
    (by
      unfold PhaseOk View.setX upSt
      simp only [hph]
      exact ⟨hs1, hb, hgy, hg, hst, hlx, by omega, hw, hY⟩)
  exact ⟨n', _, [], _, hn', hinv', rfl, fun j _ => rfl, .inl ⟨rfl, rfl, rfl⟩⟩

/-- Phase `pass`, the supervising sender is polled: a no-op (the successor has not even seen the complete
token yet, so the slot time cannot have expired). -/
theorem stepX_pass {cfg : Cfg} {n : Net} {v : View} (h : RInv cfg n v) (hok : cfg.Ok)
    (hph : v.ph = .pass) (now : Int) (e : EvOk cfg n v v.x now) : StepOut cfg n v v.x now := by
  have hP := h.ph
  unfold PhaseOk at hP
  rw [hph] at hP
  obtain ⟨hs1, hb, hst, hlx, hq, hY⟩ := hP
  have hown := e.own
  have htl := e.tl
  have hgy := e.gapY
  have hd := h.bus.deliver_own hok.rate v.x h.x2 now hs1
  have hlen : v.tr.bytes.length = 3 := by rw [hb]; rfl
  have hc2 := cfg.ce2 hok.rate
  have hmar := hok.margin
  have hseenY : n.bus.seen.getD (oth v.x) 0 < v.tr.start + ((cfg.ce 2 : Nat) : Int) := by
    have := vis_lt_full _ (ce_monoI cfg) v.tr.bytes.length v.tr.start (n.bus.seen.getD (oth v.x) 0)
      (by rw [hlen]; decide) hY.2.2.1
    rw [hlen] at this
    exact this
  have hpoll : ∃ c', v.sx.s.poll [] now (n.bus.transmitting v.x now) [] = .ok c' ∧ c'.tx = none ∧ c'.s = v.sx.s ∧
      c'.apps = [] ∧ c'.rx = [] := by
    by_cases hle : now ≤ v.tr.start + (cfg.b33 : Nat)
    · exact ⟨_, poll_ongoing v.sx.s [] now _ [] h.okx.son (by rw [hst]; simp) (by rw [hst]; simp) _ hlx hle,
        rfl, rfl, rfl, rfl⟩
    · have hphy : n.bus.transmitting v.x now = false := by
        rw [Bus.transmitting_last n.bus v.x now v.old v.tr h.bus.txs hs1, h.bus.txEnd_eq, hlen]
        simp only [decide_eq_false_iff_not]
        show ¬ now < _ + ((cfg.ce 2 : Nat) : Int)
        omega
      rw [hphy]
      obtain ⟨c', hc', htx', hs', ha', hr'⟩ := check_poll_partial v.sx.s now [] .first _ h.okx.inv h.okx.son hst hlx (by omega)
        (.inr (by rw [h.okx.slot]; omega)) receiveAll_nil
      simp only [List.length_nil, checkBus_nil] at hs'
      exact ⟨c', hc', htx', hs', ha', hr'⟩
  obtain ⟨c', hc', htx', hs', ha', hr'⟩ := hpoll
  obtain ⟨n', hn', hinv'⟩ := rinv_quiet_x h now e.tl (Int.le_of_lt e.own) [] c' hd
    (by rw [h.rxx]; exact hc') htx' (by rw [hs']) (.inl (by rw [hs'])) (by rw [hs']; exact h.okx.son) (by rw [hs']; exact h.pbx) hr'
    (by
      unfold PhaseOk View.setX upSt
      simp only [hph, hs']
      exact ⟨hs1, hb, hst, hlx, by omega, hY⟩)
  exact ⟨n', _, [], _, hn', hinv', rfl, fun j _ => rfl, .inl ⟨htx', rfl, rfl⟩⟩

/-- Phase `gap`, the requester's first poll after its slot time has expired: the other station has heard
the request completely by then; the token goes to it. -/
theorem stepX_gap_timeout {cfg : Cfg} {n : Net} {v : View} (h : RInv cfg n v) (hok : cfg.Ok) (g : Nat)
    (hph : v.ph = .gap g) (now : Int) (e : EvOk cfg n v v.x now)
    (hex : v.tr.start + (cfg.b66 : Nat) + (cfg.slot : Nat) < now) : StepOut cfg n v v.x now := by
  have hP := h.ph
  unfold PhaseOk at hP
  rw [hph] at hP
  obtain ⟨hs1, hb, hgy, hg, hst, hlx, hq, hsx, hY⟩ := hP
  have hown := e.own
  have htl := e.tl
  have hgapy := e.gapY
  have hgapx := e.gapX
  have hmar := hok.margin
  have hd := h.bus.deliver_own hok.rate v.x h.x2 now hs1
  have hlen : v.tr.bytes.length = 6 := by rw [hb]; exact statusRequestBytes_length _ _
  have hc5 := cfg.ce5 hok.rate
  have hc2 := cfg.ce2 hok.rate
  have hc0 := cfg.ce_pos hok.rate 0
  have hphy : n.bus.transmitting v.x now = false := by
    rw [Bus.transmitting_last n.bus v.x now v.old v.tr h.bus.txs hs1, h.bus.txEnd_eq, hlen]
    simp only [decide_eq_false_iff_not]
    show ¬ now < _ + ((cfg.ce 5 : Nat) : Int)
    omega
  -- the other station has heard the request completely
  have hidle : v.idle = true := by
    cases hi : v.idle with
    | true => rfl
    | false =>
      exfalso
      rw [hi] at hY
      simp only [Bool.false_eq_true, if_false] at hY
      have hlt := hY.2.2.1
      have hfull := cvis_full cfg v.tr (n.bus.seen.getD (oth v.x) 0) (by rw [hlen]; decide)
        (by rw [hlen]; show _ + ((cfg.ce 5 : Nat) : Int) ≤ _; omega)
      omega
  rw [hidle] at hY
  simp only [if_true] at hY
  obtain ⟨⟨np, coll, hyst⟩, hyrx, hypb, hyl, hly1, hly2⟩ := hY
  obtain ⟨c, hp, hinvc, o1, o2, o4, o5, o6, htx, hring, hst', hlast⟩ := await_poll_timeout v.sx.s now _ g
    h.okx.inv h.okx.son hst hlx (by rw [h.okx.slot]; exact hex) (by rw [h.okx.b33, h.okx.slot]; omega)
  rw [h.okx.addr, h.okx.ns] at htx hring hst'
  have hst'' : c.s.st = .checkTokenPass .first := by
    rw [hst', h.okx.ns_witness, if_neg (Ne.symm h.okx.ne)]
  have hend : n.bus.txEnd v.tr ≤ now := by
    rw [h.bus.txEnd_eq, hlen]; show _ + ((cfg.ce 5 : Nat) : Int) ≤ _; omega
  have hsync : n.bus.txEnd v.tr + (cfg.b33 : Nat) < now := by
    rw [h.bus.txEnd_eq, hlen]; show _ + ((cfg.ce 5 : Nat) : Int) + _ < _; omega
  have hvis0 : ∀ (b : Bytes), cvis cfg { start := now, sender := v.x, bytes := b, dropped := false }
      (n.bus.seen.getD (oth v.x) 0) = 0 := by
    intro b
    apply cvis_zero
    simp only
    have := h.tly
    omega
  have htto := h.oky.tto
  obtain ⟨n', old', hn', hinv'⟩ := rinv_send_x h hok now e.tl (Int.le_of_lt e.own) c _ .pass hd
    (by rw [hphy]; exact hp) htx o4 (.inr hring) (o5.trans h.okx.son) (o6.trans h.pbx) o1 hend
    (.inr (by rw [h.bus.txEnd_eq, hlen]; show _ + ((cfg.ce 5 : Nat) : Int) ≤ _; omega))
    (by
      intro old'
      unfold PhaseOk View.sendX upSt
      simp only
      refine ⟨trivial, trivial, hst'', ?_, Int.le_refl _, ?_⟩
      · rw [hlast, bits_11_3, h.okx.bits]; rfl
      · unfold YRecv
        simp only [hvis0, hidle, if_true, List.take_zero]
        refine ⟨hyrx, hypb, by rw [tokenBytes_length]; decide, hyl, .inr hly2, ⟨np, coll, hyst⟩, by omega⟩)
  refine ⟨n', _, [], c, hn', hinv', rfl, fun j _ => rfl, .inr ⟨_, htx, ?_, hsync, rfl, .inr ⟨?_, ?_⟩⟩⟩
  · unfold View.nextTx; rw [hph]
  · rw [adr_x, adr_y v h.x2]
  · unfold View.nextTx View.sendX; rfl

/-- Phase `hold`, the supervising other station is polled: a no-op (its slot time cannot have expired, the
holder's transmission is due earlier). -/
theorem stepY_hold {cfg : Cfg} {n : Net} {v : View} (h : RInv cfg n v) (hok : cfg.Ok) (p1 : Int)
    (hph : v.ph = .hold p1) (now : Int) (e : EvOk cfg n v (oth v.x) now) : StepOut cfg n v (oth v.x) now := by
  have hP := h.ph
  unfold PhaseOk at hP
  rw [hph] at hP
  obtain ⟨hs1, hb, hxst, hlx, hsy, hyl, hypb, hyrx, hid, hly, htb, hp1, hsx, hA⟩ := hP
  have hown := e.own
  have htl := e.tl
  have hgapx := e.gapX
  have htlx := h.tlx
  have hd := h.bus.deliver_own hok.rate (oth v.x) (oth_lt _) now hs1
  have hlen : v.tr.bytes.length = 3 := by rw [hb]; rfl
  have hc2 := cfg.ce2 hok.rate
  have hphy : n.bus.transmitting (oth v.x) now = false := by
    rw [Bus.transmitting_last n.bus (oth v.x) now v.old v.tr h.bus.txs hs1, h.bus.txEnd_eq, hlen]
    simp only [decide_eq_false_iff_not]
    show ¬ now < _ + ((cfg.ce 2 : Nat) : Int)
    omega
  have hpoll : ∃ c', v.sy.s.poll [] now false [] = .ok c' ∧ c'.tx = none ∧ c'.s = v.sy.s ∧
      c'.apps = [] ∧ c'.rx = [] := by
    by_cases hle : now ≤ v.tr.start + (cfg.b33 : Nat)
    · exact ⟨_, poll_ongoing v.sy.s [] now _ [] h.oky.son (by rw [hsy]; simp) (by rw [hsy]; simp) _ hyl hle,
        rfl, rfl, rfl, rfl⟩
    · obtain ⟨c', hc', htx', hs', ha', hr'⟩ := check_poll_partial v.sy.s now [] .first _ h.oky.inv h.oky.son hsy hyl (by omega)
        (.inr (by rw [h.oky.slot]; omega)) receiveAll_nil
      simp only [List.length_nil, checkBus_nil] at hs'
      exact ⟨c', hc', htx', hs', ha', hr'⟩
  obtain ⟨c', hc', htx', hs', ha', hr'⟩ := hpoll
  obtain ⟨n', hn', hinv'⟩ := rinv_quiet_y h now e.tl (Int.le_of_lt e.own) [] c' v.idle v.ly hd
    (by rw [hphy, hyrx]; exact hc') htx' (by rw [hs']) (.inl (by rw [hs'])) (by rw [hs']; exact h.oky.son)
    (by
      unfold PhaseOk View.setY upSt
      simp only [hph, hs', hr']
      exact ⟨hs1, hb, hxst, hlx, hsy, hyl, hypb, trivial, hid, hly, htb, hp1, hsx, hA⟩)
  exact ⟨n', _, [], _, hn', hinv', rfl, fun j _ => rfl, .inl ⟨htx', rfl, rfl⟩⟩

/-- Phase `gap`, the other station has heard the request already and is polled again: a no-op (its
token-lost time-out is far away). -/
theorem stepY_gap_idle {cfg : Cfg} {n : Net} {v : View} (h : RInv cfg n v) (hok : cfg.Ok) (g : Nat)
    (hph : v.ph = .gap g) (hidle : v.idle = true) (now : Int) (e : EvOk cfg n v (oth v.x) now) :
    StepOut cfg n v (oth v.x) now := by
  have hP := h.ph
  unfold PhaseOk at hP
  rw [hph] at hP
  obtain ⟨hs1, hb, hgy, hg, hst, hlx, hq, hsx, hY⟩ := hP
  rw [hidle] at hY
  simp only [if_true] at hY
  obtain ⟨⟨np, coll, hyst⟩, hyrx, hypb, hyl, hly1, hly2⟩ := hY
  have hown := e.own
  have htl := e.tl
  have hgapx := e.gapX
  have hne := oth_ne v.x h.x2
  have hlen : v.tr.bytes.length = 6 := by rw [hb]; exact statusRequestBytes_length _ _
  have hc5 := cfg.ce5 hok.rate
  have htto := h.oky.tto
  have hd := h.bus.deliver_done hok.rate (oth v.x) (oth_lt _) now (by rw [hs1]; exact hne) (Int.le_of_lt e.own)
    (by rw [hlen]; decide) (by rw [hlen]; show _ + ((cfg.ce 5 : Nat) : Int) ≤ _; omega)
  have hphy : n.bus.transmitting (oth v.x) now = false :=
    Bus.transmitting_old n.bus (oth v.x) now v.old v.tr h.bus.txs (by rw [hs1]; exact hne) h.bus.oldEnd
      (Int.le_trans h.tlt e.tl)
  have hp := idle_poll_partial v.sy.s now [] [] false np coll v.ly h.oky.son hyst hyl (by omega) (by omega)
    (.inr (by omega)) receiveAll_nil
  simp only [List.length_nil, checkBus_nil] at hp
  obtain ⟨n', hn', hinv'⟩ := rinv_quiet_y h now e.tl (Int.le_of_lt e.own) [] { s := v.sy.s, apps := [], rx := [] } true v.ly hd
    (by rw [hphy, hyrx]; exact hp) rfl rfl (.inl rfl) h.oky.son
    (by
      unfold PhaseOk View.setY upSt
      simp only [hph, if_true]
      exact ⟨hs1, hb, hgy, hg, hst, hlx, hq, hsx, ⟨np, coll, hyst⟩, trivial, hypb, hyl, hly1, by omega⟩)
  exact ⟨n', _, [], _, hn', hinv', rfl, fun j _ => rfl, .inl ⟨rfl, rfl, rfl⟩⟩

/-- The other station, receiving `tr` piece by piece, is polled while `tr` is still incomplete for it: it
registers the new characters (stamp := poll time) or, if none is new, finds its deadline not reached;
nothing else happens. -/
theorem yrecv_partial {cfg : Cfg} {n : Net} {v : View} (h : RInv cfg n v) (hok : cfg.Ok)
    (hs1 : v.tr.sender = v.x) (hY : YRecv cfg v (n.bus.seen.getD (oth v.x) 0))
    (hpre : ∀ m, m < v.tr.bytes.length → receiveAll (v.tr.bytes.take m) = .done (v.tr.bytes.take m) [] false)
    (now : Int) (e : EvOk cfg n v (oth v.x) now) (hpart : cvis cfg v.tr now < v.tr.bytes.length) :
    ∃ inc c ly', n.bus.deliver (oth v.x) now = ({ n.bus with seen := n.bus.seen.set (oth v.x) now }, inc) ∧
      v.sy.s.poll [] now (n.bus.transmitting (oth v.x) now) (v.sy.rx ++ inc) = .ok c ∧ c.tx = none ∧
      c.s.p = v.sy.s.p ∧ c.s.ring = v.sy.s.ring ∧ c.s.online = true ∧ YRecv cfg (v.setY c v.idle ly' now) now := by
  obtain ⟨hrx, hpb, hlt, hyl, hlc, hmode⟩ := hY
  have hown := e.own
  have htl := e.tl
  have htlt := h.tlt
  have hne := oth_ne v.x h.x2
  have hmar := hok.margin
  have htto := h.oky.tto
  obtain ⟨inc, hd, hcat⟩ := h.bus.deliver_recv hok.rate (oth v.x) (oth_lt _) now (by rw [hs1]; exact hne) (Int.le_of_lt e.own)
  have hphy : n.bus.transmitting (oth v.x) now = false :=
    Bus.transmitting_old n.bus (oth v.x) now v.old v.tr h.bus.txs (by rw [hs1]; exact hne) h.bus.oldEnd
      (Int.le_trans h.tlt e.tl)
  have hmono := cvis_mono cfg v.tr _ now (Int.le_of_lt e.own)
  have hlyn : v.ly < now := by rcases hlc with h1 | h1 <;> omega
  have hlen' : (v.tr.bytes.take (cvis cfg v.tr now)).length = cvis cfg v.tr now := by
    rw [List.length_take]; omega
  have hrx' : v.sy.rx ++ inc = v.tr.bytes.take (cvis cfg v.tr now) := by rw [hrx]; exact hcat
  -- if nothing is new, the next character is not yet complete
  have hnonew : ¬ cvis cfg v.tr (n.bus.seen.getD (oth v.x) 0) < cvis cfg v.tr now →
      now < v.tr.start + ((cfg.ce (cvis cfg v.tr (n.bus.seen.getD (oth v.x) 0)) : Nat) : Int) := by
    intro hnn
    have : ¬ (v.tr.start + ((cfg.ce (cvis cfg v.tr (n.bus.seen.getD (oth v.x) 0)) : Nat) : Int) ≤ now) :=
      fun hc => hnn ((cvis_spec cfg v.tr now _ hlt).2 hc)
    omega
  -- deadline after registering a new character
  have hnewdl : cvis cfg v.tr (n.bus.seen.getD (oth v.x) 0) < cvis cfg v.tr now →
      v.tr.start + ((cfg.ce (cvis cfg v.tr now) : Nat) : Int) ≤ now + ((cfg.ce 0 : Nat) : Int) := by
    intro hnew
    have hk : cvis cfg v.tr now - 1 < v.tr.bytes.length := by omega
    have h1 := (cvis_spec cfg v.tr now _ hk).1 (by omega)
    have h2 := cfg.ce_step hok.rate (cvis cfg v.tr now - 1)
    have e1 : cvis cfg v.tr now - 1 + 1 = cvis cfg v.tr now := by omega
    rw [e1] at h2
    omega
  obtain ⟨ly', hly'⟩ : ∃ ly', ly' = (if cvis cfg v.tr (n.bus.seen.getD (oth v.x) 0) < cvis cfg v.tr now then now else v.ly) :=
    ⟨_, rfl⟩
  have hpbs : ∀ s' : Station, s' = checkBusActivity v.sy.s now (cvis cfg v.tr now) →
      s'.pendingBytes = cvis cfg v.tr now ∧ s'.lastBusActivity = some ly' := by
    intro s' hs'
    subst hs'
    rw [hly']
    have hl := checkBA_last v.sy.s now (cvis cfg v.tr now) (by intro l' hl'; rw [hyl] at hl'; cases hl'; exact hlyn)
    rw [hpb] at hl
    constructor
    · unfold checkBusActivity
      rw [hpb]
      split
      · rfl
      · rw [hpb]; omega
    · rw [hl]
      split
      · rfl
      · exact hyl
  cases hi : v.idle with
  | false =>
    rw [hi] at hmode
    simp only [Bool.false_eq_true, if_false] at hmode
    obtain ⟨hst, hdl⟩ := hmode
    obtain ⟨c', hc', htx', hs', ha', hr'⟩ := check_poll_partial v.sy.s now _ .first v.ly h.oky.inv h.oky.son hst hyl hlyn
      (by
        rw [hlen', hpb, h.oky.slot]
        by_cases hnew : cvis cfg v.tr (n.bus.seen.getD (oth v.x) 0) < cvis cfg v.tr now
        · exact .inl hnew
        · right; have := hnonew hnew; omega)
      (hpre _ hpart)
    rw [hlen'] at hs'
    obtain ⟨hp1, hp2⟩ := hpbs c'.s hs'
    obtain ⟨f1, f2, f3, f4, -⟩ := checkBA_fields v.sy.s now (cvis cfg v.tr now)
    refine ⟨inc, c', ly', hd, by rw [hphy, hrx']; exact hc', htx', by rw [hs']; exact f2, by rw [hs']; exact f3, by rw [hs', f4]; exact h.oky.son, ?_⟩
    unfold YRecv View.setY upSt
    simp only [Bool.false_eq_true, if_false]
    refine ⟨hr', hp1, hpart, hp2, .inr ?_, by rw [hs', f1]; exact hst, ?_⟩
    · rw [hly']; split <;> omega
    · rw [hly']
      by_cases hnew : cvis cfg v.tr (n.bus.seen.getD (oth v.x) 0) < cvis cfg v.tr now
      · rw [if_pos hnew]; have := hnewdl hnew; omega
      · rw [if_neg hnew]
        have : cvis cfg v.tr now = cvis cfg v.tr (n.bus.seen.getD (oth v.x) 0) := by omega
        rw [this]; exact hdl
  | true =>
    rw [hi] at hmode
    simp only [if_true] at hmode
    obtain ⟨⟨np, coll, hst⟩, hdl⟩ := hmode
    have hp := idle_poll_partial v.sy.s now (v.tr.bytes.take (cvis cfg v.tr now)) _ false np coll v.ly h.oky.son hst hyl hlyn
      (by omega)
      (by
        rw [hlen', hpb]
        by_cases hnew : cvis cfg v.tr (n.bus.seen.getD (oth v.x) 0) < cvis cfg v.tr now
        · exact .inl hnew
        · right; have := hnonew hnew; omega)
      (hpre _ hpart)
    rw [hlen'] at hp
    obtain ⟨hp1, hp2⟩ := hpbs _ rfl
    obtain ⟨f1, f2, f3, f4, -⟩ := checkBA_fields v.sy.s now (cvis cfg v.tr now)
    refine ⟨inc, _, ly', hd, by rw [hphy, hrx']; exact hp, rfl, f2, f3, by rw [f4]; exact h.oky.son, ?_⟩
    unfold YRecv View.setY upSt
    simp only [if_true]
    refine ⟨trivial, hp1, hpart, hp2, .inr ?_, ⟨np, coll, by rw [f1]; exact hst⟩, ?_⟩
    · rw [hly']; split <;> omega
    · rw [f2, hly']
      by_cases hnew : cvis cfg v.tr (n.bus.seen.getD (oth v.x) 0) < cvis cfg v.tr now
      · rw [if_pos hnew]; have := hnewdl hnew; omega
      · rw [if_neg hnew]
        have : cvis cfg v.tr now = cvis cfg v.tr (n.bus.seen.getD (oth v.x) 0) := by omega
        rw [this]; exact hdl

/-- Phase `gap`, the other station (still supervising) is polled while the request is incomplete for it. -/
theorem stepY_gap_partial {cfg : Cfg} {n : Net} {v : View} (h : RInv cfg n v) (hok : cfg.Ok) (g : Nat)
    (hph : v.ph = .gap g) (hidle : v.idle = false) (now : Int) (e : EvOk cfg n v (oth v.x) now)
    (hpart : cvis cfg v.tr now < v.tr.bytes.length) : StepOut cfg n v (oth v.x) now := by
  have hP := h.ph
  unfold PhaseOk at hP
  rw [hph] at hP
  obtain ⟨hs1, hb, hgy, hg, hst, hlx, hq, hsx, hY⟩ := hP
  rw [hidle] at hY
  simp only [Bool.false_eq_true, if_false] at hY
  obtain ⟨inc, c, ly', hd, hp, htx, h1, h2, h3, hY'⟩ := yrecv_partial h hok hs1 hY
    (by intro m hm; rw [hb] at hm ⊢; rw [statusRequestBytes_length] at hm; exact receiveAll_statusRequest_prefix g v.ax m hm)
    now e hpart
  obtain ⟨n', hn', hinv'⟩ := rinv_quiet_y h now e.tl (Int.le_of_lt e.own) inc c v.idle ly' hd hp htx h1 (.inl h2) h3
    (by
      unfold PhaseOk
      have e1 : (v.setY c v.idle ly' now).ph = .gap g := hph
      rw [e1]
      simp only
      have e2 : (v.setY c v.idle ly' now).idle = false := hidle
      rw [e2]
      simp only [Bool.false_eq_true, if_false]
      exact ⟨hs1, hb, hgy, hg, hst, hlx, hq, hsx, hY'⟩)
  exact ⟨n', _, inc, c, hn', hinv', rfl, fun j _ => rfl, .inl ⟨htx, rfl, rfl⟩⟩

/-- Phase `pass`, the successor is polled while the token is incomplete for it. -/
theorem stepY_pass_partial {cfg : Cfg} {n : Net} {v : View} (h : RInv cfg n v) (hok : cfg.Ok)
    (hph : v.ph = .pass) (now : Int) (e : EvOk cfg n v (oth v.x) now)
    (hpart : cvis cfg v.tr now < v.tr.bytes.length) : StepOut cfg n v (oth v.x) now := by
  have hP := h.ph
  unfold PhaseOk at hP
  rw [hph] at hP
  obtain ⟨hs1, hb, hst, hlx, hq, hY⟩ := hP
  obtain ⟨inc, c, ly', hd, hp, htx, h1, h2, h3, hY'⟩ := yrecv_partial h hok hs1 hY
    (by intro m hm; rw [hb] at hm ⊢; exact receiveAll_token_prefix _ _ m hm)
    now e hpart
  obtain ⟨n', hn', hinv'⟩ := rinv_quiet_y h now e.tl (Int.le_of_lt e.own) inc c v.idle ly' hd hp htx h1 (.inl h2) h3
    (by
      unfold PhaseOk
      have e1 : (v.setY c v.idle ly' now).ph = .pass := hph
      rw [e1]
      simp only
      exact ⟨hs1, hb, hst, hlx, hq, hY'⟩)
  exact ⟨n', _, inc, c, hn', hinv', rfl, fun j _ => rfl, .inl ⟨htx, rfl, rfl⟩⟩

theorem u8_toNat (a : Nat) (h : a < 256) : (UInt8.ofNat a).toNat = a := by
  simp [Nat.mod_eq_of_lt h]

/-- Phase `gap`, the poll at which the other station (still supervising) has the complete request in its
buffer: it is not addressed to it; supervision ends, the station is idle. -/
theorem stepY_gap_complete {cfg : Cfg} {n : Net} {v : View} (h : RInv cfg n v) (hok : cfg.Ok) (g : Nat)
    (hph : v.ph = .gap g) (hidle : v.idle = false) (now : Int) (e : EvOk cfg n v (oth v.x) now)
    (hfull : cvis cfg v.tr now = v.tr.bytes.length) : StepOut cfg n v (oth v.x) now := by
  have hP := h.ph
  unfold PhaseOk at hP
  rw [hph] at hP
  obtain ⟨hs1, hb, hgy, hg, hst, hlx, hq, hsx, hY⟩ := hP
  rw [hidle] at hY
  simp only [Bool.false_eq_true, if_false] at hY
  obtain ⟨hrx, hpb, hlt, hyl, hlc, hmode⟩ := hY
  rw [hidle] at hmode
  simp only [Bool.false_eq_true, if_false] at hmode
  obtain ⟨hyst, hdl⟩ := hmode
  have hown := e.own
  have htl := e.tl
  have htlt := h.tlt
  have hne := oth_ne v.x h.x2
  have hlen : v.tr.bytes.length = 6 := by rw [hb]; exact statusRequestBytes_length _ _
  obtain ⟨inc, hd, hcat⟩ := h.bus.deliver_recv hok.rate (oth v.x) (oth_lt _) now (by rw [hs1]; exact hne) (Int.le_of_lt e.own)
  have hphy : n.bus.transmitting (oth v.x) now = false :=
    Bus.transmitting_old n.bus (oth v.x) now v.old v.tr h.bus.txs (by rw [hs1]; exact hne) h.bus.oldEnd
      (Int.le_trans h.tlt e.tl)
  have hlyn : v.ly < now := by rcases hlc with h1 | h1 <;> omega
  have hrx' : v.sy.rx ++ inc = statusRequestBytes g v.ax := by
    rw [hrx, hcat, hfull, ← hb, List.take_length]
  have hax := h.okx.lta
  have hp := check_poll_hears_request v.sy.s now (statusRequestBytes g v.ax) .first v.ly
    (fdlStatusRequestHeader (UInt8.ofNat g) (UInt8.ofNat v.ax)) .inactive h.oky.son hyst hyl hlyn
    (.inl (by rw [statusRequestBytes_length, hpb]; omega))
    (receiveAll_statusRequest g v.ax (by omega) (by omega)) rfl
    (by
      show (UInt8.ofNat g).toNat ≠ _
      rw [u8_toNat g (by omega), h.oky.addr]; exact hgy)
  have harr : v.tr.start + ((cfg.ce 5 : Nat) : Int) ≤ now := by
    have := (cvis_spec cfg v.tr now 5 (by rw [hlen]; decide)).1 (by rw [hfull, hlen]; decide)
    exact this
  obtain ⟨n', hn', hinv'⟩ := rinv_quiet_y h now e.tl (Int.le_of_lt e.own) inc _ true now hd
    (by rw [hphy, hrx']; exact hp) rfl rfl (.inl rfl) h.oky.son
    (by
      unfold PhaseOk
      have e1 : ∀ c, (v.setY c true now now).ph = .gap g := fun _ => hph
      rw [e1]
      simp only
      unfold View.setY upSt
      simp only [if_true]
      exact ⟨hs1, hb, hgy, hg, hst, hlx, hq, hsx, ⟨none, 0, rfl⟩, trivial, trivial, trivial, harr, Int.le_refl _⟩)
  exact ⟨n', _, inc, _, hn', hinv', rfl, fun j _ => rfl, .inl ⟨rfl, rfl, rfl⟩⟩

/-- Phase `pass`, the poll at which the successor has the complete token in its buffer: it accepts it (from
`CheckTokenPass` if it still supervised its own earlier pass, from `ActiveIdle` otherwise); the roles swap. -/
theorem stepY_pass_complete {cfg : Cfg} {n : Net} {v : View} (h : RInv cfg n v) (hok : cfg.Ok)
    (hph : v.ph = .pass) (now : Int) (e : EvOk cfg n v (oth v.x) now)
    (hfull : cvis cfg v.tr now = v.tr.bytes.length) : StepOut cfg n v (oth v.x) now := by
  have hP := h.ph
  unfold PhaseOk at hP
  rw [hph] at hP
  obtain ⟨hs1, hb, hst, hlx, hq, hY⟩ := hP
  obtain ⟨hrx, hpb, hlt, hyl, hlc, hmode⟩ := hY
  have hown := e.own
  have htl := e.tl
  have hgapy := e.gapY
  have htlt := h.tlt
  have hne := oth_ne v.x h.x2
  have hoo := oth_oth v.x h.x2
  have hmar := hok.margin
  have hc2 := cfg.ce2 hok.rate
  have hlen : v.tr.bytes.length = 3 := by rw [hb]; rfl
  obtain ⟨inc, hd, hcat⟩ := h.bus.deliver_recv hok.rate (oth v.x) (oth_lt _) now (by rw [hs1]; exact hne) (Int.le_of_lt e.own)
  have hphy : n.bus.transmitting (oth v.x) now = false :=
    Bus.transmitting_old n.bus (oth v.x) now v.old v.tr h.bus.txs (by rw [hs1]; exact hne) h.bus.oldEnd
      (Int.le_trans h.tlt e.tl)
  have hlyn : v.ly < now := by rcases hlc with h1 | h1 <;> omega
  have hrx' : v.sy.rx ++ inc = sendToken (UInt8.ofNat v.ay) (UInt8.ofNat v.ax) := by
    rw [hrx, hcat, hfull, List.take_length, hb]; rfl
  have hax := h.okx.lta
  have hay := h.oky.lta
  have hda : (UInt8.ofNat v.ay).toNat = v.sy.s.p.address := by rw [u8_toNat _ (by omega), h.oky.addr]
  have hsa : (UInt8.ofNat v.ax).toNat ≠ v.sy.s.p.address := by
    rw [u8_toNat _ (by omega), h.oky.addr]; exact h.okx.ne
  have hsrc : (UInt8.ofNat v.ax).toNat = v.sy.s.ring.ps := by rw [u8_toNat _ (by omega), h.oky.ps]
  have hlate : ∀ l, v.sy.s.lastBusActivity = some l → l < now := by
    intro l hl; rw [hyl] at hl; cases hl; exact hlyn
  have hnew : v.sy.s.pendingBytes < (sendToken (UInt8.ofNat v.ay) (UInt8.ofNat v.ax)).length := by
    rw [hpb]; show _ < 3; omega
  have harr : v.tr.start + ((cfg.ce 2 : Nat) : Int) ≤ now := by
    have := (cvis_spec cfg v.tr now 2 (by rw [hlen]; decide)).1 (by rw [hfull, hlen]; decide)
    exact this
  have hseenY : n.bus.seen.getD (oth v.x) 0 < v.tr.start + ((cfg.ce 2 : Nat) : Int) := by
    have := vis_lt_full _ (ce_monoI cfg) v.tr.bytes.length v.tr.start (n.bus.seen.getD (oth v.x) 0)
      (by rw [hlen]; decide) hlt
    rw [hlen] at this
    exact this
  -- the accepting poll, in either mode
  have hpoll : v.sy.s.poll [] now false (sendToken (UInt8.ofNat v.ay) (UInt8.ofNat v.ax)) = .ok {
      s := { v.sy.s with st := .useToken ⟨now, none⟩ false, ring := v.sy.s.ring, pendingBytes := 0,
                         lastBusActivity := some now },
      apps := [], rx := [] } := by
    cases hi : v.idle with
    | false =>
      rw [hi] at hmode
      simp only [Bool.false_eq_true, if_false] at hmode
      exact check_poll_accepts v.sy.s [] now _ [] .first _ _ true h.oky.son hmode.1 hlate (.inl hnew)
        (receiveAll_token _ _) hda hsa hsrc
    | true =>
      rw [hi] at hmode
      simp only [if_true] at hmode
      obtain ⟨⟨np, coll, hyst⟩, -⟩ := hmode
      have htto := h.oky.tto
      have := idle_poll_accepts v.sy.s [] now _ [] np coll _ _ true h.oky.son hyst hlate (by omega) (.inl hnew)
        (receiveAll_token _ _) hda hsa (.inl hsrc)
      rw [this]
      unfold acceptRing
      rw [if_pos hsrc]
  obtain ⟨n', hn', hinv'⟩ := rinv_swap_y h now e.tl (Int.le_of_lt e.own) inc _ (v.tr.start + (cfg.b33 : Nat)) hd
    (by rw [hphy, hrx']; exact hpoll) rfl rfl (.inl rfl) h.oky.son rfl rfl
    (by
      unfold PhaseOk View.swap upSt
      simp only
      refine ⟨by rw [hoo]; exact hs1, hb, ⟨_, _, rfl⟩, trivial, hst, hlx, h.pbx, h.rxx, trivial, trivial, harr,
        Int.le_refl _, by omega, by omega⟩)
  refine ⟨n', _, inc, _, hn', hinv', rfl, ?_, .inl ⟨rfl, rfl, ?_⟩⟩
  · intro j hj
    unfold View.adr View.swap
    simp only
    rcases two_cases v.x j h.x2 hj with rfl | rfl
    · rw [if_neg hne, if_pos rfl]
    · rw [if_pos rfl, if_neg (Ne.symm hne)]
  · unfold View.nextTx View.swap
    simp only [hph]

/-- **One event**: any poll of either station allowed by the schedule re-establishes the invariant. -/
theorem ring2_step {cfg : Cfg} {n : Net} {v : View} (h : RInv cfg n v) (hok : cfg.Ok) (i : Nat) (now : Int)
    (e : EvOk cfg n v i now) : StepOut cfg n v i now := by
  rcases two_cases v.x i h.x2 e.i2 with rfl | rfl
  · cases hph : v.ph with
    | hold p1 =>
      by_cases hw : now ≤ p1 + (cfg.b33 : Nat)
      · exact stepX_hold_wait h hok p1 hph now e hw
      · exact stepX_hold_go h hok p1 hph now e (by omega)
    | gap g =>
      by_cases hw : now ≤ v.tr.start + (cfg.b66 : Nat) + (cfg.slot : Nat)
      · exact stepX_gap_wait h hok g hph now e hw
      · exact stepX_gap_timeout h hok g hph now e (by omega)
    | pass => exact stepX_pass h hok hph now e
  · cases hph : v.ph with
    | hold p1 => exact stepY_hold h hok p1 hph now e
    | gap g =>
      cases hid : v.idle with
      | true => exact stepY_gap_idle h hok g hph hid now e
      | false =>
        by_cases hpart : cvis cfg v.tr now < v.tr.bytes.length
        · exact stepY_gap_partial h hok g hph hid now e hpart
        · exact stepY_gap_complete h hok g hph hid now e (by have := cvis_le cfg v.tr now; omega)
    | pass =>
      by_cases hpart : cvis cfg v.tr now < v.tr.bytes.length
      · exact stepY_pass_partial h hok hph now e hpart
      · exact stepY_pass_complete h hok hph now e (by have := cvis_le cfg v.tr now; omega)

/-! ## Whole runs -/

/-- A schedule for the two stations: events `(station, time)` in time order, every station's own poll
times strictly increasing, and at every event no station has been unpolled for more than `P`.  (`seen`
is the bus's record of the last poll times; it does not depend on what the stations do.) -/
def Sched (P : Nat) : Net → Int → List (Nat × Int) → Prop
  | _, _, [] => True
  | n, tl, (i, now) :: rest =>
    i < 2 ∧ tl ≤ now ∧ n.bus.seen.getD i 0 < now ∧ (∀ j, j < 2 → now ≤ n.bus.seen.getD j 0 + (P : Nat)) ∧
    Sched P (n.poll i now).1 now rest

/-- What a run of the stable two-station ring looks like (`adr`: the two addresses, `turn`: the station
whose turn it is to transmit, `lastEnd`: end of the last transmission on the bus):
every poll returns regularly; only the station whose turn it is transmits; every transmission starts
later than 33 bit times after the end of the previous one (no overlap, synchronisation pause); it is a GAP
request to an address that is not the other station's (the turn stays) or the token to the other station
(the turn passes on).  Nobody ever claims, retries or replies. -/
def GoodRun (cfg : Cfg) (adr : Nat → Nat) : Net → Nat → Int → List (Nat × Int) → Prop
  | _, _, _, [] => True
  | n, turn, lastEnd, (i, now) :: rest =>
    ∃ n' inc c, n.poll i now = (n', inc, some (.ok c)) ∧
      ((c.tx = none ∧ GoodRun cfg adr n' turn lastEnd rest) ∨
       (∃ b, c.tx = some b ∧ i = turn ∧ lastEnd + (cfg.b33 : Nat) < now ∧
          ((∃ g, b = statusRequestBytes g (adr i) ∧ g ≠ adr (oth i) ∧
              GoodRun cfg adr n' i (now + (cfg.ce (b.length - 1) : Nat)) rest) ∨
           (b = tokenBytes (adr (oth i)) (adr i) ∧
              GoodRun cfg adr n' (oth i) (now + (cfg.ce (b.length - 1) : Nat)) rest))))

theorem ring2_run {cfg : Cfg} (hok : cfg.Ok) (adr : Nat → Nat) : ∀ (evs : List (Nat × Int)) (n : Net) (v : View),
    RInv cfg n v → (∀ j, j < 2 → v.adr j = adr j) → Sched cfg.P n v.tl evs →
    GoodRun cfg adr n v.nextTx (n.bus.txEnd v.tr) evs := by
  intro evs
  induction evs with
  | nil => intro _ _ _ _ _; trivial
  | cons ev rest ih =>
    intro n v h hadr hs
    obtain ⟨i, now⟩ := ev
    obtain ⟨hi, htl, hown, hgap, hrest⟩ := hs
    have e : EvOk cfg n v i now := ⟨hi, htl, hown, hgap v.x h.x2, hgap (oth v.x) (oth_lt _)⟩
    obtain ⟨n', v', inc, c, hp, hinv', htl', hadr', hcase⟩ := ring2_step h hok i now e
    have hn' : (n.poll i now).1 = n' := by rw [hp]
    rw [hn', ← htl'] at hrest
    have ih' := ih n' v' hinv' (fun j hj => (hadr' j hj).trans (hadr j hj)) hrest
    refine ⟨n', inc, c, hp, ?_⟩
    rcases hcase with ⟨htx, htr, hnx⟩ | ⟨b, htx, hit, hsync, htr, hkind⟩
    · left
      refine ⟨htx, ?_⟩
      rw [hnx, htr, hinv'.bus.txEnd_eq, ← h.bus.txEnd_eq] at ih'
      exact ih'
    · right
      have hend : n'.bus.txEnd v'.tr = now + ((cfg.ce (b.length - 1) : Nat) : Int) := by
        rw [hinv'.bus.txEnd_eq, htr]
      rw [hend] at ih'
      have hoi := hadr (oth i) (oth_lt _)
      have hii := hadr i hi
      refine ⟨b, htx, hit, hsync, ?_⟩
      rcases hkind with ⟨g, hb, hg, hnx⟩ | ⟨hb, hnx⟩
      · left
        rw [hnx] at ih'
        exact ⟨g, by rw [hb, hii], by rw [← hoi]; exact hg, ih'⟩
      · right
        rw [hnx] at ih'
        exact ⟨by rw [hb, hii, hoi], ih'⟩

/-! ## The schedule as a condition on poll times only -/

theorem deliver_seen (b : Bus) (i : Nat) (now : Int) : (b.deliver i now).1.seen = b.seen.set i now := rfl

theorem send_seen (b : Bus) (i : Nat) (now : Int) (bytes : Bytes) : (b.send i now bytes).seen = b.seen := rfl

/-- Whatever the stations do, a poll only records its time in `seen`. -/
theorem Net.poll_seen (n : Net) (i : Nat) (now : Int) : (n.poll i now).1.bus.seen = n.bus.seen.set i now := by
  unfold Net.poll
  rcases hd : n.bus.deliver i now with ⟨bus, inc⟩
  have hs : bus.seen = n.bus.seen.set i now := by
    have := deliver_seen n.bus i now
    rw [hd] at this
    exact this
  simp only
  cases hst : n.stations[i]? with
  | none => exact hs
  | some st =>
    simp only
    split
    · exact hs
    · split
      · exact hs
      · rename_i c _
        cases c.tx with
        | none => exact hs
        | some b => exact (send_seen bus i now b).trans hs

/-- The schedule conditions in terms of the last poll times alone. -/
def SchedT (P : Nat) : List Int → Int → List (Nat × Int) → Prop
  | _, _, [] => True
  | seen, tl, (i, now) :: rest =>
    i < 2 ∧ tl ≤ now ∧ seen.getD i 0 < now ∧ (∀ j, j < 2 → now ≤ seen.getD j 0 + (P : Nat)) ∧
    SchedT P (seen.set i now) now rest

theorem sched_of_times (P : Nat) : ∀ (evs : List (Nat × Int)) (n : Net) (tl : Int),
    SchedT P n.bus.seen tl evs → Sched P n tl evs := by
  intro evs
  induction evs with
  | nil => intro _ _ _; trivial
  | cons ev rest ih =>
    intro n tl h
    obtain ⟨i, now⟩ := ev
    obtain ⟨h1, h2, h3, h4, h5⟩ := h
    exact ⟨h1, h2, h3, h4, ih _ now (by rw [Net.poll_seen]; exact h5)⟩

/-- The net after a run. -/
def Net.after (n : Net) (evs : List (Nat × Int)) : Net := evs.foldl (fun n e => (n.poll e.1 e.2).1) n

/-- The invariant holds again after any scheduled run. -/
theorem ring2_inv_run {cfg : Cfg} (hok : cfg.Ok) : ∀ (evs : List (Nat × Int)) (n : Net) (v : View),
    RInv cfg n v → Sched cfg.P n v.tl evs → ∃ v', RInv cfg (n.after evs) v' ∧ ∀ j, j < 2 → v'.adr j = v.adr j := by
  intro evs
  induction evs with
  | nil => intro n v h _; exact ⟨v, h, fun _ _ => rfl⟩
  | cons ev rest ih =>
    intro n v h hs
    obtain ⟨i, now⟩ := ev
    obtain ⟨hi, htl, hown, hgap, hrest⟩ := hs
    have e : EvOk cfg n v i now := ⟨hi, htl, hown, hgap v.x h.x2, hgap (oth v.x) (oth_lt _)⟩
    obtain ⟨n', v', inc, c, hp, hinv', htl', hadr', -⟩ := ring2_step h hok i now e
    have hn' : (n.poll i now).1 = n' := by rw [hp]
    rw [hn', ← htl'] at hrest
    obtain ⟨v'', h1, h2⟩ := ih n' v' hinv' hrest
    refine ⟨v'', ?_, fun j hj => (h2 j hj).trans (hadr' j hj)⟩
    show RInv cfg (Net.after (n.poll i now).1 rest) v''
    rw [hn']; exact h1

/-- For poll gaps `P ≤ Tslot/4` the margin holds whenever `88·10⁶ + 6·rate ≤ slotBits·10⁶`. -/
theorem Cfg.ok_of_quarter_slot (cfg : Cfg) (hr : 0 < cfg.rate) (hP : cfg.P ≤ cfg.slot / 4)
    (hs : 88 * 1000000 + 6 * cfg.rate ≤ cfg.slotBits * 1000000) : cfg.Ok := by
  refine ⟨hr, ?_⟩
  have hc0 : cfg.ce 0 ≤ bitsToTime cfg.rate 11 + 1 := by
    unfold Cfg.ce bitsToTime
    exact Cfg.ceil_le_floor_succ _ _ hr
  unfold Cfg.b33 Cfg.slot bitsToTime at *
  have h1 : 33 * 1000000 / cfg.rate + 11 * 1000000 / cfg.rate ≤ 44 * 1000000 / cfg.rate := by
    rw [Nat.le_div_iff_mul_le hr, Nat.add_mul]
    have a := Nat.div_mul_le_self (33 * 1000000) cfg.rate
    have b := Nat.div_mul_le_self (11 * 1000000) cfg.rate
    omega
  have h2 : 2 * (44 * 1000000 / cfg.rate) ≤ 88 * 1000000 / cfg.rate := by
    rw [Nat.le_div_iff_mul_le hr]
    have a := Nat.div_mul_le_self (44 * 1000000) cfg.rate
    rw [Nat.mul_assoc]
    omega
  have h3 : 88 * 1000000 / cfg.rate + 6 ≤ cfg.slotBits * 1000000 / cfg.rate := by
    have := Nat.div_le_div_right (c := cfg.rate) hs
    rw [Nat.add_mul_div_right _ _ hr] at this
    exact this
  omega

/-- **Silence bound**: at every event the time since the end of the last transmission is at most
`Tslot + P` — the bus is never silent for longer (the longest silence is the unanswered GAP request). -/
theorem ring2_silence {cfg : Cfg} {n : Net} {v : View} (h : RInv cfg n v) (hok : cfg.Ok) (i : Nat) (now : Int)
    (e : EvOk cfg n v i now) : now ≤ n.bus.txEnd v.tr + (cfg.slot : Nat) + (cfg.P : Nat) := by
  have hP := h.ph
  have hgx := e.gapX
  have hgy := e.gapY
  have hc2 := cfg.ce2 hok.rate
  have hc5 := cfg.ce5 hok.rate
  have hc0 := cfg.ce_pos hok.rate 0
  rw [h.bus.txEnd_eq]
  unfold PhaseOk at hP
  cases hph : v.ph with
  | hold p1 =>
    rw [hph] at hP
    obtain ⟨hs1, hb, -, -, -, -, -, -, -, -, htb, hp1, hsx, hA⟩ := hP
    have hlen : v.tr.bytes.length = 3 := by rw [hb]; rfl
    rw [hlen]
    show now ≤ _ + ((cfg.ce 2 : Nat) : Int) + _ + _
    omega
  | gap g =>
    rw [hph] at hP
    obtain ⟨hs1, hb, -, -, -, -, hq, hsx, -⟩ := hP
    have hlen : v.tr.bytes.length = 6 := by rw [hb]; exact statusRequestBytes_length _ _
    rw [hlen]
    show now ≤ _ + ((cfg.ce 5 : Nat) : Int) + _ + _
    omega
  | pass =>
    rw [hph] at hP
    obtain ⟨hs1, hb, -, -, -, hY⟩ := hP
    have hlen : v.tr.bytes.length = 3 := by rw [hb]; rfl
    have hseenY : n.bus.seen.getD (oth v.x) 0 < v.tr.start + ((cfg.ce 2 : Nat) : Int) := by
      have := vis_lt_full _ (ce_monoI cfg) v.tr.bytes.length v.tr.start (n.bus.seen.getD (oth v.x) 0)
        (by rw [hlen]; decide) hY.2.2.1
      rw [hlen] at this
      exact this
    rw [hlen]
    show now ≤ _ + ((cfg.ce 2 : Nat) : Int) + _ + _
    omega

end PV
