/-
Trace-level helper lemmas about `Model/Station.lean`: what ONE handler / ONE poll can do to the
application call log, to the FDL state and to the ring view, for every start state and every input
(conditional on the regular outcome `.ok c'`; that the outcome IS regular under the station invariant
is `pollInner_good` of `Lemmas/StationInv.lean`).  Property theorems built on these are in
`Props/C11.lean` and `Props/C15.lean`.
-/
import ProfiVerif.Props.C05

namespace PV
open TokenRing

/-! ## Field projections of the bookkeeping helpers -/


@[local simp] theorem gol_st (s : Station) (now : Int) : (getOrInsertLast s now).1.st = s.st := (core_getOrInsertLast s now).2.2.2.2.1
@[local simp] theorem gol_ring (s : Station) (now : Int) : (getOrInsertLast s now).1.ring = s.ring := (core_getOrInsertLast s now).2.1
@[local simp] theorem gol_p (s : Station) (now : Int) : (getOrInsertLast s now).1.p = s.p := (core_getOrInsertLast s now).1
@[local simp] theorem gol_online (s : Station) (now : Int) : (getOrInsertLast s now).1.online = s.online := (core_getOrInsertLast s now).2.2.1
@[local simp] theorem gol_gap (s : Station) (now : Int) : (getOrInsertLast s now).1.gap = s.gap := (core_getOrInsertLast s now).2.2.2.1
@[local simp] theorem gol_nextApp (s : Station) (now : Int) : (getOrInsertLast s now).1.nextApp = s.nextApp := (core_getOrInsertLast s now).2.2.2.2.2

@[local simp] theorem waitSync_fst (s : Station) (now : Int) : (waitSyncPause s now).1 = (getOrInsertLast s now).1 := rfl
@[local simp] theorem checkSlot_fst (s : Station) (now : Int) : (checkSlotExpired s now).1 = (getOrInsertLast s now).1 := rfl

@[local simp] theorem markRx_st (s : Station) (now : Int) : (markRx s now).st = s.st := by simp [markRx, markBusActivity]
@[local simp] theorem markRx_ring (s : Station) (now : Int) : (markRx s now).ring = s.ring := by simp [markRx, markBusActivity]
@[local simp] theorem markRx_p (s : Station) (now : Int) : (markRx s now).p = s.p := by simp [markRx, markBusActivity]
@[local simp] theorem markRx_online (s : Station) (now : Int) : (markRx s now).online = s.online := by simp [markRx, markBusActivity]
@[local simp] theorem markRx_gap (s : Station) (now : Int) : (markRx s now).gap = s.gap := by simp [markRx, markBusActivity]
@[local simp] theorem markRx_nextApp (s : Station) (now : Int) : (markRx s now).nextApp = s.nextApp := by simp [markRx, markBusActivity]

@[local simp] theorem markTx_st (s : Station) (now : Int) (n : Nat) : (markTx s now n).st = s.st := by simp [markTx]
@[local simp] theorem markTx_ring (s : Station) (now : Int) (n : Nat) : (markTx s now n).ring = s.ring := by simp [markTx]
@[local simp] theorem markTx_p (s : Station) (now : Int) (n : Nat) : (markTx s now n).p = s.p := by simp [markTx]
@[local simp] theorem markTx_online (s : Station) (now : Int) (n : Nat) : (markTx s now n).online = s.online := by simp [markTx]
@[local simp] theorem markTx_gap (s : Station) (now : Int) (n : Nat) : (markTx s now n).gap = s.gap := by simp [markTx]
@[local simp] theorem markTx_nextApp (s : Station) (now : Int) (n : Nat) : (markTx s now n).nextApp = s.nextApp := by simp [markTx]

@[local simp] theorem markBA_st (s : Station) (now : Int) : (markBusActivity s now).st = s.st := by simp [markBusActivity]
@[local simp] theorem markBA_ring (s : Station) (now : Int) : (markBusActivity s now).ring = s.ring := by simp [markBusActivity]
@[local simp] theorem markBA_p (s : Station) (now : Int) : (markBusActivity s now).p = s.p := by simp [markBusActivity]
@[local simp] theorem markBA_online (s : Station) (now : Int) : (markBusActivity s now).online = s.online := by simp [markBusActivity]
@[local simp] theorem markBA_nextApp (s : Station) (now : Int) : (markBusActivity s now).nextApp = s.nextApp := by simp [markBusActivity]

theorem coreEq_checkBA (s : Station) (now : Int) (n : Nat) : CoreEq (checkBusActivity s now n) s := by
  unfold checkBusActivity; split <;> simp [CoreEq, markBusActivity]
@[local simp] theorem checkBA_st (s : Station) (now : Int) (n : Nat) : (checkBusActivity s now n).st = s.st := (coreEq_checkBA s now n).2.2.2.2.1
@[local simp] theorem checkBA_ring (s : Station) (now : Int) (n : Nat) : (checkBusActivity s now n).ring = s.ring := (coreEq_checkBA s now n).2.1
@[local simp] theorem checkBA_p (s : Station) (now : Int) (n : Nat) : (checkBusActivity s now n).p = s.p := (coreEq_checkBA s now n).1
@[local simp] theorem checkBA_online (s : Station) (now : Int) (n : Nat) : (checkBusActivity s now n).online = s.online := (coreEq_checkBA s now n).2.2.1
@[local simp] theorem checkBA_nextApp (s : Station) (now : Int) (n : Nat) : (checkBusActivity s now n).nextApp = s.nextApp := (coreEq_checkBA s now n).2.2.2.2.2

@[local simp] theorem hold_st (s : Station) (d : UseData) : (holdUpdate s d).st = s.st := (coreEq_holdUpdate s d).2.2.2.2.1
@[local simp] theorem hold_ring (s : Station) (d : UseData) : (holdUpdate s d).ring = s.ring := (coreEq_holdUpdate s d).2.1
@[local simp] theorem hold_p (s : Station) (d : UseData) : (holdUpdate s d).p = s.p := (coreEq_holdUpdate s d).1
@[local simp] theorem hold_online (s : Station) (d : UseData) : (holdUpdate s d).online = s.online := (coreEq_holdUpdate s d).2.2.1
@[local simp] theorem hold_nextApp (s : Station) (d : UseData) : (holdUpdate s d).nextApp = s.nextApp := (coreEq_holdUpdate s d).2.2.2.2.2


/-! ## Primitive steps -/

theorem transmit_inv {c c1 : Ctx} {now : Int} {b : Bytes} (h : transmit c now b = .ok c1) :
    c1 = { c with tx := some b, s := markTx c.s now b.length } := by
  unfold transmit at h
  split at h
  · cases h
  · cases h; rfl

theorem tr_inv {c c1 : Ctx} {f : Station → Option Station} {site : String} (h : tr c f site = .ok c1) :
    ∃ s', f c.s = some s' ∧ c1 = { c with s := s' } := by
  unfold tr at h
  split at h
  · rename_i s' hs; cases h; exact ⟨s', hs, rfl⟩
  · cases h

theorem toActiveIdle_inv {s s' : Station} (h : toActiveIdle s = some s') : s' = { s with st := .activeIdle none none 0 } := by
  unfold toActiveIdle at h; split at h <;> cases h <;> rfl
theorem toListenToken_inv {s s' : Station} (h : toListenToken s = some s') : s' = { s with st := .listenToken none 0 } := by
  unfold toListenToken at h; split at h <;> cases h <;> rfl
theorem toUseToken_inv {s s' : Station} {d : UseData} (h : toUseToken s d = some s') : s' = { s with st := .useToken d false } := by
  unfold toUseToken at h; split at h <;> cases h <;> rfl
theorem toClaimToken_inv {s s' : Station} (h : toClaimToken s = some s') : s' = { s with st := .claimToken .firstToken } := by
  unfold toClaimToken at h; split at h <;> cases h <;> rfl
theorem toAwaitData_inv {s s' : Station} {a : Nat} {d : UseData} (h : toAwaitData s a d = some s') : s' = { s with st := .awaitData a d } := by
  unfold toAwaitData at h; split at h <;> cases h <;> rfl
theorem toPassToken_inv {s s' : Station} {g : Bool} {att : Attempt} (h : toPassToken s g att = some s') :
    s' = { s with st := .passToken g att } := by
  unfold toPassToken at h; split at h <;> cases h <;> rfl
theorem toCheckTokenPass_inv {s s' : Station} {att : Attempt} (h : toCheckTokenPass s att = some s') :
    s' = { s with st := .checkTokenPass att } := by
  unfold toCheckTokenPass at h; split at h <;> cases h <;> rfl
theorem toAwaitStatus_inv {s s' : Station} {a : Nat} (h : toAwaitStatus s a = some s') : s' = { s with st := .awaitStatus a } := by
  unfold toAwaitStatus at h; split at h <;> cases h <;> rfl

theorem bind_ok_inv' {r : Res} {f : Ctx → Res} {c' : Ctx} (h : r.bind f = .ok c') : ∃ c1, r = .ok c1 ∧ f c1 = .ok c' := by
  cases r with
  | ok c1 => exact ⟨c1, rfl, h⟩
  | panic site => cases h

/-- Frame: no application was called, scripts and parameters are untouched. -/
structure Quiet (c c' : Ctx) : Prop where
  calls : c'.calls = c.calls
  apps : c'.apps = c.apps
  p : c'.s.p = c.s.p

theorem Quiet.rfl' (c : Ctx) : Quiet c c := ⟨rfl, rfl, rfl⟩
theorem Quiet.trans {a b c : Ctx} (h1 : Quiet a b) (h2 : Quiet b c) : Quiet a c :=
  ⟨h2.calls.trans h1.calls, h2.apps.trans h1.apps, h2.p.trans h1.p⟩

/-- Ring-view changes caused by telegrams of a received batch: a chain of `witness_token_pass` calls,
each for a token telegram of the batch. -/
inductive HeardEvo (batch : List (Telegram × Bool)) : TokenRing → TokenRing → Prop
  | refl (r : TokenRing) : HeardEvo batch r r
  | step {r r' : TokenRing} (da sa : UInt8) (l : Bool) : HeardEvo batch r r' → (Telegram.token da sa, l) ∈ batch →
      HeardEvo batch r (r'.witness sa.toNat da.toNat)

theorem HeardEvo.trans {batch : List (Telegram × Bool)} {a b c : TokenRing} (h1 : HeardEvo batch a b) (h2 : HeardEvo batch b c) :
    HeardEvo batch a c := by
  induction h2 with
  | refl => exact h1
  | step da sa l _ hm ih => exact .step da sa l ih hm

theorem HeardEvo.mono {b1 b2 : List (Telegram × Bool)} (hsub : ∀ x ∈ b1, x ∈ b2) {a b : TokenRing} (h : HeardEvo b1 a b) :
    HeardEvo b2 a b := by
  induction h with
  | refl => exact .refl _
  | step da sa l _ hm ih => exact .step da sa l ih (hsub _ hm)

/-! ## `handle_telegram` and the idle fold -/

theorem handleTelegram_eff (c c' : Ctx) (now : Int) (t : Telegram) (l : Bool) (sr np : Option Nat) (coll : Nat)
    (hst : c.s.st = .activeIdle sr np coll) (h : handleTelegram c now t l = .ok c') :
    Quiet c c' ∧ c'.s.online = c.s.online ∧
    (c'.s.ring = c.s.ring ∨ ∃ da sa, t = .token da sa ∧ c'.s.ring = c.s.ring.witness sa.toNat da.toNat) ∧
    ((∃ sr' np' coll', c'.s.st = .activeIdle sr' np' coll' ∧ (l = false → np' = np)) ∨
     c'.s.st = .listenToken none 0 ∨
     (∃ da sa, t = .token da sa ∧ l = true ∧ da.toNat = c.s.p.address ∧ sa.toNat ≠ c.s.p.address ∧
        (sa.toNat = c'.s.ring.ps ∨ np = some sa.toNat) ∧ c'.s.st = .useToken ⟨now, none⟩ false)) := by
  unfold handleTelegram at h
  rw [hst] at h
  simp only at h
  cases t with
  | sc => cases h; exact ⟨.rfl' _, rfl, .inl rfl, .inl ⟨_, _, _, hst, fun _ => rfl⟩⟩
  | data hd pdu =>
    simp only at h
    split at h
    · split at h
      · cases h; exact ⟨⟨rfl, rfl, rfl⟩, rfl, .inl rfl, .inl ⟨_, _, _, rfl, fun _ => rfl⟩⟩
      · cases h; exact ⟨.rfl' _, rfl, .inl rfl, .inl ⟨_, _, _, hst, fun _ => rfl⟩⟩
    · cases h; exact ⟨.rfl' _, rfl, .inl rfl, .inl ⟨_, _, _, hst, fun _ => rfl⟩⟩
  | token da sa =>
    simp only at h
    split at h
    · split at h
      · cases h; exact ⟨⟨rfl, rfl, rfl⟩, rfl, .inl rfl, .inl ⟨_, _, _, rfl, fun _ => rfl⟩⟩
      · simp only [tr, toListenToken, upd] at h
        cases h; exact ⟨⟨rfl, rfl, rfl⟩, rfl, .inl rfl, .inr (.inl rfl)⟩
    · rename_i hsa
      split at h
      · cases h
        exact ⟨⟨rfl, rfl, rfl⟩, rfl, .inr ⟨da, sa, rfl, rfl⟩, .inl ⟨_, _, _, rfl, fun _ => rfl⟩⟩
      · rename_i hda
        have hda1 : da.toNat = c.s.p.address := by simp at hda; exact hda.1
        have hl : l = true := by simp at hda; exact hda.2
        split at h
        · rename_i hps
          simp only [tr, toUseToken, upd] at h
          cases h
          exact ⟨⟨rfl, rfl, rfl⟩, rfl, .inl rfl, .inr (.inr ⟨da, sa, rfl, hl, hda1, hsa, .inl (by simpa [upd] using hps), rfl⟩)⟩
        · split at h
          · rename_i hnp
            simp only [tr, toUseToken, upd] at h
            cases h
            exact ⟨⟨rfl, rfl, rfl⟩, rfl, .inr ⟨da, sa, rfl, rfl⟩, .inr (.inr ⟨da, sa, rfl, hl, hda1, hsa, .inr hnp, rfl⟩)⟩
          · cases h
            exact ⟨⟨rfl, rfl, rfl⟩, rfl, .inl rfl, .inl ⟨_, _, _, rfl, fun hf => by rw [hl] at hf; cases hf⟩⟩


theorem dropLast_cons_flags {α : Type} {x : α × Bool} {rest : List (α × Bool)}
    (hfl : ∀ y ∈ (x :: rest).dropLast, y.2 = false) : ∀ y ∈ rest.dropLast, y.2 = false := by
  intro y hy
  apply hfl y
  cases rest with
  | nil => simp at hy
  | cons z zs => simp [List.dropLast] at hy ⊢; right; exact hy

theorem dropLast_head_flag {α : Type} {x : α × Bool} {z : α × Bool} {zs : List (α × Bool)}
    (hfl : ∀ y ∈ (x :: z :: zs).dropLast, y.2 = false) : x.2 = false :=
  hfl x (by simp [List.dropLast])

/-- The whole batch handled in `ActiveIdle` (each telegram preceded by `mark_rx`): the pending stranger
`np` cannot change before the last telegram, and a token is accepted only as the last telegram. -/
theorem foldIdle_eff (now : Int) (np : Option Nat) : ∀ (calls : List (Telegram × Bool)) (c c' : Ctx),
    ((∃ sr coll, c.s.st = .activeIdle sr np coll) ∨ ∃ a b, c.s.st = .listenToken a b) →
    (∀ x ∈ calls.dropLast, x.2 = false) →
    foldTelegrams (fun c t isLast => handleTelegram (upd c fun s => markRx s now) now t isLast) c calls = .ok c' →
    Quiet c c' ∧ c'.s.online = c.s.online ∧ HeardEvo calls c.s.ring c'.s.ring ∧
    ((∃ sr' np' coll', c'.s.st = .activeIdle sr' np' coll') ∨ (∃ a b, c'.s.st = .listenToken a b) ∨
     (∃ pre da sa, calls = pre ++ [(.token da sa, true)] ∧ da.toNat = c.s.p.address ∧ sa.toNat ≠ c.s.p.address ∧
        (sa.toNat = c'.s.ring.ps ∨ np = some sa.toNat) ∧ c'.s.st = .useToken ⟨now, none⟩ false)) := by
  intro calls
  induction calls with
  | nil =>
    intro c c' hst _ h
    cases h
    refine ⟨.rfl' _, rfl, .refl _, ?_⟩
    rcases hst with ⟨sr, coll, h⟩ | ⟨a, b, h⟩
    · exact .inl ⟨_, _, _, h⟩
    · exact .inr (.inl ⟨_, _, h⟩)
  | cons x rest ih =>
    intro c c' hst hfl h
    obtain ⟨t, l⟩ := x
    simp only [foldTelegrams] at h
    cases h1 : handleTelegram (upd c fun s => markRx s now) now t l with
    | panic site => rw [h1] at h; cases h
    | ok c1 =>
      rw [h1] at h
      simp only [Res.bind] at h
      rcases hst with ⟨sr, coll, hs⟩ | ⟨a, b, hs⟩
      · obtain ⟨hq, hon, hring, hpost⟩ := handleTelegram_eff _ c1 now t l sr np coll (by simpa [upd] using hs) h1
        have hq' : Quiet c c1 := ⟨by simpa [upd] using hq.calls, by simpa [upd] using hq.apps, by simpa [upd] using hq.p⟩
        have hon' : c1.s.online = c.s.online := by simpa [upd] using hon
        have hev1 : HeardEvo ((t, l) :: rest) c.s.ring c1.s.ring := by
          rcases hring with hr | ⟨da, sa, ht, hr⟩
          · have : c1.s.ring = c.s.ring := by simpa [upd] using hr
            rw [this]; exact .refl _
          · have : c1.s.ring = c.s.ring.witness sa.toNat da.toNat := by simpa [upd] using hr
            rw [this]; exact .step da sa l (.refl _) (by rw [ht]; simp)
        have cont : ((∃ sr coll, c1.s.st = .activeIdle sr np coll) ∨ ∃ a b, c1.s.st = .listenToken a b) →
            Quiet c c' ∧ c'.s.online = c.s.online ∧ HeardEvo ((t, l) :: rest) c.s.ring c'.s.ring ∧
            ((∃ sr' np' coll', c'.s.st = .activeIdle sr' np' coll') ∨ (∃ a b, c'.s.st = .listenToken a b) ∨
             (∃ pre da sa, (t, l) :: rest = pre ++ [(.token da sa, true)] ∧ da.toNat = c.s.p.address ∧ sa.toNat ≠ c.s.p.address ∧
                (sa.toNat = c'.s.ring.ps ∨ np = some sa.toNat) ∧ c'.s.st = .useToken ⟨now, none⟩ false)) := by
          intro hst1
          obtain ⟨hq2, hon2, hev2, hpost2⟩ := ih c1 c' hst1 (dropLast_cons_flags hfl) h
          refine ⟨hq'.trans hq2, hon2.trans hon', hev1.trans (hev2.mono (by intro y hy; simp [hy])), ?_⟩
          rcases hpost2 with h' | h' | ⟨pre, da, sa, hc, hda, hsa, hsrc, hu⟩
          · exact .inl h'
          · exact .inr (.inl h')
          · exact .inr (.inr ⟨(t, l) :: pre, da, sa, by rw [hc]; rfl, by rw [← hq'.p]; exact hda, by rw [← hq'.p]; exact hsa, hsrc, hu⟩)
        rcases hpost with ⟨sr', np', coll', hs1, hnp⟩ | hs1 | ⟨da, sa, ht, hl, hda, hsa, hsrc, hu⟩
        · cases rest with
          | nil =>
            cases h
            exact ⟨hq', hon', hev1, .inl ⟨_, _, _, hs1⟩⟩
          | cons z zs =>
            have hlf : l = false := dropLast_head_flag hfl
            rw [hnp hlf] at hs1
            exact cont (.inl ⟨_, _, hs1⟩)
        · exact cont (.inr ⟨_, _, hs1⟩)
        · cases rest with
          | nil =>
            cases h
            refine ⟨hq', hon', hev1, .inr (.inr ⟨[], da, sa, by rw [ht, hl]; rfl, by simpa [upd] using hda, by simpa [upd] using hsa, hsrc, hu⟩)⟩
          | cons z zs =>
            have hlf : l = false := dropLast_head_flag hfl
            rw [hlf] at hl; cases hl
      · have hs' : (upd c fun s => markRx s now).s.st = .listenToken a b := by simpa [upd] using hs
        unfold handleTelegram at h1
        rw [hs'] at h1
        cases h1
        obtain ⟨hq2, hon2, hev2, hpost2⟩ := ih _ c' (.inr ⟨a, b, hs'⟩) (dropLast_cons_flags hfl) h
        refine ⟨⟨by simpa [upd] using hq2.calls, by simpa [upd] using hq2.apps, by simpa [upd] using hq2.p⟩,
          by simpa [upd] using hon2, by simpa [upd] using hev2.mono (by intro y hy; simp [hy]), ?_⟩
        rcases hpost2 with h' | h' | ⟨pre, da, sa, hc, hda, hsa, hsrc, hu⟩
        · exact .inl h'
        · exact .inr (.inl h')
        · exact .inr (.inr ⟨(t, l) :: pre, da, sa, by rw [hc]; rfl, by simpa [upd] using hda, by simpa [upd] using hsa, hsrc, hu⟩)


theorem handleTelegram_tx (c c' : Ctx) (now : Int) (t : Telegram) (l : Bool) (h : handleTelegram c now t l = .ok c') :
    c'.tx = c.tx := by
  unfold handleTelegram at h
  split at h
  · cases h; rfl
  · simp only at h
    repeat' split at h
    all_goals first
      | (cases h; rfl)
      | (obtain ⟨s', hs', hc'⟩ := tr_inv h; subst hc'; rfl)
  · cases h

theorem foldIdle_tx (now : Int) : ∀ (calls : List (Telegram × Bool)) (c c' : Ctx),
    foldTelegrams (fun c t isLast => handleTelegram (upd c fun s => markRx s now) now t isLast) c calls = .ok c' →
    c'.tx = c.tx := by
  intro calls
  induction calls with
  | nil => intro c c' h; cases h; rfl
  | cons x rest ih =>
    intro c c' h
    obtain ⟨t, l⟩ := x
    simp only [foldTelegrams] at h
    obtain ⟨c1, h1, h2⟩ := bind_ok_inv' h
    rw [ih c1 c' h2, handleTelegram_tx _ _ _ _ _ h1]; rfl

/-! ## Ring-view evolution without supervision removal -/

/-- Ring-view changes other than `remove_station`: witnessed passes (heard or own), a successor entered
after a positive GAP reply, the LAS declared valid by a claim, and the reset of `set_offline`. -/
inductive RingEvo (ts : Nat) : TokenRing → TokenRing → Prop
  | refl (r : TokenRing) : RingEvo ts r r
  | witness {r r' : TokenRing} (sa da : Nat) : RingEvo ts r r' → RingEvo ts r (r'.witness sa da)
  | setNext {r r' r'' : TokenRing} (a : Nat) : RingEvo ts r r' → r'.setNextStation a = some r'' → RingEvo ts r r''
  | claim {r r' : TokenRing} : RingEvo ts r r' → RingEvo ts r r'.claimToken
  | reset (r : TokenRing) : RingEvo ts r (TokenRing.new ts)

theorem RingEvo.trans {ts : Nat} {a b c : TokenRing} (h1 : RingEvo ts a b) (h2 : RingEvo ts b c) : RingEvo ts a c := by
  induction h2 with
  | refl => exact h1
  | witness sa da _ ih => exact .witness sa da ih
  | setNext x _ hs ih => exact .setNext x ih hs
  | claim _ ih => exact .claim ih
  | reset => exact .reset _

theorem HeardEvo.ringEvo {ts : Nat} {batch : List (Telegram × Bool)} {a b : TokenRing} (h : HeardEvo batch a b) : RingEvo ts a b := by
  induction h with
  | refl => exact .refl _
  | step da sa l _ _ ih => exact .witness _ _ ih

theorem RingEvo.of_eq {ts : Nat} {a b : TokenRing} (h : b = a) : RingEvo ts a b := by rw [h]; exact .refl _

/-! ## GAP poll helpers and `do_claim_token` -/

theorem awaitGap_eff (c c1 : Ctx) (now : Int) (addr : Nat) (resp : GapPollResponse)
    (h : awaitGapPollResponse c now addr = (.ok c1, resp)) :
    Quiet c c1 ∧ c1.s.st = c.s.st ∧ c1.s.online = c.s.online ∧ c1.s.nextApp = c.s.nextApp ∧ c1.s.gap = c.s.gap ∧ c1.tx = c.tx ∧
    (c1.s.ring = c.s.ring ∨ c.s.ring.setNextStation addr = some c1.s.ring) := by
  unfold awaitGapPollResponse at h
  split at h
  · cases h
  split at h
  · cases h
  split at h
  · cases h
  · cases h
  · simp only [Prod.mk.injEq, Res.ok.injEq] at h
    obtain ⟨h1, -⟩ := h
    subst h1
    exact ⟨⟨rfl, rfl, by simp⟩, by simp, by simp, by simp, by simp, rfl, .inl (by simp)⟩
  · rename_i _ rx' t fl tl ret hrx
    have base : ∀ {r : GapPollResponse}, ((Res.ok { c with rx := rx', s := markRx c.s now }, r) : Res × GapPollResponse) = (.ok c1, resp) →
        Quiet c c1 ∧ c1.s.st = c.s.st ∧ c1.s.online = c.s.online ∧ c1.s.nextApp = c.s.nextApp ∧ c1.s.gap = c.s.gap ∧ c1.tx = c.tx ∧
        (c1.s.ring = c.s.ring ∨ c.s.ring.setNextStation addr = some c1.s.ring) := by
      intro r hh
      simp only [Prod.mk.injEq, Res.ok.injEq] at hh
      obtain ⟨h1, -⟩ := hh
      subst h1
      exact ⟨⟨rfl, rfl, by simp⟩, by simp, by simp, by simp, by simp, rfl, .inl (by simp)⟩
    simp only at h
    split at h
    · split at h
      · split at h
        · split at h
          · split at h
            · rename_i r' hr'
              simp only [Prod.mk.injEq, Res.ok.injEq, upd] at h
              obtain ⟨h1, -⟩ := h
              subst h1
              exact ⟨⟨rfl, rfl, by simp⟩, by simp, by simp, by simp, by simp, rfl, .inr (by simpa using hr')⟩
            · cases h
          · exact base h
        · exact base h
      · exact base h
    · exact base h

theorem transmitGapPoll_eff (c c1 : Ctx) (now : Int) (o : Option Nat) (h : transmitGapPoll c now = (.ok c1, o)) :
    (c1 = c ∧ o = none) ∨ (∃ b a, c1 = { c with tx := some b, s := markTx c.s now b.length } ∧ o = some a) := by
  unfold transmitGapPoll at h
  split at h
  · split at h
    · cases h
    · split at h
      · simp only [Prod.mk.injEq] at h
        obtain ⟨h1, h2⟩ := h
        exact .inr ⟨_, _, transmit_inv h1, h2.symm⟩
      · cases h
  · simp only [Prod.mk.injEq, Res.ok.injEq] at h
    exact .inl ⟨h.1.symm, h.2.symm⟩

/-- Possible outcomes of (a part of) a poll that runs `do_claim_token`. -/
def ClaimPost (c c' : Ctx) : Prop :=
  Quiet c c' ∧ c'.s.online = c.s.online ∧ RingEvo c.s.p.address c.s.ring c'.s.ring ∧
  ((∃ st', c'.s.st = .claimToken st') ∨ c'.s.st = .passToken false .first ∨ c'.s.st = .activeIdle none none 0)

theorem doClaimToken_eff : ∀ (fuel : Nat) (c c' : Ctx) (now : Int) (step : ClaimStep), c.s.st = .claimToken step →
    doClaimToken c now fuel = .ok c' →
    ClaimPost c c' ∧ (step = .firstToken → (c'.s.st = .claimToken .firstToken ∨ c'.s.st = .claimToken .secondToken)) := by
  intro fuel
  induction fuel with
  | zero => intro c c' now step _ h; simp [doClaimToken] at h
  | succ fuel ih =>
    intro c c' now step hst h
    unfold doClaimToken at h
    rw [hst] at h
    simp only at h
    have tok : ∀ nxt : ClaimStep, (if (waitSyncPause c.s now).2 = true then Res.ok { c with s := (waitSyncPause c.s now).1 } else
          (transmit { c with s := (waitSyncPause c.s now).1 } now
            (sendToken (UInt8.ofNat (waitSyncPause c.s now).1.p.address) (UInt8.ofNat (waitSyncPause c.s now).1.p.address))).bind fun c =>
          .ok (upd c fun s => { s with ring := s.ring.claimToken, st := .claimToken nxt, gap := .doPoll s.p.address })) = .ok c' →
        ClaimPost c c' ∧ (c'.s.st = .claimToken step ∨ c'.s.st = .claimToken nxt) := by
      intro nxt hh
      split at hh
      · cases hh
        exact ⟨⟨⟨rfl, rfl, by simp⟩, by simp, .of_eq (by simp), .inl ⟨step, by simpa using hst⟩⟩, .inl (by simpa using hst)⟩
      · cases ht : transmit { c with s := (waitSyncPause c.s now).1 } now
            (sendToken (UInt8.ofNat (waitSyncPause c.s now).1.p.address) (UInt8.ofNat (waitSyncPause c.s now).1.p.address)) with
        | panic site => rw [ht] at hh; cases hh
        | ok c2 =>
          rw [ht] at hh
          have := transmit_inv ht
          subst this
          simp only [Res.bind, upd] at hh
          cases hh
          refine ⟨⟨⟨rfl, rfl, by simp⟩, by simp, ?_, .inl ⟨nxt, rfl⟩⟩, .inr rfl⟩
          have : RingEvo c.s.p.address c.s.ring c.s.ring.claimToken := .claim (.refl _)
          simpa using this
    cases step with
    | firstToken =>
      obtain ⟨hp, hs⟩ := tok .secondToken (by simpa using h)
      exact ⟨hp, fun _ => hs⟩
    | secondToken =>
      obtain ⟨hp, _⟩ := tok .scan (by simpa using h)
      exact ⟨hp, fun hf => by cases hf⟩
    | scan =>
      refine ⟨?_, fun hf => by cases hf⟩
      simp only at h
      split at h
      · cases h
        exact ⟨⟨rfl, rfl, by simp⟩, by simp, .of_eq (by simp), .inl ⟨.scan, by simpa using hst⟩⟩
      · split at h
        · obtain ⟨s', hs', hc'⟩ := tr_inv h
          have := toPassToken_inv hs'
          subst this; subst hc'
          exact ⟨⟨rfl, rfl, by simp⟩, by simp, .of_eq (by simp), .inr (.inl rfl)⟩
        · split at h
          · cases h
          · rename_i g hg
            split at h
            · cases h
            · rename_i c2 addr htg
              rcases transmitGapPoll_eff _ _ _ _ htg with ⟨h1, h2⟩ | ⟨b, a, h1, h2⟩
              · cases h2
              · subst h1
                cases h
                exact ⟨⟨rfl, rfl, by simp [upd]⟩, by simp [upd], .of_eq (by simp [upd]), .inl ⟨_, rfl⟩⟩
            · rename_i c2 htg
              rcases transmitGapPoll_eff _ _ _ _ htg with ⟨h1, h2⟩ | ⟨b, a, h1, h2⟩
              · subst h1
                cases h
                exact ⟨⟨rfl, rfl, by simp [upd]⟩, by simp [upd], .of_eq (by simp [upd]), .inl ⟨.scan, by simpa [upd] using hst⟩⟩
              · cases h2
    | scanAwait a =>
      refine ⟨?_, fun hf => by cases hf⟩
      simp only at h
      split at h
      · cases h
      · rename_i c1 hg
        obtain ⟨hq, hs1, ho1, -, -, -, hr1⟩ := awaitGap_eff _ _ _ _ _ hg
        cases h
        refine ⟨hq, ho1, ?_, .inl ⟨_, by rw [hs1]; exact hst⟩⟩
        rcases hr1 with hr | hr
        · exact .of_eq hr
        · exact .setNext a (.refl _) hr
      · rename_i c1 hg
        obtain ⟨hq, hs1, ho1, -, -, -, hr1⟩ := awaitGap_eff _ _ _ _ _ hg
        cases h
        refine ⟨⟨hq.calls, hq.apps, by simpa [upd] using hq.p⟩, by simpa [upd] using ho1, ?_, .inl ⟨.scan, by simp [upd]⟩⟩
        rcases hr1 with hr | hr
        · exact .of_eq (by simpa [upd] using hr)
        · exact .setNext a (.refl _) (by simpa [upd] using hr)
      · rename_i c1 hg
        obtain ⟨hq, hs1, ho1, -, -, -, hr1⟩ := awaitGap_eff _ _ _ _ _ hg
        obtain ⟨⟨hq2, ho2, hr2, hs2⟩, -⟩ := ih (upd c1 fun s => { s with st := .claimToken .scan }) c' now .scan (by simp [upd]) h
        have hq1' : Quiet c (upd c1 fun s => { s with st := .claimToken .scan }) := ⟨hq.calls, hq.apps, by simpa [upd] using hq.p⟩
        refine ⟨hq1'.trans hq2, by rw [ho2]; simpa [upd] using ho1, ?_, hs2⟩
        have hp : c1.s.p = c.s.p := hq.p
        have hr2' : RingEvo c.s.p.address c1.s.ring c'.s.ring := by simpa [upd, hp] using hr2
        rcases hr1 with hr | hr
        · rw [hr] at hr2'; exact hr2'
        · exact (RingEvo.setNext a (.refl _) hr).trans hr2'
      · rename_i c1 hg
        obtain ⟨hq, hs1, ho1, -, -, -, hr1⟩ := awaitGap_eff _ _ _ _ _ hg
        obtain ⟨s', hs', hc'⟩ := tr_inv h
        have := toActiveIdle_inv hs'
        subst this; subst hc'
        refine ⟨⟨hq.calls, hq.apps, by simpa using hq.p⟩, by simpa using ho1, ?_, .inr (.inr rfl)⟩
        rcases hr1 with hr | hr
        · exact .of_eq (by simpa using hr)
        · exact .setNext a (.refl _) (by simpa using hr)


/-! ## `handle_lost_token`, `do_listen_token`, `do_active_idle` -/

theorem handleLostToken_eff (c c1 : Ctx) (now : Int) (o : Option Res) (h : handleLostToken c now = (c1, o)) :
    c1 = { c with s := (getOrInsertLast c.s now).1 } ∧
    (∀ r c', o = some r → r = .ok c' →
      ClaimPost c c' ∧ (c'.s.st = .claimToken .firstToken ∨ c'.s.st = .claimToken .secondToken)) := by
  unfold handleLostToken at h
  simp only at h
  split at h
  · split at h
    · simp only [Prod.mk.injEq] at h
      obtain ⟨h1, h2⟩ := h
      refine ⟨h1.symm, ?_⟩
      intro r c' ho hr
      rw [← h2] at ho
      cases ho
      cases hr
    · rename_i s'' hs''
      simp only [Prod.mk.injEq] at h
      obtain ⟨h1, h2⟩ := h
      refine ⟨h1.symm, ?_⟩
      intro r c' ho hr
      rw [← h2] at ho
      cases ho
      have := toClaimToken_inv hs''
      subst this
      obtain ⟨⟨hq, hon, hr', hs'⟩, hf⟩ := doClaimToken_eff 2 _ c' now .firstToken rfl hr
      exact ⟨⟨⟨hq.calls, hq.apps, by simpa using hq.p⟩, by simpa using hon, by simpa using hr', hs'⟩, hf rfl⟩
  · simp only [Prod.mk.injEq] at h
    obtain ⟨h1, h2⟩ := h
    refine ⟨h1.symm, ?_⟩
    intro r c' ho
    rw [← h2] at ho
    cases ho

theorem encodeOrPanic_inv {c c1 : Ctx} {now : Int} {hd : Header} {pdu : Bytes} (h : encodeOrPanic c now hd pdu = .ok c1) :
    ∃ b, c1 = { c with tx := some b, s := markTx c.s now b.length } := by
  unfold encodeOrPanic at h
  split at h
  · exact ⟨_, transmit_inv h⟩
  · cases h

theorem setOffline_fields (s : Station) : s.setOffline.p = s.p ∧ s.setOffline.online = false ∧ s.setOffline.st = .offline ∧
    s.setOffline.ring = TokenRing.new s.p.address := by
  simp only [Station.setOffline, Station.new, and_self]

/-- A listening station inside its telegram fold: still listening, or it switched itself offline. -/
def ListenOrOffline (s : Station) : Prop :=
  (s.online = true ∧ ∃ a b, s.st = .listenToken a b) ∨ (s.online = false ∧ s.st = .offline)

theorem listenTelegramCore_eff (c c' : Ctx) (t : Telegram) (l : Bool) (hst : ListenOrOffline c.s)
    (h : listenTelegramCore c t l = .ok c') :
    Quiet c c' ∧ ListenOrOffline c'.s ∧ RingEvo c.s.p.address c.s.ring c'.s.ring ∧ c'.tx = c.tx := by
  unfold listenTelegramCore at h
  rcases hst with ⟨hon, a, b, hs⟩ | ⟨hoff, hs⟩
  · rw [if_neg (by simp [hon]), hs] at h
    simp only at h
    split at h
    · split at h
      · cases h
        exact ⟨⟨rfl, rfl, rfl⟩, .inl ⟨hon, _, _, rfl⟩, .refl _, rfl⟩
      · simp only [upd] at h
        obtain ⟨hf1, hf2, hf3, hf4⟩ := setOffline_fields c.s
        obtain ⟨s', hs'⟩ : ∃ s', c.s.setOffline = s' := ⟨_, rfl⟩
        rw [hs'] at h hf1 hf2 hf3 hf4
        cases h
        refine ⟨⟨rfl, rfl, hf1⟩, .inr ⟨hf2, hf3⟩, ?_, rfl⟩
        show RingEvo c.s.p.address c.s.ring s'.ring
        rw [hf4]; exact .reset _
    · cases t with
      | sc => cases h; exact ⟨.rfl' _, .inl ⟨hon, _, _, hs⟩, .refl _, rfl⟩
      | token da sa =>
        cases h
        exact ⟨⟨rfl, rfl, rfl⟩, .inl ⟨hon, _, _, hs⟩, .witness _ _ (.refl _), rfl⟩
      | data hd pdu =>
        simp only at h
        split at h
        · split at h
          · cases h; exact ⟨⟨rfl, rfl, rfl⟩, .inl ⟨hon, _, _, rfl⟩, .refl _, rfl⟩
          · cases h; exact ⟨.rfl' _, .inl ⟨hon, _, _, hs⟩, .refl _, rfl⟩
        · cases h; exact ⟨.rfl' _, .inl ⟨hon, _, _, hs⟩, .refl _, rfl⟩
  · rw [if_pos (by simp [hoff])] at h
    cases h
    exact ⟨.rfl' _, .inr ⟨hoff, hs⟩, .refl _, rfl⟩

theorem foldListen_eff (now : Int) : ∀ (calls : List (Telegram × Bool)) (c c' : Ctx), ListenOrOffline c.s →
    foldTelegrams (listenTelegram now) c calls = .ok c' →
    Quiet c c' ∧ ListenOrOffline c'.s ∧ RingEvo c.s.p.address c.s.ring c'.s.ring ∧ c'.tx = c.tx := by
  intro calls
  induction calls with
  | nil => intro c c' hst h; cases h; exact ⟨.rfl' _, hst, .refl _, rfl⟩
  | cons x rest ih =>
    intro c c' hst h
    obtain ⟨t, l⟩ := x
    simp only [foldTelegrams] at h
    cases h1 : listenTelegram now c t l with
    | panic site => rw [h1] at h; cases h
    | ok c1 =>
      rw [h1] at h
      simp only [Res.bind] at h
      unfold listenTelegram at h1
      obtain ⟨hq1, hl1, hr1, ht1⟩ := listenTelegramCore_eff _ c1 t l (by simpa [upd, ListenOrOffline] using hst) h1
      obtain ⟨hq2, hl2, hr2, ht2⟩ := ih c1 c' hl1 h
      have hq1' : Quiet c c1 := ⟨by simpa [upd] using hq1.calls, by simpa [upd] using hq1.apps, by simpa [upd] using hq1.p⟩
      refine ⟨hq1'.trans hq2, hl2, ?_, by rw [ht2, ht1]; rfl⟩
      have e1 : RingEvo c.s.p.address c.s.ring c1.s.ring := by simpa [upd] using hr1
      rw [hq1'.p] at hr2
      exact e1.trans hr2

/-- What a poll in `ListenToken` can end in. -/
theorem doListenToken_eff (c c' : Ctx) (now : Int) (sr : Option Nat) (coll : Nat) (hon : c.s.online = true)
    (hst : c.s.st = .listenToken sr coll) (h : doListenToken c now = .ok c') :
    Quiet c c' ∧ RingEvo c.s.p.address c.s.ring c'.s.ring ∧
    ((c'.s.online = true ∧ ∃ a b, c'.s.st = .listenToken a b) ∨ (c'.s.online = false ∧ c'.s.st = .offline) ∨
     (c'.s.online = true ∧ c'.s.st = .activeIdle none none 0 ∧ (∃ src, sr = some src) ∧ c'.tx.isSome = true) ∨
     (c'.s.online = true ∧ (c'.s.st = .claimToken .firstToken ∨ c'.s.st = .claimToken .secondToken))) := by
  unfold doListenToken at h
  rcases hl : handleLostToken c now with ⟨c1, o⟩
  rw [hl, hst] at h
  simp only at h
  cases o with
  | some r =>
    simp only at h
    obtain ⟨-, hcl⟩ := handleLostToken_eff _ _ _ _ hl
    obtain ⟨⟨hq, ho, hr, -⟩, hs⟩ := hcl r c' rfl h
    exact ⟨hq, hr, .inr (.inr (.inr ⟨by rw [ho]; exact hon, hs⟩))⟩
  | none =>
    simp only at h
    obtain ⟨hc1, -⟩ := handleLostToken_eff _ _ _ _ hl
    subst hc1
    simp only at h
    cases sr with
    | some src =>
      simp only [gol_st, hst] at h
      split at h
      · cases h
        exact ⟨⟨rfl, rfl, by simp⟩, .of_eq (by simp), .inl ⟨by simpa using hon, _, _, by simpa using hst⟩⟩
      · cases he : encodeOrPanic { c with s := (waitSyncPause (getOrInsertLast c.s now).1 now).1 } now
            (fdlStatusResponseHeader (UInt8.ofNat src) (UInt8.ofNat (waitSyncPause (getOrInsertLast c.s now).1 now).1.p.address)
              (if (waitSyncPause (getOrInsertLast c.s now).1 now).1.ring.readyForRing = true ∧
                  src = (waitSyncPause (getOrInsertLast c.s now).1 now).1.ring.ps then .masterWithoutToken else .masterNotReady) .ok) [] with
        | panic site => rw [he] at h; cases h
        | ok c2 =>
          rw [he] at h
          obtain ⟨b, hb⟩ := encodeOrPanic_inv he
          subst hb
          simp only [Res.bind] at h
          split at h
          · obtain ⟨s', hs', hc'⟩ := tr_inv h
            have := toActiveIdle_inv hs'
            subst this; subst hc'
            exact ⟨⟨rfl, rfl, by simp⟩, .of_eq (by simp), .inr (.inr (.inl ⟨by simpa using hon, rfl, ⟨src, rfl⟩, rfl⟩))⟩
          · cases h
            exact ⟨⟨rfl, rfl, by simp [upd]⟩, .of_eq (by simp [upd]), .inl ⟨by simpa [upd] using hon, _, _, rfl⟩⟩
    | none =>
      rcases hrx : receiveAll c.rx with ⟨rx', calls, ret⟩ | _ | _ <;> rw [hrx] at h <;> simp only [gol_st, hst] at h
      · skip
        obtain ⟨hq, hl, hr, -⟩ := foldListen_eff now calls _ c' (.inl ⟨by simpa using hon, _, _, by simpa using hst⟩) h
        refine ⟨⟨hq.calls, hq.apps, by simpa using hq.p⟩, by simpa using hr, ?_⟩
        rcases hl with hl | hl
        · exact .inl hl
        · exact .inr (.inl hl)
      · cases h
      · cases h

/-- What a poll in `ActiveIdle` can end in; a token is accepted only as the last telegram of the batch,
from the registered predecessor or from the pending stranger `np`. -/
theorem doActiveIdle_eff (c c' : Ctx) (now : Int) (sr np : Option Nat) (coll : Nat)
    (hst : c.s.st = .activeIdle sr np coll) (h : doActiveIdle c now = .ok c') :
    Quiet c c' ∧ c'.s.online = c.s.online ∧ RingEvo c.s.p.address c.s.ring c'.s.ring ∧
    ((∃ sr' np' coll', c'.s.st = .activeIdle sr' np' coll') ∨ (∃ a b, c'.s.st = .listenToken a b) ∨
     (c'.s.st = .claimToken .firstToken ∨ c'.s.st = .claimToken .secondToken) ∨
     (sr = none ∧ ∃ rx' pre da sa ret, receiveAll c.rx = .done rx' (pre ++ [(.token da sa, true)]) ret ∧
        da.toNat = c.s.p.address ∧ sa.toNat ≠ c.s.p.address ∧
        (sa.toNat = c'.s.ring.ps ∨ np = some sa.toNat) ∧ c'.s.st = .useToken ⟨now, none⟩ false)) := by
  unfold doActiveIdle at h
  rcases hl : handleLostToken c now with ⟨c1, o⟩
  rw [hl, hst] at h
  simp only at h
  cases o with
  | some r =>
    simp only at h
    obtain ⟨-, hcl⟩ := handleLostToken_eff _ _ _ _ hl
    obtain ⟨⟨hq, ho, hr, -⟩, hs⟩ := hcl r c' rfl h
    exact ⟨hq, ho, hr, .inr (.inr (.inl hs))⟩
  | none =>
    simp only at h
    obtain ⟨hc1, -⟩ := handleLostToken_eff _ _ _ _ hl
    subst hc1
    simp only at h
    cases sr with
    | some src =>
      simp only [gol_st, hst] at h
      split at h
      · cases h
        exact ⟨⟨rfl, rfl, by simp⟩, by simp, .of_eq (by simp), .inl ⟨_, _, _, by simpa using hst⟩⟩
      · cases he : encodeOrPanic { c with s := (waitSyncPause (getOrInsertLast c.s now).1 now).1 } now
            (fdlStatusResponseHeader (UInt8.ofNat src) (UInt8.ofNat (waitSyncPause (getOrInsertLast c.s now).1 now).1.p.address)
              .masterInRing .ok) [] with
        | panic site => rw [he] at h; cases h
        | ok c2 =>
          rw [he] at h
          obtain ⟨b, hb⟩ := encodeOrPanic_inv he
          subst hb
          simp only [Res.bind, upd] at h
          cases h
          exact ⟨⟨rfl, rfl, by simp⟩, by simp, .of_eq (by simp), .inl ⟨_, _, _, rfl⟩⟩
    | none =>
      rcases hrx : receiveAll c.rx with ⟨rx', calls, ret⟩ | _ | _ <;> rw [hrx] at h <;> simp only [gol_st, hst] at h
      · skip
        obtain ⟨hq, ho, hev, hpost⟩ := foldIdle_eff now np calls _ c' (.inl ⟨none, coll, by simpa using hst⟩)
          (receiveAll_flags _ _ _ _ hrx) h
        refine ⟨⟨hq.calls, hq.apps, by simpa using hq.p⟩, by simpa using ho, by simpa using hev.ringEvo, ?_⟩
        rcases hpost with h' | h' | ⟨pre, da, sa, hc, hda, hsa, hsrc, hu⟩
        · exact .inl h'
        · exact .inr (.inl h')
        · refine .inr (.inr (.inr ⟨rfl, rx', pre, da, sa, ret, ?_, by simpa using hda, by simpa using hsa, hsrc, hu⟩))
          rw [← hc]
      · cases h
      · cases h


/-! ## `do_pass_token`, `do_check_token_pass`, `do_await_status_response` -/

theorem bind_ok_inv {r : Res} {f : Ctx → Res} {c' : Ctx} (h : r.bind f = .ok c') : ∃ c1, r = .ok c1 ∧ f c1 = .ok c' := by
  cases r with
  | ok c1 => exact ⟨c1, rfl, h⟩
  | panic site => cases h

theorem ite_inv {α : Type} {P : Prop} [Decidable P] {x y z : α} (h : (if P then x else y) = z) :
    (P ∧ x = z) ∨ (¬P ∧ y = z) := by
  by_cases hp : P
  · rw [if_pos hp] at h; exact .inl ⟨hp, h⟩
  · rw [if_neg hp] at h; exact .inr ⟨hp, h⟩

theorem passTokenOn_eff (c c' : Ctx) (now : Int) (att : Attempt) (g : Bool) (a0 : Attempt)
    (hst : c.s.st = .passToken g a0) (h : passTokenOn c now att = .ok c') :
    Quiet c c' ∧ c'.s.online = c.s.online ∧ c'.s.ring = c.s.ring.witness c.s.p.address c.s.ring.ns ∧
    (c'.s.st = .useToken ⟨now, none⟩ false ∨ c'.s.st = .checkTokenPass att) ∧
    c'.tx = some (sendToken (UInt8.ofNat c.s.ring.ns) (UInt8.ofNat c.s.p.address)) := by
  unfold passTokenOn at h
  simp only at h
  obtain ⟨c2, ht, h⟩ := bind_ok_inv h
  have := transmit_inv ht
  subst this
  simp only [upd] at h
  rcases ite_inv h with ⟨_, h⟩ | ⟨_, h⟩
  · obtain ⟨s', hs', hc'⟩ := tr_inv h
    have := toUseToken_inv hs'
    subst this; subst hc'
    exact ⟨⟨rfl, rfl, by simp⟩, by simp, by simp, .inl rfl, rfl⟩
  · obtain ⟨s', hs', hc'⟩ := tr_inv h
    have := toCheckTokenPass_inv hs'
    subst this; subst hc'
    exact ⟨⟨rfl, rfl, by simp⟩, by simp, by simp, .inr rfl, rfl⟩

/-- Outcomes of `do_pass_token`: still waiting for the synchronisation pause, a GAP poll was sent
instead (only with `do_gap`), or the token went to NS and the own pass was recorded in the ring view. -/
def PassPost (c c' : Ctx) (g : Bool) (att : Attempt) (now : Int) : Prop :=
  Quiet c c' ∧ c'.s.online = c.s.online ∧
  ((c'.s.st = .passToken g att ∧ c'.s.ring = c.s.ring ∧ c'.tx = c.tx) ∨
   (g = true ∧ (∃ a, c'.s.st = .awaitStatus a) ∧ c'.s.ring = c.s.ring) ∨
   (c'.s.ring = c.s.ring.witness c.s.p.address c.s.ring.ns ∧
      (c'.s.st = .useToken ⟨now, none⟩ false ∨ c'.s.st = .checkTokenPass att) ∧
      c'.tx = some (sendToken (UInt8.ofNat c.s.ring.ns) (UInt8.ofNat c.s.p.address))))

theorem doPassToken_eff (c c' : Ctx) (now : Int) (g : Bool) (att : Attempt)
    (hst : c.s.st = .passToken g att) (h : doPassToken c now = .ok c') : PassPost c c' g att now := by
  unfold doPassToken at h
  rw [hst] at h
  simp only at h
  split at h
  · cases h
    exact ⟨⟨rfl, rfl, by simp⟩, by simp, .inl ⟨by simpa using hst, by simp, rfl⟩⟩
  · split at h
    · rename_i hg
      split at h
      · cases h
      · rename_i gs hgs
        simp only [upd] at h
        split at h
        · cases h
        · rename_i c2 addr htg
          rcases transmitGapPoll_eff _ _ _ _ htg with ⟨h1, h2⟩ | ⟨b, a, h1, h2⟩
          · cases h2
          · subst h1
            obtain ⟨s', hs', hc'⟩ := tr_inv h
            have := toAwaitStatus_inv hs'
            subst this; subst hc'
            exact ⟨⟨rfl, rfl, by simp⟩, by simp, .inr (.inl ⟨hg, ⟨_, rfl⟩, by simp⟩)⟩
        · rename_i c2 htg
          rcases transmitGapPoll_eff _ _ _ _ htg with ⟨h1, h2⟩ | ⟨b, a, h1, h2⟩
          · subst h1
            obtain ⟨hq, ho, hr, hs, ht⟩ := passTokenOn_eff _ c' now att g att (by simpa using hst) h
            exact ⟨⟨hq.calls, hq.apps, by simpa using hq.p⟩, by simpa using ho, .inr (.inr ⟨by simpa using hr, hs, by simpa using ht⟩)⟩
          · cases h2
    · obtain ⟨hq, ho, hr, hs, ht⟩ := passTokenOn_eff _ c' now att g att (by simpa using hst) h
      exact ⟨⟨hq.calls, hq.apps, by simpa using hq.p⟩, by simpa using ho, .inr (.inr ⟨by simpa using hr, hs, by simpa using ht⟩)⟩

theorem PassPost.ringEvo {c c' : Ctx} {g : Bool} {att : Attempt} {now : Int} (h : PassPost c c' g att now) :
    RingEvo c.s.p.address c.s.ring c'.s.ring := by
  rcases h.2.2 with h | h | h
  · exact .of_eq h.2.1
  · exact .of_eq h.2.2
  · rw [h.1]; exact .witness _ _ (.refl _)


/-- The retry branch of pass supervision: which attempt comes next and what the ring view is before the
token is transmitted again (`remove_station(NS)` exactly on the third expiry). -/
def RetryStep (r : TokenRing) (att att' : Attempt) (r0 : TokenRing) : Prop :=
  (att = .first ∧ att' = .second ∧ r0 = r) ∨ (att = .second ∧ att' = .third ∧ r0 = r) ∨
  (att = .third ∧ att' = .first ∧ r.removeStation r.ns = some r0)

/-- Everything a poll in `CheckTokenPass` can do, split by whether the slot time has expired. -/
def CheckPost (c c' : Ctx) (now : Int) (att : Attempt) : Prop :=
  Quiet c c' ∧ c'.s.online = c.s.online ∧
  (((checkSlotExpired c.s now).2 = true ∧ ∃ r0 att', RetryStep c.s.ring att att' r0 ∧
      ((c'.s.st = .passToken false att' ∧ c'.s.ring = r0 ∧ c'.tx = c.tx) ∨
       (c'.s.ring = r0.witness c.s.p.address r0.ns ∧
          (c'.s.st = .useToken ⟨now, none⟩ false ∨ c'.s.st = .checkTokenPass att') ∧
          c'.tx = some (sendToken (UInt8.ofNat r0.ns) (UInt8.ofNat c.s.p.address))))) ∨
   ((checkSlotExpired c.s now).2 = false ∧ ∃ rx' calls ret, receiveAll c.rx = .done rx' calls ret ∧
      ((calls = [] ∧ c'.s.st = .checkTokenPass att ∧ c'.s.ring = c.s.ring ∧ c'.tx = c.tx) ∨
       (calls ≠ [] ∧ HeardEvo calls c.s.ring c'.s.ring ∧ c'.tx = c.tx ∧
         ((∃ sr' np' coll', c'.s.st = .activeIdle sr' np' coll') ∨ (∃ a b, c'.s.st = .listenToken a b) ∨
          (∃ pre da sa, calls = pre ++ [(.token da sa, true)] ∧ da.toNat = c.s.p.address ∧ sa.toNat ≠ c.s.p.address ∧
             sa.toNat = c'.s.ring.ps ∧ c'.s.st = .useToken ⟨now, none⟩ false))))))

theorem doCheckTokenPass_eff (c c' : Ctx) (now : Int) (att : Attempt)
    (hst : c.s.st = .checkTokenPass att) (h : doCheckTokenPass c now = .ok c') : CheckPost c c' now att := by
  unfold doCheckTokenPass at h
  rw [hst] at h
  simp only at h
  rcases ite_inv h with ⟨hex, h⟩ | ⟨hex, h⟩
  · -- slot expired: retransmit (third time: after removing NS)
    have pass : ∀ (s0 : Station) (r0 : TokenRing) (att' : Attempt), s0.p = c.s.p → s0.online = c.s.online → s0.ring = r0 →
        s0.st = .passToken false att' → RetryStep c.s.ring att att' r0 →
        doPassToken { c with s := s0 } now = .ok c' → CheckPost c c' now att := by
      intro s0 r0 att' e1 e2 e3 e4 hrs hp
      obtain ⟨hq, ho, hpost⟩ := doPassToken_eff _ c' now false att' e4 hp
      refine ⟨⟨hq.calls, hq.apps, by rw [hq.p]; exact e1⟩, by rw [ho]; exact e2, .inl ⟨hex, r0, att', hrs, ?_⟩⟩
      simp only [e1, e3] at hpost
      rcases hpost with ⟨h1, h2, h3⟩ | ⟨h1, -⟩ | ⟨h1, h2, h3⟩
      · exact .inl ⟨h1, h2, h3⟩
      · cases h1
      · exact .inr ⟨h1, h2, h3⟩
    cases att with
    | first =>
      simp only [tr, toPassToken, checkSlot_fst, gol_st, hst, Res.bind] at h
      exact pass _ c.s.ring .second (by simp) (by simp) (by simp) rfl (.inl ⟨rfl, rfl, rfl⟩) h
    | second =>
      simp only [tr, toPassToken, checkSlot_fst, gol_st, hst, Res.bind] at h
      exact pass _ c.s.ring .third (by simp) (by simp) (by simp) rfl (.inr (.inl ⟨rfl, rfl, rfl⟩)) h
    | third =>
      simp only [checkSlot_fst, gol_ring] at h
      rcases hrm : c.s.ring.removeStation c.s.ring.ns with _ | r0
      · rw [hrm] at h; cases h
      · rw [hrm] at h
        simp only [tr, toPassToken, upd, checkSlot_fst, gol_st, hst, Res.bind] at h
        exact pass _ r0 .first (by simp) (by simp) rfl rfl (.inr (.inr ⟨rfl, rfl, hrm⟩)) h
  · have hex' : (checkSlotExpired c.s now).2 = false := by simpa using hex
    rcases hrx : receiveAll c.rx with ⟨rx', calls, ret⟩ | _ | _ <;> rw [hrx] at h <;> simp only at h
    · cases calls with
      | nil =>
        cases h
        exact ⟨⟨rfl, rfl, by simp⟩, by simp, .inr ⟨hex', rx', [], ret, hrx, .inl ⟨rfl, by simpa using hst, by simp, rfl⟩⟩⟩
      | cons x rest =>
        obtain ⟨t, l⟩ := x
        simp only [tr, toActiveIdle, markRx_st, checkSlot_fst, gol_st, hst, Res.bind] at h
        have h2 : foldTelegrams (fun c t isLast => handleTelegram (upd c fun s => markRx s now) now t isLast)
            { c with rx := rx', s := { (getOrInsertLast c.s now).1 with st := .activeIdle none none 0 } } ((t, l) :: rest) = .ok c' := by
          simp only [foldTelegrams, upd]
          exact h
        obtain ⟨hq, ho, hev, hpost⟩ := foldIdle_eff now none _ _ c' (.inl ⟨none, 0, rfl⟩) (receiveAll_flags _ _ _ _ hrx) h2
        refine ⟨⟨hq.calls, hq.apps, by simpa using hq.p⟩, by simpa using ho,
          .inr ⟨hex', rx', _, ret, hrx, .inr ⟨by simp, by simpa using hev, by simpa using foldIdle_tx now _ _ c' h2, ?_⟩⟩⟩
        rcases hpost with h' | h' | ⟨pre, da, sa, hc, hda, hsa, hsrc, hu⟩
        · exact .inl h'
        · exact .inr (.inl h')
        · refine .inr (.inr ⟨pre, da, sa, hc, by simpa using hda, by simpa using hsa, ?_, hu⟩)
          rcases hsrc with h' | h'
          · exact h'
          · cases h'
    · cases h
    · cases h

/-- `do_await_status_response`. -/
theorem doAwaitStatusResponse_eff (c c' : Ctx) (now : Int) (a : Nat) (hst : c.s.st = .awaitStatus a)
    (h : doAwaitStatusResponse c now = .ok c') :
    Quiet c c' ∧ c'.s.online = c.s.online ∧ RingEvo c.s.p.address c.s.ring c'.s.ring ∧
    (c'.s.st = .awaitStatus a ∨ c'.s.st = .passToken false .first ∨ c'.s.st = .useToken ⟨now, none⟩ false ∨
     c'.s.st = .checkTokenPass .first ∨ c'.s.st = .activeIdle none none 0) := by
  unfold doAwaitStatusResponse at h
  rw [hst] at h
  simp only at h
  rcases hg : awaitGapPollResponse c now a with ⟨r, resp⟩
  rw [hg] at h
  cases r with
  | panic site => cases h
  | ok c1 =>
    obtain ⟨hq, hs1, ho1, -, -, -, hr1⟩ := awaitGap_eff _ _ _ _ _ hg
    have hs1' : c1.s.st = .awaitStatus a := by rw [hs1]; exact hst
    have hev1 : RingEvo c.s.p.address c.s.ring c1.s.ring := by
      rcases hr1 with hr | hr
      · exact .of_eq hr
      · exact .setNext a (.refl _) hr
    cases resp with
    | waitingForBus =>
      cases h
      exact ⟨hq, ho1, hev1, .inl hs1'⟩
    | responded =>
      simp only at h
      obtain ⟨s', hs', hc'⟩ := tr_inv h
      have := toPassToken_inv hs'
      subst this; subst hc'
      exact ⟨⟨hq.calls, hq.apps, by simpa using hq.p⟩, by simpa using ho1, by simpa using hev1, .inr (.inl rfl)⟩
    | noResponse =>
      simp only at h
      obtain ⟨c2, ht, h⟩ := bind_ok_inv h
      obtain ⟨s', hs', hc'⟩ := tr_inv ht
      have := toPassToken_inv hs'
      subst this; subst hc'
      obtain ⟨hq2, ho2, hpost⟩ := doPassToken_eff _ c' now false .first rfl h
      have hev2 := PassPost.ringEvo ⟨hq2, ho2, hpost⟩
      refine ⟨⟨hq2.calls.trans hq.calls, hq2.apps.trans hq.apps, by rw [hq2.p]; simpa using hq.p⟩,
        by rw [ho2]; simpa using ho1, ?_, ?_⟩
      · have hp : c1.s.p = c.s.p := hq.p
        have : RingEvo c.s.p.address c1.s.ring c'.s.ring := by simpa [hp] using hev2
        exact hev1.trans this
      · rcases hpost with ⟨h1, -⟩ | ⟨h1, -⟩ | ⟨-, h2, -⟩
        · exact .inr (.inl h1)
        · cases h1
        · rcases h2 with h2 | h2
          · exact .inr (.inr (.inl h2))
          · exact .inr (.inr (.inr (.inl h2)))
    | unexpected =>
      simp only at h
      obtain ⟨s', hs', hc'⟩ := tr_inv h
      have := toActiveIdle_inv hs'
      subst this; subst hc'
      exact ⟨⟨hq.calls, hq.apps, by simpa using hq.p⟩, by simpa using ho1, by simpa using hev1, .inr (.inr (.inr (.inr rfl)))⟩


/-! ## Applications: `do_use_token`, `do_await_data_response` -/

/-- All records are `transmit_telegram` callbacks. -/
def AskRun (new : List AppCall) : Prop := ∀ r ∈ new, ∃ i hp ans, r = AppCall.transmit i hp ans

/-- If the station awaits a data reply, the call log ends with the request being awaited: a telegram
expecting a reply from exactly the awaited address, sent by the application whose turn it is. -/
def AwaitLink (log : List AppCall) (s : Station) : Prop :=
  ∀ a d, s.st = .awaitData a d → ∃ pre hp hd pdu a8,
    log = pre ++ [.transmit s.nextApp hp (.send hd pdu)] ∧ expectsReplyOf hd = some a8 ∧ a8.toNat = a

/-- The reply admission filter of `do_await_data_response`. -/
def validReplyB (ts addr : Nat) : Telegram → Bool
  | .token .. => false
  | .sc => true
  | .data h _ => decide (h.sa.toNat = addr) && decide (h.da.toNat = ts) &&
      (match h.fc with | .response .. => true | _ => false)

theorem appTransmit_eff (c c1 : Ctx) (now : Int) (hp b : Bool) (d : UseData) (fcd : Bool)
    (hst : c.s.st = .useToken d fcd) (h : appTransmit c now hp = (.ok c1, b)) :
    ∃ ans, c1.calls = c.calls ++ [.transmit c.s.nextApp hp ans] ∧ c1.s.ring = c.s.ring ∧ c1.s.p = c.s.p ∧
      c1.s.online = c.s.online ∧ c1.s.nextApp = c.s.nextApp ∧ c1.apps.length = c.apps.length ∧
      (b = false → ans = .decline ∧ c1.s.st = .useToken d fcd) ∧
      (b = true → ∃ hd pdu, ans = .send hd pdu ∧
         ((expectsReplyOf hd = none ∧ c1.s.st = .useToken d fcd) ∨
          (∃ a8, expectsReplyOf hd = some a8 ∧ c1.s.st = .awaitData a8.toNat d))) := by
  unfold appTransmit at h
  simp only at h
  rcases hs : c.apps[c.s.nextApp]? with _ | script <;> rw [hs] at h <;> simp only at h
  · cases h
  rcases ha : script.headD .decline with _ | ⟨hd, pdu⟩ <;> rw [ha] at h <;> simp only at h
  · simp only [Prod.mk.injEq, Res.ok.injEq] at h
    obtain ⟨h1, h2⟩ := h
    subst h1; subst h2
    exact ⟨.decline, rfl, rfl, rfl, rfl, rfl, by simp, fun _ => ⟨rfl, hst⟩, (by intro hb; cases hb)⟩
  rcases hser : hd.serialize pdu with bytes | _ <;> rw [hser] at h <;> simp only at h
  rcases hexp : expectsReplyOf hd with _ | a8 <;> rw [hexp] at h <;> simp only at h
  · simp only [Prod.mk.injEq] at h
    obtain ⟨h1, h2⟩ := h
    have := transmit_inv h1
    subst this; subst h2
    exact ⟨.send hd pdu, rfl, by simp, by simp, by simp, by simp, by simp, (by intro hb; cases hb),
      fun _ => ⟨hd, pdu, rfl, .inl ⟨hexp, by simpa using hst⟩⟩⟩
  · rw [hst] at h
    simp only [toAwaitData, hst] at h
    simp only [Prod.mk.injEq] at h
    obtain ⟨h1, h2⟩ := h
    have := transmit_inv h1
    subst this; subst h2
    exact ⟨.send hd pdu, rfl, by simp, by simp, by simp, by simp, by simp, (by intro hb; cases hb),
      fun _ => ⟨hd, pdu, rfl, .inr ⟨a8, hexp, by simp⟩⟩⟩
  · cases h

theorem askRun_nil : AskRun [] := fun r hr => by cases hr

theorem askRun_cons {r : AppCall} {l : List AppCall} (h1 : ∃ i hp ans, r = .transmit i hp ans) (h2 : AskRun l) : AskRun (r :: l) := by
  intro x hx
  rcases List.mem_cons.mp hx with rfl | hx
  · exact h1
  · exact h2 x hx

theorem appsTransmit_eff (now : Int) (hp : Bool) : ∀ (k : Nat) (c c1 : Ctx) (b : Bool) (d : UseData) (fcd : Bool),
    c.s.st = .useToken d fcd → appsTransmit now hp k c = (.ok c1, b) →
    ∃ new, c1.calls = c.calls ++ new ∧ AskRun new ∧ c1.s.ring = c.s.ring ∧ c1.s.p = c.s.p ∧
      c1.s.online = c.s.online ∧ c1.apps.length = c.apps.length ∧
      (b = false → ∃ d', c1.s.st = .useToken d' fcd) ∧
      ((∃ d', c1.s.st = .useToken d' fcd) ∨ ((∃ a d', c1.s.st = .awaitData a d') ∧ AwaitLink new c1.s)) := by
  intro k
  induction k with
  | zero =>
    intro c c1 b d fcd hst h
    simp only [appsTransmit, Prod.mk.injEq, Res.ok.injEq] at h
    obtain ⟨h1, h2⟩ := h
    subst h1; subst h2
    exact ⟨[], by simp, askRun_nil, rfl, rfl, rfl, rfl, fun _ => ⟨d, hst⟩, .inl ⟨d, hst⟩⟩
  | succ k ih =>
    intro c c1 b d fcd hst h
    simp only [appsTransmit] at h
    rcases hat : appTransmit c now hp with ⟨r, b1⟩
    rw [hat] at h
    cases r with
    | panic site => cases h
    | ok c2 =>
      obtain ⟨ans, hc, hr, hpp, ho, hn, hl, hbf, hbt⟩ := appTransmit_eff c c2 now hp b1 d fcd hst hat
      cases b1 with
      | true =>
        simp only [Prod.mk.injEq, Res.ok.injEq] at h
        obtain ⟨h1, h2⟩ := h
        subst h1; subst h2
        obtain ⟨hd, pdu, hans, hcase⟩ := hbt rfl
        refine ⟨[.transmit c.s.nextApp hp ans], hc, askRun_cons ⟨_, _, _, rfl⟩ (askRun_nil), hr, hpp, ho, hl,
          (by intro hb; cases hb), ?_⟩
        rcases hcase with ⟨-, hs2⟩ | ⟨a8, hexp, hs2⟩
        · exact .inl ⟨d, hs2⟩
        · refine .inr ⟨⟨_, _, hs2⟩, ?_⟩
          intro a d' hs3
          rw [hs2] at hs3
          cases hs3
          exact ⟨[], hp, hd, pdu, a8, by rw [hn, hans]; rfl, hexp, rfl⟩
      | false =>
        obtain ⟨hans, hs2⟩ := hbf rfl
        simp only at h
        rw [hs2] at h
        simp only [upd] at h
        rcases ite_inv h with ⟨_, h⟩ | ⟨_, h⟩
        · simp only [Prod.mk.injEq, Res.ok.injEq] at h
          obtain ⟨h1, h2⟩ := h
          subst h1; subst h2
          exact ⟨[.transmit c.s.nextApp hp ans], hc, askRun_cons ⟨_, _, _, rfl⟩ (askRun_nil), hr, hpp, ho, hl,
            fun _ => ⟨_, rfl⟩, .inl ⟨_, rfl⟩⟩
        · obtain ⟨new, hc3, har, hr3, hp3, ho3, hl3, hbf3, hcase3⟩ := ih _ c1 b _ fcd rfl h
          refine ⟨.transmit c.s.nextApp hp ans :: new, ?_, askRun_cons ⟨_, _, _, rfl⟩ har, hr3.trans hr, hp3.trans hpp,
            ho3.trans ho, hl3.trans hl, hbf3, ?_⟩
          · rw [hc3]; simp only [hc, List.append_assoc, List.singleton_append]
          · rcases hcase3 with h' | ⟨h', hlink⟩
            · exact .inl h'
            · refine .inr ⟨h', ?_⟩
              intro a d' hs3
              obtain ⟨pre, hp', hd, pdu, a8, e1, e2, e3⟩ := hlink a d' hs3
              exact ⟨.transmit c.s.nextApp hp ans :: pre, hp', hd, pdu, a8, by rw [e1]; rfl, e2, e3⟩

/-- How a token visit step ends: still using the token or awaiting a data reply (ring view untouched;
when awaiting, the new callbacks end with the awaited request) — or, with nothing (more) to send,
`PassToken` is entered; where the pass is evaluated in the same poll this continues like
`do_pass_token` (GAP poll sent, or token transmitted and the own pass witnessed). -/
def UseTail (c c' : Ctx) (now : Int) (new : List AppCall) : Prop :=
  (c'.s.ring = c.s.ring ∧ ((∃ d' f', c'.s.st = .useToken d' f') ∨
      ((∃ a d', c'.s.st = .awaitData a d') ∧ AwaitLink new c'.s))) ∨
  (c'.s.st = .passToken true .first ∧ c'.s.ring = c.s.ring) ∨
  ((∃ a, c'.s.st = .awaitStatus a) ∧ c'.s.ring = c.s.ring) ∨
  (c'.s.ring = c.s.ring.witness c.s.p.address c.s.ring.ns ∧
     (c'.s.st = .useToken ⟨now, none⟩ false ∨ c'.s.st = .checkTokenPass .first))

theorem UseTail.link {c c' : Ctx} {now : Int} {new : List AppCall} (h : UseTail c c' now new) : AwaitLink new c'.s := by
  intro a d hs
  rcases h with ⟨-, ⟨_, _, h'⟩ | ⟨-, hl⟩⟩ | ⟨h', -⟩ | ⟨⟨_, h'⟩, -⟩ | ⟨-, h' | h'⟩
  · rw [h'] at hs; cases hs
  · exact hl a d hs
  · rw [h'] at hs; cases hs
  · rw [h'] at hs; cases hs
  · rw [h'] at hs; cases hs
  · rw [h'] at hs; cases hs

theorem UseTail.ringEvo {c c' : Ctx} {now : Int} {new : List AppCall} (h : UseTail c c' now new) :
    RingEvo c.s.p.address c.s.ring c'.s.ring := by
  rcases h with ⟨h', -⟩ | ⟨-, h'⟩ | ⟨-, h'⟩ | ⟨h', -⟩
  · exact .of_eq h'
  · exact .of_eq h'
  · exact .of_eq h'
  · rw [h']; exact .witness _ _ (.refl _)

theorem UseTail.congr {c0 c c' : Ctx} {now : Int} {new : List AppCall} (e1 : c0.s.ring = c.s.ring) (e2 : c0.s.p = c.s.p)
    (h : UseTail c0 c' now new) : UseTail c c' now new := by
  unfold UseTail at h ⊢
  rw [e1, e2] at h
  exact h

/-- `passNow` (end of a token hold since the K3 repair): `PassToken` is entered and evaluated in the
same poll. -/
theorem passNow_eff (c c' : Ctx) (now : Int) (new : List AppCall) (h : passNow c now = .ok c') :
    Quiet c c' ∧ c'.s.online = c.s.online ∧ UseTail c c' now new := by
  unfold passNow at h
  obtain ⟨c1, ht, h⟩ := bind_ok_inv h
  obtain ⟨s', hs', hc'⟩ := tr_inv ht
  have := toPassToken_inv hs'
  subst this; subst hc'
  obtain ⟨hq, ho, hpost⟩ := doPassToken_eff _ c' now true .first rfl h
  refine ⟨⟨hq.calls, hq.apps, by simpa using hq.p⟩, by simpa using ho, ?_⟩
  rcases hpost with ⟨h1, h2, -⟩ | ⟨-, h1, h2⟩ | ⟨h1, h2, -⟩
  · exact .inr (.inl ⟨h1, by simpa using h2⟩)
  · exact .inr (.inr (.inl ⟨h1, by simpa using h2⟩))
  · exact .inr (.inr (.inr ⟨by simpa using h1, h2⟩))

/-- Outcomes of a token visit step that may ask applications. -/
def UsePost (c c' : Ctx) (now : Int) : Prop :=
  ∃ new, c'.calls = c.calls ++ new ∧ AskRun new ∧ c'.s.p = c.s.p ∧
    c'.s.online = c.s.online ∧ c'.apps.length = c.apps.length ∧ UseTail c c' now new

theorem useTokenGo_eff (c c' : Ctx) (now : Int) (d : UseData) (hp : Bool) (h : useTokenGo c now d hp = .ok c') :
    UsePost c c' now := by
  unfold useTokenGo at h
  simp only [upd] at h
  rcases hat : appsTransmit now hp c.apps.length { c with s := { c.s with st := .useToken d true } } with ⟨r, b⟩
  rw [hat] at h
  cases r with
  | panic site => cases h
  | ok c2 =>
    obtain ⟨new, hc, har, hr, hpp, ho, hl, hbf, hcase⟩ := appsTransmit_eff now hp _ _ c2 b d true rfl hat
    cases b with
    | true =>
      cases h
      refine ⟨new, hc, har, hpp, ho, hl, .inl ⟨hr, ?_⟩⟩
      rcases hcase with ⟨d', h'⟩ | h'
      · exact .inl ⟨d', true, h'⟩
      · exact .inr h'
    | false =>
      simp only at h
      obtain ⟨hq, ho2, htail⟩ := passNow_eff c2 c' now new h
      exact ⟨new, hq.calls.trans hc, har, hq.p.trans hpp, ho2.trans ho, by rw [hq.apps]; exact hl, htail.congr hr hpp⟩

theorem doUseToken_eff (c c' : Ctx) (now : Int) (d : UseData) (fcd : Bool) (hst : c.s.st = .useToken d fcd)
    (h : doUseToken c now = .ok c') : UsePost c c' now := by
  unfold doUseToken at h
  rw [hst] at h
  simp only at h
  have lift : ∀ c0 : Ctx, c0.calls = c.calls → c0.apps = c.apps → c0.s.ring = c.s.ring → c0.s.p = c.s.p →
      c0.s.online = c.s.online → UsePost c0 c' now → UsePost c c' now := by
    intro c0 e1 e2 e3 e4 e5 hp
    obtain ⟨new, hc, har, hpp, ho, hl, htail⟩ := hp
    exact ⟨new, by rw [hc, e1], har, hpp.trans e4, ho.trans e5, by rw [hl, e2], htail.congr e3 e4⟩
  rcases ite_inv h with ⟨_, h⟩ | ⟨_, h⟩
  · cases h
    exact ⟨[], by simp, askRun_nil, by simp, by simp, rfl, .inl ⟨by simp, .inl ⟨d, fcd, by simpa using hst⟩⟩⟩
  · rcases ite_inv h with ⟨_, h⟩ | ⟨_, h⟩
    · exact lift { c with s := (waitSyncPause (holdUpdate c.s d) now).1 } rfl rfl (by simp) (by simp) (by simp) (useTokenGo_eff _ c' now d false h)
    · rcases ite_inv h with ⟨_, h⟩ | ⟨_, h⟩
      · exact lift { c with s := (waitSyncPause (holdUpdate c.s d) now).1 } rfl rfl (by simp) (by simp) (by simp) (useTokenGo_eff _ c' now d true h)
      · obtain ⟨hq, ho2, htail⟩ := passNow_eff _ c' now [] h
        exact ⟨[], by simpa using hq.calls, askRun_nil, by simpa using hq.p, by simpa using ho2, by rw [hq.apps],
          htail.congr (by simp) (by simp)⟩

/-- Outcomes of a poll in `AwaitDataResponse`: keep waiting; deliver the (admitted) reply to the
requesting application; drop an inadmissible telegram and back off to `ActiveIdle`; or deliver the
time-out and continue the token visit at once. -/
def AwaitPost (c c' : Ctx) (now : Int) (a : Nat) (d : UseData) : Prop :=
  c'.s.p = c.s.p ∧ c'.s.online = c.s.online ∧ c'.apps.length = c.apps.length ∧
  ((c'.calls = c.calls ∧ c'.s.st = .awaitData a d ∧ c'.s.nextApp = c.s.nextApp ∧ c'.s.ring = c.s.ring) ∨
   (∃ t, validReplyB c.s.p.address a t = true ∧ c'.calls = c.calls ++ [.reply c.s.nextApp a t] ∧
      c'.s.st = .useToken d true ∧ c'.s.ring = c.s.ring) ∨
   (c'.calls = c.calls ∧ c'.s.st = .activeIdle none none 0 ∧ c'.s.ring = c.s.ring) ∨
   (∃ new, c'.calls = c.calls ++ .timeout c.s.nextApp a :: new ∧ AskRun new ∧ UseTail c c' now new))

theorem doAwaitDataResponse_eff (c c' : Ctx) (now : Int) (a : Nat) (d : UseData) (hst : c.s.st = .awaitData a d)
    (h : doAwaitDataResponse c now = .ok c') : AwaitPost c c' now a d := by
  unfold doAwaitDataResponse at h
  rcases hrx : receiveTelegram c.rx with ⟨rx', calls, ret⟩ | _ | _ <;> rw [hrx, hst] at h <;> simp only at h
  · rcases ite_inv h with ⟨_, h⟩ | ⟨_, h⟩
    · cases h
    cases calls with
    | nil =>
      simp only at h
      rcases ite_inv h with ⟨_, h⟩ | ⟨_, h⟩
      · obtain ⟨c2, ht, h⟩ := bind_ok_inv h
        obtain ⟨c3, ht3, ht⟩ := bind_ok_inv ht
        obtain ⟨s', hs', hc'⟩ := tr_inv ht3
        have := toUseToken_inv hs'
        subst this; subst hc'
        simp only [upd, Res.ok.injEq] at ht
        subst ht
        obtain ⟨new, hc, har, hpp, ho, hl, htail⟩ := doUseToken_eff _ c' now d true rfl h
        exact ⟨by simpa using hpp, by simpa using ho, by simpa using hl,
          .inr (.inr (.inr ⟨new, by simpa using hc, har, htail.congr (by simp) (by simp)⟩))⟩
      · cases h
        exact ⟨by simp, by simp, rfl, .inl ⟨rfl, by simpa using hst, by simp, by simp⟩⟩
    | cons x rest =>
      obtain ⟨t, fl⟩ := x
      simp only at h
      rcases ite_inv h with ⟨hv, h⟩ | ⟨_, h⟩
      · obtain ⟨c3, ht3, ht⟩ := bind_ok_inv h
        obtain ⟨s', hs', hc'⟩ := tr_inv ht3
        have := toUseToken_inv hs'
        subst this; subst hc'
        simp only [upd, Res.ok.injEq] at ht
        subst ht
        refine ⟨by simp, by simp, rfl, .inr (.inl ⟨t, ?_, rfl, rfl, by simp⟩)⟩
        cases t with
        | token da sa => simp at hv
        | sc => rfl
        | data hd pdu =>
          cases hfc : hd.fc with
          | request fcb req => simp only [hfc] at hv; simp at hv
          | response st stt => simp only [hfc] at hv; simpa [validReplyB, hfc] using hv
      · obtain ⟨s', hs', hc'⟩ := tr_inv h
        have := toActiveIdle_inv hs'
        subst this; subst hc'
        exact ⟨by simp, by simp, rfl, .inr (.inr (.inl ⟨rfl, rfl, by simp⟩))⟩
  · rcases ite_inv h with ⟨_, h⟩ | ⟨_, h⟩ <;> cases h
  · rcases ite_inv h with ⟨_, h⟩ | ⟨_, h⟩ <;> cases h


/-! ## One whole poll -/

/-- Outcomes of a poll in `ListenToken`. -/
def ListenPost (c c' : Ctx) (sr : Option Nat) : Prop :=
  Quiet c c' ∧ RingEvo c.s.p.address c.s.ring c'.s.ring ∧
  ((c'.s.online = true ∧ ∃ a b, c'.s.st = .listenToken a b) ∨ (c'.s.online = false ∧ c'.s.st = .offline) ∨
   (c'.s.online = true ∧ c'.s.st = .activeIdle none none 0 ∧ (∃ src, sr = some src) ∧ c'.tx.isSome = true) ∨
   (c'.s.online = true ∧ (c'.s.st = .claimToken .firstToken ∨ c'.s.st = .claimToken .secondToken)))

/-- Outcomes of a poll in `ActiveIdle`. -/
def IdlePost (c c' : Ctx) (now : Int) (sr np : Option Nat) : Prop :=
  Quiet c c' ∧ c'.s.online = c.s.online ∧ RingEvo c.s.p.address c.s.ring c'.s.ring ∧
  ((∃ sr' np' coll', c'.s.st = .activeIdle sr' np' coll') ∨ (∃ a b, c'.s.st = .listenToken a b) ∨
   (c'.s.st = .claimToken .firstToken ∨ c'.s.st = .claimToken .secondToken) ∨
   (sr = none ∧ ∃ rx' pre da sa ret, receiveAll c.rx = .done rx' (pre ++ [(.token da sa, true)]) ret ∧
      da.toNat = c.s.p.address ∧ sa.toNat ≠ c.s.p.address ∧
      (sa.toNat = c'.s.ring.ps ∨ np = some sa.toNat) ∧ c'.s.st = .useToken ⟨now, none⟩ false))

/-- Outcomes of a poll in `AwaitStatusResponse`. -/
def StatusPost (c c' : Ctx) (now : Int) (a : Nat) : Prop :=
  Quiet c c' ∧ c'.s.online = c.s.online ∧ RingEvo c.s.p.address c.s.ring c'.s.ring ∧
  (c'.s.st = .awaitStatus a ∨ c'.s.st = .passToken false .first ∨ c'.s.st = .useToken ⟨now, none⟩ false ∨
   c'.s.st = .checkTokenPass .first ∨ c'.s.st = .activeIdle none none 0)

/-- What the state handler selected by `poll_inner` can do, by start state. -/
structure DispatchPost (c c' : Ctx) (now : Int) : Prop where
  listen : ∀ sr coll, c.s.st = .listenToken sr coll → ListenPost c c' sr
  idle : ∀ sr np coll, c.s.st = .activeIdle sr np coll → IdlePost c c' now sr np
  use : ∀ d fcd, c.s.st = .useToken d fcd → UsePost c c' now
  claim : ∀ step, c.s.st = .claimToken step → ClaimPost c c'
  await : ∀ a d, c.s.st = .awaitData a d → AwaitPost c c' now a d
  pass : ∀ g att, c.s.st = .passToken g att → PassPost c c' g att now
  check : ∀ att, c.s.st = .checkTokenPass att → CheckPost c c' now att
  status : ∀ a, c.s.st = .awaitStatus a → StatusPost c c' now a
  awake : c.s.st ≠ .offline ∧ c.s.st ≠ .passiveIdle

theorem dispatch_post (c c' : Ctx) (now : Int) (hon : c.s.online = true) (h : dispatch c now = .ok c') :
    DispatchPost c c' now := by
  unfold dispatch at h
  cases hst : c.s.st with
  | offline => rw [hst] at h; cases h
  | passiveIdle => rw [hst] at h; cases h
  | listenToken sr coll =>
    rw [hst] at h
    have := doListenToken_eff c c' now sr coll hon hst h
    constructor <;> (try (intros; rename_i he; rw [hst] at he; cases he)) <;> (try exact this)
    simp [hst]
  | activeIdle sr np coll =>
    rw [hst] at h
    have := doActiveIdle_eff c c' now sr np coll hst h
    constructor <;> (try (intros; rename_i he; rw [hst] at he; cases he)) <;> (try exact this)
    simp [hst]
  | useToken d fcd =>
    rw [hst] at h
    have := doUseToken_eff c c' now d fcd hst h
    constructor <;> (try (intros; rename_i he; rw [hst] at he; cases he)) <;> (try exact this)
    simp [hst]
  | claimToken step =>
    rw [hst] at h
    have := (doClaimToken_eff 2 c c' now step hst h).1
    constructor <;> (try (intros; rename_i he; rw [hst] at he; cases he)) <;> (try exact this)
    simp [hst]
  | awaitData a d =>
    rw [hst] at h
    have := doAwaitDataResponse_eff c c' now a d hst h
    constructor <;> (try (intros; rename_i he; rw [hst] at he; cases he)) <;> (try exact this)
    simp [hst]
  | passToken g att =>
    rw [hst] at h
    have := doPassToken_eff c c' now g att hst h
    constructor <;> (try (intros; rename_i he; rw [hst] at he; cases he)) <;> (try exact this)
    simp [hst]
  | checkTokenPass att =>
    rw [hst] at h
    have := doCheckTokenPass_eff c c' now att hst h
    constructor <;> (try (intros; rename_i he; rw [hst] at he; cases he)) <;> (try exact this)
    simp [hst]
  | awaitStatus a =>
    rw [hst] at h
    have := doAwaitStatusResponse_eff c c' now a hst h
    constructor <;> (try (intros; rename_i he; rw [hst] at he; cases he)) <;> (try exact this)
    simp [hst]

/-- The first poll after going online leaves `Offline` for `ListenToken`. -/
def Station.wake (s : Station) : Station :=
  match s.st with
  | .offline | .passiveIdle => { s with st := .listenToken none 0 }
  | _ => s

theorem pollStart_inv (c c1 : Ctx) (h : pollStart c = .ok c1) : c1 = { c with s := c.s.wake } := by
  unfold pollStart at h
  unfold Station.wake
  split at h
  · obtain ⟨s', hs', hc'⟩ := tr_inv h
    have := toListenToken_inv hs'
    subst this; subst hc'
    simp_all
  · obtain ⟨s', hs', hc'⟩ := tr_inv h
    have := toListenToken_inv hs'
    subst this; subst hc'
    simp_all
  · cases h
    split <;> simp_all

/-- The three ways a poll can go: offline no-op; own transmission still on the wire (only the activity
stamp moves); or the state handler runs after `check_for_bus_activity`. -/
theorem poll_cases (s : Station) (apps : Apps) (now : Int) (phy : Bool) (rx : Bytes) (c' : Ctx)
    (h : s.poll apps now phy rx = .ok c') :
    (s.online = false ∧ s.st = .offline ∧ c' = { s := s, apps := apps, rx := rx }) ∨
    (s.online = true ∧ c' = { s := markBusActivity s.wake now, apps := apps, rx := rx }) ∨
    (s.online = true ∧
      DispatchPost { s := checkBusActivity s.wake now rx.length, apps := apps, rx := rx } c' now) := by
  unfold Station.poll pollInner at h
  cases hon : s.online with
  | false =>
    simp only [hon] at h
    left
    cases hst : s.st <;> simp only [hst] at h <;> cases h
    exact ⟨rfl, rfl, rfl⟩
  | true =>
    right
    simp only [hon] at h
    obtain ⟨c1, hs, h⟩ := bind_ok_inv h
    have := pollStart_inv _ _ hs
    subst this
    rcases ite_inv h with ⟨_, h⟩ | ⟨_, h⟩
    · cases h; exact .inl ⟨rfl, rfl⟩
    · refine .inr ⟨rfl, dispatch_post _ c' now ?_ h⟩
      simp only [upd, checkBA_online]
      unfold Station.wake
      split <;> simp [hon]


theorem wake_cases (s : Station) :
    s.wake = s ∨ (s.wake = { s with st := .listenToken none 0 } ∧ (s.st = .offline ∨ s.st = .passiveIdle)) := by
  unfold Station.wake
  split
  · rename_i h; exact .inr ⟨rfl, .inl h⟩
  · rename_i h; exact .inr ⟨rfl, .inr h⟩
  · exact .inl rfl

@[local simp] theorem wake_p (s : Station) : s.wake.p = s.p := by rcases wake_cases s with h | ⟨h, -⟩ <;> rw [h]
@[local simp] theorem wake_ring (s : Station) : s.wake.ring = s.ring := by rcases wake_cases s with h | ⟨h, -⟩ <;> rw [h]
@[local simp] theorem wake_online (s : Station) : s.wake.online = s.online := by rcases wake_cases s with h | ⟨h, -⟩ <;> rw [h]
@[local simp] theorem wake_nextApp (s : Station) : s.wake.nextApp = s.nextApp := by rcases wake_cases s with h | ⟨h, -⟩ <;> rw [h]

/-- The application callbacks of one poll, by start state: none at all unless the poll starts in
`UseToken` (only `transmit_telegram` calls) or in `AwaitDataResponse` (the admitted reply alone, or the
time-out followed by `transmit_telegram` calls of the continued token visit).  Whenever the poll ends
in `AwaitDataResponse`, either nothing was called and it was already waiting for the same request, or
the last callback is the request now awaited. -/
theorem poll_calls (s : Station) (apps : Apps) (now : Int) (phy : Bool) (rx : Bytes) (c' : Ctx)
    (h : s.poll apps now phy rx = .ok c') :
    (c'.calls = [] ∧ (∀ a d, c'.s.st = .awaitData a d → s.st = .awaitData a d ∧ c'.s.nextApp = s.nextApp)) ∨
    (s.online = true ∧ (∃ d fcd, s.st = .useToken d fcd) ∧ AskRun c'.calls ∧ AwaitLink c'.calls c'.s) ∨
    (s.online = true ∧ ∃ a d, s.st = .awaitData a d ∧
       ((∃ t, validReplyB s.p.address a t = true ∧ c'.calls = [.reply s.nextApp a t] ∧ c'.s.st = .useToken d true) ∨
        (∃ new, c'.calls = .timeout s.nextApp a :: new ∧ AskRun new ∧ AwaitLink new c'.s))) := by
  rcases poll_cases s apps now phy rx c' h with ⟨hoff, hst, rfl⟩ | ⟨hon, rfl⟩ | ⟨hon, hd⟩
  · exact .inl ⟨rfl, fun a d h => ⟨h, rfl⟩⟩
  · refine .inl ⟨rfl, fun a d h => ?_⟩
    rcases wake_cases s with hw | ⟨hw, -⟩
    · rw [hw] at h ⊢; exact ⟨by simpa using h, by simp⟩
    · rw [hw] at h; simp at h
  · -- quiet handlers: no callbacks, and they never end in AwaitDataResponse
    have quiet : ∀ {c0 : Ctx} {P : Nat → UseData → Prop}, c0.calls = [] → Quiet c0 c' → (∀ a d, c'.s.st ≠ .awaitData a d) →
        (c'.calls = [] ∧ (∀ a d, c'.s.st = .awaitData a d → P a d)) := by
      intro c0 P h0 hq hne
      exact ⟨by rw [hq.calls, h0], fun a d h => absurd h (hne a d)⟩
    rcases wake_cases s with hw | ⟨hw, -⟩
    · rw [hw] at hd
      cases hst : s.st with
      | offline => exact absurd (by simpa using hst) hd.awake.1
      | passiveIdle => exact absurd (by simpa using hst) hd.awake.2
      | listenToken sr coll =>
        obtain ⟨hq, -, hs⟩ := hd.listen sr coll (by simpa using hst)
        refine .inl (quiet rfl hq ?_)
        intro a d h
        rcases hs with ⟨-, _, _, h'⟩ | ⟨-, h'⟩ | ⟨-, h', -⟩ | ⟨-, h' | h'⟩ <;> rw [h'] at h <;> cases h
      | activeIdle sr np coll =>
        obtain ⟨hq, -, -, hs⟩ := hd.idle sr np coll (by simpa using hst)
        refine .inl (quiet rfl hq ?_)
        intro a d h
        rcases hs with ⟨_, _, _, h'⟩ | ⟨_, _, h'⟩ | (h' | h') | ⟨-, _, _, _, _, _, -, -, -, -, h'⟩ <;> rw [h'] at h <;> cases h
      | claimToken step =>
        obtain ⟨hq, -, -, hs⟩ := hd.claim step (by simpa using hst)
        refine .inl (quiet rfl hq ?_)
        intro a d h
        rcases hs with ⟨_, h'⟩ | h' | h' <;> rw [h'] at h <;> cases h
      | passToken g att =>
        obtain ⟨hq, -, hs⟩ := hd.pass g att (by simpa using hst)
        refine .inl (quiet rfl hq ?_)
        intro a d h
        rcases hs with ⟨h', -⟩ | ⟨-, ⟨_, h'⟩, -⟩ | ⟨-, h' | h', -⟩ <;> rw [h'] at h <;> cases h
      | checkTokenPass att =>
        obtain ⟨hq, -, hs⟩ := hd.check att (by simpa using hst)
        refine .inl (quiet rfl hq ?_)
        intro a d h
        rcases hs with ⟨-, _, _, -, ⟨h', -⟩ | ⟨-, h' | h', -⟩⟩ |
          ⟨-, _, _, _, -, ⟨-, h', -⟩ | ⟨-, -, -, ⟨_, _, _, h'⟩ | ⟨_, _, h'⟩ | ⟨_, _, _, -, -, -, -, h'⟩⟩⟩ <;> rw [h'] at h <;> cases h
      | awaitStatus a0 =>
        obtain ⟨hq, -, -, hs⟩ := hd.status a0 (by simpa using hst)
        refine .inl (quiet rfl hq ?_)
        intro a d h
        rcases hs with h' | h' | h' | h' | h' <;> rw [h'] at h <;> cases h
      | useToken d fcd =>
        obtain ⟨new, hc, har, -, -, -, htail⟩ := hd.use d fcd (by simpa using hst)
        have hc' : c'.calls = new := by simpa using hc
        refine .inr (.inl ⟨hon, ⟨d, fcd, rfl⟩, by rw [hc']; exact har, ?_⟩)
        rw [hc']
        exact htail.link
      | awaitData a d =>
        obtain ⟨-, -, -, hcase⟩ := hd.await a d (by simpa using hst)
        rcases hcase with ⟨hc, hs, hn, -⟩ | ⟨t, hv, hc, hs, -⟩ | ⟨hc, hs, -⟩ | ⟨new, hc, har, htail⟩
        · refine .inl ⟨by simpa using hc, fun a' d' h => ?_⟩
          rw [hs] at h; cases h
          exact ⟨rfl, by simpa using hn⟩
        · exact .inr (.inr ⟨hon, a, d, rfl, .inl ⟨t, by simpa using hv, by simpa using hc, hs⟩⟩)
        · refine .inl ⟨by simpa using hc, fun a' d' h => ?_⟩
          rw [hs] at h; cases h
        · exact .inr (.inr ⟨hon, a, d, rfl, .inr ⟨new, by simpa using hc, har, htail.link⟩⟩)
    · rw [hw] at hd
      obtain ⟨hq, -, hs⟩ := hd.listen none 0 (by simp)
      refine .inl (quiet rfl hq ?_)
      intro a d h
      rcases hs with ⟨-, _, _, h'⟩ | ⟨-, h'⟩ | ⟨-, h', -⟩ | ⟨-, h' | h'⟩ <;> rw [h'] at h <;> cases h


/-- Parameters and the number of applications never change in a poll. -/
theorem poll_frame (s : Station) (apps : Apps) (now : Int) (phy : Bool) (rx : Bytes) (c' : Ctx)
    (h : s.poll apps now phy rx = .ok c') : c'.s.p = s.p ∧ c'.apps.length = apps.length := by
  rcases poll_cases s apps now phy rx c' h with ⟨hoff, hst, rfl⟩ | ⟨hon, rfl⟩ | ⟨hon, hd⟩
  · exact ⟨rfl, rfl⟩
  · exact ⟨by simp, rfl⟩
  · have quiet : ∀ {c0 : Ctx}, c0.s.p = s.p → c0.apps = apps → Quiet c0 c' → c'.s.p = s.p ∧ c'.apps.length = apps.length := by
      intro c0 e1 e2 hq
      exact ⟨hq.p.trans e1, by rw [hq.apps, e2]⟩
    rcases wake_cases s with hw | ⟨hw, -⟩
    · rw [hw] at hd
      cases hst : s.st with
      | offline => exact absurd (by simpa using hst) hd.awake.1
      | passiveIdle => exact absurd (by simpa using hst) hd.awake.2
      | listenToken sr coll => exact quiet (by simp) rfl (hd.listen sr coll (by simpa using hst)).1
      | activeIdle sr np coll => exact quiet (by simp) rfl (hd.idle sr np coll (by simpa using hst)).1
      | claimToken step => exact quiet (by simp) rfl (hd.claim step (by simpa using hst)).1
      | passToken g att => exact quiet (by simp) rfl (hd.pass g att (by simpa using hst)).1
      | checkTokenPass att => exact quiet (by simp) rfl (hd.check att (by simpa using hst)).1
      | awaitStatus a0 => exact quiet (by simp) rfl (hd.status a0 (by simpa using hst)).1
      | useToken d fcd =>
        obtain ⟨new, -, -, hp, -, hl, -⟩ := hd.use d fcd (by simpa using hst)
        exact ⟨by simpa using hp, by simpa using hl⟩
      | awaitData a d =>
        obtain ⟨hp, -, hl, -⟩ := hd.await a d (by simpa using hst)
        exact ⟨by simpa using hp, by simpa using hl⟩
    · rw [hw] at hd
      exact quiet (by simp) rfl (hd.listen none 0 (by simp)).1

/-- The slot time has expired at this poll: evaluated, as `do_check_token_pass` does, after
`check_for_bus_activity` has registered newly pending bytes. -/
def SlotExpired (s : Station) (now : Int) (rx : Bytes) : Prop :=
  (checkSlotExpired (checkBusActivity s now rx.length) now).2 = true

/-- An expired slot means silence: no new byte has become pending since the last poll, and the last
registered bus activity lies more than a slot time back. -/
theorem slotExpired_silent (s : Station) (now : Int) (rx : Bytes) (h : SlotExpired s now rx) :
    rx.length ≤ s.pendingBytes ∧ ∃ l, s.lastBusActivity = some l ∧ l + (s.p.slotTime : Nat) < now := by
  unfold SlotExpired checkSlotExpired at h
  by_cases hp : rx.length > s.pendingBytes
  · exfalso
    simp only [checkBusActivity, hp, if_true, markBusActivity, getOrInsertLast, decide_eq_true_eq] at h
    have : now ≤ max (s.lastBusActivity.getD now) now := Int.le_max_right _ _
    omega
  · refine ⟨by omega, ?_⟩
    simp only [checkBusActivity, hp, if_false] at h
    cases hl : s.lastBusActivity with
    | none => simp only [getOrInsertLast, hl, decide_eq_true_eq] at h; omega
    | some l =>
      simp only [getOrInsertLast, hl, decide_eq_true_eq] at h
      exact ⟨l, rfl, by omega⟩

/-- The ring view across one poll: it evolves without any `remove_station` (witnessed passes, GAP
successor, claim, reset) — except in a poll that starts in `CheckTokenPass` on the THIRD attempt with
the slot time expired, where exactly NS is removed (and then the pass to the new NS is witnessed). -/
theorem poll_ring (s : Station) (apps : Apps) (now : Int) (phy : Bool) (rx : Bytes) (c' : Ctx)
    (h : s.poll apps now phy rx = .ok c') :
    RingEvo s.p.address s.ring c'.s.ring ∨
    (s.online = true ∧ s.st = .checkTokenPass .third ∧ SlotExpired s now rx ∧
      ∃ r0, s.ring.removeStation s.ring.ns = some r0 ∧
        (c'.s.ring = r0 ∨ c'.s.ring = r0.witness s.p.address r0.ns)) := by
  rcases poll_cases s apps now phy rx c' h with ⟨hoff, hst, rfl⟩ | ⟨hon, rfl⟩ | ⟨hon, hd⟩
  · exact .inl (.refl _)
  · exact .inl (.of_eq (by simp))
  · rcases wake_cases s with hw | ⟨hw, -⟩
    · rw [hw] at hd
      cases hst : s.st with
      | offline => exact absurd (by simpa using hst) hd.awake.1
      | passiveIdle => exact absurd (by simpa using hst) hd.awake.2
      | listenToken sr coll => exact .inl (by simpa using (hd.listen sr coll (by simpa using hst)).2.1)
      | activeIdle sr np coll => exact .inl (by simpa using (hd.idle sr np coll (by simpa using hst)).2.2.1)
      | claimToken step => exact .inl (by simpa using (hd.claim step (by simpa using hst)).2.2.1)
      | passToken g att => exact .inl (by simpa using (hd.pass g att (by simpa using hst)).ringEvo)
      | awaitStatus a0 => exact .inl (by simpa using (hd.status a0 (by simpa using hst)).2.2.1)
      | useToken d fcd =>
        obtain ⟨new, -, -, -, -, -, htail⟩ := hd.use d fcd (by simpa using hst)
        exact .inl (by simpa using htail.ringEvo)
      | awaitData a d =>
        obtain ⟨-, -, -, hcase⟩ := hd.await a d (by simpa using hst)
        rcases hcase with ⟨-, -, -, hr⟩ | ⟨t, -, -, -, hr⟩ | ⟨-, -, hr⟩ | ⟨new, -, -, htail⟩
        · exact .inl (.of_eq (by simpa using hr))
        · exact .inl (.of_eq (by simpa using hr))
        · exact .inl (.of_eq (by simpa using hr))
        · exact .inl (by simpa using htail.ringEvo)
      | checkTokenPass att =>
        obtain ⟨-, -, hcase⟩ := hd.check att (by simpa using hst)
        rcases hcase with ⟨hex, r0, att', hrs, hpost⟩ | ⟨-, rx', calls, ret, -, hpost⟩
        · rcases hrs with ⟨-, -, hr0⟩ | ⟨-, -, hr0⟩ | ⟨hatt, -, hr0⟩
          · left
            simp only [checkBA_ring, checkBA_p] at hr0 hpost
            rcases hpost with ⟨-, hr, -⟩ | ⟨hr, -⟩
            · exact .of_eq (by rw [hr, hr0])
            · rw [hr, hr0]; exact .witness _ _ (.refl _)
          · left
            simp only [checkBA_ring, checkBA_p] at hr0 hpost
            rcases hpost with ⟨-, hr, -⟩ | ⟨hr, -⟩
            · exact .of_eq (by rw [hr, hr0])
            · rw [hr, hr0]; exact .witness _ _ (.refl _)
          · right
            simp only [checkBA_ring, checkBA_p] at hr0 hpost
            refine ⟨hon, by rw [hatt], hex, r0, hr0, ?_⟩
            rcases hpost with ⟨-, hr, -⟩ | ⟨hr, -⟩
            · exact .inl hr
            · exact .inr hr
        · left
          rcases hpost with ⟨-, -, hr, -⟩ | ⟨-, hev, -⟩
          · exact .of_eq (by simpa using hr)
          · simpa using hev.ringEvo
    · rw [hw] at hd
      exact .inl (by simpa using (hd.listen none 0 (by simp)).2.1)

/-! ## Call sequences with their callback log -/

namespace C05

/-- One API call together with the application callbacks it made. -/
def World.stepLog (w : World) : ApiCall → Option (World × List AppCall)
  | .poll now phyTx arrived =>
    match w.s.poll w.apps now phyTx (w.rx ++ arrived) with
    | .ok c => some ({ s := c.s, apps := c.apps, rx := c.rx }, c.calls)
    | .panic _ => none
  | .setOnline => some ({ w with s := w.s.setOnline }, [])
  | .setOffline => some ({ w with s := w.s.setOffline }, [])

/-- Run a call sequence and concatenate the callbacks of all calls (the application call log). -/
def World.runLog (w : World) : List ApiCall → Option (World × List AppCall)
  | [] => some (w, [])
  | a :: rest =>
    match w.stepLog a with
    | some (w', l1) =>
      match w'.runLog rest with
      | some (w'', l2) => some (w'', l1 ++ l2)
      | none => none
    | none => none

/-- `stepLog` is `step` plus the log. -/
theorem stepLog_of_step {w w' : World} {a : ApiCall} (h : w.step a = some w') : ∃ l, w.stepLog a = some (w', l) := by
  cases a with
  | poll now phy arrived =>
    simp only [World.step] at h
    simp only [World.stepLog]
    split at h
    · rename_i c hc
      cases h
      exact ⟨c.calls, by rw [hc]⟩
    · cases h
  | setOnline => cases h; exact ⟨[], rfl⟩
  | setOffline => cases h; exact ⟨[], rfl⟩

theorem step_of_stepLog {w w' : World} {a : ApiCall} {l : List AppCall} (h : w.stepLog a = some (w', l)) : w.step a = some w' := by
  cases a with
  | poll now phy arrived =>
    simp only [World.stepLog] at h
    simp only [World.step]
    split at h
    · rename_i c hc
      cases h
      rw [hc]
    · cases h
  | setOnline => cases h; rfl
  | setOffline => cases h; rfl

/-- Under the station invariant the logged run never fails either. -/
theorem runLog_total : ∀ (calls : List ApiCall) (w : World), Inv w.s w.apps →
    ∃ w' log, w.runLog calls = some (w', log) ∧ Inv w'.s w'.apps := by
  intro calls
  induction calls with
  | nil => intro w hw; exact ⟨w, [], rfl, hw⟩
  | cons a rest ih =>
    intro w hw
    obtain ⟨w1, h1, hi1, -⟩ := inv_step w a hw
    obtain ⟨l1, hl1⟩ := stepLog_of_step h1
    obtain ⟨w2, l2, h2, hi2⟩ := ih w1 hi1
    exact ⟨w2, l1 ++ l2, by simp only [World.runLog, hl1, h2], hi2⟩

/-- Every state reached by a call sequence from a fresh station satisfies the invariant, and the next
call does not panic. -/
theorem reach_step (p : Params) (apps : Apps) (h1 : p.address < p.hsa) (h2 : p.hsa ≤ 126) (hs : ScriptsOk apps)
    (pre : List ApiCall) (a : ApiCall) :
    ∃ w w' l, World.run { s := Station.new p, apps := apps, rx := [] } pre = some w ∧ Inv w.s w.apps ∧
      w.stepLog a = some (w', l) := by
  obtain ⟨w, hw, hi⟩ := poll_never_panics p apps h1 h2 hs pre
  obtain ⟨w', hw', -, -⟩ := inv_step w a hi
  obtain ⟨l, hl⟩ := stepLog_of_step hw'
  exact ⟨w, w', l, hw, hi, hl⟩

end C05

end PV
