/-
Stage lemmas for `interp_faithful`: what `run` does on each part of `astOf d`.
-/
import ProfiVerif.Lemmas.GsdLex
import ProfiVerif.Lemmas.Gsd

namespace PV.Gsd
open Res

/-! ### Sequencing -/

theorem run_cons_ok {st st' : St} {s : Stmt} {rest : Ast} (h : doStmt st s = .ok st') :
    run st (s :: rest) = run st' rest := by
  simp [run, h]

theorem run_append (st : St) (a b : Ast) : run st (a ++ b) = (run st a >>= fun st' => run st' b) := by
  induction a generalizing st with
  | nil => simp [run]
  | cons s rest ih =>
    simp only [List.cons_append, run]
    cases doStmt st s with
    | ok st' => simp [ih]
    | err e => simp
    | panic => simp

theorem run_append_ok {st st' : St} {a b : Ast} (h : run st a = .ok st') : run st (a ++ b) = run st' b := by
  rw [run_append, h]; rfl

/-! ### Association lists -/

def keys {κ α : Type} (m : List (κ × α)) : List κ := m.map (·.1)

theorem assocInsert_new {κ α : Type} [DecidableEq κ] (k : κ) (v : α) (m : List (κ × α)) (h : k ∉ keys m) :
    assocInsert k v m = m ++ [(k, v)] := by
  induction m with
  | nil => rfl
  | cons kv rest ih =>
    obtain ⟨k', v'⟩ := kv
    simp only [keys, List.map_cons, List.mem_cons, not_or] at h
    simp only [assocInsert, List.cons_append]
    rw [if_neg (fun e => h.1 e.symm), ih h.2]

theorem assocGet_insert_self {κ α : Type} [DecidableEq κ] (k : κ) (v : α) (m : List (κ × α)) :
    assocGet k (assocInsert k v m) = some v := by
  induction m with
  | nil => simp [assocInsert, assocGet]
  | cons kv rest ih =>
    obtain ⟨k', v'⟩ := kv
    simp only [assocInsert]
    split
    · simp [assocGet]
    · rename_i hne
      simp [assocGet, hne, ih]

theorem assocGet_insert_ne {κ α : Type} [DecidableEq κ] (k j : κ) (v : α) (m : List (κ × α)) (h : j ≠ k) :
    assocGet j (assocInsert k v m) = assocGet j m := by
  induction m with
  | nil => simp [assocInsert, assocGet, Ne.symm h]
  | cons kv rest ih =>
    obtain ⟨k', v'⟩ := kv
    simp only [assocInsert]
    split
    · rename_i he
      subst he
      simp [assocGet, Ne.symm h]
    · simp only [assocGet]
      split
      · rfl
      · exact ih

theorem assocGet_none_of_not_mem {κ α : Type} [DecidableEq κ] (k : κ) (m : List (κ × α)) (h : k ∉ keys m) :
    assocGet k m = none := by
  induction m with
  | nil => rfl
  | cons kv rest ih =>
    obtain ⟨k', v'⟩ := kv
    simp only [keys, List.map_cons, List.mem_cons, not_or] at h
    simp only [assocGet]
    rw [if_neg (fun e => h.1 e.symm)]
    exact ih h.2

theorem assocGet_append_self {κ α : Type} [DecidableEq κ] (k : κ) (v : α) (m : List (κ × α)) (h : k ∉ keys m) :
    assocGet k (m ++ [(k, v)]) = some v := by
  induction m with
  | nil => simp [assocGet]
  | cons kv rest ih =>
    obtain ⟨k', v'⟩ := kv
    simp only [keys, List.map_cons, List.mem_cons, not_or] at h
    simp only [List.cons_append, assocGet]
    rw [if_neg (fun e => h.1 e.symm)]
    exact ih h.2

theorem assocInsert_append_self {κ α : Type} [DecidableEq κ] (k : κ) (v w : α) (m : List (κ × α)) (h : k ∉ keys m) :
    assocInsert k w (m ++ [(k, v)]) = m ++ [(k, w)] := by
  induction m with
  | nil => simp [assocInsert]
  | cons kv rest ih =>
    obtain ⟨k', v'⟩ := kv
    simp only [keys, List.map_cons, List.mem_cons, not_or] at h
    simp only [List.cons_append, assocInsert]
    rw [if_neg (fun e => h.1 e.symm), ih h.2]

/-! ### Tokens written by the printer -/

theorem parseBool_boolTok (b : Bool) : parseBool (.num (boolTok b)) = .ok b := by
  cases b <;> simp [parseBool, parseNumber, boolTok, parseTok_decTok, u32Max]

theorem parseBoolTok_boolTok (b : Bool) : parseBoolTok (boolTok b) = .ok b := by
  cases b <;> simp [parseBoolTok, boolTok, parseTok_decTok, u32Max]

theorem parseToks_decToks (max : Nat) (hm : max ≤ u32Max) (ns : List Nat) (h : ∀ n ∈ ns, n ≤ max) :
    parseToks max (ns.map decTok) = .ok ns := by
  induction ns with
  | nil => rfl
  | cons n rest ih =>
    simp only [List.map_cons, parseToks]
    rw [parseTok_decTok_ok (h n (by simp)) hm, ih fun m hm' => h m (by simp [hm'])]
    rfl

theorem parseSignedToks_intToks (vs : List Int) (h : ∀ v ∈ vs, I64 v) :
    parseSignedToks (vs.map intTok) = .ok vs := by
  induction vs with
  | nil => rfl
  | cons v rest ih =>
    simp only [List.map_cons, parseSignedToks]
    rw [parseSignedTok_intTok (h v (by simp)), ih fun m hm' => h m (by simp [hm'])]
    rfl

/-! ### Stage 1: scalar settings -/

theorem doStmt_setNum (st : St) (key : String) (max : Nat) (f : Desc → Nat → Desc) (n : Nat)
    (h1 : strSetter (lower key.toList) = none) (h2 : numSetter (lower key.toList) = some (max, f))
    (hm : max ≤ u32Max) (hn : n ≤ max) :
    doStmt st (setNum key n) = .ok { st with gsd := f st.gsd n } := by
  simp [doStmt, setNum, doSetting, h1, h2, Setting.first, parseNumber, parseTok_decTok_ok hn hm]

theorem doStmt_setStr (st : St) (key : String) (f : Desc → Str → Desc) (v : Str)
    (h1 : strSetter (lower key.toList) = some f) (hv : Clean v) :
    doStmt st (setStr key v) = .ok { st with gsd := f st.gsd v } := by
  simp [doStmt, setStr, doSetting, h1, Setting.first, parseStr_quote hv]

theorem doStmt_setBool (st : St) (key : String) (f : Desc → Bool → Desc) (b : Bool)
    (h1 : strSetter (lower key.toList) = none) (h2 : numSetter (lower key.toList) = none)
    (h3 : boolSetter (lower key.toList) = some f) :
    doStmt st (setBool key b) = .ok { st with gsd := f st.gsd b } := by
  simp [doStmt, setBool, doSetting, h1, h2, h3, Setting.first, parseBool_boolTok]

theorem doStmt_modular (st : St) (b : Bool) :
    doStmt st (setBool "Modular_Station" b) =
      .ok { st with modularSeen := true, gsd := { st.gsd with modularStation := b } } := by
  have h1 : strSetter (lower "Modular_Station".toList) = none := rfl
  have h2 : numSetter (lower "Modular_Station".toList) = none := rfl
  have h3 : boolSetter (lower "Modular_Station".toList) = none := rfl
  have hk : lower "Modular_Station".toList = "modular_station".toList := rfl
  simp only [doStmt, setBool, doSetting, h1, h2, h3]
  rw [hk]
  simp [specialSetting, Setting.first, parseBool_boolTok]

theorem doStmt_maxModule (st : St) (n : Nat) (hn : n ≤ 255) :
    doStmt st (setNum "Max_Module" n) =
      .ok { st with maxModulesSeen := true, gsd := { st.gsd with maxModules := n } } := by
  have h1 : strSetter (lower "Max_Module".toList) = none := rfl
  have h2 : numSetter (lower "Max_Module".toList) = none := rfl
  have h3 : boolSetter (lower "Max_Module".toList) = none := rfl
  have hk : lower "Max_Module".toList = "max_module".toList := rfl
  have hne : ("max_module".toList = "modular_station".toList) = False := by decide
  simp only [doStmt, setNum, doSetting, h1, h2, h3]
  rw [hk]
  simp [specialSetting, hne, Setting.first, parseNumber, parseTok_decTok_ok (max := u8Max) hn (by decide)]

/-- Bounds and string conditions of the scalar part. -/
structure ScalarsOk (d : Desc) : Prop where
  gsdRevision : d.gsdRevision ≤ 255
  revisionNumber : d.revisionNumber ≤ 255
  identNumber : d.identNumber ≤ 65535
  maxDiag : d.maxDiagDataLength ≤ 255
  maxModules : d.maxModules ≤ 255
  maxIn : d.maxInputLength ≤ 255
  maxOut : d.maxOutputLength ≤ 255
  maxData : d.maxDataLength ≤ 65535
  t0 : d.maxTsdr.b9600 ≤ 65535
  t1 : d.maxTsdr.b19200 ≤ 65535
  t2 : d.maxTsdr.b31250 ≤ 65535
  t3 : d.maxTsdr.b45450 ≤ 65535
  t4 : d.maxTsdr.b93750 ≤ 65535
  t5 : d.maxTsdr.b187500 ≤ 65535
  t6 : d.maxTsdr.b500000 ≤ 65535
  t7 : d.maxTsdr.b1500000 ≤ 65535
  t8 : d.maxTsdr.b3000000 ≤ 65535
  t9 : d.maxTsdr.b6000000 ≤ 65535
  t10 : d.maxTsdr.b12000000 ≤ 65535
  vendor : Clean d.vendor
  model : Clean d.model
  revision : Clean d.revision
  hardware : Clean d.hardwareRelease
  software : Clean d.softwareRelease
  implementation : Clean d.implementationType

/-- The scalar fields of `d`, everything else as after `Default::default()`. -/
def scalarsOf (d : Desc) : Desc :=
  { d with availableModules := [], slots := [], userPrmData := {}, diagBits := [], diagNotBits := [], diagAreas := [] }

theorem run_scalars (d : Desc) (h : ScalarsOk d) :
    run {} (scalarStmts d) = .ok { gsd := scalarsOf d, maxModulesSeen := true, modularSeen := true } := by
  unfold scalarStmts
  rw [run_cons_ok (doStmt_setNum _ _ _ _ _ rfl rfl (by decide) h.gsdRevision)]
  rw [run_cons_ok (doStmt_setStr _ _ _ _ rfl h.vendor)]
  rw [run_cons_ok (doStmt_setStr _ _ _ _ rfl h.model)]
  rw [run_cons_ok (doStmt_setStr _ _ _ _ rfl h.revision)]
  rw [run_cons_ok (doStmt_setNum _ _ _ _ _ rfl rfl (by decide) h.revisionNumber)]
  rw [run_cons_ok (doStmt_setNum _ _ _ _ _ rfl rfl (by decide) h.identNumber)]
  rw [run_cons_ok (doStmt_setStr _ _ _ _ rfl h.hardware)]
  rw [run_cons_ok (doStmt_setStr _ _ _ _ rfl h.software)]
  rw [run_cons_ok (doStmt_setStr _ _ _ _ rfl h.implementation)]
  rw [run_cons_ok (doStmt_setBool _ _ _ _ rfl rfl rfl)]
  rw [run_cons_ok (doStmt_setBool _ _ _ _ rfl rfl rfl)]
  rw [run_cons_ok (doStmt_setBool _ _ _ _ rfl rfl rfl)]
  rw [run_cons_ok (doStmt_setBool _ _ _ _ rfl rfl rfl)]
  rw [run_cons_ok (doStmt_setBool _ _ _ _ rfl rfl rfl)]
  rw [run_cons_ok (doStmt_setNum _ _ _ _ _ rfl rfl (by decide) h.maxDiag)]
  rw [run_cons_ok (doStmt_modular _ _)]
  rw [run_cons_ok (doStmt_maxModule _ _ h.maxModules)]
  rw [run_cons_ok (doStmt_setNum _ _ _ _ _ rfl rfl (by decide) h.maxIn)]
  rw [run_cons_ok (doStmt_setNum _ _ _ _ _ rfl rfl (by decide) h.maxOut)]
  rw [run_cons_ok (doStmt_setNum _ _ _ _ _ rfl rfl (by decide) h.maxData)]
  rw [run_cons_ok (doStmt_setBool _ _ _ _ rfl rfl rfl)]
  rw [run_cons_ok (doStmt_setBool _ _ _ _ rfl rfl rfl)]
  rw [run_cons_ok (doStmt_setBool _ _ _ _ rfl rfl rfl)]
  rw [run_cons_ok (doStmt_setBool _ _ _ _ rfl rfl rfl)]
  rw [run_cons_ok (doStmt_setBool _ _ _ _ rfl rfl rfl)]
  rw [run_cons_ok (doStmt_setBool _ _ _ _ rfl rfl rfl)]
  rw [run_cons_ok (doStmt_setBool _ _ _ _ rfl rfl rfl)]
  rw [run_cons_ok (doStmt_setBool _ _ _ _ rfl rfl rfl)]
  rw [run_cons_ok (doStmt_setBool _ _ _ _ rfl rfl rfl)]
  rw [run_cons_ok (doStmt_setBool _ _ _ _ rfl rfl rfl)]
  rw [run_cons_ok (doStmt_setBool _ _ _ _ rfl rfl rfl)]
  rw [run_cons_ok (doStmt_setNum _ _ _ _ _ rfl rfl (by decide) h.t0)]
  rw [run_cons_ok (doStmt_setNum _ _ _ _ _ rfl rfl (by decide) h.t1)]
  rw [run_cons_ok (doStmt_setNum _ _ _ _ _ rfl rfl (by decide) h.t2)]
  rw [run_cons_ok (doStmt_setNum _ _ _ _ _ rfl rfl (by decide) h.t3)]
  rw [run_cons_ok (doStmt_setNum _ _ _ _ _ rfl rfl (by decide) h.t4)]
  rw [run_cons_ok (doStmt_setNum _ _ _ _ _ rfl rfl (by decide) h.t5)]
  rw [run_cons_ok (doStmt_setNum _ _ _ _ _ rfl rfl (by decide) h.t6)]
  rw [run_cons_ok (doStmt_setNum _ _ _ _ _ rfl rfl (by decide) h.t7)]
  rw [run_cons_ok (doStmt_setNum _ _ _ _ _ rfl rfl (by decide) h.t8)]
  rw [run_cons_ok (doStmt_setNum _ _ _ _ _ rfl rfl (by decide) h.t9)]
  rw [run_cons_ok (doStmt_setNum _ _ _ _ _ rfl rfl (by decide) h.t10)]
  cases d with
  | mk _ _ _ _ _ _ _ _ _ _ _ _ _ _ _ _ _ _ _ _ speeds tsdr _ _ _ _ _ _ =>
    cases speeds
    cases tsdr
    rfl

end PV.Gsd
