/-
The canonical AST `astOf d` of a description is a list of canonical statements (`StmtCanon`) — under
`DescCanon d`: no quotation mark inside strings, byte lists of at least two entries, non-empty module
configurations / slot module sets / text tables / enumerations — so its canonical text is read back
(`parse (renderAst (astOf d)) = interp (astOf d)`).
-/
import ProfiVerif.Lemmas.PegTextCheck

namespace PV.Gsd.Peg
open PV.Gsd

theorem numCanon_decTok (n : Nat) : NumCanon (decTok n) := decText_natText n

theorem natCanon_decTok (n : Nat) : NatCanon (decTok n) := by
  obtain ⟨d, ds, h, hd⟩ := decText_natText n
  rcases h with h | h
  · exact ⟨d, ds, by simp [decTok, h], hd⟩
  · -- `natText` never starts with a minus sign
    have := natText_digits n '-' (by rw [h]; simp)
    obtain ⟨k, hk, hc⟩ := this
    exact absurd (hc ▸ digitChar_isDigit k hk) (by decide)

theorem numCanon_intTok (z : Int) : NumCanon (intTok z) := by
  unfold intTok intText
  split
  · obtain ⟨d, ds, h, hd⟩ := natCanon_decTok z.natAbs
    simp only [decTok, NumTok.dec.injEq] at h
    exact ⟨d, ds, .inr (by rw [h]), hd⟩
  · exact decText_natText _

theorem numCanon_boolTok (b : Bool) : NumCanon (boolTok b) := decText_natText _

theorem strCanon_quote {s : Str} (h : NoQuote s) : StrCanon (quote s) := ⟨s, rfl, h⟩

theorem lineCanon_idx_str {key : String} (hk : keyOkB key.toList = true) (n : Nat) {s : Str} (hs : NoQuote s) :
    LineCanon { key := key.toList, index := some (decTok n), value := .str (quote s) } :=
  ⟨⟨(keyOk_of_B hk).1, ⟨(by intro m hm; cases hm; exact numCanon_decTok n), strCanon_quote hs⟩⟩, (keyOk_of_B hk).2⟩

theorem settingCanon_const (c : Nat × List Nat) (hc : 2 ≤ c.2.length) :
    LineCanon { key := "Ext_User_Prm_Data_Const".toList, index := some (decTok c.1), value := .list (c.2.map decTok) } :=
  have hk := keyOk_of_B (show keyOkB "Ext_User_Prm_Data_Const".toList = true by decide)
  ⟨⟨hk.1, ⟨(by intro m hm; cases hm; exact numCanon_decTok _),
    ⟨by simpa using hc, by intro n hn; obtain ⟨k, _, rfl⟩ := List.mem_map.mp hn; exact numCanon_decTok k⟩⟩⟩, hk.2⟩

theorem constSettings_canon (cs : List (Nat × List Nat)) (h : ∀ c ∈ cs, 2 ≤ c.2.length) :
    ∀ s ∈ constSettings cs, LineCanon s := by
  intro s hs
  obtain ⟨c, hc, rfl⟩ := List.mem_map.mp hs
  exact settingCanon_const c (h c hc)

theorem refSettings_canon : ∀ (id : Nat) (rs : List (Nat × PrmDef)), ∀ s ∈ refSettings id rs, LineCanon s
  | _, [], s, hs => by cases hs
  | id, r :: rs, s, hs => by
    simp only [refSettings, List.mem_cons] at hs
    rcases hs with rfl | hs
    · have hk := keyOk_of_B (show keyOkB "Ext_User_Prm_Data_Ref".toList = true by decide)
      exact ⟨⟨hk.1, ⟨(by intro m hm; cases hm; exact numCanon_decTok _), numCanon_decTok id⟩⟩, hk.2⟩
    · exact refSettings_canon (id + 1) rs s hs

/-! ### Parameter definitions -/

structure DefCanon (f : PrmDef) : Prop where
  name : NoQuote f.name
  enum : ∀ vs, f.constraint = .enum vs → vs ≠ []
  texts : ∀ m, f.textRef = some m → m ≠ [] ∧ ∀ kv ∈ m, NoQuote kv.1

theorem typeCanon_typeNameOf (t : DataType) : TypeCanon (typeNameOf t) := by
  cases t with
  | bit n => exact numCanon_decTok n
  | bitArea a b => exact ⟨numCanon_decTok a, numCanon_decTok b⟩
  | u8 => exact ⟨keyChars_of_B (key := "Unsigned8".toList) (by decide), by decide, by decide⟩
  | u16 => exact ⟨keyChars_of_B (key := "Unsigned16".toList) (by decide), by decide, by decide⟩
  | u32 => exact ⟨keyChars_of_B (key := "Unsigned32".toList) (by decide), by decide, by decide⟩
  | i8 => exact ⟨keyChars_of_B (key := "Signed8".toList) (by decide), by decide, by decide⟩
  | i16 => exact ⟨keyChars_of_B (key := "Signed16".toList) (by decide), by decide, by decide⟩
  | i32 => exact ⟨keyChars_of_B (key := "Signed32".toList) (by decide), by decide, by decide⟩

theorem defStmts_canon (id : Nat) (f : PrmDef) (h : DefCanon f) : ∀ st ∈ defStmts id f, StmtCanon st := by
  intro st hst
  simp only [defStmts, List.mem_append, List.mem_singleton] at hst
  rcases hst with hst | rfl
  · cases hm : f.textRef with
    | none => simp [hm] at hst
    | some m =>
      simp only [hm, List.mem_singleton] at hst
      subst hst
      obtain ⟨hne, hq⟩ := h.texts m hm
      refine ⟨numCanon_decTok id, ?_, ?_⟩
      · simpa [textLines] using hne
      · intro l hl
        obtain ⟨kv, hkv, rfl⟩ := List.mem_map.mp hl
        exact ⟨numCanon_intTok _, strCanon_quote (hq kv hkv)⟩
  · refine ⟨numCanon_decTok id, strCanon_quote h.name, typeCanon_typeNameOf _, numCanon_intTok _, ?_, ?_, ?_, ?_⟩
    · cases hc : f.constraint with
      | unconstrained => trivial
      | minMax a b => exact ⟨numCanon_intTok a, numCanon_intTok b⟩
      | enum vs =>
        refine ⟨by simpa using h.enum vs hc, ?_⟩
        intro v hv
        obtain ⟨z, _, rfl⟩ := List.mem_map.mp hv
        exact numCanon_intTok z
    · intro n hn
      cases hm : f.textRef with
      | none => simp [hm] at hn
      | some m => simp only [hm, Option.map_some, Option.some.injEq] at hn; subst hn; exact numCanon_decTok id
    · intro n hn; cases hn; exact numCanon_boolTok _
    · intro n hn; cases hn; exact numCanon_boolTok _

theorem defsFrom_canon : ∀ (id : Nat) (fs : List PrmDef), (∀ f ∈ fs, DefCanon f) → ∀ st ∈ defsFrom id fs, StmtCanon st
  | _, [], _, st, hst => by cases hst
  | id, f :: fs, h, st, hst => by
    simp only [defsFrom, List.mem_append] at hst
    rcases hst with hst | hst
    · exact defStmts_canon id f (h f (List.mem_cons_self ..)) st hst
    · exact defsFrom_canon (id + 1) fs (fun g hg => h g (List.mem_cons_of_mem _ hg)) st hst

/-! ### Parameter blocks, modules, slots, diagnostics -/

def PrmCanon (p : UserPrmData) : Prop := ∀ c ∈ p.dataConst, 2 ≤ c.2.length

instance (p : UserPrmData) : Decidable (PrmCanon p) := by unfold PrmCanon; infer_instance

theorem lineCanon_setNum (key : String) (hk : keyOkB key.toList = true) (n : Nat) : StmtCanon (setNum key n) :=
  lineCanon_num hk

theorem userPrmStmts_canon (p : UserPrmData) (h : PrmCanon p) : ∀ st ∈ userPrmStmts p, StmtCanon st := by
  intro st hst
  unfold userPrmStmts at hst
  split at hst
  · simp only [List.mem_cons, List.mem_map] at hst
    rcases hst with rfl | ⟨c, hc, rfl⟩
    · exact lineCanon_setNum _ (by decide) _
    · have hk := keyOk_of_B (show keyOkB "User_Prm_Data".toList = true by decide)
      exact ⟨⟨hk.1, ⟨(by intro m hm; cases hm), ⟨by simpa using h c hc,
        by intro n hn; obtain ⟨k, _, rfl⟩ := List.mem_map.mp hn; exact numCanon_decTok k⟩⟩⟩, hk.2⟩
  · simp only [List.mem_cons, List.mem_map, List.mem_append] at hst
    rcases hst with rfl | ⟨s, hs, rfl⟩
    · exact lineCanon_setNum _ (by decide) _
    · rcases hs with hs | hs
      · exact constSettings_canon _ h s hs
      · exact refSettings_canon _ _ s hs

structure ModCanon (m : Module) : Prop where
  name : NoQuote m.name
  config : m.config ≠ []
  info : ∀ t, m.infoText = some t → NoQuote t
  prm : PrmCanon m.prm

theorem itemsSettings_map (ss : List Setting) : itemsSettings (ss.map ModItem.setting) = ss := by
  induction ss with
  | nil => rfl
  | cons s ss ih => simp [itemsSettings, ih]

theorem itemsRef_settings (ss : List Setting) : itemsRef (ss.map ModItem.setting) = none := by
  cases ss <;> rfl

/-- The settings of a module in `astOf`, as a list. -/
def moduleSettings (id : Nat) (m : Module) : List Setting :=
  (match m.infoText with
   | some t => [{ key := "Info_Text".toList, index := none, value := .str (quote t) }]
   | none => []) ++
  [{ key := "Ext_Module_Prm_Data_Len".toList, index := none, value := .num (decTok m.prm.length) }] ++
  (constSettings m.prm.dataConst ++ refSettings id m.prm.dataRef)

def moduleRefItems (m : Module) : List ModItem :=
  match m.reference with
  | some r => [ModItem.reference (decTok r)]
  | none => []

def moduleAst (id : Nat) (m : Module) : ModuleStmt :=
  ⟨quote m.name, m.config.map decTok, moduleRefItems m ++ (moduleSettings id m).map ModItem.setting⟩

theorem moduleStmt_eq (id : Nat) (m : Module) : moduleStmt id m = .module (moduleAst id m) := by
  simp only [moduleStmt, moduleAst, moduleRefItems, moduleSettings]
  cases m.infoText <;> cases m.reference <;> simp

theorem moduleSettings_canon (id : Nat) (m : Module) (h : ModCanon m) : ∀ s ∈ moduleSettings id m, SettingCanon s := by
  intro s hs
  simp only [moduleSettings, List.mem_append, List.mem_singleton] at hs
  rcases hs with (hs | rfl) | hs | hs
  · cases ht : m.infoText with
    | none => simp [ht] at hs
    | some t =>
      simp only [ht, List.mem_singleton] at hs
      subst hs
      exact ⟨keyChars_of_B (key := "Info_Text".toList) (by decide), ⟨(by intro n hn; cases hn), strCanon_quote (h.info t ht)⟩⟩
  · exact ⟨keyChars_of_B (key := "Ext_Module_Prm_Data_Len".toList) (by decide), ⟨(by intro n hn; cases hn), numCanon_decTok _⟩⟩
  · exact (constSettings_canon _ h.prm s hs).1
  · exact (refSettings_canon _ _ s hs).1

theorem moduleStmt_canon (id : Nat) (m : Module) (h : ModCanon m) : StmtCanon (moduleStmt id m) := by
  rw [moduleStmt_eq]
  show ModuleCanon (moduleAst id m)
  have hss := moduleSettings_canon id m h
  unfold moduleAst
  refine ⟨strCanon_quote h.name, by simpa using h.config, ?_, ?_, ?_, ?_⟩
  · intro x hx
    obtain ⟨k, _, rfl⟩ := List.mem_map.mp hx
    exact numCanon_decTok k
  · simp only [moduleRefItems]
    cases m.reference with
    | none => simp [refItems, itemsRef_settings, itemsSettings_map]
    | some r => simp [refItems, itemsRef, itemsSettings, itemsSettings_map]
  · intro n hn
    simp only [moduleRefItems] at hn
    cases hr : m.reference with
    | none => simp [hr, itemsRef_settings] at hn
    | some r => simp only [hr, List.cons_append, List.nil_append, itemsRef, Option.some.injEq] at hn; subst hn; exact natCanon_decTok r
  · intro s hs
    simp only [moduleRefItems] at hs
    cases hr : m.reference with
    | none => rw [hr] at hs; simp only [List.nil_append, itemsSettings_map] at hs; exact hss s hs
    | some r => rw [hr] at hs; simp only [List.cons_append, List.nil_append, itemsSettings, itemsSettings_map] at hs; exact hss s hs

theorem moduleStmtsFrom_canon : ∀ (id : Nat) (ms : List Module), (∀ m ∈ ms, ModCanon m) →
    ∀ st ∈ moduleStmtsFrom id ms, StmtCanon st
  | _, [], _, st, hst => by cases hst
  | id, m :: ms, h, st, hst => by
    simp only [moduleStmtsFrom, List.mem_cons] at hst
    rcases hst with rfl | hst
    · exact moduleStmt_canon id m (h m (List.mem_cons_self ..))
    · exact moduleStmtsFrom_canon _ ms (fun k hk => h k (List.mem_cons_of_mem _ hk)) st hst

theorem bitStmts_canon (key helpKey : String) (hk : keyOkB key.toList = true) (hh : keyOkB helpKey.toList = true)
    (bits : List (Nat × BitInfo)) (h : ∀ b ∈ bits, NoQuote b.2.text ∧ ∀ t, b.2.help = some t → NoQuote t) :
    ∀ st ∈ bitStmts key helpKey bits, StmtCanon st := by
  intro st hst
  simp only [bitStmts, List.mem_flatMap, List.mem_cons] at hst
  obtain ⟨b, hb, hst⟩ := hst
  rcases hst with rfl | hst
  · exact lineCanon_idx_str hk _ (h b hb).1
  · cases hh' : b.2.help with
    | none => simp [hh'] at hst
    | some t =>
      simp only [hh', List.mem_singleton] at hst
      subst hst
      exact lineCanon_idx_str hh _ ((h b hb).2 t hh')

/-- What the description must satisfy beyond `Desc.WF` for its canonical text to be readable. -/
structure DescCanon (d : Desc) : Prop where
  scalars : ScalarsNoQuote d
  defs : ∀ f ∈ allDefs d, DefCanon f
  prm : PrmCanon d.userPrmData
  modules : ∀ m ∈ d.availableModules, ModCanon m
  slots : ∀ s ∈ d.slots, NoQuote s.name ∧ s.allowed ≠ []
  bits : ∀ b ∈ d.diagBits, NoQuote b.2.text ∧ ∀ t, b.2.help = some t → NoQuote t
  notBits : ∀ b ∈ d.diagNotBits, NoQuote b.2.text ∧ ∀ t, b.2.help = some t → NoQuote t
  areas : ∀ a ∈ d.diagAreas, a.values ≠ [] ∧ ∀ kv ∈ a.values, NoQuote kv.2

theorem scalarStmts_canon (d : Desc) (hq : ScalarsNoQuote d) : ∀ st ∈ scalarStmts d, StmtCanon st := by
  intro st hst
  rw [← scalarStmts_settings d] at hst
  obtain ⟨s, hs, rfl⟩ := List.mem_map.mp hst
  exact scalar_lines_canon d hq s hs

theorem astOf_canon (d : Desc) (h : DescCanon d) : ∀ st ∈ astOf d, StmtCanon st := by
  intro st hst
  simp only [astOf, List.mem_append, List.mem_singleton, List.mem_map] at hst
  rcases hst with ((((((hst | hst) | hst) | hst) | rfl) | hst) | hst) | ⟨a, ha, rfl⟩
  · exact scalarStmts_canon d h.scalars st hst
  · exact defsFrom_canon 0 _ h.defs st hst
  · exact userPrmStmts_canon _ h.prm st hst
  · exact moduleStmtsFrom_canon _ _ h.modules st hst
  · intro s hs
    obtain ⟨sl, hsl, rfl⟩ := List.mem_map.mp hs
    obtain ⟨hn, hne⟩ := h.slots sl hsl
    refine ⟨numCanon_decTok _, strCanon_quote hn, numCanon_decTok _, ?_, ?_⟩
    · simpa [slotStmt] using hne
    · intro v hv
      obtain ⟨i, _, rfl⟩ := List.mem_map.mp hv
      exact numCanon_decTok _
  · exact bitStmts_canon _ _ (by decide) (by decide) _ h.bits st hst
  · exact bitStmts_canon _ _ (by decide) (by decide) _ h.notBits st hst
  · obtain ⟨hne, hq⟩ := h.areas a ha
    refine ⟨numCanon_decTok _, numCanon_decTok _, by simpa [areaStmt, areaLines] using hne, ?_⟩
    intro l hl
    obtain ⟨kv, hkv, rfl⟩ := List.mem_map.mp hl
    exact ⟨numCanon_decTok _, strCanon_quote (hq kv hkv)⟩

end PV.Gsd.Peg
