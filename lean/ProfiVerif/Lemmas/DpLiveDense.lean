/-
Dense peripheral storage (`DpMaster::add` into an empty master: peripherals in slots `0 … n-1`, free slots
behind) and the `loop` of `transmit_telegram` over it (property C07, several peripherals).
-/
import ProfiVerif.Lemmas.DpLive

namespace PV.Live
open PV PV.Dp

def denseSlots (ps : List Peripheral) (k : Nat) : List (Option Peripheral) :=
  ps.map some ++ List.replicate k none

theorem firstFrom_dense_aux (k : Nat) : ∀ (ps : List Peripheral) (b index : Nat),
    firstFrom (denseSlots ps k) b index =
      (if h : max index b - b < ps.length then some (max index b, ps[max index b - b]) else none) := by
  intro ps
  induction ps with
  | nil =>
    intro b index
    simp only [denseSlots, List.map_nil, List.nil_append, List.length_nil, Nat.not_lt_zero, dite_false]
    induction k generalizing b with
    | zero => rfl
    | succ k ih => simp only [List.replicate, firstFrom]; split <;> exact ih _
  | cons p ps ih =>
    intro b index
    have hd : denseSlots (p :: ps) k = some p :: denseSlots ps k := rfl
    rw [hd]
    simp only [firstFrom]
    by_cases hb : b < index
    · rw [if_pos hb, ih]
      have h1 : max index (b + 1) = index := by omega
      have h2 : max index b = index := by omega
      rw [h1, h2]
      by_cases hl : index - (b + 1) < ps.length
      · rw [dif_pos hl, dif_pos (by simp only [List.length_cons]; omega)]
        congr 2
        have : index - b = (index - (b + 1)) + 1 := by omega
        simp only [this, List.getElem_cons_succ]
      · rw [dif_neg hl, dif_neg (by simp only [List.length_cons]; omega)]
    · rw [if_neg hb]
      have h2 : max index b = b := by omega
      simp [h2]

theorem firstFrom_dense (ps : List Peripheral) (k index : Nat) :
    firstFrom (denseSlots ps k) 0 index =
      (if h : index < ps.length then some (index, ps[index]) else none) := by
  rw [firstFrom_dense_aux]
  simp

theorem getAtIndex_dense {ps : List Peripheral} (k : Nat) {i : Nat} (hi : i < ps.length) (hn : ps.length ≤ 256) :
    getAtIndex (denseSlots ps k) i = .ok (some (i, ps[i])) := by
  simp only [getAtIndex, firstFrom_dense, hi, dite_true]
  rw [if_neg (by omega)]

theorem nextCycle_dense {ps : List Peripheral} (k : Nat) {i : Nat} (hi : i < ps.length) (hn : ps.length ≤ 256) :
    nextCycle (denseSlots ps k) i =
      .ok (if i + 1 < ps.length then (.dx (i + 1), false) else (.completed, true)) := by
  simp only [nextCycle, getNextIndex, firstFrom_dense, hi, dite_true]
  by_cases h1 : i + 1 < ps.length
  · simp only [h1, dite_true, if_true]
    rw [if_neg (by omega)]
  · simp only [h1, dite_false, if_false]

theorem set_dense {ps : List Peripheral} (k : Nat) {i : Nat} (hi : i < ps.length) (p' : Peripheral) :
    (denseSlots ps k).set i (some p') = denseSlots (ps.set i p') k := by
  unfold denseSlots
  rw [List.set_append_left _ _ (by simpa using hi), List.map_set]

/-- One iteration of the `loop` of `transmit_telegram` at slot `i` of a dense master. -/
theorem txLoop_dense_step {fp : FdlParams} {m : Master} {ps : List Peripheral} {k i : Nat}
    (hs : m.slots = denseSlots ps k) (hc : m.cycle = .dx i) (hi : i < ps.length) (hn : ps.length ≤ 256)
    (fuel : Nat) :
    Master.txLoop fp (fuel + 1) m =
      match ps[i].transmit fp m.op with
      | .panic => .panic
      | .send p' h pdu => .send { m with slots := denseSlots (ps.set i p') k, lastEvents := {} } h pdu
      | .decline p' (some ev) =>
        .none { m with slots := denseSlots (ps.set i p') k,
                       cycle := if i + 1 < ps.length then .dx (i + 1) else .dx 0,
                       lastEvents := { cycleCompleted := !decide (i + 1 < ps.length),
                                       peripheral := some { index := i, address := ps[i].address, ev := ev } } }
      | .decline p' none =>
        if i + 1 < ps.length then
          Master.txLoop fp fuel { m with slots := denseSlots (ps.set i p') k, cycle := .dx (i + 1) }
        else .none { m with slots := denseSlots (ps.set i p') k, cycle := .dx 0, lastEvents := { cycleCompleted := true } } := by
  have hlen : (ps.set i ps[i]).length = ps.length := by simp
  simp only [Master.txLoop, hc, Master.visit, hs, getAtIndex_dense k hi hn]
  cases ht : ps[i].transmit fp m.op with
  | panic => rfl
  | send p' h pdu => simp only [set_dense k hi]
  | decline p' ev =>
    have hi' : i < (ps.set i p').length := by simpa using hi
    have hn' : (ps.set i p').length ≤ 256 := by simpa using hn
    cases ev with
    | some e =>
      simp only [set_dense k hi, nextCycle_dense k hi' hn', List.length_set]
      by_cases h1 : i + 1 < ps.length <;> simp [h1]
    | none =>
      simp only [set_dense k hi, nextCycle_dense k hi' hn', List.length_set]
      by_cases h1 : i + 1 < ps.length <;> simp [h1]

end PV.Live
