/-
Timed ring: along every run of the stable ring all stations keep the same LAS and at most one of them is in a
token-holding state.  Helper lemmas (C02 / C06 ring-level clauses).
-/
import ProfiVerif.Lemmas.TimedRingNSys

namespace PV
open StationGap TokenRing

/-- States in which a station has (or claims) the token. -/
def Holding : FState → Prop
  | .useToken .. | .awaitData .. | .awaitStatus .. | .passToken .. | .claimToken .. => True
  | _ => False

/-- **Agreement**: every station's ring view is the member list `M` (LAS = `M`, valid, NS / PS its cyclic
neighbours), and at most one station is in a token-holding state. -/
def Agree (M : List Nat) (adr : Nat → Nat) (n : Net) : Prop :=
  (∀ j, j < n.stations.length → ∃ st, n.stations[j]? = some st ∧ RingView M (adr j) st.s.ring) ∧
  (∀ (j k : Nat) (st st' : NetStation), n.stations[j]? = some st → n.stations[k]? = some st' →
    Holding st.s.st → Holding st'.s.st → j = k)

theorem NInv.agree {cfg : Cfg} {M : List Nat} {adr : Nat → Nat} {n : Net} {v : NView} (h : NInv cfg M adr n v) :
    Agree M adr n := by
  have hlis : ∀ j st, n.stations[j]? = some st → j ≠ v.x → ¬ Holding st.s.st := by
    intro j st hj hjx
    have hjl : j < n.stations.length := by
      rcases Nat.lt_or_ge j n.stations.length with h' | h'
      · exact h'
      · rw [List.getElem?_eq_none_iff.2 h'] at hj; cases hj
    obtain ⟨st', hst', hL⟩ := h.lis j hjl hjx
    rw [hj] at hst'
    cases hst'
    obtain ⟨-, dn, rs, idle, l, -, -, -, -, -, -, -, -, -, -, -, h10⟩ := hL
    cases idle with
    | true =>
      simp only [if_true] at h10
      obtain ⟨⟨np, coll, hs⟩, -⟩ := h10
      rw [hs]; simp [Holding]
    | false =>
      simp only [Bool.false_eq_true, if_false] at h10
      rw [h10.1]; simp [Holding]
  refine ⟨?_, ?_⟩
  · intro j hj
    by_cases hjx : j = v.x
    · subst hjx; exact ⟨v.sx, h.gx, h.okx.view⟩
    · obtain ⟨st, hst, hL⟩ := h.lis j hj hjx
      exact ⟨st, hst, hL.1.view⟩
  · intro j k st st' hj hk h1 h2
    have e1 : j = v.x := Classical.byContradiction fun hne => hlis j st hj hne h1
    have e2 : k = v.x := Classical.byContradiction fun hne => hlis k st' hk hne h2
    rw [e1, e2]

/-- Agreement before every event of a run and at its end. -/
def AgreeRun (M : List Nat) (adr : Nat → Nat) : Net → List (Nat × Int) → Prop
  | n, [] => Agree M adr n
  | n, (i, now) :: rest => Agree M adr n ∧ AgreeRun M adr (n.poll i now).1 rest

theorem ringN_agree_run {cfg : Cfg} (hok : cfg.Ok) (hP100 : cfg.P ≤ 100000) (M : List Nat) (adr : Nat → Nat) :
    ∀ (evs : List (Nat × Int)) (n : Net) (v : NView), NInv cfg M adr n v → SchedN cfg.P n v.tl evs →
    AgreeRun M adr n evs := by
  intro evs
  induction evs with
  | nil => intro n v h _; exact h.agree
  | cons ev rest ih =>
    intro n v h hs
    obtain ⟨i, now⟩ := ev
    obtain ⟨hi, htl, hown, hgap, hrest⟩ := hs
    have e : EvOkN cfg n v.tl i now := ⟨hi, htl, hown, hgap⟩
    obtain ⟨n', v', inc, c, hp, hinv', htl', -⟩ := ringN_step h hok hP100 i now e
    have hn' : (n.poll i now).1 = n' := by rw [hp]
    rw [hn', ← htl'] at hrest
    refine ⟨h.agree, ?_⟩
    show AgreeRun M adr (n.poll i now).1 rest
    rw [hn']
    exact ih n' v' hinv' hrest

end PV
