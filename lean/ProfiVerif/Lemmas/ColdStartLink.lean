/-
Cold start of two stations: the poll in which the claimant sends the GAP request to the listener's address
establishes the start condition `HQ0` of the reply handshake.  Helper lemmas.
-/
import ProfiVerif.Lemmas.ColdStartReply

namespace PV
open StationGap TokenRing

theorem statusRequestBytes_inj (a a' ts : Nat) (ha : a < 126) (ha' : a' < 126) (hts : ts < 126)
    (h : statusRequestBytes a ts = statusRequestBytes a' ts) : a = a' := by
  rw [← reqTel_wire, ← reqTel_wire] at h
  have h1 := decode_wire (reqTel a ts) (reqTel_valid a ts (by omega) (by omega)) []
  have h2 := decode_wire (reqTel a' ts) (reqTel_valid a' ts (by omega) (by omega)) []
  rw [h] at h1
  rw [h1] at h2
  injection h2 with h3 _
  unfold reqTel at h3
  injection h3 with h4 _
  have := congrArg (fun hh => hh.da.toNat) h4
  simp only [fdlStatusRequestHeader] at this
  rw [u8n a (by omega), u8n a' (by omega)] at this
  exact this

/-- **The claimant polls the listener's address**: the poll of `duo_claimant` in which the claimant sends the GAP
request to the listener's address establishes the start condition `HQ0` of the reply handshake (`hpy`: the listener
runs at the configured rate; `hpb`: the claimant has no stale pending-byte count — neither is tracked by `Duo`). -/
theorem duo_request_hq0 {cfg : Cfg} {G : Nat} {n : Net} {x y : Nat} {stx sty : NetStation} {l : Int} {stage : SStage}
    {r0 : TokenRing} {hd : List Telegram} {tl : Int} (d : Duo cfg G n x y stx sty l stage r0 hd tl) (hok : cfg.Ok)
    (hP100 : cfg.P ≤ 100000) (B : Int)
    (hB : max (n.bus.seen.getD x 0) (l + ((stage.wait cfg : Nat) : Int)) +
      ((stage.rest cfg stx.s.p.address stx.s.p.hsa : Nat) : Int) ≤ B)
    (now : Int) (htl : tl ≤ now) (hown : n.bus.seen.getD x 0 < now) (hgx : now ≤ n.bus.seen.getD x 0 + (cfg.P : Nat))
    (hgy : now ≤ n.bus.seen.getD y 0 + (cfg.P : Nat))
    (n' : Net) (c : Ctx) (hp : n.poll x now = (n', [], some (.ok c)))
    (htx : c.tx = some (statusRequestBytes sty.s.p.address stx.s.p.address)) :
    ∃ dn rs lY coll, HQ0 cfg G n' x y (upSt stx c) sty now r0 hd dn rs lY coll now ∧
      countTok (hd ++ rs.map telOf) ≤ 2 := by
  have hr := hok.rate
  have hs := d.solo
  have hsl := SStage.slack_ge cfg stage
  have hc5p := cfg.ce_pos hr 5
  obtain ⟨n'', c'', hp'', hseen, hnow, hout⟩ := form_step hs hok stage d.stg d.view B now hown hgx hB
  rw [hp] at hp''
  simp only [Prod.mk.injEq, Option.some.injEq, Res.ok.injEq, true_and] at hp''
  obtain ⟨e1, e2⟩ := hp''
  subst e1 e2
  obtain ⟨hbus, st0, hst0, hset, hpoll0⟩ := Net.poll_bus n x now n' [] c hp
  rw [hs.gx] at hst0
  cases hst0
  have hdel : (n.bus.deliver x now).1 = { n.bus with seen := n.bus.seen.set x now } := by
    rw [hs.deliver hr now (Int.le_of_lt hown)]
  rw [hdel] at hbus
  have hxy : x ≠ y := Ne.symm d.yx
  have hsy : ({ n.bus with seen := n.bus.seen.set x now } : Bus).seen.getD y 0 = n.bus.seen.getD y 0 :=
    seen_set_other n.bus x y now hxy
  have hlen3 : ∀ ts a ts', selfToken ts ≠ statusRequestBytes a ts' := by
    intro ts a ts' e
    have := congrArg List.length e
    rw [statusRequestBytes_length] at this
    exact absurd this (by show ¬ (3 = 6); decide)
  have haH : sty.s.p.address < 126 := by
    obtain ⟨-, -, hinvY, -⟩ := d.lis
    have := hinvY.addr; have := hinvY.hsa; omega
  have haL := d.aL_lt
  unfold FormOut at hout
  rcases hout with ⟨-, a2, -⟩ | ⟨stage', l', hS, hs', hv', hp', htxi, hB', hΦ, hnl, hk2, htok, hpbq⟩
  · rw [htx] at a2; exact absurd (Option.some.inj a2).symm (hlen3 _ _ _)
  have haddr : (upSt stx c).s.p.address = stx.s.p.address := by show c.s.p.address = _; rw [hp']
  rcases htxi with h0 | h0 | ⟨a, h1, h2, h3, h4, h5⟩
  · rw [htx] at h0; cases h0
  · rw [htx] at h0; exact absurd (Option.some.inj h0).symm (hlen3 _ _ _)
  rw [htx] at h3
  have haeq : sty.s.p.address = a :=
    statusRequestBytes_inj _ _ _ haH (by have := hs.inv.hsa; omega) haL (Option.some.inj h3)
  subst h4 h5
  rw [← haeq] at hs'
  simp only [SStage.ok] at hs'
  rw [htx] at hbus
  simp only at hbus
  have hrate : 0 < n.bus.rate := by rw [hs.rate]; exact hr
  obtain ⟨old', e1, e2, e3, e4, e5, e6⟩ := Bus.send_txs { n.bus with seen := n.bus.seen.set x now } x now
    (statusRequestBytes sty.s.p.address stx.s.p.address) hs.drops hrate
  have hspec := Bus.send_spec { n.bus with seen := n.bus.seen.set x now } x now
    (statusRequestBytes sty.s.p.address stx.s.p.address) hs.drops
  have hlt : l < now := by
    have := (pollInner_tx { s := stx.s, apps := stx.apps, rx := _ } now _ c hpoll0 rfl (by rw [htx]; simp)).2.2 l hs.stamp
    omega
  have hends : ∀ o ∈ n.bus.txs, cEnd cfg o ≤ now := fun o ho => by
    have := hs.ends o ho (d.lone.own o ho); omega
  have hsub : old'.Sublist n.bus.txs := by
    have : (Bus.send { n.bus with seen := n.bus.seen.set x now } x now (statusRequestBytes sty.s.p.address stx.s.p.address)).txs =
        (n.bus.txs.filter fun t => decide (n.bus.txEnd t + 100000 > now)) ++
          [({ start := now, sender := x, bytes := statusRequestBytes sty.s.p.address stx.s.p.address, dropped := false } : Transmission)] := by
      rw [hspec]
      simp only [List.filter_append, List.filter_cons, List.filter_nil]
      have : decide (Bus.txEnd { n.bus with seen := n.bus.seen.set x now }
          ({ start := now, sender := x, bytes := statusRequestBytes sty.s.p.address stx.s.p.address, dropped := false } : Transmission) + 100000 > now) = true := by
        have := Bus.byteEnd_pos n.bus hrate ((statusRequestBytes sty.s.p.address stx.s.p.address).length - 1)
        unfold Bus.txEnd
        simp only [decide_eq_true_eq]
        show now + n.bus.byteEnd ((statusRequestBytes sty.s.p.address stx.s.p.address).length - 1) + 100000 > now
        omega
      rw [if_pos this]
      rfl
    rw [e1] at this
    have hh := List.append_inj_left' this rfl
    rw [hh]
    exact List.filter_sublist
  obtain ⟨dn, rs, lY, coll, hX0, hcnt⟩ := d.lisX
  have hX := hX0.other x now hxy
  have hpy := d.py
  have hpb : c.s.pendingBytes = 0 := by rw [hpbq]; exact d.pbx
  have hl1 : LoneLog cfg stx.s.p.address sty.s.p.address x { n.bus with seen := n.bus.seen.set x now } :=
    ⟨d.lone.rate, d.lone.corrupt, d.lone.chained, d.lone.live, d.lone.own, d.lone.kinds⟩
  have hX' := LLOkX.send (H' := now + (cfg.b66 : Nat) + (cfg.slot : Nat) + (cfg.P : Nat)) (b' := n'.bus) hX hl1 hr haL now
    (statusRequestBytes sty.s.p.address stx.s.p.address) (by rw [statusRequestBytes_length]; omega) (by omega)
    (by rw [hsy]; exact Int.le_trans d.seens.2 htl) (by rw [hsy]; exact hgy) hP100 (by rw [hbus, hspec]) (by rw [hbus, e4])
  have htxsX : n.bus.txs = dn ++ rs := hX.2.2.2.2.2.2.2.1
  refine ⟨_, _, lY, coll, ⟨hS, .inl hs'.1, hs'.2, ?_, ?_, ?_,
    by rw [hset, List.getElem?_set_ne hxy]; exact d.gy, d.yx, by rw [hbus, e4]; simp only [List.length_set]; exact d.ys,
    by rw [hset, List.length_set]; exact d.yl, by rw [haddr]; exact hX', ?_, hpy, hpb, ?_, ?_, (by show RingView [c.s.p.address] c.s.p.address c.s.ring; rw [hp']; exact hv')⟩, ?_⟩
  · rw [haddr, hbus]
    refine ⟨e3.trans d.lone.rate, e5.trans d.lone.corrupt, ?_, ?_, ?_, ?_⟩
    · rw [e1]
      unfold CChained
      rw [List.pairwise_append]
      refine ⟨List.Pairwise.sublist hsub d.lone.chained, List.pairwise_singleton _ _, ?_⟩
      intro o ho t ht
      simp only [List.mem_singleton] at ht
      subst ht
      exact hends o (e2 o ho)
    · intro t ht
      rw [e1] at ht
      rcases List.mem_append.1 ht with ht | ht
      · exact d.lone.live t (e2 t ht)
      · simp only [List.mem_singleton] at ht; subst ht; rfl
    · intro t ht
      rw [e1] at ht
      rcases List.mem_append.1 ht with ht | ht
      · exact d.lone.own t (e2 t ht)
      · simp only [List.mem_singleton] at ht; subst ht; rfl
    · intro t ht
      rw [e1] at ht
      rcases List.mem_append.1 ht with ht | ht
      · rcases d.lone.kinds t (e2 t ht) with hk | ⟨g, hg1, -, hg3⟩
        · exact .inl hk
        · exact .inr ⟨g, hg1, hg3⟩
      · simp only [List.mem_singleton] at ht; subst ht; exact .inr ⟨_, haH, rfl⟩
  · rw [haddr, List.getLast?_append]; rfl
  · rw [haddr, List.dropLast_concat]
    intro t ht
    exact d.lone.kinds t (by rw [htxsX]; exact List.mem_append_right _ ht)
  · rw [hbus, e4, hsy]
    have := d.seens.2
    omega
  · rw [hbus, e1]
    intro t ht
    rcases List.mem_append.1 ht with ht | ht
    · exact Int.le_trans (d.starts t (e2 t ht)) htl
    · simp only [List.mem_singleton] at ht; subst ht; exact Int.le_refl _
  · rw [hseen, hbus, e4, hsy]
    exact ⟨Int.le_refl _, Int.le_trans d.seens.2 htl⟩
  · have et : telOf (rqTx x stx.s.p.address sty.s.p.address now) = reqTel sty.s.p.address stx.s.p.address :=
      telOf_req _ _ _ (by omega) (by omega) rfl
    have : countTok [telOf (rqTx x stx.s.p.address sty.s.p.address now)] = 0 := by rw [et]; rfl
    rw [List.map_append, ← List.append_assoc, countTok_append]
    have e3 : List.map telOf [({ start := now, sender := x, bytes := statusRequestBytes sty.s.p.address stx.s.p.address, dropped := false } : Transmission)] = [telOf (rqTx x stx.s.p.address sty.s.p.address now)] := rfl
    rw [e3]
    omega

end PV
