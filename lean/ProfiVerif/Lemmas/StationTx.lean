/-
Transmission discipline of the station model (C01): every transmission made by any handler is
preceded, in the same poll, by a successful `wait_synchronization_pause` on the bus-activity stamp
the station held at the start of the handler.  Helper lemmas; the property theorems are in
`Props/C01.lean`.
-/
import ProfiVerif.Model.Station

namespace PV

/-- `c1` continues `c` within one poll without having transmitted: parameters, the transmit slot
and a known bus-activity stamp are kept. -/
structure Keeps (c c1 : Ctx) : Prop where
  p : c1.s.p = c.s.p
  tx : c1.tx = c.tx
  last : ∀ l, c.s.lastBusActivity = some l → c1.s.lastBusActivity = some l

theorem Keeps.refl (c : Ctx) : Keeps c c := ⟨rfl, rfl, fun _ h => h⟩

theorem Keeps.trans {a b c : Ctx} (h1 : Keeps a b) (h2 : Keeps b c) : Keeps a c :=
  ⟨h2.p.trans h1.p, h2.tx.trans h1.tx, fun l h => h2.last l (h1.last l h)⟩

/-- If the result carries a transmission that was not there before, the synchronisation pause had
elapsed w.r.t. the stamp known at the start. -/
def TxOk (now : Int) (c : Ctx) (r : Res) : Prop :=
  ∀ c', r = .ok c' → c.tx = none → c'.tx ≠ none →
    ∀ l, c.s.lastBusActivity = some l → l + (c.s.p.bits 33 : Nat) < now

/-- The step transmits nothing. -/
def NoTx (c : Ctx) (r : Res) : Prop := ∀ c', r = .ok c' → c'.tx = c.tx

theorem TxOk.of_noTx {now : Int} {c : Ctx} {r : Res} (h : NoTx c r) : TxOk now c r := by
  intro c' hr h0 hne
  rw [h c' hr] at hne
  exact absurd h0 hne

theorem TxOk.of_keeps {now : Int} {c c1 : Ctx} {r : Res} (hk : Keeps c c1) (h : TxOk now c1 r) : TxOk now c r := by
  intro c' hr h0 hne l hl
  have := h c' hr (by rw [hk.tx]; exact h0) hne l (hk.last l hl)
  rw [hk.p] at this
  exact this

theorem getOrInsert_last (s : Station) (now : Int) (l : Int) (h : s.lastBusActivity = some l) :
    getOrInsertLast s now = (s, l) := by
  unfold getOrInsertLast; rw [h]

theorem getOrInsert_p (s : Station) (now : Int) : (getOrInsertLast s now).1.p = s.p := by
  unfold getOrInsertLast; cases s.lastBusActivity <;> rfl

theorem getOrInsert_keeps (s : Station) (now : Int) (l : Int) (h : s.lastBusActivity = some l) :
    (getOrInsertLast s now).1.lastBusActivity = some l := by
  rw [getOrInsert_last s now l h]; exact h

/-- The heart of it: when `wait_synchronization_pause` lets the caller proceed, more than 33 bit
times have passed since the known stamp. -/
theorem sync_elapsed (s : Station) (now : Int) (hw : (waitSyncPause s now).2 = false) (l : Int)
    (hl : s.lastBusActivity = some l) : l + (s.p.bits 33 : Nat) < now := by
  unfold waitSyncPause at hw
  rw [getOrInsert_last s now l hl] at hw
  simp at hw
  omega

theorem TxOk.of_sync {now : Int} {c : Ctx} {r : Res} (s1 : Station) (h1 : s1.lastBusActivity = c.s.lastBusActivity)
    (hp : s1.p = c.s.p) (hw : (waitSyncPause s1 now).2 = false) : TxOk now c r := by
  intro c' _ _ _ l hl
  have := sync_elapsed s1 now hw l (by rw [h1]; exact hl)
  rw [hp] at this
  exact this

theorem waitSync_p (s : Station) (now : Int) : (waitSyncPause s now).1.p = s.p := getOrInsert_p s now
theorem waitSync_keeps (s : Station) (now : Int) (l : Int) (h : s.lastBusActivity = some l) :
    (waitSyncPause s now).1.lastBusActivity = some l := getOrInsert_keeps s now l h
theorem checkSlot_p (s : Station) (now : Int) : (checkSlotExpired s now).1.p = s.p := getOrInsert_p s now
theorem checkSlot_keeps (s : Station) (now : Int) (l : Int) (h : s.lastBusActivity = some l) :
    (checkSlotExpired s now).1.lastBusActivity = some l := getOrInsert_keeps s now l h

/-! ### Steps that never transmit -/

theorem tr_cases (c : Ctx) (f : Station → Option Station) (site : String) (c' : Ctx) (h : tr c f site = .ok c') :
    ∃ s', f c.s = some s' ∧ c' = { c with s := s' } := by
  unfold tr at h
  split at h
  · cases h; exact ⟨_, by assumption, rfl⟩
  · cases h

theorem tr_noTx (c : Ctx) (f : Station → Option Station) (site : String) : NoTx c (tr c f site) := by
  intro c' h
  obtain ⟨s', _, rfl⟩ := tr_cases c f site c' h
  rfl

/-- All `transition_*` functions change the FDL state only. -/
def StOnly (f : Station → Option Station) : Prop :=
  ∀ s s', f s = some s' → s'.p = s.p ∧ s'.lastBusActivity = s.lastBusActivity

theorem stOnly_toOffline : StOnly toOffline := by
  intro s s' h; unfold toOffline at h; split at h <;> first | (cases h; exact ⟨rfl, rfl⟩) | cases h
theorem stOnly_toListenToken : StOnly toListenToken := by
  intro s s' h; unfold toListenToken at h; split at h <;> first | (cases h; exact ⟨rfl, rfl⟩) | cases h
theorem stOnly_toActiveIdle : StOnly toActiveIdle := by
  intro s s' h; unfold toActiveIdle at h; split at h <;> first | (cases h; exact ⟨rfl, rfl⟩) | cases h
theorem stOnly_toUseToken (d : UseData) : StOnly (fun s => toUseToken s d) := by
  intro s s' h; simp only [toUseToken] at h; split at h <;> first | (cases h; exact ⟨rfl, rfl⟩) | cases h
theorem stOnly_toClaimToken : StOnly toClaimToken := by
  intro s s' h; unfold toClaimToken at h; split at h <;> first | (cases h; exact ⟨rfl, rfl⟩) | cases h
theorem stOnly_toPassToken (g : Bool) (a : Attempt) : StOnly (fun s => toPassToken s g a) := by
  intro s s' h; simp only [toPassToken] at h; split at h <;> first | (cases h; exact ⟨rfl, rfl⟩) | cases h
theorem stOnly_toCheckTokenPass (a : Attempt) : StOnly (fun s => toCheckTokenPass s a) := by
  intro s s' h; simp only [toCheckTokenPass] at h; split at h <;> first | (cases h; exact ⟨rfl, rfl⟩) | cases h
theorem stOnly_toAwaitStatus (a : Nat) : StOnly (fun s => toAwaitStatus s a) := by
  intro s s' h; simp only [toAwaitStatus] at h; split at h <;> first | (cases h; exact ⟨rfl, rfl⟩) | cases h
theorem stOnly_toAwaitData (a : Nat) (d : UseData) : StOnly (fun s => toAwaitData s a d) := by
  intro s s' h; simp only [toAwaitData] at h; split at h <;> first | (cases h; exact ⟨rfl, rfl⟩) | cases h

theorem tr_keeps (c : Ctx) (f : Station → Option Station) (site : String) (hf : StOnly f) (c' : Ctx)
    (h : tr c f site = .ok c') : Keeps c c' := by
  obtain ⟨s', hs, rfl⟩ := tr_cases c f site c' h
  obtain ⟨h1, h2⟩ := hf _ _ hs
  exact ⟨h1, rfl, fun l hl => by show s'.lastBusActivity = some l; rw [h2]; exact hl⟩

theorem bind_noTx {c : Ctx} {r : Res} {f : Ctx → Res} (h1 : NoTx c r) (h2 : ∀ c1, r = .ok c1 → NoTx c1 (f c1)) :
    NoTx c (r.bind f) := by
  intro c' h
  cases r with
  | panic s => cases h
  | ok c1 =>
    simp only [Res.bind] at h
    rw [h2 c1 rfl c' h, h1 c1 rfl]

theorem fold_noTx (f : Ctx → Telegram → Bool → Res) (hf : ∀ c t l, NoTx c (f c t l)) :
    ∀ (calls : List (Telegram × Bool)) (c : Ctx), NoTx c (foldTelegrams f c calls) := by
  intro calls
  induction calls with
  | nil => intro c c' h; simp only [foldTelegrams] at h; cases h; rfl
  | cons x rest ih =>
    intro c
    obtain ⟨t, l⟩ := x
    simp only [foldTelegrams]
    exact bind_noTx (hf c t l) (fun c1 _ => ih c1)

theorem handleTelegram_noTx (c : Ctx) (now : Int) (t : Telegram) (isLast : Bool) :
    NoTx c (handleTelegram c now t isLast) := by
  intro c' h
  unfold handleTelegram at h
  dsimp only at h
  repeat' split at h
  all_goals first
    | (cases h; done)
    | (cases h; rfl)
    | (have := tr_noTx _ _ _ c' h; exact this)

theorem upd_tx (c : Ctx) (f : Station → Station) : (upd c f).tx = c.tx := by cases c; rfl

theorem ok_inj_tx {a c' c : Ctx} (h : Res.ok a = Res.ok c') (ha : a.tx = c.tx) : c'.tx = c.tx := by
  cases h; exact ha

theorem listenTelegramCore_noTx (c : Ctx) (t : Telegram) (isLast : Bool) :
    NoTx c (listenTelegramCore c t isLast) := by
  intro c'
  unfold listenTelegramCore
  split
  · intro h; first | exact ok_inj_tx h (upd_tx _ _) | exact ok_inj_tx h rfl
  · split
    · dsimp only
      split
      · split <;> (intro h; first | exact ok_inj_tx h (upd_tx _ _) | exact ok_inj_tx h rfl)
      · cases t with
        | sc => intro h; first | exact ok_inj_tx h (upd_tx _ _) | exact ok_inj_tx h rfl
        | token da sa => intro h; first | exact ok_inj_tx h (upd_tx _ _) | exact ok_inj_tx h rfl
        | data hd pdu =>
          dsimp only
          split
          · split <;> (intro h; first | exact ok_inj_tx h (upd_tx _ _) | exact ok_inj_tx h rfl)
          · intro h; first | exact ok_inj_tx h (upd_tx _ _) | exact ok_inj_tx h rfl
    · intro h; cases h

theorem listenTelegram_noTx (now : Int) (c : Ctx) (t : Telegram) (isLast : Bool) :
    NoTx c (listenTelegram now c t isLast) := by
  intro c' h
  unfold listenTelegram at h
  exact listenTelegramCore_noTx (upd c fun s => markRx s now) t isLast c' h

/-- `await_gap_poll_response` never transmits and keeps the parameters; when it reports
`NoResponse` (slot expired, nothing received) a known stamp is kept. -/
theorem awaitGap_spec (c : Ctx) (now : Int) (addr : Nat) (c1 : Ctx) (g : GapPollResponse)
    (h : awaitGapPollResponse c now addr = (.ok c1, g)) :
    c1.tx = c.tx ∧ c1.s.p = c.s.p ∧
    ((g = .noResponse ∨ g = .waitingForBus) → ∀ l, c.s.lastBusActivity = some l → c1.s.lastBusActivity = some l) := by
  unfold awaitGapPollResponse at h
  split at h
  · cases h
  split at h
  · cases h
  split at h
  · cases h
  · cases h
  · -- nothing received
    simp only at h
    split at h
    · cases h
      refine ⟨rfl, checkSlot_p _ _, fun _ l hl => checkSlot_keeps _ _ l hl⟩
    · cases h
      refine ⟨rfl, checkSlot_p _ _, fun _ l hl => checkSlot_keeps _ _ l hl⟩
  · -- a telegram was received
    simp only at h
    repeat' split at h
    all_goals first
      | (cases h; done)
      | (cases h; exact ⟨rfl, rfl, by intro hg; rcases hg with hg | hg <;> cases hg⟩)

/-! ### The transmitting handlers -/

theorem noTx_ok_same (c c1 : Ctx) (h : c1.tx = c.tx) : NoTx c (.ok c1) := by
  intro c' hc; cases hc; exact h

theorem noTx_panic (c : Ctx) (s : String) : NoTx c (.panic s) := by
  intro c' hc; cases hc

theorem txOk_panic (now : Int) (c : Ctx) (s : String) : TxOk now c (.panic s) := by
  intro c' hc; cases hc

theorem keeps_setSt (c : Ctx) (st' : FState) : Keeps c (upd c fun s => { s with st := st' }) :=
  ⟨rfl, upd_tx _ _, fun _ h => h⟩

theorem doClaimToken_txok (now : Int) : ∀ (fuel : Nat) (c : Ctx), TxOk now c (doClaimToken c now fuel) := by
  intro fuel
  induction fuel with
  | zero => intro c; unfold doClaimToken; exact txOk_panic _ _ _
  | succ fuel ih =>
    intro c
    unfold doClaimToken
    cases hst : c.s.st with
    | claimToken step =>
      simp only
      cases step with
      | firstToken =>
        simp only
        by_cases hw : (waitSyncPause c.s now).2 = true
        · simp only [hw, if_true]; exact TxOk.of_noTx (noTx_ok_same _ _ rfl)
        · exact TxOk.of_sync c.s rfl rfl (by simpa using hw)
      | secondToken =>
        simp only
        by_cases hw : (waitSyncPause c.s now).2 = true
        · simp only [hw, if_true]; exact TxOk.of_noTx (noTx_ok_same _ _ rfl)
        · exact TxOk.of_sync c.s rfl rfl (by simpa using hw)
      | scan =>
        simp only
        by_cases hw : (waitSyncPause c.s now).2 = true
        · simp only [hw, if_true]; exact TxOk.of_noTx (noTx_ok_same _ _ rfl)
        · exact TxOk.of_sync c.s rfl rfl (by simpa using hw)
      | scanAwait a =>
        simp only
        rcases hag : awaitGapPollResponse c now a with ⟨r, g⟩
        cases r with
        | panic s => exact txOk_panic _ _ _
        | ok c1 =>
          obtain ⟨htx, hp, hk⟩ := awaitGap_spec c now a c1 g hag
          cases g with
          | waitingForBus => exact TxOk.of_noTx (noTx_ok_same _ _ htx)
          | responded => exact TxOk.of_noTx (noTx_ok_same _ _ ((upd_tx _ _).trans htx))
          | noResponse =>
            have hk1 : Keeps c c1 := ⟨hp, htx, hk (Or.inl rfl)⟩
            exact TxOk.of_keeps (hk1.trans (keeps_setSt c1 _)) (ih _)
          | unexpected =>
            refine TxOk.of_noTx ?_
            intro c' h
            rw [tr_noTx _ _ _ c' h, htx]
    | offline | passiveIdle | listenToken _ _ | activeIdle _ _ _ | useToken _ _ | awaitData _ _ | passToken _ _
    | checkTokenPass _ | awaitStatus _ => exact txOk_panic _ _ _

/-- `handle_lost_token` either leaves everything but an unknown stamp alone, or claims. -/
theorem handleLostToken_txok (c : Ctx) (now : Int) :
    (∀ c1, handleLostToken c now = (c1, none) → Keeps c c1 ∧ c1.s.st = c.s.st ∧ c1.rx = c.rx) ∧
    (∀ c1 r, handleLostToken c now = (c1, some r) → TxOk now c r) := by
  have hp := getOrInsert_p c.s now
  have hk := getOrInsert_keeps c.s now
  have hst : (getOrInsertLast c.s now).1.st = c.s.st := by
    unfold getOrInsertLast; cases c.s.lastBusActivity <;> rfl
  have hkeep : Keeps c { c with s := (getOrInsertLast c.s now).1 } := ⟨hp, rfl, hk⟩
  unfold handleLostToken
  simp only
  split
  · refine ⟨fun c1 h => ?_, fun c1 r h => ?_⟩
    · split at h <;> cases h
    · split at h
      · cases h; exact txOk_panic _ _ _
      · rename_i s'' hs''
        cases h
        have h2 := stOnly_toClaimToken _ _ hs''
        refine TxOk.of_keeps (c1 := { c with s := s'' }) ⟨h2.1.trans hp, rfl, fun l hl => ?_⟩ (doClaimToken_txok now 2 _)
        show s''.lastBusActivity = some l
        rw [h2.2]; exact hk l hl
  · refine ⟨fun c1 h => ?_, fun c1 r h => ?_⟩
    · cases h; exact ⟨hkeep, hst, rfl⟩
    · cases h

theorem doPassToken_txok (c : Ctx) (now : Int) : TxOk now c (doPassToken c now) := by
  unfold doPassToken
  split
  · simp only
    by_cases hw : (waitSyncPause c.s now).2 = true
    · simp only [hw, if_true]; exact TxOk.of_noTx (noTx_ok_same _ _ rfl)
    · exact TxOk.of_sync c.s rfl rfl (by simpa using hw)
  · exact txOk_panic _ _ _

theorem holdUpdate_keeps (s : Station) (d : UseData) :
    (holdUpdate s d).lastBusActivity = s.lastBusActivity ∧ (holdUpdate s d).p = s.p := by
  unfold holdUpdate; split <;> exact ⟨rfl, rfl⟩

theorem doUseToken_txok (c : Ctx) (now : Int) : TxOk now c (doUseToken c now) := by
  unfold doUseToken
  split
  · rename_i d fcd hst
    simp only
    by_cases hw : (waitSyncPause (holdUpdate c.s d) now).2 = true
    · simp only [hw, if_true]; exact TxOk.of_noTx (noTx_ok_same _ _ rfl)
    · exact TxOk.of_sync (holdUpdate c.s d) (holdUpdate_keeps _ _).1 (holdUpdate_keeps _ _).2 (by simpa using hw)
  · exact txOk_panic _ _ _

theorem doListenToken_txok (c : Ctx) (now : Int) : TxOk now c (doListenToken c now) := by
  obtain ⟨hnone, hsome⟩ := handleLostToken_txok c now
  unfold doListenToken
  -- destructure the pair BEFORE any `split` (otherwise the kernel needs ≈ 60 s for the splitter proof)
  rcases hl : handleLostToken c now with ⟨c1, _ | r⟩
  · obtain ⟨hk, hst1, hrx⟩ := hnone c1 hl
    split
    · simp only
      refine TxOk.of_keeps hk ?_
      split
      · -- a status request is pending: answer after the pause
        by_cases hw : (waitSyncPause c1.s now).2 = true
        · simp only [hw, if_true]; exact TxOk.of_noTx (noTx_ok_same _ _ rfl)
        · exact TxOk.of_sync c1.s rfl rfl (by simpa using hw)
      · split
        · exact txOk_panic _ _ _
        · exact txOk_panic _ _ _
        · exact TxOk.of_noTx (by
            intro c' h
            rw [fold_noTx _ (fun c t l => listenTelegram_noTx now c t l) _ _ c' h])
      · exact txOk_panic _ _ _
    · exact txOk_panic _ _ _
  · split
    · exact hsome c1 r hl
    · exact txOk_panic _ _ _

theorem idleTelegram_noTx (now : Int) (c : Ctx) (t : Telegram) (l : Bool) :
    NoTx c (handleTelegram (upd c fun s => markRx s now) now t l) := by
  intro c' h
  rw [handleTelegram_noTx _ now t l c' h, upd_tx]

theorem doActiveIdle_txok (c : Ctx) (now : Int) : TxOk now c (doActiveIdle c now) := by
  obtain ⟨hnone, hsome⟩ := handleLostToken_txok c now
  unfold doActiveIdle
  rcases hl : handleLostToken c now with ⟨c1, _ | r⟩
  · obtain ⟨hk, hst1, hrx⟩ := hnone c1 hl
    split
    · simp only
      refine TxOk.of_keeps hk ?_
      split
      · by_cases hw : (waitSyncPause c1.s now).2 = true
        · simp only [hw, if_true]; exact TxOk.of_noTx (noTx_ok_same _ _ rfl)
        · exact TxOk.of_sync c1.s rfl rfl (by simpa using hw)
      · split
        · exact txOk_panic _ _ _
        · exact txOk_panic _ _ _
        · exact TxOk.of_noTx (by
            intro c' h
            rw [fold_noTx _ (fun c t l => idleTelegram_noTx now c t l) _ _ c' h])
      · exact txOk_panic _ _ _
    · exact txOk_panic _ _ _
  · split
    · exact hsome c1 r hl
    · exact txOk_panic _ _ _

theorem doAwaitStatusResponse_txok (c : Ctx) (now : Int) : TxOk now c (doAwaitStatusResponse c now) := by
  unfold doAwaitStatusResponse
  split
  · rename_i a hst
    rcases hag : awaitGapPollResponse c now a with ⟨r, g⟩
    cases r with
    | panic s => exact txOk_panic _ _ _
    | ok c1 =>
      obtain ⟨htx, hp, hk⟩ := awaitGap_spec c now a c1 g hag
      cases g with
      | waitingForBus => exact TxOk.of_noTx (noTx_ok_same _ _ htx)
      | responded =>
        refine TxOk.of_noTx ?_
        intro c' h
        rw [tr_noTx _ _ _ c' h, htx]
      | noResponse =>
        have hk1 : Keeps c c1 := ⟨hp, htx, hk (Or.inl rfl)⟩
        simp only
        intro c' h
        cases htr : tr c1 (fun s => toPassToken s false .first) "transition_pass_token" with
        | panic s => rw [htr] at h; cases h
        | ok c2 =>
          rw [htr] at h
          simp only [Res.bind] at h
          have hk2 := tr_keeps c1 _ _ (stOnly_toPassToken false .first) c2 htr
          exact TxOk.of_keeps (hk1.trans hk2) (doPassToken_txok c2 now) c' h
      | unexpected =>
        refine TxOk.of_noTx ?_
        intro c' h
        rw [tr_noTx _ _ _ c' h, htx]
  · exact txOk_panic _ _ _

theorem ite_noTx {c : Ctx} {p : Prop} [Decidable p] {a b : Res} (ha : NoTx c a) (hb : NoTx c b) :
    NoTx c (if p then a else b) := by
  split <;> assumption


theorem backUse_txok (now : Int) (c c0 : Ctx) (d : UseData) (hk : Keeps c c0) :
    TxOk now c (((tr c0 (fun s => toUseToken s d) "transition_use_token").bind fun c =>
      .ok (upd c fun s => { s with st := .useToken d true })).bind fun c => doUseToken c now) := by
  cases htr : tr c0 (fun s => toUseToken s d) "transition_use_token" with
  | panic s => exact txOk_panic _ _ _
  | ok c1 =>
    simp only [Res.bind]
    have hk1 := tr_keeps _ _ _ (stOnly_toUseToken d) c1 htr
    exact TxOk.of_keeps ((hk.trans hk1).trans (keeps_setSt c1 _)) (doUseToken_txok _ now)

theorem doAwaitDataResponse_txok (c : Ctx) (now : Int) : TxOk now c (doAwaitDataResponse c now) := by
  unfold doAwaitDataResponse
  split
  · rename_i address d hst
    simp only
    split
    · exact txOk_panic _ _ _
    · have hback : ∀ c0 : Ctx, NoTx c0 ((tr c0 (fun s => toUseToken s d) "transition_use_token").bind fun c =>
          .ok (upd c fun s => { s with st := .useToken d true })) := by
        intro c0
        exact bind_noTx (tr_noTx _ _ _) (fun c1 _ => noTx_ok_same _ _ (upd_tx _ _))
      split
      · exact txOk_panic _ _ _
      · exact txOk_panic _ _ _
      · -- a telegram arrived: reply or back-off, nothing is transmitted
        refine TxOk.of_noTx (ite_noTx ?_ ?_)
        · intro c' h; rw [hback _ c' h]
        · intro c' h; rw [tr_noTx _ _ _ c' h]
      · -- nothing arrived
        by_cases hexp : (checkSlotExpired c.s now).2 = true
        · simp only [hexp, if_true]
          exact backUse_txok now c _ d ⟨checkSlot_p _ _, rfl, fun l hl => checkSlot_keeps _ _ l hl⟩
        · simp only [hexp]
          exact TxOk.of_noTx (noTx_ok_same _ _ rfl)
  · exact txOk_panic _ _ _

theorem trThenPass_txok (now : Int) (c c0 : Ctx) (a : Attempt) (hk : Keeps c c0) :
    TxOk now c ((tr c0 (fun s => toPassToken s false a) "transition_pass_token").bind fun c => doPassToken c now) := by
  cases htr : tr c0 (fun s => toPassToken s false a) "transition_pass_token" with
  | panic s => exact txOk_panic _ _ _
  | ok c1 =>
    simp only [Res.bind]
    exact TxOk.of_keeps (hk.trans (tr_keeps _ _ _ (stOnly_toPassToken false a) c1 htr)) (doPassToken_txok _ now)

theorem doCheckTokenPass_txok (c : Ctx) (now : Int) : TxOk now c (doCheckTokenPass c now) := by
  unfold doCheckTokenPass
  split
  · rename_i att hst
    simp only
    have hk0 : Keeps c { c with s := (checkSlotExpired c.s now).1 } :=
      ⟨checkSlot_p _ _, rfl, fun l hl => checkSlot_keeps _ _ l hl⟩
    by_cases hexp : (checkSlotExpired c.s now).2 = true
    · simp only [hexp, if_true]
      cases att with
      | first => exact trThenPass_txok now c _ .second hk0
      | second => exact trThenPass_txok now c _ .third hk0
      | third =>
        simp only
        split
        · exact txOk_panic _ _ _
        · exact trThenPass_txok now c _ .first (hk0.trans ⟨rfl, upd_tx _ _, fun _ h => h⟩)
    · rw [if_neg hexp]
      refine TxOk.of_noTx ?_
      split
      · exact noTx_panic _ _
      · exact noTx_panic _ _
      · split
        · exact noTx_ok_same _ _ rfl
        · refine bind_noTx (c := c) ?_ ?_
          · intro c' h; rw [tr_noTx _ _ _ c' h]
          · intro c1 _
            refine bind_noTx (handleTelegram_noTx _ _ _ _) ?_
            intro c2 _
            exact fold_noTx _ (fun c t l => idleTelegram_noTx now c t l) _ _
  · exact txOk_panic _ _ _

theorem dispatch_txok (c : Ctx) (now : Int) : TxOk now c (dispatch c now) := by
  unfold dispatch
  split
  · exact txOk_panic _ _ _
  · exact txOk_panic _ _ _
  · exact doListenToken_txok c now
  · exact doClaimToken_txok now 2 c
  · exact doUseToken_txok c now
  · exact doAwaitDataResponse_txok c now
  · exact doPassToken_txok c now
  · exact doCheckTokenPass_txok c now
  · exact doActiveIdle_txok c now
  · exact doAwaitStatusResponse_txok c now

/-- One whole poll: a transmission needs an idle PHY, no newly registered bus activity in this
poll, and more than 33 bit times since the activity stamp known at the start of the poll. -/
theorem pollInner_tx (c : Ctx) (now : Int) (phyTx : Bool) (c' : Ctx) (h : pollInner c now phyTx = .ok c')
    (h0 : c.tx = none) (ht : c'.tx ≠ none) :
    phyTx = false ∧ c.rx.length ≤ c.s.pendingBytes ∧
      ∀ l, c.s.lastBusActivity = some l → l + (c.s.p.bits 33 : Nat) < now := by
  unfold pollInner at h
  split at h
  · split at h
    · cases h; exact absurd h0 ht
    · cases h
  · cases hps : pollStart c with
    | panic s => rw [hps] at h; cases h
    | ok c1 =>
      rw [hps] at h
      simp only [Res.bind] at h
      have hk1 : Keeps c c1 ∧ c1.rx = c.rx ∧ c1.s.pendingBytes = c.s.pendingBytes := by
        unfold pollStart at hps
        split at hps
        · obtain ⟨s', hs', rfl⟩ := tr_cases _ _ _ _ hps
          have := stOnly_toListenToken _ _ hs'
          refine ⟨⟨this.1, rfl, fun l hl => by show s'.lastBusActivity = some l; rw [this.2]; exact hl⟩, rfl, ?_⟩
          unfold toListenToken at hs'
          split at hs' <;> first | (cases hs'; rfl) | cases hs'
        · obtain ⟨s', hs', rfl⟩ := tr_cases _ _ _ _ hps
          have := stOnly_toListenToken _ _ hs'
          refine ⟨⟨this.1, rfl, fun l hl => by show s'.lastBusActivity = some l; rw [this.2]; exact hl⟩, rfl, ?_⟩
          unfold toListenToken at hs'
          split at hs' <;> first | (cases hs'; rfl) | cases hs'
        · cases hps; exact ⟨Keeps.refl _, rfl, rfl⟩
      obtain ⟨hk, hrx, hpb⟩ := hk1
      split at h
      · -- ongoing transmission: nothing is sent
        cases h
        exact absurd ((upd_tx _ _).trans (hk.tx.trans h0)) ht
      · rename_i hong
        have hphy : phyTx = false := by
          cases phyTx with
          | false => rfl
          | true => simp [ongoing] at hong
        have hnot : ∀ l, c1.s.lastBusActivity = some l → l < now := by
          intro l hl
          simp [ongoing, hphy, hl] at hong
          exact hong
        -- the activity check
        have hd := dispatch_txok (upd c1 fun s => checkBusActivity s now c1.rx.length) now c' h
          ((upd_tx _ _).trans (hk.tx.trans h0)) ht
        refine ⟨hphy, ?_, ?_⟩
        · -- new pending bytes would have set the stamp to `now`
          rw [← hrx, ← hpb]
          refine Nat.le_of_not_lt fun hgt => ?_
          have : (upd c1 fun s => checkBusActivity s now c1.rx.length).s.lastBusActivity =
              some (max (c1.s.lastBusActivity.getD now) now) := by
            simp [upd, checkBusActivity, hgt, markBusActivity]
          have h2 := hd _ this
          have hb : (0 : Int) ≤ ((upd c1 fun s => checkBusActivity s now c1.rx.length).s.p.bits 33 : Nat) := Int.natCast_nonneg _
          omega
        · intro l hl
          have hl1 := hk.last l hl
          by_cases hgt : c1.rx.length > c1.s.pendingBytes
          · have : (upd c1 fun s => checkBusActivity s now c1.rx.length).s.lastBusActivity =
                some (max (c1.s.lastBusActivity.getD now) now) := by
              simp [upd, checkBusActivity, hgt, markBusActivity]
            have h2 := hd _ this
            have hb : (0 : Int) ≤ ((upd c1 fun s => checkBusActivity s now c1.rx.length).s.p.bits 33 : Nat) := Int.natCast_nonneg _
            omega
          · have : (upd c1 fun s => checkBusActivity s now c1.rx.length).s.lastBusActivity = some l := by
              simp [upd, checkBusActivity, hgt, hl1]
            have h2 := hd _ this
            have hp : (upd c1 fun s => checkBusActivity s now c1.rx.length).s.p = c.s.p := by
              simp only [upd, checkBusActivity]
              split
              · exact hk.p
              · exact hk.p
            rw [hp] at h2
            exact h2

end PV
