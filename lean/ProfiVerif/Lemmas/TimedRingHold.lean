/-
Timed ring: who writes the hold-time bookkeeping (`last_token_time`, `end_token_hold_time`) — only
`do_use_token` at the first poll of a token visit — and when an application message cycle may start.
Helper lemmas for the rotation bound.
-/
import ProfiVerif.Lemmas.TimedRingApps

namespace PV
open StationGap TokenRing

/-- The hold-time bookkeeping is untouched. -/
def HK (s s' : Station) : Prop := s'.lastTokenTime = s.lastTokenTime ∧ s'.endTokenHoldTime = s.endTokenHoldTime

theorem HK.rfl' (s : Station) : HK s s := ⟨rfl, rfl⟩
theorem HK.trans {a b c : Station} (h1 : HK a b) (h2 : HK b c) : HK a c := ⟨h2.1.trans h1.1, h2.2.trans h1.2⟩

theorem hk_markRx (s : Station) (now : Int) : HK s (markRx s now) := by simp [HK, markRx, markBusActivity]
theorem hk_markTx (s : Station) (now : Int) (n : Nat) : HK s (markTx s now n) := by simp [HK, markTx]
theorem hk_checkBA (s : Station) (now : Int) (n : Nat) : HK s (checkBusActivity s now n) := by
  obtain ⟨-, -, -, -, -, -, h1, h2⟩ := checkBA_fields s now n
  exact ⟨h1, h2⟩

/-- A state transition that leaves the hold-time bookkeeping alone. -/
def StHK (f : Station → Option Station) : Prop := ∀ s s', f s = some s' → HK s s'

theorem stHK_toListenToken : StHK toListenToken := by
  intro s s' h; unfold toListenToken at h; split at h <;> first | (cases h; exact ⟨rfl, rfl⟩) | cases h
theorem stHK_toActiveIdle : StHK toActiveIdle := by
  intro s s' h; unfold toActiveIdle at h; split at h <;> first | (cases h; exact ⟨rfl, rfl⟩) | cases h
theorem stHK_toUseToken (d : UseData) : StHK (fun s => toUseToken s d) := by
  intro s s' h; simp only [toUseToken] at h; split at h <;> first | (cases h; exact ⟨rfl, rfl⟩) | cases h
theorem stHK_toPassToken (g : Bool) (a : Attempt) : StHK (fun s => toPassToken s g a) := by
  intro s s' h; simp only [toPassToken] at h; split at h <;> first | (cases h; exact ⟨rfl, rfl⟩) | cases h
theorem stHK_toCheckTokenPass (a : Attempt) : StHK (fun s => toCheckTokenPass s a) := by
  intro s s' h; simp only [toCheckTokenPass] at h; split at h <;> first | (cases h; exact ⟨rfl, rfl⟩) | cases h
theorem stHK_toAwaitStatus (a : Nat) : StHK (fun s => toAwaitStatus s a) := by
  intro s s' h; simp only [toAwaitStatus] at h; split at h <;> first | (cases h; exact ⟨rfl, rfl⟩) | cases h
theorem stHK_toAwaitData (a : Nat) (d : UseData) : StHK (fun s => toAwaitData s a d) := by
  intro s s' h; simp only [toAwaitData] at h; split at h <;> first | (cases h; exact ⟨rfl, rfl⟩) | cases h

theorem tr_hk (c : Ctx) (f : Station → Option Station) (site : String) (hf : StHK f) (c' : Ctx)
    (h : tr c f site = .ok c') : HK c.s c'.s := by
  obtain ⟨s', hs', rfl⟩ := tr_cases c f site c' h
  exact hf c.s s' hs'

theorem handleTelegram_hk (c : Ctx) (now : Int) (t : Telegram) (isLast : Bool) (c' : Ctx)
    (h : handleTelegram c now t isLast = .ok c') : HK c.s c'.s := by
  unfold handleTelegram at h
  dsimp only at h
  repeat' split at h
  all_goals first
    | (cases h; done)
    | (cases h; exact ⟨rfl, rfl⟩)
    | (obtain ⟨s', hs', rfl⟩ := tr_cases _ _ _ _ h
       first
         | (have := toListenToken_eq hs'; subst this; exact ⟨rfl, rfl⟩)
         | (have := toUseToken_eq hs'; subst this; exact ⟨rfl, rfl⟩))

theorem foldIdleF_hk (now : Int) : ∀ (calls : List (Telegram × Bool)) (c c' : Ctx),
    foldTelegrams (idleF now) c calls = .ok c' → HK c.s c'.s := by
  intro calls
  induction calls with
  | nil => intro c c' h; simp only [foldTelegrams] at h; cases h; exact ⟨rfl, rfl⟩
  | cons x rest ih =>
    intro c c' h
    obtain ⟨t, l⟩ := x
    simp only [foldTelegrams] at h
    cases h1 : idleF now c t l with
    | panic s => rw [h1] at h; cases h
    | ok c1 =>
      rw [h1] at h
      simp only [Res.bind] at h
      unfold idleF at h1
      have a := handleTelegram_hk _ now t l c1 h1
      simp only [upd] at a
      exact ((hk_markRx c.s now).trans a).trans (ih c1 c' h)

/-- Time of the token receipt the station is currently using (`UseTokenData.token_time`). -/
def visitTime : FState → Option Int
  | .useToken d _ => some d.tokenTime
  | .awaitData _ d => some d.tokenTime
  | _ => none

/-- `first_cycle_done` (a station waiting for a reply has started its first cycle). -/
def lateFlag : FState → Bool
  | .useToken _ f => f
  | .awaitData .. => true
  | _ => false

/-- Not in a token visit, or (the token was passed to the station itself) in one that begins now. -/
def NVt (st : FState) (tx : Option Bytes) (now : Int) : Prop :=
  visitTime st = none ∨ visitTime st = some now ∧ lateFlag st = false ∧ ∃ da sa, tx = some (sendToken da sa)

theorem transmit_hk (c : Ctx) (now : Int) (b : Bytes) (c' : Ctx) (h : transmit c now b = .ok c') :
    HK c.s c'.s ∧ c'.s.st = c.s.st ∧ c'.tx = some b := by
  unfold transmit at h
  split at h
  · cases h
  · cases h; exact ⟨hk_markTx _ _ _, rfl, rfl⟩

theorem passTokenOn_hk (c : Ctx) (now : Int) (att : Attempt) (c' : Ctx) (h : passTokenOn c now att = .ok c') :
    HK c.s c'.s ∧ NVt c'.s.st c'.tx now := by
  unfold passTokenOn at h
  dsimp only at h
  cases h1 : transmit c now (sendToken (UInt8.ofNat c.s.ring.ns) (UInt8.ofNat c.s.p.address)) with
  | panic s => rw [h1] at h; cases h
  | ok c1 =>
    rw [h1] at h
    simp only [Res.bind] at h
    obtain ⟨a1, -, a3⟩ := transmit_hk _ _ _ _ h1
    split at h
    · obtain ⟨s', hs', rfl⟩ := tr_cases _ _ _ _ h
      have := toUseToken_eq hs'; subst this
      exact ⟨⟨a1.1, a1.2⟩, Or.inr ⟨rfl, rfl, _, _, a3⟩⟩
    · obtain ⟨s', hs', rfl⟩ := tr_cases _ _ _ _ h
      have := toCheckTokenPass_eq hs'; subst this
      exact ⟨⟨a1.1, a1.2⟩, Or.inl rfl⟩

theorem doPassToken_hk (c : Ctx) (now : Int) (c' : Ctx) (h : doPassToken c now = .ok c') :
    HK c.s c'.s ∧ NVt c'.s.st c'.tx now := by
  unfold doPassToken at h
  split at h
  · rename_i doGap att hst
    dsimp only at h
    have hw : HK c.s (waitSyncPause c.s now).1 ∧ (waitSyncPause c.s now).1.st = c.s.st := by
      unfold waitSyncPause getOrInsertLast
      dsimp only
      split <;> exact ⟨⟨rfl, rfl⟩, rfl⟩
    split at h
    · cases h
      refine ⟨hw.1, Or.inl ?_⟩
      show visitTime (waitSyncPause c.s now).1.st = none
      rw [hw.2, hst]; rfl
    · split at h
      · split at h
        · cases h
        · rename_i g hg
          simp only [upd] at h
          split at h
          · cases h
          · rename_i c2 addr h2
            unfold transmitGapPoll at h2
            dsimp only at h2
            split at h2
            · split at h2
              · cases h2
              · split at h2
                · injection h2 with h2a h2b
                  obtain ⟨b1, -, -⟩ := transmit_hk _ _ _ _ h2a
                  obtain ⟨s', hs', rfl⟩ := tr_cases _ _ _ _ h
                  have := toAwaitStatus_eq hs'; subst this
                  exact ⟨⟨b1.1.trans hw.1.1, b1.2.trans hw.1.2⟩, Or.inl rfl⟩
                · cases h2
            · cases h2
          · rename_i c2 h2
            unfold transmitGapPoll at h2
            dsimp only at h2
            split at h2
            · split at h2
              · cases h2
              · split at h2
                · injection h2 with h2a h2b; cases h2b
                · cases h2
            · injection h2 with h2a h2b
              cases h2a
              obtain ⟨b1, b2⟩ := passTokenOn_hk _ now att c' h
              exact ⟨⟨b1.1.trans hw.1.1, b1.2.trans hw.1.2⟩, b2⟩
      · obtain ⟨b1, b2⟩ := passTokenOn_hk _ now att c' h
        exact ⟨⟨b1.1.trans hw.1.1, b1.2.trans hw.1.2⟩, b2⟩
  · cases h

theorem passNow_hk (c : Ctx) (now : Int) (c' : Ctx) (h : passNow c now = .ok c') :
    HK c.s c'.s ∧ NVt c'.s.st c'.tx now := by
  unfold passNow at h
  cases h1 : tr c (fun s => toPassToken s true .first) "transition_pass_token" with
  | panic s => rw [h1] at h; cases h
  | ok c1 =>
    rw [h1] at h
    simp only [Res.bind] at h
    have a := tr_hk _ _ _ (stHK_toPassToken true .first) _ h1
    obtain ⟨b1, b2⟩ := doPassToken_hk c1 now c' h
    exact ⟨a.trans b1, b2⟩

theorem appTransmit_hk (c : Ctx) (now : Int) (hp : Bool) (d : UseData) (f : Bool) (c1 : Ctx) (b : Bool)
    (hst : c.s.st = .useToken d f) (h : appTransmit c now hp = (.ok c1, b)) :
    HK c.s c1.s ∧ (c1.s.st = .useToken d f ∨ ∃ a, c1.s.st = .awaitData a d) := by
  unfold appTransmit at h
  dsimp only at h
  split at h
  · cases h
  · split at h
    · injection h with h1 h2; cases h1; exact ⟨⟨rfl, rfl⟩, Or.inl hst⟩
    · split at h
      · cases h
      · split at h
        · split at h
          · rename_i d' f' hst'
            have hst2 : c.s.st = .useToken d' f' := hst'
            rw [hst] at hst2; cases hst2
            split at h
            · rename_i s' hs'
              injection h with h1 h2
              obtain ⟨a1, a2, -⟩ := transmit_hk _ _ _ _ h1
              have := toAwaitData_eq hs'; subst this
              exact ⟨⟨a1.1, a1.2⟩, Or.inr ⟨_, a2⟩⟩
            · cases h
          · cases h
        · injection h with h1 h2
          obtain ⟨a1, a2, -⟩ := transmit_hk _ _ _ _ h1
          exact ⟨⟨a1.1, a1.2⟩, Or.inl (a2.trans hst)⟩

theorem appsTransmit_hk (now : Int) (hp : Bool) (tk : Int) (f : Bool) : ∀ (k : Nat) (c c1 : Ctx) (b : Bool),
    (∃ d, c.s.st = .useToken d f ∧ d.tokenTime = tk) → appsTransmit now hp k c = (.ok c1, b) →
    HK c.s c1.s ∧ visitTime c1.s.st = some tk ∧ (lateFlag c1.s.st = f ∨ lateFlag c1.s.st = true) := by
  intro k
  induction k with
  | zero =>
    intro c c1 b ⟨d, hst, hd⟩ h
    simp only [appsTransmit] at h
    injection h with h1 h2; cases h1
    exact ⟨⟨rfl, rfl⟩, by rw [hst]; simp only [visitTime, hd], Or.inl (by rw [hst]; rfl)⟩
  | succ k ih =>
    intro c c1 b ⟨d, hst, hd⟩ h
    simp only [appsTransmit] at h
    split at h
    · cases h
    · rename_i c2 h2
      injection h with h1 h3; cases h1
      obtain ⟨a1, a2⟩ := appTransmit_hk c now hp d f _ _ hst h2
      refine ⟨a1, ?_, ?_⟩
      · rcases a2 with a2 | ⟨a, a2⟩ <;> rw [a2] <;> simp only [visitTime, hd]
      · rcases a2 with a2 | ⟨a, a2⟩ <;> rw [a2]
        · exact Or.inl rfl
        · exact Or.inr rfl
    · rename_i c2 h2
      obtain ⟨a1, a2⟩ := appTransmit_hk c now hp d f _ _ hst h2
      split at h
      · rename_i d' f' hst'
        have hdf : d' = d ∧ f' = f := by
          rcases a2 with a2 | ⟨a, a2⟩
          · rw [a2] at hst'; cases hst'; exact ⟨rfl, rfl⟩
          · rw [a2] at hst'; cases hst'
        obtain ⟨hd', hf'⟩ := hdf
        subst hd' hf'
        split at h
        · injection h with h1 h3; cases h1
          exact ⟨a1, by simp only [upd, visitTime, hd], Or.inl rfl⟩
        · obtain ⟨b1, b2, b3⟩ := ih _ c1 b ⟨{ d' with firstApp := some (d'.firstApp.getD c2.s.nextApp) }, rfl, hd⟩ h
          exact ⟨a1.trans ⟨b1.1, b1.2⟩, b2, b3⟩
      · cases h

/-- Outcome of a visit step: still the same visit, or the token has been passed on (possibly to the
station itself when it is alone). -/
def VisOut (st : FState) (tx : Option Bytes) (tk now : Int) : Prop :=
  visitTime st = some tk ∧ lateFlag st = true ∨ NVt st tx now

theorem useTokenGo_hk (c : Ctx) (now : Int) (d : UseData) (hp : Bool) (c' : Ctx)
    (h : useTokenGo c now d hp = .ok c') : HK c.s c'.s ∧ VisOut c'.s.st c'.tx d.tokenTime now := by
  unfold useTokenGo at h
  dsimp only at h
  split at h
  · cases h
  · rename_i c1 h1
    cases h
    obtain ⟨a1, a2, a3⟩ := appsTransmit_hk now hp d.tokenTime true _ _ c' _ ⟨d, rfl, rfl⟩ h1
    refine ⟨a1, Or.inl ⟨a2, ?_⟩⟩
    rcases a3 with a3 | a3 <;> exact a3
  · rename_i c1 h1
    obtain ⟨a1, -, -⟩ := appsTransmit_hk now hp d.tokenTime true _ _ c1 _ ⟨d, rfl, rfl⟩ h1
    obtain ⟨b1, b2⟩ := passNow_hk c1 now c' h
    exact ⟨HK.trans a1 b1, Or.inr b2⟩

theorem holdUpdate_last (s : Station) (d : UseData) : (holdUpdate s d).lastTokenTime = d.tokenTime := by
  unfold holdUpdate
  split
  · rfl
  · rename_i h; simpa using h

theorem holdUpdate_st (s : Station) (d : UseData) : (holdUpdate s d).st = s.st ∧ (holdUpdate s d).p = s.p := by
  unfold holdUpdate; split <;> exact ⟨rfl, rfl⟩

/-- `do_use_token` and the hold-time bookkeeping: the two fields are those of `holdUpdate`; the station
stays in the visit, or passes the token; and a message cycle is started only before the hold deadline
or as the first cycle of the visit. -/
theorem doUseToken_hk (c : Ctx) (now : Int) (d : UseData) (fcd : Bool) (c' : Ctx)
    (hst : c.s.st = .useToken d fcd) (htx : c.tx = none) (h : doUseToken c now = .ok c') :
    HK (holdUpdate c.s d) c'.s ∧
    (c'.s.st = .useToken d fcd ∧ c'.tx = none ∨ VisOut c'.s.st c'.tx d.tokenTime now) ∧
    (c'.tx ≠ none → lateFlag c'.s.st = true →
      now < (holdUpdate c.s d).endTokenHoldTime ∨ fcd = false) := by
  unfold doUseToken at h
  rw [hst] at h
  dsimp only at h
  have hw : HK (holdUpdate c.s d) (waitSyncPause (holdUpdate c.s d) now).1 ∧
      (waitSyncPause (holdUpdate c.s d) now).1.st = c.s.st := by
    unfold waitSyncPause getOrInsertLast
    dsimp only
    split <;> exact ⟨⟨rfl, rfl⟩, (holdUpdate_st c.s d).1⟩
  split at h
  · cases h
    refine ⟨hw.1, Or.inl ⟨hw.2.trans hst, htx⟩, ?_⟩
    intro h1; exact absurd htx h1
  · split at h
    · rename_i hlt
      obtain ⟨a1, a2⟩ := useTokenGo_hk _ now d false c' h
      exact ⟨hw.1.trans a1, Or.inr a2, fun _ _ => Or.inl (by rw [← hw.1.2]; exact hlt)⟩
    · split at h
      · rename_i hf
        obtain ⟨a1, a2⟩ := useTokenGo_hk _ now d true c' h
        refine ⟨hw.1.trans a1, Or.inr a2, fun _ _ => Or.inr ?_⟩
        cases fcd
        · rfl
        · simp at hf
      · obtain ⟨a1, a2⟩ := passNow_hk _ now c' h
        refine ⟨hw.1.trans a1, Or.inr (Or.inr a2), ?_⟩
        intro _ hl
        rcases a2 with a2 | ⟨a2, a3, -⟩
        · exfalso
          revert hl a2
          cases c'.s.st <;> simp [visitTime, lateFlag]
        · rw [a3] at hl; cases hl

/-! ## The handlers of the other states leave the hold-time bookkeeping alone -/

/-- Not in a token visit, or in one that begins right now. -/
def NVs (st : FState) (now : Int) : Prop := visitTime st = none ∨ visitTime st = some now ∧ lateFlag st = false

theorem NVt.nvs {st : FState} {tx : Option Bytes} {now : Int} (h : NVt st tx now) : NVs st now :=
  h.imp id (fun h => ⟨h.1, h.2.1⟩)

theorem hk_getOrInsert (s : Station) (now : Int) : HK s (getOrInsertLast s now).1 ∧ (getOrInsertLast s now).1.st = s.st := by
  unfold getOrInsertLast
  split <;> exact ⟨⟨rfl, rfl⟩, rfl⟩

theorem handleTelegram_nvs (c : Ctx) (now : Int) (t : Telegram) (isLast : Bool) (c' : Ctx)
    (h : handleTelegram c now t isLast = .ok c') : NVs c'.s.st now := by
  unfold handleTelegram at h
  dsimp only at h
  split at h
  · rename_i hst; cases h; exact Or.inl (by rw [hst]; rfl)
  · rename_i sr np coll hst
    repeat' split at h
    all_goals first
      | (cases h; done)
      | (cases h; exact Or.inl rfl)
      | (cases h; exact Or.inl (by rw [hst]; rfl))
      | (obtain ⟨s', hs', rfl⟩ := tr_cases _ _ _ _ h
         first
           | (have := toListenToken_eq hs'; subst this; exact Or.inl rfl)
           | (have := toUseToken_eq hs'; subst this; exact Or.inr ⟨rfl, rfl⟩))
  · cases h

theorem foldIdleF_nvs (now : Int) : ∀ (calls : List (Telegram × Bool)) (c c' : Ctx), NVs c.s.st now →
    foldTelegrams (idleF now) c calls = .ok c' → NVs c'.s.st now := by
  intro calls
  induction calls with
  | nil => intro c c' h0 h; simp only [foldTelegrams] at h; cases h; exact h0
  | cons x rest ih =>
    intro c c' h0 h
    obtain ⟨t, l⟩ := x
    simp only [foldTelegrams] at h
    cases h1 : idleF now c t l with
    | panic s => rw [h1] at h; cases h
    | ok c1 =>
      rw [h1] at h
      simp only [Res.bind] at h
      unfold idleF at h1
      exact ih c1 c' (handleTelegram_nvs _ now t l c1 h1) h

/-- A claim of the token (first step) does not touch the bookkeeping. -/
theorem doClaimFirst_hk (c : Ctx) (now : Int) (fuel : Nat) (c' : Ctx) (hst : c.s.st = .claimToken .firstToken)
    (h : doClaimToken c now fuel = .ok c') : HK c.s c'.s ∧ visitTime c'.s.st = none := by
  cases fuel with
  | zero => unfold doClaimToken at h; cases h
  | succ fuel =>
    unfold doClaimToken at h
    simp only [hst] at h
    have hw : HK c.s (waitSyncPause c.s now).1 ∧ (waitSyncPause c.s now).1.st = c.s.st := hk_getOrInsert c.s now
    split at h
    · cases h
      exact ⟨hw.1, by show visitTime (waitSyncPause c.s now).1.st = none; rw [hw.2, hst]; rfl⟩
    · obtain ⟨c1, h1, h2⟩ := bind_ok_inv h
      obtain ⟨a1, -, -⟩ := transmit_hk _ _ _ _ h1
      cases h2
      exact ⟨hw.1.trans ⟨a1.1, a1.2⟩, rfl⟩

theorem handleLostToken_hk (c : Ctx) (now : Int) (c1 : Ctx) (o : Option Res) (h : handleLostToken c now = (c1, o)) :
    HK c.s c1.s ∧ c1.s.st = c.s.st ∧ c1.tx = c.tx ∧ c1.rx = c.rx ∧
    (∀ r c', o = some r → r = .ok c' → HK c.s c'.s ∧ visitTime c'.s.st = none) := by
  unfold handleLostToken at h
  simp only at h
  have hg := hk_getOrInsert c.s now
  split at h
  · split at h
    · simp only [Prod.mk.injEq] at h
      obtain ⟨h1, h2⟩ := h
      subst h1
      refine ⟨hg.1, hg.2, rfl, rfl, ?_⟩
      intro r c' ho hr; rw [← h2] at ho; cases ho; cases hr
    · rename_i s'' hs''
      simp only [Prod.mk.injEq] at h
      obtain ⟨h1, h2⟩ := h
      subst h1
      refine ⟨hg.1, hg.2, rfl, rfl, ?_⟩
      intro r c' ho hr
      rw [← h2] at ho
      cases ho
      have := toClaimToken_inv hs''
      subst this
      obtain ⟨a1, a2⟩ := doClaimFirst_hk _ now 2 c' rfl hr
      exact ⟨hg.1.trans ⟨a1.1, a1.2⟩, a2⟩
  · simp only [Prod.mk.injEq] at h
    obtain ⟨h1, h2⟩ := h
    subst h1
    refine ⟨hg.1, hg.2, rfl, rfl, ?_⟩
    intro r c' ho; rw [← h2] at ho; cases ho

theorem doActiveIdle_hk (c : Ctx) (now : Int) (c' : Ctx) (h : doActiveIdle c now = .ok c') :
    HK c.s c'.s ∧ NVs c'.s.st now := by
  unfold doActiveIdle at h
  split at h
  · rcases hl : handleLostToken c now with ⟨c1, _ | r⟩
    · obtain ⟨a1, a2, -, -, -⟩ := handleLostToken_hk c now c1 none hl
      rw [hl] at h
      simp only at h
      split at h
      · rename_i src np coll hsc
        have hw := hk_getOrInsert c1.s now
        split at h
        · cases h
          have e : visitTime (waitSyncPause c1.s now).1.st = none := by
            rw [show (waitSyncPause c1.s now).1.st = c1.s.st from hw.2, hsc]; rfl
          exact ⟨a1.trans hw.1, Or.inl e⟩
        · obtain ⟨c2, h1, h2⟩ := bind_ok_inv h
          obtain ⟨b, rfl⟩ := encodeOrPanic_inv h1
          cases h2
          exact ⟨a1.trans (hw.1.trans (hk_markTx _ now b.length)), Or.inl rfl⟩
      · rename_i np coll hsc
        split at h
        · cases h
        · cases h
        · rename_i rx' calls ret hrx
          have hf : HK c1.s c'.s := foldIdleF_hk now calls { c1 with rx := rx' } c' h
          have e : visitTime c1.s.st = none := by rw [hsc]; rfl
          exact ⟨a1.trans hf, foldIdleF_nvs now calls { c1 with rx := rx' } c' (Or.inl e) h⟩
      · cases h
    · obtain ⟨-, -, -, -, a5⟩ := handleLostToken_hk c now c1 (some r) hl
      rw [hl] at h
      simp only at h
      obtain ⟨b1, b2⟩ := a5 r c' rfl h
      exact ⟨b1, Or.inl b2⟩
  · cases h

theorem doCheckTokenPass_hk (c : Ctx) (now : Int) (c' : Ctx) (h : doCheckTokenPass c now = .ok c') :
    HK c.s c'.s ∧ NVs c'.s.st now := by
  unfold doCheckTokenPass at h
  split at h
  · rename_i att hst
    have hw := hk_getOrInsert c.s now
    dsimp only at h
    split at h
    · obtain ⟨c1, h1, h2⟩ := bind_ok_inv h
      have hc1 : HK c.s c1.s := by
        cases att with
        | first => exact hw.1.trans (tr_hk _ _ _ (stHK_toPassToken false .second) _ h1)
        | second => exact hw.1.trans (tr_hk _ _ _ (stHK_toPassToken false .third) _ h1)
        | third =>
          simp only at h1
          split at h1
          · cases h1
          · exact hw.1.trans (tr_hk _ _ _ (stHK_toPassToken false .first) _ h1)
      obtain ⟨b1, b2⟩ := doPassToken_hk c1 now c' h2
      exact ⟨hc1.trans b1, b2.nvs⟩
    · split at h
      · cases h
      · cases h
      · rename_i rx' calls ret hrx
        split at h
        · cases h
          have e : visitTime (checkSlotExpired c.s now).1.st = none := by
            rw [show (checkSlotExpired c.s now).1.st = c.s.st from hw.2, hst]; rfl
          exact ⟨hw.1, Or.inl e⟩
        · rename_i t l rest
          obtain ⟨c1, h1, h2⟩ := bind_ok_inv h
          obtain ⟨c2, h3, h4⟩ := bind_ok_inv h2
          have e1 := tr_hk _ _ _ stHK_toActiveIdle _ h1
          have e2 := handleTelegram_hk _ now t l c2 h3
          have e3 : HK c2.s c'.s := foldIdleF_hk now rest c2 c' h4
          refine ⟨((hw.1.trans (hk_markRx _ now)).trans e1).trans (e2.trans e3), ?_⟩
          exact foldIdleF_nvs now rest c2 c' (handleTelegram_nvs _ now t l c2 h3) h4
  · cases h

theorem awaitGap_hk (c : Ctx) (now : Int) (addr : Nat) (c1 : Ctx) (g : GapPollResponse)
    (h : awaitGapPollResponse c now addr = (.ok c1, g)) : HK c.s c1.s ∧ c1.s.st = c.s.st := by
  unfold awaitGapPollResponse at h
  have hw := hk_getOrInsert c.s now
  split at h
  · cases h
  split at h
  · cases h
  split at h
  · cases h
  · cases h
  · simp only [Prod.mk.injEq, Res.ok.injEq] at h
    obtain ⟨h1, -⟩ := h
    subst h1
    exact ⟨hw.1, hw.2⟩
  · simp only at h
    repeat' split at h
    all_goals first
      | (cases h; done)
      | (simp only [Prod.mk.injEq, Res.ok.injEq, upd] at h
         obtain ⟨h1, -⟩ := h
         subst h1
         exact ⟨hk_markRx _ now, by simp [markRx, markBusActivity]⟩)

theorem doAwaitStatus_hk (c : Ctx) (now : Int) (c' : Ctx) (h : doAwaitStatusResponse c now = .ok c') :
    HK c.s c'.s ∧ NVs c'.s.st now := by
  unfold doAwaitStatusResponse at h
  split at h
  · rename_i addr hst
    rcases hg : awaitGapPollResponse c now addr with ⟨r, g⟩
    rw [hg] at h
    cases r with
    | panic m => cases h
    | ok c1 =>
      obtain ⟨a1, a2⟩ := awaitGap_hk c now addr c1 g hg
      cases g with
      | waitingForBus =>
        cases h
        exact ⟨a1, Or.inl (by rw [a2, hst]; rfl)⟩
      | responded =>
        simp only at h
        obtain ⟨s', hs', rfl⟩ := tr_cases _ _ _ _ h
        have := toPassToken_eq hs'; subst this
        exact ⟨⟨a1.1, a1.2⟩, Or.inl rfl⟩
      | noResponse =>
        simp only at h
        obtain ⟨c2, h1, h2⟩ := bind_ok_inv h
        have e1 := tr_hk _ _ _ (stHK_toPassToken false .first) _ h1
        obtain ⟨b1, b2⟩ := doPassToken_hk c2 now c' h2
        exact ⟨(a1.trans e1).trans b1, b2.nvs⟩
      | unexpected =>
        simp only at h
        obtain ⟨s', hs', rfl⟩ := tr_cases _ _ _ _ h
        have hh := stHK_toActiveIdle _ _ hs'
        unfold toActiveIdle at hs'
        split at hs' <;> first | (cases hs'; exact ⟨a1.trans ⟨rfl, rfl⟩, Or.inl rfl⟩) | cases hs'
  · cases h

/-! ## One poll and the hold-time bookkeeping -/

/-- The bookkeeping is untouched, or this was the first `do_use_token` of the visit that began at `tk`:
`last_token_time` becomes `tk` and the hold deadline is at most the previous receipt + TTR. -/
def F1 (s : Station) (c' : Ctx) (tk : Int) : Prop :=
  HK s c'.s ∨ (s.lastTokenTime ≠ tk ∧ c'.s.lastTokenTime = tk ∧
    c'.s.endTokenHoldTime ≤ s.lastTokenTime + ((s.p.ttrTime : Nat) : Int))

theorem holdUpdate_F1 (s s1 : Station) (d : UseData) (c' : Ctx) (h1 : HK s s1) (hp : s1.p = s.p)
    (h2 : HK (holdUpdate s1 d) c'.s) : F1 s c' d.tokenTime := by
  unfold holdUpdate at h2
  split at h2
  · rename_i hne
    refine Or.inr ⟨by rw [← h1.1]; exact hne, h2.1, ?_⟩
    rw [h2.2]
    simp only
    rw [h1.1, hp]
    split <;> omega
  · exact Or.inl (h1.trans h2)

/-- **What one poll does to the hold-time bookkeeping** (`st` = state before, `c'` = result). -/
structure HoldRel (s : Station) (c' : Ctx) (now : Int) : Prop where
  upd : ∀ tk, visitTime s.st = some tk → F1 s c' tk
  keep : visitTime s.st = none → HK s c'.s
  vis : c'.s.st = s.st ∨ (visitTime c'.s.st = visitTime s.st ∧ visitTime s.st ≠ none ∧ lateFlag c'.s.st = true) ∨ NVs c'.s.st now
  guard : c'.tx ≠ none → lateFlag c'.s.st = true → now < c'.s.endTokenHoldTime ∨ lateFlag s.st = false
  cls : ∀ tk, visitTime s.st = some tk → (c'.s.st = s.st ∧ c'.tx = none) ∨ (visitTime c'.s.st = some tk ∧ lateFlag c'.s.st = true) ∨
    visitTime c'.s.st = none ∨ ∃ da sa, c'.tx = some (sendToken da sa)
  recd : ∀ tk, visitTime s.st = some tk → c'.tx ≠ none → c'.s.lastTokenTime = tk

theorem doUseToken_rel (c : Ctx) (now : Int) (d : UseData) (fcd : Bool) (c' : Ctx)
    (hst : c.s.st = .useToken d fcd) (htx : c.tx = none) (h : doUseToken c now = .ok c') : HoldRel c.s c' now := by
  obtain ⟨a1, a2, a3⟩ := doUseToken_hk c now d fcd c' hst htx h
  refine ⟨?_, ?_, ?_, ?_, ?_, ?_⟩
  · intro tk htk
    rw [hst] at htk
    cases htk
    exact holdUpdate_F1 c.s c.s d c' (HK.rfl' _) rfl a1
  · intro hn; rw [hst] at hn; cases hn
  · rcases a2 with ⟨b1, -⟩ | ⟨b1, b2⟩ | b1
    · exact .inl (b1.trans hst.symm)
    · exact .inr (.inl ⟨by rw [b1, hst]; rfl, by rw [hst]; simp [visitTime], b2⟩)
    · exact .inr (.inr b1.nvs)
  · intro h1 h2
    rcases a3 h1 h2 with b | b
    · exact .inl (by rw [a1.2]; exact b)
    · exact .inr (by rw [hst]; exact b)
  · intro tk htk
    rw [hst] at htk; cases htk
    rcases a2 with ⟨b1, b2⟩ | ⟨b1, b2⟩ | b1 | ⟨-, -, b3⟩
    · exact .inl ⟨b1.trans hst.symm, b2⟩
    · exact .inr (.inl ⟨b1, b2⟩)
    · exact .inr (.inr (.inl b1))
    · exact .inr (.inr (.inr b3))
  · intro tk htk _
    rw [hst] at htk; cases htk
    rw [a1.1]; exact holdUpdate_last c.s d

theorem doAwaitData_rel (c : Ctx) (now : Int) (a : Nat) (d : UseData) (c' : Ctx)
    (hst : c.s.st = .awaitData a d) (htx : c.tx = none) (h : doAwaitDataResponse c now = .ok c') : HoldRel c.s c' now := by
  unfold doAwaitDataResponse at h
  simp only [hst] at h
  split at h
  · cases h
  have hv : visitTime c.s.st = some d.tokenTime := by rw [hst]; rfl
  have back : ∀ (c0 c1 : Ctx),
      ((tr c0 (fun s => toUseToken s d) "transition_use_token").bind fun c =>
        .ok (upd c fun s => { s with st := .useToken d true })) = .ok c1 → HK c.s c0.s → c0.tx = none →
      HK c.s c1.s ∧ c1.s.st = .useToken d true ∧ c1.tx = none := by
    intro c0 c1 hb e1 e2
    obtain ⟨c2, h1, h2⟩ := bind_ok_inv hb
    obtain ⟨s', hs', rfl⟩ := tr_cases _ _ _ _ h1
    have := toUseToken_eq hs'; subst this
    cases h2
    exact ⟨⟨e1.1, e1.2⟩, rfl, e2⟩
  have done : ∀ c1 : Ctx, HK c.s c1.s → c1.s.st = .useToken d true → c1.tx = none → HoldRel c.s c1 now := by
    intro c1 e1 e2 e3
    refine ⟨fun tk _ => .inl e1, fun _ => e1, .inr (.inl ⟨by rw [e2, hst]; rfl, by rw [hv]; simp, by rw [e2]; rfl⟩),
      fun hh => absurd e3 hh, ?_, fun _ _ hh => absurd e3 hh⟩
    intro tk htk
    rw [hv] at htk; cases htk
    exact .inr (.inl ⟨by rw [e2]; rfl, by rw [e2]; rfl⟩)
  split at h
  · cases h
  · cases h
  · -- a telegram was received
    rcases ite_inv h with ⟨_, h⟩ | ⟨_, h⟩
    · obtain ⟨e1, e2, e3⟩ := back _ c' h (hk_markRx c.s now) htx
      exact done c' e1 e2 e3
    · obtain ⟨s', hs', rfl⟩ := tr_cases _ _ _ _ h
      have e := stHK_toActiveIdle _ _ hs'
      have est : s'.st = .activeIdle none none 0 := by
        unfold toActiveIdle at hs'
        split at hs' <;> first | (cases hs'; rfl) | cases hs'
      have hk : HK c.s s' := (hk_markRx c.s now).trans e
      exact ⟨fun tk _ => .inl hk, fun _ => hk, .inr (.inr (.inl (by show visitTime s'.st = none; rw [est]; rfl))),
        (fun hh => absurd htx hh), (fun _ _ => .inr (.inr (.inl (by show visitTime s'.st = none; rw [est]; rfl)))),
        (fun _ _ hh => absurd htx hh)⟩
  · -- nothing received
    have hw := hk_getOrInsert c.s now
    rcases ite_inv h with ⟨_, h⟩ | ⟨_, h⟩
    · obtain ⟨c2, h1, h2⟩ := bind_ok_inv h
      obtain ⟨e1, e2, e3⟩ := back _ c2 h1 hw.1 htx
      obtain ⟨a1, a2, a3⟩ := doUseToken_hk c2 now d true c' e2 e3 h2
      have hp2 : c2.s.p = c.s.p := by
        obtain ⟨c3, h3, h4⟩ := bind_ok_inv h1
        obtain ⟨s', hs', rfl⟩ := tr_cases _ _ _ _ h3
        have := toUseToken_eq hs'; subst this
        cases h4
        exact getOrInsert_p c.s now
      refine ⟨?_, ?_, ?_, ?_, ?_, ?_⟩
      · intro tk htk
        rw [hv] at htk; cases htk
        exact holdUpdate_F1 c.s c2.s d c' e1 hp2 a1
      · intro hn; rw [hv] at hn; cases hn
      · rcases a2 with ⟨b1, -⟩ | ⟨b1, b2⟩ | b1
        · exact .inr (.inl ⟨by rw [b1, hst]; rfl, by rw [hv]; simp, by rw [b1]; rfl⟩)
        · exact .inr (.inl ⟨by rw [b1, hst]; rfl, by rw [hv]; simp, b2⟩)
        · exact .inr (.inr b1.nvs)
      · intro h1' h2'
        rcases a3 h1' h2' with b | b
        · exact .inl (by rw [a1.2]; exact b)
        · cases b
      · intro tk htk
        rw [hv] at htk; cases htk
        rcases a2 with ⟨b1, -⟩ | ⟨b1, b2⟩ | b1 | ⟨-, -, b3⟩
        · exact .inr (.inl ⟨by rw [b1]; rfl, by rw [b1]; rfl⟩)
        · exact .inr (.inl ⟨b1, b2⟩)
        · exact .inr (.inr (.inl b1))
        · exact .inr (.inr (.inr b3))
      · intro tk htk _
        rw [hv] at htk; cases htk
        rw [a1.1]; exact holdUpdate_last c2.s d
    · cases h
      exact ⟨fun tk _ => .inl hw.1, fun _ => hw.1, .inl hw.2, fun hh => absurd htx hh,
        (fun tk htk => .inl ⟨hw.2, htx⟩),
        (fun _ _ hh => absurd htx hh)⟩

theorem lateFlag_of_none (st : FState) (h : visitTime st = none) : lateFlag st = false := by
  cases st <;> first | rfl | (simp [visitTime] at h)

theorem HoldRel.of_nv {s : Station} {c' : Ctx} {now : Int} (hv : visitTime s.st = none) (h1 : HK s c'.s)
    (h2 : NVs c'.s.st now) : HoldRel s c' now := by
  refine ⟨fun tk htk => (by rw [hv] at htk; cases htk), fun _ => h1, .inr (.inr h2), ?_,
    fun tk htk => (by rw [hv] at htk; cases htk), fun tk htk => (by rw [hv] at htk; cases htk)⟩
  intro _ hl
  rcases h2 with h2 | ⟨-, h2⟩
  · rw [lateFlag_of_none _ h2] at hl; cases hl
  · rw [h2] at hl; cases hl

theorem HoldRel.of_eq {s s0 : Station} {c' : Ctx} {now : Int} (h1 : HK s s0) (h2 : s0.st = s.st) (h3 : s0.p = s.p)
    (h : HoldRel s0 c' now) : HoldRel s c' now := by
  refine ⟨?_, ?_, ?_, ?_, ?_, ?_⟩
  · intro tk htk
    rcases h.upd tk (by rw [h2]; exact htk) with a | ⟨a1, a2, a3⟩
    · exact .inl (h1.trans a)
    · exact .inr ⟨by rw [← h1.1]; exact a1, a2, by rw [← h1.1, ← h3]; exact a3⟩
  · intro hn; exact h1.trans (h.keep (by rw [h2]; exact hn))
  · rw [← h2]; exact h.vis
  · rw [← h2]; exact h.guard
  · rw [← h2]; exact h.cls
  · rw [← h2]; exact h.recd

/-- States of a station in a running ring. -/
def RingState (st : FState) : Prop :=
  (∃ sr np coll, st = .activeIdle sr np coll) ∨ (∃ att, st = .checkTokenPass att) ∨ (∃ a, st = .awaitStatus a) ∨
  (∃ d f, st = .useToken d f) ∨ (∃ a d, st = .awaitData a d)

/-- **Only `do_use_token` writes the hold-time bookkeeping**, at most once per visit; and an application
message cycle starts only before the deadline or as the first cycle of the visit. -/
theorem poll_holdRel (s : Station) (apps : Apps) (now : Int) (phy : Bool) (rx : Bytes) (c : Ctx)
    (hon : s.online = true) (hst : RingState s.st) (h : s.poll apps now phy rx = .ok c) : HoldRel s c now := by
  have hno : s.st ≠ .offline ∧ s.st ≠ .passiveIdle := by
    rcases hst with ⟨_, _, _, e⟩ | ⟨_, e⟩ | ⟨_, e⟩ | ⟨_, _, e⟩ | ⟨_, _, e⟩ <;> rw [e] <;> simp
  unfold Station.poll pollInner at h
  rw [if_neg (by simp [hon]), pollStart_awake _ hno.1 hno.2] at h
  simp only [Res.bind] at h
  rcases ite_inv h with ⟨_, h⟩ | ⟨_, h⟩
  · cases h
    have hk : HK s (markBusActivity s now) := by simp [HK, markBusActivity]
    have hs : (markBusActivity s now).st = s.st := by simp [markBusActivity]
    exact ⟨fun tk _ => .inl hk, fun _ => hk, .inl hs, fun hh => absurd rfl hh,
      (fun tk htk => .inl ⟨hs, rfl⟩), (fun _ _ hh => absurd rfl hh)⟩
  · obtain ⟨f1, f2, -, -, -, -, f7, f8⟩ := checkBA_fields s now rx.length
    refine HoldRel.of_eq (s0 := checkBusActivity s now rx.length) ⟨f7, f8⟩ f1 f2 ?_
    simp only [upd] at h
    unfold dispatch at h
    rcases hst with ⟨sr, np, coll, e⟩ | ⟨att, e⟩ | ⟨a, e⟩ | ⟨d, f, e⟩ | ⟨a, d, e⟩
    · simp only [f1, e] at h
      obtain ⟨a1, a2⟩ := doActiveIdle_hk _ now c h
      exact HoldRel.of_nv (by rw [f1, e]; rfl) a1 a2
    · simp only [f1, e] at h
      obtain ⟨a1, a2⟩ := doCheckTokenPass_hk _ now c h
      exact HoldRel.of_nv (by rw [f1, e]; rfl) a1 a2
    · simp only [f1, e] at h
      obtain ⟨a1, a2⟩ := doAwaitStatus_hk _ now c h
      exact HoldRel.of_nv (by rw [f1, e]; rfl) a1 a2
    · simp only [f1, e] at h
      exact doUseToken_rel _ now d f c (f1.trans e) rfl h
    · simp only [f1, e] at h
      exact doAwaitData_rel _ now a d c (f1.trans e) rfl h

end PV
