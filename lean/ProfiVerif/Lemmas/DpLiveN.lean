/-
Several peripherals on one master (property C07): the `loop` of `transmit_telegram` over dense storage
visits consecutive slots — each exactly once — until one of them sends or ends the turn; with one
reference slave per peripheral on the bus each visit is a `PJ.visit` of that slot's pair and touches no
other slot.
-/
import ProfiVerif.Lemmas.DpLiveDense
import ProfiVerif.Lemmas.DpLiveRuns
import ProfiVerif.Lemmas.DpLiveReply
import ProfiVerif.Lemmas.DpLiveMasterRun
import ProfiVerif.Model.Dp.LiveN

namespace PV.Live
open PV PV.Dp

/-- Outcome of the loop started at slot `i`: the slots `i … j-1` declined silently, slot `j` decided. -/
inductive LoopRes (fp : FdlParams) (op : OpState) (ps : List Peripheral) (k i : Nat) (m : Master) : MTx → Prop
  | send (j : Nat) (ps' : List Peripheral) (h : Header) (pdu : Bytes) :
      i ≤ j → j < ps.length → ps'.length = ps.length →
      (∀ l, i ≤ l → l < j → (ps.getD l default).transmit fp op = .decline (ps'.getD l default) none) →
      (∀ l, l < i ∨ j < l → ps'.getD l default = ps.getD l default) →
      (ps.getD j default).transmit fp op = .send (ps'.getD j default) h pdu →
      LoopRes fp op ps k i m (.send { m with slots := denseSlots ps' k, cycle := .dx j, lastEvents := {} } h pdu)
  | stop (j : Nat) (ps' : List Peripheral) (ev : Option PEvent) :
      i ≤ j → j < ps.length → ps'.length = ps.length →
      (∀ l, i ≤ l → l < j → (ps.getD l default).transmit fp op = .decline (ps'.getD l default) none) →
      (∀ l, l < i ∨ j < l → ps'.getD l default = ps.getD l default) →
      (ps.getD j default).transmit fp op = .decline (ps'.getD j default) ev →
      (ev = none → j + 1 = ps.length) →
      LoopRes fp op ps k i m
        (.none { m with slots := denseSlots ps' k,
                        cycle := if j + 1 < ps.length then .dx (j + 1) else .dx 0,
                        lastEvents := { cycleCompleted := !decide (j + 1 < ps.length),
                                        peripheral := ev.map fun e => { index := j, address := (ps.getD j default).address, ev := e } } })

theorem getD_set_ne {ps : List Peripheral} {i l : Nat} (p' : Peripheral) (h : l ≠ i) :
    (ps.set i p').getD l default = ps.getD l default := by
  simp [List.getD_eq_getElem?_getD, List.getElem?_set, Ne.symm h]

theorem getD_set_eq {ps : List Peripheral} {i : Nat} (p' : Peripheral) (h : i < ps.length) :
    (ps.set i p').getD i default = p' := by
  simp [List.getD_eq_getElem?_getD, List.getElem?_set, h]

theorem getD_getElem {ps : List Peripheral} {i : Nat} (h : i < ps.length) : ps.getD i default = ps[i] := by
  simp [List.getD_eq_getElem?_getD, h]

/-- **The loop of `transmit_telegram` over dense storage.** -/
theorem txLoop_dense {fp : FdlParams} {k : Nat} : ∀ (d : Nat) (ps : List Peripheral) (i : Nat) (m : Master) (fuel : Nat),
    ps.length - i = d → i < ps.length → ps.length ≤ 256 → d < fuel →
    m.slots = denseSlots ps k → m.cycle = .dx i →
    (∀ l, i ≤ l → l < ps.length → (ps.getD l default).transmit fp m.op ≠ .panic) →
    LoopRes fp m.op ps k i m (Master.txLoop fp fuel m) := by
  intro d
  induction d with
  | zero => intro ps i m fuel hd hi; omega
  | succ d ih =>
    intro ps i m fuel hd hi hn hf hs hc hnp
    obtain ⟨fuel', rfl⟩ : ∃ f, fuel = f + 1 := ⟨fuel - 1, by omega⟩
    rw [txLoop_dense_step hs hc hi hn]
    have hpi := getD_getElem hi
    have hnpi := hnp i (Nat.le_refl i) hi
    rw [hpi] at hnpi
    cases ht : ps[i].transmit fp m.op with
    | panic => exact absurd ht hnpi
    | send p' h pdu =>
      simp only
      have := LoopRes.send (fp := fp) (op := m.op) (ps := ps) (k := k) (i := i) (m := m) i (ps.set i p') h pdu
        (Nat.le_refl i) hi (by simp) (by intro l h1 h2; omega)
        (by intro l hl; exact getD_set_ne p' (by omega)) (by rw [hpi, getD_set_eq p' hi]; exact ht)
      rw [hc]
      exact this
    | decline p' ev =>
      cases ev with
      | some e =>
        simp only
        have := LoopRes.stop (fp := fp) (op := m.op) (ps := ps) (k := k) (i := i) (m := m) i (ps.set i p') (some e)
          (Nat.le_refl i) hi (by simp) (by intro l h1 h2; omega)
          (by intro l hl; exact getD_set_ne p' (by omega)) (by rw [hpi, getD_set_eq p' hi]; exact ht)
          (by intro h; cases h)
        simp only [Option.map_some, hpi] at this
        exact this
      | none =>
        simp only
        by_cases h1 : i + 1 < ps.length
        · rw [if_pos h1]
          -- the loop goes on at slot i + 1
          have hlen : (ps.set i p').length = ps.length := by simp
          have hrec := ih (ps.set i p') (i + 1)
            { m with slots := denseSlots (ps.set i p') k, cycle := .dx (i + 1) } fuel'
            (by rw [hlen]; omega) (by rw [hlen]; exact h1) (by rw [hlen]; exact hn) (by omega) rfl rfl
            (by intro l hl1 hl2
                rw [getD_set_ne p' (by omega)]
                exact hnp l (by omega) (by rw [hlen] at hl2; exact hl2))
          generalize Master.txLoop fp fuel'
            { m with slots := denseSlots (ps.set i p') k, cycle := .dx (i + 1) } = res at hrec ⊢
          cases hrec with
          | send j ps' h pdu hj1 hj2 hl hdec hout hsend =>
            rw [hlen] at hj2 hl
            have := LoopRes.send (fp := fp) (op := m.op) (ps := ps) (k := k) (i := i) (m := m) j ps' h pdu
              (by omega) hj2 hl
              (by intro l hl1 hl2
                  by_cases hli : l = i
                  · subst hli
                    rw [hpi, hout l (Or.inl (by omega)), getD_set_eq p' hi]; exact ht
                  · have := hdec l (by omega) hl2
                    rw [getD_set_ne p' hli] at this; exact this)
              (by intro l hl'
                  rw [hout l (by omega), getD_set_ne p' (by omega)])
              (by rw [getD_set_ne p' (by omega)] at hsend; exact hsend)
            exact this
          | stop j ps' ev hj1 hj2 hl hdec hout hstop hend =>
            rw [hlen] at hj2 hl hend
            have := LoopRes.stop (fp := fp) (op := m.op) (ps := ps) (k := k) (i := i) (m := m) j ps' ev
              (by omega) hj2 hl
              (by intro l hl1 hl2
                  by_cases hli : l = i
                  · subst hli
                    rw [hpi, hout l (Or.inl (by omega)), getD_set_eq p' hi]; exact ht
                  · have := hdec l (by omega) hl2
                    rw [getD_set_ne p' hli] at this; exact this)
              (by intro l hl'
                  rw [hout l (by omega), getD_set_ne p' (by omega)])
              (by rw [getD_set_ne p' (by omega)] at hstop; exact hstop) hend
            simp only [hlen, getD_set_ne p' (show j ≠ i by omega)] at this ⊢
            exact this
        · rw [if_neg h1]
          have := LoopRes.stop (fp := fp) (op := m.op) (ps := ps) (k := k) (i := i) (m := m) i (ps.set i p') none
            (Nat.le_refl i) hi (by simp) (by intro l h1 h2; omega)
            (by intro l hl; exact getD_set_ne p' (by omega)) (by rw [hpi, getD_set_eq p' hi]; exact ht)
            (by intro _; omega)
          simp only [Option.map_none, h1, if_false, decide_false, Bool.not_false] at this
          exact this

/-! ## The bus -/

theorem receive_other {s : Slave} {h : Header} (pdu : Bytes) (hne : h.da ≠ s.cfg.address) :
    s.receive h pdu = (s, .silent) := by
  unfold Slave.receive; rw [if_pos hne]

theorem busReceive_none : ∀ (ss : List Slave) (h : Header) (pdu : Bytes),
    (∀ s ∈ ss, h.da ≠ s.cfg.address) → busReceive ss h pdu = (ss, .silent) := by
  intro ss
  induction ss with
  | nil => intro h pdu _; rfl
  | cons s rest ih =>
    intro h pdu hall
    simp only [busReceive, receive_other pdu (hall s (by simp)), ih h pdu (fun s' hs' => hall s' (by simp [hs']))]

/-- Only the addressed slave reacts. -/
theorem busReceive_at : ∀ (ss : List Slave) (j : Nat) (h : Header) (pdu : Bytes), j < ss.length →
    h.da = (ss.getD j default).cfg.address →
    (∀ l, l < ss.length → l ≠ j → (ss.getD l default).cfg.address ≠ (ss.getD j default).cfg.address) →
    busReceive ss h pdu =
      (ss.set j ((ss.getD j default).receive h pdu).1, ((ss.getD j default).receive h pdu).2) := by
  intro ss
  induction ss with
  | nil => intro j h pdu hj; simp at hj
  | cons s rest ih =>
    intro j h pdu hj hda hdist
    cases j with
    | zero =>
      simp only [List.getD_cons_zero] at hda hdist ⊢
      have hrest : busReceive rest h pdu = (rest, .silent) := by
        apply busReceive_none
        intro s' hs'
        obtain ⟨l, hl, rfl⟩ := List.getElem_of_mem hs'
        have := hdist (l + 1) (by simp; omega) (by omega)
        have hg : (s :: rest).getD (l + 1) default = rest[l] := by simp [hl]
        rw [hg] at this
        rw [hda]; exact fun h => this h.symm
      simp only [busReceive, hrest, List.set_cons_zero]
      cases (s.receive h pdu).2 <;> rfl
    | succ j =>
      simp only [List.getD_cons_succ] at hda hdist ⊢
      have hs : s.receive h pdu = (s, .silent) := by
        apply receive_other
        have := hdist 0 (by simp) (by omega)
        simp only [List.getD_cons_zero] at this
        rw [hda]; exact fun h => this h.symm
      have hrec := ih j h pdu (by simpa using hj) hda
        (by intro l hl hne
            have := hdist (l + 1) (by simp; omega) (by omega)
            simpa using this)
      simp only [busReceive, hs, hrec, List.set_cons_succ]

/-! ## Master pieces for dense storage -/

theorem transmit_operate {fp : FdlParams} {m : Master} (hop : m.op = .operate) {now : Int} {b : Bool}
    (hdue : gcDue fp now m.lastGc = some b) :
    Master.transmit fp now false m =
      if b then .send { m with lastGc := some now, lastEvents := {} } (gcHeader fp) [0x00, 0x00]
      else Master.txLoop fp (m.slots.length + 1) m := by
  unfold Master.transmit
  rw [if_neg (by rw [hop]; decide)]
  simp only [Bool.false_eq_true, if_false, hdue]
  cases b with
  | true =>
    have hp : gcPdu m.op = some [0x00, 0x00] := by rw [hop]; rfl
    simp only [hp, gcHeader_serialize fp [0x00, 0x00] rfl, if_true]
  | false => simp only [Bool.false_eq_true, if_false]

theorem receiveReply_dense {m : Master} {ps : List Peripheral} {k j : Nat} (hs : m.slots = denseSlots ps k)
    (hc : m.cycle = .dx j) (hj : j < ps.length) (hn : ps.length ≤ 256) (t : Telegram) :
    m.receiveReply ps[j].address t =
      match ps[j].receiveReply t with
      | .panic => .panic
      | .ok p' ev =>
        .ok { m with slots := denseSlots (ps.set j p') k,
                     cycle := if j + 1 < ps.length then .dx (j + 1) else .completed,
                     lastEvents := { cycleCompleted := !decide (j + 1 < ps.length),
                                     peripheral := ev.map fun e => { index := j, address := ps[j].address, ev := e } } } := by
  simp only [Master.receiveReply, hc, hs, getAtIndex_dense k hj hn, ne_eq, not_true_eq_false, if_false]
  cases ps[j].receiveReply t with
  | panic => rfl
  | ok p' ev =>
    have hj' : j < (ps.set j p').length := by simpa using hj
    have hn' : (ps.set j p').length ≤ 256 := by simpa using hn
    simp only [set_dense k hj, nextCycle_dense k hj' hn', List.length_set]
    by_cases h1 : j + 1 < ps.length <;> simp [h1]

/-! ## One turn of a master with several peripherals -/

/-- The pair in slot `l`. -/
def pjAt (fp : FdlParams) (ps : List Peripheral) (ss : List Slave) (l : Nat) : PJ :=
  ⟨fp, .operate, ps.getD l default, ss.getD l default⟩

/-- The pair in slot `l` is good and satisfies the joint invariant. -/
def SlotOk (fp : FdlParams) (ps : List Peripheral) (ss : List Slave) (l : Nat) : Prop :=
  Good (pjAt fp ps ss l) ∧
  jinv fp.maxRetry ((ss.getD l default).cfg.inLen == 0) (ctl (pjAt fp ps ss l)) = true

structure NGood (J : JointN) (ps : List Peripheral) (k : Nat) : Prop where
  slots : J.m.slots = denseSlots ps k
  op : J.m.op = .operate
  len : J.ss.length = ps.length
  n256 : ps.length ≤ 256
  pos : 0 < ps.length
  fpok : FpOk J.fp
  cycle : J.m.cycle = .completed ∨ ∃ i, J.m.cycle = .dx i ∧ i < ps.length
  ok : ∀ l, l < ps.length → SlotOk J.fp ps J.ss l
  addr : ∀ l, l < ps.length → (J.ss.getD l default).cfg.address ≠ 127
  distinct : ∀ l l', l < ps.length → l' < ps.length → l ≠ l' →
    (J.ss.getD l default).cfg.address ≠ (J.ss.getD l' default).cfg.address
  gc : ∀ t, J.m.lastGc = some t → timeB t

/-- The slots `a ≤ l < b` were visited once each (fault-free), all others are untouched. -/
def VisitedRange (fp : FdlParams) (ps : List Peripheral) (ss : List Slave) (ps' : List Peripheral) (ss' : List Slave)
    (a b : Nat) : Prop :=
  ps'.length = ps.length ∧ ss'.length = ss.length ∧
  (∀ l, a ≤ l → l < b → ∃ ev, (pjAt fp ps ss l).visit false .ok = some (pjAt fp ps' ss' l, ev)) ∧
  (∀ l, l < a ∨ b ≤ l → ps'.getD l default = ps.getD l default ∧ ss'.getD l default = ss.getD l default)

theorem slotOk_visit {fp : FdlParams} {ps : List Peripheral} {ss : List Slave} {l : Nat} (h : SlotOk fp ps ss l)
    {j' : PJ} {ev : Option PEvent} (hv : (pjAt fp ps ss l).visit false .ok = some (j', ev)) :
    Good j' ∧ j'.fp = fp ∧ j'.op = .operate ∧ j'.s.cfg = (ss.getD l default).cfg ∧
      jinv fp.maxRetry ((ss.getD l default).cfg.inLen == 0) (ctl j') = true := by
  obtain ⟨j1, ev1, h1, h2, h3, h4, h5, h6⟩ := visit_sim h.1 false (d := .ok) (by intro t ht; cases ht)
  rw [hv] at h1
  simp only [Option.some.injEq, Prod.mk.injEq] at h1
  obtain ⟨rfl, rfl⟩ := h1
  refine ⟨h2, h3, h4, h5, ?_⟩
  rw [Prod.ext_iff] at h6
  have h6' : ctl j' = (cstep fp.maxRetry ((ss.getD l default).cfg.inLen == 0) (ctl (pjAt fp ps ss l))
      (.visit false (absD (ss.getD l default).cfg.inLen .ok))).1 := h6.1
  rw [h6']
  exact jinv_step h.1.fp.retry_lo h.2 _

/-- `quiet_visit_form` for the pair in slot `l`. -/
theorem slot_form {fp : FdlParams} {ps : List Peripheral} {ss : List Slave} {l : Nat} (h : SlotOk fp ps ss l) :
    (∃ p' ev, (ps.getD l default).transmit fp .operate = .decline p' ev ∧
      (pjAt fp ps ss l).visit false .ok = some (⟨fp, .operate, p', ss.getD l default⟩, ev)) ∨
    (∃ p' h pdu t p2 ev, (ps.getD l default).transmit fp .operate = .send p' h pdu ∧
      h.da = (ss.getD l default).cfg.address ∧ expectsReplyOf h = some (ps.getD l default).address ∧
      h.serialize pdu = .ok (frameSpec h pdu) ∧ p'.address = (ps.getD l default).address ∧
      ((ss.getD l default).receive h pdu).2.telegram = some t ∧ p'.receiveReply t = .ok p2 ev ∧
      (pjAt fp ps ss l).visit false .ok =
        some (⟨fp, .operate, p2, ((ss.getD l default).receive h pdu).1⟩, ev)) :=
  quiet_visit_form h.1 h.2

theorem getDS_set_ne {ss : List Slave} {i l : Nat} (s' : Slave) (h : l ≠ i) :
    (ss.set i s').getD l default = ss.getD l default := by
  simp [List.getD_eq_getElem?_getD, List.getElem?_set, Ne.symm h]

theorem getDS_set_eq {ss : List Slave} {i : Nat} (s' : Slave) (h : i < ss.length) :
    (ss.set i s').getD i default = s' := by
  simp [List.getD_eq_getElem?_getD, List.getElem?_set, h]

/-- `NGood` after a range of visits: everything static is unchanged, visited slots stay ok. -/
theorem ngood_after {J J' : JointN} {ps ps' : List Peripheral} {k a b : Nat} (hN : NGood J ps k)
    (hfp : J'.fp = J.fp) (hslots : J'.m.slots = denseSlots ps' k) (hop : J'.m.op = .operate)
    (hv : VisitedRange J.fp ps J.ss ps' J'.ss a b)
    (hcy : J'.m.cycle = .completed ∨ ∃ i, J'.m.cycle = .dx i ∧ i < ps.length)
    (hgc : ∀ t, J'.m.lastGc = some t → timeB t) : NGood J' ps' k := by
  obtain ⟨hl1, hl2, hvis, hout⟩ := hv
  have hcfg : ∀ l, l < ps.length → (J'.ss.getD l default).cfg = (J.ss.getD l default).cfg := by
    intro l hl
    by_cases hr : a ≤ l ∧ l < b
    · obtain ⟨ev, hv⟩ := hvis l hr.1 hr.2
      exact (slotOk_visit (hN.ok l hl) hv).2.2.2.1
    · rw [(hout l (by omega)).2]
  refine ⟨hslots, hop, by rw [hl2, hN.len, hl1], by rw [hl1]; exact hN.n256, by rw [hl1]; exact hN.pos,
    by rw [hfp]; exact hN.fpok, by rw [hl1]; exact hcy, ?_, ?_, ?_, hgc⟩
  · intro l hl
    rw [hl1] at hl
    rw [hfp]
    by_cases hr : a ≤ l ∧ l < b
    · obtain ⟨ev, hv⟩ := hvis l hr.1 hr.2
      obtain ⟨h1, _, _, h4, h5⟩ := slotOk_visit (hN.ok l hl) hv
      refine ⟨h1, ?_⟩
      rw [hcfg l hl]; exact h5
    · obtain ⟨e1, e2⟩ := hout l (by omega)
      have : pjAt J.fp ps' J'.ss l = pjAt J.fp ps J.ss l := by simp only [pjAt, e1, e2]
      unfold SlotOk
      rw [this, e2]; exact hN.ok l hl
  · intro l hl; rw [hl1] at hl; rw [hcfg l hl]; exact hN.addr l hl
  · intro l l' hl hl' hne
    rw [hl1] at hl hl'
    rw [hcfg l hl, hcfg l' hl']; exact hN.distinct l l' hl hl' hne

/-- **One fault-free `transmit_telegram` of a master with `n` peripherals** (dense storage), each with
its reference slave on the bus: a broadcast; or the closing of a completed cycle; or the visit — one
fault-free `PJ.visit` each — of the consecutive slots `i … j` starting at the cycle index, after which
the index stands behind `j` (or the cycle is completed / wrapped when `j` is the last slot). -/
theorem turnN_quiet {J : JointN} {ps : List Peripheral} {k : Nat} (hN : NGood J ps k) {now : Int} (hnow : timeB now) :
    ∃ J' o ps', J.turn now none .ok = .ok J' o ∧ NGood J' ps' k ∧ J'.fp = J.fp ∧
      ((o.isBroadcast = true ∧ ps' = ps ∧ J'.ss = J.ss ∧ J'.m.cycle = J.m.cycle) ∨
       (o.isBroadcast = false ∧ J.m.cycle = .completed ∧ J'.m.cycle = .dx 0 ∧ ps' = ps ∧ J'.ss = J.ss) ∨
       (o.isBroadcast = false ∧ ∃ i j, J.m.cycle = .dx i ∧ i ≤ j ∧ j < ps.length ∧
          VisitedRange J.fp ps J.ss ps' J'.ss i (j + 1) ∧
          ((j + 1 < ps.length ∧ J'.m.cycle = .dx (j + 1)) ∨
           (j + 1 = ps.length ∧ (J'.m.cycle = .completed ∨ J'.m.cycle = .dx 0))))) := by
  obtain ⟨b, hdue⟩ : ∃ b, gcDue J.fp now J.m.lastGc = some b := ⟨_, gcDue_ok hN.fpok hnow hN.gc⟩
  have hvr0 : VisitedRange J.fp ps J.ss ps J.ss 0 0 :=
    ⟨rfl, rfl, by intro l h1 h2; omega, by intro l _; exact ⟨rfl, rfl⟩⟩
  unfold JointN.turn
  rw [transmit_operate hN.op hdue]
  cases b with
  | true =>
    simp only [if_true]
    have hser : (gcHeader J.fp).serialize [0x00, 0x00] = .ok (frameSpec (gcHeader J.fp) [0x00, 0x00]) :=
      gcHeader_serialize J.fp [0x00, 0x00] rfl
    have hexp : expectsReplyOf (gcHeader J.fp) = none := rfl
    have hbus : busReceive J.ss (gcHeader J.fp) [0x00, 0x00] = (J.ss, .silent) := by
      apply busReceive_none
      intro s hs
      obtain ⟨l, hl, rfl⟩ := List.getElem_of_mem hs
      have := hN.addr l (by rw [← hN.len]; exact hl)
      rw [List.getD_eq_getElem?_getD, List.getElem?_eq_getElem hl] at this
      simpa [gcHeader] using fun h => this h.symm
    simp only [hser, hexp, hbus]
    refine ⟨_, _, ps, rfl, ?_, rfl, Or.inl ⟨rfl, rfl, rfl, rfl⟩⟩
    exact ngood_after hN rfl hN.slots hN.op hvr0 hN.cycle (by intro t ht; simp only at ht; cases ht; exact hnow)
  | false =>
    simp only [Bool.false_eq_true, if_false]
    rcases hN.cycle with hc | ⟨i, hc, hi⟩
    · -- closing the cycle
      have hloop : Master.txLoop J.fp (J.m.slots.length + 1) J.m = .none { J.m with cycle := .dx 0, lastEvents := {} } := by
        simp only [Master.txLoop, hc]
      rw [hloop]
      refine ⟨_, _, ps, rfl, ?_, rfl, Or.inr (Or.inl ⟨rfl, hc, rfl, rfl, rfl⟩)⟩
      exact ngood_after hN rfl hN.slots hN.op hvr0 (Or.inr ⟨0, rfl, hN.pos⟩) hN.gc
    · -- visits
      have hnp : ∀ l, i ≤ l → l < ps.length → (ps.getD l default).transmit J.fp J.m.op ≠ .panic := by
        intro l _ hl
        rw [hN.op]
        rcases slot_form (hN.ok l hl) with ⟨p', ev, h1, _⟩ | ⟨p', h, pdu, t, p2, ev, h1, _⟩
        · rw [h1]; intro hc'; cases hc'
        · rw [h1]; intro hc'; cases hc'
      have hlen : J.m.slots.length = ps.length + k := by rw [hN.slots]; simp [denseSlots]
      have hloop := txLoop_dense (fp := J.fp) (k := k) (ps.length - i) ps i J.m (J.m.slots.length + 1) rfl hi hN.n256
        (by omega) hN.slots hc hnp
      rw [hN.op] at hloop
      generalize Master.txLoop J.fp (J.m.slots.length + 1) J.m = res at hloop ⊢
      cases hloop with
      | stop j ps' ev hj1 hj2 hl hdec hout hstop hend =>
        have hvr : VisitedRange J.fp ps J.ss ps' J.ss i (j + 1) := by
          refine ⟨hl, rfl, ?_, fun l hl' => ⟨hout l (by omega), rfl⟩⟩
          intro l hl1 hl2
          have hlt : l < ps.length := by omega
          by_cases hlj : l < j
          · have hd := hdec l hl1 hlj
            rcases slot_form (hN.ok l hlt) with ⟨p', ev', h1, h2⟩ | ⟨p', h, pdu, t, p2, ev', h1, _⟩
            · rw [hd] at h1
              simp only [PTx.decline.injEq] at h1
              obtain ⟨rfl, rfl⟩ := h1
              exact ⟨none, h2⟩
            · rw [hd] at h1; cases h1
          · have hlj' : l = j := by omega
            subst hlj'
            rcases slot_form (hN.ok l hlt) with ⟨p', ev', h1, h2⟩ | ⟨p', h, pdu, t, p2, ev', h1, _⟩
            · rw [hstop] at h1
              simp only [PTx.decline.injEq] at h1
              obtain ⟨rfl, rfl⟩ := h1
              exact ⟨ev, h2⟩
            · rw [hstop] at h1; cases h1
        refine ⟨_, _, ps', rfl, ?_, rfl, Or.inr (Or.inr ⟨rfl, i, j, hc, hj1, hj2, hvr, ?_⟩)⟩
        · refine ngood_after hN rfl rfl hN.op hvr ?_ hN.gc
          by_cases h1 : j + 1 < ps.length
          · exact Or.inr ⟨j + 1, by simp only [h1, if_true], h1⟩
          · exact Or.inr ⟨0, by simp only [h1, if_false], hN.pos⟩
        · by_cases h1 : j + 1 < ps.length
          · exact Or.inl ⟨h1, by simp only [h1, if_true]⟩
          · exact Or.inr ⟨by omega, Or.inr (by simp only [h1, if_false])⟩
      | send j ps' h pdu hj1 hj2 hl hdec hout hsend =>
        have hj' : j < ps'.length := by rw [hl]; exact hj2
        rcases slot_form (hN.ok j hj2) with ⟨p', ev', h1, _⟩ | ⟨p', h', pdu', t, p2, ev, h1, hda, hexp, hser, hpa, htel, hrr, hvis⟩
        · rw [hsend] at h1; cases h1
        · rw [hsend] at h1
          simp only [PTx.send.injEq] at h1
          obtain ⟨rfl, rfl, rfl⟩ := h1
          have hbus := busReceive_at J.ss j h pdu (by rw [hN.len]; exact hj2) hda
            (by intro l hl' hne; exact hN.distinct l j (by rw [← hN.len]; exact hl') hj2 hne)
          have hpj : ps'.getD j default = ps'[j] := getD_getElem hj'
          have hrr' : ps'[j].receiveReply t = .ok p2 ev := by rw [← hpj]; exact hrr
          have haddr : (ps.getD j default).address = ps'[j].address := by rw [← hpj]; exact hpa.symm
          have hrec := receiveReply_dense (m := { J.m with slots := denseSlots ps' k, cycle := .dx j, lastEvents := {} })
            (ps := ps') (k := k) (j := j) rfl rfl hj' (by rw [hl]; exact hN.n256) t
          simp only [hrr'] at hrec
          simp only [midDiag, hser, hexp, hbus, Delivery.deliver, htel, haddr, hrec]
          have hvr : VisitedRange J.fp ps J.ss (ps'.set j p2) (J.ss.set j ((J.ss.getD j default).receive h pdu).1) i (j + 1) := by
            refine ⟨by simp [hl], by simp, ?_, ?_⟩
            · intro l hl1 hl2
              have hlt : l < ps.length := by omega
              by_cases hlj : l < j
              · have hd := hdec l hl1 hlj
                rcases slot_form (hN.ok l hlt) with ⟨q', ev', h1, h2⟩ | ⟨q', h2, pdu2, t2, q2, ev', h1, _⟩
                · rw [hd] at h1
                  simp only [PTx.decline.injEq] at h1
                  obtain ⟨rfl, rfl⟩ := h1
                  refine ⟨none, ?_⟩
                  rw [h2]
                  simp only [pjAt, getD_set_ne p2 (show l ≠ j by omega), getDS_set_ne _ (show l ≠ j by omega)]
                · rw [hd] at h1; cases h1
              · have hlj' : l = j := by omega
                subst hlj'
                refine ⟨ev, ?_⟩
                rw [hvis]
                simp only [pjAt, getD_set_eq p2 hj', getDS_set_eq _ (show l < J.ss.length by rw [hN.len]; exact hj2)]
            · intro l hl'
              have hne : l ≠ j := by omega
              exact ⟨by rw [getD_set_ne p2 hne]; exact hout l (by omega), getDS_set_ne _ hne⟩
          refine ⟨_, _, ps'.set j p2, rfl, ?_, rfl, Or.inr (Or.inr ⟨rfl, i, j, hc, hj1, hj2, hvr, ?_⟩)⟩
          · refine ngood_after hN rfl rfl hN.op hvr ?_ hN.gc
            by_cases h1 : j + 1 < ps.length
            · exact Or.inr ⟨j + 1, by simp only [hl, h1, if_true], h1⟩
            · exact Or.inl (by simp only [hl, h1, if_false])
          · by_cases h1 : j + 1 < ps.length
            · exact Or.inl ⟨h1, by simp only [hl, h1, if_true]⟩
            · exact Or.inr ⟨by omega, Or.inl (by simp only [hl, h1, if_false])⟩

end PV.Live
