/-
A listening station on the bus that overhears a lone transmitter, GAP requests to itself included: the explicit
listener condition `LLOkX` (delivered / not yet consumed transmissions, stamp, registered requester), one poll of
the listener (`llisten_stepR`), and its behaviour when the transmitter sends or another station is polled.
Helper lemmas (C02 cold start).
-/
import ProfiVerif.Lemmas.ListenNet

namespace PV
open StationGap TokenRing

/-- A telegram of the lone holder `aL`, possibly a GAP request to the listener itself. -/
def LoneTelR (aL : Nat) (t : Telegram) : Prop :=
  t = .token (UInt8.ofNat aL) (UInt8.ofNat aL) ∨ ∃ g, g < 128 ∧ t = reqTel g aL

theorem LoneTelR.valid {aL : Nat} {t : Telegram} (h : LoneTelR aL t) (haL : aL < 128) : t.Valid := by
  rcases h with rfl | ⟨g, hg, rfl⟩
  · trivial
  · exact reqTel_valid g aL hg haL

/-- The requester a `ListenToken` station registers for a telegram flagged `fl`. -/
def regSr (me : Nat) : Telegram → Bool → Option Nat
  | .data h _, true =>
    (match h.fc with
     | .request _ .fdlStatus => if h.da.toNat = me then some h.sa.toNat else none
     | _ => none)
  | _, _ => none

theorem regSr_req (me g aL : Nat) (hg : g < 128) (haL : aL < 128) (fl : Bool) :
    regSr me (reqTel g aL) fl = if fl = true ∧ g = me then some aL else none := by
  cases fl with
  | false => simp [regSr, reqTel]
  | true =>
    simp only [regSr, reqTel, fdlStatusRequestHeader, true_and]
    rw [u8n g (by omega), u8n aL (by omega)]

/-- One overheard telegram of the lone holder in `ListenToken` (no request pending), requests to the listener
included. -/
theorem listenTelegram_loneR (now : Int) (c : Ctx) (t : Telegram) (fl : Bool) (aL coll : Nat) (l : Int)
    (hon : c.s.online = true) (hst : c.s.st = .listenToken none coll) (hl : c.s.lastBusActivity = some l) (hle : l ≤ now)
    (haL : aL < 128) (hne : aL ≠ c.s.p.address) (ht : LoneTelR aL t) :
    listenTelegram now c t fl = .ok { c with s := { c.s with
      pendingBytes := 0, lastBusActivity := some now,
      ring := if isTok t then c.s.ring.witness aL aL else c.s.ring,
      st := .listenToken (regSr c.s.p.address t fl) coll } } := by
  rcases ht with rfl | ⟨g, hg, rfl⟩
  · rw [listenTelegram_lone now c _ fl aL coll l hon hst hl hle haL hne (.inl rfl)]
    simp only [regSr, hst]
  · rw [regSr_req _ g aL hg haL]
    by_cases hgm : g = c.s.p.address
    · unfold listenTelegram
      have hm : (upd c fun s => markRx s now) =
          { c with s := { c.s with pendingBytes := 0, lastBusActivity := some now } } := by
        simp only [upd]; rw [markRx_at c.s now l hl hle]
      rw [hm]
      have hrec := C12.listen_records_request { c with s := { c.s with pendingBytes := 0, lastBusActivity := some now } } fl none coll
        (fdlStatusRequestHeader (UInt8.ofNat g) (UInt8.ofNat aL)) [] .inactive hon hst
        (by simp [fdlStatusRequestHeader]) (by simp [fdlStatusRequestHeader]; omega)
        (by simp [fdlStatusRequestHeader]; omega)
      unfold reqTel
      rw [hrec]
      cases fl with
      | false => simp [isTok, hst]
      | true =>
        simp only [if_true, upd, isTok, Bool.false_eq_true, if_false, hgm, and_self, fdlStatusRequestHeader]
        rw [u8n aL (by omega)]
    · have hreg : (if fl = true ∧ g = c.s.p.address then some aL else none) = (none : Option Nat) :=
        if_neg (fun h => hgm h.2)
      rw [hreg, listenTelegram_lone now c _ fl aL coll l hon hst hl hle haL hne (.inr ⟨g, hg, hgm, rfl⟩)]
      simp only [hst]

/-- The requester registered by a batch: decided by its last telegram. -/
def lastReg (me : Nat) (calls : List (Telegram × Bool)) : Option Nat :=
  match calls.getLast? with
  | some (t, fl) => regSr me t fl
  | none => none

theorem regSr_false (me : Nat) (t : Telegram) : regSr me t false = none := by
  cases t <;> rfl

/-- Station after a non-empty batch, with the registered requester. -/
def heardSR (aL : Nat) (s : Station) (now : Int) (calls : List (Telegram × Bool)) (coll : Nat) : Station :=
  { heardS aL s now (calls.map Prod.fst) with st := .listenToken (lastReg s.p.address calls) coll }

theorem foldListen_loneR (now : Int) (aL coll : Nat) (haL : aL < 128) : ∀ (calls : List (Telegram × Bool)) (c : Ctx) (l : Int),
    calls ≠ [] → c.s.online = true → c.s.st = .listenToken none coll → c.s.lastBusActivity = some l → l ≤ now →
    aL ≠ c.s.p.address → (∀ x ∈ calls, LoneTelR aL x.1) → (∀ x ∈ calls.dropLast, x.2 = false) →
    foldTelegrams (listenTelegram now) c calls = .ok { c with s := heardSR aL c.s now calls coll } := by
  intro calls
  induction calls with
  | nil => intro c l h; exact absurd rfl h
  | cons x rest ih =>
    intro c l _ hon hst hl hle hne hall hfl
    obtain ⟨t, fl⟩ := x
    simp only [foldTelegrams]
    rw [listenTelegram_loneR now c t fl aL coll l hon hst hl hle haL hne (hall (t, fl) (List.mem_cons_self ..))]
    simp only [Res.bind]
    by_cases hr : rest = []
    · subst hr
      simp only [foldTelegrams, heardSR, heardS, List.map_cons, List.map_nil, hearAll, lastReg, List.getLast?_singleton]
    · have hflx : fl = false := by
        have : (t, fl) ∈ ((t, fl) :: rest).dropLast := by
          cases rest with
          | nil => exact absurd rfl hr
          | cons y ys => simp [List.dropLast]
        exact hfl _ this
      subst hflx
      rw [regSr_false]
      rw [ih ⟨{ c.s with pendingBytes := 0, lastBusActivity := some now, ring := if isTok t then c.s.ring.witness aL aL else c.s.ring, st := .listenToken none coll }, c.apps, c.rx, c.tx, c.calls⟩
        now hr hon rfl rfl (Int.le_refl _) hne (fun y hy => hall y (List.mem_cons_of_mem _ hy))
        (fun y hy => hfl y (by
          cases rest with
          | nil => exact absurd rfl hr
          | cons z zs => simp only [List.dropLast_cons₂]; exact List.mem_cons_of_mem _ hy))]
      have hlr : lastReg c.s.p.address ((t, false) :: rest) = lastReg c.s.p.address rest := by
        unfold lastReg
        rw [List.getLast?_cons_of_ne_nil hr]
      simp only [heardSR, heardS, List.map_cons, hearAll, hlr]

/-- The log of a lone transmitter `x` (address `aL`) (GAP requests to any address): fault-free, non-overlapping, all
transmissions by `x`, each a self-addressed token or a GAP request. -/
structure LoneLogR (cfg : Cfg) (aL x : Nat) (b : Bus) : Prop where
  rate : b.rate = cfg.rate
  corrupt : b.corrupt = []
  chained : CChained cfg b.txs
  live : ∀ t ∈ b.txs, t.dropped = false
  own : ∀ t ∈ b.txs, t.sender = x
  kinds : ∀ t ∈ b.txs, t.bytes = tokenBytes aL aL ∨ ∃ g, g < 126 ∧ t.bytes = statusRequestBytes g aL

theorem LoneLogR.busChained {cfg : Cfg} {aL x : Nat} {b : Bus} (h : LoneLogR cfg aL x b) : b.Chained b.txs := by
  unfold Bus.Chained
  have := h.chained
  unfold CChained at this
  refine this.imp ?_
  intro o t hot
  unfold Bus.txEnd
  rw [byteEnd_cfg b cfg h.rate]; exact hot

theorem LoneLogR.wire {cfg : Cfg} {aL x : Nat} {b : Bus} (h : LoneLogR cfg aL x b) (haL : aL < 126) (t : Transmission)
    (ht : t ∈ b.txs) : t.bytes = (telOf t).wire ∧ (telOf t).Valid ∧ 0 < t.bytes.length ∧ LoneTelR aL (telOf t) := by
  rcases h.kinds t ht with hb | ⟨g, hg, hb⟩
  · have e : telOf t = tokTel [aL] aL := telOf_token t aL [aL] (by rw [cycSucc_single]; exact hb)
    rw [e]
    refine ⟨by rw [tokTel_wire, cycSucc_single]; exact hb, trivial, by rw [hb]; show 0 < 3; omega, .inl ?_⟩
    unfold tokTel; rw [cycSucc_single]
  · have e : telOf t = reqTel g aL := telOf_req t g aL (by omega) (by omega) hb
    rw [e]
    exact ⟨by rw [reqTel_wire]; exact hb, reqTel_valid g aL (by omega) (by omega),
      by rw [hb, statusRequestBytes_length]; omega, .inr ⟨g, by omega, rfl⟩⟩

/-- What the bus hands to a listener of the lone transmitter. -/
theorem lone_deliverR {cfg : Cfg} {aL x : Nat} {b : Bus} (hlog : LoneLogR cfg aL x b) (hr : 0 < cfg.rate) (haL : aL < 126)
    (j : Nat) (hjx : j ≠ x) (now : Int) (dn rs : List Transmission) (h1 : b.txs = dn ++ rs)
    (h2 : ∀ o ∈ dn, cEnd cfg o ≤ b.seen.getD j 0) (hsn : b.seen.getD j 0 ≤ now) :
    ∃ inc, b.deliver j now = ({ b with seen := b.seen.set j now }, inc) ∧
      arrived cfg rs (b.seen.getD j 0) ++ inc = arrived cfg rs now := by
  have hc := hlog.chained
  rw [h1] at hc
  have hcrs : CChained cfg rs := (List.pairwise_append.1 hc).2.1
  have hpos : ∀ t ∈ b.txs, 0 < t.bytes.length := fun t ht => (hlog.wire haL t ht).2.2.1
  refine ⟨_, Bus.deliver_chained b (by rw [hlog.rate]; exact hr) hlog.corrupt j now hlog.busChained hlog.live, ?_⟩
  rw [h1, List.map_append, List.flatten_append,
    seg_done cfg hr b hlog.rate j _ now hsn dn (fun o ho =>
      .inr ⟨hpos o (by rw [h1]; exact List.mem_append_left _ ho), h2 o ho⟩),
    List.nil_append]
  exact arrived_extend cfg hr b hlog.rate j _ now hsn rs hcrs
    (fun t ht => hpos t (by rw [h1]; exact List.mem_append_right _ ht))
    (fun t ht => by rw [hlog.own t (by rw [h1]; exact List.mem_append_right _ ht)]; exact Ne.symm hjx)

theorem lone_phyR {cfg : Cfg} {aL x : Nat} {b : Bus} (hlog : LoneLogR cfg aL x b) (j : Nat) (hjx : j ≠ x) (now : Int) :
    b.transmitting j now = false := by
  unfold Bus.transmitting
  cases hf : b.txs.reverse.find? (fun t => decide (t.sender = j)) with
  | none => rfl
  | some t =>
    exfalso
    have hmem : t ∈ b.txs := List.mem_reverse.1 (List.mem_of_find?_eq_some hf)
    have hs : t.sender = j := by simpa using List.find?_some hf
    rw [hlog.own t hmem] at hs
    exact hjx hs.symm

/-- The listener condition with explicit decomposition (`dn` delivered, `rs` not yet consumed, stamp `l`) and
registered requester `sr`. -/
def LLOkX (cfg : Cfg) (G aL : Nat) (b : Bus) (H : Int) (j : Nat) (st : NetStation) (r0 : TokenRing) (hd : List Telegram)
    (sr : Option Nat) (dn rs : List Transmission) (l : Int) (coll : Nat) : Prop :=
  st.online = true ∧ st.dead = false ∧ Inv st.s st.apps ∧ st.s.online = true ∧ aL ≠ st.s.p.address ∧
  G + cfg.ce 0 + 2 ≤ st.s.p.tokenLostTimeout ∧ st.s.ring = hearAll aL hd r0 ∧
    b.txs = dn ++ rs ∧ (∀ o ∈ dn, cEnd cfg o ≤ b.seen.getD j 0) ∧
    st.rx = arrived cfg rs (b.seen.getD j 0) ∧ st.s.pendingBytes ≤ (arrived cfg rs (b.seen.getD j 0)).length ∧
    (∀ t rest, rs = t :: rest → cvis cfg t (b.seen.getD j 0) < t.bytes.length) ∧
    st.s.lastBusActivity = some l ∧ l ≤ b.seen.getD j 0 ∧ st.s.st = .listenToken sr coll ∧
    nextArr cfg H rs (b.seen.getD j 0) < l + (st.s.p.tokenLostTimeout : Nat)

theorem LLOkX.ofLLOk {cfg : Cfg} {G aL : Nat} {b : Bus} {H : Int} {j : Nat} {st : NetStation} {r0 : TokenRing}
    {hd : List Telegram} (h : LLOk cfg G aL b H j st r0 hd) : ∃ dn rs l coll, LLOkX cfg G aL b H j st r0 hd none dn rs l coll := by
  obtain ⟨hon, hal, hinv, hson, hne, htto, hring, dn, rs, l, coll, rest⟩ := h
  exact ⟨dn, rs, l, coll, hon, hal, hinv, hson, hne, htto, hring, rest⟩

theorem LLOkX.toLLOk {cfg : Cfg} {G aL : Nat} {b : Bus} {H : Int} {j : Nat} {st : NetStation} {r0 : TokenRing}
    {hd : List Telegram} {dn rs : List Transmission} {l : Int} {coll : Nat}
    (h : LLOkX cfg G aL b H j st r0 hd none dn rs l coll) : LLOk cfg G aL b H j st r0 hd := by
  obtain ⟨hon, hal, hinv, hson, hne, htto, hring, rest⟩ := h
  exact ⟨hon, hal, hinv, hson, hne, htto, hring, dn, rs, l, coll, rest⟩

/-- **One poll of a listening station (no request pending) that overhears the lone transmitter, GAP requests to
itself included**: as `llisten_step`; if the batch consumed ends with a request addressed to the listener and
flagged as last, the requester is registered. -/
theorem llisten_stepR {cfg : Cfg} {G aL x : Nat} {b : Bus} {H : Int} {j : Nat} {st : NetStation} {r0 : TokenRing}
    {hd : List Telegram} {dn rs : List Transmission} {l : Int} {coll : Nat}
    (hL : LLOkX cfg G aL b H j st r0 hd none dn rs l coll) (hlog : LoneLogR cfg aL x b) (hr : 0 < cfg.rate)
    (haL : aL < 126) (hjx : j ≠ x) (hjl : j < b.seen.length) (now : Int) (hsn : b.seen.getD j 0 < now) (hnowH : now ≤ H)
    (hstart : ∀ t ∈ b.txs, t.start ≤ now)
    (hH : ∀ t, b.txs.getLast? = some t → H ≤ cEnd cfg t + (G : Nat)) :
    ∃ inc c, b.deliver j now = ({ b with seen := b.seen.set j now }, inc) ∧
      st.s.poll st.apps now (b.transmitting j now) (st.rx ++ inc) = .ok c ∧ c.tx = none ∧ c.s.p = st.s.p ∧
      ((LLOkX cfg G aL { b with seen := b.seen.set j now } H j (upSt st c) r0 hd none dn rs
          (if (arrived cfg rs now).length > st.s.pendingBytes then now else l) coll) ∨
       (∃ k d, 1 ≤ k ∧ d.map Prod.fst = (rs.take k).map telOf ∧ (∀ y ∈ d.dropLast, y.2 = false) ∧
          (rs.drop k = [] → ∃ pre t, d = pre ++ [(t, true)]) ∧
          LLOkX cfg G aL { b with seen := b.seen.set j now } H j (upSt st c) r0 (hd ++ d.map Prod.fst)
            (lastReg st.s.p.address d) (dn ++ rs.take k) (rs.drop k) now coll)) := by
  obtain ⟨hon, hal, hinv, hson, hne, htto, hring, h1, h2, h4, h5, h6, h7, h8, hst, h10⟩ := hL
  have hc0 := cfg.ce_pos hr 0
  have hphy := lone_phyR hlog j hjx now
  obtain ⟨inc, hdv, hcat⟩ := lone_deliverR hlog hr haL j hjx now dn rs h1 h2 (Int.le_of_lt hsn)
  have hc := hlog.chained
  rw [h1] at hc
  have hcrs : CChained cfg rs := (List.pairwise_append.1 hc).2.1
  have hw : ∀ t ∈ rs, t.bytes = (telOf t).wire ∧ (telOf t).Valid ∧ 0 < t.bytes.length := fun t ht => by
    have := hlog.wire haL t (by rw [h1]; exact List.mem_append_right _ ht)
    exact ⟨this.1, this.2.1, this.2.2.1⟩
  obtain ⟨k, b', d, ret, hrec, hk, hdm, hfl, hfull, hb', hhead, hnil, hlastflag, hd0⟩ := consume cfg hr telOf rs now hcrs hw
  have hl' : l < now := by omega
  have hrx' : st.rx ++ inc = arrived cfg rs now := by rw [h4]; exact hcat
  have hto : 0 < st.s.p.tokenLostTimeout := by omega
  obtain ⟨f1, f2, f3, f4, -⟩ := checkBA_fields st.s now (arrived cfg rs now).length
  have hlate : ∀ l0, st.s.lastBusActivity = some l0 → l0 < now := by intro l0 hl0; rw [h7] at hl0; cases hl0; exact hl'
  by_cases hdn : d = []
  · -- no complete telegram
    have hk0 := hd0 hdn
    subst hk0
    simp only [List.drop_zero] at hb' hhead
    subst hdn
    rw [hb'] at hrec
    have hhead' : ∀ t rest, rs = t :: rest → cvis cfg t now < t.bytes.length ∧ ∀ t' ∈ rest, cvis cfg t' now = 0 :=
      fun t rest hrs => ⟨(hhead t rest hrs).1, (hhead t rest hrs).2.2⟩
    have hlen : (arrived cfg rs (b.seen.getD j 0)).length ≤ (arrived cfg rs now).length := by
      rw [← hcat, List.length_append]; omega
    have hnonew : ¬ st.s.pendingBytes < (arrived cfg rs now).length → now < nextArr cfg H rs (b.seen.getD j 0) := by
      intro hnn
      have hinc : inc = [] := by
        have := congrArg List.length hcat
        rw [List.length_append] at this
        exact List.eq_nil_of_length_eq_zero (by omega)
      unfold nextArr
      cases rs with
      | nil => simp only; omega
      | cons t rest =>
        simp only
        obtain ⟨hlt, hz⟩ := hhead' t rest rfl
        have hlt0 : cvis cfg t (b.seen.getD j 0) < t.bytes.length := by
          have := cvis_mono cfg t _ now (Int.le_of_lt hsn); omega
        have hveq : cvis cfg t now = cvis cfg t (b.seen.getD j 0) := by
          have e1 : arrived cfg (t :: rest) now = t.bytes.take (cvis cfg t now) := by
            rw [arrived_cons, arrived_nil_of_zero cfg rest now hz, List.append_nil]
          have hz0 : ∀ t' ∈ rest, cvis cfg t' (b.seen.getD j 0) = 0 := fun t' ht' => by
            have := cvis_mono cfg t' _ now (Int.le_of_lt hsn); have := hz t' ht'; omega
          have e2 : arrived cfg (t :: rest) (b.seen.getD j 0) = t.bytes.take (cvis cfg t (b.seen.getD j 0)) := by
            rw [arrived_cons, arrived_nil_of_zero cfg rest _ hz0, List.append_nil]
          rw [hinc, List.append_nil, e1, e2] at hcat
          have := congrArg List.length hcat
          rw [List.length_take, List.length_take] at this
          omega
        have : ¬ (t.start + ((cfg.ce (cvis cfg t (b.seen.getD j 0)) : Nat) : Int) ≤ now) := by
          intro hc'
          have := (cvis_spec cfg t now _ hlt0).2 hc'
          omega
        omega
    have hpollb := listen_poll_batch st.s st.apps now (arrived cfg rs now) (arrived cfg rs now) [] ret coll l hson hst h7 hl'
      (by
        by_cases hnew : st.s.pendingBytes < (arrived cfg rs now).length
        · exact .inl hnew
        · right; have := hnonew hnew; omega) hto hrec
    simp only [foldTelegrams] at hpollb
    have hlast := checkBA_last st.s now (arrived cfg rs now).length hlate
    refine ⟨inc, _, hdv, by rw [hphy, hrx']; exact hpollb, rfl, f2, .inl ?_⟩
    refine ⟨hon, hal, ?_, by show (checkBusActivity st.s now _).online = true; rw [f4]; exact hson,
      by show aL ≠ (checkBusActivity st.s now _).p.address; rw [f2]; exact hne,
      by show _ ≤ (checkBusActivity st.s now _).p.tokenLostTimeout; rw [f2]; exact htto,
      by show (checkBusActivity st.s now _).ring = _; rw [f3]; exact hring, h1, ?_⟩
    · obtain ⟨c', hc', hinv', -⟩ := pollInner_good { s := st.s, apps := st.apps, rx := arrived cfg rs now } now false hinv rfl
      have : st.s.poll st.apps now false (arrived cfg rs now) = .ok c' := hc'
      rw [hpollb] at this
      cases this
      exact hinv'
    rw [getD_set_self b j now hjl]
    refine ⟨fun o ho => by have := h2 o ho; omega, rfl, ?_, fun t rest hrs => (hhead' t rest hrs).1, ?_, ?_,
      by show (checkBusActivity st.s now _).st = _; rw [f1]; exact hst, ?_⟩
    · show (checkBusActivity st.s now _).pendingBytes ≤ _
      unfold checkBusActivity; split
      · exact Nat.le_refl _
      · omega
    · show (checkBusActivity st.s now _).lastBusActivity = _
      rw [hlast]; split <;> simp [h7]
    · split <;> omega
    · show nextArr cfg H rs now < _ + (((checkBusActivity st.s now _).p.tokenLostTimeout : Nat) : Int)
      rw [f2]
      by_cases hnew : (arrived cfg rs now).length > st.s.pendingBytes
      · rw [if_pos hnew]
        cases rs with
        | nil => simp [arrived] at hnew
        | cons t rest =>
          have := nextArr_after cfg hr H t rest now (hhead' t rest rfl).1 (hstart t (by rw [h1]; simp))
          omega
      · rw [if_neg hnew]
        have hlt := hnonew (by omega)
        have heq : nextArr cfg H rs now = nextArr cfg H rs (b.seen.getD j 0) := by
          unfold nextArr at hlt ⊢
          cases rs with
          | nil => rfl
          | cons t rest =>
            simp only at hlt ⊢
            have hlt0 : cvis cfg t (b.seen.getD j 0) < t.bytes.length := by
              have := cvis_mono cfg t _ now (Int.le_of_lt hsn); have := (hhead' t rest rfl).1; omega
            have h' : ¬ (cvis cfg t (b.seen.getD j 0) < cvis cfg t now) := fun hh => by
              have := (cvis_spec cfg t now _ hlt0).1 hh; omega
            have := cvis_mono cfg t _ now (Int.le_of_lt hsn)
            have e : cvis cfg t now = cvis cfg t (b.seen.getD j 0) := by omega
            rw [e]
        rw [heq]; exact h10
  · -- at least one complete telegram: new bytes have arrived
    have hk1 : 1 ≤ k := by
      cases k with
      | zero =>
        simp only [List.take_zero, List.map_nil, List.map_eq_nil_iff] at hdm
        exact absurd hdm hdn
      | succ k => omega
    have hnew : st.s.pendingBytes < (arrived cfg rs now).length := by
      cases rs with
      | nil => simp only [List.length_nil] at hk; omega
      | cons t0 rest =>
        have hmem0 : t0 ∈ (t0 :: rest).take k := by
          cases k with
          | zero => omega
          | succ k' => rw [List.take_succ_cons]; exact List.mem_cons_self ..
        have hf0 := hfull t0 hmem0
        have hlt0 := h6 t0 rest rfl
        rw [arrived_length] at h5 ⊢
        rw [arrivedLen_cons] at h5 ⊢
        have := arrivedLen_mono cfg rest _ now (Int.le_of_lt hsn)
        omega
    have hpollb := listen_poll_batch st.s st.apps now (arrived cfg rs now) b' d ret coll l hson hst h7 hl' (.inl hnew) hto hrec
    obtain ⟨l1, hl1, hle1, -⟩ := checkBA_stamp st.s now (arrived cfg rs now).length hlate (.inl hnew)
    have hall : ∀ y ∈ d, LoneTelR aL y.1 := by
      intro y hy
      have : y.1 ∈ (rs.take k).map telOf := by rw [← hdm]; exact List.mem_map_of_mem hy
      obtain ⟨t', ht', e⟩ := List.mem_map.1 this
      rw [← e]
      exact (hlog.wire haL t' (by rw [h1]; exact List.mem_append_right _ (List.mem_of_mem_take ht'))).2.2.2
    have hfold := foldListen_loneR now aL coll (by omega) d
      { s := checkBusActivity st.s now (arrived cfg rs now).length, apps := st.apps, rx := b' } l1 hdn
      (by rw [f4]; exact hson) (by rw [f1]; exact hst) hl1 hle1 (by rw [f2]; exact hne) hall hfl
    have hpoll : st.s.poll st.apps now false (arrived cfg rs now) = .ok
        { s := heardSR aL (checkBusActivity st.s now (arrived cfg rs now).length) now d coll, apps := st.apps, rx := b' } := by
      rw [hpollb, hfold]
    have hsplit : rs = rs.take k ++ rs.drop k := (List.take_append_drop _ _).symm
    refine ⟨inc, _, hdv, by rw [hphy, hrx']; exact hpoll, rfl, f2, .inr ⟨k, d, hk1, hdm, hfl, ?_, ?_⟩⟩
    · intro hdr
      exact hlastflag hdn (hnil hdr)
    have hme : lastReg st.s.p.address d = lastReg (checkBusActivity st.s now (arrived cfg rs now).length).p.address d := by rw [f2]
    rw [hme]
    refine ⟨hon, hal, ?_, by show (checkBusActivity st.s now _).online = true; rw [f4]; exact hson,
      by show aL ≠ (checkBusActivity st.s now _).p.address; rw [f2]; exact hne,
      by show _ ≤ (checkBusActivity st.s now _).p.tokenLostTimeout; rw [f2]; exact htto,
      by show hearAll aL (d.map Prod.fst) (checkBusActivity st.s now _).ring = _; rw [f3, hring, hearAll_append],
      by rw [List.append_assoc, List.take_append_drop]; exact h1, ?_⟩
    · obtain ⟨c', hc', hinv', -⟩ := pollInner_good { s := st.s, apps := st.apps, rx := arrived cfg rs now } now false hinv rfl
      have : st.s.poll st.apps now false (arrived cfg rs now) = .ok c' := hc'
      rw [hpoll] at this
      cases this
      exact hinv'
    rw [getD_set_self b j now hjl]
    refine ⟨?_, hb', Nat.zero_le _, fun t rest hrs => (hhead t rest hrs).1, rfl, Int.le_refl _, rfl, ?_⟩
    · intro o ho
      rcases List.mem_append.1 ho with ho | ho
      · have := h2 o ho; omega
      · have hfo := hfull o ho
        have hpo := (hw o (List.mem_of_mem_take ho)).2.2
        have := (cvis_spec cfg o now (o.bytes.length - 1) (by omega)).1 (by omega)
        unfold cEnd; exact this
    · show nextArr cfg H (rs.drop k) now < now + (((checkBusActivity st.s now _).p.tokenLostTimeout : Nat) : Int)
      rw [f2]
      cases hdr : rs.drop k with
      | nil =>
        unfold nextArr
        simp only
        have hrsk : rs.take k = rs := take_of_drop_nil rs k hdr
        have hrsne : rs ≠ [] := by intro e; rw [e] at hk; simp only [List.length_nil] at hk; omega
        obtain ⟨tl, htl⟩ : ∃ tl, rs.getLast? = some tl := by
          cases hg : rs.getLast? with
          | none => exact absurd (List.getLast?_eq_none_iff.1 hg) hrsne
          | some tl => exact ⟨tl, rfl⟩
        have hHb := hH tl (by rw [h1, List.getLast?_append, htl]; rfl)
        have hmem : tl ∈ rs := List.mem_of_getLast? htl
        have hfo := hfull tl (by rw [hrsk]; exact hmem)
        have hpo := (hw tl hmem).2.2
        have := (cvis_spec cfg tl now (tl.bytes.length - 1) (by omega)).1 (by omega)
        unfold cEnd at hHb
        omega
      | cons t rest =>
        have := nextArr_after cfg hr H t rest now (hhead t rest hdr).1
          (hstart t (by rw [h1]; apply List.mem_append_right; apply List.mem_of_mem_drop (i := k); rw [hdr]; simp))
        omega


theorem LoneTel.regSr_none {aL me : Nat} {t : Telegram} (h : LoneTel aL me t) (hg : aL < 128) (fl : Bool) :
    regSr me t fl = none := by
  rcases h with rfl | ⟨g, hg', hgm, rfl⟩
  · cases fl <;> rfl
  · rw [regSr_req me g aL hg' hg]
    exact if_neg (fun h => hgm h.2)

theorem LLOkX.other {cfg : Cfg} {G aL : Nat} {b : Bus} {H : Int} {j : Nat} {st : NetStation} {r0 : TokenRing}
    {hd : List Telegram} {sr : Option Nat} {dn rs : List Transmission} {l : Int} {coll : Nat}
    (h : LLOkX cfg G aL b H j st r0 hd sr dn rs l coll) (i : Nat) (now : Int) (hij : i ≠ j) :
    LLOkX cfg G aL { b with seen := b.seen.set i now } H j st r0 hd sr dn rs l coll := by
  have e : ({ b with seen := b.seen.set i now } : Bus).seen.getD j 0 = b.seen.getD j 0 := seen_set_other b i j now hij
  unfold LLOkX at h ⊢
  rw [e]
  exact h

/-- The lone transmitter `x` sends at `q`: the explicit listener condition carries over, the new transmission is
appended to the transmissions not consumed yet. -/
theorem LLOkX.send {cfg : Cfg} {G aL me x : Nat} {b b' : Bus} {H H' : Int} {j : Nat} {st : NetStation} {r0 : TokenRing}
    {hd : List Telegram} {dn rs : List Transmission} {l : Int} {coll : Nat}
    (h : LLOkX cfg G aL b H j st r0 hd none dn rs l coll) (hlog : LoneLog cfg aL me x b) (hr : 0 < cfg.rate) (haL : aL < 126)
    (q : Int) (bytes : Bytes) (hbl : 0 < bytes.length) (hq2 : q ≤ H) (hsj : b.seen.getD j 0 ≤ q)
    (hP : q ≤ b.seen.getD j 0 + (cfg.P : Nat)) (hP100 : cfg.P ≤ 100000)
    (htx' : b'.txs = (b.txs ++ [({ start := q, sender := x, bytes := bytes, dropped := false } : Transmission)]).filter
      fun t => decide (b.txEnd t + 100000 > q))
    (hseen : b'.seen = b.seen) :
    LLOkX cfg G aL b' H' j st r0 hd none (dn.filter (fun t => decide (b.txEnd t + 100000 > q)))
      (rs ++ [{ start := q, sender := x, bytes := bytes, dropped := false }]) l coll := by
  obtain ⟨hon, hal, hinv, hson, hne, htto, hring, h1, h2, h4, h5, h6, h7, h8, hst, h10⟩ := h
  have hc := hlog.chained
  rw [h1] at hc
  have hcrs : CChained cfg rs := (List.pairwise_append.1 hc).2.1
  have hposrs : ∀ t ∈ rs, 0 < t.bytes.length := fun t ht =>
    (hlog.wire haL t (by rw [h1]; exact List.mem_append_right _ ht)).2.2.1
  have hafter := rs_end_after cfg rs _ hcrs hposrs h6
  have hc0 := cfg.ce_pos hr 0
  have htxe : ∀ t, b.txEnd t = cEnd cfg t := by
    intro t; unfold Bus.txEnd cEnd; rw [byteEnd_cfg b cfg hlog.rate]
  have hkeep : rs.filter (fun t => decide (b.txEnd t + 100000 > q)) = rs := by
    rw [List.filter_eq_self]
    intro t ht
    have := hafter t ht
    rw [htxe]
    simp only [decide_eq_true_eq]
    omega
  have hkeep' : decide (b.txEnd ({ start := q, sender := x, bytes := bytes, dropped := false } : Transmission) + 100000 > q) = true := by
    rw [htxe]
    unfold cEnd
    simp only [decide_eq_true_eq]
    omega
  have hv0 : cvis cfg ({ start := q, sender := x, bytes := bytes, dropped := false } : Transmission) (b.seen.getD j 0) = 0 := by
    apply cvis_zero
    simp only
    omega
  refine ⟨hon, hal, hinv, hson, hne, htto, hring, ?_, ?_⟩
  · rw [htx', h1, List.filter_append, List.filter_append, hkeep]
    simp only [List.filter_cons, hkeep', if_true, List.filter_nil, List.append_assoc]
  rw [hseen]
  have harr : arrived cfg (rs ++ [({ start := q, sender := x, bytes := bytes, dropped := false } : Transmission)]) (b.seen.getD j 0) =
      arrived cfg rs (b.seen.getD j 0) := by
    rw [arrived_append]
    unfold arrived
    simp only [List.map_cons, List.map_nil, List.flatten_cons, List.flatten_nil, hv0, List.take_zero, List.append_nil]
  refine ⟨fun o ho => h2 o (List.mem_filter.1 ho).1, by rw [harr]; exact h4, by rw [harr]; exact h5, ?_, h7, h8, hst, ?_⟩
  · intro t rest hrs
    cases rs with
    | nil =>
      simp only [List.nil_append, List.cons.injEq] at hrs
      obtain ⟨rfl, -⟩ := hrs
      rw [hv0]; exact hbl
    | cons t0 r0' =>
      simp only [List.cons_append, List.cons.injEq] at hrs
      obtain ⟨rfl, -⟩ := hrs
      exact h6 _ _ rfl
  · have hn : nextArr cfg H' (rs ++ [({ start := q, sender := x, bytes := bytes, dropped := false } : Transmission)]) (b.seen.getD j 0) ≤
        nextArr cfg H rs (b.seen.getD j 0) := by
      unfold nextArr
      cases rs with
      | nil => simp only [List.nil_append, hv0]; omega
      | cons t r => exact Int.le_refl _
    omega

/-- A smaller horizon keeps the explicit listener condition. -/
theorem LLOkX.mono {cfg : Cfg} {G aL : Nat} {b : Bus} {H H' : Int} {j : Nat} {st : NetStation} {r0 : TokenRing}
    {hd : List Telegram} {sr : Option Nat} {dn rs : List Transmission} {l : Int} {coll : Nat}
    (h : LLOkX cfg G aL b H j st r0 hd sr dn rs l coll) (hH : H' ≤ H) : LLOkX cfg G aL b H' j st r0 hd sr dn rs l coll := by
  obtain ⟨hon, hal, hinv, hson, hne, htto, hring, h1, h2, h4, h5, h6, h7, h8, hst, h10⟩ := h
  refine ⟨hon, hal, hinv, hson, hne, htto, hring, h1, h2, h4, h5, h6, h7, h8, hst, ?_⟩
  have : nextArr cfg H' rs (b.seen.getD j 0) ≤ nextArr cfg H rs (b.seen.getD j 0) := by
    unfold nextArr
    cases rs with
    | nil => simp only; omega
    | cons t r => exact Int.le_refl _
  omega

end PV
