/-
Text-level faithfulness for canonical files of every statement kind the parser interprets:
`renderAst` writes a statement list as text, `StmtCanon` says which statements it can write so that the
grammar reads them back, `parse_renderAst : parse (renderAst ast) = interp ast`.
-/
import ProfiVerif.Lemmas.PegTextModule
import ProfiVerif.Lemmas.PegTextDesc

namespace PV.Gsd.Peg
open PV.Gsd

/-! ### Modules as statements -/

def itemsRef : List ModItem → Option NumTok
  | .reference n :: _ => some n
  | _ => none

def itemsSettings : List ModItem → List Setting
  | [] => []
  | .setting s :: r => s :: itemsSettings r
  | _ :: r => itemsSettings r

/-- A module the canonical printer can write: at least one configuration byte, an optional reference
line first, then settings only. -/
def ModuleCanon (m : ModuleStmt) : Prop :=
  StrCanon m.name ∧ m.config ≠ [] ∧ (∀ x ∈ m.config, NumCanon x) ∧
  m.items = refItems (itemsRef m.items) ++ (itemsSettings m.items).map ModItem.setting ∧
  (∀ n, itemsRef m.items = some n → NatCanon n) ∧ ∀ s ∈ itemsSettings m.items, SettingCanon s

def nullItem : Item := ⟨[], anyP, .ignored⟩

/-- The canonical text / pair of a statement. -/
def stmtItem : Stmt → Item
  | .setting s => settingItem s
  | .prmText t => prmTextItem t
  | .extPrm e => extItem e
  | .slots ss => slotDefItem ss
  | .area a => areaItem a
  | .module m =>
    match m.config with
    | c :: cs => moduleItem m.name c cs (itemsRef m.items) (itemsSettings m.items)
    | [] => nullItem
  | .ignored => nullItem

/-- The statements the canonical printer covers (everything `toAst` produces except the ignored
blocks `UnitDiagType`, `Version_Firmware_Download`, `Physical_Interface`, `Jokerblock_Type`). -/
def StmtCanon : Stmt → Prop
  | .setting s => LineCanon s
  | .prmText t => PrmTextCanon t
  | .extPrm e => ExtCanon e
  | .slots ss => ∀ s ∈ ss, SlotCanon s
  | .area a => AreaCanon a
  | .module m => ModuleCanon m
  | .ignored => False

theorem stmtItem_good : ∀ (st : Stmt), StmtCanon st → (stmtItem st).Good ∧ (stmtItem st).stmt = st
  | .setting s, h => ⟨settingItem_good h, rfl⟩
  | .prmText t, h => ⟨prmTextItem_good t h, rfl⟩
  | .extPrm e, h => ⟨extItem_good e h, rfl⟩
  | .slots ss, h => ⟨slotDefItem_good ss h, rfl⟩
  | .area a, h => ⟨areaItem_good a h, rfl⟩
  | .ignored, h => h.elim
  | .module m, h => by
    obtain ⟨hname, hne, hcfg, hitems, href, hss⟩ := h
    obtain ⟨name, config, items⟩ := m
    simp only at hname hne hcfg hitems href hss
    cases config with
    | nil => exact (hne rfl).elim
    | cons c cs =>
      refine ⟨moduleItem_good name hname c cs hcfg _ href _ hss, ?_⟩
      simp only [stmtItem, moduleItem, modStmt]
      rw [← hitems]

/-- Canonical text of a statement list: `#Profibus_DP`, then every statement on its own line(s). -/
def renderAst (ast : Ast) : Str := fileText (ast.map stmtItem)

/-- **Text → description for canonical files of all statement kinds.** -/
theorem parse_renderAst (hf : fuelCheck 1000 = true) (st : Stmt) (rest : Ast) (h : ∀ x ∈ st :: rest, StmtCanon x) :
    parse (renderAst (st :: rest)) = some (interp (st :: rest)) := by
  have hgood : ∀ x ∈ stmtItem st :: rest.map stmtItem, x.Good := by
    intro x hx
    simp only [List.mem_cons, List.mem_map] at hx
    rcases hx with rfl | ⟨y, hy, rfl⟩
    · exact (stmtItem_good st (h st (List.mem_cons_self ..))).1
    · exact (stmtItem_good y (h y (List.mem_cons_of_mem _ hy))).1
  have := parse_items hf (stmtItem st) (rest.map stmtItem) hgood
  have hmap : (stmtItem st :: rest.map stmtItem).map Item.stmt = st :: rest := by
    have : ∀ (l : Ast), (∀ x ∈ l, StmtCanon x) → (l.map stmtItem).map Item.stmt = l := by
      intro l hl
      induction l with
      | nil => rfl
      | cons a l ih =>
        simp only [List.map_cons, (stmtItem_good a (hl a (List.mem_cons_self ..))).2,
          ih (fun x hx => hl x (List.mem_cons_of_mem _ hx))]
    simpa using this (st :: rest) h
  rw [hmap] at this
  exact this

end PV.Gsd.Peg
