/-
Who may transmit what (C01): for every handler of the station model, the telegram a poll hands to
the PHY is of the kind the FDL state allows.  Helper lemmas; the property theorem is in `Props/C01.lean`.
-/
import ProfiVerif.Lemmas.StationTx

namespace PV

/-- A token telegram with the own address as source. -/
def IsOwnToken (ts : Nat) (b : Bytes) : Prop := ∃ da : UInt8, b = sendToken da (UInt8.ofNat ts)
/-- An FDL status request (GAP poll) with the own address as source. -/
def IsGapPoll (ts : Nat) (b : Bytes) : Prop :=
  ∃ a : Nat, a ≠ ts ∧ (fdlStatusRequestHeader (UInt8.ofNat a) (UInt8.ofNat ts)).serialize [] = .ok b
/-- An FDL status response from the own address to `src`. -/
def IsStatusReply (ts src : Nat) (b : Bytes) : Prop :=
  ∃ st, (fdlStatusResponseHeader (UInt8.ofNat src) (UInt8.ofNat ts) st .ok).serialize [] = .ok b
/-- The telegram an application handed over in a `transmit_telegram` call recorded in `calls`. -/
def IsAppTelegram (calls : List AppCall) (b : Bytes) : Prop :=
  ∃ i hp h pdu, AppCall.transmit i hp (.send h pdu) ∈ calls ∧ h.serialize pdu = .ok b

/-- Result-kind predicate: if the step transmits `b` (nothing was transmitted before), `K c' b` holds. -/
def Kind (K : Ctx → Bytes → Prop) (c : Ctx) (r : Res) : Prop :=
  ∀ c' b, r = .ok c' → c.tx = none → c'.tx = some b → K c' b

theorem Kind.of_noTx {K : Ctx → Bytes → Prop} {c : Ctx} {r : Res} (h : NoTx c r) : Kind K c r := by
  intro c' b hr h0 hb
  rw [h c' hr, h0] at hb
  cases hb

theorem Kind.panic {K : Ctx → Bytes → Prop} {c : Ctx} (s : String) : Kind K c (.panic s) := by
  intro c' b hr; cases hr

theorem Kind.mono {K K' : Ctx → Bytes → Prop} {c : Ctx} {r : Res} (h : Kind K c r) (hk : ∀ c' b, K c' b → K' c' b) :
    Kind K' c r := fun c' b hr h0 hb => hk c' b (h c' b hr h0 hb)

theorem transmit_cases (c : Ctx) (now : Int) (bytes : Bytes) (c' : Ctx) (h : transmit c now bytes = .ok c') :
    c.tx = none ∧ c' = { c with tx := some bytes, s := markTx c.s now bytes.length } := by
  unfold transmit at h
  split at h
  · cases h
  · cases h; exact ⟨by assumption, rfl⟩

/-- The own token passed on by `passTokenOn`. -/
theorem passTokenOn_kind (c : Ctx) (now : Int) (att : Attempt) :
    Kind (fun _ b => IsOwnToken c.s.p.address b) c (passTokenOn c now att) := by
  intro c' b h h0 hb
  unfold passTokenOn at h
  simp only at h
  cases ht : transmit c now (sendToken (UInt8.ofNat c.s.ring.ns) (UInt8.ofNat c.s.p.address)) with
  | panic s => rw [ht] at h; cases h
  | ok c1 =>
    rw [ht] at h
    simp only [Res.bind] at h
    obtain ⟨_, rfl⟩ := transmit_cases _ _ _ _ ht
    have : c'.tx = some (sendToken (UInt8.ofNat c.s.ring.ns) (UInt8.ofNat c.s.p.address)) := by
      split at h
      · rw [tr_noTx _ _ _ c' h]; rfl
      · rw [tr_noTx _ _ _ c' h]; rfl
    rw [this] at hb
    cases hb
    exact ⟨_, rfl⟩

theorem transmitGapPoll_kind (c : Ctx) (now : Int) (c' : Ctx) (o : Option Nat) (h : transmitGapPoll c now = (.ok c', o))
    (h0 : c.tx = none) :
    (o = none ∧ c' = c) ∨
    (∃ a bytes, o = some a ∧ a ≠ c.s.p.address ∧
      (fdlStatusRequestHeader (UInt8.ofNat a) (UInt8.ofNat c.s.p.address)).serialize [] = .ok bytes ∧
      c' = { c with tx := some bytes, s := markTx c.s now bytes.length }) := by
  unfold transmitGapPoll at h
  split at h
  · rename_i cur hg
    split at h
    · cases h
    · rename_i hne
      split at h
      · rename_i bytes hser
        injection h with h1 h2
        obtain ⟨_, hc'⟩ := transmit_cases _ _ _ _ h1
        exact Or.inr ⟨cur, bytes, h2.symm, hne, hser, hc'⟩
      · cases h
  · cases h; exact Or.inl ⟨rfl, rfl⟩

theorem doPassToken_kind (c : Ctx) (now : Int) :
    Kind (fun _ b => IsOwnToken c.s.p.address b ∨ (∃ att, c.s.st = .passToken true att) ∧ IsGapPoll c.s.p.address b) c
      (doPassToken c now) := by
  unfold doPassToken
  split
  · rename_i doGap att hst
    simp only
    by_cases hw : (waitSyncPause c.s now).2 = true
    · simp only [hw, if_true]; exact Kind.of_noTx (noTx_ok_same _ _ rfl)
    · rw [if_neg hw]
      have hp : (waitSyncPause c.s now).1.p = c.s.p := waitSync_p _ _
      cases doGap with
      | false =>
        simp only [Bool.false_eq_true, if_false]
        have := passTokenOn_kind { c with s := (waitSyncPause c.s now).1 } now att
        simp only [hp] at this
        exact this.mono (fun _ _ h => Or.inl h)
      | true =>
        simp only [if_true]
        split
        · exact Kind.panic _
        · rename_i g hg
          rcases htg : transmitGapPoll (upd { c with s := (waitSyncPause c.s now).1 } fun s => { s with gap := g }) now with ⟨r, o⟩
          cases r with
          | panic s => exact Kind.panic _
          | ok c2 =>
            intro c' b h h0 hb
            rcases transmitGapPoll_kind _ now c2 o htg ((upd_tx _ _).trans h0) with ⟨rfl, rfl⟩ | ⟨a, bytes, rfl, hne, hser, rfl⟩
            · simp only at h
              have := passTokenOn_kind (upd { c with s := (waitSyncPause c.s now).1 } fun s => { s with gap := g }) now att c' b h
                ((upd_tx _ _).trans h0) hb
              simp only [upd, hp] at this
              exact Or.inl this
            · simp only at h
              rw [tr_noTx _ _ _ c' h] at hb
              simp only [upd, hp] at hser hne
              cases hb
              exact Or.inr ⟨⟨att, hst⟩, a, hne, hser⟩
  · exact Kind.panic _

/-- The token a claiming station sends to itself. -/
def selfToken (ts : Nat) : Bytes := sendToken (UInt8.ofNat ts) (UInt8.ofNat ts)

theorem claimTx_kind (c : Ctx) (now : Int) (f : Ctx → Ctx) (hf : ∀ x, (f x).tx = x.tx) :
    Kind (fun _ b => b = selfToken c.s.p.address) c
      (if (waitSyncPause c.s now).2 = true then .ok { c with s := (waitSyncPause c.s now).1 } else
        (transmit { c with s := (waitSyncPause c.s now).1 } now
          (sendToken (UInt8.ofNat (waitSyncPause c.s now).1.p.address) (UInt8.ofNat (waitSyncPause c.s now).1.p.address))).bind
          fun c => .ok (f c)) := by
  by_cases hw : (waitSyncPause c.s now).2 = true
  · rw [if_pos hw]; exact Kind.of_noTx (noTx_ok_same _ _ rfl)
  · rw [if_neg hw]
    intro c' b h h0 hb
    cases ht : transmit { c with s := (waitSyncPause c.s now).1 } now
        (sendToken (UInt8.ofNat (waitSyncPause c.s now).1.p.address) (UInt8.ofNat (waitSyncPause c.s now).1.p.address)) with
    | panic s => rw [ht] at h; cases h
    | ok c1 =>
      rw [ht] at h
      simp only [Res.bind] at h
      obtain ⟨_, rfl⟩ := transmit_cases _ _ _ _ ht
      cases h
      rw [hf] at hb
      cases hb
      rw [waitSync_p]; rfl

theorem doClaimToken_kind (now : Int) : ∀ (fuel : Nat) (c : Ctx),
    Kind (fun _ b => b = selfToken c.s.p.address ∨ IsGapPoll c.s.p.address b) c (doClaimToken c now fuel) := by
  intro fuel
  induction fuel with
  | zero => intro c; unfold doClaimToken; exact Kind.panic _
  | succ fuel ih =>
    intro c
    unfold doClaimToken
    cases hst : c.s.st with
    | claimToken step =>
      simp only
      cases step with
      | firstToken =>
        simp only
        exact (claimTx_kind c now _ (fun x => upd_tx _ _)).mono (fun _ _ h => Or.inl h)
      | secondToken =>
        simp only
        exact (claimTx_kind c now _ (fun x => upd_tx _ _)).mono (fun _ _ h => Or.inl h)
      | scan =>
        simp only
        by_cases hw : (waitSyncPause c.s now).2 = true
        · simp only [hw, if_true]; exact Kind.of_noTx (noTx_ok_same _ _ rfl)
        · rw [if_neg hw]
          have hp : (waitSyncPause c.s now).1.p = c.s.p := waitSync_p _ _
          split
          · exact Kind.of_noTx (tr_noTx _ _ _)
          · split
            · exact Kind.panic _
            · rename_i cur hg g hng
              rcases htg : transmitGapPoll (upd { c with s := (waitSyncPause c.s now).1 } fun s => { s with gap := g }) now with ⟨r, o⟩
              cases r with
              | panic s => exact Kind.panic _
              | ok c2 =>
                intro c' b h h0 hb
                rcases transmitGapPoll_kind _ now c2 o htg ((upd_tx _ _).trans h0) with ⟨rfl, rfl⟩ | ⟨a, bytes, rfl, hne, hser, rfl⟩
                · simp only at h
                  cases h
                  rw [upd_tx] at hb
                  rw [show ({ c with s := (waitSyncPause c.s now).1 } : Ctx).tx = c.tx from rfl, h0] at hb
                  cases hb
                · simp only at h
                  cases h
                  rw [upd_tx] at hb
                  simp only [upd, hp] at hser hne
                  cases hb
                  exact Or.inr ⟨a, hne, hser⟩
      | scanAwait a =>
        simp only
        rcases hag : awaitGapPollResponse c now a with ⟨r, g⟩
        cases r with
        | panic s => exact Kind.panic _
        | ok c1 =>
          obtain ⟨htx, hp, hk⟩ := awaitGap_spec c now a c1 g hag
          cases g with
          | waitingForBus => exact Kind.of_noTx (noTx_ok_same _ _ htx)
          | responded => exact Kind.of_noTx (noTx_ok_same _ _ ((upd_tx _ _).trans htx))
          | noResponse =>
            intro c' b h h0 hb
            have := ih (upd c1 fun s => { s with st := .claimToken .scan }) c' b h ((upd_tx _ _).trans (htx.trans h0)) hb
            simp only [upd, hp] at this
            exact this
          | unexpected =>
            refine Kind.of_noTx ?_
            intro c' h
            rw [tr_noTx _ _ _ c' h, htx]
    | offline | passiveIdle | listenToken _ _ | activeIdle _ _ _ | useToken _ _ | awaitData _ _ | passToken _ _
    | checkTokenPass _ | awaitStatus _ => exact Kind.panic _

/-- First step of a claim: only the self-addressed token. -/
theorem doClaimToken_first_kind (c : Ctx) (now : Int) (fuel : Nat) (hst : c.s.st = .claimToken .firstToken) :
    Kind (fun _ b => b = selfToken c.s.p.address) c (doClaimToken c now (fuel + 1)) := by
  unfold doClaimToken
  rw [hst]
  simp only
  exact claimTx_kind c now _ (fun x => upd_tx _ _)

theorem getOrInsert_snd (s : Station) (now : Int) : (getOrInsertLast s now).2 = s.lastBusActivity.getD now := by
  unfold getOrInsertLast; cases s.lastBusActivity <;> rfl

/-- The silence the station has measured at `now` reaches its time-out. -/
def SilenceExpired (s : Station) (now : Int) : Prop :=
  (now - s.lastBusActivity.getD now).natAbs ≥ s.p.tokenLostTimeout

theorem handleLostToken_kind (c : Ctx) (now : Int) (c1 : Ctx) (r : Res) (h : handleLostToken c now = (c1, some r)) :
    SilenceExpired c.s now ∧ Kind (fun _ b => b = selfToken c.s.p.address) c r := by
  have hp := getOrInsert_p c.s now
  unfold handleLostToken at h
  simp only at h
  split at h
  · rename_i hto
    refine ⟨?_, ?_⟩
    · unfold SilenceExpired
      rw [← getOrInsert_snd, ← hp]
      exact hto
    · split at h
      · cases h; exact Kind.panic _
      · rename_i s'' hs''
        cases h
        have h2 := stOnly_toClaimToken _ _ hs''
        have hst'' : s''.st = .claimToken .firstToken := by
          unfold toClaimToken at hs''
          split at hs'' <;> first | (cases hs''; rfl) | cases hs''
        have := doClaimToken_first_kind { c with s := s'' } now 1 hst''
        simp only [h2.1, hp] at this
        exact this
  · cases h

theorem encodeOrPanic_cases (c : Ctx) (now : Int) (h : Header) (pdu : Bytes) (c' : Ctx)
    (he : encodeOrPanic c now h pdu = .ok c') :
    ∃ bytes, h.serialize pdu = .ok bytes ∧ c.tx = none ∧ c' = { c with tx := some bytes, s := markTx c.s now bytes.length } := by
  unfold encodeOrPanic at he
  split at he
  · rename_i bytes hser
    obtain ⟨h0, hc⟩ := transmit_cases _ _ _ _ he
    exact ⟨bytes, hser, h0, hc⟩
  · cases he

theorem doListenToken_kind (c : Ctx) (now : Int) :
    Kind (fun _ b => (SilenceExpired c.s now ∧ b = selfToken c.s.p.address) ∨
        (∃ src coll, c.s.st = .listenToken (some src) coll ∧ IsStatusReply c.s.p.address src b)) c
      (doListenToken c now) := by
  obtain ⟨hnone, _⟩ := handleLostToken_txok c now
  unfold doListenToken
  rcases hl : handleLostToken c now with ⟨c1, _ | r⟩
  · split
    · obtain ⟨hk, hst1, hrx⟩ := hnone c1 hl
      simp only
      split
      · rename_i src coll hsc
        by_cases hw : (waitSyncPause c1.s now).2 = true
        · simp only [hw, if_true]; exact Kind.of_noTx (noTx_ok_same _ _ hk.tx)
        · rw [if_neg hw]
          intro c' b h h0 hb
          have hp : (waitSyncPause c1.s now).1.p = c.s.p := (waitSync_p _ _).trans hk.p
          cases he : encodeOrPanic { c1 with s := (waitSyncPause c1.s now).1 } now
              (fdlStatusResponseHeader (UInt8.ofNat src) (UInt8.ofNat (waitSyncPause c1.s now).1.p.address)
                (if (waitSyncPause c1.s now).1.ring.readyForRing = true ∧ src = (waitSyncPause c1.s now).1.ring.ps then
                  ResponseState.masterWithoutToken else ResponseState.masterNotReady) ResponseStatus.ok) [] with
          | panic s => simp only [he, Res.bind] at h; cases h
          | ok c2 =>
            simp only [he, Res.bind] at h
            obtain ⟨bytes, hser, _, rfl⟩ := encodeOrPanic_cases _ _ _ _ _ he
            have htx : c'.tx = some bytes := by
              split at h
              · rw [tr_noTx _ _ _ c' h]
              · cases h; rfl
            rw [htx] at hb
            cases hb
            rw [hp] at hser
            exact Or.inr ⟨src, coll, by rw [← hst1]; exact hsc, _, hser⟩
      · refine Kind.of_noTx ?_
        split
        · exact noTx_panic _ _
        · exact noTx_panic _ _
        · intro c' h
          rw [fold_noTx _ (fun c t l => listenTelegram_noTx now c t l) _ _ c' h]
          exact hk.tx
      · exact Kind.panic _
    · exact Kind.panic _
  · split
    · obtain ⟨hs, hk⟩ := handleLostToken_kind c now c1 r hl
      exact hk.mono (fun _ b hb => Or.inl ⟨hs, hb⟩)
    · exact Kind.panic _

theorem doActiveIdle_kind (c : Ctx) (now : Int) :
    Kind (fun _ b => (SilenceExpired c.s now ∧ b = selfToken c.s.p.address) ∨
        (∃ src np coll, c.s.st = .activeIdle (some src) np coll ∧ IsStatusReply c.s.p.address src b)) c
      (doActiveIdle c now) := by
  obtain ⟨hnone, _⟩ := handleLostToken_txok c now
  unfold doActiveIdle
  rcases hl : handleLostToken c now with ⟨c1, _ | r⟩
  · split
    · obtain ⟨hk, hst1, hrx⟩ := hnone c1 hl
      simp only
      split
      · rename_i src np coll hsc
        by_cases hw : (waitSyncPause c1.s now).2 = true
        · simp only [hw, if_true]; exact Kind.of_noTx (noTx_ok_same _ _ hk.tx)
        · rw [if_neg hw]
          intro c' b h h0 hb
          have hp : (waitSyncPause c1.s now).1.p = c.s.p := (waitSync_p _ _).trans hk.p
          cases he : encodeOrPanic { c1 with s := (waitSyncPause c1.s now).1 } now
              (fdlStatusResponseHeader (UInt8.ofNat src) (UInt8.ofNat (waitSyncPause c1.s now).1.p.address)
                ResponseState.masterInRing ResponseStatus.ok) [] with
          | panic s => simp only [he, Res.bind] at h; cases h
          | ok c2 =>
            simp only [he, Res.bind] at h
            obtain ⟨bytes, hser, _, rfl⟩ := encodeOrPanic_cases _ _ _ _ _ he
            cases h
            rw [upd_tx] at hb
            cases hb
            rw [hp] at hser
            exact Or.inr ⟨src, np, coll, by rw [← hst1]; exact hsc, _, hser⟩
      · refine Kind.of_noTx ?_
        split
        · exact noTx_panic _ _
        · exact noTx_panic _ _
        · intro c' h
          rw [fold_noTx _ (fun c t l => idleTelegram_noTx now c t l) _ _ c' h]
          exact hk.tx
      · exact Kind.panic _
    · exact Kind.panic _
  · split
    · obtain ⟨hs, hk⟩ := handleLostToken_kind c now c1 r hl
      exact hk.mono (fun _ b hb => Or.inl ⟨hs, hb⟩)
    · exact Kind.panic _

/-! ### Applications -/

theorem appTransmit_spec (c : Ctx) (now : Int) (hp : Bool) (c1 : Ctx) (sent : Bool)
    (h : appTransmit c now hp = (.ok c1, sent)) (h0 : c.tx = none) :
    (sent = false → c1.tx = none) ∧ (∀ b, c1.tx = some b → IsAppTelegram c1.calls b) := by
  unfold appTransmit at h
  simp only at h
  split at h
  · cases h
  · rename_i script hscr
    split at h
    · -- declined
      cases h
      exact ⟨fun _ => h0, fun b hb => by rw [show ({ c with apps := _, calls := _ } : Ctx).tx = c.tx from rfl, h0] at hb; cases hb⟩
    · rename_i hd pdu hans
      split at h
      · cases h
      · rename_i bytes hser
        have hmem : AppCall.transmit c.s.nextApp hp (.send hd pdu) ∈ c.calls ++ [AppCall.transmit c.s.nextApp hp (script.headD .decline)] := by
          rw [hans]; simp
        split at h
        · split at h
          · split at h
            · rename_i s' hs'
              injection h with h1 h2
              obtain ⟨_, rfl⟩ := transmit_cases _ _ _ _ h1
              refine ⟨fun hf => (by rw [← h2] at hf; cases hf), fun b hb => ?_⟩
              cases hb
              exact ⟨_, _, _, _, hmem, hser⟩
            · cases h
          · cases h
        · injection h with h1 h2
          obtain ⟨_, rfl⟩ := transmit_cases _ _ _ _ h1
          refine ⟨fun hf => (by rw [← h2] at hf; cases hf), fun b hb => ?_⟩
          cases hb
          exact ⟨_, _, _, _, hmem, hser⟩

theorem appsTransmit_spec (now : Int) (hp : Bool) : ∀ (k : Nat) (c c1 : Ctx) (sent : Bool),
    appsTransmit now hp k c = (.ok c1, sent) → c.tx = none →
    (sent = false → c1.tx = none) ∧ (∀ b, c1.tx = some b → IsAppTelegram c1.calls b) := by
  intro k
  induction k with
  | zero =>
    intro c c1 sent h h0
    simp only [appsTransmit] at h
    cases h
    exact ⟨fun _ => h0, fun b hb => by rw [h0] at hb; cases hb⟩
  | succ k ih =>
    intro c c1 sent h h0
    simp only [appsTransmit] at h
    rcases hA : appTransmit c now hp with ⟨r, s1⟩
    rw [hA] at h
    cases r with
    | panic s => simp only at h; cases h
    | ok c2 =>
      obtain ⟨hno, hk⟩ := appTransmit_spec c now hp c2 s1 hA h0
      cases s1 with
      | true => simp only at h; cases h; exact ⟨fun hf => (by cases hf), hk⟩
      | false =>
        simp only at h
        have h2 : c2.tx = none := hno rfl
        split at h
        · split at h
          · cases h
            exact ⟨fun _ => (upd_tx _ _).trans h2, fun b hb => by rw [upd_tx, h2] at hb; cases hb⟩
          · exact ih _ _ _ h ((upd_tx _ _).trans h2)
        · cases h

theorem appTransmit_p (c : Ctx) (now : Int) (hp : Bool) (c1 : Ctx) (sent : Bool)
    (h : appTransmit c now hp = (.ok c1, sent)) : c1.s.p = c.s.p := by
  unfold appTransmit at h
  simp only at h
  split at h
  · cases h
  · split at h
    · cases h; rfl
    · split at h
      · cases h
      · split at h
        · split at h
          · split at h
            · rename_i s' hs'
              injection h with h1 h2
              obtain ⟨_, rfl⟩ := transmit_cases _ _ _ _ h1
              exact ((stOnly_toAwaitData _ _) _ _ hs').1
            · cases h
          · cases h
        · injection h with h1 h2
          obtain ⟨_, rfl⟩ := transmit_cases _ _ _ _ h1
          rfl

theorem appsTransmit_p (now : Int) (hp : Bool) : ∀ (k : Nat) (c c1 : Ctx) (sent : Bool),
    appsTransmit now hp k c = (.ok c1, sent) → c1.s.p = c.s.p := by
  intro k
  induction k with
  | zero => intro c c1 sent h; simp only [appsTransmit] at h; cases h; rfl
  | succ k ih =>
    intro c c1 sent h
    simp only [appsTransmit] at h
    rcases hA : appTransmit c now hp with ⟨r, s1⟩
    rw [hA] at h
    cases r with
    | panic s => simp only at h; cases h
    | ok c2 =>
      have hp2 := appTransmit_p c now hp c2 s1 hA
      cases s1 with
      | true => simp only at h; cases h; exact hp2
      | false =>
        simp only at h
        split at h
        · split at h
          · cases h; exact hp2
          · exact (ih _ _ _ h).trans hp2
        · cases h

/-- End of a token hold (`passNow`): the own token, or a GAP poll. -/
theorem passNow_kind (c : Ctx) (now : Int) :
    Kind (fun _ b => IsOwnToken c.s.p.address b ∨ IsGapPoll c.s.p.address b) c (passNow c now) := by
  unfold passNow
  cases htr : tr c (fun s => toPassToken s true .first) "transition_pass_token" with
  | panic s => exact Kind.panic _
  | ok c1 =>
    simp only [Res.bind]
    obtain ⟨s', hs', rfl⟩ := tr_cases _ _ _ _ htr
    have hp' : s'.p = c.s.p := ((stOnly_toPassToken true .first) _ _ hs').1
    intro c' b h h0 hb
    have := doPassToken_kind { c with s := s' } now c' b h h0 hb
    simp only [hp'] at this
    rcases this with h1 | ⟨_, h2⟩
    · exact Or.inl h1
    · exact Or.inr h2

/-- What a token holder may send at the end of / during its token hold. -/
def HolderKind (ts : Nat) (calls : List AppCall) (b : Bytes) : Prop :=
  IsAppTelegram calls b ∨ IsOwnToken ts b ∨ IsGapPoll ts b

theorem useTokenGo_kind (c : Ctx) (now : Int) (d : UseData) (hp : Bool) :
    Kind (fun c' b => HolderKind c.s.p.address c'.calls b) c (useTokenGo c now d hp) := by
  intro c' b h h0 hb
  unfold useTokenGo at h
  simp only at h
  rcases hA : appsTransmit now hp (upd c fun s => { s with st := .useToken d true }).apps.length
      (upd c fun s => { s with st := .useToken d true }) with ⟨r, sent⟩
  rw [hA] at h
  cases r with
  | panic s => simp only at h; cases h
  | ok c2 =>
    obtain ⟨hno, hk⟩ := appsTransmit_spec now hp _ _ c2 sent hA ((upd_tx _ _).trans h0)
    have hp2 : c2.s.p = c.s.p := appsTransmit_p now hp _ (upd c fun s => { s with st := .useToken d true }) c2 sent hA
    cases sent with
    | true => simp only at h; cases h; exact Or.inl (hk b hb)
    | false =>
      simp only at h
      have := passNow_kind c2 now c' b h (hno rfl) hb
      rw [hp2] at this
      exact Or.inr this

theorem doUseToken_kind (c : Ctx) (now : Int) :
    Kind (fun c' b => HolderKind c.s.p.address c'.calls b) c (doUseToken c now) := by
  unfold doUseToken
  split
  · rename_i d fcd hst
    simp only
    have hp : (waitSyncPause (holdUpdate c.s d) now).1.p = c.s.p := (waitSync_p _ _).trans (holdUpdate_keeps _ _).2
    split
    · exact Kind.of_noTx (noTx_ok_same _ _ rfl)
    · split
      · have := useTokenGo_kind { c with s := (waitSyncPause (holdUpdate c.s d) now).1 } now d false
        simp only [hp] at this
        exact this
      · split
        · have := useTokenGo_kind { c with s := (waitSyncPause (holdUpdate c.s d) now).1 } now d true
          simp only [hp] at this
          exact this
        · have := passNow_kind { c with s := (waitSyncPause (holdUpdate c.s d) now).1 } now
          simp only [hp] at this
          exact this.mono (fun _ _ h => Or.inr h)
  · exact Kind.panic _

theorem doAwaitDataResponse_kind (c : Ctx) (now : Int) :
    Kind (fun c' b => HolderKind c.s.p.address c'.calls b) c (doAwaitDataResponse c now) := by
  unfold doAwaitDataResponse
  split
  · rename_i address d hst
    simp only
    split
    · exact Kind.panic _
    · have hback : ∀ c0 : Ctx, NoTx c0 ((tr c0 (fun s => toUseToken s d) "transition_use_token").bind fun c =>
          .ok (upd c fun s => { s with st := .useToken d true })) := by
        intro c0
        exact bind_noTx (tr_noTx _ _ _) (fun c1 _ => noTx_ok_same _ _ (upd_tx _ _))
      split
      · exact Kind.panic _
      · exact Kind.panic _
      · refine Kind.of_noTx (ite_noTx ?_ ?_)
        · intro c' h; rw [hback _ c' h]
        · intro c' h; rw [tr_noTx _ _ _ c' h]
      · by_cases hexp : (checkSlotExpired c.s now).2 = true
        · simp only [hexp, if_true]
          intro c' b h h0 hb
          cases hb1 : ((tr { c with rx := _, s := (checkSlotExpired c.s now).1, calls := c.calls ++ [AppCall.timeout c.s.nextApp address] }
              (fun s => toUseToken s d) "transition_use_token").bind fun c =>
              .ok (upd c fun s => { s with st := .useToken d true })) with
          | panic s => rw [hb1] at h; cases h
          | ok c2 =>
            rw [hb1] at h
            simp only [Res.bind] at h
            have := doUseToken_kind c2 now c' b h ((hback _ c2 hb1).trans h0) hb
            have hp2 : c2.s.p = c.s.p := by
              cases htr : tr { c with rx := _, s := (checkSlotExpired c.s now).1, calls := c.calls ++ [AppCall.timeout c.s.nextApp address] }
                  (fun s => toUseToken s d) "transition_use_token" with
              | panic s => rw [htr] at hb1; cases hb1
              | ok c1 =>
                rw [htr] at hb1
                simp only [Res.bind] at hb1
                cases hb1
                exact (tr_keeps _ _ _ (stOnly_toUseToken d) c1 htr).p.trans (checkSlot_p _ _)
            rw [hp2] at this
            exact this
        · rw [if_neg hexp]
          exact Kind.of_noTx (noTx_ok_same _ _ rfl)
  · exact Kind.panic _

/-! ### Retries and supervision -/

theorem trThenPass_kind (now : Int) (c c0 : Ctx) (a : Attempt) (htx : c0.tx = c.tx) (hp : c0.s.p = c.s.p) :
    Kind (fun _ b => IsOwnToken c.s.p.address b) c
      ((tr c0 (fun s => toPassToken s false a) "transition_pass_token").bind fun c => doPassToken c now) := by
  cases htr : tr c0 (fun s => toPassToken s false a) "transition_pass_token" with
  | panic s => exact Kind.panic _
  | ok c1 =>
    simp only [Res.bind]
    obtain ⟨s', hs', rfl⟩ := tr_cases _ _ _ _ htr
    have hst : s'.st = .passToken false a := by
      simp only [toPassToken] at hs'
      split at hs' <;> first | (cases hs'; rfl) | cases hs'
    have hp' : s'.p = c.s.p := ((stOnly_toPassToken false a) _ _ hs').1.trans hp
    intro c' b h h0 hb
    have := doPassToken_kind { c0 with s := s' } now c' b h (htx.trans h0) hb
    simp only [hp'] at this
    rcases this with h1 | ⟨⟨att, hatt⟩, _⟩
    · exact h1
    · rw [hst] at hatt; cases hatt

theorem doAwaitStatusResponse_kind (c : Ctx) (now : Int) :
    Kind (fun _ b => IsOwnToken c.s.p.address b) c (doAwaitStatusResponse c now) := by
  unfold doAwaitStatusResponse
  split
  · rename_i a hst
    rcases hag : awaitGapPollResponse c now a with ⟨r, g⟩
    cases r with
    | panic s => exact Kind.panic _
    | ok c1 =>
      obtain ⟨htx, hp, hk⟩ := awaitGap_spec c now a c1 g hag
      cases g with
      | waitingForBus => exact Kind.of_noTx (noTx_ok_same _ _ htx)
      | responded =>
        refine Kind.of_noTx ?_
        intro c' h
        rw [tr_noTx _ _ _ c' h, htx]
      | noResponse => exact trThenPass_kind now c c1 .first htx hp
      | unexpected =>
        refine Kind.of_noTx ?_
        intro c' h
        rw [tr_noTx _ _ _ c' h, htx]
  · exact Kind.panic _

theorem doCheckTokenPass_kind (c : Ctx) (now : Int) :
    Kind (fun _ b => IsOwnToken c.s.p.address b) c (doCheckTokenPass c now) := by
  unfold doCheckTokenPass
  split
  · rename_i att hst
    simp only
    by_cases hexp : (checkSlotExpired c.s now).2 = true
    · simp only [hexp, if_true]
      cases att with
      | first => exact trThenPass_kind now c _ .second rfl (checkSlot_p _ _)
      | second => exact trThenPass_kind now c _ .third rfl (checkSlot_p _ _)
      | third =>
        simp only
        split
        · exact Kind.panic _
        · exact trThenPass_kind now c _ .first (upd_tx _ _) (checkSlot_p _ _)
    · rw [if_neg hexp]
      refine Kind.of_noTx ?_
      split
      · exact noTx_panic _ _
      · exact noTx_panic _ _
      · split
        · exact noTx_ok_same _ _ rfl
        · refine bind_noTx (c := c) ?_ ?_
          · intro c' h; rw [tr_noTx _ _ _ c' h]
          · intro c1 _
            refine bind_noTx (handleTelegram_noTx _ _ _ _) ?_
            intro c2 _
            exact fold_noTx _ (fun c t l => idleTelegram_noTx now c t l) _ _
  · exact Kind.panic _

/-- What a poll may hand to the PHY, by the FDL state in which the handler runs. -/
def Allowed (s : Station) (now : Int) (calls' : List AppCall) (b : Bytes) : Prop :=
  let ts := s.p.address
  match s.st with
  | .offline | .passiveIdle => SilenceExpired s now ∧ b = selfToken ts
  | .listenToken sr _ =>
    (SilenceExpired s now ∧ b = selfToken ts) ∨ (∃ src, sr = some src ∧ IsStatusReply ts src b)
  | .activeIdle sr _ _ =>
    (SilenceExpired s now ∧ b = selfToken ts) ∨ (∃ src, sr = some src ∧ IsStatusReply ts src b)
  | .claimToken _ => b = selfToken ts ∨ IsGapPoll ts b
  | .useToken _ _ | .awaitData _ _ => HolderKind ts calls' b
  | .passToken g _ => IsOwnToken ts b ∨ (g = true ∧ IsGapPoll ts b)
  | .checkTokenPass _ | .awaitStatus _ => IsOwnToken ts b

theorem dispatch_kind (c : Ctx) (now : Int) :
    Kind (fun c' b => Allowed c.s now c'.calls b) c (dispatch c now) := by
  unfold dispatch
  cases hst : c.s.st with
  | offline => exact Kind.panic _
  | passiveIdle => exact Kind.panic _
  | listenToken sr coll =>
    refine (doListenToken_kind c now).mono ?_
    intro c' b h
    simp only [Allowed, hst]
    rcases h with h | ⟨src, coll', h1, h2⟩
    · exact Or.inl h
    · rw [hst] at h1; cases h1; exact Or.inr ⟨src, rfl, h2⟩
  | activeIdle sr np coll =>
    refine (doActiveIdle_kind c now).mono ?_
    intro c' b h
    simp only [Allowed, hst]
    rcases h with h | ⟨src, np', coll', h1, h2⟩
    · exact Or.inl h
    · rw [hst] at h1; cases h1; exact Or.inr ⟨src, rfl, h2⟩
  | claimToken step =>
    refine (doClaimToken_kind now 2 c).mono ?_
    intro c' b h
    simpa only [Allowed, hst] using h
  | useToken d fcd =>
    refine (doUseToken_kind c now).mono ?_
    intro c' b h
    simpa only [Allowed, hst] using h
  | awaitData a d =>
    refine (doAwaitDataResponse_kind c now).mono ?_
    intro c' b h
    simpa only [Allowed, hst] using h
  | passToken g att =>
    refine (doPassToken_kind c now).mono ?_
    intro c' b h
    simp only [Allowed, hst]
    rcases h with h | ⟨⟨att', h1⟩, h2⟩
    · exact Or.inl h
    · rw [hst] at h1; cases h1; exact Or.inr ⟨rfl, h2⟩
  | checkTokenPass att =>
    refine (doCheckTokenPass_kind c now).mono ?_
    intro c' b h
    simpa only [Allowed, hst] using h
  | awaitStatus a =>
    refine (doAwaitStatusResponse_kind c now).mono ?_
    intro c' b h
    simpa only [Allowed, hst] using h

theorem checkBusActivity_id (s : Station) (now : Int) (n : Nat) (h : n ≤ s.pendingBytes) :
    checkBusActivity s now n = s := by
  unfold checkBusActivity
  rw [if_neg (by omega)]

/-- One whole poll: whatever is handed to the PHY is allowed by the FDL state at the start of the poll. -/
theorem pollInner_who (c : Ctx) (now : Int) (phyTx : Bool) (c' : Ctx) (b : Bytes)
    (h : pollInner c now phyTx = .ok c') (h0 : c.tx = none) (hb : c'.tx = some b) :
    Allowed c.s now c'.calls b := by
  obtain ⟨_, hpend, _⟩ := pollInner_tx c now phyTx c' h h0 (by rw [hb]; simp)
  unfold pollInner at h
  split at h
  · split at h
    · cases h; rw [h0] at hb; cases hb
    · cases h
  · cases hps : pollStart c with
    | panic s => rw [hps] at h; cases h
    | ok c1 =>
      rw [hps] at h
      simp only [Res.bind] at h
      split at h
      · cases h
        have : c1.tx = c.tx := by
          unfold pollStart at hps
          split at hps
          · exact tr_noTx _ _ _ c1 hps
          · exact tr_noTx _ _ _ c1 hps
          · cases hps; rfl
        rw [upd_tx, this, h0] at hb; cases hb
      · -- the handler runs on the context after `pollStart`; the activity check changed nothing
        unfold pollStart at hps
        have hgen : ∀ c1 : Ctx, c1.rx = c.rx → c1.s.pendingBytes = c.s.pendingBytes → c1.tx = c.tx →
            dispatch (upd c1 fun s => checkBusActivity s now c1.rx.length) now = .ok c' →
            Allowed c1.s now c'.calls b := by
          intro c1 hrx hpb htx hd
          have hid : (upd c1 fun s => checkBusActivity s now c1.rx.length) = c1 := by
            have hle : c1.rx.length ≤ c1.s.pendingBytes := by rw [hrx, hpb]; exact hpend
            show ({ c1 with s := checkBusActivity c1.s now c1.rx.length } : Ctx) = c1
            rw [checkBusActivity_id _ _ _ hle]
          rw [hid] at hd
          exact dispatch_kind c1 now c' b hd (htx.trans h0) hb
        split at hps
        · rename_i hoff
          obtain ⟨s', hs', rfl⟩ := tr_cases _ _ _ _ hps
          have hs'' : s' = { c.s with st := .listenToken none 0 } := by
            unfold toListenToken at hs'
            rw [hoff] at hs'
            cases hs'; rfl
          have := hgen { c with s := s' } rfl (by rw [hs'']) rfl h
          rw [hs''] at this
          simp only [Allowed] at this
          simp only [Allowed, hoff]
          rcases this with h1 | ⟨src, h1, _⟩
          · exact h1
          · cases h1
        · rename_i hoff
          obtain ⟨s', hs', rfl⟩ := tr_cases _ _ _ _ hps
          have hs'' : s' = { c.s with st := .listenToken none 0 } := by
            unfold toListenToken at hs'
            rw [hoff] at hs'
            cases hs'
          have := hgen { c with s := s' } rfl (by rw [hs'']) rfl h
          rw [hs''] at this
          simp only [Allowed] at this
          simp only [Allowed, hoff]
          rcases this with h1 | ⟨src, h1, _⟩
          · exact h1
          · cases h1
        · cases hps
          exact hgen c rfl rfl rfl h

end PV
