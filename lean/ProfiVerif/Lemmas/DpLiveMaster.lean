/-
From the peripheral-level joint model `PJ` (theorems of C07) to the master-level joint model `Joint`
(what the `dplive` correspondence runs against the real `DpMaster`): for a master holding exactly one
peripheral, one `transmit_telegram` call (`Joint.turn`) is

* a global-control broadcast (the slave ignores it; peripheral untouched, apart from the optional user
  call), or
* a turn that only closes the DP cycle (`cycle_state` back to the first slot; nothing else changes), or
* exactly one visit `PJ.visit` of the peripheral with the same delivery, after which the cycle is
  either closed by the reply or still points at the peripheral.

So between two visits there is at most one cycle-closing turn (plus broadcasts): `2 (mr + 8) + 1` turns
that are not broadcasts contain `mr + 8` visits.
-/
import ProfiVerif.Lemmas.DpLive

namespace PV.Live
open PV PV.Dp

def singleSlots (p : Peripheral) (k : Nat) : List (Option Peripheral) := some p :: List.replicate k none

theorem firstFrom_nones (k i index : Nat) : firstFrom (List.replicate k none) i index = none := by
  induction k generalizing i with
  | zero => rfl
  | succ k ih =>
    simp only [List.replicate, firstFrom]
    split
    · exact ih _
    · exact ih _

theorem firstFrom_single0 (p : Peripheral) (k : Nat) : firstFrom (singleSlots p k) 0 0 = some (0, p) := by
  simp [singleSlots, firstFrom]

theorem firstFrom_single_succ (p : Peripheral) (k n : Nat) : firstFrom (singleSlots p k) 0 (n + 1) = none := by
  simp [singleSlots, firstFrom, firstFrom_nones]

theorem getAtIndex_single0 (p : Peripheral) (k : Nat) : getAtIndex (singleSlots p k) 0 = .ok (some (0, p)) := by
  simp [getAtIndex, firstFrom_single0]

theorem getAtIndex_single_succ (p : Peripheral) (k n : Nat) : getAtIndex (singleSlots p k) (n + 1) = .ok none := by
  simp [getAtIndex, firstFrom_single_succ]

theorem nextCycle_single0 (p : Peripheral) (k : Nat) : nextCycle (singleSlots p k) 0 = .ok (.completed, true) := by
  simp [nextCycle, getNextIndex, firstFrom_single0, firstFrom_single_succ]

theorem set_single (p p' : Peripheral) (k : Nat) : (singleSlots p k).set 0 (some p') = singleSlots p' k := rfl

/-- A master in Operate whose only peripheral sits in slot 0. -/
structure Single (m : Master) (p : Peripheral) : Prop where
  slots : ∃ k, m.slots = singleSlots p k
  op : m.op = .operate
  cycle : m.cycle = .dx 0 ∨ m.cycle = .completed

/-- The `loop` of `transmit_telegram` for a single-peripheral master. -/
theorem txLoop_single {fp : FdlParams} {m : Master} {p : Peripheral} (hS : Single m p) (fuel : Nat) :
    Master.txLoop fp (fuel + 1) m =
      match m.cycle with
      | .completed => .none { m with cycle := .dx 0, lastEvents := {} }
      | .dx _ =>
        match p.transmit fp m.op with
        | .panic => .panic
        | .send p' h pdu => .send { m with slots := m.slots.set 0 (some p'), lastEvents := {} } h pdu
        | .decline p' (some ev) =>
          .none { m with slots := m.slots.set 0 (some p'), cycle := .dx 0,
                         lastEvents := { cycleCompleted := true,
                                         peripheral := some { index := 0, address := p.address, ev := ev } } }
        | .decline p' none =>
          .none { m with slots := m.slots.set 0 (some p'), cycle := .dx 0, lastEvents := { cycleCompleted := true } } := by
  obtain ⟨k, hk⟩ := hS.slots
  rcases hS.cycle with hc | hc
  · simp only [Master.txLoop, hc, Master.visit, hk, getAtIndex_single0]
    cases ht : p.transmit fp m.op with
    | panic => rfl
    | send p' h pdu => rfl
    | decline p' ev =>
      cases ev with
      | some e => simp only [set_single, nextCycle_single0]; rfl
      | none => simp only [set_single, nextCycle_single0]; rfl
  · simp only [Master.txLoop, hc]

/-- `receive_reply` for a single-peripheral master whose cycle points at the peripheral. -/
theorem receiveReply_single {m : Master} {p : Peripheral} (hS : Single m p) (hc : m.cycle = .dx 0)
    (t : Telegram) :
    m.receiveReply p.address t =
      match p.receiveReply t with
      | .panic => .panic
      | .ok p' ev =>
        .ok { m with slots := m.slots.set 0 (some p'), cycle := .completed,
                     lastEvents := { cycleCompleted := true,
                                     peripheral := ev.map fun e => { index := 0, address := p.address, ev := e } } } := by
  obtain ⟨k, hk⟩ := hS.slots
  simp only [Master.receiveReply, hc, hk, getAtIndex_single0, ne_eq, not_true_eq_false, if_false]
  cases p.receiveReply t with
  | panic => rfl
  | ok p' ev => simp only [set_single, nextCycle_single0]

/-- `transmit_telegram(now, …, HighPrioOnly::No)` of a single-peripheral master. -/
theorem transmit_single {fp : FdlParams} {m : Master} {p : Peripheral} (hS : Single m p) {now : Int} {b : Bool}
    (hdue : gcDue fp now m.lastGc = some b) :
    Master.transmit fp now false m =
      if b then .send { m with lastGc := some now, lastEvents := {} } (gcHeader fp) [0x00, 0x00]
      else
        match m.cycle with
        | .completed => .none { m with cycle := .dx 0, lastEvents := {} }
        | .dx _ =>
          match p.transmit fp m.op with
          | .panic => .panic
          | .send p' h pdu => .send { m with slots := m.slots.set 0 (some p'), lastEvents := {} } h pdu
          | .decline p' (some ev) =>
            .none { m with slots := m.slots.set 0 (some p'), cycle := .dx 0,
                           lastEvents := { cycleCompleted := true,
                                           peripheral := some { index := 0, address := p.address, ev := ev } } }
          | .decline p' none =>
            .none { m with slots := m.slots.set 0 (some p'), cycle := .dx 0, lastEvents := { cycleCompleted := true } } := by
  unfold Master.transmit
  rw [if_neg (by rw [hS.op]; decide)]
  simp only [Bool.false_eq_true, if_false, hdue]
  cases b with
  | true =>
    have hp : gcPdu m.op = some [0x00, 0x00] := by rw [hS.op]; rfl
    simp only [hp, gcHeader_serialize fp [0x00, 0x00] rfl, if_true]
  | false =>
    simp only [Bool.false_eq_true, if_false]
    exact txLoop_single hS _

/-- What a turn of a single-peripheral master is (see the header of this file). -/
inductive TurnKind (J : Joint) (p : Peripheral) (now : Int) (mid : Bool) (d : Delivery) : Joint → TurnObs → Prop
  /-- global-control broadcast: the slave ignores it -/
  | gc (m' : Master) (o : TurnObs) (p' : Peripheral) :
      Single m' p' → p' = (if mid then reqDiag p else p) → m'.cycle = J.m.cycle → o.expect = none → o.tx.isSome = true →
      m'.lastGc = some now →
      TurnKind J p now mid d { J with m := m' } o
  /-- the turn that closes the cycle -/
  | close (m' : Master) : Single m' p → J.m.cycle = .completed → m'.cycle = .dx 0 → m'.lastGc = J.m.lastGc →
      TurnKind J p now mid d { J with m := m' } {}
  /-- one visit of the peripheral -/
  | visit (m' : Master) (s' : Slave) (o : TurnObs) (p' : Peripheral) (ev : Option PEvent) :
      Single m' p' → J.m.cycle = .dx 0 →
      PJ.visit ⟨J.fp, J.m.op, p, J.s⟩ mid d = some (⟨J.fp, J.m.op, p', s'⟩, ev) →
      m'.lastEvents.peripheral = ev.map (fun e => { index := 0, address := p.address, ev := e }) →
      -- a reply closes the cycle; otherwise the next turn visits the peripheral again
      (m'.cycle = .completed ∨ m'.cycle = .dx 0) → m'.lastGc = J.m.lastGc →
      -- not a broadcast: nothing was sent, or a reply is expected
      (o.tx = none ∨ o.expect.isSome = true) →
      TurnKind J p now mid d { J with m := m', s := s' } o

theorem single_reqDiag {m : Master} {p : Peripheral} (hS : Single m p) :
    (m.requestDiagnostics 0).getD m = { m with slots := m.slots.set 0 (some (reqDiag p)) } ∧
    Single { m with slots := m.slots.set 0 (some (reqDiag p)) } (reqDiag p) := by
  obtain ⟨k, hk⟩ := hS.slots
  refine ⟨?_, ⟨⟨k, by simp only [hk]; rfl⟩, hS.op, hS.cycle⟩⟩
  simp [Master.requestDiagnostics, Master.peripheral?, hk, singleSlots, reqDiag]

theorem single_set {m : Master} {p : Peripheral} (hS : Single m p) (p' : Peripheral) (c : Cycle) (ev : Events)
    (hc : c = .dx 0 ∨ c = .completed) :
    Single { m with slots := m.slots.set 0 (some p'), cycle := c, lastEvents := ev } p' := by
  obtain ⟨k, hk⟩ := hS.slots
  exact ⟨⟨k, by simp only [hk]; rfl⟩, hS.op, hc⟩

/-- The delivery half of a visiting turn. -/
theorem turn_tail {fp : FdlParams} {m : Master} {s : Slave} {p : Peripheral} {now : Int} {mid : Bool} {d : Delivery}
    {m1 : Master} {p1 : Peripheral} {h : Header} {pdu : Bytes} (hS1 : Single m1 p1)
    (hev1 : m1.lastEvents = {}) (hcy1 : m1.cycle = .dx 0) (haddr : p1.address = p.address)
    (hc : m.cycle = .dx 0) (hgc1 : m1.lastGc = m.lastGc)
    (hvis : PJ.visit ⟨fp, m.op, p, s⟩ mid d =
      (match d.deliver (s.receive h pdu).2 with
       | none => some (⟨fp, m.op, p1, (s.receive h pdu).1⟩, none)
       | some t =>
         match p1.receiveReply t with
         | .panic => none
         | .ok p2 ev => some (⟨fp, m.op, p2, (s.receive h pdu).1⟩, ev)))
    (hsome : (PJ.visit ⟨fp, m.op, p, s⟩ mid d).isSome = true) (o1 : TurnObs) (o2 : Telegram → TurnObs)
    (ho1 : o1.expect.isSome = true) (ho2 : ∀ t, (o2 t).expect.isSome = true) :
    ∃ J' o,
      (match d.deliver (s.receive h pdu).2 with
       | none => TurnRes.ok { fp := fp, m := m1.handleTimeout p.address, s := (s.receive h pdu).1, slot := 0 } o1
       | some t =>
         match m1.receiveReply p.address t with
         | .panic => TurnRes.panic
         | .ok m2 => TurnRes.ok { fp := fp, m := m2, s := (s.receive h pdu).1, slot := 0 } (o2 t)) = .ok J' o ∧
      TurnKind ⟨fp, m, s, 0⟩ p now mid d J' o := by
  cases hdel : d.deliver (s.receive h pdu).2 with
  | none =>
    rw [hdel] at hvis
    exact ⟨_, _, rfl, .visit _ (s.receive h pdu).1 o1 p1 none hS1 hc hvis (by simp [Master.handleTimeout, hev1])
      (Or.inr (by simp [Master.handleTimeout, hcy1])) (by simp [Master.handleTimeout, hgc1]) (Or.inr ho1)⟩
  | some t =>
    rw [hdel] at hvis
    simp only at hvis ⊢
    rw [← haddr, receiveReply_single hS1 hcy1 t]
    cases hrr : p1.receiveReply t with
    | panic => rw [hrr] at hvis; simp only at hvis; rw [hvis] at hsome; cases hsome
    | ok p2 ev =>
      rw [hrr] at hvis
      simp only at hvis ⊢
      exact ⟨_, _, rfl, .visit _ (s.receive h pdu).1 (o2 t) p2 ev (single_set hS1 p2 .completed _ (Or.inr rfl)) hc hvis
        (by simp [haddr]) (Or.inl rfl) (by simp [hgc1]) (Or.inr (ho2 t))⟩

/-- **One `transmit_telegram` of a single-peripheral master** against the slave, under any delivery. -/
theorem turn_single {J : Joint} {p : Peripheral} (hS : Single J.m p) (hslot : J.slot = 0)
    (hg : Good ⟨J.fp, J.m.op, p, J.s⟩) (ha : J.s.cfg.address ≠ 127) {now : Int} (hnow : timeB now)
    (hgc : ∀ t, J.m.lastGc = some t → timeB t) (mid : Bool) {d : Delivery} (hd : ∀ t, d = .sub t → RxOk t) :
    ∃ J' o, J.turn now mid d = .ok J' o ∧ TurnKind J p now mid d J' o := by
  obtain ⟨fp, m, s, slot⟩ := J
  simp only at hslot hS hg ha hgc
  subst hslot
  obtain ⟨b, hdue⟩ : ∃ b, gcDue fp now m.lastGc = some b := ⟨_, gcDue_ok hg.fp hnow hgc⟩
  unfold Joint.turn
  rw [transmit_single hS hdue]
  cases b with
  | true =>
    -- global control
    simp only [if_true]
    have hser : (gcHeader fp).serialize [0x00, 0x00] = .ok (frameSpec (gcHeader fp) [0x00, 0x00]) :=
      gcHeader_serialize fp [0x00, 0x00] rfl
    have hexp : expectsReplyOf (gcHeader fp) = none := rfl
    have hrecv : s.receive (gcHeader fp) [0x00, 0x00] = (s, .silent) := by
      unfold Slave.receive
      rw [if_pos (by simpa [gcHeader] using fun h => ha h.symm)]
    have hS0 : Single { m with lastGc := some now, lastEvents := {} } p := ⟨hS.slots, hS.op, hS.cycle⟩
    simp only [hser, hexp, hrecv]
    cases mid with
    | false =>
      simp only [Bool.false_eq_true, if_false]
      cases d <;> exact ⟨_, _, rfl, .gc _ _ p hS0 rfl rfl rfl rfl rfl⟩
    | true =>
      obtain ⟨h1, h2⟩ := single_reqDiag hS0
      simp only [if_true, h1]
      cases d <;> exact ⟨_, _, rfl, .gc _ _ (reqDiag p) h2 rfl rfl rfl rfl rfl⟩
  | false =>
    simp only [Bool.false_eq_true, if_false]
    rcases hS.cycle with hc | hc
    · -- a visit
      simp only [hc]
      obtain ⟨j', ev, hvis, hg', _, _, _, _⟩ := visit_sim hg mid hd
      cases ht : p.transmit fp m.op with
      | panic => unfold PJ.visit at hvis; simp only [ht] at hvis; cases hvis
      | decline p' ev' =>
        cases ev' with
        | some e =>
          exact ⟨_, _, rfl, .visit _ s {} p' (some e)
            (single_set hS p' (.dx 0) _ (Or.inl rfl)) hc (by unfold PJ.visit; simp only [ht]) rfl (Or.inr rfl) rfl (Or.inl rfl)⟩
        | none =>
          exact ⟨_, _, rfl, .visit _ s {} p' none
            (single_set hS p' (.dx 0) _ (Or.inl rfl)) hc (by unfold PJ.visit; simp only [ht]) rfl (Or.inr rfl) rfl (Or.inl rfl)⟩
      | send p' h pdu =>
        -- the request on the wire
        have hsend : p.Sendable fp := by
          rcases tx_ctl hg.fp hg.op hg.pinv hg.m with ⟨_, h1⟩ | ⟨_, _, h1⟩ | ⟨hr, _⟩
          · rw [ht] at h1; cases h1
          · rw [ht] at h1; cases h1
          · exact pinv_sendable hg.fp hg.pinv hr
        obtain ⟨hser, _⟩ := transmit_wire fp m.op p hg.op hsend p' h pdu [] ht
        obtain ⟨hda, _, _, _⟩ := transmit_send_inv fp m.op p hg.op hsend p' h pdu ht
        have hexp : expectsReplyOf h = some p.address := by
          rcases tx_ctl hg.fp hg.op hg.pinv hg.m with ⟨_, h1⟩ | ⟨_, _, h1⟩ | ⟨_, k, h2, pdu2, _, h1, hreq⟩
          · rw [ht] at h1; cases h1
          · rw [ht] at h1; cases h1
          · rw [ht] at h1
            simp only [PTx.send.injEq] at h1
            obtain ⟨_, rfl, rfl⟩ := h1
            obtain ⟨_, hk⟩ := hreq
            have hfc : h.fc = .request p.fcb .srdLow ∨ h.fc = .request p.fcb .srdHigh := by
              cases k
              · exact Or.inl hk.2.2
              · exact Or.inl hk.2.2.1
              · exact Or.inl hk.2.2.1
              · exact Or.inr hk.2.2.1
            rcases hfc with hfc | hfc <;> simp [expectsReplyOf, hfc, RequestType.expectsReply, hda]
        -- the master after the optional user call
        have hS' : Single { m with slots := m.slots.set 0 (some p'), cycle := .dx 0, lastEvents := {} } p' :=
          ⟨by obtain ⟨k, hk⟩ := hS.slots; exact ⟨k, by simp only [hk]; rfl⟩, hS.op, Or.inl rfl⟩
        obtain ⟨m1, p1, hm1, hp1, hS1, hev1, hcy1, hgc1⟩ : ∃ m1 p1,
            m1 = (if mid then ((({ m with slots := m.slots.set 0 (some p'), cycle := .dx 0, lastEvents := {} } : Master).requestDiagnostics 0).getD
                    { m with slots := m.slots.set 0 (some p'), cycle := .dx 0, lastEvents := {} })
                  else { m with slots := m.slots.set 0 (some p'), cycle := .dx 0, lastEvents := {} }) ∧
            p1 = (if mid then reqDiag p' else p') ∧ Single m1 p1 ∧ m1.lastEvents = {} ∧ m1.cycle = .dx 0 ∧ m1.lastGc = m.lastGc := by
          cases mid with
          | false => exact ⟨_, _, rfl, rfl, hS', rfl, rfl, rfl⟩
          | true =>
            obtain ⟨h1, h2⟩ := single_reqDiag hS'
            exact ⟨_, _, rfl, rfl, by simp only [if_true, h1]; exact h2, by simp only [if_true, h1], by simp only [if_true, h1], by simp only [if_true, h1]⟩
        have haddr : p1.address = p.address := by
          have : p'.address = p.address := by
            rcases tx_ctl hg.fp hg.op hg.pinv hg.m with ⟨_, h1⟩ | ⟨_, _, h1⟩ | ⟨_, k, h2, pdu2, _, h1, _⟩
            · rw [ht] at h1; cases h1
            · rw [ht] at h1; cases h1
            · rw [ht] at h1
              simp only [PTx.send.injEq] at h1
              rw [h1.1]; rfl
          rw [hp1]; cases mid <;> simp [reqDiag, this]
        have hvis' : PJ.visit ⟨fp, m.op, p, s⟩ mid d =
            (match d with
             | .lossReq => some (⟨fp, m.op, p1, s⟩, none)
             | _ =>
               match d.deliver (s.receive h pdu).2 with
               | none => some (⟨fp, m.op, p1, (s.receive h pdu).1⟩, none)
               | some t =>
                 match p1.receiveReply t with
                 | .panic => none
                 | .ok p2 ev => some (⟨fp, m.op, p2, (s.receive h pdu).1⟩, ev)) := by
          unfold PJ.visit
          simp only [ht]
          rw [← hp1]
          cases d <;> rfl
        simp only [hser, hexp]
        rw [← hm1]
        by_cases hloss : d = .lossReq
        · subst hloss
          simp only at hvis' ⊢
          exact ⟨_, _, rfl, .visit _ s _ p1 none hS1 hc hvis' (by simp [Master.handleTimeout, hev1])
            (Or.inr (by simp [Master.handleTimeout, hcy1])) (by simp [Master.handleTimeout, hgc1]) (Or.inr rfl)⟩
        · have hvis2 : PJ.visit ⟨fp, m.op, p, s⟩ mid d =
              (match d.deliver (s.receive h pdu).2 with
               | none => some (⟨fp, m.op, p1, (s.receive h pdu).1⟩, none)
               | some t =>
                 match p1.receiveReply t with
                 | .panic => none
                 | .ok p2 ev => some (⟨fp, m.op, p2, (s.receive h pdu).1⟩, ev)) := by
            rw [hvis']; cases d <;> first | rfl | exact absurd rfl hloss
          have hsome : (PJ.visit ⟨fp, m.op, p, s⟩ mid d).isSome = true := by rw [hvis]; rfl
          cases d with
          | lossReq => exact absurd rfl hloss
          | ok => exact turn_tail hS1 hev1 hcy1 haddr hc hgc1 hvis2 hsome ⟨some (frameSpec h pdu), some p.address, true, (s.receive h pdu).2, none⟩ (fun t => ⟨some (frameSpec h pdu), some p.address, true, (s.receive h pdu).2, some t⟩) rfl (fun _ => rfl)
          | lossRep => exact turn_tail hS1 hev1 hcy1 haddr hc hgc1 hvis2 hsome ⟨some (frameSpec h pdu), some p.address, true, (s.receive h pdu).2, none⟩ (fun t => ⟨some (frameSpec h pdu), some p.address, true, (s.receive h pdu).2, some t⟩) rfl (fun _ => rfl)
          | sub t0 => exact turn_tail hS1 hev1 hcy1 haddr hc hgc1 hvis2 hsome ⟨some (frameSpec h pdu), some p.address, true, (s.receive h pdu).2, none⟩ (fun t => ⟨some (frameSpec h pdu), some p.address, true, (s.receive h pdu).2, some t⟩) rfl (fun _ => rfl)
    · -- closing the cycle
      simp only [hc]
      exact ⟨_, _, rfl, .close _ ⟨hS.slots, hS.op, Or.inl rfl⟩ hc rfl rfl⟩

end PV.Live
