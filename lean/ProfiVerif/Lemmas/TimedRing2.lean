/-
Timed ring, layer 3: two station models on the byte-accurate bus of `Model/Net.lean`, stable ring, no
application traffic.  Configuration constants, per-station and bus side conditions, and the unfolding of
one `Net.poll`.  Helper lemmas.
-/
import ProfiVerif.Lemmas.TimedRingBus
import ProfiVerif.Lemmas.TimedRingStation
import ProfiVerif.Lemmas.RingPass

namespace PV
open StationGap TokenRing

/-! ## Constants -/

structure Cfg where
  rate : Nat
  slotBits : Nat
  /-- upper bound on the time any station goes unpolled (µs) -/
  P : Nat

namespace Cfg
def b33 (c : Cfg) : Nat := bitsToTime c.rate 33
def b66 (c : Cfg) : Nat := bitsToTime c.rate 66
def slot (c : Cfg) : Nat := bitsToTime c.rate c.slotBits
/-- end of character `k` of a transmission, relative to its start (`ceil`, as the bus delivers) -/
def ce (c : Cfg) (k : Nat) : Nat := (11 * (k + 1) * 1000000 + c.rate - 1) / c.rate

/-- The margin of the two-party handshake (`C01.Margin` with `E = 1` and one spare microsecond) -/
structure Ok (c : Cfg) : Prop where
  rate : 0 < c.rate
  margin : 2 + 2 * c.P + c.b33 + c.ce 0 ≤ c.slot

theorem floor_le_ceil (r a : Nat) (hr : 0 < r) : a / r ≤ (a + r - 1) / r :=
  Nat.div_le_div_right (by omega)

theorem ceil_le_floor_succ (r a : Nat) (hr : 0 < r) : (a + r - 1) / r ≤ a / r + 1 := by
  have : (a + r - 1) / r ≤ (a + r) / r := Nat.div_le_div_right (by omega)
  rw [Nat.add_div_right _ hr] at this
  exact this

theorem ceil_add (r x y : Nat) (hr : 0 < r) : (x + y + r - 1) / r ≤ (x + r - 1) / r + (y + r - 1) / r := by
  have hx : x ≤ (x + r - 1) / r * r := by
    have := Nat.lt_div_mul_add (a := x + r - 1) hr
    omega
  have hy : y ≤ (y + r - 1) / r * r := by
    have := Nat.lt_div_mul_add (a := y + r - 1) hr
    omega
  have : (x + y + r - 1) / r < (x + r - 1) / r + (y + r - 1) / r + 1 := by
    rw [Nat.div_lt_iff_lt_mul hr]
    have e : ((x + r - 1) / r + (y + r - 1) / r + 1) * r = (x + r - 1) / r * r + (y + r - 1) / r * r + r := by
      rw [Nat.add_mul, Nat.add_mul]; omega
    omega
  omega

theorem ce2 (c : Cfg) (h : 0 < c.rate) : c.b33 ≤ c.ce 2 ∧ c.ce 2 ≤ c.b33 + 1 := by
  unfold b33 ce bitsToTime
  exact ⟨floor_le_ceil _ _ h, ceil_le_floor_succ _ _ h⟩

theorem ce5 (c : Cfg) (h : 0 < c.rate) : c.b66 ≤ c.ce 5 ∧ c.ce 5 ≤ c.b66 + 1 := by
  unfold b66 ce bitsToTime
  exact ⟨floor_le_ceil _ _ h, ceil_le_floor_succ _ _ h⟩

theorem ce_step (c : Cfg) (h : 0 < c.rate) (k : Nat) : c.ce (k + 1) ≤ c.ce k + c.ce 0 := by
  unfold ce
  have := ceil_add c.rate (11 * (k + 1) * 1000000) (11 * (0 + 1) * 1000000) h
  have e : 11 * (k + 1 + 1) * 1000000 = 11 * (k + 1) * 1000000 + 11 * (0 + 1) * 1000000 := by omega
  rw [e]
  exact this

theorem ce_mono (c : Cfg) (k j : Nat) (hjk : j ≤ k) : c.ce j ≤ c.ce k := by
  unfold ce
  apply Nat.div_le_div_right
  have : 11 * (j + 1) * 1000000 ≤ 11 * (k + 1) * 1000000 := by
    apply Nat.mul_le_mul_right; apply Nat.mul_le_mul_left; omega
  omega

theorem ce_pos (c : Cfg) (h : 0 < c.rate) (k : Nat) : 0 < c.ce k := by
  unfold ce
  have h1 : 1 ≤ (11 * (k + 1) * 1000000 + c.rate - 1) / c.rate := by
    rw [Nat.le_div_iff_mul_le h]
    have : 1 ≤ 11 * (k + 1) * 1000000 := by
      calc 1 ≤ 11 * 1 * 1000000 := by decide
        _ ≤ 11 * (k + 1) * 1000000 := by apply Nat.mul_le_mul_right; apply Nat.mul_le_mul_left; omega
    omega
  omega

end Cfg

theorem byteEnd_cfg (b : Bus) (c : Cfg) (h : b.rate = c.rate) (k : Nat) : b.byteEnd k = (c.ce k : Int) := by
  unfold Bus.byteEnd Cfg.ce; rw [h]

/-! ## Side conditions that never change -/

/-- The ring view of station `x` in a stable ring with member list `M`: valid LAS equal to `M`, NS / PS
derived from it (as `ViewOk` of `Lemmas/AbstractRing.lean`). -/
structure RingView (M : List Nat) (x : Nat) (r : TokenRing) : Prop where
  ring : IsRing M
  mem : x ∈ M
  ts : r.ts = x
  valid : r.las = .valid
  las : TokenRing.LasIs r M
  nbr : TokenRing.Nbr r

/-- The own pass to the cyclic successor leaves the ring view as it is. -/
theorem RingView.witness {M : List Nat} {x : Nat} {r : TokenRing} (v : RingView M x r) :
    RingView M x (r.witness x (cycSucc x M)) := by
  have hn := cycSucc_mem x M v.mem
  rw [TokenRing.witness_valid r x _ v.valid (v.ring.bound x v.mem) (v.ring.bound _ hn)]
  exact ⟨v.ring, v.mem, (TokenRing.updateLas_las r _ _).2.trans v.ts, (TokenRing.updateLas_las r _ _).1.trans v.valid,
    TokenRing.updateLas_succ_stable r M x v.las v.mem, TokenRing.updateLas_nbr r _ _⟩

theorem RingView.ns {M : List Nat} {x : Nat} {r : TokenRing} (v : RingView M x r) :
    r.ns = cycSucc x M ∧ r.ps = cycPred x M := by
  have := TokenRing.nbr_lasIs r M v.nbr v.las v.ring.bound
  rw [v.ts] at this
  exact this

/-- Per-station side conditions of the stable two-station ring: online, alive, no applications, the
station invariant, common bus parameters, own address `a`, a valid ring view over a member list `M` in
which the other station `o` is both successor and predecessor of `a`, and a token-lost time-out longer
than the longest silence of normal operation. -/
structure StOk (cfg : Cfg) (st : NetStation) (a o : Nat) : Prop where
  online : st.online = true
  alive : st.dead = false
  apps : st.apps = []
  inv : Inv st.s []
  son : st.s.online = true
  rate : st.s.p.rate = cfg.rate
  slotBits : st.s.p.slotBits = cfg.slotBits
  addr : st.s.p.address = a
  view : ∃ M, RingView M a st.s.ring ∧ cycSucc a M = o ∧ cycPred a M = o
  tto : cfg.slot + 2 * cfg.P + cfg.ce 0 + 2 ≤ st.s.p.tokenLostTimeout
  ne : a ≠ o
  lta : a < 126
  lto : o < 126

theorem StOk.ns {cfg : Cfg} {st : NetStation} {a o : Nat} (h : StOk cfg st a o) : st.s.ring.ns = o := by
  obtain ⟨M, v, h1, -⟩ := h.view; rw [v.ns.1, h1]
theorem StOk.ps {cfg : Cfg} {st : NetStation} {a o : Nat} (h : StOk cfg st a o) : st.s.ring.ps = o := by
  obtain ⟨M, v, -, h2⟩ := h.view; rw [v.ns.2, h2]
/-- After the own pass NS is still the other station. -/
theorem StOk.ns_witness {cfg : Cfg} {st : NetStation} {a o : Nat} (h : StOk cfg st a o) :
    (st.s.ring.witness a o).ns = o := by
  obtain ⟨M, v, h1, -⟩ := h.view
  have := v.witness
  rw [h1] at this
  rw [this.ns.1, h1]

theorem StOk.bits {cfg : Cfg} {st : NetStation} {a o : Nat} (h : StOk cfg st a o) (k : Nat) :
    st.s.p.bits k = bitsToTime cfg.rate k := by unfold Params.bits; rw [h.rate]
theorem StOk.b33 {cfg : Cfg} {st : NetStation} {a o : Nat} (h : StOk cfg st a o) : st.s.p.bits 33 = cfg.b33 := h.bits 33
theorem StOk.slot {cfg : Cfg} {st : NetStation} {a o : Nat} (h : StOk cfg st a o) : st.s.p.slotTime = cfg.slot := by
  unfold Params.slotTime Cfg.slot; rw [h.bits, h.slotBits]

/-- The side conditions survive a poll that keeps parameters and connectivity and leaves the ring view
alone or records the own pass. -/
theorem StOk.step {cfg : Cfg} {st : NetStation} {a o : Nat} (h : StOk cfg st a o) (now : Int) (phy : Bool) (rx : Bytes)
    (c : Ctx) (hp : st.s.poll [] now phy rx = .ok c) (h1 : c.s.p = st.s.p)
    (h2 : c.s.ring = st.s.ring ∨ c.s.ring = st.s.ring.witness a o)
    (h3 : c.s.online = true) :
    StOk cfg { st with s := c.s, apps := c.apps, rx := c.rx } a o := by
  obtain ⟨c', hc', hinv', hlen⟩ := pollInner_good { s := st.s, apps := [], rx := rx } now phy h.inv rfl
  have : c' = c := by
    have hp' : pollInner { s := st.s, apps := [], rx := rx } now phy = .ok c := hp
    rw [hc'] at hp'; cases hp'; rfl
  subst this
  have happs : c'.apps = [] := List.eq_nil_of_length_eq_zero hlen
  rw [happs] at hinv'
  have hview : ∃ M, RingView M a c'.s.ring ∧ cycSucc a M = o ∧ cycPred a M = o := by
    obtain ⟨M, v, e1, e2⟩ := h.view
    rcases h2 with h2 | h2
    · exact ⟨M, by rw [h2]; exact v, e1, e2⟩
    · refine ⟨M, ?_, e1, e2⟩
      rw [h2]
      have := v.witness
      rw [e1] at this
      exact this
  exact ⟨h.online, h.alive, happs, hinv', h3, by simp only [h1]; exact h.rate, by simp only [h1]; exact h.slotBits,
    by simp only [h1]; exact h.addr, hview, by simp only [h1]; exact h.tto, h.ne, h.lta, h.lto⟩

/-- Bus side conditions seen from both stations: fault-free, log = `old ++ [tr]` with everything in
`old` over before `tr` started and delivered to (or sent by) either station. -/
structure BusOk (cfg : Cfg) (b : Bus) (old : List Transmission) (tr : Transmission) : Prop where
  rate : b.rate = cfg.rate
  corrupt : b.corrupt = []
  drops : b.drops = []
  seen : b.seen.length = 2
  txs : b.txs = old ++ [tr]
  live : tr.dropped = false
  oldEnd : ∀ o ∈ old, b.txEnd o ≤ tr.start
  oldSeen : ∀ i, i < 2 → ∀ o ∈ old, o.sender = i ∨ b.txEnd o ≤ b.seen.getD i 0

theorem BusOk.lastOnly {cfg : Cfg} {b : Bus} {old : List Transmission} {tr : Transmission} (h : BusOk cfg b old tr)
    (hr : 0 < cfg.rate) (i : Nat) (hi : i < 2) : b.LastOnly i old tr :=
  ⟨h.txs, h.corrupt, by rw [h.rate]; exact hr, h.oldEnd, h.oldSeen i hi⟩

theorem seen_set_self (b : Bus) (i : Nat) (now : Int) (hi : i < b.seen.length) :
    (b.seen.set i now).getD i 0 = now := by
  simp [List.getD, hi]

theorem seen_set_other (b : Bus) (i j : Nat) (now : Int) (hij : i ≠ j) :
    (b.seen.set i now).getD j 0 = b.seen.getD j 0 := by
  simp [List.getD, List.getElem?_set_ne hij]

/-- After a delivery to station `i` at a later time the bus side conditions still hold. -/
theorem BusOk.deliver {cfg : Cfg} {b : Bus} {old : List Transmission} {tr : Transmission} (h : BusOk cfg b old tr)
    (i : Nat) (hi : i < 2) (now : Int) (hnow : b.seen.getD i 0 ≤ now) :
    BusOk cfg { b with seen := b.seen.set i now } old tr := by
  refine ⟨h.rate, h.corrupt, h.drops, by simp [h.seen], h.txs, h.live, h.oldEnd, ?_⟩
  intro j hj o ho
  have e : ∀ t, Bus.txEnd { b with seen := b.seen.set i now } t = b.txEnd t := fun t => rfl
  rw [e]
  rcases h.oldSeen j hj o ho with h1 | h1
  · exact .inl h1
  · right
    by_cases hij : i = j
    · subst hij
      show b.txEnd o ≤ (b.seen.set i now).getD i 0
      rw [seen_set_self b i now (by rw [h.seen]; exact hi)]
      omega
    · show b.txEnd o ≤ (b.seen.set i now).getD j 0
      rw [seen_set_other b i j now hij]; exact h1

/-! ## One `Net.poll` -/

theorem Net.poll_eq (n : Net) (i : Nat) (now : Int) (st : NetStation) (bus' : Bus) (inc : Bytes) (c : Ctx)
    (hst : n.stations[i]? = some st) (hal : st.dead = false) (hon : st.online = true)
    (hd : n.bus.deliver i now = (bus', inc))
    (hp : st.s.poll st.apps now (bus'.transmitting i now) (st.rx ++ inc) = .ok c) :
    n.poll i now = ({ bus := (match c.tx with | some b => bus'.send i now b | none => bus'),
                      stations := n.stations.set i { st with s := c.s, apps := c.apps, rx := c.rx } },
                    inc, some (.ok c)) := by
  unfold Net.poll
  rw [hd]
  simp only [hst, hal, hon, if_true, Bool.false_eq_true, if_false, hp]
  rfl

/-! ## The invariant of the stable two-station ring -/

/-- The other station's index. -/
def oth (x : Nat) : Nat := 1 - x

theorem oth_lt (x : Nat) : oth x < 2 := by unfold oth; omega
theorem oth_ne (x : Nat) (h : x < 2) : x ≠ oth x := by unfold oth; omega
theorem oth_oth (x : Nat) (h : x < 2) : oth (oth x) = x := by unfold oth; omega
theorem two_cases (x i : Nat) (hx : x < 2) (hi : i < 2) : i = x ∨ i = oth x := by unfold oth; omega

/-- Characters of transmission `tr` complete at time `a`. -/
def cvis (cfg : Cfg) (tr : Transmission) (a : Int) : Nat :=
  visCount (fun k => (cfg.ce k : Int)) tr.bytes.length tr.start a

theorem vis_cfg (b : Bus) (cfg : Cfg) (h : b.rate = cfg.rate) (tr : Transmission) (a : Int) :
    b.vis tr a = cvis cfg tr a := by
  unfold Bus.vis cvis
  have : b.byteEnd = fun k => (cfg.ce k : Int) := funext (byteEnd_cfg b cfg h)
  rw [this]

theorem ce_monoI (cfg : Cfg) (k j : Nat) (hjk : j ≤ k) : (cfg.ce j : Int) ≤ (cfg.ce k : Int) :=
  Int.ofNat_le.2 (cfg.ce_mono k j hjk)

inductive Phase
  | hold (p1 : Int)
  | gap (g : Nat)
  | pass

/-- Everything the invariant talks about: `x` is the index of the station that holds the token or
supervises its pass (`sx`, address `ax`), `sy` (address `ay`) the other one; the transmission log is
`old ++ [tr]`; `idle` says whether the other station is in `ActiveIdle` (else `CheckTokenPass`), `ly` is its
bus-activity stamp; `tl` is the time of the last event. -/
structure View where
  x : Nat
  sx : NetStation
  sy : NetStation
  ax : Nat
  ay : Nat
  old : List Transmission
  tr : Transmission
  ph : Phase
  idle : Bool
  ly : Int
  tl : Int

/-- The other station is receiving `tr` piece by piece: it has the characters complete at its last poll
`seenY` (fewer than all) in its buffer and accounted for, and the next character will be complete before
its deadline — slot time after its stamp while it supervises its own pass, token-lost time-out while idle. -/
def YRecv (cfg : Cfg) (v : View) (seenY : Int) : Prop :=
  v.sy.rx = v.tr.bytes.take (cvis cfg v.tr seenY) ∧ v.sy.s.pendingBytes = cvis cfg v.tr seenY ∧
  cvis cfg v.tr seenY < v.tr.bytes.length ∧ v.sy.s.lastBusActivity = some v.ly ∧
  (v.ly < v.tr.start ∨ v.ly ≤ seenY) ∧
  (if v.idle = true then
    (∃ np coll, v.sy.s.st = .activeIdle none np coll) ∧
      v.tr.start + (cfg.ce (cvis cfg v.tr seenY) : Nat) < v.ly + (v.sy.s.p.tokenLostTimeout : Nat)
   else v.sy.s.st = .checkTokenPass .first ∧
      v.tr.start + (cfg.ce (cvis cfg v.tr seenY) : Nat) ≤ v.ly + (cfg.slot : Nat))

/-- Phase-specific part of the invariant (`seenX`, `seenY`: last poll times of the two stations).
* `hold p1`: `sx` accepted the token `tr` (sent by `sy`) at `p1` and has not transmitted yet; `sy` supervises.
* `gap g`: `sx` sent the GAP request `tr` to the unoccupied address `g` and waits; `sy` is receiving it
  (still supervising) or has heard it completely (idle).
* `pass`: `sx` sent the token `tr` to `sy` and supervises; `sy` is receiving it. -/
def PhaseOk (cfg : Cfg) (v : View) (seenX seenY : Int) : Prop :=
  match v.ph with
  | .hold p1 =>
    v.tr.sender = oth v.x ∧ v.tr.bytes = tokenBytes v.ax v.ay ∧ (∃ d f, v.sx.s.st = .useToken d f) ∧
    v.sx.s.lastBusActivity = some p1 ∧ v.sy.s.st = .checkTokenPass .first ∧
    v.sy.s.lastBusActivity = some (v.tr.start + (cfg.b33 : Nat)) ∧ v.sy.s.pendingBytes = 0 ∧ v.sy.rx = [] ∧
    v.idle = false ∧ v.ly = v.tr.start + (cfg.b33 : Nat) ∧
    v.tr.start + (cfg.ce 2 : Nat) ≤ p1 ∧ p1 ≤ seenX ∧ seenX ≤ p1 + (cfg.b33 : Nat) ∧
    p1 + (cfg.P : Nat) + (cfg.ce 0 : Nat) ≤ v.tr.start + (cfg.slot : Nat)
  | .gap g =>
    v.tr.sender = v.x ∧ v.tr.bytes = statusRequestBytes g v.ax ∧ g ≠ v.ay ∧ g < 126 ∧
    v.sx.s.st = .awaitStatus g ∧ v.sx.s.lastBusActivity = some (v.tr.start + (cfg.b66 : Nat)) ∧
    v.tr.start ≤ seenX ∧ seenX ≤ v.tr.start + (cfg.b66 : Nat) + (cfg.slot : Nat) ∧
    (if v.idle = true then
      (∃ np coll, v.sy.s.st = .activeIdle none np coll) ∧ v.sy.rx = [] ∧ v.sy.s.pendingBytes = 0 ∧
        v.sy.s.lastBusActivity = some v.ly ∧ v.tr.start + (cfg.ce 5 : Nat) ≤ v.ly ∧ v.ly ≤ seenY
     else YRecv cfg v seenY)
  | .pass =>
    v.tr.sender = v.x ∧ v.tr.bytes = tokenBytes v.ay v.ax ∧ v.sx.s.st = .checkTokenPass .first ∧
    v.sx.s.lastBusActivity = some (v.tr.start + (cfg.b33 : Nat)) ∧ v.tr.start ≤ seenX ∧ YRecv cfg v seenY

/-- **The invariant.** -/
structure RInv (cfg : Cfg) (n : Net) (v : View) : Prop where
  x2 : v.x < 2
  len : n.stations.length = 2
  gx : n.stations[v.x]? = some v.sx
  gy : n.stations[oth v.x]? = some v.sy
  okx : StOk cfg v.sx v.ax v.ay
  oky : StOk cfg v.sy v.ay v.ax
  bus : BusOk cfg n.bus v.old v.tr
  tlx : n.bus.seen.getD v.x 0 ≤ v.tl
  tly : n.bus.seen.getD (oth v.x) 0 ≤ v.tl
  tlt : v.tr.start ≤ v.tl
  pbx : v.sx.s.pendingBytes = 0
  rxx : v.sx.rx = []
  ph : PhaseOk cfg v (n.bus.seen.getD v.x 0) (n.bus.seen.getD (oth v.x) 0)

/-! ## Re-establishing the invariant after one poll -/

/-- The station record after a poll with result context `c`. -/
def upSt (st : NetStation) (c : Ctx) : NetStation := { st with s := c.s, apps := c.apps, rx := c.rx }
def View.setX (v : View) (c : Ctx) (now : Int) : View := { v with sx := upSt v.sx c, tl := now }
def View.setY (v : View) (c : Ctx) (idle' : Bool) (ly' : Int) (now : Int) : View :=
  { v with sy := upSt v.sy c, idle := idle', ly := ly', tl := now }

theorem transmitting_seen (b : Bus) (i j : Nat) (t now : Int) :
    Bus.transmitting { b with seen := b.seen.set i t } j now = b.transmitting j now := rfl

/-- A poll of the holder side `x` that transmits nothing and keeps its phase. -/
theorem rinv_quiet_x {cfg : Cfg} {n : Net} {v : View} (h : RInv cfg n v) (now : Int) (htl : v.tl ≤ now)
    (hs : n.bus.seen.getD v.x 0 ≤ now) (inc : Bytes) (c : Ctx)
    (hd : n.bus.deliver v.x now = ({ n.bus with seen := n.bus.seen.set v.x now }, inc))
    (hp : v.sx.s.poll [] now (n.bus.transmitting v.x now) (v.sx.rx ++ inc) = .ok c)
    (htx : c.tx = none) (h1 : c.s.p = v.sx.s.p)
    (h2 : c.s.ring = v.sx.s.ring ∨ c.s.ring = v.sx.s.ring.witness v.ax v.ay) (h3 : c.s.online = true)
    (h4 : c.s.pendingBytes = 0) (h5 : c.rx = [])
    (hph : PhaseOk cfg (v.setX c now) now (n.bus.seen.getD (oth v.x) 0)) :
    ∃ n', n.poll v.x now = (n', inc, some (.ok c)) ∧ RInv cfg n' (v.setX c now) := by
  unfold View.setX upSt at hph ⊢
  have hp' : v.sx.s.poll v.sx.apps now (Bus.transmitting { n.bus with seen := n.bus.seen.set v.x now } v.x now)
      (v.sx.rx ++ inc) = .ok c := by rw [h.okx.apps, transmitting_seen]; exact hp
  refine ⟨_, Net.poll_eq n v.x now v.sx _ inc c h.gx h.okx.alive h.okx.online hd hp', ?_⟩
  rw [htx]
  have hxl : v.x < n.stations.length := by rw [h.len]; exact h.x2
  have hsl : v.x < n.bus.seen.length := by rw [h.bus.seen]; exact h.x2
  refine ⟨h.x2, by simp [h.len], ?_, ?_, ?_, h.oky, h.bus.deliver v.x h.x2 now hs, ?_, ?_, ?_, h4, h5, ?_⟩
  · simp only [List.getElem?_set_self hxl]
  · simp only
    rw [List.getElem?_set_ne (oth_ne v.x h.x2)]
    exact h.gy
  · have := h.okx.step now _ _ c (by rw [← h.okx.apps]; exact hp') h1 h2 h3
    exact this
  · simp only; rw [seen_set_self _ _ _ hsl]; exact Int.le_refl _
  · simp only; rw [seen_set_other _ _ _ _ (oth_ne v.x h.x2)]; exact Int.le_trans h.tly htl
  · exact Int.le_trans h.tlt htl
  · simp only
    rw [seen_set_self _ _ _ hsl, seen_set_other _ _ _ _ (oth_ne v.x h.x2)]
    exact hph

/-- A poll of the other side `y` that transmits nothing (it may change its mode and stamp). -/
theorem rinv_quiet_y {cfg : Cfg} {n : Net} {v : View} (h : RInv cfg n v) (now : Int) (htl : v.tl ≤ now)
    (hs : n.bus.seen.getD (oth v.x) 0 ≤ now) (inc : Bytes) (c : Ctx) (idle' : Bool) (ly' : Int)
    (hd : n.bus.deliver (oth v.x) now = ({ n.bus with seen := n.bus.seen.set (oth v.x) now }, inc))
    (hp : v.sy.s.poll [] now (n.bus.transmitting (oth v.x) now) (v.sy.rx ++ inc) = .ok c)
    (htx : c.tx = none) (h1 : c.s.p = v.sy.s.p)
    (h2 : c.s.ring = v.sy.s.ring ∨ c.s.ring = v.sy.s.ring.witness v.ay v.ax) (h3 : c.s.online = true)
    (hph : PhaseOk cfg (v.setY c idle' ly' now) (n.bus.seen.getD v.x 0) now) :
    ∃ n', n.poll (oth v.x) now = (n', inc, some (.ok c)) ∧ RInv cfg n' (v.setY c idle' ly' now) := by
  unfold View.setY upSt at hph ⊢
  have hp' : v.sy.s.poll v.sy.apps now (Bus.transmitting { n.bus with seen := n.bus.seen.set (oth v.x) now } (oth v.x) now)
      (v.sy.rx ++ inc) = .ok c := by rw [h.oky.apps, transmitting_seen]; exact hp
  refine ⟨_, Net.poll_eq n (oth v.x) now v.sy _ inc c h.gy h.oky.alive h.oky.online hd hp', ?_⟩
  rw [htx]
  have hyl : oth v.x < n.stations.length := by rw [h.len]; exact oth_lt _
  have hsl : oth v.x < n.bus.seen.length := by rw [h.bus.seen]; exact oth_lt _
  have hne := oth_ne v.x h.x2
  refine ⟨h.x2, by simp [h.len], ?_, ?_, h.okx, ?_, h.bus.deliver (oth v.x) (oth_lt _) now hs, ?_, ?_, ?_, h.pbx, h.rxx, ?_⟩
  · simp only
    rw [List.getElem?_set_ne (Ne.symm hne)]
    exact h.gx
  · simp only [List.getElem?_set_self hyl]
  · have := h.oky.step now _ _ c (by rw [← h.oky.apps]; exact hp') h1 h2 h3
    exact this
  · simp only; rw [seen_set_other _ _ _ _ (Ne.symm hne)]; exact Int.le_trans h.tlx htl
  · simp only; rw [seen_set_self _ _ _ hsl]; exact Int.le_refl _
  · exact Int.le_trans h.tlt htl
  · simp only
    rw [seen_set_self _ _ _ hsl, seen_set_other _ _ _ _ (Ne.symm hne)]
    exact hph

def View.sendX (v : View) (c : Ctx) (old' : List Transmission) (b : Bytes) (ph' : Phase) (now : Int) : View :=
  { v with sx := upSt v.sx c, old := old', tr := { start := now, sender := v.x, bytes := b, dropped := false },
           ph := ph', tl := now }

/-- A poll of the holder side `x` that transmits `b`: the log grows by this transmission. -/
theorem rinv_send_x {cfg : Cfg} {n : Net} {v : View} (h : RInv cfg n v) (hok : cfg.Ok) (now : Int) (htl : v.tl ≤ now)
    (hs : n.bus.seen.getD v.x 0 ≤ now) (c : Ctx) (b : Bytes) (ph' : Phase)
    (hd : n.bus.deliver v.x now = ({ n.bus with seen := n.bus.seen.set v.x now }, []))
    (hp : v.sx.s.poll [] now (n.bus.transmitting v.x now) [] = .ok c)
    (htx : c.tx = some b) (h1 : c.s.p = v.sx.s.p)
    (h2 : c.s.ring = v.sx.s.ring ∨ c.s.ring = v.sx.s.ring.witness v.ax v.ay) (h3 : c.s.online = true)
    (h4 : c.s.pendingBytes = 0) (h5 : c.rx = [])
    (hend : n.bus.txEnd v.tr ≤ now)
    (hys : v.tr.sender = oth v.x ∨ n.bus.txEnd v.tr ≤ n.bus.seen.getD (oth v.x) 0)
    (hph : ∀ old', PhaseOk cfg (v.sendX c old' b ph' now) now (n.bus.seen.getD (oth v.x) 0)) :
    ∃ n' old', n.poll v.x now = (n', [], some (.ok c)) ∧ RInv cfg n' (v.sendX c old' b ph' now) := by
  have hp' : v.sx.s.poll v.sx.apps now (Bus.transmitting { n.bus with seen := n.bus.seen.set v.x now } v.x now)
      (v.sx.rx ++ []) = .ok c := by rw [h.okx.apps, transmitting_seen, h.rxx]; exact hp
  have hrate : 0 < n.bus.rate := by rw [h.bus.rate]; exact hok.rate
  obtain ⟨old', e1, e2, e3, e4, e5, e6⟩ := Bus.send_txs { n.bus with seen := n.bus.seen.set v.x now } v.x now b h.bus.drops hrate
  refine ⟨_, old', Net.poll_eq n v.x now v.sx _ [] c h.gx h.okx.alive h.okx.online hd hp', ?_⟩
  rw [htx]
  have hphs := hph old'
  unfold View.sendX upSt at hphs ⊢
  have hxl : v.x < n.stations.length := by rw [h.len]; exact h.x2
  have hsl : v.x < n.bus.seen.length := by rw [h.bus.seen]; exact h.x2
  have hne := oth_ne v.x h.x2
  have hte : ∀ t, (Bus.send { n.bus with seen := n.bus.seen.set v.x now } v.x now b).txEnd t = n.bus.txEnd t :=
    fun t => Bus.txEnd_congr _ _ e3 t
  have hmem : ∀ o ∈ old', o ∈ v.old ∨ o = v.tr := by
    intro o ho
    have := e2 o ho
    simp only [h.bus.txs, List.mem_append, List.mem_singleton] at this
    exact this
  refine ⟨h.x2, by simp [h.len], ?_, ?_, ?_, h.oky, ?_, ?_, ?_, Int.le_refl _, h4, h5, ?_⟩
  · simp only [List.getElem?_set_self hxl]
  · simp only
    rw [List.getElem?_set_ne hne]
    exact h.gy
  · have := h.okx.step now _ _ c (by rw [← h.okx.apps]; exact hp') h1 h2 h3
    exact this
  · refine ⟨e3.trans h.bus.rate, e5.trans h.bus.corrupt, e6, by rw [e4]; simp [h.bus.seen], e1, rfl, ?_, ?_⟩
    · intro o ho
      rw [hte]
      rcases hmem o ho with h' | rfl
      · have := h.bus.oldEnd o h'
        have := h.tlt
        simp only; omega
      · exact hend
    · intro i hi o ho
      rw [hte, e4]
      rcases two_cases v.x i h.x2 hi with rfl | rfl
      · right
        simp only
        rw [seen_set_self _ _ _ hsl]
        rcases hmem o ho with h' | rfl
        · have := h.bus.oldEnd o h'
          have := h.tlt
          omega
        · exact hend
      · simp only
        rw [seen_set_other _ _ _ _ hne]
        rcases hmem o ho with h' | rfl
        · exact h.bus.oldSeen _ (oth_lt _) o h'
        · exact hys
  · simp only; rw [e4]; simp only; rw [seen_set_self _ _ _ hsl]; exact Int.le_refl _
  · simp only; rw [e4]; simp only; rw [seen_set_other _ _ _ _ hne]; exact Int.le_trans h.tly htl
  · simp only
    rw [e4]
    simp only
    rw [seen_set_self _ _ _ hsl, seen_set_other _ _ _ _ hne]
    exact hphs

def View.swap (v : View) (c : Ctx) (ly' : Int) (now : Int) : View :=
  { x := oth v.x, sx := upSt v.sy c, sy := v.sx, ax := v.ay, ay := v.ax, old := v.old, tr := v.tr,
    ph := .hold now, idle := false, ly := ly', tl := now }

/-- The poll in which the other side `y` accepts the token: the roles swap. -/
theorem rinv_swap_y {cfg : Cfg} {n : Net} {v : View} (h : RInv cfg n v) (now : Int) (htl : v.tl ≤ now)
    (hs : n.bus.seen.getD (oth v.x) 0 ≤ now) (inc : Bytes) (c : Ctx) (ly' : Int)
    (hd : n.bus.deliver (oth v.x) now = ({ n.bus with seen := n.bus.seen.set (oth v.x) now }, inc))
    (hp : v.sy.s.poll [] now (n.bus.transmitting (oth v.x) now) (v.sy.rx ++ inc) = .ok c)
    (htx : c.tx = none) (h1 : c.s.p = v.sy.s.p)
    (h2 : c.s.ring = v.sy.s.ring ∨ c.s.ring = v.sy.s.ring.witness v.ay v.ax) (h3 : c.s.online = true)
    (h4 : c.s.pendingBytes = 0) (h5 : c.rx = [])
    (hph : PhaseOk cfg (v.swap c ly' now) now (n.bus.seen.getD v.x 0)) :
    ∃ n', n.poll (oth v.x) now = (n', inc, some (.ok c)) ∧ RInv cfg n' (v.swap c ly' now) := by
  unfold View.swap upSt at hph ⊢
  have hp' : v.sy.s.poll v.sy.apps now (Bus.transmitting { n.bus with seen := n.bus.seen.set (oth v.x) now } (oth v.x) now)
      (v.sy.rx ++ inc) = .ok c := by rw [h.oky.apps, transmitting_seen]; exact hp
  refine ⟨_, Net.poll_eq n (oth v.x) now v.sy _ inc c h.gy h.oky.alive h.oky.online hd hp', ?_⟩
  rw [htx]
  have hyl : oth v.x < n.stations.length := by rw [h.len]; exact oth_lt _
  have hsl : oth v.x < n.bus.seen.length := by rw [h.bus.seen]; exact oth_lt _
  have hne := oth_ne v.x h.x2
  have hoo := oth_oth v.x h.x2
  refine ⟨oth_lt _, by simp [h.len], ?_, ?_, ?_, h.okx, h.bus.deliver (oth v.x) (oth_lt _) now hs, ?_, ?_, ?_, h4, h5, ?_⟩
  · simp only [List.getElem?_set_self hyl]
  · simp only
    rw [hoo, List.getElem?_set_ne (Ne.symm hne)]
    exact h.gx
  · have := h.oky.step now _ _ c (by rw [← h.oky.apps]; exact hp') h1 h2 h3
    exact this
  · simp only; rw [seen_set_self _ _ _ hsl]; exact Int.le_refl _
  · simp only; rw [hoo, seen_set_other _ _ _ _ (Ne.symm hne)]; exact Int.le_trans h.tlx htl
  · exact Int.le_trans h.tlt htl
  · simp only
    rw [hoo, seen_set_self _ _ _ hsl, seen_set_other _ _ _ _ (Ne.symm hne)]
    exact hph

/-! ## What the bus delivers in the situations of the invariant -/

theorem BusOk.deliver_own {cfg : Cfg} {b : Bus} {old : List Transmission} {tr : Transmission} (h : BusOk cfg b old tr)
    (hr : 0 < cfg.rate) (i : Nat) (hi : i < 2) (now : Int) (hs : tr.sender = i) :
    b.deliver i now = ({ b with seen := b.seen.set i now }, []) :=
  Bus.deliver_own b i now old tr (h.lastOnly hr i hi) hs

theorem BusOk.deliver_recv {cfg : Cfg} {b : Bus} {old : List Transmission} {tr : Transmission} (h : BusOk cfg b old tr)
    (hr : 0 < cfg.rate) (i : Nat) (hi : i < 2) (now : Int) (hs : tr.sender ≠ i) (hsn : b.seen.getD i 0 ≤ now) :
    ∃ inc, b.deliver i now = ({ b with seen := b.seen.set i now }, inc) ∧
      tr.bytes.take (cvis cfg tr (b.seen.getD i 0)) ++ inc = tr.bytes.take (cvis cfg tr now) := by
  refine ⟨_, Bus.deliver_last b i now old tr (h.lastOnly hr i hi) h.live hs, ?_⟩
  have := Bus.take_vis_append b (by rw [h.rate]; exact hr) tr (b.seen.getD i 0) now hsn
  rw [vis_cfg b cfg h.rate, vis_cfg b cfg h.rate] at this
  exact this

theorem cvis_full (cfg : Cfg) (tr : Transmission) (a : Int) (hn : 0 < tr.bytes.length)
    (h : tr.start + (cfg.ce (tr.bytes.length - 1) : Nat) ≤ a) : cvis cfg tr a = tr.bytes.length :=
  vis_full _ (ce_monoI cfg) _ _ _ hn h

theorem cvis_zero (cfg : Cfg) (tr : Transmission) (a : Int) (h : a < tr.start + (cfg.ce 0 : Nat)) : cvis cfg tr a = 0 :=
  vis_zero _ (ce_monoI cfg) _ _ _ h

theorem cvis_spec (cfg : Cfg) (tr : Transmission) (a : Int) (k : Nat) (hk : k < tr.bytes.length) :
    k < cvis cfg tr a ↔ tr.start + (cfg.ce k : Nat) ≤ a :=
  vis_spec _ (ce_monoI cfg) _ _ _ k hk

theorem cvis_mono (cfg : Cfg) (tr : Transmission) (a a' : Int) (h : a ≤ a') : cvis cfg tr a ≤ cvis cfg tr a' :=
  vis_mono _ (ce_monoI cfg) _ _ _ _ h

theorem cvis_le (cfg : Cfg) (tr : Transmission) (a : Int) : cvis cfg tr a ≤ tr.bytes.length := visCount_le _ _ _ _

/-- Everything of `tr` has been delivered to station `i` already: nothing more comes. -/
theorem BusOk.deliver_done {cfg : Cfg} {b : Bus} {old : List Transmission} {tr : Transmission} (h : BusOk cfg b old tr)
    (hr : 0 < cfg.rate) (i : Nat) (hi : i < 2) (now : Int) (hs : tr.sender ≠ i) (hsn : b.seen.getD i 0 ≤ now)
    (hn : 0 < tr.bytes.length) (hdone : tr.start + (cfg.ce (tr.bytes.length - 1) : Nat) ≤ b.seen.getD i 0) :
    b.deliver i now = ({ b with seen := b.seen.set i now }, []) := by
  obtain ⟨inc, h1, h2⟩ := h.deliver_recv hr i hi now hs hsn
  rw [cvis_full cfg tr _ hn hdone, cvis_full cfg tr now hn (by omega)] at h2
  have : inc = [] := by
    have := congrArg List.length h2
    simp only [List.length_append] at this
    exact List.eq_nil_of_length_eq_zero (by omega)
  rw [h1, this]

theorem BusOk.txEnd_eq {cfg : Cfg} {b : Bus} {old : List Transmission} {tr : Transmission} (h : BusOk cfg b old tr)
    (t : Transmission) : b.txEnd t = t.start + (cfg.ce (t.bytes.length - 1) : Nat) := by
  unfold Bus.txEnd; rw [byteEnd_cfg b cfg h.rate]

end PV
