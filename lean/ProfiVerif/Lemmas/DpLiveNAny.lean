/-
One `transmit_telegram` turn of a master with several peripherals under ANY delivery fault and any
mid-request user call (property C07, `multi_live_after_any_history`): the turn decomposes into steps of the
individual slots' pairs — the slots the loop passes decline (a visit whose delivery is irrelevant), the
slot that sends undergoes `PJ.visit mid d` with its own slave, the slot a mid-request
`request_diagnostics()` aims at gets a `diagReq` step — and no slot is touched otherwise (independence).
-/
import ProfiVerif.Lemmas.DpLiveNRun
import ProfiVerif.Lemmas.DpLiveMismatch

namespace PV.Live
open PV PV.Dp

theorem visit_decline_any {j : PJ} {p' : Peripheral} {ev : Option PEvent}
    (h : j.p.transmit j.fp j.op = .decline p' ev) (mid : Bool) (d : Delivery) :
    j.visit mid d = some ({ j with p := p' }, ev) := by
  unfold PJ.visit; simp only [h]

theorem visit_send_any {j : PJ} {p' : Peripheral} {h : Header} {pdu : Bytes}
    (ht : j.p.transmit j.fp j.op = .send p' h pdu) (mid : Bool) (d : Delivery) :
    j.visit mid d =
      (match d with
       | .lossReq => some ({ j with p := if mid then reqDiag p' else p' }, none)
       | _ =>
         match d.deliver (j.s.receive h pdu).2 with
         | none => some ({ j with p := if mid then reqDiag p' else p', s := (j.s.receive h pdu).1 }, none)
         | some t =>
           match (if mid then reqDiag p' else p').receiveReply t with
           | .panic => none
           | .ok p2 ev => some ({ j with p := p2, s := (j.s.receive h pdu).1 }, ev)) := by
  unfold PJ.visit
  simp only [ht]
  cases d <;> rfl

/-- The pair of slot `l` went from `(ps, ss)` to `(ps', ss')` by the environment steps `es`. -/
def SlotRun (fp : FdlParams) (ps : List Peripheral) (ss : List Slave) (ps' : List Peripheral) (ss' : List Slave)
    (l : Nat) (es : List PEnv) : Prop :=
  (∀ e ∈ es, e.WellFormed) ∧ ∃ evs, (pjAt fp ps ss l).run es = some (pjAt fp ps' ss' l, evs)

theorem slotOk_run {fp : FdlParams} {ps ps' : List Peripheral} {ss ss' : List Slave} {l : Nat} {es : List PEnv}
    (h : SlotOk fp ps ss l) (hr : SlotRun fp ps ss ps' ss' l es) :
    SlotOk fp ps' ss' l ∧ (ss'.getD l default).cfg = (ss.getD l default).cfg := by
  obtain ⟨hw, evs, hrun⟩ := hr
  obtain ⟨j', evs', h1, h2, h3, _, h5, h6⟩ := run_sim es h.1 hw
  rw [hrun] at h1
  simp only [Option.some.injEq, Prod.mk.injEq] at h1
  obtain ⟨rfl, rfl⟩ := h1
  have hc : (ss'.getD l default).cfg = (ss.getD l default).cfg := h5
  refine ⟨⟨h2, ?_⟩, hc⟩
  have := jinv_run h.1.fp.retry_lo ((ss.getD l default).cfg.inLen == 0) (ss.getD l default).cfg.inLen es
    (ctl (pjAt fp ps ss l)) h.2
  rw [Prod.ext_iff] at h6
  have h6' : ctl (pjAt fp ps' ss' l) =
      (crun fp.maxRetry ((ss.getD l default).cfg.inLen == 0) (ss.getD l default).cfg.inLen (ctl (pjAt fp ps ss l)) es).1 := h6.1
  rw [hc, h6']; exact this

/-- `NGood` is preserved when every slot's pair moved by well-formed environment steps. -/
theorem ngood_of_runs {J J' : JointN} {ps ps' : List Peripheral} {k : Nat} (hN : NGood J ps k)
    (hfp : J'.fp = J.fp) (hslots : J'.m.slots = denseSlots ps' k) (hop : J'.m.op = .operate)
    (hl1 : ps'.length = ps.length) (hl2 : J'.ss.length = J.ss.length)
    (hruns : ∀ l, l < ps.length → ∃ es, SlotRun J.fp ps J.ss ps' J'.ss l es)
    (hcy : J'.m.cycle = .completed ∨ ∃ i, J'.m.cycle = .dx i ∧ i < ps.length)
    (hgc : ∀ t, J'.m.lastGc = some t → timeB t) : NGood J' ps' k := by
  have hcfg : ∀ l, l < ps.length → (J'.ss.getD l default).cfg = (J.ss.getD l default).cfg := by
    intro l hl
    obtain ⟨es, hr⟩ := hruns l hl
    exact (slotOk_run (hN.ok l hl) hr).2
  refine ⟨hslots, hop, by rw [hl2, hN.len, hl1], by rw [hl1]; exact hN.n256, by rw [hl1]; exact hN.pos,
    by rw [hfp]; exact hN.fpok, by rw [hl1]; exact hcy, ?_, ?_, ?_, hgc⟩
  · intro l hl
    rw [hl1] at hl
    obtain ⟨es, hr⟩ := hruns l hl
    rw [hfp]; exact (slotOk_run (hN.ok l hl) hr).1
  · intro l hl; rw [hl1] at hl; rw [hcfg l hl]; exact hN.addr l hl
  · intro l l' hl hl' hne
    rw [hl1] at hl hl'
    rw [hcfg l hl, hcfg l' hl']; exact hN.distinct l l' hl hl' hne

theorem slotRun_nil (fp : FdlParams) (ps : List Peripheral) (ss : List Slave) (l : Nat) :
    SlotRun fp ps ss ps ss l [] := ⟨(by intro e h; cases h), [], rfl⟩

theorem slotRun_same {fp : FdlParams} {ps ps' : List Peripheral} {ss ss' : List Slave} {l : Nat}
    (h1 : ps'.getD l default = ps.getD l default) (h2 : ss'.getD l default = ss.getD l default) :
    SlotRun fp ps ss ps' ss' l [] :=
  ⟨(by intro e h; cases h), [], (by simp only [PJ.run, pjAt, h1, h2])⟩

theorem requestDiagnostics_dense {m : Master} {ps : List Peripheral} {k i : Nat} (hs : m.slots = denseSlots ps k) :
    (m.requestDiagnostics i).getD m =
      (if h : i < ps.length then { m with slots := denseSlots (ps.set i (reqDiag ps[i])) k } else m) := by
  unfold Master.requestDiagnostics Master.peripheral?
  by_cases hi : i < ps.length
  · have hget : m.slots.getD i none = some ps[i] := by
      rw [hs]; simp [denseSlots, List.getD_eq_getElem?_getD, List.getElem?_append_left, hi]
    rw [hget, dif_pos hi]
    simp only [Option.getD_some, hs, set_dense k hi]
    rfl
  · have hget : m.slots.getD i none = none := by
      rw [hs]
      simp only [denseSlots, List.getD_eq_getElem?_getD]
      by_cases h2 : i < ps.length + k
      · rw [List.getElem?_append_right (by simp; omega)]
        simp only [List.getElem?_replicate]
        split <;> rfl
      · rw [List.getElem?_eq_none (by simp; omega)]; rfl
    rw [hget, dif_neg hi]; rfl

/-! ### Runs of one or two steps -/

theorem run_visit {j j' : PJ} {mid : Bool} {d : Delivery} {ev : Option PEvent} (h : j.visit mid d = some (j', ev)) :
    j.run [.visit mid d] = some (j', ev.toList ++ []) := by
  simp only [PJ.run, PJ.step, h]

theorem run_diag (j : PJ) : j.run [.diagReq] = some ({ j with p := reqDiag j.p }, [] ++ []) := by
  simp only [PJ.run, PJ.step, Option.toList]

theorem run_visit_diag {j j' : PJ} {mid : Bool} {d : Delivery} {ev : Option PEvent} (h : j.visit mid d = some (j', ev)) :
    j.run [.visit mid d, .diagReq] = some ({ j' with p := reqDiag j'.p }, ev.toList ++ ([] ++ [])) := by
  simp only [PJ.run, PJ.step, h, Option.toList]

theorem wf_visit_any (mid : Bool) {d : Delivery} (hd : ∀ t, d = .sub t → RxOk t) : (PEnv.visit mid d).WellFormed := by
  cases d <;> first | trivial | exact hd _ rfl

/-- The peripherals after an optional `request_diagnostics()` on slot `mid`. -/
def applyMid (ps : List Peripheral) : Option Nat → List Peripheral
  | some i => if h : i < ps.length then ps.set i (reqDiag ps[i]) else ps
  | none => ps

theorem applyMid_length (ps : List Peripheral) (mid : Option Nat) : (applyMid ps mid).length = ps.length := by
  cases mid with
  | none => rfl
  | some i => simp only [applyMid]; split <;> simp

theorem applyMid_getD (ps : List Peripheral) (mid : Option Nat) (l : Nat) :
    (applyMid ps mid).getD l default =
      (if mid = some l ∧ l < ps.length then reqDiag (ps.getD l default) else ps.getD l default) := by
  cases mid with
  | none => simp [applyMid]
  | some i =>
    simp only [applyMid, Option.some.injEq]
    by_cases hi : i < ps.length
    · rw [dif_pos hi]
      by_cases hl : i = l
      · subst hl
        rw [if_pos ⟨rfl, hi⟩, getD_set_eq _ hi, getD_getElem hi]
      · rw [if_neg (by intro h; exact hl h.1), getD_set_ne _ (Ne.symm hl)]
    · rw [dif_neg hi]
      rw [if_neg]
      intro h; obtain ⟨rfl, h2⟩ := h; exact hi h2

theorem master_applyMid {m : Master} {ps : List Peripheral} {k : Nat} (hs : m.slots = denseSlots ps k) (mid : Option Nat) :
    midDiag m mid = { m with slots := denseSlots (applyMid ps mid) k } := by
  cases mid with
  | none => simp only [midDiag, applyMid, ← hs]
  | some i =>
    simp only [midDiag, requestDiagnostics_dense hs, applyMid]
    split
    · rfl
    · simp only [← hs]

/-- What a request of a good pair looks like on the wire. -/
theorem send_facts {j : PJ} (hg : Good j) {p' : Peripheral} {h : Header} {pdu : Bytes}
    (ht : j.p.transmit j.fp j.op = .send p' h pdu) :
    h.da = j.s.cfg.address ∧ expectsReplyOf h = some j.p.address ∧ h.serialize pdu = .ok (frameSpec h pdu) ∧
      p'.address = j.p.address := by
  rcases tx_ctl hg.fp hg.op hg.pinv hg.m with ⟨_, htx⟩ | ⟨_, _, htx⟩ | ⟨hr, k, h2, pdu2, hq, htx, hreq⟩
  · rw [ht] at htx; cases htx
  · rw [ht] at htx; cases htx
  · rw [ht] at htx
    simp only [PTx.send.injEq] at htx
    obtain ⟨rfl, rfl, rfl⟩ := htx
    have hsend := pinv_sendable hg.fp hg.pinv hr
    obtain ⟨hser, _⟩ := transmit_wire j.fp j.op j.p hg.op hsend _ h pdu [] ht
    obtain ⟨hda, _, _, _⟩ := transmit_send_inv j.fp j.op j.p hg.op hsend _ h pdu ht
    obtain ⟨hda2, hfc⟩ := isReq_fc hreq
    refine ⟨hda2, ?_, hser, rfl⟩
    rcases hfc with hfc | hfc <;> simp [expectsReplyOf, hfc, RequestType.expectsReply, hda]

/-- Shape of the steps slot `l` undergoes in one turn: at most one visit — a decline (recorded with the
irrelevant delivery `lossReq`) or, for the slot whose request went out, the visit with the turn's delivery
— and at most one `request_diagnostics()` aimed at it. -/
def StepShape (ps : List Peripheral) (mid : Option Nat) (d : Delivery) (o : TurnObs) (l : Nat) (es : List PEnv) : Prop :=
  ∃ a b, es = a ++ b ∧
    (a = [] ∨ a = [.visit false .lossReq] ∨
      (a = [.visit (decide (mid = some l)) d] ∧ o.expect = some (ps.getD l default).address)) ∧
    (b = [] ∨ (b = [.diagReq] ∧ mid = some l))

/-- A slot that did not send in this turn: it declined (if the loop passed it) and / or got the
mid-request user call. -/
theorem slot_other {fp : FdlParams} {ps ps' psF : List Peripheral} {ss ssF : List Slave} {i0 j' l : Nat}
    {mid : Option Nat} (hl : l < ps.length) (hlen : ps'.length = ps.length)
    (hdec : i0 ≤ l → l < j' → ∃ ev, (ps.getD l default).transmit fp .operate = .decline (ps'.getD l default) ev)
    (hout : l < i0 ∨ j' ≤ l → ps'.getD l default = ps.getD l default)
    (hp : psF.getD l default = (applyMid ps' mid).getD l default) (hs : ssF.getD l default = ss.getD l default) :
    ∃ es, SlotRun fp ps ss psF ssF l es ∧ ∃ a b, es = a ++ b ∧ (a = [] ∨ a = [.visit false .lossReq]) ∧
      (b = [] ∨ (b = [.diagReq] ∧ mid = some l)) := by
  rw [applyMid_getD, hlen] at hp
  by_cases hr : i0 ≤ l ∧ l < j'
  · obtain ⟨ev, hd⟩ := hdec hr.1 hr.2
    have hv : (pjAt fp ps ss l).visit false .lossReq = some (⟨fp, .operate, ps'.getD l default, ss.getD l default⟩, ev) :=
      visit_decline_any (j := pjAt fp ps ss l) hd false .lossReq
    by_cases hm : mid = some l
    · rw [if_pos ⟨hm, hl⟩] at hp
      refine ⟨[.visit false .lossReq, .diagReq], ⟨?_, ev.toList ++ ([] ++ []), ?_⟩, [.visit false .lossReq], [.diagReq], rfl, Or.inr rfl, Or.inr ⟨rfl, hm⟩⟩
      · intro e he; simp at he; rcases he with rfl | rfl <;> trivial
      · rw [run_visit_diag hv]; simp only [pjAt, hp, hs, reqDiag]
    · rw [if_neg (by intro h; exact hm h.1)] at hp
      refine ⟨[.visit false .lossReq], ⟨?_, ev.toList ++ [], ?_⟩, [.visit false .lossReq], [], rfl, Or.inr rfl, Or.inl rfl⟩
      · intro e he; simp at he; subst he; trivial
      · rw [run_visit hv]; simp only [pjAt, hp, hs]
  · have ho := hout (by omega)
    by_cases hm : mid = some l
    · rw [if_pos ⟨hm, hl⟩, ho] at hp
      refine ⟨[.diagReq], ⟨?_, [] ++ [], ?_⟩, [], [.diagReq], rfl, Or.inl rfl, Or.inr ⟨rfl, hm⟩⟩
      · intro e he; simp at he; subst he; trivial
      · rw [run_diag]; simp only [pjAt, hp, hs, reqDiag]
    · rw [if_neg (by intro h; exact hm h.1), ho] at hp
      exact ⟨[], slotRun_same hp hs, [], [], rfl, Or.inl rfl, Or.inl rfl⟩

theorem shape_of_other {ps : List Peripheral} {mid mid' : Option Nat} {d : Delivery} {o : TurnObs} {l : Nat} {es : List PEnv}
    (h : ∃ a b, es = a ++ b ∧ (a = [] ∨ a = [.visit false .lossReq]) ∧ (b = [] ∨ (b = [.diagReq] ∧ mid' = some l)))
    (hm : mid' = mid ∨ mid' = none) : StepShape ps mid d o l es := by
  obtain ⟨a, b, rfl, ha, hb⟩ := h
  refine ⟨a, b, rfl, ?_, ?_⟩
  · rcases ha with h | h
    · exact Or.inl h
    · exact Or.inr (Or.inl h)
  · rcases hb with h | ⟨h1, h2⟩
    · exact Or.inl h
    · rcases hm with rfl | rfl
      · exact Or.inr ⟨h1, h2⟩
      · cases h2

/-- **One `transmit_telegram` of a master with `n` peripherals under any delivery fault and any
mid-request user call**: no panic, the master stays well-formed, every slot's pair stays good and within
the joint invariant, and the turn is — slot by slot — a run of at most two environment steps of that
slot's own pair (`StepShape`); in particular a fault concerning slot `i` does not change slot `j ≠ i`. -/
theorem turnN_any {J : JointN} {ps : List Peripheral} {k : Nat} (hN : NGood J ps k) {now : Int} (hnow : timeB now)
    (mid : Option Nat) {d : Delivery} (hd : ∀ t, d = .sub t → RxOk t) :
    ∃ J' o ps', J.turn now mid d = .ok J' o ∧ NGood J' ps' k ∧ J'.fp = J.fp ∧ ps'.length = ps.length ∧
      ∀ l, l < ps.length → ∃ es, SlotRun J.fp ps J.ss ps' J'.ss l es ∧ StepShape ps mid d o l es := by
  obtain ⟨b, hdue⟩ : ∃ b, gcDue J.fp now J.m.lastGc = some b := ⟨_, gcDue_ok hN.fpok hnow hN.gc⟩
  unfold JointN.turn
  rw [transmit_operate hN.op hdue]
  cases b with
  | true =>
    simp only [if_true]
    have hser : (gcHeader J.fp).serialize [0x00, 0x00] = .ok (frameSpec (gcHeader J.fp) [0x00, 0x00]) :=
      gcHeader_serialize J.fp [0x00, 0x00] rfl
    have hexp : expectsReplyOf (gcHeader J.fp) = none := rfl
    have hbus : busReceive J.ss (gcHeader J.fp) [0x00, 0x00] = (J.ss, .silent) := by
      apply busReceive_none
      intro s hs
      obtain ⟨l, hl, rfl⟩ := List.getElem_of_mem hs
      have := hN.addr l (by rw [← hN.len]; exact hl)
      rw [List.getD_eq_getElem?_getD, List.getElem?_eq_getElem hl] at this
      simpa [gcHeader] using fun h => this h.symm
    have hm1 := master_applyMid (m := { J.m with lastGc := some now, lastEvents := {} }) (ps := ps) (k := k) hN.slots mid
    simp only [hser, hexp, hbus, hm1]
    have hruns : ∀ l, l < ps.length → ∃ es, SlotRun J.fp ps J.ss (applyMid ps mid) J.ss l es ∧
        ∃ a b, es = a ++ b ∧ (a = [] ∨ a = [.visit false .lossReq]) ∧ (b = [] ∨ (b = [.diagReq] ∧ mid = some l)) := by
      intro l hl
      exact slot_other (i0 := 0) (j' := 0) hl rfl (by intro h1 h2; omega) (by intro _; rfl) rfl rfl
    have hres : ∀ (o : TurnObs), ∃ J' o' ps', TurnResN.ok { J with m := { J.m with slots := denseSlots (applyMid ps mid) k, lastGc := some now, lastEvents := {} } } o = .ok J' o' ∧
        NGood J' ps' k ∧ J'.fp = J.fp ∧ ps'.length = ps.length ∧
        ∀ l, l < ps.length → ∃ es, SlotRun J.fp ps J.ss ps' J'.ss l es ∧ StepShape ps mid d o' l es := by
      intro o
      refine ⟨_, o, applyMid ps mid, rfl, ?_, rfl, applyMid_length ps mid, ?_⟩
      · exact ngood_of_runs hN rfl rfl hN.op (applyMid_length ps mid) rfl
          (fun l hl => let ⟨es, h1, _⟩ := hruns l hl; ⟨es, h1⟩) hN.cycle
          (by intro t ht; simp only at ht; cases ht; exact hnow)
      · intro l hl
        obtain ⟨es, h1, h2⟩ := hruns l hl
        exact ⟨es, h1, shape_of_other h2 (Or.inl rfl)⟩
    cases d <;> exact hres _
  | false =>
    simp only [Bool.false_eq_true, if_false]
    rcases hN.cycle with hc | ⟨i, hc, hi⟩
    · -- closing the cycle
      have hloop : Master.txLoop J.fp (J.m.slots.length + 1) J.m = .none { J.m with cycle := .dx 0, lastEvents := {} } := by
        simp only [Master.txLoop, hc]
      rw [hloop]
      refine ⟨_, _, ps, rfl, ?_, rfl, rfl, ?_⟩
      · exact ngood_of_runs hN rfl hN.slots hN.op rfl rfl (fun l _ => ⟨[], slotRun_nil _ _ _ _⟩)
          (Or.inr ⟨0, rfl, hN.pos⟩) hN.gc
      · intro l _
        exact ⟨[], slotRun_nil _ _ _ _, [], [], rfl, Or.inl rfl, Or.inl rfl⟩
    · -- the loop runs
      have hnp : ∀ l, i ≤ l → l < ps.length → (ps.getD l default).transmit J.fp J.m.op ≠ .panic := by
        intro l _ hl
        rw [hN.op]
        rcases slot_form (hN.ok l hl) with ⟨p', ev, h1, _⟩ | ⟨p', h, pdu, t, p2, ev, h1, _⟩
        · rw [h1]; intro hc'; cases hc'
        · rw [h1]; intro hc'; cases hc'
      have hlen : J.m.slots.length = ps.length + k := by rw [hN.slots]; simp [denseSlots]
      have hloop := txLoop_dense (fp := J.fp) (k := k) (ps.length - i) ps i J.m (J.m.slots.length + 1) rfl hi hN.n256
        (by omega) hN.slots hc hnp
      rw [hN.op] at hloop
      generalize Master.txLoop J.fp (J.m.slots.length + 1) J.m = res at hloop ⊢
      cases hloop with
      | stop j ps' ev hj1 hj2 hl hdec hout hstop hend =>
        have hdec' : ∀ l, i ≤ l → l < j + 1 → ∃ ev, (ps.getD l default).transmit J.fp .operate = .decline (ps'.getD l default) ev := by
          intro l h1 h2
          by_cases hlj : l < j
          · exact ⟨none, hdec l h1 hlj⟩
          · have : l = j := by omega
            subst this; exact ⟨ev, hstop⟩
        have hruns : ∀ l, l < ps.length → ∃ es, SlotRun J.fp ps J.ss ps' J.ss l es ∧
            ∃ a b, es = a ++ b ∧ (a = [] ∨ a = [.visit false .lossReq]) ∧ (b = [] ∨ (b = [.diagReq] ∧ (none : Option Nat) = some l)) := by
          intro l hl'
          exact slot_other (mid := none) hl' hl (hdec' l) (by intro h; exact hout l (by omega)) rfl rfl
        refine ⟨_, _, ps', rfl, ?_, rfl, hl, ?_⟩
        · refine ngood_of_runs hN rfl rfl hN.op hl rfl (fun l hl' => let ⟨es, h1, _⟩ := hruns l hl'; ⟨es, h1⟩) ?_ hN.gc
          by_cases h1 : j + 1 < ps.length
          · exact Or.inr ⟨j + 1, by simp only [h1, if_true], h1⟩
          · exact Or.inr ⟨0, by simp only [h1, if_false], hN.pos⟩
        · intro l hl'
          obtain ⟨es, h1, h2⟩ := hruns l hl'
          exact ⟨es, h1, shape_of_other h2 (Or.inr rfl)⟩
      | send j ps' h pdu hj1 hj2 hl hdec hout hsend =>
        have hj' : j < ps'.length := by rw [hl]; exact hj2
        obtain ⟨hda, hexp, hser, hpa⟩ := send_facts (j := pjAt J.fp ps J.ss j) (hN.ok j hj2).1 hsend
        have hexp' : expectsReplyOf h = some (ps.getD j default).address := hexp
        have hda' : h.da = (J.ss.getD j default).cfg.address := hda
        have hm1 := master_applyMid (m := { J.m with slots := denseSlots ps' k, cycle := .dx j, lastEvents := {} })
          (ps := ps') (k := k) rfl mid
        -- the sending peripheral after the optional user call
        have hp1 : (applyMid ps' mid).getD j default =
            (if decide (mid = some j) then reqDiag (ps'.getD j default) else ps'.getD j default) := by
          rw [applyMid_getD]
          by_cases hm : mid = some j
          · rw [if_pos ⟨hm, hj'⟩]; simp [hm]
          · rw [if_neg (by intro h; exact hm h.1)]; simp [hm]
        have hvform := visit_send_any (j := pjAt J.fp ps J.ss j) hsend (decide (mid = some j)) d
        obtain ⟨jv, evv, hvis, _⟩ := visit_sim (hN.ok j hj2).1 (decide (mid = some j)) hd
        have hdecO : ∀ l, i ≤ l → l < j → ∃ ev, (ps.getD l default).transmit J.fp .operate = .decline (ps'.getD l default) ev :=
          fun l h1 h2 => ⟨none, hdec l h1 h2⟩
        -- every slot but the sender
        have hother : ∀ (psF : List Peripheral) (ssF : List Slave) (l : Nat), l < ps.length → l ≠ j →
            psF.getD l default = (applyMid ps' mid).getD l default → ssF.getD l default = J.ss.getD l default →
            ∀ o, ∃ es, SlotRun J.fp ps J.ss psF ssF l es ∧ StepShape ps mid d o l es := by
          intro psF ssF l hl' hne h1 h2 o
          obtain ⟨es, r1, r2⟩ := slot_other (fp := J.fp) (ss := J.ss) (ssF := ssF) (psF := psF) (i0 := i) (j' := j) (mid := mid) hl' hl
            (hdecO l) (by intro h; exact hout l (by omega)) h1 h2
          exact ⟨es, r1, shape_of_other r2 (Or.inl rfl)⟩
        simp only [hser, hexp', hm1]
        have hlen1 : (applyMid ps' mid).length = ps.length := by rw [applyMid_length, hl]
        have hj1' : j < (applyMid ps' mid).length := by rw [hlen1]; exact hj2
        have hshapeJ : ∀ (o : TurnObs), o.expect = some (ps.getD j default).address →
            StepShape ps mid d o j [.visit (decide (mid = some j)) d] := fun o ho =>
          ⟨[.visit (decide (mid = some j)) d], [], rfl, Or.inr (Or.inr ⟨rfl, ho⟩), Or.inl rfl⟩
        -- the sender's pair after the visit, as a slot run
        have hjrun : ∀ (psF : List Peripheral) (ssF : List Slave) (ev : Option PEvent),
            (pjAt J.fp ps J.ss j).visit (decide (mid = some j)) d = some (pjAt J.fp psF ssF j, ev) →
            SlotRun J.fp ps J.ss psF ssF j [.visit (decide (mid = some j)) d] := by
          intro psF ssF ev hv
          exact ⟨by intro e he; simp at he; subst he; exact wf_visit_any _ hd, ev.toList ++ [], run_visit hv⟩
        by_cases hloss : d = .lossReq
        · subst hloss
          simp only [Master.handleTimeout]
          simp only at hvform
          refine ⟨_, _, applyMid ps' mid, rfl, ?_, rfl, hlen1, ?_⟩
          · refine ngood_of_runs hN rfl rfl hN.op hlen1 rfl ?_ (Or.inr ⟨j, rfl, hj2⟩) hN.gc
            intro l hl'
            by_cases hlj : l = j
            · subst hlj
              exact ⟨_, hjrun (applyMid ps' mid) J.ss none (by rw [hvform]; simp only [pjAt, hp1])⟩
            · obtain ⟨es, h1, _⟩ := hother (applyMid ps' mid) J.ss l hl' hlj rfl rfl {}
              exact ⟨es, h1⟩
          · intro l hl'
            by_cases hlj : l = j
            · subst hlj
              exact ⟨_, hjrun (applyMid ps' mid) J.ss none (by rw [hvform]; simp only [pjAt, hp1]), hshapeJ _ rfl⟩
            · exact hother (applyMid ps' mid) J.ss l hl' hlj rfl rfl _
        · -- the request reaches the bus: only slave `j` reacts
          have hbus := busReceive_at J.ss j h pdu (by rw [hN.len]; exact hj2) hda'
            (by intro l hl' hne; exact hN.distinct l j (by rw [← hN.len]; exact hl') hj2 hne)
          have hvform2 : (pjAt J.fp ps J.ss j).visit (decide (mid = some j)) d =
              (match d.deliver ((J.ss.getD j default).receive h pdu).2 with
               | none => some (⟨J.fp, .operate, (applyMid ps' mid).getD j default, ((J.ss.getD j default).receive h pdu).1⟩, none)
               | some t =>
                 match ((applyMid ps' mid).getD j default).receiveReply t with
                 | .panic => none
                 | .ok p2 ev => some (⟨J.fp, .operate, p2, ((J.ss.getD j default).receive h pdu).1⟩, ev)) := by
            rw [hvform, hp1]
            cases d <;> first | rfl | exact absurd rfl hloss
          have hpj : (applyMid ps' mid).getD j default = (applyMid ps' mid)[j] := getD_getElem hj1'
          have haddr : (ps.getD j default).address = (applyMid ps' mid)[j].address := by
            rw [← hpj, hp1]
            have : (ps'.getD j default).address = (ps.getD j default).address := hpa
            by_cases hm : mid = some j <;> simp only [hm, reqDiag, decide_true, decide_false, if_true, Bool.false_eq_true, if_false] <;> exact this.symm
          have hssl : (J.ss.set j ((J.ss.getD j default).receive h pdu).1).length = J.ss.length := by simp
          have tail : ∀ (o1 : TurnObs) (o2 : Telegram → TurnObs), o1.expect = some (ps.getD j default).address →
              (∀ t, (o2 t).expect = some (ps.getD j default).address) →
              ∃ J' o psF,
                (match d.deliver (busReceive J.ss h pdu).2 with
                 | none => TurnResN.ok { J with m := ({ J.m with slots := denseSlots (applyMid ps' mid) k, cycle := .dx j, lastEvents := {} } : Master).handleTimeout (ps.getD j default).address, ss := (busReceive J.ss h pdu).1 } o1
                 | some t =>
                   match ({ J.m with slots := denseSlots (applyMid ps' mid) k, cycle := .dx j, lastEvents := {} } : Master).receiveReply (ps.getD j default).address t with
                   | .panic => TurnResN.panic
                   | .ok m2 => TurnResN.ok { J with m := m2, ss := (busReceive J.ss h pdu).1 } (o2 t)) = .ok J' o ∧
                NGood J' psF k ∧ J'.fp = J.fp ∧ psF.length = ps.length ∧
                ∀ l, l < ps.length → ∃ es, SlotRun J.fp ps J.ss psF J'.ss l es ∧ StepShape ps mid d o l es := by
            intro o1 o2 ho1 ho2
            rw [hbus]
            simp only
            cases hdel : d.deliver ((J.ss.getD j default).receive h pdu).2 with
            | none =>
              rw [hdel] at hvform2
              simp only [Master.handleTimeout]
              have hjr := hjrun (applyMid ps' mid) (J.ss.set j ((J.ss.getD j default).receive h pdu).1) none
                (by rw [hvform2]; simp only [pjAt, getDS_set_eq _ (show j < J.ss.length by rw [hN.len]; exact hj2)])
              refine ⟨_, _, applyMid ps' mid, rfl, ?_, rfl, hlen1, ?_⟩
              · refine ngood_of_runs hN rfl rfl hN.op hlen1 hssl ?_ (Or.inr ⟨j, rfl, hj2⟩) hN.gc
                intro l hl'
                by_cases hlj : l = j
                · subst hlj; exact ⟨_, hjr⟩
                · obtain ⟨es, h1, _⟩ := hother (applyMid ps' mid) _ l hl' hlj rfl (getDS_set_ne _ hlj) {}
                  exact ⟨es, h1⟩
              · intro l hl'
                by_cases hlj : l = j
                · subst hlj; exact ⟨_, hjr, hshapeJ _ ho1⟩
                · exact hother (applyMid ps' mid) _ l hl' hlj rfl (getDS_set_ne _ hlj) _
            | some t =>
              rw [hdel] at hvform2
              have hrec := receiveReply_dense (m := { J.m with slots := denseSlots (applyMid ps' mid) k, cycle := .dx j, lastEvents := {} })
                (ps := applyMid ps' mid) (k := k) (j := j) rfl rfl hj1' (by rw [hlen1]; exact hN.n256) t
              simp only [haddr, hrec]
              cases hrr : (applyMid ps' mid)[j].receiveReply t with
              | panic =>
                simp only [hpj, hrr] at hvform2
                rw [hvform2] at hvis; cases hvis
              | ok p2 ev =>
                simp only [hpj, hrr] at hvform2
                simp only at hvform2 ⊢
                have hjr := hjrun ((applyMid ps' mid).set j p2) (J.ss.set j ((J.ss.getD j default).receive h pdu).1) ev
                  (by rw [hvform2]; simp only [pjAt, getD_set_eq p2 hj1',
                        getDS_set_eq _ (show j < J.ss.length by rw [hN.len]; exact hj2)])
                refine ⟨_, _, (applyMid ps' mid).set j p2, rfl, ?_, rfl, by simp [hlen1], ?_⟩
                · refine ngood_of_runs hN rfl rfl hN.op (by simp [hlen1]) hssl ?_ ?_ hN.gc
                  · intro l hl'
                    by_cases hlj : l = j
                    · subst hlj; exact ⟨_, hjr⟩
                    · obtain ⟨es, h1, _⟩ := hother ((applyMid ps' mid).set j p2) _ l hl' hlj (getD_set_ne p2 hlj) (getDS_set_ne _ hlj) {}
                      exact ⟨es, h1⟩
                  · by_cases h1 : j + 1 < ps.length
                    · exact Or.inr ⟨j + 1, by simp only [hlen1, h1, if_true], h1⟩
                    · exact Or.inl (by simp only [hlen1, h1, if_false])
                · intro l hl'
                  by_cases hlj : l = j
                  · subst hlj; exact ⟨_, hjr, hshapeJ _ (ho2 t)⟩
                  · exact hother ((applyMid ps' mid).set j p2) _ l hl' hlj (getD_set_ne p2 hlj) (getDS_set_ne _ hlj) _
          cases d with
          | lossReq => exact absurd rfl hloss
          | ok => exact tail ⟨some (frameSpec h pdu), some (ps.getD j default).address, true, (busReceive J.ss h pdu).2, none⟩ (fun t => ⟨some (frameSpec h pdu), some (ps.getD j default).address, true, (busReceive J.ss h pdu).2, some t⟩) rfl (fun _ => rfl)
          | lossRep => exact tail ⟨some (frameSpec h pdu), some (ps.getD j default).address, true, (busReceive J.ss h pdu).2, none⟩ (fun t => ⟨some (frameSpec h pdu), some (ps.getD j default).address, true, (busReceive J.ss h pdu).2, some t⟩) rfl (fun _ => rfl)
          | sub t0 => exact tail ⟨some (frameSpec h pdu), some (ps.getD j default).address, true, (busReceive J.ss h pdu).2, none⟩ (fun t => ⟨some (frameSpec h pdu), some (ps.getD j default).address, true, (busReceive J.ss h pdu).2, some t⟩) rfl (fun _ => rfl)

end PV.Live
