/-
Lemmas about the abstract ring (`Model/AbstractRing.lean`): token uniqueness, the agreement
invariant, ascending rotation, admission of a listener by the GAP sweep.
The abstract ring is an idealisation (see the header of the model file); the station views in it
are real `TokenRing` models changed only through the modelled API, and the GAP cursor is the real
`nextGapPoll`, so the LAS/neighbour/GAP theorems of C02/C12 are what these proofs rest on.
-/
import ProfiVerif.Model.AbstractRing
import ProfiVerif.Lemmas.Neighbours
import ProfiVerif.Lemmas.RingPass
import ProfiVerif.Lemmas.Gap

namespace PV
namespace AbstractRing
open TokenRing

/-! ### Token uniqueness -/

/-- At most one station holds the token. -/
def Unique (s : Net) : Prop :=
  ∀ x y nx ny, s.node x = some nx → s.node y = some ny → nx.mode = .hold → ny.mode = .hold → x = y

theorem pass_eq (s : Net) (h : Nat) (nh : Node) (e : s.node h = some nh) (hm : nh.mode = .hold) :
    pass s h = passTo s h nh.ring.ns := by
  unfold pass; rw [e]; simp [hm]

theorem passTo_node (s : Net) (h n x : Nat) :
    (passTo s h n).node x = (s.node x).map (passNode h n (accepted s h n) x) := rfl

/-- Who can hold the token after the telegram `h → n`. -/
theorem passNode_hold (h n : Nat) (acc : Bool) (x : Nat) (nx : Node) (hh : (passNode h n acc x nx).mode = .hold) :
    (x = h ∧ acc = false ∧ nx.mode = .hold) ∨ (x ≠ h ∧ nx.mode = .hold) ∨ (x ≠ h ∧ accepts h n x nx = true) := by
  unfold passNode at hh
  by_cases hx : x = h
  · rw [if_pos hx] at hh
    left
    cases acc with
    | true => simp at hh
    | false => exact ⟨hx, rfl, by simpa using hh⟩
  · rw [if_neg hx] at hh
    right
    by_cases hn : x = n
    · subst hn
      rw [if_pos rfl] at hh
      cases hm : nx.mode with
      | hold => exact Or.inl ⟨hx, rfl⟩
      | listen => rw [hm] at hh; simp [hm] at hh
      | idle =>
        right
        rw [hm] at hh
        simp only at hh
        refine ⟨hx, ?_⟩
        unfold accepts
        by_cases h1 : nx.ring.ps = h
        · simp [hx, hm, h1]
        · rw [if_neg h1] at hh
          by_cases h2 : nx.pend = some h
          · simp [hx, hm, h2]
          · rw [if_neg h2] at hh; simp [hm] at hh
    · rw [if_neg hn] at hh
      exact Or.inl ⟨hx, hh⟩

theorem accepts_eq (h n x : Nat) (nx : Node) (ha : accepts h n x nx = true) : x = n := by
  unfold accepts at ha
  simp only [Bool.and_eq_true, decide_eq_true_eq] at ha
  exact ha.1.1.1

theorem unique_passTo (s : Net) (h n : Nat) (nh : Node) (e : s.node h = some nh) (hm : nh.mode = .hold)
    (hu : Unique s) : Unique (passTo s h n) := by
  intro x y nx' ny' ex ey hx hy
  rw [passTo_node] at ex ey
  cases e1 : s.node x with
  | none => rw [e1] at ex; cases ex
  | some nx =>
  cases e2 : s.node y with
  | none => rw [e2] at ey; cases ey
  | some ny =>
  rw [e1] at ex; rw [e2] at ey
  simp only [Option.map_some, Option.some.injEq] at ex ey
  subst ex; subst ey
  have a := passNode_hold _ _ _ _ _ hx
  have b := passNode_hold _ _ _ _ _ hy
  have old : ∀ z nz, s.node z = some nz → nz.mode = .hold → z = h := fun z nz ez hz => hu z h nz nh ez e hz hm
  have accd : ∀ z nz, s.node z = some nz → accepts h n z nz = true → accepted s h n = true := by
    intro z nz ez hz
    have : z = n := accepts_eq _ _ _ _ hz
    subst this
    unfold accepted; rw [ez]; exact hz
  rcases a with ⟨rfl, a1, _⟩ | ⟨a1, a2⟩ | ⟨a1, a2⟩
  · rcases b with ⟨rfl, _, _⟩ | ⟨b1, b2⟩ | ⟨b1, b2⟩
    · rfl
    · exact absurd (old y ny e2 b2) b1
    · rw [accd y ny e2 b2] at a1; cases a1
  · exact absurd (old x nx e1 a2) a1
  · rcases b with ⟨rfl, b1, _⟩ | ⟨b1, b2⟩ | ⟨b1, b2⟩
    · rw [accd x nx e1 a2] at b1; cases b1
    · exact absurd (old y ny e2 b2) b1
    · rw [accepts_eq _ _ _ _ a2, accepts_eq _ _ _ _ b2]

/-- A step that creates no new holder keeps the token unique. -/
theorem unique_of_hold_sub (s s' : Net) (hu : Unique s)
    (hsub : ∀ x nx', s'.node x = some nx' → nx'.mode = .hold → ∃ nx, s.node x = some nx ∧ nx.mode = .hold) :
    Unique s' := by
  intro x y nx' ny' ex ey hx hy
  obtain ⟨nx, e1, h1⟩ := hsub x nx' ex hx
  obtain ⟨ny, e2, h2⟩ := hsub y ny' ey hy
  exact hu x y nx ny e1 e2 h1 h2

theorem gapPollNode_mode_hold (h a : Nat) (resp : Bool) (x : Nat) (nx : Node)
    (hh : (gapPollNode h a resp x nx).mode = .hold) : nx.mode = .hold := by
  unfold gapPollNode at hh
  split at hh
  · exact hh
  · split at hh
    · cases hh
    · exact hh

theorem unique_gapPoll (s : Net) (h : Nat) (hu : Unique s) : Unique (gapPoll s h) := by
  unfold gapPoll
  split
  · rename_i nh e
    split
    · split
      · apply unique_of_hold_sub s _ hu
        intro x nx' ex hx
        simp only at ex
        cases e1 : s.node x with
        | none => rw [e1] at ex; cases ex
        | some nx =>
          rw [e1] at ex
          simp only [Option.map_some, Option.some.injEq] at ex
          subst ex
          exact ⟨nx, rfl, gapPollNode_mode_hold _ _ _ _ _ hx⟩
      · apply unique_of_hold_sub s _ hu
        intro x nx' ex hx
        simp only at ex
        by_cases hxh : x = h
        · rw [if_pos hxh] at ex
          cases ex
          exact ⟨nh, hxh ▸ e, hx⟩
        · rw [if_neg hxh] at ex
          exact ⟨nx', ex, hx⟩
      · exact hu
    · exact hu
  · exact hu

theorem unique_dropNs (s : Net) (h : Nat) (hu : Unique s) : Unique (dropNs s h) := by
  unfold dropNs
  split
  · rename_i nh e
    split
    · apply unique_of_hold_sub s _ hu
      intro x nx' ex hx
      simp only at ex
      by_cases hxh : x = h
      · rw [if_pos hxh] at ex
        cases ex
        exact ⟨nh, hxh ▸ e, hx⟩
      · rw [if_neg hxh] at ex
        exact ⟨nx', ex, hx⟩
    · exact hu
  · exact hu

theorem unique_leave (s : Net) (a : Nat) (hu : Unique s) : Unique (leave s a) := by
  apply unique_of_hold_sub s _ hu
  intro x nx' ex hx
  unfold leave at ex
  simp only at ex
  by_cases hxa : x = a
  · rw [if_pos hxa] at ex; cases ex
  · rw [if_neg hxa] at ex; exact ⟨nx', ex, hx⟩

theorem unique_join (s : Net) (a : Nat) (hu : Unique s) : Unique (join s a) := by
  apply unique_of_hold_sub s _ hu
  intro x nx' ex hx
  unfold join at ex
  simp only at ex
  by_cases hxa : x = a
  · rw [if_pos hxa] at ex; cases ex; cases hx
  · rw [if_neg hxa] at ex; exact ⟨nx', ex, hx⟩

theorem unique_claim (s : Net) (a : Nat) (hno : ∀ x nx, s.node x = some nx → nx.mode ≠ .hold) :
    Unique (claim s a) := by
  unfold claim
  split
  · intro x y nx' ny' ex ey hx hy
    simp only at ex ey
    by_cases hxa : x = a
    · by_cases hya : y = a
      · rw [hxa, hya]
      · rw [if_neg hya] at ey; exact absurd hy (hno y ny' ey)
    · rw [if_neg hxa] at ex; exact absurd hx (hno x nx' ex)
  · intro x y nx ny ex ey hx _
    exact absurd hx (hno x nx ex)

theorem unique_step (s s' : Net) (hu : Unique s) (st : Step s s') : Unique s' := by
  cases st with
  | pass h nh e hm => rw [pass_eq s h nh e hm]; exact unique_passTo s h _ nh e hm hu
  | gapPoll h nh e hm => exact unique_gapPoll s h hu
  | dropNs h nh e hm _ _ => exact unique_dropNs s h hu
  | leave a na e _ => exact unique_leave s a hu
  | join a e => exact unique_join s a hu
  | claim a na e hno => exact unique_claim s a hno

theorem unique_reach (s0 s : Net) (hu : Unique s0) (hr : Reach s0 s) : Unique s := by
  induction hr with
  | refl => exact hu
  | step s s' _ st ih => exact unique_step s s' ih st


/-! ### Agreement -/

/-- What a station in the ring knows when the ring agrees on the member set `M`. -/
structure ViewOk (M : List Nat) (x : Nat) (r : TokenRing) : Prop where
  ts : r.ts = x
  valid : r.las = .valid
  las : LasIs r M
  nbr : Nbr r

/-- **Agreement**: the stations in the ring (ActiveIdle or holding) are exactly `M`, each has a
valid LAS equal to `M` with NS/PS derived from it, and `h` — a member — is the one token holder. -/
structure Agreed (s : Net) (M : List Nat) (h : Nat) : Prop where
  ring : IsRing M
  hmem : h ∈ M
  members : ∀ x, x ∈ M ↔ ∃ nx, s.node x = some nx ∧ nx.mode ≠ .listen
  view : ∀ x nx, s.node x = some nx → nx.mode ≠ .listen → ViewOk M x nx.ring ∧ nx.pend = none
  holder : ∀ x nx, s.node x = some nx → (nx.mode = .hold ↔ x = h)

/-- A view with LAS = `M` is unchanged (as far as `ViewOk` goes) by witnessing a member's pass to
its cyclic successor. -/
theorem viewOk_witness (M : List Nat) (hM : IsRing M) (x h : Nat) (r : TokenRing) (hh : h ∈ M) (v : ViewOk M x r) :
    ViewOk M x (r.witness h (cycSucc h M)) := by
  have hn := cycSucc_mem h M hh
  rw [witness_valid r h _ v.valid (hM.bound h hh) (hM.bound _ hn)]
  exact ⟨(updateLas_las r _ _).2.trans v.ts, (updateLas_las r _ _).1.trans v.valid,
    updateLas_succ_stable r M h v.las hh, updateLas_nbr r _ _⟩

theorem viewOk_ns (M : List Nat) (hM : IsRing M) (x : Nat) (r : TokenRing) (v : ViewOk M x r) :
    r.ns = cycSucc x M ∧ r.ps = cycPred x M := by
  have := nbr_lasIs r M v.nbr v.las hM.bound
  rw [v.ts] at this
  exact this

theorem agreed_holder_node (s : Net) (M : List Nat) (h : Nat) (ag : Agreed s M h) :
    ∃ nh, s.node h = some nh ∧ nh.mode = .hold ∧ nh.ring.ns = cycSucc h M := by
  obtain ⟨nh, e, hm⟩ := (ag.members h).mp ag.hmem
  exact ⟨nh, e, (ag.holder h nh e).mpr rfl, (viewOk_ns M ag.ring h nh.ring (ag.view h nh e hm).1).1⟩

theorem agreed_nsOf (s : Net) (M : List Nat) (h : Nat) (ag : Agreed s M h) : nsOf s h = cycSucc h M := by
  obtain ⟨nh, e, _, hns⟩ := agreed_holder_node s M h ag
  unfold nsOf; rw [e]; exact hns

/-- In an agreeing ring the successor takes the token at once (it is ActiveIdle and the sender is its PS). -/
theorem agreed_accepted (s : Net) (M : List Nat) (h : Nat) (ag : Agreed s M h) :
    accepted s h (cycSucc h M) = decide (cycSucc h M ≠ h) := by
  have hn := cycSucc_mem h M ag.hmem
  obtain ⟨nn, e, hm⟩ := (ag.members _).mp hn
  unfold accepted
  rw [e]
  unfold accepts
  by_cases c : cycSucc h M = h
  · simp [c]
  · have hidle : nn.mode = .idle := by
      have := ag.holder _ nn e
      cases hmode : nn.mode with
      | idle => rfl
      | listen => exact absurd hmode hm
      | hold => exact absurd (this.mp hmode) c
    have hps : nn.ring.ps = h := by
      rw [(viewOk_ns M ag.ring _ nn.ring (ag.view _ nn e hm).1).2]
      exact cycPred_cycSucc h M ag.ring.asc ag.hmem
    simp [c, hidle, hps]

/-- The exact effect of the holder's pass on every station of an agreeing ring. -/
theorem agreed_pass_node (s : Net) (M : List Nat) (h : Nat) (ag : Agreed s M h) (x : Nat) (nx : Node)
    (ex : s.node x = some nx) :
    (pass s h).node x = some (
      if x = h then { nx with ring := nx.ring.witness h (cycSucc h M),
                              mode := if cycSucc h M = h then .hold else .idle }
      else if x = cycSucc h M then { nx with mode := .hold, pend := none }
      else { nx with ring := nx.ring.witness h (cycSucc h M) }) := by
  obtain ⟨nh, e, hmode, hns⟩ := agreed_holder_node s M h ag
  rw [pass_eq s h nh e hmode, hns, passTo_node, ex, agreed_accepted s M h ag]
  simp only [Option.map_some, Option.some.injEq]
  unfold passNode
  by_cases c1 : x = h
  · subst c1
    rw [ex] at e; cases e
    rw [if_pos rfl, if_pos rfl]
    by_cases c : cycSucc x M = x
    · simp [c, hmode]
    · simp [c]
  · rw [if_neg c1, if_neg c1]
    by_cases c2 : x = cycSucc h M
    · rw [if_pos c2, if_pos c2]
      have hxm : x ∈ M := c2 ▸ cycSucc_mem h M ag.hmem
      obtain ⟨nx', e', hm⟩ := (ag.members x).mp hxm
      rw [ex] at e'; cases e'
      have hidle : nx.mode = .idle := by
        cases hmode' : nx.mode with
        | idle => rfl
        | listen => exact absurd hmode' hm
        | hold => exact absurd ((ag.holder x nx ex).mp hmode') c1
      have hps : nx.ring.ps = h := by
        rw [(viewOk_ns M ag.ring x nx.ring (ag.view x nx ex hm).1).2, c2]
        exact cycPred_cycSucc h M ag.ring.asc ag.hmem
      rw [hidle]
      simp only
      rw [if_pos hps]
    · rw [if_neg c2, if_neg c2]

/-- **Agreement is inductive under token passing**, and the token goes to the cyclic successor. -/
theorem agreed_pass (s : Net) (M : List Nat) (h : Nat) (ag : Agreed s M h) :
    Agreed (pass s h) M (cycSucc h M) := by
  have hn := cycSucc_mem h M ag.hmem
  have node' := agreed_pass_node s M h ag
  have dom : ∀ x, (pass s h).node x = none ↔ s.node x = none := by
    intro x
    obtain ⟨nh, e, hmode, _⟩ := agreed_holder_node s M h ag
    rw [pass_eq s h nh e hmode, passTo_node]
    cases s.node x <;> simp
  refine ⟨ag.ring, hn, fun x => ?_, fun x nx' ex' hm' => ?_, fun x nx' ex' => ?_⟩
  · rw [ag.members x]
    constructor
    · rintro ⟨nx, ex, hm⟩
      refine ⟨_, node' x nx ex, ?_⟩
      by_cases c1 : x = h
      · rw [if_pos c1]; simp only; split <;> simp
      · rw [if_neg c1]
        by_cases c2 : x = cycSucc h M
        · rw [if_pos c2]; simp
        · rw [if_neg c2]; exact hm
    · rintro ⟨nx', ex', hm'⟩
      cases ex : s.node x with
      | none => rw [(dom x).mpr ex] at ex'; cases ex'
      | some nx =>
        refine ⟨nx, rfl, ?_⟩
        rw [node' x nx ex] at ex'
        injection ex' with ex'
        subst ex'
        by_cases c1 : x = h
        · subst c1
          obtain ⟨nh, e, hmode, _⟩ := agreed_holder_node s M x ag
          rw [ex] at e; cases e
          rw [hmode]; simp
        · rw [if_neg c1] at hm'
          by_cases c2 : x = cycSucc h M
          · obtain ⟨nn, e, hmn⟩ := (ag.members x).mp (c2 ▸ hn)
            rw [ex] at e; cases e; exact hmn
          · rw [if_neg c2] at hm'; exact hm'
  · cases ex : s.node x with
    | none => rw [(dom x).mpr ex] at ex'; cases ex'
    | some nx =>
      rw [node' x nx ex] at ex'
      injection ex' with ex'
      subst ex'
      by_cases c1 : x = h
      · subst c1
        obtain ⟨nh, e, hmode, _⟩ := agreed_holder_node s M x ag
        rw [ex] at e; cases e
        have v := ag.view x nx ex (by rw [hmode]; simp)
        rw [if_pos rfl]
        exact ⟨viewOk_witness M ag.ring x x nx.ring ag.hmem v.1, v.2⟩
      · rw [if_neg c1] at hm' ⊢
        by_cases c2 : x = cycSucc h M
        · obtain ⟨nn, e, hmn⟩ := (ag.members x).mp (c2 ▸ hn)
          rw [ex] at e; cases e
          rw [if_pos c2]
          exact ⟨(ag.view x nx ex hmn).1, rfl⟩
        · rw [if_neg c2] at hm' ⊢
          have v := ag.view x nx ex hm'
          exact ⟨viewOk_witness M ag.ring x h nx.ring ag.hmem v.1, v.2⟩
  · cases ex : s.node x with
    | none => rw [(dom x).mpr ex] at ex'; cases ex'
    | some nx =>
      rw [node' x nx ex] at ex'
      injection ex' with ex'
      subst ex'
      by_cases c1 : x = h
      · subst c1
        rw [if_pos rfl]
        by_cases c : cycSucc x M = x
        · simp [c]
        · simp only [if_neg c]
          constructor
          · intro hc; cases hc
          · intro hc; exact absurd hc.symm c
      · rw [if_neg c1]
        by_cases c2 : x = cycSucc h M
        · rw [if_pos c2]; simp [c2]
        · rw [if_neg c2]
          simp only
          rw [ag.holder x nx ex]
          constructor
          · intro hc; exact absurd hc c1
          · intro hc; exact absurd hc c2


/-! ### Ascending rotation -/

/-- `k` passes in an agreeing ring: the token goes from the `i`-th member to the `i+1`-st, … ; the
telegrams on the bus are exactly these passes; agreement is kept throughout. -/
theorem agreed_rotate (M : List Nat) (k : Nat) : ∀ (s : Net) (i : Nat), Agreed s M (nth M i) →
    Agreed (rotate s (nth M i) k).1 M (nth M (i + k)) ∧ (rotate s (nth M i) k).2.1 = nth M (i + k) ∧
    (rotate s (nth M i) k).2.2 = (List.range k).map (fun j => (nth M (i + j), nth M (i + j + 1))) := by
  induction k with
  | zero => intro s i ag; exact ⟨ag, rfl, rfl⟩
  | succ k ih =>
    intro s i ag
    have hns : nsOf s (nth M i) = nth M (i + 1) := by
      rw [agreed_nsOf s M _ ag]; exact cycSucc_nth M ag.ring i
    have ag' : Agreed (pass s (nth M i)) M (nth M (i + 1)) := by
      have := agreed_pass s M _ ag
      rwa [cycSucc_nth M ag.ring i] at this
    have := ih (pass s (nth M i)) (i + 1) ag'
    simp only [rotate, hns]
    have e : i + 1 + k = i + (k + 1) := by omega
    rw [e] at this
    refine ⟨this.1, this.2.1, ?_⟩
    rw [this.2.2, List.range_succ_eq_map, List.map_cons, List.map_map]
    congr 1
    apply List.map_congr_left
    intro j _
    simp only [Function.comp, Nat.succ_eq_add_one]
    have e1 : i + 1 + j = i + (j + 1) := by omega
    rw [e1]


/-! ### Admission of a listener by the GAP sweep -/

/-- `a` is a listener (not in the ring) that has learned the ring `M` and is ready. -/
structure ReadyListener (s : Net) (M : List Nat) (a : Nat) : Prop where
  notMem : a ∉ M
  node : ∃ na, s.node a = some na ∧ na.mode = .listen ∧ ViewOk M a na.ring

/-- What stays fixed while the token circulates and `h` sweeps its GAP: the ring agrees on `M`
(holder `hd`), `a` is a ready listener, the addresses in `absent` are not on the bus, the GAP cursor
of `h` is `g`, HSA is `H`. -/
structure SweepInv (s : Net) (M : List Nat) (hd h a : Nat) (absent : List Nat) (g : Option Nat) (H : Nat) : Prop where
  agreed : Agreed s M hd
  listener : ReadyListener s M a
  absent : ∀ b ∈ absent, s.node b = none
  gap : ∀ nh, s.node h = some nh → nh.gap = g
  hsa : s.hsa = H

theorem pass_hsa (s : Net) (h : Nat) : (pass s h).hsa = s.hsa := by
  unfold pass; split
  · split <;> rfl
  · rfl

theorem pass_none (s : Net) (h b : Nat) (e : s.node b = none) : (pass s h).node b = none := by
  unfold pass; split
  · split
    · rw [passTo_node, e]; rfl
    · exact e
  · exact e

theorem sweepInv_pass (s : Net) (M : List Nat) (hd h a : Nat) (absent : List Nat) (g : Option Nat) (H : Nat)
    (inv : SweepInv s M hd h a absent g H) : SweepInv (pass s hd) M (cycSucc hd M) h a absent g H := by
  have node' := agreed_pass_node s M hd inv.agreed
  refine ⟨agreed_pass s M hd inv.agreed, ⟨inv.listener.notMem, ?_⟩, fun b hb => pass_none s hd b (inv.absent b hb),
    fun nh' e' => ?_, (pass_hsa s hd).trans inv.hsa⟩
  · obtain ⟨na, ea, hl, v⟩ := inv.listener.node
    have c1 : a ≠ hd := fun e => inv.listener.notMem (e ▸ inv.agreed.hmem)
    have c2 : a ≠ cycSucc hd M := fun e => inv.listener.notMem (e ▸ cycSucc_mem hd M inv.agreed.hmem)
    refine ⟨_, node' a na ea, ?_, ?_⟩
    · rw [if_neg c1, if_neg c2]; exact hl
    · rw [if_neg c1, if_neg c2]
      exact viewOk_witness M inv.agreed.ring a hd na.ring inv.agreed.hmem v
  · cases e : s.node h with
    | none => rw [pass_none s hd h e] at e'; cases e'
    | some nh =>
      rw [node' h nh e] at e'
      injection e' with e'
      subst e'
      have := inv.gap nh e
      split
      · exact this
      · split <;> exact this

theorem sweepInv_rotate (M : List Nat) (h a : Nat) (absent : List Nat) (g : Option Nat) (H : Nat) (k : Nat) :
    ∀ (s : Net) (i : Nat), SweepInv s M (nth M i) h a absent g H →
      SweepInv (rotate s (nth M i) k).1 M (nth M (i + k)) h a absent g H := by
  induction k with
  | zero => intro s i inv; exact inv
  | succ k ih =>
    intro s i inv
    have hns : nsOf s (nth M i) = nth M (i + 1) := by
      rw [agreed_nsOf s M _ inv.agreed]; exact cycSucc_nth M inv.agreed.ring i
    have inv' := sweepInv_pass s M _ h a absent g H inv
    rw [cycSucc_nth M inv.agreed.ring i] at inv'
    have := ih (pass s (nth M i)) (i + 1) inv'
    simp only [rotate, hns]
    have e : i + 1 + k = i + (k + 1) := by omega
    rwa [e] at this

theorem nth_add_length (M : List Nat) (i : Nat) : nth M (i + M.length) = nth M i := by
  unfold nth; rw [Nat.add_mod_right]

/-- Agreement only looks at mode, ring view and pending predecessor of every station. -/
theorem agreed_congr (s s' : Net) (M : List Nat) (h : Nat) (ag : Agreed s M h)
    (hc : ∀ x, (s'.node x = none ∧ s.node x = none) ∨
      ∃ nx nx', s.node x = some nx ∧ s'.node x = some nx' ∧ nx'.mode = nx.mode ∧ nx'.ring = nx.ring ∧ nx'.pend = nx.pend) :
    Agreed s' M h := by
  refine ⟨ag.ring, ag.hmem, fun x => ?_, fun x nx' ex' hm' => ?_, fun x nx' ex' => ?_⟩
  · rw [ag.members x]
    rcases hc x with ⟨e', e⟩ | ⟨nx, nx', e, e', hm, _, _⟩
    · rw [e, e']
    · rw [e, e']
      constructor
      · rintro ⟨n, en, hn⟩; cases en; exact ⟨nx', rfl, hm ▸ hn⟩
      · rintro ⟨n, en, hn⟩; cases en; exact ⟨nx, rfl, hm ▸ hn⟩
  · rcases hc x with ⟨e', e⟩ | ⟨nx, nx'', e, e', hm, hr, hp⟩
    · rw [e'] at ex'; cases ex'
    · rw [e'] at ex'; cases ex'
      have := ag.view x nx e (hm ▸ hm')
      rw [hr, hp]; exact this
  · rcases hc x with ⟨e', e⟩ | ⟨nx, nx'', e, e', hm, hr, hp⟩
    · rw [e'] at ex'; cases ex'
    · rw [e'] at ex'; cases ex'
      rw [hm]; exact ag.holder x nx e

/-- `InGap` is `Between` below HSA. -/
theorem inGap_between (ts ns hsa a : Nat) : InGap ts ns hsa a ↔ a < hsa ∧ Between ts ns a := by
  unfold InGap Between
  constructor
  · rintro ⟨h1, h2, h3⟩; exact ⟨h1, h2, h3⟩
  · rintro ⟨h1, h2, h3⟩; exact ⟨h1, h2, h3⟩

/-- A GAP poll of an address where no station is: only the cursor of `h` moves. -/
theorem sweepInv_gapPoll_absent (s : Net) (M : List Nat) (h a b : Nat) (absent : List Nat) (g : Option Nat) (H : Nat)
    (inv : SweepInv s M h h a absent g H) (hb : s.node b = none)
    (hp : nextGapPoll h (cycSucc h M) H (g.getD h) = .poll b) :
    SweepInv (gapPoll s h) M h h a absent (some b) H := by
  obtain ⟨nh, e, hmode, hns⟩ := agreed_holder_node s M h inv.agreed
  have hg := inv.gap nh e
  have hne : b ≠ h := fun c => by rw [c, e] at hb; cases hb
  have hresp : responds s h b = false := by unfold responds; rw [hb]
  have hnode : ∀ x, (gapPoll s h).node x = (s.node x).map (gapPollNode h b false x) := by
    intro x
    unfold gapPoll
    rw [e]
    simp only [hmode, if_true, hns, inv.hsa, hg, hp, hresp]
  have hother : ∀ x nx, x ≠ h → s.node x = some nx → (gapPoll s h).node x = some nx := by
    intro x nx hx ex
    rw [hnode, ex]
    simp only [Option.map_some, Option.some.injEq]
    unfold gapPollNode
    rw [if_neg hx]
    have : ¬ (x = b ∧ nx.mode = .listen ∧ nx.ring.readyForRing = true) := fun c => by
      rw [c.1, hb] at ex; cases ex
    rw [if_neg this]
  have hh : (gapPoll s h).node h = some { nh with gap := some b } := by
    rw [hnode, e]
    simp only [Option.map_some, Option.some.injEq]
    unfold gapPollNode
    rw [if_pos rfl]; rfl
  have hhsa : (gapPoll s h).hsa = s.hsa := by
    unfold gapPoll
    rw [e]
    simp only [hmode, if_true, hns, inv.hsa, hg, hp]
  refine ⟨?_, ⟨inv.listener.notMem, ?_⟩, fun c hc => ?_, fun nh' e' => ?_, hhsa.trans inv.hsa⟩
  · apply agreed_congr s _ M h inv.agreed
    intro x
    by_cases hx : x = h
    · subst hx
      exact Or.inr ⟨nh, _, e, hh, rfl, rfl, rfl⟩
    · cases ex : s.node x with
      | none => left; rw [hnode, ex]; exact ⟨rfl, rfl⟩
      | some nx => exact Or.inr ⟨nx, nx, rfl, hother x nx hx ex, rfl, rfl, rfl⟩
  · obtain ⟨na, ea, hl, v⟩ := inv.listener.node
    have c1 : a ≠ h := fun c => inv.listener.notMem (c ▸ inv.agreed.hmem)
    exact ⟨na, hother a na c1 ea, hl, v⟩
  · rw [hnode, inv.absent c hc]; rfl
  · rw [hh] at e'; cases e'; rfl


/-- The schedule of a GAP sweep: `k` token visits at `h`; on each visit `h` polls one GAP address,
then the token goes once round the ring (`len` passes) and is back at `h`. -/
def visits (s : Net) (h len : Nat) : Nat → Net
  | 0 => s
  | k + 1 => visits (rotate (gapPoll s h) h len).1 h len k

theorem sweepInv_absent_mono (s : Net) (M : List Nat) (hd h a : Nat) (l l' : List Nat) (g : Option Nat) (H : Nat)
    (inv : SweepInv s M hd h a l g H) (hsub : ∀ b ∈ l', b ∈ l) : SweepInv s M hd h a l' g H :=
  ⟨inv.agreed, inv.listener, fun b hb => inv.absent b (hsub b hb), inv.gap, inv.hsa⟩

/-- The poll that finds the ready listener `a` in the GAP of its predecessor `h`, followed by `h`'s
token pass: `h` adopts `a` as NS (`set_next_station`), `a` enters the ring (ActiveIdle) and takes the
token from its PS. -/
theorem gapPoll_admits (s : Net) (M : List Nat) (h a : Nat) (absent : List Nat) (g : Option Nat) (H : Nat)
    (inv : SweepInv s M h h a absent g H) (hbt : Between h (cycSucc h M) a) (ha : a < 128)
    (hp : nextGapPoll h (cycSucc h M) H (g.getD h) = .poll a) :
    (∃ nh, (pass (gapPoll s h) h).node h = some nh ∧ nh.mode = .idle ∧ nh.ring.ns = a) ∧
    (∃ na, (pass (gapPoll s h) h).node a = some na ∧ na.mode = .hold ∧ ViewOk M a na.ring) ∧
    (∃ nh, (gapPoll s h).node h = some nh ∧ nh.mode = .hold ∧ nh.ring.ns = a) := by
  obtain ⟨nh, e, hmode, hns⟩ := agreed_holder_node s M h inv.agreed
  have hv := (inv.agreed.view h nh e (by rw [hmode]; simp)).1
  have hg := inv.gap nh e
  obtain ⟨na, ea, hl, v⟩ := inv.listener.node
  have hne : a ≠ h := fun c => inv.listener.notMem (c ▸ inv.agreed.hmem)
  have hps : na.ring.ps = h := by
    rw [(viewOk_ns M inv.agreed.ring a na.ring v).2]
    exact cycPred_of_between h a M inv.agreed.hmem hbt
  have hready : na.ring.readyForRing = true := by simp [readyForRing, v.valid]
  have hresp : responds s h a = true := by
    unfold responds; rw [ea]; simp [hl, hready, hps]
  have hnode : ∀ x, (gapPoll s h).node x = (s.node x).map (gapPollNode h a true x) := by
    intro x
    unfold gapPoll
    rw [e]
    simp only [hmode, if_true, hns, inv.hsa, hg, hp, hresp]
  obtain ⟨r', hr'⟩ : ∃ r', nh.ring.setNextStation a = some r' := by
    unfold setNextStation; rw [if_neg (by omega)]; exact ⟨_, rfl⟩
  have hns' : r'.ns = a := setNextStation_ns nh.ring r' a hr' (by rw [hv.ts]; exact hne)
  have hh : (gapPoll s h).node h = some { nh with gap := some a, ring := r' } := by
    rw [hnode, e]
    simp only [Option.map_some, Option.some.injEq]
    unfold gapPollNode
    rw [if_pos rfl, hr']; rfl
  have haa : (gapPoll s h).node a = some { na with mode := .idle, pend := none } := by
    rw [hnode, ea]
    simp only [Option.map_some, Option.some.injEq]
    unfold gapPollNode
    rw [if_neg hne, if_pos ⟨rfl, hl, hready⟩]
  have hacc : accepted (gapPoll s h) h a = true := by
    unfold accepted; rw [haa]; unfold accepts; simp [hne, hps]
  refine ⟨?_, ?_, ⟨_, hh, hmode, hns'⟩⟩
  · rw [pass_eq _ h _ hh hmode]
    simp only [hns']
    rw [passTo_node, hh, hacc]
    refine ⟨_, rfl, ?_, ?_⟩
    · unfold passNode; rw [if_pos rfl]; rfl
    · unfold passNode; rw [if_pos rfl]
      show (r'.witness h a).ns = a
      have hnb : Nbr (r'.witness h a) := witness_nbr r' h a (setNextStation_nbr nh.ring r' a hr')
      have hr'v : r'.las = .valid := by
        have := hr'
        unfold setNextStation at this
        rw [if_neg (by omega)] at this
        injection this with this
        rw [← this, (updateLas_las _ _ _).1]; exact hv.valid
      have hts' : r'.ts = h := (setNextStation_ts nh.ring r' a hr').trans hv.ts
      have hh125 : h ≤ 125 := inv.agreed.ring.bound h inv.agreed.hmem
      by_cases ha125 : a ≤ 125
      · rw [witness_valid r' h a hr'v hh125 ha125]
        -- `a` stays entered and the range behind `h` stays clear
        have hnb0 := setNextStation_nbr nh.ring r' a hr'
        have hact : r'.isActive a = true := by
          have hs := (isCycSucc_iff _ _ _).mpr hnb0.1
          rw [hns', hts'] at hs
          have m := mem_activeList r'
          by_cases h1 : ∃ b ∈ r'.activeList, h < b
          · exact (m a).mp (hs.above h1).1
          · have hall : ∀ b ∈ r'.activeList, b ≤ h := fun b hb => by
              have : ¬ h < b := fun hlt => h1 ⟨b, hb, hlt⟩
              omega
            by_cases h2 : ∃ b, b ∈ r'.activeList
            · exact (m a).mp (hs.wrap hall h2).1
            · exact absurd (hs.alone fun b hb => h2 ⟨b, hb⟩) hne
        apply nbr_ns_of_gapfree _ a (updateLas_nbr r' h a)
        · rw [updateLas_active r' h a a ha]
          unfold passBit
          rw [if_neg hne]
          have : inPassGap h a a = false := by
            cases hc : inPassGap h a a with
            | false => rfl
            | true => rw [inPassGap_arith] at hc; omega
          rw [this]; simpa using hact
        · rw [(updateLas_las r' h a).2, hts']; exact hne
        · intro x hx
          rw [(updateLas_las r' h a).2, hts'] at hx
          by_cases hx128 : x < 128
          · rw [updateLas_active r' h a x hx128]
            unfold passBit
            rw [if_neg hx.1, if_pos (between_inPassGap _ _ _ hx)]
          · unfold isActive; rw [dif_neg hx128]
      · rw [witness_ignores_invalid r' h a (Or.inr (by omega))]; exact hns'
  · rw [pass_eq _ h _ hh hmode]
    simp only [hns']
    rw [passTo_node, haa, hacc]
    refine ⟨_, rfl, ?_, ?_⟩
    · unfold passNode; rw [if_neg hne, if_pos rfl]; simp only; rw [if_pos hps]
    · unfold passNode; rw [if_neg hne, if_pos rfl]; simp only; rw [if_pos hps]; exact v


theorem poll_inGap (ts ns hsa cur a : Nat) (hh : 0 < hsa) (hh2 : hsa ≤ 126) (hc : cur < hsa)
    (h : nextGapPoll ts ns hsa cur = .poll a) : InGap ts ns hsa a := by
  rw [nextGapPoll_eq ts ns hsa cur hh hh2 hc] at h
  split at h
  · cases h; assumption
  · cases h

/-- **Admission within one sweep.**  If the sweep of `h`'s GAP (as `sweepFrom` = iterated real
`next_gap_poll`) from the current cursor reaches the ready listener `a` after the addresses `pre`,
and no station is present at the addresses `pre`, then after `|pre|` token visits at `h` (one poll
each, one full rotation in between) the next poll finds `a`: `h` adopts it as NS and `h`'s token
pass hands it the token. -/
theorem listener_admitted_aux (M : List Nat) (h a H : Nat) (hH : H ≤ 126) (hh : h < H) (post : List Nat) :
    ∀ (pre : List Nat) (fuel : Nat) (s : Net) (g : Option Nat), SweepInv s M h h a pre g H → g.getD h < H →
      sweepFrom h (cycSucc h M) H fuel (g.getD h) = pre ++ a :: post →
      (∃ nh, (pass (gapPoll (visits s h M.length pre.length) h) h).node h = some nh ∧ nh.mode = .idle ∧ nh.ring.ns = a) ∧
      (∃ na, (pass (gapPoll (visits s h M.length pre.length) h) h).node a = some na ∧ na.mode = .hold ∧
        ViewOk M a na.ring) ∧
      (∃ nh, (gapPoll (visits s h M.length pre.length) h).node h = some nh ∧ nh.mode = .hold ∧ nh.ring.ns = a) := by
  intro pre
  induction pre with
  | nil =>
    intro fuel s g inv hcur hsw
    cases fuel with
    | zero => simp [sweepFrom] at hsw
    | succ f =>
      unfold sweepFrom at hsw
      cases hn : nextGapPoll h (cycSucc h M) H (g.getD h) with
      | poll x =>
        rw [hn] at hsw
        simp only [List.nil_append, List.cons.injEq] at hsw
        rw [hsw.1] at hn
        have hin := poll_inGap _ _ _ _ _ (by omega) hH hcur hn
        have hb := (inGap_between _ _ _ _).mp hin
        exact gapPoll_admits s M h a [] g H inv hb.2 (by omega) hn
      | waiting => rw [hn] at hsw; simp at hsw
      | panic => rw [hn] at hsw; simp at hsw
  | cons b pre' ih =>
    intro fuel s g inv hcur hsw
    cases fuel with
    | zero => simp [sweepFrom] at hsw
    | succ f =>
      unfold sweepFrom at hsw
      cases hn : nextGapPoll h (cycSucc h M) H (g.getD h) with
      | poll x =>
        rw [hn] at hsw
        simp only [List.cons_append, List.cons.injEq] at hsw
        rw [hsw.1] at hn
        have hin := poll_inGap _ _ _ _ _ (by omega) hH hcur hn
        have hbabs : s.node b = none := inv.absent b (by simp)
        have inv1 := sweepInv_gapPoll_absent s M h a b (b :: pre') g H inv hbabs hn
        obtain ⟨i, _, hi⟩ := mem_nth M h inv.agreed.hmem
        rw [← hi] at inv1
        have inv2 := sweepInv_rotate M (nth M i) a (b :: pre') (some b) H M.length _ i inv1
        rw [nth_add_length, hi] at inv2
        have inv3 := sweepInv_absent_mono _ M h h a (b :: pre') pre' (some b) H inv2 (fun c hc => by simp [hc])
        have hsw2 : sweepFrom h (cycSucc h M) H f ((some b).getD h) = pre' ++ a :: post := by
          rw [← hsw.2, hsw.1]; rfl
        have := ih f _ (some b) inv3 (by simpa using hin.1) hsw2
        simpa [visits] using this
      | waiting => rw [hn] at hsw; simp at hsw
      | panic => rw [hn] at hsw; simp at hsw

end AbstractRing
end PV
