/-
Lemmas about the abstract ring (`Model/AbstractRing.lean`): token uniqueness, the agreement
invariant, ascending rotation, admission of a listener by the GAP sweep.
The abstract ring is an idealisation (see the header of the model file); the station views in it
are real `TokenRing` models changed only through the modelled API, and the GAP cursor is the real
`nextGapPoll`, so the LAS/neighbour/GAP theorems of C02/C12 are what these proofs rest on.
-/
import ProfiVerif.Model.AbstractRing
import ProfiVerif.Lemmas.Neighbours
import ProfiVerif.Lemmas.RingPass
import ProfiVerif.Lemmas.Gap

namespace PV
namespace AbstractRing
open TokenRing

/-! ### Token uniqueness -/

/-- At most one station holds the token. -/
def Unique (s : Net) : Prop :=
  ∀ x y nx ny, s.node x = some nx → s.node y = some ny → nx.mode = .hold → ny.mode = .hold → x = y

theorem pass_eq (s : Net) (h : Nat) (nh : Node) (e : s.node h = some nh) (hm : nh.mode = .hold) :
    pass s h = passTo s h nh.ring.ns := by
  unfold pass; rw [e]; simp [hm]

theorem passTo_node (s : Net) (h n x : Nat) :
    (passTo s h n).node x = (s.node x).map (passNode h n (accepted s h n) x) := rfl

/-- Who can hold the token after the telegram `h → n`. -/
theorem passNode_hold (h n : Nat) (acc : Bool) (x : Nat) (nx : Node) (hh : (passNode h n acc x nx).mode = .hold) :
    (x = h ∧ acc = false ∧ nx.mode = .hold) ∨ (x ≠ h ∧ nx.mode = .hold) ∨ (x ≠ h ∧ accepts h n x nx = true) := by
  unfold passNode at hh
  by_cases hx : x = h
  · rw [if_pos hx] at hh
    left
    cases acc with
    | true => simp at hh
    | false => exact ⟨hx, rfl, by simpa using hh⟩
  · rw [if_neg hx] at hh
    right
    by_cases hn : x = n
    · subst hn
      rw [if_pos rfl] at hh
      cases hm : nx.mode with
      | hold => exact Or.inl ⟨hx, rfl⟩
      | listen => rw [hm] at hh; simp [hm] at hh
      | idle =>
        right
        rw [hm] at hh
        simp only at hh
        refine ⟨hx, ?_⟩
        unfold accepts
        by_cases h1 : nx.ring.ps = h
        · simp [hx, hm, h1]
        · rw [if_neg h1] at hh
          by_cases h2 : nx.pend = some h
          · simp [hx, hm, h2]
          · rw [if_neg h2] at hh; simp [hm] at hh
    · rw [if_neg hn] at hh
      exact Or.inl ⟨hx, hh⟩

theorem accepts_eq (h n x : Nat) (nx : Node) (ha : accepts h n x nx = true) : x = n := by
  unfold accepts at ha
  simp only [Bool.and_eq_true, decide_eq_true_eq] at ha
  exact ha.1.1.1

theorem unique_passTo (s : Net) (h n : Nat) (nh : Node) (e : s.node h = some nh) (hm : nh.mode = .hold)
    (hu : Unique s) : Unique (passTo s h n) := by
  intro x y nx' ny' ex ey hx hy
  rw [passTo_node] at ex ey
  cases e1 : s.node x with
  | none => rw [e1] at ex; cases ex
  | some nx =>
  cases e2 : s.node y with
  | none => rw [e2] at ey; cases ey
  | some ny =>
  rw [e1] at ex; rw [e2] at ey
  simp only [Option.map_some, Option.some.injEq] at ex ey
  subst ex; subst ey
  have a := passNode_hold _ _ _ _ _ hx
  have b := passNode_hold _ _ _ _ _ hy
  have old : ∀ z nz, s.node z = some nz → nz.mode = .hold → z = h := fun z nz ez hz => hu z h nz nh ez e hz hm
  have accd : ∀ z nz, s.node z = some nz → accepts h n z nz = true → accepted s h n = true := by
    intro z nz ez hz
    have : z = n := accepts_eq _ _ _ _ hz
    subst this
    unfold accepted; rw [ez]; exact hz
  rcases a with ⟨rfl, a1, _⟩ | ⟨a1, a2⟩ | ⟨a1, a2⟩
  · rcases b with ⟨rfl, _, _⟩ | ⟨b1, b2⟩ | ⟨b1, b2⟩
    · rfl
    · exact absurd (old y ny e2 b2) b1
    · rw [accd y ny e2 b2] at a1; cases a1
  · exact absurd (old x nx e1 a2) a1
  · rcases b with ⟨rfl, b1, _⟩ | ⟨b1, b2⟩ | ⟨b1, b2⟩
    · rw [accd x nx e1 a2] at b1; cases b1
    · exact absurd (old y ny e2 b2) b1
    · rw [accepts_eq _ _ _ _ a2, accepts_eq _ _ _ _ b2]

/-- A step that creates no new holder keeps the token unique. -/
theorem unique_of_hold_sub (s s' : Net) (hu : Unique s)
    (hsub : ∀ x nx', s'.node x = some nx' → nx'.mode = .hold → ∃ nx, s.node x = some nx ∧ nx.mode = .hold) :
    Unique s' := by
  intro x y nx' ny' ex ey hx hy
  obtain ⟨nx, e1, h1⟩ := hsub x nx' ex hx
  obtain ⟨ny, e2, h2⟩ := hsub y ny' ey hy
  exact hu x y nx ny e1 e2 h1 h2

theorem gapPollNode_mode_hold (h a : Nat) (resp : Bool) (x : Nat) (nx : Node)
    (hh : (gapPollNode h a resp x nx).mode = .hold) : nx.mode = .hold := by
  unfold gapPollNode at hh
  split at hh
  · exact hh
  · split at hh
    · cases hh
    · exact hh

theorem unique_gapPoll (s : Net) (h : Nat) (hu : Unique s) : Unique (gapPoll s h) := by
  unfold gapPoll
  split
  · rename_i nh e
    split
    · split
      · apply unique_of_hold_sub s _ hu
        intro x nx' ex hx
        simp only at ex
        cases e1 : s.node x with
        | none => rw [e1] at ex; cases ex
        | some nx =>
          rw [e1] at ex
          simp only [Option.map_some, Option.some.injEq] at ex
          subst ex
          exact ⟨nx, rfl, gapPollNode_mode_hold _ _ _ _ _ hx⟩
      · apply unique_of_hold_sub s _ hu
        intro x nx' ex hx
        simp only at ex
        by_cases hxh : x = h
        · rw [if_pos hxh] at ex
          cases ex
          exact ⟨nh, hxh ▸ e, hx⟩
        · rw [if_neg hxh] at ex
          exact ⟨nx', ex, hx⟩
      · exact hu
    · exact hu
  · exact hu

theorem unique_dropNs (s : Net) (h : Nat) (hu : Unique s) : Unique (dropNs s h) := by
  unfold dropNs
  split
  · rename_i nh e
    split
    · apply unique_of_hold_sub s _ hu
      intro x nx' ex hx
      simp only at ex
      by_cases hxh : x = h
      · rw [if_pos hxh] at ex
        cases ex
        exact ⟨nh, hxh ▸ e, hx⟩
      · rw [if_neg hxh] at ex
        exact ⟨nx', ex, hx⟩
    · exact hu
  · exact hu

theorem unique_leave (s : Net) (a : Nat) (hu : Unique s) : Unique (leave s a) := by
  apply unique_of_hold_sub s _ hu
  intro x nx' ex hx
  unfold leave at ex
  simp only at ex
  by_cases hxa : x = a
  · rw [if_pos hxa] at ex; cases ex
  · rw [if_neg hxa] at ex; exact ⟨nx', ex, hx⟩

theorem unique_join (s : Net) (a : Nat) (hu : Unique s) : Unique (join s a) := by
  apply unique_of_hold_sub s _ hu
  intro x nx' ex hx
  unfold join at ex
  simp only at ex
  by_cases hxa : x = a
  · rw [if_pos hxa] at ex; cases ex; cases hx
  · rw [if_neg hxa] at ex; exact ⟨nx', ex, hx⟩

theorem unique_claim (s : Net) (a : Nat) (hno : ∀ x nx, s.node x = some nx → nx.mode ≠ .hold) :
    Unique (claim s a) := by
  unfold claim
  split
  · intro x y nx' ny' ex ey hx hy
    simp only at ex ey
    by_cases hxa : x = a
    · by_cases hya : y = a
      · rw [hxa, hya]
      · rw [if_neg hya] at ey; exact absurd hy (hno y ny' ey)
    · rw [if_neg hxa] at ex; exact absurd hx (hno x nx' ex)
  · intro x y nx ny ex ey hx _
    exact absurd hx (hno x nx ex)

theorem unique_step (s s' : Net) (hu : Unique s) (st : Step s s') : Unique s' := by
  cases st with
  | pass h nh e hm => rw [pass_eq s h nh e hm]; exact unique_passTo s h _ nh e hm hu
  | gapPoll h nh e hm => exact unique_gapPoll s h hu
  | dropNs h nh e hm _ _ => exact unique_dropNs s h hu
  | leave a na e _ => exact unique_leave s a hu
  | join a e => exact unique_join s a hu
  | claim a na e hno => exact unique_claim s a hno

theorem unique_reach (s0 s : Net) (hu : Unique s0) (hr : Reach s0 s) : Unique s := by
  induction hr with
  | refl => exact hu
  | step s s' _ st ih => exact unique_step s s' ih st


/-! ### Agreement -/

/-- What a station in the ring knows when the ring agrees on the member set `M`. -/
structure ViewOk (M : List Nat) (x : Nat) (r : TokenRing) : Prop where
  ts : r.ts = x
  valid : r.las = .valid
  las : LasIs r M
  nbr : Nbr r

/-- **Agreement**: the stations in the ring (ActiveIdle or holding) are exactly `M`, each has a
valid LAS equal to `M` with NS/PS derived from it, and `h` — a member — is the one token holder. -/
structure Agreed (s : Net) (M : List Nat) (h : Nat) : Prop where
  ring : IsRing M
  hmem : h ∈ M
  members : ∀ x, x ∈ M ↔ ∃ nx, s.node x = some nx ∧ nx.mode ≠ .listen
  view : ∀ x nx, s.node x = some nx → nx.mode ≠ .listen → ViewOk M x nx.ring ∧ nx.pend = none
  holder : ∀ x nx, s.node x = some nx → (nx.mode = .hold ↔ x = h)

/-- A view with LAS = `M` is unchanged (as far as `ViewOk` goes) by witnessing a member's pass to
its cyclic successor. -/
theorem viewOk_witness (M : List Nat) (hM : IsRing M) (x h : Nat) (r : TokenRing) (hh : h ∈ M) (v : ViewOk M x r) :
    ViewOk M x (r.witness h (cycSucc h M)) := by
  have hn := cycSucc_mem h M hh
  rw [witness_valid r h _ v.valid (hM.bound h hh) (hM.bound _ hn)]
  exact ⟨(updateLas_las r _ _).2.trans v.ts, (updateLas_las r _ _).1.trans v.valid,
    updateLas_succ_stable r M h v.las hh, updateLas_nbr r _ _⟩

theorem viewOk_ns (M : List Nat) (hM : IsRing M) (x : Nat) (r : TokenRing) (v : ViewOk M x r) :
    r.ns = cycSucc x M ∧ r.ps = cycPred x M := by
  have := nbr_lasIs r M v.nbr v.las hM.bound
  rw [v.ts] at this
  exact this

theorem agreed_holder_node (s : Net) (M : List Nat) (h : Nat) (ag : Agreed s M h) :
    ∃ nh, s.node h = some nh ∧ nh.mode = .hold ∧ nh.ring.ns = cycSucc h M := by
  obtain ⟨nh, e, hm⟩ := (ag.members h).mp ag.hmem
  exact ⟨nh, e, (ag.holder h nh e).mpr rfl, (viewOk_ns M ag.ring h nh.ring (ag.view h nh e hm).1).1⟩

theorem agreed_nsOf (s : Net) (M : List Nat) (h : Nat) (ag : Agreed s M h) : nsOf s h = cycSucc h M := by
  obtain ⟨nh, e, _, hns⟩ := agreed_holder_node s M h ag
  unfold nsOf; rw [e]; exact hns

/-- In an agreeing ring the successor takes the token at once (it is ActiveIdle and the sender is its PS). -/
theorem agreed_accepted (s : Net) (M : List Nat) (h : Nat) (ag : Agreed s M h) :
    accepted s h (cycSucc h M) = decide (cycSucc h M ≠ h) := by
  have hn := cycSucc_mem h M ag.hmem
  obtain ⟨nn, e, hm⟩ := (ag.members _).mp hn
  unfold accepted
  rw [e]
  unfold accepts
  by_cases c : cycSucc h M = h
  · simp [c]
  · have hidle : nn.mode = .idle := by
      have := ag.holder _ nn e
      cases hmode : nn.mode with
      | idle => rfl
      | listen => exact absurd hmode hm
      | hold => exact absurd (this.mp hmode) c
    have hps : nn.ring.ps = h := by
      rw [(viewOk_ns M ag.ring _ nn.ring (ag.view _ nn e hm).1).2]
      exact cycPred_cycSucc h M ag.ring.asc ag.hmem
    simp [c, hidle, hps]

/-- The exact effect of the holder's pass on every station of an agreeing ring. -/
theorem agreed_pass_node (s : Net) (M : List Nat) (h : Nat) (ag : Agreed s M h) (x : Nat) (nx : Node)
    (ex : s.node x = some nx) :
    (pass s h).node x = some (
      if x = h then { nx with ring := nx.ring.witness h (cycSucc h M),
                              mode := if cycSucc h M = h then .hold else .idle }
      else if x = cycSucc h M then { nx with mode := .hold, pend := none }
      else { nx with ring := nx.ring.witness h (cycSucc h M) }) := by
  obtain ⟨nh, e, hmode, hns⟩ := agreed_holder_node s M h ag
  rw [pass_eq s h nh e hmode, hns, passTo_node, ex, agreed_accepted s M h ag]
  simp only [Option.map_some, Option.some.injEq]
  unfold passNode
  by_cases c1 : x = h
  · subst c1
    rw [ex] at e; cases e
    rw [if_pos rfl, if_pos rfl]
    by_cases c : cycSucc x M = x
    · simp [c, hmode]
    · simp [c]
  · rw [if_neg c1, if_neg c1]
    by_cases c2 : x = cycSucc h M
    · rw [if_pos c2, if_pos c2]
      have hxm : x ∈ M := c2 ▸ cycSucc_mem h M ag.hmem
      obtain ⟨nx', e', hm⟩ := (ag.members x).mp hxm
      rw [ex] at e'; cases e'
      have hidle : nx.mode = .idle := by
        cases hmode' : nx.mode with
        | idle => rfl
        | listen => exact absurd hmode' hm
        | hold => exact absurd ((ag.holder x nx ex).mp hmode') c1
      have hps : nx.ring.ps = h := by
        rw [(viewOk_ns M ag.ring x nx.ring (ag.view x nx ex hm).1).2, c2]
        exact cycPred_cycSucc h M ag.ring.asc ag.hmem
      rw [hidle]
      simp only
      rw [if_pos hps]
    · rw [if_neg c2, if_neg c2]

/-- **Agreement is inductive under token passing**, and the token goes to the cyclic successor. -/
theorem agreed_pass (s : Net) (M : List Nat) (h : Nat) (ag : Agreed s M h) :
    Agreed (pass s h) M (cycSucc h M) := by
  have hn := cycSucc_mem h M ag.hmem
  have node' := agreed_pass_node s M h ag
  have dom : ∀ x, (pass s h).node x = none ↔ s.node x = none := by
    intro x
    obtain ⟨nh, e, hmode, _⟩ := agreed_holder_node s M h ag
    rw [pass_eq s h nh e hmode, passTo_node]
    cases s.node x <;> simp
  refine ⟨ag.ring, hn, fun x => ?_, fun x nx' ex' hm' => ?_, fun x nx' ex' => ?_⟩
  · rw [ag.members x]
    constructor
    · rintro ⟨nx, ex, hm⟩
      refine ⟨_, node' x nx ex, ?_⟩
      by_cases c1 : x = h
      · rw [if_pos c1]; simp only; split <;> simp
      · rw [if_neg c1]
        by_cases c2 : x = cycSucc h M
        · rw [if_pos c2]; simp
        · rw [if_neg c2]; exact hm
    · rintro ⟨nx', ex', hm'⟩
      cases ex : s.node x with
      | none => rw [(dom x).mpr ex] at ex'; cases ex'
      | some nx =>
        refine ⟨nx, rfl, ?_⟩
        rw [node' x nx ex] at ex'
        injection ex' with ex'
        subst ex'
        by_cases c1 : x = h
        · subst c1
          obtain ⟨nh, e, hmode, _⟩ := agreed_holder_node s M x ag
          rw [ex] at e; cases e
          rw [hmode]; simp
        · rw [if_neg c1] at hm'
          by_cases c2 : x = cycSucc h M
          · obtain ⟨nn, e, hmn⟩ := (ag.members x).mp (c2 ▸ hn)
            rw [ex] at e; cases e; exact hmn
          · rw [if_neg c2] at hm'; exact hm'
  · cases ex : s.node x with
    | none => rw [(dom x).mpr ex] at ex'; cases ex'
    | some nx =>
      rw [node' x nx ex] at ex'
      injection ex' with ex'
      subst ex'
      by_cases c1 : x = h
      · subst c1
        obtain ⟨nh, e, hmode, _⟩ := agreed_holder_node s M x ag
        rw [ex] at e; cases e
        have v := ag.view x nx ex (by rw [hmode]; simp)
        rw [if_pos rfl]
        exact ⟨viewOk_witness M ag.ring x x nx.ring ag.hmem v.1, v.2⟩
      · rw [if_neg c1] at hm' ⊢
        by_cases c2 : x = cycSucc h M
        · obtain ⟨nn, e, hmn⟩ := (ag.members x).mp (c2 ▸ hn)
          rw [ex] at e; cases e
          rw [if_pos c2]
          exact ⟨(ag.view x nx ex hmn).1, rfl⟩
        · rw [if_neg c2] at hm' ⊢
          have v := ag.view x nx ex hm'
          exact ⟨viewOk_witness M ag.ring x h nx.ring ag.hmem v.1, v.2⟩
  · cases ex : s.node x with
    | none => rw [(dom x).mpr ex] at ex'; cases ex'
    | some nx =>
      rw [node' x nx ex] at ex'
      injection ex' with ex'
      subst ex'
      by_cases c1 : x = h
      · subst c1
        rw [if_pos rfl]
        by_cases c : cycSucc x M = x
        · simp [c]
        · simp only [if_neg c]
          constructor
          · intro hc; cases hc
          · intro hc; exact absurd hc.symm c
      · rw [if_neg c1]
        by_cases c2 : x = cycSucc h M
        · rw [if_pos c2]; simp [c2]
        · rw [if_neg c2]
          simp only
          rw [ag.holder x nx ex]
          constructor
          · intro hc; exact absurd hc c1
          · intro hc; exact absurd hc c2


/-! ### Ascending rotation -/

/-- `k` passes in an agreeing ring: the token goes from the `i`-th member to the `i+1`-st, … ; the
telegrams on the bus are exactly these passes; agreement is kept throughout. -/
theorem agreed_rotate (M : List Nat) (k : Nat) : ∀ (s : Net) (i : Nat), Agreed s M (nth M i) →
    Agreed (rotate s (nth M i) k).1 M (nth M (i + k)) ∧ (rotate s (nth M i) k).2.1 = nth M (i + k) ∧
    (rotate s (nth M i) k).2.2 = (List.range k).map (fun j => (nth M (i + j), nth M (i + j + 1))) := by
  induction k with
  | zero => intro s i ag; exact ⟨ag, rfl, rfl⟩
  | succ k ih =>
    intro s i ag
    have hns : nsOf s (nth M i) = nth M (i + 1) := by
      rw [agreed_nsOf s M _ ag]; exact cycSucc_nth M ag.ring i
    have ag' : Agreed (pass s (nth M i)) M (nth M (i + 1)) := by
      have := agreed_pass s M _ ag
      rwa [cycSucc_nth M ag.ring i] at this
    have := ih (pass s (nth M i)) (i + 1) ag'
    simp only [rotate, hns]
    have e : i + 1 + k = i + (k + 1) := by omega
    rw [e] at this
    refine ⟨this.1, this.2.1, ?_⟩
    rw [this.2.2, List.range_succ_eq_map, List.map_cons, List.map_map]
    congr 1
    apply List.map_congr_left
    intro j _
    simp only [Function.comp, Nat.succ_eq_add_one]
    have e1 : i + 1 + j = i + (j + 1) := by omega
    rw [e1]


/-! ### Admission of a listener by the GAP sweep -/

/-- `a` is a listener (not in the ring) that has learned the ring `M` and is ready. -/
structure ReadyListener (s : Net) (M : List Nat) (a : Nat) : Prop where
  notMem : a ∉ M
  node : ∃ na, s.node a = some na ∧ na.mode = .listen ∧ ViewOk M a na.ring

/-- What stays fixed while the token circulates and `h` sweeps its GAP: the ring agrees on `M`
(holder `hd`), `a` is a ready listener, the addresses in `absent` are not on the bus, the GAP cursor
of `h` is `g`, HSA is `H`. -/
structure SweepInv (s : Net) (M : List Nat) (hd h a : Nat) (absent : List Nat) (g : Option Nat) (H : Nat) : Prop where
  agreed : Agreed s M hd
  listener : ReadyListener s M a
  absent : ∀ b ∈ absent, s.node b = none
  gap : ∀ nh, s.node h = some nh → nh.gap = g
  hsa : s.hsa = H

theorem pass_hsa (s : Net) (h : Nat) : (pass s h).hsa = s.hsa := by
  unfold pass; split
  · split <;> rfl
  · rfl

theorem pass_none (s : Net) (h b : Nat) (e : s.node b = none) : (pass s h).node b = none := by
  unfold pass; split
  · split
    · rw [passTo_node, e]; rfl
    · exact e
  · exact e

theorem sweepInv_pass (s : Net) (M : List Nat) (hd h a : Nat) (absent : List Nat) (g : Option Nat) (H : Nat)
    (inv : SweepInv s M hd h a absent g H) : SweepInv (pass s hd) M (cycSucc hd M) h a absent g H := by
  have node' := agreed_pass_node s M hd inv.agreed
  refine ⟨agreed_pass s M hd inv.agreed, ⟨inv.listener.notMem, ?_⟩, fun b hb => pass_none s hd b (inv.absent b hb),
    fun nh' e' => ?_, (pass_hsa s hd).trans inv.hsa⟩
  · obtain ⟨na, ea, hl, v⟩ := inv.listener.node
    have c1 : a ≠ hd := fun e => inv.listener.notMem (e ▸ inv.agreed.hmem)
    have c2 : a ≠ cycSucc hd M := fun e => inv.listener.notMem (e ▸ cycSucc_mem hd M inv.agreed.hmem)
    refine ⟨_, node' a na ea, ?_, ?_⟩
    · rw [if_neg c1, if_neg c2]; exact hl
    · rw [if_neg c1, if_neg c2]
      exact viewOk_witness M inv.agreed.ring a hd na.ring inv.agreed.hmem v
  · cases e : s.node h with
    | none => rw [pass_none s hd h e] at e'; cases e'
    | some nh =>
      rw [node' h nh e] at e'
      injection e' with e'
      subst e'
      have := inv.gap nh e
      split
      · exact this
      · split <;> exact this

theorem sweepInv_rotate (M : List Nat) (h a : Nat) (absent : List Nat) (g : Option Nat) (H : Nat) (k : Nat) :
    ∀ (s : Net) (i : Nat), SweepInv s M (nth M i) h a absent g H →
      SweepInv (rotate s (nth M i) k).1 M (nth M (i + k)) h a absent g H := by
  induction k with
  | zero => intro s i inv; exact inv
  | succ k ih =>
    intro s i inv
    have hns : nsOf s (nth M i) = nth M (i + 1) := by
      rw [agreed_nsOf s M _ inv.agreed]; exact cycSucc_nth M inv.agreed.ring i
    have inv' := sweepInv_pass s M _ h a absent g H inv
    rw [cycSucc_nth M inv.agreed.ring i] at inv'
    have := ih (pass s (nth M i)) (i + 1) inv'
    simp only [rotate, hns]
    have e : i + 1 + k = i + (k + 1) := by omega
    rwa [e] at this

theorem nth_add_length (M : List Nat) (i : Nat) : nth M (i + M.length) = nth M i := by
  unfold nth; rw [Nat.add_mod_right]

/-- Agreement only looks at mode, ring view and pending predecessor of every station. -/
theorem agreed_congr (s s' : Net) (M : List Nat) (h : Nat) (ag : Agreed s M h)
    (hc : ∀ x, (s'.node x = none ∧ s.node x = none) ∨
      ∃ nx nx', s.node x = some nx ∧ s'.node x = some nx' ∧ nx'.mode = nx.mode ∧ nx'.ring = nx.ring ∧ nx'.pend = nx.pend) :
    Agreed s' M h := by
  refine ⟨ag.ring, ag.hmem, fun x => ?_, fun x nx' ex' hm' => ?_, fun x nx' ex' => ?_⟩
  · rw [ag.members x]
    rcases hc x with ⟨e', e⟩ | ⟨nx, nx', e, e', hm, _, _⟩
    · rw [e, e']
    · rw [e, e']
      constructor
      · rintro ⟨n, en, hn⟩; cases en; exact ⟨nx', rfl, hm ▸ hn⟩
      · rintro ⟨n, en, hn⟩; cases en; exact ⟨nx, rfl, hm ▸ hn⟩
  · rcases hc x with ⟨e', e⟩ | ⟨nx, nx'', e, e', hm, hr, hp⟩
    · rw [e'] at ex'; cases ex'
    · rw [e'] at ex'; cases ex'
      have := ag.view x nx e (hm ▸ hm')
      rw [hr, hp]; exact this
  · rcases hc x with ⟨e', e⟩ | ⟨nx, nx'', e, e', hm, hr, hp⟩
    · rw [e'] at ex'; cases ex'
    · rw [e'] at ex'; cases ex'
      rw [hm]; exact ag.holder x nx e

/-- `InGap` is `Between` below HSA. -/
theorem inGap_between (ts ns hsa a : Nat) : InGap ts ns hsa a ↔ a < hsa ∧ Between ts ns a := by
  unfold InGap Between
  constructor
  · rintro ⟨h1, h2, h3⟩; exact ⟨h1, h2, h3⟩
  · rintro ⟨h1, h2, h3⟩; exact ⟨h1, h2, h3⟩

/-- A GAP poll of an address where no station is: only the cursor of `h` moves. -/
theorem sweepInv_gapPoll_absent (s : Net) (M : List Nat) (h a b : Nat) (absent : List Nat) (g : Option Nat) (H : Nat)
    (inv : SweepInv s M h h a absent g H) (hb : s.node b = none)
    (hp : nextGapPoll h (cycSucc h M) H (g.getD h) = .poll b) :
    SweepInv (gapPoll s h) M h h a absent (some b) H := by
  obtain ⟨nh, e, hmode, hns⟩ := agreed_holder_node s M h inv.agreed
  have hg := inv.gap nh e
  have hne : b ≠ h := fun c => by rw [c, e] at hb; cases hb
  have hresp : responds s h b = false := by unfold responds; rw [hb]
  have hnode : ∀ x, (gapPoll s h).node x = (s.node x).map (gapPollNode h b false x) := by
    intro x
    unfold gapPoll
    rw [e]
    simp only [hmode, if_true, hns, inv.hsa, hg, hp, hresp]
  have hother : ∀ x nx, x ≠ h → s.node x = some nx → (gapPoll s h).node x = some nx := by
    intro x nx hx ex
    rw [hnode, ex]
    simp only [Option.map_some, Option.some.injEq]
    unfold gapPollNode
    rw [if_neg hx]
    have : ¬ (x = b ∧ nx.mode = .listen ∧ nx.ring.readyForRing = true) := fun c => by
      rw [c.1, hb] at ex; cases ex
    rw [if_neg this]
  have hh : (gapPoll s h).node h = some { nh with gap := some b } := by
    rw [hnode, e]
    simp only [Option.map_some, Option.some.injEq]
    unfold gapPollNode
    rw [if_pos rfl]; rfl
  have hhsa : (gapPoll s h).hsa = s.hsa := by
    unfold gapPoll
    rw [e]
    simp only [hmode, if_true, hns, inv.hsa, hg, hp]
  refine ⟨?_, ⟨inv.listener.notMem, ?_⟩, fun c hc => ?_, fun nh' e' => ?_, hhsa.trans inv.hsa⟩
  · apply agreed_congr s _ M h inv.agreed
    intro x
    by_cases hx : x = h
    · subst hx
      exact Or.inr ⟨nh, _, e, hh, rfl, rfl, rfl⟩
    · cases ex : s.node x with
      | none => left; rw [hnode, ex]; exact ⟨rfl, rfl⟩
      | some nx => exact Or.inr ⟨nx, nx, rfl, hother x nx hx ex, rfl, rfl, rfl⟩
  · obtain ⟨na, ea, hl, v⟩ := inv.listener.node
    have c1 : a ≠ h := fun c => inv.listener.notMem (c ▸ inv.agreed.hmem)
    exact ⟨na, hother a na c1 ea, hl, v⟩
  · rw [hnode, inv.absent c hc]; rfl
  · rw [hh] at e'; cases e'; rfl


/-- The schedule of a GAP sweep: `k` token visits at `h`; on each visit `h` polls one GAP address,
then the token goes once round the ring (`len` passes) and is back at `h`. -/
def visits (s : Net) (h len : Nat) : Nat → Net
  | 0 => s
  | k + 1 => visits (rotate (gapPoll s h) h len).1 h len k

theorem sweepInv_absent_mono (s : Net) (M : List Nat) (hd h a : Nat) (l l' : List Nat) (g : Option Nat) (H : Nat)
    (inv : SweepInv s M hd h a l g H) (hsub : ∀ b ∈ l', b ∈ l) : SweepInv s M hd h a l' g H :=
  ⟨inv.agreed, inv.listener, fun b hb => inv.absent b (hsub b hb), inv.gap, inv.hsa⟩

/-- The poll that finds the ready listener `a` in the GAP of its predecessor `h`, followed by `h`'s
token pass: `h` adopts `a` as NS (`set_next_station`), `a` enters the ring (ActiveIdle) and takes the
token from its PS. -/
theorem gapPoll_admits (s : Net) (M : List Nat) (h a : Nat) (absent : List Nat) (g : Option Nat) (H : Nat)
    (inv : SweepInv s M h h a absent g H) (hbt : Between h (cycSucc h M) a) (ha : a < 128)
    (hp : nextGapPoll h (cycSucc h M) H (g.getD h) = .poll a) :
    (∃ nh, (pass (gapPoll s h) h).node h = some nh ∧ nh.mode = .idle ∧ nh.ring.ns = a) ∧
    (∃ na, (pass (gapPoll s h) h).node a = some na ∧ na.mode = .hold ∧ ViewOk M a na.ring) ∧
    (∃ nh, (gapPoll s h).node h = some nh ∧ nh.mode = .hold ∧ nh.ring.ns = a) := by
  obtain ⟨nh, e, hmode, hns⟩ := agreed_holder_node s M h inv.agreed
  have hv := (inv.agreed.view h nh e (by rw [hmode]; simp)).1
  have hg := inv.gap nh e
  obtain ⟨na, ea, hl, v⟩ := inv.listener.node
  have hne : a ≠ h := fun c => inv.listener.notMem (c ▸ inv.agreed.hmem)
  have hps : na.ring.ps = h := by
    rw [(viewOk_ns M inv.agreed.ring a na.ring v).2]
    exact cycPred_of_between h a M inv.agreed.hmem hbt
  have hready : na.ring.readyForRing = true := by simp [readyForRing, v.valid]
  have hresp : responds s h a = true := by
    unfold responds; rw [ea]; simp [hl, hready, hps]
  have hnode : ∀ x, (gapPoll s h).node x = (s.node x).map (gapPollNode h a true x) := by
    intro x
    unfold gapPoll
    rw [e]
    simp only [hmode, if_true, hns, inv.hsa, hg, hp, hresp]
  obtain ⟨r', hr'⟩ : ∃ r', nh.ring.setNextStation a = some r' := by
    unfold setNextStation; rw [if_neg (by omega)]; exact ⟨_, rfl⟩
  have hns' : r'.ns = a := setNextStation_ns nh.ring r' a hr' (by rw [hv.ts]; exact hne)
  have hh : (gapPoll s h).node h = some { nh with gap := some a, ring := r' } := by
    rw [hnode, e]
    simp only [Option.map_some, Option.some.injEq]
    unfold gapPollNode
    rw [if_pos rfl, hr']; rfl
  have haa : (gapPoll s h).node a = some { na with mode := .idle, pend := none } := by
    rw [hnode, ea]
    simp only [Option.map_some, Option.some.injEq]
    unfold gapPollNode
    rw [if_neg hne, if_pos ⟨rfl, hl, hready⟩]
  have hacc : accepted (gapPoll s h) h a = true := by
    unfold accepted; rw [haa]; unfold accepts; simp [hne, hps]
  refine ⟨?_, ?_, ⟨_, hh, hmode, hns'⟩⟩
  · rw [pass_eq _ h _ hh hmode]
    simp only [hns']
    rw [passTo_node, hh, hacc]
    refine ⟨_, rfl, ?_, ?_⟩
    · unfold passNode; rw [if_pos rfl]; rfl
    · unfold passNode; rw [if_pos rfl]
      show (r'.witness h a).ns = a
      have hnb : Nbr (r'.witness h a) := witness_nbr r' h a (setNextStation_nbr nh.ring r' a hr')
      have hr'v : r'.las = .valid := by
        have := hr'
        unfold setNextStation at this
        rw [if_neg (by omega)] at this
        injection this with this
        rw [← this, (updateLas_las _ _ _).1]; exact hv.valid
      have hts' : r'.ts = h := (setNextStation_ts nh.ring r' a hr').trans hv.ts
      have hh125 : h ≤ 125 := inv.agreed.ring.bound h inv.agreed.hmem
      by_cases ha125 : a ≤ 125
      · rw [witness_valid r' h a hr'v hh125 ha125]
        -- `a` stays entered and the range behind `h` stays clear
        have hnb0 := setNextStation_nbr nh.ring r' a hr'
        have hact : r'.isActive a = true := by
          have hs := (isCycSucc_iff _ _ _).mpr hnb0.1
          rw [hns', hts'] at hs
          have m := mem_activeList r'
          by_cases h1 : ∃ b ∈ r'.activeList, h < b
          · exact (m a).mp (hs.above h1).1
          · have hall : ∀ b ∈ r'.activeList, b ≤ h := fun b hb => by
              have : ¬ h < b := fun hlt => h1 ⟨b, hb, hlt⟩
              omega
            by_cases h2 : ∃ b, b ∈ r'.activeList
            · exact (m a).mp (hs.wrap hall h2).1
            · exact absurd (hs.alone fun b hb => h2 ⟨b, hb⟩) hne
        apply nbr_ns_of_gapfree _ a (updateLas_nbr r' h a)
        · rw [updateLas_active r' h a a ha]
          unfold passBit
          rw [if_neg hne]
          have : inPassGap h a a = false := by
            cases hc : inPassGap h a a with
            | false => rfl
            | true => rw [inPassGap_arith] at hc; omega
          rw [this]; simpa using hact
        · rw [(updateLas_las r' h a).2, hts']; exact hne
        · intro x hx
          rw [(updateLas_las r' h a).2, hts'] at hx
          by_cases hx128 : x < 128
          · rw [updateLas_active r' h a x hx128]
            unfold passBit
            rw [if_neg hx.1, if_pos (between_inPassGap _ _ _ hx)]
          · unfold isActive; rw [dif_neg hx128]
      · rw [witness_ignores_invalid r' h a (Or.inr (by omega))]; exact hns'
  · rw [pass_eq _ h _ hh hmode]
    simp only [hns']
    rw [passTo_node, haa, hacc]
    refine ⟨_, rfl, ?_, ?_⟩
    · unfold passNode; rw [if_neg hne, if_pos rfl]; simp only; rw [if_pos hps]
    · unfold passNode; rw [if_neg hne, if_pos rfl]; simp only; rw [if_pos hps]; exact v


theorem poll_inGap (ts ns hsa cur a : Nat) (hh : 0 < hsa) (hh2 : hsa ≤ 126) (hc : cur < hsa)
    (h : nextGapPoll ts ns hsa cur = .poll a) : InGap ts ns hsa a := by
  rw [nextGapPoll_eq ts ns hsa cur hh hh2 hc] at h
  split at h
  · cases h; assumption
  · cases h

/-- **Admission within one sweep.**  If the sweep of `h`'s GAP (as `sweepFrom` = iterated real
`next_gap_poll`) from the current cursor reaches the ready listener `a` after the addresses `pre`,
and no station is present at the addresses `pre`, then after `|pre|` token visits at `h` (one poll
each, one full rotation in between) the next poll finds `a`: `h` adopts it as NS and `h`'s token
pass hands it the token. -/
theorem listener_admitted_aux (M : List Nat) (h a H : Nat) (hH : H ≤ 126) (hh : h < H) (post : List Nat) :
    ∀ (pre : List Nat) (fuel : Nat) (s : Net) (g : Option Nat), SweepInv s M h h a pre g H → g.getD h < H →
      sweepFrom h (cycSucc h M) H fuel (g.getD h) = pre ++ a :: post →
      (∃ nh, (pass (gapPoll (visits s h M.length pre.length) h) h).node h = some nh ∧ nh.mode = .idle ∧ nh.ring.ns = a) ∧
      (∃ na, (pass (gapPoll (visits s h M.length pre.length) h) h).node a = some na ∧ na.mode = .hold ∧
        ViewOk M a na.ring) ∧
      (∃ nh, (gapPoll (visits s h M.length pre.length) h).node h = some nh ∧ nh.mode = .hold ∧ nh.ring.ns = a) := by
  intro pre
  induction pre with
  | nil =>
    intro fuel s g inv hcur hsw
    cases fuel with
    | zero => simp [sweepFrom] at hsw
    | succ f =>
      unfold sweepFrom at hsw
      cases hn : nextGapPoll h (cycSucc h M) H (g.getD h) with
      | poll x =>
        rw [hn] at hsw
        simp only [List.nil_append, List.cons.injEq] at hsw
        rw [hsw.1] at hn
        have hin := poll_inGap _ _ _ _ _ (by omega) hH hcur hn
        have hb := (inGap_between _ _ _ _).mp hin
        exact gapPoll_admits s M h a [] g H inv hb.2 (by omega) hn
      | waiting => rw [hn] at hsw; simp at hsw
      | panic => rw [hn] at hsw; simp at hsw
  | cons b pre' ih =>
    intro fuel s g inv hcur hsw
    cases fuel with
    | zero => simp [sweepFrom] at hsw
    | succ f =>
      unfold sweepFrom at hsw
      cases hn : nextGapPoll h (cycSucc h M) H (g.getD h) with
      | poll x =>
        rw [hn] at hsw
        simp only [List.cons_append, List.cons.injEq] at hsw
        rw [hsw.1] at hn
        have hin := poll_inGap _ _ _ _ _ (by omega) hH hcur hn
        have hbabs : s.node b = none := inv.absent b (by simp)
        have inv1 := sweepInv_gapPoll_absent s M h a b (b :: pre') g H inv hbabs hn
        obtain ⟨i, _, hi⟩ := mem_nth M h inv.agreed.hmem
        rw [← hi] at inv1
        have inv2 := sweepInv_rotate M (nth M i) a (b :: pre') (some b) H M.length _ i inv1
        rw [nth_add_length, hi] at inv2
        have inv3 := sweepInv_absent_mono _ M h h a (b :: pre') pre' (some b) H inv2 (fun c hc => by simp [hc])
        have hsw2 : sweepFrom h (cycSucc h M) H f ((some b).getD h) = pre' ++ a :: post := by
          rw [← hsw.2, hsw.1]; rfl
        have := ih f _ (some b) inv3 (by simpa using hin.1) hsw2
        simpa [visits] using this
      | waiting => rw [hn] at hsw; simp at hsw
      | panic => rw [hn] at hsw; simp at hsw


/-! ### After the admission: the enlarged ring agrees -/

theorem passTo_other (s : Net) (h n x : Nat) (nx : Node) (ex : s.node x = some nx) (c1 : x ≠ h) (c2 : x ≠ n) :
    (passTo s h n).node x = some { nx with ring := nx.ring.witness h n } := by
  rw [passTo_node, ex]; simp only [Option.map_some]; unfold passNode; rw [if_neg c1, if_neg c2]

theorem passTo_sender (s : Net) (h n : Nat) (nh : Node) (e : s.node h = some nh) :
    (passTo s h n).node h =
      some { nh with ring := nh.ring.witness h n, mode := if accepted s h n then .idle else nh.mode } := by
  rw [passTo_node, e]; simp only [Option.map_some]; unfold passNode; rw [if_pos rfl]

theorem passTo_target_ps (s : Net) (h n : Nat) (nn : Node) (e : s.node n = some nn) (c : n ≠ h)
    (hi : nn.mode = .idle) (hps : nn.ring.ps = h) :
    (passTo s h n).node n = some { nn with mode := .hold, pend := none } := by
  rw [passTo_node, e]; simp only [Option.map_some]; unfold passNode
  rw [if_neg c, if_pos rfl, hi]; simp only; rw [if_pos hps]

theorem passTo_target_pend (s : Net) (h n : Nat) (nn : Node) (e : s.node n = some nn) (c : n ≠ h)
    (hi : nn.mode = .idle) (hps : nn.ring.ps ≠ h) (hp : nn.pend = some h) :
    (passTo s h n).node n = some { nn with mode := .hold, ring := nn.ring.witness h n, pend := none } := by
  rw [passTo_node, e]; simp only [Option.map_some]; unfold passNode
  rw [if_neg c, if_pos rfl, hi]; simp only; rw [if_neg hps, if_pos hp]

theorem passTo_target_new (s : Net) (h n : Nat) (nn : Node) (e : s.node n = some nn) (c : n ≠ h)
    (hi : nn.mode = .idle) (hps : nn.ring.ps ≠ h) (hp : nn.pend ≠ some h) :
    (passTo s h n).node n = some { nn with pend := some h } := by
  rw [passTo_node, e]; simp only [Option.map_some]; unfold passNode
  rw [if_neg c, if_pos rfl, hi]; simp only; rw [if_neg hps, if_neg hp]

theorem passTo_none (s : Net) (h n x : Nat) : (passTo s h n).node x = none ↔ s.node x = none := by
  rw [passTo_node]; cases s.node x <;> simp

/-- Witnessing a pass `SA → DA` whose swept range holds no known member but SA: the view now knows
`X ∪ {SA}`. -/
theorem viewOk_witness_gen (X X' : List Nat) (x sa da : Nat) (r : TokenRing) (v : ViewOk X x r)
    (hsa : sa ≤ 125) (hda : da ≤ 125) (hfree : ∀ b ∈ X, inPassGap sa da b = true → b = sa)
    (hX' : ∀ y, y ∈ X' ↔ y = sa ∨ y ∈ X) : ViewOk X' x (r.witness sa da) := by
  rw [witness_valid r sa da v.valid hsa hda]
  exact ⟨(updateLas_las r _ _).2.trans v.ts, (updateLas_las r _ _).1.trans v.valid,
    updateLas_lasIs r X X' sa da v.las hfree hX', updateLas_nbr r _ _⟩

/-- `set_next_station(a)` on a view that knows `M`, for `a` in the own GAP: the view knows `M ∪ {a}`. -/
theorem viewOk_setNext (M M' : List Nat) (h a : Nat) (r r' : TokenRing) (v : ViewOk M h r) (hh : h ∈ M)
    (hbt : Between h (cycSucc h M) a) (hM' : ∀ y, y ∈ M' ↔ y = a ∨ y ∈ M)
    (e : r.setNextStation a = some r') : ViewOk M' h r' := by
  have hnb := setNextStation_nbr r r' a e
  have hts := setNextStation_ts r r' a e
  unfold setNextStation at e
  split at e
  · cases e
  · rename_i hlt
    injection e with e
    subst e
    refine ⟨hts.trans v.ts, (updateLas_las _ _ _).1.trans v.valid, ?_, hnb⟩
    have hl0 : LasIs { r with active := Vector.ofFn fun i => if i.val = a then true else r.active[i] } (a :: M) := by
      intro y hy
      have : isActive { r with active := Vector.ofFn fun i => if i.val = a then true else r.active[i] } y
          = (if y = a then true else r.isActive y) := by simp [isActive, hy]
      rw [this, v.las y hy]
      by_cases c : y = a <;> simp [c]
    rw [v.ts]
    apply updateLas_lasIs _ (a :: M) M' h a hl0
    · intro b hb hg
      simp only [List.mem_cons] at hb
      rcases hb with rfl | hb
      · rw [inPassGap_arith] at hg; have := hbt.1; omega
      · by_cases c : b = h
        · exact c
        · exact absurd (inPassGap_sub1 h _ a b hbt hg c) (no_member_between h _ M (cycSucc_spec h M) hh b hb)
    · intro y
      rw [hM', List.mem_cons]
      constructor
      · intro hy; exact Or.inr hy
      · rintro (rfl | hy)
        · exact Or.inr hh
        · exact hy


/-- The state right after the admitting poll and `h`'s token pass, station by station. -/
theorem admit_nodes (s : Net) (M : List Nat) (h a : Nat) (absent : List Nat) (g : Option Nat) (H : Nat)
    (inv : SweepInv s M h h a absent g H) (hbt : Between h (cycSucc h M) a) (ha : a < 128)
    (hp : nextGapPoll h (cycSucc h M) H (g.getD h) = .poll a) :
    ∃ nh na r', s.node h = some nh ∧ s.node a = some na ∧ ViewOk M a na.ring ∧ ViewOk M h nh.ring ∧ nh.pend = none ∧
      nh.ring.setNextStation a = some r' ∧
      (pass (gapPoll s h) h).node h = some { nh with gap := some a, ring := r'.witness h a, mode := .idle } ∧
      (pass (gapPoll s h) h).node a = some { na with mode := .hold, pend := none } ∧
      ∀ x, x ≠ h → x ≠ a →
        (pass (gapPoll s h) h).node x = (s.node x).map fun nx => { nx with ring := nx.ring.witness h a } := by
  obtain ⟨nh, e, hmode, hns⟩ := agreed_holder_node s M h inv.agreed
  have hv := inv.agreed.view h nh e (by rw [hmode]; simp)
  have hg := inv.gap nh e
  obtain ⟨na, ea, hl, v⟩ := inv.listener.node
  have hne : a ≠ h := fun c => inv.listener.notMem (c ▸ inv.agreed.hmem)
  have hps : na.ring.ps = h := by
    rw [(viewOk_ns M inv.agreed.ring a na.ring v).2]
    exact cycPred_of_between h a M inv.agreed.hmem hbt
  have hready : na.ring.readyForRing = true := by simp [readyForRing, v.valid]
  have hresp : responds s h a = true := by
    unfold responds; rw [ea]; simp [hl, hready, hps]
  have hnode : ∀ x, (gapPoll s h).node x = (s.node x).map (gapPollNode h a true x) := by
    intro x
    unfold gapPoll
    rw [e]
    simp only [hmode, if_true, hns, inv.hsa, hg, hp, hresp]
  obtain ⟨r', hr'⟩ : ∃ r', nh.ring.setNextStation a = some r' := by
    unfold setNextStation; rw [if_neg (by omega)]; exact ⟨_, rfl⟩
  have hns' : r'.ns = a := setNextStation_ns nh.ring r' a hr' (by rw [hv.1.ts]; exact hne)
  have hh : (gapPoll s h).node h = some { nh with gap := some a, ring := r' } := by
    rw [hnode, e]
    simp only [Option.map_some, Option.some.injEq]
    unfold gapPollNode
    rw [if_pos rfl, hr']; rfl
  have haa : (gapPoll s h).node a = some { na with mode := .idle, pend := none } := by
    rw [hnode, ea]
    simp only [Option.map_some, Option.some.injEq]
    unfold gapPollNode
    rw [if_neg hne, if_pos ⟨rfl, hl, hready⟩]
  have hoth : ∀ x, x ≠ h → x ≠ a → (gapPoll s h).node x = s.node x := by
    intro x c1 c2
    rw [hnode]
    cases ex : s.node x with
    | none => rfl
    | some nx =>
      simp only [Option.map_some, Option.some.injEq]
      unfold gapPollNode
      rw [if_neg c1, if_neg (fun c => c2 c.1)]
  have hacc : accepted (gapPoll s h) h a = true := by
    unfold accepted; rw [haa]; unfold accepts; simp [hne, hps]
  have hpass : pass (gapPoll s h) h = passTo (gapPoll s h) h a := by
    rw [pass_eq _ h _ hh hmode]
    show passTo (gapPoll s h) h r'.ns = _
    rw [hns']
  refine ⟨nh, na, r', e, ea, v, hv.1, hv.2, hr', ?_, ?_, ?_⟩
  · rw [hpass, passTo_sender _ h a _ hh, hacc]; rfl
  · rw [hpass, passTo_target_ps _ h a _ haa hne rfl hps]
  · intro x c1 c2
    rw [hpass]
    cases ex : s.node x with
    | none =>
      have : (gapPoll s h).node x = none := by rw [hoth x c1 c2, ex]
      rw [(passTo_none _ h a x).mpr this]; rfl
    | some nx =>
      have : (gapPoll s h).node x = some nx := by rw [hoth x c1 c2, ex]
      rw [passTo_other _ h a x nx this c1 c2]; rfl


/-- The ring right after the admission of `a` by `h`: `a` holds the token, `h` already knows
`M' = M ∪ {a}`, everybody else (including `a`) still knows `M`. -/
structure Admitted (s : Net) (M M' : List Nat) (h a : Nat) : Prop where
  ring : IsRing M
  ring' : IsRing M'
  mem' : ∀ x, x ∈ M' ↔ x = a ∨ x ∈ M
  hmem : h ∈ M
  notMem : a ∉ M
  between : Between h (cycSucc h M) a
  members : ∀ x, x ∈ M' ↔ ∃ nx, s.node x = some nx ∧ nx.mode ≠ .listen
  holder : ∀ x nx, s.node x = some nx → (nx.mode = .hold ↔ x = a)
  view : ∀ x nx, s.node x = some nx → nx.mode ≠ .listen →
    nx.pend = none ∧ (if x = h then ViewOk M' x nx.ring else ViewOk M x nx.ring)

theorem admitted_state (s : Net) (M M' : List Nat) (h a : Nat) (absent : List Nat) (g : Option Nat) (H : Nat)
    (inv : SweepInv s M h h a absent g H) (hbt : Between h (cycSucc h M) a)
    (hp : nextGapPoll h (cycSucc h M) H (g.getD h) = .poll a)
    (hM' : IsRing M') (hmem' : ∀ x, x ∈ M' ↔ x = a ∨ x ∈ M) :
    Admitted (pass (gapPoll s h) h) M M' h a := by
  have ag := inv.agreed
  have haM' : a ∈ M' := (hmem' a).mpr (Or.inl rfl)
  have ha125 : a ≤ 125 := hM'.bound a haM'
  have hh125 : h ≤ 125 := ag.ring.bound h ag.hmem
  have hne : a ≠ h := fun c => inv.listener.notMem (c ▸ ag.hmem)
  obtain ⟨nh, na, r', e, ea, va, vh, hpend, hr', nodeH, nodeA, nodeO⟩ :=
    admit_nodes s M h a absent g H inv hbt (by omega) hp
  refine ⟨ag.ring, hM', hmem', ag.hmem, inv.listener.notMem, hbt, fun x => ?_, fun x nx' ex' => ?_,
    fun x nx' ex' hm' => ?_⟩
  · by_cases c1 : x = h
    · subst c1
      rw [nodeH]
      constructor
      · intro _; exact ⟨_, rfl, by simp⟩
      · intro _; exact (hmem' x).mpr (Or.inr ag.hmem)
    · by_cases c2 : x = a
      · subst c2
        rw [nodeA]
        constructor
        · intro _; exact ⟨_, rfl, by simp⟩
        · intro _; exact haM'
      · rw [nodeO x c1 c2, hmem', ag.members x]
        constructor
        · rintro (hx | ⟨nx, ex, hm⟩)
          · exact absurd hx c2
          · exact ⟨{ nx with ring := nx.ring.witness h a }, by rw [ex]; rfl, hm⟩
        · rintro ⟨nx', ex', hm'⟩
          right
          cases ex : s.node x with
          | none => rw [ex] at ex'; cases ex'
          | some nx =>
            rw [ex] at ex'
            simp only [Option.map_some, Option.some.injEq] at ex'
            subst ex'
            exact ⟨nx, rfl, hm'⟩
  · by_cases c1 : x = h
    · subst c1
      rw [nodeH] at ex'; injection ex' with ex'; subst ex'
      constructor
      · intro hc; cases hc
      · intro hc; exact absurd hc.symm hne
    · by_cases c2 : x = a
      · subst c2
        rw [nodeA] at ex'; injection ex' with ex'; subst ex'
        simp
      · rw [nodeO x c1 c2] at ex'
        cases ex : s.node x with
        | none => rw [ex] at ex'; cases ex'
        | some nx =>
          rw [ex] at ex'
          simp only [Option.map_some, Option.some.injEq] at ex'
          subst ex'
          simp only
          rw [ag.holder x nx ex]
          constructor
          · intro hc; exact absurd hc c1
          · intro hc; exact absurd hc c2
  · by_cases c1 : x = h
    · subst c1
      rw [nodeH] at ex'; injection ex' with ex'; subst ex'
      rw [if_pos rfl]
      refine ⟨hpend, ?_⟩
      have v1 := viewOk_setNext M M' x a nh.ring r' vh ag.hmem hbt hmem' hr'
      exact viewOk_witness_gen M' M' x x a r' v1 hh125 ha125 (free_ha' M M' x a ag.hmem hbt hmem')
        (fun y => ⟨Or.inr, fun hy => hy.elim (fun c => c ▸ (hmem' x).mpr (Or.inr ag.hmem)) id⟩)
    · rw [if_neg c1]
      by_cases c2 : x = a
      · subst c2
        rw [nodeA] at ex'; injection ex' with ex'; subst ex'
        exact ⟨rfl, va⟩
      · rw [nodeO x c1 c2] at ex'
        cases ex : s.node x with
        | none => rw [ex] at ex'; cases ex'
        | some nx =>
          rw [ex] at ex'
          simp only [Option.map_some, Option.some.injEq] at ex'
          subst ex'
          have v := ag.view x nx ex hm'
          refine ⟨v.2, ?_⟩
          exact viewOk_witness_gen M M x h a nx.ring v.1 hh125 ha125 (free_ha M h a ag.hmem hbt)
            (fun y => ⟨Or.inr, fun hy => hy.elim (fun c => c ▸ ag.hmem) id⟩)

/-- Agreement from a station-by-station description. -/
theorem agreed_of_nodes (s : Net) (M : List Nat) (hd : Nat) (hM : IsRing M) (hhd : hd ∈ M)
    (f : ∀ x, x ∈ M → ∃ nx, s.node x = some nx ∧ nx.mode ≠ .listen ∧ (nx.mode = .hold ↔ x = hd) ∧
      ViewOk M x nx.ring ∧ nx.pend = none)
    (g : ∀ x, x ∉ M → ∀ nx, s.node x = some nx → nx.mode = .listen) : Agreed s M hd := by
  refine ⟨hM, hhd, fun x => ⟨fun hx => ?_, fun ⟨nx, ex, hm⟩ => ?_⟩, fun x nx ex hm => ?_, fun x nx ex => ?_⟩
  · obtain ⟨nx, ex, hm, _⟩ := f x hx; exact ⟨nx, ex, hm⟩
  · by_cases hx : x ∈ M
    · exact hx
    · exact absurd (g x hx nx ex) hm
  · by_cases hx : x ∈ M
    · obtain ⟨nx', ex', _, _, v, p⟩ := f x hx
      rw [ex] at ex'; cases ex'; exact ⟨v, p⟩
    · exact absurd (g x hx nx ex) hm
  · by_cases hx : x ∈ M
    · obtain ⟨nx', ex', _, hh, _⟩ := f x hx
      rw [ex] at ex'; cases ex'; exact hh
    · have := g x hx nx ex
      constructor
      · intro hc; rw [this] at hc; cases hc
      · intro hc; exact absurd (hc ▸ hhd) hx


/-- Witnessing the new member's pass `a → n` completes any view that knows `M` or already `M ∪ {a}`. -/
theorem viewOk_an (M M' : List Nat) (h a x : Nat) (r : TokenRing) (hM' : IsRing M') (hM : IsRing M) (hh : h ∈ M)
    (hbt : Between h (cycSucc h M) a) (hmem' : ∀ y, y ∈ M' ↔ y = a ∨ y ∈ M)
    (v : ViewOk M x r ∨ ViewOk M' x r) : ViewOk M' x (r.witness a (cycSucc h M)) := by
  have ha125 : a ≤ 125 := hM'.bound a ((hmem' a).mpr (Or.inl rfl))
  have hn125 : cycSucc h M ≤ 125 := hM.bound _ (cycSucc_mem h M hh)
  rcases v with v | v
  · exact viewOk_witness_gen M M' x a _ r v ha125 hn125 (free_an M h a hh hbt) hmem'
  · exact viewOk_witness_gen M' M' x a _ r v ha125 hn125 (free_an' M M' h a hh hbt hmem')
      (fun y => ⟨Or.inr, fun hy => hy.elim (fun c => c ▸ (hmem' a).mpr (Or.inl rfl)) id⟩)

/-- **The enlarged ring agrees.**  From the state right after the admission, the new member's own
token pass to its NS (= the old NS of `h`) makes every station's LAS `M ∪ {a}`: if that NS is `h`
itself (two-station ring) `h` already knows `a` as its PS and accepts at once; otherwise the NS sees
an unknown sender, waits for the repetition, and accepts the second pass. -/
theorem admitted_agrees (s : Net) (M M' : List Nat) (h a : Nat) (ad : Admitted s M M' h a) :
    (cycSucc h M = h → Agreed (pass s a) M' h) ∧
    (cycSucc h M ≠ h → Agreed (pass (pass s a) a) M' (cycSucc h M)) := by
  have haM' : a ∈ M' := (ad.mem' a).mpr (Or.inl rfl)
  have hhM' : h ∈ M' := (ad.mem' h).mpr (Or.inr ad.hmem)
  have hne : a ≠ h := fun c => ad.notMem (c ▸ ad.hmem)
  have hnM : cycSucc h M ∈ M := cycSucc_mem h M ad.hmem
  have hnM' : cycSucc h M ∈ M' := (ad.mem' _).mpr (Or.inr hnM)
  have hna : cycSucc h M ≠ a := fun c => ad.notMem (c ▸ hnM)
  obtain ⟨na, ea, hma⟩ := (ad.members a).mp haM'
  have hhold : na.mode = .hold := (ad.holder a na ea).mpr rfl
  have va := ad.view a na ea hma
  rw [if_neg hne] at va
  have hnsa : na.ring.ns = cycSucc h M := by
    rw [(viewOk_ns M ad.ring a _ va.2).1]; exact cycSucc_of_between h a M ad.hmem ad.between
  have hpass : pass s a = passTo s a (cycSucc h M) := by rw [pass_eq s a na ea hhold, hnsa]
  have idle : ∀ x nx, s.node x = some nx → nx.mode ≠ .listen → x ≠ a → nx.mode = .idle := by
    intro x nx ex hm hx
    cases hmode : nx.mode with
    | idle => rfl
    | listen => exact absurd hmode hm
    | hold => exact absurd ((ad.holder x nx ex).mp hmode) hx
  have outside : ∀ x, x ∉ M' → ∀ nx, s.node x = some nx → nx.mode = .listen := by
    intro x hx nx ex
    cases hmode : nx.mode with
    | listen => rfl
    | idle => exact absurd ((ad.members x).mpr ⟨nx, ex, by rw [hmode]; simp⟩) hx
    | hold => exact absurd ((ad.members x).mpr ⟨nx, ex, by rw [hmode]; simp⟩) hx
  have van := fun x r v => viewOk_an M M' h a x r ad.ring' ad.ring ad.hmem ad.between ad.mem' v
  have oldview : ∀ x nx, s.node x = some nx → nx.mode ≠ .listen → ViewOk M x nx.ring ∨ ViewOk M' x nx.ring := by
    intro x nx ex hm
    have := (ad.view x nx ex hm).2
    by_cases c : x = h
    · rw [if_pos c] at this; exact Or.inr this
    · rw [if_neg c] at this; exact Or.inl this
  constructor
  · -- two-station case: the old NS of `h` is `h` itself
    intro hc
    obtain ⟨nh, eh, hmh⟩ := (ad.members h).mp hhM'
    have hidle := idle h nh eh hmh hne.symm
    have vh := ad.view h nh eh hmh
    rw [if_pos rfl] at vh
    have hps : nh.ring.ps = a := by
      rw [(viewOk_ns M' ad.ring' h _ vh.2).2]
      have := cycPred_cycSucc a M' ad.ring'.asc haM'
      rwa [cycSucc_enlarged M M' h a ad.hmem ad.between ad.mem', hc] at this
    have hacc : accepted s a h = true := by
      unfold accepted; rw [eh]; unfold accepts; simp [hne.symm, hidle, hps]
    rw [hpass, hc]
    rw [hc] at van
    apply agreed_of_nodes _ M' h ad.ring' hhM'
    · intro x hx
      by_cases c1 : x = a
      · subst c1
        refine ⟨_, passTo_sender s x h na ea, ?_, ?_, van x _ (Or.inl va.2), va.1⟩
        · rw [hacc]; simp
        · rw [hacc]; simp only [if_true]
          constructor
          · intro c; cases c
          · intro c; exact absurd c hne
      · by_cases c2 : x = h
        · subst c2
          exact ⟨_, passTo_target_ps s a x nh eh hne.symm hidle hps, by simp, by simp, vh.2, rfl⟩
        · obtain ⟨nx, ex, hm⟩ := (ad.members x).mp hx
          refine ⟨_, passTo_other s a h x nx ex c1 c2, hm, ?_, van x _ (oldview x nx ex hm), (ad.view x nx ex hm).1⟩
          rw [idle x nx ex hm c1]
          constructor
          · intro c; cases c
          · intro c; exact absurd c c2
    · intro x hx nx' ex'
      have c1 : x ≠ a := fun c => hx (c ▸ haM')
      have c2 : x ≠ h := fun c => hx (c ▸ hhM')
      cases ex : s.node x with
      | none => rw [(passTo_none s a h x).mpr ex] at ex'; cases ex'
      | some nx =>
        rw [passTo_other s a h x nx ex c1 c2] at ex'
        injection ex' with ex'; subst ex'
        exact outside x hx nx ex
  · -- general case: the NS `n` of the new member does not know it yet
    intro hc
    obtain ⟨nn, en, hmn⟩ := (ad.members _).mp hnM'
    have hidle := idle _ nn en hmn hna
    have vn := ad.view _ nn en hmn
    rw [if_neg hc] at vn
    have hpsn : nn.ring.ps = h := by
      rw [(viewOk_ns M ad.ring _ _ vn.2).2]; exact cycPred_cycSucc h M ad.ring.asc ad.hmem
    have hpsn' : nn.ring.ps ≠ a := by rw [hpsn]; exact hne.symm
    have hpend' : nn.pend ≠ some a := by rw [vn.1]; simp
    have hacc1 : accepted s a (cycSucc h M) = false := by
      unfold accepted; rw [en]; unfold accepts; simp [hpsn', vn.1]
    -- first attempt
    have n3a := passTo_sender s a (cycSucc h M) na ea
    rw [hacc1] at n3a
    have n3n := passTo_target_new s a _ nn en hna hidle hpsn' hpend'
    have va3 : ViewOk M' a (na.ring.witness a (cycSucc h M)) := van a _ (Or.inl va.2)
    have hpass2 : pass (passTo s a (cycSucc h M)) a = passTo (passTo s a (cycSucc h M)) a (cycSucc h M) := by
      rw [pass_eq _ a _ n3a (by simpa using hhold)]
      show passTo _ a (na.ring.witness a (cycSucc h M)).ns = _
      rw [(viewOk_ns M' ad.ring' a _ va3).1, cycSucc_enlarged M M' h a ad.hmem ad.between ad.mem']
    have hacc2 : accepted (passTo s a (cycSucc h M)) a (cycSucc h M) = true := by
      unfold accepted; rw [n3n]; unfold accepts; simp [hna, hidle]
    rw [hpass, hpass2]
    apply agreed_of_nodes _ M' _ ad.ring' hnM'
    · intro x hx
      by_cases c1 : x = a
      · subst c1
        refine ⟨_, passTo_sender _ x _ _ n3a, ?_, ?_, van x _ (Or.inr va3), va.1⟩
        · rw [hacc2]; simp
        · rw [hacc2]; simp only [if_true]
          constructor
          · intro c; cases c
          · intro c; exact absurd c.symm hna
      · by_cases c2 : x = cycSucc h M
        · rw [c2]
          refine ⟨_, passTo_target_pend _ a _ _ n3n hna hidle hpsn' rfl, by simp, by simp, ?_, rfl⟩
          exact van _ _ (Or.inl vn.2)
        · obtain ⟨nx, ex, hm⟩ := (ad.members x).mp hx
          have e3 := passTo_other s a _ x nx ex c1 c2
          refine ⟨_, passTo_other _ a _ x _ e3 c1 c2, hm, ?_, ?_, (ad.view x nx ex hm).1⟩
          · show nx.mode = .hold ↔ _
            rw [idle x nx ex hm c1]
            constructor
            · intro c; cases c
            · intro c; exact absurd c c2
          · exact van x _ (Or.inr (van x _ (oldview x nx ex hm)))
    · intro x hx nx' ex'
      have c1 : x ≠ a := fun c => hx (c ▸ haM')
      have c2 : x ≠ cycSucc h M := fun c => hx (c ▸ hnM')
      cases ex : s.node x with
      | none =>
        rw [(passTo_none _ a _ x).mpr ((passTo_none s a _ x).mpr ex)] at ex'; cases ex'
      | some nx =>
        rw [passTo_other _ a _ x _ (passTo_other s a _ x nx ex c1 c2) c1 c2] at ex'
        injection ex' with ex'; subst ex'
        exact outside x hx nx ex


/-- The sweep schedule reaches the poll of `a` with everything still in place. -/
theorem sweep_reaches (M : List Nat) (h a H : Nat) (hH : H ≤ 126) (hh : h < H) (post : List Nat) :
    ∀ (pre : List Nat) (fuel : Nat) (s : Net) (g : Option Nat), SweepInv s M h h a pre g H → g.getD h < H →
      sweepFrom h (cycSucc h M) H fuel (g.getD h) = pre ++ a :: post →
      ∃ g', SweepInv (visits s h M.length pre.length) M h h a [] g' H ∧
        nextGapPoll h (cycSucc h M) H (g'.getD h) = .poll a ∧ Between h (cycSucc h M) a ∧ a < H := by
  intro pre
  induction pre with
  | nil =>
    intro fuel s g inv hcur hsw
    cases fuel with
    | zero => simp [sweepFrom] at hsw
    | succ f =>
      unfold sweepFrom at hsw
      cases hn : nextGapPoll h (cycSucc h M) H (g.getD h) with
      | poll x =>
        rw [hn] at hsw
        simp only [List.nil_append, List.cons.injEq] at hsw
        rw [hsw.1] at hn
        have hin := poll_inGap _ _ _ _ _ (by omega) hH hcur hn
        have hb := (inGap_between _ _ _ _).mp hin
        exact ⟨g, inv, hn, hb.2, hb.1⟩
      | waiting => rw [hn] at hsw; simp at hsw
      | panic => rw [hn] at hsw; simp at hsw
  | cons b pre' ih =>
    intro fuel s g inv hcur hsw
    cases fuel with
    | zero => simp [sweepFrom] at hsw
    | succ f =>
      unfold sweepFrom at hsw
      cases hn : nextGapPoll h (cycSucc h M) H (g.getD h) with
      | poll x =>
        rw [hn] at hsw
        simp only [List.cons_append, List.cons.injEq] at hsw
        rw [hsw.1] at hn
        have hin := poll_inGap _ _ _ _ _ (by omega) hH hcur hn
        have hbabs : s.node b = none := inv.absent b (by simp)
        have inv1 := sweepInv_gapPoll_absent s M h a b (b :: pre') g H inv hbabs hn
        obtain ⟨i, _, hi⟩ := mem_nth M h inv.agreed.hmem
        rw [← hi] at inv1
        have inv2 := sweepInv_rotate M (nth M i) a (b :: pre') (some b) H M.length _ i inv1
        rw [nth_add_length, hi] at inv2
        have inv3 := sweepInv_absent_mono _ M h h a (b :: pre') pre' (some b) H inv2 (fun c hc => by simp [hc])
        have hsw2 : sweepFrom h (cycSucc h M) H f ((some b).getD h) = pre' ++ a :: post := by
          rw [← hsw.2, hsw.1]; rfl
        have := ih f _ (some b) inv3 (by simpa using hin.1) hsw2
        simpa [visits] using this
      | waiting => rw [hn] at hsw; simp at hsw
      | panic => rw [hn] at hsw; simp at hsw

end AbstractRing
end PV
