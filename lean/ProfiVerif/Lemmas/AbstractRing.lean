/-
Lemmas about the abstract ring (`Model/AbstractRing.lean`): token uniqueness, the agreement
invariant, ascending rotation, admission of a listener by the GAP sweep.
The abstract ring is an idealisation (see the header of the model file); the station views in it
are real `TokenRing` models changed only through the modelled API, and the GAP cursor is the real
`nextGapPoll`, so the LAS/neighbour/GAP theorems of C02/C12 are what these proofs rest on.
-/
import ProfiVerif.Model.AbstractRing
import ProfiVerif.Lemmas.Neighbours
import ProfiVerif.Lemmas.RingPass
import ProfiVerif.Lemmas.Gap

namespace PV
namespace AbstractRing
open TokenRing

/-! ### Token uniqueness -/

/-- At most one station holds the token. -/
def Unique (s : Net) : Prop :=
  ∀ x y nx ny, s.node x = some nx → s.node y = some ny → nx.mode = .hold → ny.mode = .hold → x = y

theorem pass_eq (s : Net) (h : Nat) (nh : Node) (e : s.node h = some nh) (hm : nh.mode = .hold) :
    pass s h = passTo s h nh.ring.ns := by
  unfold pass; rw [e]; simp [hm]

theorem passTo_node (s : Net) (h n x : Nat) :
    (passTo s h n).node x = (s.node x).map (passNode h n (accepted s h n) x) := rfl

/-- Who can hold the token after the telegram `h → n`. -/
theorem passNode_hold (h n : Nat) (acc : Bool) (x : Nat) (nx : Node) (hh : (passNode h n acc x nx).mode = .hold) :
    (x = h ∧ acc = false ∧ nx.mode = .hold) ∨ (x ≠ h ∧ nx.mode = .hold) ∨ (x ≠ h ∧ accepts h n x nx = true) := by
  unfold passNode at hh
  by_cases hx : x = h
  · rw [if_pos hx] at hh
    left
    cases acc with
    | true => simp at hh
    | false => exact ⟨hx, rfl, by simpa using hh⟩
  · rw [if_neg hx] at hh
    right
    by_cases hn : x = n
    · subst hn
      rw [if_pos rfl] at hh
      cases hm : nx.mode with
      | hold => exact Or.inl ⟨hx, rfl⟩
      | listen => rw [hm] at hh; simp [hm] at hh
      | idle =>
        right
        rw [hm] at hh
        simp only at hh
        refine ⟨hx, ?_⟩
        unfold accepts
        by_cases h1 : nx.ring.ps = h
        · simp [hx, hm, h1]
        · rw [if_neg h1] at hh
          by_cases h2 : nx.pend = some h
          · simp [hx, hm, h2]
          · rw [if_neg h2] at hh; simp [hm] at hh
    · rw [if_neg hn] at hh
      exact Or.inl ⟨hx, hh⟩

theorem accepts_eq (h n x : Nat) (nx : Node) (ha : accepts h n x nx = true) : x = n := by
  unfold accepts at ha
  simp only [Bool.and_eq_true, decide_eq_true_eq] at ha
  exact ha.1.1.1

theorem unique_passTo (s : Net) (h n : Nat) (nh : Node) (e : s.node h = some nh) (hm : nh.mode = .hold)
    (hu : Unique s) : Unique (passTo s h n) := by
  intro x y nx' ny' ex ey hx hy
  rw [passTo_node] at ex ey
  cases e1 : s.node x with
  | none => rw [e1] at ex; cases ex
  | some nx =>
  cases e2 : s.node y with
  | none => rw [e2] at ey; cases ey
  | some ny =>
  rw [e1] at ex; rw [e2] at ey
  simp only [Option.map_some, Option.some.injEq] at ex ey
  subst ex; subst ey
  have a := passNode_hold _ _ _ _ _ hx
  have b := passNode_hold _ _ _ _ _ hy
  have old : ∀ z nz, s.node z = some nz → nz.mode = .hold → z = h := fun z nz ez hz => hu z h nz nh ez e hz hm
  have accd : ∀ z nz, s.node z = some nz → accepts h n z nz = true → accepted s h n = true := by
    intro z nz ez hz
    have : z = n := accepts_eq _ _ _ _ hz
    subst this
    unfold accepted; rw [ez]; exact hz
  rcases a with ⟨rfl, a1, _⟩ | ⟨a1, a2⟩ | ⟨a1, a2⟩
  · rcases b with ⟨rfl, _, _⟩ | ⟨b1, b2⟩ | ⟨b1, b2⟩
    · rfl
    · exact absurd (old y ny e2 b2) b1
    · rw [accd y ny e2 b2] at a1; cases a1
  · exact absurd (old x nx e1 a2) a1
  · rcases b with ⟨rfl, b1, _⟩ | ⟨b1, b2⟩ | ⟨b1, b2⟩
    · rw [accd x nx e1 a2] at b1; cases b1
    · exact absurd (old y ny e2 b2) b1
    · rw [accepts_eq _ _ _ _ a2, accepts_eq _ _ _ _ b2]

/-- A step that creates no new holder keeps the token unique. -/
theorem unique_of_hold_sub (s s' : Net) (hu : Unique s)
    (hsub : ∀ x nx', s'.node x = some nx' → nx'.mode = .hold → ∃ nx, s.node x = some nx ∧ nx.mode = .hold) :
    Unique s' := by
  intro x y nx' ny' ex ey hx hy
  obtain ⟨nx, e1, h1⟩ := hsub x nx' ex hx
  obtain ⟨ny, e2, h2⟩ := hsub y ny' ey hy
  exact hu x y nx ny e1 e2 h1 h2

theorem gapPollNode_mode_hold (h a : Nat) (resp : Bool) (x : Nat) (nx : Node)
    (hh : (gapPollNode h a resp x nx).mode = .hold) : nx.mode = .hold := by
  unfold gapPollNode at hh
  split at hh
  · exact hh
  · split at hh
    · cases hh
    · exact hh

theorem unique_gapPoll (s : Net) (h : Nat) (hu : Unique s) : Unique (gapPoll s h) := by
  unfold gapPoll
  split
  · rename_i nh e
    split
    · split
      · apply unique_of_hold_sub s _ hu
        intro x nx' ex hx
        simp only at ex
        cases e1 : s.node x with
        | none => rw [e1] at ex; cases ex
        | some nx =>
          rw [e1] at ex
          simp only [Option.map_some, Option.some.injEq] at ex
          subst ex
          exact ⟨nx, rfl, gapPollNode_mode_hold _ _ _ _ _ hx⟩
      · apply unique_of_hold_sub s _ hu
        intro x nx' ex hx
        simp only at ex
        by_cases hxh : x = h
        · rw [if_pos hxh] at ex
          cases ex
          exact ⟨nh, hxh ▸ e, hx⟩
        · rw [if_neg hxh] at ex
          exact ⟨nx', ex, hx⟩
      · exact hu
    · exact hu
  · exact hu

theorem unique_dropNs (s : Net) (h : Nat) (hu : Unique s) : Unique (dropNs s h) := by
  unfold dropNs
  split
  · rename_i nh e
    split
    · apply unique_of_hold_sub s _ hu
      intro x nx' ex hx
      simp only at ex
      by_cases hxh : x = h
      · rw [if_pos hxh] at ex
        cases ex
        exact ⟨nh, hxh ▸ e, hx⟩
      · rw [if_neg hxh] at ex
        exact ⟨nx', ex, hx⟩
    · exact hu
  · exact hu

theorem unique_leave (s : Net) (a : Nat) (hu : Unique s) : Unique (leave s a) := by
  apply unique_of_hold_sub s _ hu
  intro x nx' ex hx
  unfold leave at ex
  simp only at ex
  by_cases hxa : x = a
  · rw [if_pos hxa] at ex; cases ex
  · rw [if_neg hxa] at ex; exact ⟨nx', ex, hx⟩

theorem unique_join (s : Net) (a : Nat) (hu : Unique s) : Unique (join s a) := by
  apply unique_of_hold_sub s _ hu
  intro x nx' ex hx
  unfold join at ex
  simp only at ex
  by_cases hxa : x = a
  · rw [if_pos hxa] at ex; cases ex; cases hx
  · rw [if_neg hxa] at ex; exact ⟨nx', ex, hx⟩

theorem unique_claim (s : Net) (a : Nat) (hno : ∀ x nx, s.node x = some nx → nx.mode ≠ .hold) :
    Unique (claim s a) := by
  unfold claim
  split
  · intro x y nx' ny' ex ey hx hy
    simp only at ex ey
    by_cases hxa : x = a
    · by_cases hya : y = a
      · rw [hxa, hya]
      · rw [if_neg hya] at ey; exact absurd hy (hno y ny' ey)
    · rw [if_neg hxa] at ex; exact absurd hx (hno x nx' ex)
  · intro x y nx ny ex ey hx _
    exact absurd hx (hno x nx ex)

theorem unique_step (s s' : Net) (hu : Unique s) (st : Step s s') : Unique s' := by
  cases st with
  | pass h nh e hm => rw [pass_eq s h nh e hm]; exact unique_passTo s h _ nh e hm hu
  | gapPoll h nh e hm => exact unique_gapPoll s h hu
  | dropNs h nh e hm _ _ => exact unique_dropNs s h hu
  | leave a na e _ => exact unique_leave s a hu
  | join a e => exact unique_join s a hu
  | claim a na e hno => exact unique_claim s a hno

theorem unique_reach (s0 s : Net) (hu : Unique s0) (hr : Reach s0 s) : Unique s := by
  induction hr with
  | refl => exact hu
  | step s s' _ st ih => exact unique_step s s' ih st


/-! ### Agreement -/

/-- What a station in the ring knows when the ring agrees on the member set `M`. -/
structure ViewOk (M : List Nat) (x : Nat) (r : TokenRing) : Prop where
  ts : r.ts = x
  valid : r.las = .valid
  las : LasIs r M
  nbr : Nbr r

/-- **Agreement**: the stations in the ring (ActiveIdle or holding) are exactly `M`, each has a
valid LAS equal to `M` with NS/PS derived from it, and `h` — a member — is the one token holder. -/
structure Agreed (s : Net) (M : List Nat) (h : Nat) : Prop where
  ring : IsRing M
  hmem : h ∈ M
  members : ∀ x, x ∈ M ↔ ∃ nx, s.node x = some nx ∧ nx.mode ≠ .listen
  view : ∀ x nx, s.node x = some nx → nx.mode ≠ .listen → ViewOk M x nx.ring ∧ nx.pend = none
  holder : ∀ x nx, s.node x = some nx → (nx.mode = .hold ↔ x = h)

/-- A view with LAS = `M` is unchanged (as far as `ViewOk` goes) by witnessing a member's pass to
its cyclic successor. -/
theorem viewOk_witness (M : List Nat) (hM : IsRing M) (x h : Nat) (r : TokenRing) (hh : h ∈ M) (v : ViewOk M x r) :
    ViewOk M x (r.witness h (cycSucc h M)) := by
  have hn := cycSucc_mem h M hh
  rw [witness_valid r h _ v.valid (hM.bound h hh) (hM.bound _ hn)]
  exact ⟨(updateLas_las r _ _).2.trans v.ts, (updateLas_las r _ _).1.trans v.valid,
    updateLas_succ_stable r M h v.las hh, updateLas_nbr r _ _⟩

theorem viewOk_ns (M : List Nat) (hM : IsRing M) (x : Nat) (r : TokenRing) (v : ViewOk M x r) :
    r.ns = cycSucc x M ∧ r.ps = cycPred x M := by
  have := nbr_lasIs r M v.nbr v.las hM.bound
  rw [v.ts] at this
  exact this

theorem agreed_holder_node (s : Net) (M : List Nat) (h : Nat) (ag : Agreed s M h) :
    ∃ nh, s.node h = some nh ∧ nh.mode = .hold ∧ nh.ring.ns = cycSucc h M := by
  obtain ⟨nh, e, hm⟩ := (ag.members h).mp ag.hmem
  exact ⟨nh, e, (ag.holder h nh e).mpr rfl, (viewOk_ns M ag.ring h nh.ring (ag.view h nh e hm).1).1⟩

theorem agreed_nsOf (s : Net) (M : List Nat) (h : Nat) (ag : Agreed s M h) : nsOf s h = cycSucc h M := by
  obtain ⟨nh, e, _, hns⟩ := agreed_holder_node s M h ag
  unfold nsOf; rw [e]; exact hns

/-- In an agreeing ring the successor takes the token at once (it is ActiveIdle and the sender is its PS). -/
theorem agreed_accepted (s : Net) (M : List Nat) (h : Nat) (ag : Agreed s M h) :
    accepted s h (cycSucc h M) = decide (cycSucc h M ≠ h) := by
  have hn := cycSucc_mem h M ag.hmem
  obtain ⟨nn, e, hm⟩ := (ag.members _).mp hn
  unfold accepted
  rw [e]
  unfold accepts
  by_cases c : cycSucc h M = h
  · simp [c]
  · have hidle : nn.mode = .idle := by
      have := ag.holder _ nn e
      cases hmode : nn.mode with
      | idle => rfl
      | listen => exact absurd hmode hm
      | hold => exact absurd (this.mp hmode) c
    have hps : nn.ring.ps = h := by
      rw [(viewOk_ns M ag.ring _ nn.ring (ag.view _ nn e hm).1).2]
      exact cycPred_cycSucc h M ag.ring.asc ag.hmem
    simp [c, hidle, hps]

/-- The exact effect of the holder's pass on every station of an agreeing ring. -/
theorem agreed_pass_node (s : Net) (M : List Nat) (h : Nat) (ag : Agreed s M h) (x : Nat) (nx : Node)
    (ex : s.node x = some nx) :
    (pass s h).node x = some (
      if x = h then { nx with ring := nx.ring.witness h (cycSucc h M),
                              mode := if cycSucc h M = h then .hold else .idle }
      else if x = cycSucc h M then { nx with mode := .hold, pend := none }
      else { nx with ring := nx.ring.witness h (cycSucc h M) }) := by
  obtain ⟨nh, e, hmode, hns⟩ := agreed_holder_node s M h ag
  rw [pass_eq s h nh e hmode, hns, passTo_node, ex, agreed_accepted s M h ag]
  simp only [Option.map_some, Option.some.injEq]
  unfold passNode
  by_cases c1 : x = h
  · subst c1
    rw [ex] at e; cases e
    rw [if_pos rfl, if_pos rfl]
    by_cases c : cycSucc x M = x
    · simp [c, hmode]
    · simp [c]
  · rw [if_neg c1, if_neg c1]
    by_cases c2 : x = cycSucc h M
    · rw [if_pos c2, if_pos c2]
      have hxm : x ∈ M := c2 ▸ cycSucc_mem h M ag.hmem
      obtain ⟨nx', e', hm⟩ := (ag.members x).mp hxm
      rw [ex] at e'; cases e'
      have hidle : nx.mode = .idle := by
        cases hmode' : nx.mode with
        | idle => rfl
        | listen => exact absurd hmode' hm
        | hold => exact absurd ((ag.holder x nx ex).mp hmode') c1
      have hps : nx.ring.ps = h := by
        rw [(viewOk_ns M ag.ring x nx.ring (ag.view x nx ex hm).1).2, c2]
        exact cycPred_cycSucc h M ag.ring.asc ag.hmem
      rw [hidle]
      simp only
      rw [if_pos hps]
    · rw [if_neg c2, if_neg c2]

/-- **Agreement is inductive under token passing**, and the token goes to the cyclic successor. -/
theorem agreed_pass (s : Net) (M : List Nat) (h : Nat) (ag : Agreed s M h) :
    Agreed (pass s h) M (cycSucc h M) := by
  have hn := cycSucc_mem h M ag.hmem
  have node' := agreed_pass_node s M h ag
  have dom : ∀ x, (pass s h).node x = none ↔ s.node x = none := by
    intro x
    obtain ⟨nh, e, hmode, _⟩ := agreed_holder_node s M h ag
    rw [pass_eq s h nh e hmode, passTo_node]
    cases s.node x <;> simp
  refine ⟨ag.ring, hn, fun x => ?_, fun x nx' ex' hm' => ?_, fun x nx' ex' => ?_⟩
  · rw [ag.members x]
    constructor
    · rintro ⟨nx, ex, hm⟩
      refine ⟨_, node' x nx ex, ?_⟩
      by_cases c1 : x = h
      · rw [if_pos c1]; simp only; split <;> simp
      · rw [if_neg c1]
        by_cases c2 : x = cycSucc h M
        · rw [if_pos c2]; simp
        · rw [if_neg c2]; exact hm
    · rintro ⟨nx', ex', hm'⟩
      cases ex : s.node x with
      | none => rw [(dom x).mpr ex] at ex'; cases ex'
      | some nx =>
        refine ⟨nx, rfl, ?_⟩
        rw [node' x nx ex] at ex'
        injection ex' with ex'
        subst ex'
        by_cases c1 : x = h
        · subst c1
          obtain ⟨nh, e, hmode, _⟩ := agreed_holder_node s M x ag
          rw [ex] at e; cases e
          rw [hmode]; simp
        · rw [if_neg c1] at hm'
          by_cases c2 : x = cycSucc h M
          · obtain ⟨nn, e, hmn⟩ := (ag.members x).mp (c2 ▸ hn)
            rw [ex] at e; cases e; exact hmn
          · rw [if_neg c2] at hm'; exact hm'
  · cases ex : s.node x with
    | none => rw [(dom x).mpr ex] at ex'; cases ex'
    | some nx =>
      rw [node' x nx ex] at ex'
      injection ex' with ex'
      subst ex'
      by_cases c1 : x = h
      · subst c1
        obtain ⟨nh, e, hmode, _⟩ := agreed_holder_node s M x ag
        rw [ex] at e; cases e
        have v := ag.view x nx ex (by rw [hmode]; simp)
        rw [if_pos rfl]
        exact ⟨viewOk_witness M ag.ring x x nx.ring ag.hmem v.1, v.2⟩
      · rw [if_neg c1] at hm' ⊢
        by_cases c2 : x = cycSucc h M
        · obtain ⟨nn, e, hmn⟩ := (ag.members x).mp (c2 ▸ hn)
          rw [ex] at e; cases e
          rw [if_pos c2]
          exact ⟨(ag.view x nx ex hmn).1, rfl⟩
        · rw [if_neg c2] at hm' ⊢
          have v := ag.view x nx ex hm'
          exact ⟨viewOk_witness M ag.ring x h nx.ring ag.hmem v.1, v.2⟩
  · cases ex : s.node x with
    | none => rw [(dom x).mpr ex] at ex'; cases ex'
    | some nx =>
      rw [node' x nx ex] at ex'
      injection ex' with ex'
      subst ex'
      by_cases c1 : x = h
      · subst c1
        rw [if_pos rfl]
        by_cases c : cycSucc x M = x
        · simp [c]
        · simp only [if_neg c]
          constructor
          · intro hc; cases hc
          · intro hc; exact absurd hc.symm c
      · rw [if_neg c1]
        by_cases c2 : x = cycSucc h M
        · rw [if_pos c2]; simp [c2]
        · rw [if_neg c2]
          simp only
          rw [ag.holder x nx ex]
          constructor
          · intro hc; exact absurd hc c1
          · intro hc; exact absurd hc c2

end AbstractRing
end PV
