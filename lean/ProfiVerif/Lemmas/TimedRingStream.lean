/-
Timed ring, N stations: list arithmetic about what a lagging listener has received of a chained suffix of
the transmission log — the arrived characters form a prefix of the concatenated bytes; a delivery extends
it; the transmissions whose telegrams a `receive_all_telegrams` call consumed had arrived completely.
Helper lemmas.
-/
import ProfiVerif.Lemmas.TimedRingBusN
import ProfiVerif.Lemmas.TimedRing2

namespace PV

/-- All bytes of a list of transmissions, in order. -/
def streamBytes (rs : List Transmission) : Bytes := (rs.map (·.bytes)).flatten
/-- Number of characters of `rs` complete at time `a`. -/
def arrivedLen (cfg : Cfg) (rs : List Transmission) (a : Int) : Nat := (rs.map fun t => cvis cfg t a).sum
/-- The characters of `rs` complete at time `a`, transmission by transmission. -/
def arrived (cfg : Cfg) (rs : List Transmission) (a : Int) : Bytes :=
  (rs.map fun t => t.bytes.take (cvis cfg t a)).flatten

/-- Chained w.r.t. the character times of `cfg`. -/
def CChained (cfg : Cfg) (l : List Transmission) : Prop :=
  l.Pairwise fun o t => o.start + ((cfg.ce (o.bytes.length - 1) : Nat) : Int) ≤ t.start

theorem streamBytes_cons (t : Transmission) (rs : List Transmission) : streamBytes (t :: rs) = t.bytes ++ streamBytes rs := rfl
theorem arrivedLen_cons (cfg : Cfg) (t : Transmission) (rs : List Transmission) (a : Int) :
    arrivedLen cfg (t :: rs) a = cvis cfg t a + arrivedLen cfg rs a := by simp [arrivedLen]
theorem arrived_cons (cfg : Cfg) (t : Transmission) (rs : List Transmission) (a : Int) :
    arrived cfg (t :: rs) a = t.bytes.take (cvis cfg t a) ++ arrived cfg rs a := rfl

theorem arrivedLen_append (cfg : Cfg) (r1 r2 : List Transmission) (a : Int) :
    arrivedLen cfg (r1 ++ r2) a = arrivedLen cfg r1 a + arrivedLen cfg r2 a := by simp [arrivedLen]
theorem streamBytes_append (r1 r2 : List Transmission) : streamBytes (r1 ++ r2) = streamBytes r1 ++ streamBytes r2 := by
  simp [streamBytes]

theorem arrivedLen_le (cfg : Cfg) : ∀ (rs : List Transmission) (a : Int), arrivedLen cfg rs a ≤ (streamBytes rs).length := by
  intro rs a
  induction rs with
  | nil => simp [arrivedLen, streamBytes]
  | cons t rs ih =>
    rw [arrivedLen_cons, streamBytes_cons, List.length_append]
    have := cvis_le cfg t a
    omega

/-- Behind a transmission that has not arrived completely nothing has arrived at all. -/
theorem arrived_zero_behind (cfg : Cfg) (hr : 0 < cfg.rate) (t : Transmission) (rs : List Transmission) (a : Int)
    (hc : CChained cfg (t :: rs)) (hn : 0 < t.bytes.length) (hlt : cvis cfg t a < t.bytes.length) :
    ∀ t' ∈ rs, cvis cfg t' a = 0 := by
  intro t' ht'
  have h1 := vis_lt_full _ (ce_monoI cfg) t.bytes.length t.start a hn hlt
  have h2 := (List.pairwise_cons.1 hc).1 t' ht'
  have h3 := cfg.ce_pos hr 0
  apply cvis_zero
  omega

theorem arrivedLen_zero (cfg : Cfg) (rs : List Transmission) (a : Int) (h : ∀ t ∈ rs, cvis cfg t a = 0) :
    arrivedLen cfg rs a = 0 := by
  induction rs with
  | nil => rfl
  | cons t rs ih =>
    rw [arrivedLen_cons, h t (List.mem_cons_self ..), ih (fun t' ht' => h t' (List.mem_cons_of_mem _ ht'))]

theorem arrived_nil_of_zero (cfg : Cfg) (rs : List Transmission) (a : Int) (h : ∀ t ∈ rs, cvis cfg t a = 0) :
    arrived cfg rs a = [] := by
  induction rs with
  | nil => rfl
  | cons t rs ih =>
    rw [arrived_cons, h t (List.mem_cons_self ..), ih (fun t' ht' => h t' (List.mem_cons_of_mem _ ht'))]
    rfl

/-- The arrived characters are a prefix of the concatenated bytes. -/
theorem arrived_take (cfg : Cfg) (hr : 0 < cfg.rate) : ∀ (rs : List Transmission) (a : Int), CChained cfg rs →
    (∀ t ∈ rs, 0 < t.bytes.length) → arrived cfg rs a = (streamBytes rs).take (arrivedLen cfg rs a) := by
  intro rs a
  induction rs with
  | nil => intro _ _; rfl
  | cons t rs ih =>
    intro hc hpos
    have hn := hpos t (List.mem_cons_self ..)
    rw [arrived_cons, streamBytes_cons, arrivedLen_cons]
    by_cases hfull : cvis cfg t a = t.bytes.length
    · rw [ih (List.pairwise_cons.1 hc).2 (fun t' ht' => hpos t' (List.mem_cons_of_mem _ ht')), hfull]
      rw [List.take_append]
      simp
      exact (List.take_of_length_le (by omega)).symm
    · have hlt : cvis cfg t a < t.bytes.length := by have := cvis_le cfg t a; omega
      have hz := arrived_zero_behind cfg hr t rs a hc hn hlt
      rw [arrived_nil_of_zero cfg rs a hz, arrivedLen_zero cfg rs a hz, List.append_nil, Nat.add_zero,
        List.take_append_of_le_length (by omega)]

/-- If not everything of `r1` has arrived, nothing of what follows has. -/
theorem arrivedLen_behind (cfg : Cfg) (hr : 0 < cfg.rate) : ∀ (r1 r2 : List Transmission) (a : Int), CChained cfg (r1 ++ r2) →
    (∀ t ∈ r1, 0 < t.bytes.length) → arrivedLen cfg r1 a < (streamBytes r1).length → arrivedLen cfg r2 a = 0 := by
  intro r1
  induction r1 with
  | nil => intro r2 a _ _ h; simp [arrivedLen, streamBytes] at h
  | cons t r1 ih =>
    intro r2 a hc hpos hlt
    have hn := hpos t (List.mem_cons_self ..)
    rw [List.cons_append] at hc
    rw [arrivedLen_cons, streamBytes_cons, List.length_append] at hlt
    by_cases hfull : cvis cfg t a = t.bytes.length
    · exact ih r2 a (List.pairwise_cons.1 hc).2 (fun t' ht' => hpos t' (List.mem_cons_of_mem _ ht')) (by omega)
    · have hlt' : cvis cfg t a < t.bytes.length := by have := cvis_le cfg t a; omega
      have hz := arrived_zero_behind cfg hr t (r1 ++ r2) a hc hn hlt'
      exact arrivedLen_zero cfg r2 a (fun t' ht' => hz t' (List.mem_append_right _ ht'))

/-- One transmission: what was there plus what is delivered now is what is visible now. -/
theorem seg_extend (cfg : Cfg) (hr : 0 < cfg.rate) (b : Bus) (hb : b.rate = cfg.rate) (j : Nat) (t : Transmission)
    (hs : t.sender ≠ j) (seen now : Int) (hsn : seen ≤ now) :
    t.bytes.take (cvis cfg t seen) ++ b.seg j seen now t = t.bytes.take (cvis cfg t now) := by
  unfold Bus.seg
  rw [if_neg hs]
  have := Bus.take_vis_append b (by rw [hb]; exact hr) t seen now hsn
  rw [vis_cfg b cfg hb, vis_cfg b cfg hb] at this
  exact this

theorem seg_nil_of_full (cfg : Cfg) (hr : 0 < cfg.rate) (b : Bus) (hb : b.rate = cfg.rate) (j : Nat) (t : Transmission)
    (seen now : Int) (hsn : seen ≤ now) (hfull : cvis cfg t seen = t.bytes.length) : b.seg j seen now t = [] := by
  by_cases hs : t.sender = j
  · unfold Bus.seg; rw [if_pos hs]
  · have h1 := seg_extend cfg hr b hb j t hs seen now hsn
    have h2 : cvis cfg t now = t.bytes.length := by
      have := cvis_mono cfg t seen now hsn
      have := cvis_le cfg t now
      omega
    rw [hfull, h2] at h1
    have := congrArg List.length h1
    simp only [List.length_append] at this
    exact List.eq_nil_of_length_eq_zero (by omega)

/-- A chained list of other stations' transmissions: what had arrived plus what is delivered now is what
has arrived now. -/
theorem arrived_extend (cfg : Cfg) (hr : 0 < cfg.rate) (b : Bus) (hb : b.rate = cfg.rate) (j : Nat) (seen now : Int)
    (hsn : seen ≤ now) : ∀ rs : List Transmission, CChained cfg rs → (∀ t ∈ rs, 0 < t.bytes.length) →
    (∀ t ∈ rs, t.sender ≠ j) →
    arrived cfg rs seen ++ (rs.map (b.seg j seen now)).flatten = arrived cfg rs now := by
  intro rs
  induction rs with
  | nil => intro _ _ _; rfl
  | cons t rs ih =>
    intro hc hpos hs
    have hn := hpos t (List.mem_cons_self ..)
    have ih' := ih (List.pairwise_cons.1 hc).2 (fun t' ht' => hpos t' (List.mem_cons_of_mem _ ht'))
      (fun t' ht' => hs t' (List.mem_cons_of_mem _ ht'))
    simp only [arrived_cons, List.map_cons, List.flatten_cons]
    by_cases hfull : cvis cfg t seen = t.bytes.length
    · rw [seg_nil_of_full cfg hr b hb j t seen now hsn hfull, List.nil_append, List.append_assoc, ih']
      have h2 : cvis cfg t now = t.bytes.length := by
        have := cvis_mono cfg t seen now hsn
        have := cvis_le cfg t now
        omega
      rw [hfull, h2]
    · have hlt : cvis cfg t seen < t.bytes.length := by have := cvis_le cfg t seen; omega
      have hz := arrived_zero_behind cfg hr t rs seen hc hn hlt
      rw [arrived_nil_of_zero cfg rs seen hz] at ih' ⊢
      rw [List.append_nil, ← List.append_assoc, seg_extend cfg hr b hb j t (hs t (List.mem_cons_self ..)) seen now hsn]
      rw [List.nil_append] at ih'
      rw [ih']

/-- Segments of transmissions that are over for station `j` (sent by it, or completely delivered). -/
theorem seg_done (cfg : Cfg) (hr : 0 < cfg.rate) (b : Bus) (hb : b.rate = cfg.rate) (j : Nat) (seen now : Int)
    (hsn : seen ≤ now) (dn : List Transmission)
    (hd : ∀ o ∈ dn, o.sender = j ∨ (0 < o.bytes.length ∧ o.start + ((cfg.ce (o.bytes.length - 1) : Nat) : Int) ≤ seen)) :
    (dn.map (b.seg j seen now)).flatten = [] := by
  induction dn with
  | nil => rfl
  | cons o dn ih =>
    simp only [List.map_cons, List.flatten_cons]
    rw [ih (fun o' ho' => hd o' (List.mem_cons_of_mem _ ho')), List.append_nil]
    rcases hd o (List.mem_cons_self ..) with h | ⟨hn, h⟩
    · unfold Bus.seg; rw [if_pos h]
    · exact seg_nil_of_full cfg hr b hb j o seen now hsn (cvis_full cfg o seen hn h)

/-- A `receive_all_telegrams` call that returns `Some` flagged its last telegram `is_last`. -/
theorem receiveAllFuel_ret_last : ∀ (fuel : Nat) (buf : Bytes) (acc : List (Telegram × Bool)) (b : Bytes)
    (calls : List (Telegram × Bool)), receiveAllFuel fuel buf acc = .done b calls true →
    ∃ pre t, calls = pre ++ [(t, true)] := by
  intro fuel
  induction fuel with
  | zero => intro buf acc b calls h; simp [receiveAllFuel] at h
  | succ f ih =>
    intro buf acc b calls h
    unfold receiveAllFuel at h
    split at h
    · cases h
    · cases h
    · cases h
    · split at h
      · cases h
      · split at h
        · cases h; exact ⟨acc, _, rfl⟩
        · exact ih _ _ _ _ h

theorem receiveAll_ret_last (buf b : Bytes) (calls : List (Telegram × Bool)) (h : receiveAll buf = .done b calls true) :
    ∃ pre t, calls = pre ++ [(t, true)] := receiveAllFuel_ret_last _ _ _ _ _ h

theorem arrivedLen_full (cfg : Cfg) : ∀ (rs : List Transmission) (a : Int),
    arrivedLen cfg rs a = (streamBytes rs).length → ∀ t ∈ rs, cvis cfg t a = t.bytes.length := by
  intro rs a
  induction rs with
  | nil => intro _ t ht; cases ht
  | cons t0 rs ih =>
    intro h t ht
    rw [arrivedLen_cons, streamBytes_cons, List.length_append] at h
    have h1 := cvis_le cfg t0 a
    have h2 := arrivedLen_le cfg rs a
    rcases List.mem_cons.1 ht with rfl | ht
    · omega
    · exact ih (by omega) t ht

theorem streamOf_map (tel : Transmission → Telegram) : ∀ rs : List Transmission, (∀ t ∈ rs, t.bytes = (tel t).wire) →
    streamOf (rs.map tel) = streamBytes rs := by
  intro rs
  induction rs with
  | nil => intro _; rfl
  | cons t rs ih =>
    intro h
    have := ih (fun t' ht' => h t' (List.mem_cons_of_mem _ ht'))
    simp only [streamOf, List.map_cons, List.flatten_cons] at this ⊢
    rw [this, ← h t (List.mem_cons_self ..)]
    rfl

/-- **What one `receive_all_telegrams` call makes of the characters that have arrived** of a chained list `rs`
of transmissions carrying valid telegrams: it delivers the telegrams of a prefix `rs.take k` — all of which
have arrived completely —, leaves exactly what has arrived of the rest, and the head of the rest is
incomplete. -/
theorem consume (cfg : Cfg) (hr : 0 < cfg.rate) (tel : Transmission → Telegram) (rs : List Transmission) (now : Int)
    (hc : CChained cfg rs)
    (hw : ∀ t ∈ rs, t.bytes = (tel t).wire ∧ (tel t).Valid ∧ 0 < t.bytes.length) :
    ∃ k b' d ret, receiveAll (arrived cfg rs now) = .done b' d ret ∧ k ≤ rs.length ∧
      d.map Prod.fst = (rs.take k).map tel ∧ (∀ x ∈ d.dropLast, x.2 = false) ∧
      (∀ t ∈ rs.take k, cvis cfg t now = t.bytes.length) ∧
      b' = arrived cfg (rs.drop k) now ∧
      (∀ t rest, rs.drop k = t :: rest → cvis cfg t now < t.bytes.length ∧ b' = t.bytes.take (cvis cfg t now) ∧
          ∀ t' ∈ rest, cvis cfg t' now = 0) ∧
      (rs.drop k = [] → b' = []) ∧
      (d ≠ [] → b' = [] → ∃ pre t, d = pre ++ [(t, true)]) ∧ (d = [] → k = 0) := by
  have hpos : ∀ t ∈ rs, 0 < t.bytes.length := fun t ht => (hw t ht).2.2
  have hS : streamOf (rs.map tel) = streamBytes rs := streamOf_map tel rs (fun t ht => (hw t ht).1)
  rw [arrived_take cfg hr rs now hc hpos]
  obtain ⟨d, ts', b', ret, hrec, hts, hb', hhead, -, hret⟩ := C16.receiveAll_stream (rs.map tel)
    ((streamBytes rs).take (arrivedLen cfg rs now)) ((streamBytes rs).drop (arrivedLen cfg rs now))
    (by rw [List.take_append_drop, hS]) (by
      intro t ht
      obtain ⟨t0, ht0, rfl⟩ := List.mem_map.1 ht
      exact (hw t0 ht0).2.1)
  have hk : d.length ≤ rs.length := by
    have := congrArg List.length hts
    simp only [List.length_map, List.length_append] at this
    omega
  have hsplit : rs = rs.take d.length ++ rs.drop d.length := (List.take_append_drop _ _).symm
  have h1 : d.map Prod.fst = (rs.take d.length).map tel := by
    have := congrArg (List.take d.length) hts
    rw [← List.map_take, List.take_left' (by simp)] at this
    exact this.symm
  have h2 : ts' = (rs.drop d.length).map tel := by
    have := congrArg (List.drop d.length) hts
    rw [← List.map_drop, List.drop_left' (by simp)] at this
    exact this.symm
  have hc' : CChained cfg (rs.take d.length ++ rs.drop d.length) := by rw [← hsplit]; exact hc
  have hc2 : CChained cfg (rs.drop d.length) := (List.pairwise_append.1 hc').2.1
  have hpos1 : ∀ t ∈ rs.take d.length, 0 < t.bytes.length := fun t ht => hpos t (List.mem_of_mem_take ht)
  have hpos2 : ∀ t ∈ rs.drop d.length, 0 < t.bytes.length := fun t ht => hpos t (List.mem_of_mem_drop ht)
  have hS2 : streamOf ts' = streamBytes (rs.drop d.length) := by
    rw [h2]; exact streamOf_map tel _ (fun t ht => (hw t (List.mem_of_mem_drop ht)).1)
  have hSS : streamBytes rs = streamBytes (rs.take d.length) ++ streamBytes (rs.drop d.length) := by
    rw [← streamBytes_append, ← hsplit]
  have hm : arrivedLen cfg rs now = arrivedLen cfg (rs.take d.length) now + arrivedLen cfg (rs.drop d.length) now := by
    rw [← arrivedLen_append, ← hsplit]
  have hmle := arrivedLen_le cfg rs now
  have hle1 := arrivedLen_le cfg (rs.take d.length) now
  rw [hS2] at hb'
  have hlen := congrArg List.length hb'
  rw [List.length_append, List.length_drop] at hlen
  have hlenS := congrArg List.length hSS
  rw [List.length_append] at hlenS
  have ha1 : arrivedLen cfg (rs.take d.length) now = (streamBytes (rs.take d.length)).length := by
    apply Classical.byContradiction
    intro hne
    have := arrivedLen_behind cfg hr _ _ now hc' hpos1 (by omega)
    omega
  have ha2 : arrivedLen cfg (rs.drop d.length) now = b'.length := by omega
  have hbeq : b' = (streamBytes (rs.drop d.length)).take (arrivedLen cfg (rs.drop d.length) now) := by
    have e : (streamBytes rs).drop (arrivedLen cfg rs now) =
        (streamBytes (rs.drop d.length)).drop (arrivedLen cfg (rs.drop d.length) now) := by
      rw [hSS, hm, ha1, List.drop_append]
      simp
    rw [e] at hb'
    have h3 := List.take_append_drop (arrivedLen cfg (rs.drop d.length) now) (streamBytes (rs.drop d.length))
    rw [← h3] at hb'
    have hl : b'.length = ((streamBytes (rs.drop d.length)).take (arrivedLen cfg (rs.drop d.length) now)).length := by
      rw [List.length_take]
      have := arrivedLen_le cfg (rs.drop d.length) now
      omega
    exact (List.append_inj hb' hl).1
  refine ⟨d.length, b', d, ret, hrec, hk, h1, receiveAll_flags _ _ _ _ hrec, arrivedLen_full cfg _ now ha1, ?_, ?_, ?_, ?_, ?_⟩
  · rw [arrived_take cfg hr _ now hc2 hpos2]; exact hbeq
  · intro t rest hdr
    have hhd : ts'.head? = some (tel t) := by rw [h2, hdr]; rfl
    have hlt := hhead _ hhd
    rw [← (hw t (by rw [hsplit]; apply List.mem_append_right; rw [hdr]; exact List.mem_cons_self ..)).1] at hlt
    rw [hdr] at hc2 ha2 hbeq hpos2
    rw [arrivedLen_cons] at ha2
    have hvlt : cvis cfg t now < t.bytes.length := by omega
    have hz := arrived_zero_behind cfg hr t rest now hc2 (hpos2 t (List.mem_cons_self ..)) hvlt
    refine ⟨hvlt, ?_, hz⟩
    rw [hbeq, arrivedLen_cons, arrivedLen_zero cfg rest now hz, Nat.add_zero, streamBytes_cons,
      List.take_append_of_le_length (by omega)]
  · intro hdr
    rw [hdr] at ha2
    simp [arrivedLen] at ha2
    exact List.eq_nil_of_length_eq_zero ha2.symm
  · intro hd hbn
    have : ret = true := hret.2 ⟨hd, hbn⟩
    subst this
    exact receiveAll_ret_last _ _ _ hrec
  · intro hd; rw [hd]; rfl

end PV
